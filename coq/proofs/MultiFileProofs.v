(* C11 proofs, part 3: dealing files / row groups to p >= 1 partitions loses and repeats nothing. *)
From Coq Require Import List Arith Bool Lia Permutation NArith.
From GV Require Import model.MultiFile.
Import ListNotations.

Lemma flat_map_app_ : forall {A B} (f : A -> list B) l1 l2, flat_map f (l1 ++ l2) = flat_map f l1 ++ flat_map f l2.
Proof. intros A B f l1 l2; induction l1 as [|x r IH]; cbn; [reflexivity|]. rewrite IH, app_assoc. reflexivity. Qed.

Lemma flat_map_map_ : forall {A B C} (g : A -> B) (f : B -> list C) l, flat_map f (map g l) = flat_map (fun x => f (g x)) l.
Proof. intros A B C g f l; induction l as [|x r IH]; cbn; [reflexivity|]. rewrite IH. reflexivity. Qed.

Lemma perm_flat_map : forall {A B} (f : A -> list B) l1 l2, Permutation l1 l2 -> Permutation (flat_map f l1) (flat_map f l2).
Proof.
  intros A B f l1 l2 H; induction H as [|x l l' H IH|x y l|l l' l'' H1 IH1 H2 IH2]; cbn.
  - constructor.
  - apply Permutation_app_head. exact IH.
  - rewrite !app_assoc. apply Permutation_app_tail. apply Permutation_app_comm.
  - eapply Permutation_trans; eassumption.
Qed.

(* ---- skip(k).step_by(p) over the partitions 0 .. p-1 ---- *)
Lemma deal_union : forall {A} q (l : list A),
  Permutation (flat_map (fun k => deal (S q) k l) (seq 0 (S q))) l.
Proof.
  intros A q l; induction l as [|x r IH].
  - assert (E : forall ks, flat_map (fun k => @deal A (S q) k []) ks = []).
    { induction ks as [|k ks IHk]; cbn; [reflexivity|exact IHk]. }
    rewrite E. constructor.
  - cbn [seq flat_map]. cbn [deal]. rewrite <- seq_shift, flat_map_map_. cbn [deal].
    replace (S q - 1) with q by lia.
    rewrite seq_S in IH. rewrite flat_map_app_ in IH. cbn [flat_map] in IH. rewrite app_nil_r in IH.
    cbn [app]. constructor.
    eapply Permutation_trans; [apply Permutation_app_comm|exact IH].
Qed.

(* ---- idx % p ---- *)
Lemma flat_map_pick_notin : forall {A} (key : nat) (x : A) (G : nat -> list A) ks,
  ~ In key ks ->
  flat_map (fun k => if Nat.eqb key k then x :: G k else G k) ks = flat_map G ks.
Proof.
  intros A key x G ks; induction ks as [|k r IH]; intro H; cbn; [reflexivity|].
  destruct (Nat.eqb_spec key k) as [->|_]; [exfalso; apply H; left; reflexivity|].
  rewrite IH; [reflexivity|]. intro Hin; apply H; right; exact Hin.
Qed.

Lemma flat_map_pick : forall {A} (key : nat) (x : A) (G : nat -> list A) ks,
  NoDup ks -> In key ks ->
  Permutation (flat_map (fun k => if Nat.eqb key k then x :: G k else G k) ks) (x :: flat_map G ks).
Proof.
  intros A key x G ks; induction ks as [|k r IH]; intros Hnd Hin; [destruct Hin|].
  inversion Hnd as [|? ? Hnk Hnd']; subst. cbn [flat_map].
  destruct (Nat.eqb_spec key k) as [->|Hne].
  - rewrite flat_map_pick_notin by exact Hnk. reflexivity.
  - destruct Hin as [->|Hin]; [contradiction|].
    eapply Permutation_trans; [apply Permutation_app_head; apply IH; assumption|].
    apply Permutation_sym, Permutation_middle.
Qed.

Lemma filter_key_union : forall {A} (key : A -> nat) p (l : list A),
  (forall x, In x l -> key x < p) ->
  Permutation (flat_map (fun k => filter (fun x => Nat.eqb (key x) k) l) (seq 0 p)) l.
Proof.
  intros A key p l; induction l as [|x r IH]; intro Hk.
  - assert (E : forall ks, flat_map (fun k => filter (fun x : A => Nat.eqb (key x) k) []) ks = []).
    { induction ks as [|k ks IHk]; cbn; [reflexivity|exact IHk]. }
    rewrite E. constructor.
  - cbn [filter].
    eapply Permutation_trans;
      [apply (flat_map_pick (key x) x (fun k => filter (fun y => Nat.eqb (key y) k) r) (seq 0 p))|].
    + apply seq_NoDup.
    + apply in_seq. pose proof (Hk x (or_introl eq_refl)). lia.
    + constructor. apply IH. intros y Hy; apply Hk; right; exact Hy.
Qed.

Lemma indexed_from_snd : forall {A} i (l : list A), map snd (indexed_from i l) = l.
Proof. intros A i l; revert i; induction l as [|x r IH]; intro i; cbn; [reflexivity|]. rewrite IH. reflexivity. Qed.

Lemma deal_mod_union : forall {A} q (l : list A),
  Permutation (flat_map (fun k => deal_mod (S q) k l) (seq 0 (S q))) l.
Proof.
  intros A q l. unfold deal_mod.
  set (ix := indexed_from 0 l).
  assert (E : forall ks, flat_map (fun k => map snd (filter (fun p0 : nat * A => Nat.eqb (fst p0 mod S q) k) ix)) ks
              = map snd (flat_map (fun k => filter (fun p0 : nat * A => Nat.eqb (fst p0 mod S q) k) ix) ks)).
  { induction ks as [|k ks IHk]; cbn [flat_map]; [reflexivity|]. rewrite map_app, IHk. reflexivity. }
  rewrite E. rewrite <- (indexed_from_snd 0 l) at 1. fold ix.
  apply Permutation_map.
  apply (filter_key_union (fun p0 : nat * A => fst p0 mod S q) (S q) ix).
  intros x _. apply Nat.mod_upper_bound. discriminate.
Qed.

(* ---- T: multifile_union ---- *)
Section Scan.
  Variables (F R G : Type).
  Variable scan : F -> list R.
  Variable rgs : F -> list G.
  Variable rg_scan : G -> list R.

  Lemma flat_map_flat_map : forall {A B C} (f : B -> list C) (g : A -> list B) l,
    flat_map f (flat_map g l) = flat_map (fun x => flat_map f (g x)) l.
  Proof. intros A B C f g l; induction l as [|x r IH]; cbn; [reflexivity|]. rewrite flat_map_app_, IH. reflexivity. Qed.

  Lemma multifile_union : forall p files, 1 <= p ->
    Permutation (multi_scan F R scan p files) (flat_map scan files).
  Proof.
    intros p files Hp. destruct p as [|q]; [lia|].
    unfold multi_scan, part_scan.
    rewrite <- (flat_map_flat_map scan (fun k => deal (S q) k files)).
    apply perm_flat_map. apply deal_union.
  Qed.

  Lemma flat_map_app_fn : forall {A B} (f g : A -> list B) l,
    Permutation (flat_map (fun x => f x ++ g x) l) (flat_map f l ++ flat_map g l).
  Proof.
    intros A B f g l; induction l as [|x r IH]; cbn; [constructor|].
    rewrite <- !app_assoc. apply Permutation_app_head.
    eapply Permutation_trans; [apply Permutation_app_head; exact IH|].
    rewrite !app_assoc. apply Permutation_app_tail. apply Permutation_app_comm.
  Qed.

  (* read_parquet: the row groups of the first file by idx % p, the other files by skip/step_by *)
  Lemma pq_multifile_union : forall p files, 1 <= p ->
    Permutation (pq_multi_scan F R G rgs rg_scan p files)
                (flat_map (fun f => flat_map rg_scan (rgs f)) files).
  Proof.
    intros p files Hp. destruct p as [|q]; [lia|].
    unfold pq_multi_scan. destruct files as [|first rest].
    - cbn [pq_part_scan]. assert (E : forall ks, flat_map (fun _ : nat => @nil R) ks = []).
      { induction ks as [|k ks IHk]; cbn; [reflexivity|exact IHk]. }
      rewrite E. constructor.
    - cbn [pq_part_scan flat_map].
      eapply Permutation_trans; [apply flat_map_app_fn|].
      apply Permutation_app.
      + rewrite <- (flat_map_flat_map rg_scan (fun k => deal_mod (S q) k (rgs first))).
        apply perm_flat_map. apply deal_mod_union.
      + rewrite <- (flat_map_flat_map (fun f => flat_map rg_scan (rgs f)) (fun k => deal (S q) k rest)).
        apply perm_flat_map. apply deal_union.
  Qed.
End Scan.

(* each file is handed to exactly one partition *)
Lemma nodup_app_r : forall {A} (l1 l2 : list A), NoDup (l1 ++ l2) -> NoDup l2.
Proof. intros A l1 l2; induction l1 as [|x r IH]; cbn; intro H; [exact H|]. inversion H; subst. apply IH; assumption. Qed.
Lemma nodup_flat_map_unique : forall {A} (Fk : nat -> list A) ks x k1 k2,
  NoDup (flat_map Fk ks) -> In k1 ks -> In k2 ks -> In x (Fk k1) -> In x (Fk k2) -> k1 = k2.
Proof.
  intros A Fk ks x k1 k2; induction ks as [|k r IH]; intros Hnd H1 H2 Hx1 Hx2; [destruct H1|].
  cbn [flat_map] in Hnd.
  assert (Hnd_r : NoDup (flat_map Fk r)) by (apply nodup_app_r in Hnd; exact Hnd).
  assert (Hdisj : forall y k', In y (Fk k) -> In k' r -> In y (Fk k') -> False).
  { intros y k' Hy Hk' Hy'. revert Hnd. clear -Hy Hk' Hy'.
    induction (Fk k) as [|z l IHl]; [destruct Hy|]. cbn. intro Hnd. inversion Hnd as [|? ? Hnz Hnd']; subst.
    destruct Hy as [->|Hy]; [|apply IHl; assumption].
    apply Hnz. apply in_or_app. right. apply in_flat_map. exists k'. split; assumption. }
  destruct H1 as [<-|H1], H2 as [<-|H2]; [reflexivity| | |apply IH; assumption].
  - exfalso. eapply Hdisj; eassumption.
  - exfalso. eapply Hdisj; eassumption.
Qed.

Lemma multifile_exactly_once : forall {A} p (files : list A) f, 1 <= p -> NoDup files -> In f files ->
  exists k, k < p /\ In f (deal p k files) /\ forall k', k' < p -> In f (deal p k' files) -> k' = k.
Proof.
  intros A p files f Hp Hnd Hin. destruct p as [|q]; [lia|].
  pose proof (deal_union q files) as HP.
  assert (Hin' : In f (flat_map (fun k => deal (S q) k files) (seq 0 (S q)))).
  { eapply Permutation_in; [apply Permutation_sym; exact HP|exact Hin]. }
  apply in_flat_map in Hin'. destruct Hin' as (k & Hk & Hfk).
  exists k. split; [apply in_seq in Hk; lia|]. split; [exact Hfk|].
  intros k' Hk' Hfk'.
  apply (nodup_flat_map_unique (fun k => deal (S q) k files) (seq 0 (S q)) f k' k).
  - eapply Permutation_NoDup; [apply Permutation_sym; exact HP|exact Hnd].
  - apply in_seq. lia.
  - exact Hk.
  - exact Hfk'.
  - exact Hfk.
Qed.

Example multifile_hyps_sat : 1 <= 4 /\ NoDup [10; 11; 12; 13; 14; 15] /\
  map (fun k => deal 4 k [10; 11; 12; 13; 14; 15]) (seq 0 4) = [[10; 14]; [11; 15]; [12]; [13]] /\
  map (fun k => deal_mod 4 k [10; 11; 12; 13; 14; 15]) (seq 0 4) = [[10; 14]; [11; 15]; [12]; [13]].
Proof.
  split; [lia|]. split; [|split; vm_compute; reflexivity].
  repeat constructor; cbn; intuition discriminate.
Qed.

(* ---- no carry-over between the files a partition reads one after the other ---- *)
Lemma resize_length : forall buf size, length (resize buf size) = size.
Proof.
  intros buf size. unfold resize. rewrite app_length, firstn_length, repeat_length.
  destruct (Nat.le_ge_cases size (length buf)); lia.
Qed.

Lemma read_into_exact : forall buf file, length buf = length file -> read_into buf file = file.
Proof.
  intros buf file H. unfold read_into. rewrite H, firstn_all, <- H, skipn_all, app_nil_r. reflexivity.
Qed.

Lemma text_step_content : forall buf file, text_step true buf file = (file, Some file).
Proof.
  intros buf file. unfold text_step.
  rewrite (read_into_exact (resize buf (length file)) file (resize_length buf (length file))). reflexivity.
Qed.

(* T: whatever the buffer holds from earlier files, the row emitted for a file is that file *)
Lemma text_reader_no_carry_over : forall buf files, text_reader true buf files = map Some files.
Proof.
  intros buf files; revert buf; induction files as [|f r IH]; intro buf; [reflexivity|].
  cbn [text_reader map]. rewrite text_step_content. rewrite IH. reflexivity.
Qed.

Lemma text_reader_no_content : forall files, text_reader false [] files = map (fun _ => None) files.
Proof.
  induction files as [|f r IH]; [reflexivity|].
  cbn [text_reader map text_step]. replace (read_into [] f) with (@nil N); [rewrite IH; reflexivity|].
  unfold read_into. cbn [length firstn]. rewrite skipn_nil. reflexivity.
Qed.

(* the row of file i depends only on file i: two queues that agree at position i give the same row *)
Lemma text_reader_row_local : forall buf1 buf2 files1 files2 i f,
  nth_error files1 i = Some f -> nth_error files2 i = Some f ->
  nth_error (text_reader true buf1 files1) i = nth_error (text_reader true buf2 files2) i.
Proof.
  intros buf1 buf2 files1 files2 i f H1 H2. rewrite !text_reader_no_carry_over.
  rewrite (map_nth_error Some i files1 H1), (map_nth_error Some i files2 H2). reflexivity.
Qed.

Lemma text_multifile_union : forall p files, 1 <= p ->
  Permutation (text_multi true p files) (map Some files).
Proof.
  intros p files Hp. destruct p as [|q]; [lia|]. unfold text_multi, text_part.
  assert (E : forall ks, flat_map (fun k => text_reader true [] (deal (S q) k files)) ks
                         = map Some (flat_map (fun k => deal (S q) k files) ks)).
  { induction ks as [|k ks IHk]; cbn [flat_map map]; [reflexivity|].
    rewrite text_reader_no_carry_over, map_app, IHk. reflexivity. }
  rewrite E. apply Permutation_map. apply deal_union.
Qed.

(* REFUTED for the grow-only buffer: a 3-byte file followed by a 1-byte file in one queue *)
Lemma text_reader_grow_refuted :
  exists files, text_reader_grow [] files <> map Some files /\
                text_reader_grow [] files = [Some [1; 2; 3]; Some [9; 2; 3]]%N.
Proof.
  exists [[1; 2; 3]; [9]]%N. split; [|vm_compute; reflexivity].
  vm_compute. intro H. discriminate H.
Qed.

(* ---- the glob() table function emits every assigned path exactly once ---- *)
Lemma glob_pull_is_rev : forall {A} caps (l : list A),
  Forall (fun c => 1 <= c) caps -> length l <= length caps -> glob_pull caps l = rev l.
Proof.
  intros A caps; induction caps as [|cap r IH]; intros l Hc Hl.
  - destruct l; [reflexivity|cbn in Hl; lia].
  - inversion Hc as [|? ? Hcap Hr]; subst. cbn [glob_pull].
    destruct (Nat.min (length l) cap) as [|c'] eqn:Hm.
    + destruct l as [|x l']; [reflexivity|]. cbn [length] in Hm. lia.
    + set (count := S c') in *.
      assert (Hle : count <= length l) by lia.
      rewrite IH; [|exact Hr|].
      * rewrite <- (skipn_rev count l). apply firstn_skipn.
      * rewrite firstn_length. cbn [length] in Hl. lia.
Qed.

Lemma perm_flat_map_pointwise : forall {A B} (F G : A -> list B) ks,
  (forall k, In k ks -> Permutation (F k) (G k)) -> Permutation (flat_map F ks) (flat_map G ks).
Proof.
  intros A B F G ks; induction ks as [|k r IH]; intro H; cbn [flat_map]; [constructor|].
  apply Permutation_app; [apply H; left; reflexivity|]. apply IH. intros k' Hk; apply H; right; exact Hk.
Qed.

(* T: for any capacities >= 1 and enough polls, over all partitions, every path exactly once *)
Lemma glob_table_function_exact : forall {A} (caps : nat -> list nat) p (paths : list A), 1 <= p ->
  (forall k, k < p -> Forall (fun c => 1 <= c) (caps k) /\ length (deal p k paths) <= length (caps k)) ->
  Permutation (glob_multi caps p paths) paths.
Proof.
  intros A caps p paths Hp Hc. destruct p as [|q]; [lia|]. unfold glob_multi, glob_part.
  eapply Permutation_trans; [|apply (deal_union q paths)].
  apply perm_flat_map_pointwise. intros k Hk. apply in_seq in Hk.
  destruct (Hc k ltac:(lia)) as [H1 H2]. rewrite (glob_pull_is_rev (caps k) _ H1 H2).
  apply Permutation_sym, Permutation_rev.
Qed.

Example glob_pull_hyps_sat :
  glob_pull [2; 2; 2] [1; 2; 3; 4; 5] = [5; 4; 3; 2; 1] /\ Forall (fun c => 1 <= c) [2; 2; 2].
Proof. split; [vm_compute; reflexivity|repeat constructor]. Qed.

(* REFUTED without `.rev()`: leading paths repeat, trailing paths are never listed, the count is right *)
Lemma glob_pull_norev_refuted :
  exists caps (l : list nat), Forall (fun c => 1 <= c) caps /\ length l <= length caps /\
    glob_pull_norev caps l = [1; 2; 1; 2; 1] /\ length (glob_pull_norev caps l) = length l /\
    ~ Permutation (glob_pull_norev caps l) l.
Proof.
  exists [2; 2; 2; 2; 2], [1; 2; 3; 4; 5]. split; [repeat constructor|]. split; [cbn; lia|].
  split; [vm_compute; reflexivity|]. split; [vm_compute; reflexivity|].
  intro H. assert (In 5 (glob_pull_norev [2; 2; 2; 2; 2] [1; 2; 3; 4; 5])).
  { eapply Permutation_in; [apply Permutation_sym; exact H|]. cbn. intuition. }
  vm_compute in H0. intuition discriminate.
Qed.
