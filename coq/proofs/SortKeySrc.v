(* Statements about the constants read from the current source (gen/Tables.v).
   Kept apart from SortKeyProofs.v so that the general lemmas stay compiled when
   a source constant changes and one of these obligations stops checking. *)
From Coq Require Import NArith ZArith List Bool Lia.
From GV Require Import lib.Bytes model.SortKey proofs.SortKeyProofs gen.Tables.
Import ListNotations.
Open Scope N_scope.

Lemma unsigned_key_order : forall w a b, (0 < w)%nat -> a < 2 ^ bitsw w -> b < 2 ^ bitsw w ->
  lex_cmp (encode_val (KU w) (KBits a)) (encode_val (KU w) (KBits b)) = N.compare a b.
Proof.
  intros w a b Hw Ha Hb. cbn [encode_val]. unfold enc_unsigned.
  apply be_bytes_order; rewrite pow256_bitsw; assumption.
Qed.

Lemma src_float_keys_order :
  forall w sh, In (w, sh) [(2%nat, f16_shift); (4%nat, f32_shift); (8%nat, f64_shift)] ->
  exists k, sh = Some k /\ forall a b, a < 2 ^ bitsw w -> b < 2 ^ bitsw w ->
    lex_cmp (encode_val (KF w k) (KBits a)) (encode_val (KF w k) (KBits b))
    = Z.compare (float_rank w a) (float_rank w b).
Proof.
  intros w sh Hin. cbn [In] in Hin.
  destruct Hin as [E|[E|[E|[]]]]; inversion E; subst; clear E;
    (eexists; split; [reflexivity|]; intros a b Ha Hb; cbn [encode_val];
     match goal with |- context [enc_float ?w0 ?k _] =>
       replace k with (bitsw w0 - 1) by (vm_compute; reflexivity) end;
     apply float_key_order; [repeat constructor|assumption|assumption]).
Qed.

Lemma src_bool_ok :
  exists t, match bool_true_key, bool_false_key with Some t, Some f => Some (KBool t f) | _, _ => None end = Some t
            /\ kty_ok t.
Proof. eexists; split; [reflexivity|]. cbn. split; reflexivity. Qed.
