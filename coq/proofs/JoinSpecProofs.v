(* C06 — spec-level facts about `Sql.join_rows` (the declarative nested-loop definition).

   Device: when every evaluation of the join condition on a pair is `Ok`, `join_rows` equals a pure
   list function `pure_join` (lemma `join_rows_pure`); all later facts are list facts about it.
   `on_total on p L R` says exactly "all condition evaluations are Ok and their value is p l r". *)
From Coq Require Import NArith ZArith List Bool Lia.
From Coq Require Import Sorting.Permutation.
From GV Require Import model.Sql model.HashJoin.
Import ListNotations.

(* ------------------------------------------------------------------ small list / mapM lemmas *)

Lemma mapM_pure : forall {A B} (f : A -> res B) (g : A -> B) (l : list A),
  (forall x, In x l -> f x = Ok (g x)) -> mapM f l = Ok (map g l).
Proof.
  intros A B f g l. induction l as [|a l IH]; intros H; cbn.
  - reflexivity.
  - rewrite (H a (or_introl eq_refl)). cbn. rewrite IH.
    + reflexivity.
    + intros x Hx. apply H. right. exact Hx.
Qed.

Lemma mapM_app : forall {A B} (f : A -> res B) (l1 l2 : list A),
  mapM f (l1 ++ l2) = do a <- mapM f l1; do b <- mapM f l2; Ok (a ++ b).
Proof.
  intros A B f l1 l2. induction l1 as [|x l1 IH]; cbn.
  - destruct (mapM f l2) as [b|e]; reflexivity.
  - destruct (f x) as [y|e]; cbn; [|reflexivity].
    rewrite IH. destruct (mapM f l1) as [a|e]; cbn; [|reflexivity].
    destruct (mapM f l2) as [b|e]; reflexivity.
Qed.

(* `mapM f l = Ok ys` is pointwise `f x = Ok y` *)
Lemma mapM_Forall2 : forall {A B} (f : A -> res B) (l : list A) (ys : list B),
  mapM f l = Ok ys <-> Forall2 (fun x y => f x = Ok y) l ys.
Proof.
  intros A B f l. induction l as [|x l IH]; intros ys; cbn; split; intros H.
  - inversion H. constructor.
  - inversion H. reflexivity.
  - destruct (f x) as [y|e] eqn:Ef; cbn in H; [|discriminate].
    destruct (mapM f l) as [ys'|e] eqn:Em; cbn in H; [|discriminate].
    inversion H; subst. constructor; [exact Ef|]. apply IH. reflexivity.
  - inversion H as [|x' y l' ys' Hxy Hrest]; subst. rewrite Hxy. cbn.
    apply IH in Hrest. rewrite Hrest. reflexivity.
Qed.

Lemma concat_map_if : forall {A B} (f : A -> bool) (g : A -> B) (l : list A),
  concat (map (fun x => if f x then [g x] else []) l) = map g (filter f l).
Proof.
  intros A B f g l. induction l as [|x l IH]; cbn; [reflexivity|].
  destruct (f x); cbn; rewrite IH; reflexivity.
Qed.

Lemma existsb_id_map : forall {A} (f : A -> bool) (l : list A),
  existsb (fun b => b) (map f l) = existsb f l.
Proof. intros A f l. induction l as [|x l IH]; cbn; [reflexivity|]. rewrite IH. reflexivity. Qed.

Lemma filter_nil_existsb : forall {A} (f : A -> bool) (l : list A),
  filter f l = [] <-> existsb f l = false.
Proof.
  intros A f l. induction l as [|x l IH]; cbn; [tauto|].
  destruct (f x); cbn; [split; discriminate|exact IH].
Qed.

Lemma perm_flat_map_ext : forall {A B} (f g : A -> list B) (l : list A),
  (forall x, In x l -> Permutation (f x) (g x)) -> Permutation (flat_map f l) (flat_map g l).
Proof.
  intros A B f g l. induction l as [|x l IH]; intros H; cbn; [constructor|].
  apply Permutation_app.
  - apply H. left. reflexivity.
  - apply IH. intros y Hy. apply H. right. exact Hy.
Qed.

Lemma perm_flat_map : forall {A B} (f : A -> list B) (l l' : list A),
  Permutation l l' -> Permutation (flat_map f l) (flat_map f l').
Proof.
  intros A B f l l' H. induction H as [|x l l' H IH|x y l|l l' l'' H1 IH1 H2 IH2]; cbn.
  - constructor.
  - apply Permutation_app_head. exact IH.
  - rewrite !app_assoc. apply Permutation_app_tail. apply Permutation_app_comm.
  - eapply Permutation_trans; eassumption.
Qed.

Lemma perm_filter : forall {A} (f : A -> bool) (l l' : list A),
  Permutation l l' -> Permutation (filter f l) (filter f l').
Proof.
  intros A f l l' H. induction H as [|x l l' H IH|x y l|l l' l'' H1 IH1 H2 IH2]; cbn.
  - constructor.
  - destruct (f x); [constructor|]; exact IH.
  - destruct (f x), (f y); try apply Permutation_refl. constructor.
  - eapply Permutation_trans; eassumption.
Qed.

Lemma existsb_perm : forall {A} (f : A -> bool) (l l' : list A),
  Permutation l l' -> existsb f l = existsb f l'.
Proof.
  intros A f l l' H. induction H as [|x l l' H IH|x y l|l l' l'' H1 IH1 H2 IH2]; cbn.
  - reflexivity.
  - rewrite IH. reflexivity.
  - destruct (f x), (f y); reflexivity.
  - congruence.
Qed.

Lemma filter_ext_in' : forall {A} (f g : A -> bool) (l : list A),
  (forall x, In x l -> f x = g x) -> filter f l = filter g l.
Proof.
  intros A f g l. induction l as [|x l IH]; intros H; cbn; [reflexivity|].
  rewrite (H x (or_introl eq_refl)). rewrite IH; [reflexivity|].
  intros y Hy. apply H. right. exact Hy.
Qed.

Lemma filter_partition_perm : forall {A} (f : A -> bool) (l : list A),
  Permutation (filter f l ++ filter (fun x => negb (f x)) l) l.
Proof.
  intros A f l. induction l as [|x l IH]; cbn; [constructor|].
  destruct (f x); cbn.
  - constructor. exact IH.
  - apply Permutation_sym. apply Permutation_cons_app. apply Permutation_sym. exact IH.
Qed.

(* ------------------------------------------------------------------ the pure join *)

Definition rmatches (p : row -> row -> bool) (l : row) (R : list row) : list row :=
  filter (p l) R.
Definition lmatches (p : row -> row -> bool) (L : list row) (r : row) : list row :=
  filter (fun l => p l r) L.
(* the matches, or the single padded row when there is none *)
Definition or_pad (m : list row) (pad : row) : list row :=
  match m with [] => [pad] | _ => m end.

Definition pure_join (k : jkind) (L R : list row) (la ra : nat) (p : row -> row -> bool) : list row :=
  match k with
  | JCross | JInner => flat_map (fun l => map (fun r => l ++ r) (rmatches p l R)) L
  | JLeft => flat_map (fun l => or_pad (map (fun r => l ++ r) (rmatches p l R)) (l ++ nulls ra)) L
  | JRight => flat_map (fun r => or_pad (map (fun l => l ++ r) (lmatches p L r)) (nulls la ++ r)) R
  | JSemi => filter (fun l => existsb (p l) R) L
  | JAnti => filter (fun l => negb (existsb (p l) R)) L
  end.

(* every evaluation of the condition on a pair of the inputs is Ok, with value p l r *)
Definition on_total (on : row -> res bool) (p : row -> row -> bool) (L R : list row) : Prop :=
  forall l r, In l L -> In r R -> on (l ++ r) = Ok (p l r).

Lemma inner_row_pure : forall (on : row -> res bool) (p : row -> row -> bool) (l : row) (R : list row),
  (forall r, In r R -> on (l ++ r) = Ok (p l r)) ->
  (do ms <- mapM (fun r => do b <- on (l ++ r); Ok (if b then [l ++ r] else [])) R; Ok (concat ms))
  = Ok (map (fun r => l ++ r) (rmatches p l R)).
Proof.
  intros on p l R H.
  rewrite (mapM_pure _ (fun r : row => if p l r then [l ++ r] else @nil row)).
  - cbn. rewrite concat_map_if. reflexivity.
  - intros r Hr. rewrite (H r Hr). reflexivity.
Qed.

Lemma join_rows_pure : forall k L R la ra on p,
  on_total on p L R -> join_rows k L R la ra on = Ok (pure_join k L R la ra p).
Proof.
  intros k L R la ra on p H. unfold on_total in H.
  assert (Hin : forall l, In l L ->
     (do ms <- mapM (fun r => do b <- on (l ++ r); Ok (if b then [l ++ r] else [])) R; Ok (concat ms))
     = Ok (map (fun r => l ++ r) (rmatches p l R))).
  { intros l Hl. apply inner_row_pure. intros r Hr. apply H; assumption. }
  assert (Hsemi : forall l, In l L -> mapM (fun r => on (l ++ r)) R = Ok (map (p l) R)).
  { intros l Hl. apply mapM_pure. intros r Hr. apply H; assumption. }
  destruct k; unfold join_rows, pure_join.
  - rewrite (mapM_pure _ (fun l => map (fun r => l ++ r) (rmatches p l R))); [|exact Hin].
    cbn. rewrite <- flat_map_concat_map. reflexivity.
  - rewrite (mapM_pure _ (fun l => map (fun r => l ++ r) (rmatches p l R))); [|exact Hin].
    cbn. rewrite <- flat_map_concat_map. reflexivity.
  - rewrite (mapM_pure _ (fun l => or_pad (map (fun r => l ++ r) (rmatches p l R)) (l ++ nulls ra))).
    + cbn. rewrite <- flat_map_concat_map. reflexivity.
    + intros l Hl.
      rewrite (mapM_pure _ (fun r : row => if p l r then [l ++ r] else @nil row)).
      * cbn. rewrite concat_map_if. reflexivity.
      * intros r Hr. rewrite (H l r Hl Hr). reflexivity.
  - rewrite (mapM_pure _ (fun r => or_pad (map (fun l => l ++ r) (lmatches p L r)) (nulls la ++ r))).
    + cbn. rewrite <- flat_map_concat_map. reflexivity.
    + intros r Hr.
      rewrite (mapM_pure _ (fun l : row => if p l r then [l ++ r] else @nil row)).
      * cbn. rewrite (concat_map_if (fun l => p l r) (fun l => l ++ r)). reflexivity.
      * intros l Hl. rewrite (H l r Hl Hr). reflexivity.
  - rewrite (mapM_pure _ (fun l : row => if existsb (p l) R then [l] else @nil row)).
    + cbn. rewrite (concat_map_if (fun l => existsb (p l) R) (fun l => l)). rewrite map_id. reflexivity.
    + intros l Hl. rewrite (Hsemi l Hl). cbn. rewrite existsb_id_map. reflexivity.
  - rewrite (mapM_pure _ (fun l : row => if negb (existsb (p l) R) then [l] else @nil row)).
    + cbn. rewrite (concat_map_if (fun l => negb (existsb (p l) R)) (fun l => l)). rewrite map_id. reflexivity.
    + intros l Hl. rewrite (Hsemi l Hl). cbn. rewrite existsb_id_map.
      destruct (existsb (p l) R); reflexivity.
Qed.

(* ------------------------------------------------------------------ (1) spec-level theorems *)

(* INNER = filter of the cross product *)
Theorem inner_is_filtered_cross : forall L R la ra on p,
  on_total on p L R ->
  join_rows JInner L R la ra on
  = Ok (map (fun lr => fst lr ++ snd lr) (filter (fun lr => p (fst lr) (snd lr)) (list_prod L R))).
Proof.
  intros L R la ra on p H. rewrite (join_rows_pure _ _ _ _ _ _ p H). f_equal.
  cbn [pure_join]. induction L as [|l L IH]; cbn; [reflexivity|].
  rewrite filter_app, map_app. rewrite IH.
  - f_equal. unfold rmatches. clear. induction R as [|r R IHR]; cbn; [reflexivity|].
    destruct (p l r); cbn; rewrite IHR; reflexivity.
  - intros l' r Hl Hr. apply H; [right; exact Hl|exact Hr].
Qed.

Example inner_is_filtered_cross_ex :
  on_total (fun _ => Ok true) (fun _ _ => true) [[VInt 1]] [[VInt 2]].
Proof. intros l r _ _. reflexivity. Qed.

(* CROSS (= INNER with condition TRUE) is the full cross product, |L|*|R| rows *)
Theorem cross_is_product : forall L R la ra,
  join_rows JCross L R la ra (fun _ => Ok true) = Ok (map (fun lr => fst lr ++ snd lr) (list_prod L R)).
Proof.
  intros L R la ra.
  rewrite (join_rows_pure _ _ _ _ _ _ (fun _ _ => true)); [|intros l r _ _; reflexivity].
  f_equal. cbn [pure_join]. induction L as [|l L IH]; cbn; [reflexivity|].
  rewrite map_app, IH. f_equal. unfold rmatches.
  clear. induction R as [|r R IHR]; cbn; [reflexivity|]. rewrite IHR. reflexivity.
Qed.

(* LEFT: every left row appears, in input order: with each matching right row, or once NULL-padded *)
Theorem left_join_preserves_left : forall L R la ra on p,
  on_total on p L R ->
  join_rows JLeft L R la ra on
  = Ok (flat_map (fun l => if existsb (p l) R
                           then map (fun r => l ++ r) (filter (p l) R)
                           else [l ++ nulls ra]) L).
Proof.
  intros L R la ra on p H. rewrite (join_rows_pure _ _ _ _ _ _ p H). f_equal.
  cbn [pure_join]. apply flat_map_ext. intros l. unfold rmatches, or_pad.
  destruct (existsb (p l) R) eqn:E.
  - destruct (filter (p l) R) as [|r0 m] eqn:F.
    + apply filter_nil_existsb in F. congruence.
    + reflexivity.
  - apply filter_nil_existsb in E. unfold rmatches. rewrite E. reflexivity.
Qed.

Lemma join_rows_app_left_pure : forall k L1 L2 R la ra p, k <> JRight ->
  pure_join k (L1 ++ L2) R la ra p = pure_join k L1 R la ra p ++ pure_join k L2 R la ra p.
Proof.
  intros k L1 L2 R la ra p Hk. destruct k; try congruence; cbn [pure_join];
    first [apply flat_map_app | apply filter_app].
Qed.

(* a left row without partner appears exactly once, NULL-padded, at its position *)
Theorem unmatched_preserved_exactly_once : forall L1 l L2 R la ra on p,
  on_total on p (L1 ++ l :: L2) R ->
  existsb (p l) R = false ->
  exists o1 o2,
    join_rows JLeft L1 R la ra on = Ok o1 /\ join_rows JLeft L2 R la ra on = Ok o2 /\
    join_rows JLeft (L1 ++ l :: L2) R la ra on = Ok (o1 ++ [l ++ nulls ra] ++ o2) /\
    (* and it pairs with nothing: no INNER output for it *)
    join_rows JInner [l] R la ra on = Ok [].
Proof.
  intros L1 l L2 R la ra on p H E.
  assert (H1 : on_total on p L1 R).
  { intros x r Hx Hr. apply H; [apply in_or_app; left; exact Hx|exact Hr]. }
  assert (H2 : on_total on p L2 R).
  { intros x r Hx Hr. apply H; [apply in_or_app; right; right; exact Hx|exact Hr]. }
  assert (H3 : on_total on p [l] R).
  { intros x r Hx Hr. apply H; [apply in_or_app; right; destruct Hx as [<-|[]]; left; reflexivity|exact Hr]. }
  exists (pure_join JLeft L1 R la ra p), (pure_join JLeft L2 R la ra p).
  rewrite (join_rows_pure _ _ _ _ _ _ p H1), (join_rows_pure _ _ _ _ _ _ p H2),
          (join_rows_pure _ _ _ _ _ _ p H), (join_rows_pure _ _ _ _ _ _ p H3).
  apply filter_nil_existsb in E.
  repeat split.
  - f_equal. rewrite join_rows_app_left_pure by discriminate. f_equal.
    change (l :: L2) with ([l] ++ L2). rewrite join_rows_app_left_pure by discriminate. f_equal.
    cbn. unfold rmatches. rewrite E. reflexivity.
  - cbn. unfold rmatches. rewrite E. reflexivity.
Qed.

Example unmatched_preserved_exactly_once_ex :
  on_total (fun _ => Ok false) (fun _ _ => false) ([] ++ [VInt 1] :: []) [[VInt 2]]
  /\ existsb ((fun _ _ => false) [VInt 1]) [[VInt 2]] = false.
Proof. split; [intros l r _ _|]; reflexivity. Qed.

(* RIGHT is the mirror image of LEFT: swap the inputs, swap the column blocks back *)
Definition swap_cols (n : nat) (x : row) : row := skipn n x ++ firstn n x.

Lemma swap_cols_app : forall (a b : row), swap_cols (length a) (a ++ b) = b ++ a.
Proof.
  intros a b. unfold swap_cols. rewrite skipn_app, firstn_app, Nat.sub_diag.
  rewrite skipn_all, firstn_all. cbn. rewrite app_nil_r. reflexivity.
Qed.

Theorem right_is_mirrored_left : forall L R la ra on p,
  on_total on p L R ->
  Forall (fun r => length r = ra) R ->
  exists o1 o2,
    join_rows JRight L R la ra on = Ok o1 /\
    join_rows JLeft R L ra la (fun x => on (swap_cols ra x)) = Ok o2 /\
    o1 = map (swap_cols ra) o2 /\ Permutation o1 (map (swap_cols ra) o2).
Proof.
  intros L R la ra on p H Hlen.
  assert (H' : on_total (fun x => on (swap_cols ra x)) (fun r l => p l r) R L).
  { intros r l Hr Hl. rewrite Forall_forall in Hlen. rewrite <- (Hlen r Hr).
    rewrite swap_cols_app. apply H; assumption. }
  exists (pure_join JRight L R la ra p), (pure_join JLeft R L ra la (fun r l => p l r)).
  rewrite (join_rows_pure _ _ _ _ _ _ p H), (join_rows_pure _ _ _ _ _ _ _ H').
  assert (E : pure_join JRight L R la ra p
              = map (swap_cols ra) (pure_join JLeft R L ra la (fun r l => p l r))).
  { cbn [pure_join]. clear H H'. induction R as [|r R IH]; cbn; [reflexivity|].
    inversion Hlen as [|r' R' Hr HR]; subst. rewrite map_app. rewrite <- IH by exact HR. f_equal.
    unfold rmatches, lmatches, or_pad.
    destruct (filter (fun l => p l r) L) as [|l0 m]; cbn.
    - rewrite swap_cols_app. reflexivity.
    - rewrite swap_cols_app. f_equal. rewrite map_map. apply map_ext. intros l.
      rewrite swap_cols_app. reflexivity. }
  repeat split; [exact E|rewrite E; apply Permutation_refl].
Qed.

Example right_is_mirrored_left_ex :
  on_total (fun _ => Ok true) (fun _ _ => true) [[VInt 1]] [[VInt 2]]
  /\ Forall (fun r : row => length r = 1%nat) [[VInt 2]].
Proof. split; [intros l r _ _; reflexivity|repeat constructor]. Qed.

(* SEMI and ANTI split the left input *)
Theorem semi_anti_partition : forall L R la ra on p,
  on_total on p L R ->
  exists s a, join_rows JSemi L R la ra on = Ok s /\ join_rows JAnti L R la ra on = Ok a /\
              Permutation (s ++ a) L.
Proof.
  intros L R la ra on p H.
  exists (pure_join JSemi L R la ra p), (pure_join JAnti L R la ra p).
  rewrite !(join_rows_pure _ _ _ _ _ _ p H). repeat split.
  cbn [pure_join]. apply filter_partition_perm.
Qed.

(* bag semantics: permuting either input permutes the output *)
Lemma or_pad_perm : forall m m' pad, Permutation m m' -> Permutation (or_pad m pad) (or_pad m' pad).
Proof.
  intros m m' pad H. unfold or_pad. destruct m as [|x m].
  - apply Permutation_nil in H. subst. apply Permutation_refl.
  - destruct m' as [|y m'].
    + apply Permutation_sym, Permutation_nil in H. discriminate.
    + exact H.
Qed.

Lemma pure_join_perm : forall k L L' R R' la ra p,
  Permutation L L' -> Permutation R R' ->
  Permutation (pure_join k L R la ra p) (pure_join k L' R' la ra p).
Proof.
  intros k L L' R R' la ra p HL HR. destruct k; cbn [pure_join].
  - eapply Permutation_trans; [apply perm_flat_map; exact HL|].
    apply perm_flat_map_ext. intros l _. apply Permutation_map. apply perm_filter. exact HR.
  - eapply Permutation_trans; [apply perm_flat_map; exact HL|].
    apply perm_flat_map_ext. intros l _. apply Permutation_map. apply perm_filter. exact HR.
  - eapply Permutation_trans; [apply perm_flat_map; exact HL|].
    apply perm_flat_map_ext. intros l _. apply or_pad_perm. apply Permutation_map.
    apply perm_filter. exact HR.
  - eapply Permutation_trans; [apply perm_flat_map; exact HR|].
    apply perm_flat_map_ext. intros r _. apply or_pad_perm. apply Permutation_map.
    apply perm_filter. exact HL.
  - eapply Permutation_trans; [apply perm_filter; exact HL|].
    erewrite filter_ext_in'; [apply Permutation_refl|].
    intros l _. apply existsb_perm. exact HR.
  - eapply Permutation_trans; [apply perm_filter; exact HL|].
    erewrite filter_ext_in'; [apply Permutation_refl|].
    intros l _. cbn beta. f_equal. apply existsb_perm. exact HR.
Qed.

Theorem join_perm_invariant : forall k L L' R R' la ra on p,
  on_total on p L R -> Permutation L L' -> Permutation R R' ->
  exists o o', join_rows k L R la ra on = Ok o /\ join_rows k L' R' la ra on = Ok o' /\ Permutation o o'.
Proof.
  intros k L L' R R' la ra on p H HL HR.
  assert (H' : on_total on p L' R').
  { intros l r Hl Hr. apply H.
    - eapply Permutation_in; [apply Permutation_sym; exact HL|exact Hl].
    - eapply Permutation_in; [apply Permutation_sym; exact HR|exact Hr]. }
  exists (pure_join k L R la ra p), (pure_join k L' R' la ra p).
  rewrite (join_rows_pure _ _ _ _ _ _ p H), (join_rows_pure _ _ _ _ _ _ p H').
  repeat split. apply pure_join_perm; assumption.
Qed.

Example join_perm_invariant_ex :
  on_total (fun _ => Ok true) (fun _ _ => true) [[VInt 1]; [VInt 3]] [[VInt 2]]
  /\ Permutation [[VInt 1]; [VInt 3]] [[VInt 3]; [VInt 1]].
Proof. split; [intros l r _ _; reflexivity|constructor]. Qed.

(* splitting the streamed (left) side into batches: no totality hypothesis needed *)
Definition app_res (a b : res (list row)) : res (list row) :=
  do x <- a; do y <- b; Ok (x ++ y).

Theorem join_split_left : forall k L1 L2 R la ra on, k <> JRight ->
  join_rows k (L1 ++ L2) R la ra on
  = app_res (join_rows k L1 R la ra on) (join_rows k L2 R la ra on).
Proof.
  intros k L1 L2 R la ra on Hk. unfold app_res.
  destruct k; try congruence; unfold join_rows; rewrite mapM_app;
    match goal with |- context [mapM ?f L1] => destruct (mapM f L1) as [a|e]; cbn; [|reflexivity] end;
    match goal with |- context [mapM ?f L2] => destruct (mapM f L2) as [b|e]; cbn; [|reflexivity] end;
    rewrite concat_app; reflexivity.
Qed.

(* ------------------------------------------------------------------ key equality, NULL keys *)

(* `cmp_true`, `keys_match` are defined in model/HashJoin.v *)

Lemma cmp_true_null_l : forall op b, cmp_true op VNull b = false.
Proof. intros op b. reflexivity. Qed.
Lemma cmp_true_null_r : forall op a, cmp_true op a VNull = false.
Proof. intros op a. destruct a; reflexivity. Qed.

Lemma keys_match_null : forall k1 k2, In VNull k1 \/ In VNull k2 -> keys_match k1 k2 = false.
Proof.
  induction k1 as [|a k1 IH]; intros k2 H.
  - destruct k2 as [|b k2]; [destruct H as [[]|[]]|reflexivity].
  - destruct k2 as [|b k2]; [reflexivity|]. cbn.
    destruct H as [[Ha|Ha]|[Hb|Hb]].
    + subst a. reflexivity.
    + rewrite (IH k2 (or_introl Ha)). apply andb_false_r.
    + subst b. rewrite cmp_true_null_r. reflexivity.
    + rewrite (IH k2 (or_intror Hb)). apply andb_false_r.
Qed.

(* A NULL join key equals nothing: whatever else the condition says, a left row whose key has a NULL
   produces no pair; it is dropped by INNER/SEMI, kept once padded by LEFT, kept by ANTI. *)
Theorem null_key_matches_nothing : forall (lk rk : row -> list value) (extra : row -> row -> bool)
    l R la ra on,
  on_total on (fun l r => keys_match (lk l) (rk r) && extra l r) [l] R ->
  In VNull (lk l) ->
  join_rows JInner [l] R la ra on = Ok [] /\
  join_rows JLeft [l] R la ra on = Ok [l ++ nulls ra] /\
  join_rows JSemi [l] R la ra on = Ok [] /\
  join_rows JAnti [l] R la ra on = Ok [l].
Proof.
  intros lk rk extra l R la ra on H Hn.
  rewrite !(join_rows_pure _ _ _ _ _ _ _ H). cbn [pure_join flat_map filter].
  assert (E : existsb (fun r => keys_match (lk l) (rk r) && extra l r) R = false).
  { clear H. induction R as [|r R IH]; cbn; [reflexivity|].
    rewrite (keys_match_null (lk l) (rk r) (or_introl Hn)). cbn. exact IH. }
  assert (F : rmatches (fun l r => keys_match (lk l) (rk r) && extra l r) l R = []).
  { apply filter_nil_existsb. exact E. }
  rewrite F, E. cbn. repeat split; reflexivity.
Qed.

(* ... and symmetrically a right row with a NULL key: unmatched, so RIGHT pads it exactly once *)
Theorem null_key_matches_nothing_right : forall (lk rk : row -> list value) (extra : row -> row -> bool)
    L r la ra on,
  on_total on (fun l r => keys_match (lk l) (rk r) && extra l r) L [r] ->
  In VNull (rk r) ->
  join_rows JInner L [r] la ra on = Ok [] /\
  join_rows JRight L [r] la ra on = Ok [nulls la ++ r].
Proof.
  intros lk rk extra L r la ra on H Hn.
  rewrite !(join_rows_pure _ _ _ _ _ _ _ H). cbn [pure_join flat_map].
  assert (F : lmatches (fun l r => keys_match (lk l) (rk r) && extra l r) L r = []).
  { unfold lmatches. clear H. induction L as [|l L IH]; cbn; [reflexivity|].
    rewrite (keys_match_null (lk l) (rk r) (or_intror Hn)). cbn. exact IH. }
  split.
  - f_equal. clear H. induction L as [|l L IH]; cbn; [reflexivity|].
    rewrite (keys_match_null (lk l) (rk r) (or_intror Hn)). cbn.
    apply IH. unfold lmatches in F. cbn in F.
    rewrite (keys_match_null (lk l) (rk r) (or_intror Hn)) in F. exact F.
  - rewrite F. reflexivity.
Qed.

Example null_key_matches_nothing_ex :
  on_total (fun x => Ok (keys_match [nth 0 x VNull] [nth 1 x VNull] && true))
           (fun l r => keys_match ((fun l => [nth 0 l VNull]) l) ((fun r => [nth 0 r VNull]) r) && true)
           [[VNull]] [[VInt 1]; [VNull]]
  /\ In VNull ((fun l : row => [nth 0 l VNull]) [VNull]).
Proof.
  split; [|left; reflexivity].
  intros l r [<-|[]] [<-|[<-|[]]]; reflexivity.
Qed.
