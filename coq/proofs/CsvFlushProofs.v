(* C17 — chunking irrelevance of the flushed CSV read path (records read and `clear_completed_old` applied after
   every chunk).

   Route: the flat ByteRecords state is the flattening `flat done pe pb` of an abstract streaming state
   (completed raw records `done`, pending field ends `pe`, pending bytes `pb`); `byte_step` simulates an abstract
   step `pstep` on the pending part that *emits* completed raw records; `records_of (flat done ..)` reads exactly
   `done`; `clear_completed_carry (flat done pe pb) = flat [] pe pb`; the abstract run `prun` is a monoid fold
   over the bytes, insensitive to the record-final reset done by `end_of_chunk`. *)
From Coq Require Import NArith List Bool Arith Lia.
Import ListNotations.
From GV Require Import model.Csv.

(* ------------------------------------------------------------------ the as-written clear is refuted *)
Theorem chunking_flush_old_refuted :
  exists d chunks, Forall (fun ch => ch <> []) chunks /\ decode_flush_old d chunks <> run_dfa d (concat chunks).
Proof.
  exists {| delim := 44%N; quote := 34%N |}, [[97;44;98;10;44];[99;10]]%N.
  split.
  - repeat constructor; discriminate.
  - vm_compute. discriminate.
Qed.

(* ------------------------------------------------------------------ DFA: a record-final state acts as StartRecord *)
Lemma dfa_step_reset d s c : record_final s = true -> dfa_step d s c = dfa_step d StartRecord c.
Proof.
  intros H. destruct s; try discriminate H.
  - unfold dfa_step, dfa_closure, transition_nfa.
    destruct (term_equals c); destruct (quote d =? c)%N; destruct (delim d =? c)%N; destruct (CR =? c)%N;
      cbn; reflexivity.
  - unfold dfa_step, dfa_closure, transition_nfa.
    destruct (N.eqb_spec LF c) as [E|E].
    + subst c. cbn. reflexivity.
    + destruct (term_equals c); destruct (quote d =? c)%N; destruct (delim d =? c)%N; destruct (CR =? c)%N;
        cbn; reflexivity.
Qed.

Lemma record_final_field_final s : record_final s = true -> field_final s = true.
Proof. destruct s; simpl; congruence. Qed.

(* ------------------------------------------------------------------ list facts *)
Lemma slice_mid {A} (B b Z : list A) n m :
  n = length B -> m = length B + length b -> slice (B ++ b ++ Z) n m = Some b.
Proof.
  intros -> ->. unfold slice.
  replace (length B <=? length B + length b) with true by (symmetry; apply Nat.leb_le; lia).
  replace (length B + length b <=? length (B ++ b ++ Z)) with true
    by (symmetry; apply Nat.leb_le; rewrite !app_length; lia).
  cbn [andb]. f_equal.
  replace (length B + length b - length B) with (length b) by lia.
  rewrite skipn_app, skipn_all, Nat.sub_diag. cbn [skipn app].
  rewrite firstn_app, firstn_all, Nat.sub_diag. cbn [firstn]. apply app_nil_r.
Qed.

Lemma skipn_app_len {A} (X Y : list A) n : n = length X -> skipn n (X ++ Y) = Y.
Proof. intros ->. rewrite skipn_app, skipn_all, Nat.sub_diag. reflexivity. Qed.

(* ------------------------------------------------------------------ the abstract (unflattened) state *)
(* a completed record, raw: (its field ends relative to the record start, its bytes) *)
Definition raw := (list nat * list N)%type.

Fixpoint bnds (pi po : nat) (done : list raw) : list (nat * nat) :=
  match done with
  | [] => []
  | eb :: rest =>
      (pi + length (fst eb) - 1, po + length (snd eb))
        :: bnds (pi + length (fst eb)) (po + length (snd eb)) rest
  end.

Definition flat (done : list raw) (pe : list nat) (pb : list N) : byte_records :=
  {| buf := concat (map snd done) ++ pb; ends := concat (map fst done) ++ pe; bounds := bnds 0 0 done |}.

Fixpoint recs_of_raw (done : list raw) : option (list (list (list N))) :=
  match done with
  | [] => Some []
  | eb :: rest =>
      match fields_of (snd eb) 0 (fst eb), recs_of_raw rest with
      | Some r, Some rs => Some (r :: rs)
      | _, _ => None
      end
  end.

(* every completed record has at least one field end *)
Definition good (done : list raw) : Prop := Forall (fun eb : raw => fst eb <> []) done.

Lemma recs_of_raw_app a b : recs_of_raw (a ++ b) = opt_app (recs_of_raw a) (recs_of_raw b).
Proof.
  induction a as [|eb a IH]; cbn [app recs_of_raw].
  - unfold opt_app. destruct (recs_of_raw b); reflexivity.
  - rewrite IH. unfold opt_app.
    destruct (fields_of (snd eb) 0 (fst eb)); destruct (recs_of_raw a); destruct (recs_of_raw b); reflexivity.
Qed.

Lemma bnds_snoc : forall done pi po eb,
  bnds pi po (done ++ [eb]) =
  bnds pi po done ++ [(pi + length (concat (map fst (done ++ [eb]))) - 1,
                       po + length (concat (map snd (done ++ [eb]))))].
Proof.
  induction done as [|x done IH]; intros pi po eb.
  - cbn [app bnds map concat]. rewrite !app_nil_r. reflexivity.
  - cbn [app bnds map concat]. rewrite IH. cbn [app]. rewrite !app_length, !Nat.add_assoc. reflexivity.
Qed.

Lemma records_from_flat br : forall done pi po B E Zb Ze,
  good done ->
  buf br = B ++ concat (map snd done) ++ Zb -> length B = po ->
  ends br = E ++ concat (map fst done) ++ Ze -> length E = pi ->
  records_from br pi po (bnds pi po done) = recs_of_raw done.
Proof.
  induction done as [|[e b] done IH]; intros pi po B E Zb Ze G HB LB HE LE.
  - reflexivity.
  - inversion G as [|? ? Ge G']; subst. cbn [fst] in Ge.
    assert (Le : S (length E + length e - 1) = length E + length e)
      by (destruct e; [congruence | cbn [length]; lia]).
    cbn [map concat fst snd] in HB, HE. rewrite <- app_assoc in HB, HE.
    cbn [bnds recs_of_raw records_from fst snd].
    assert (S1 : slice (buf br) (length B) (length B + length b) = Some b)
      by (rewrite HB; apply slice_mid; reflexivity).
    assert (S2 : slice (ends br) (length E) (S (length E + length e - 1)) = Some e)
      by (rewrite HE; apply slice_mid; [reflexivity | exact Le]).
    rewrite S1, S2, Le.
    rewrite (IH (length E + length e) (length B + length b) (B ++ b) (E ++ e) Zb Ze); auto.
    + rewrite HB, <- app_assoc. reflexivity.
    + apply app_length.
    + rewrite HE, <- app_assoc. reflexivity.
    + apply app_length.
Qed.

Lemma records_of_flat done pe pb : good done -> records_of (flat done pe pb) = recs_of_raw done.
Proof.
  intros G. unfold records_of.
  apply (records_from_flat (flat done pe pb) done 0 0 [] [] pb pe G); reflexivity.
Qed.

Lemma clear_fixed_flat done pe pb : good done -> clear_completed_carry (flat done pe pb) = flat [] pe pb.
Proof.
  intros G. unfold clear_completed_carry.
  destruct done as [|x done'] using rev_ind.
  - reflexivity.
  - clear IHdone'. cbn [flat bounds buf ends]. rewrite bnds_snoc, rev_unit. cbn [plus].
    assert (Ne : concat (map fst (done' ++ [x])) <> []).
    { rewrite map_app, concat_app. cbn [map concat]. rewrite app_nil_r.
      apply Forall_app in G. destruct G as [_ G]. inversion G; subst.
      destruct (fst x); [congruence|]. intros K. apply app_eq_nil in K. destruct K; discriminate. }
    unfold flat. cbn [map concat app]. f_equal.
    + apply skipn_app_len. reflexivity.
    + apply skipn_app_len. destruct (concat (map fst (done' ++ [x]))); [congruence | cbn [length]; lia].
Qed.

(* ------------------------------------------------------------------ abstract step on the pending record *)
Record pend := { p_state : nfa; p_opos : nat; p_ends : list nat; p_buf : list N }.
Definition p_init : pend := {| p_state := StartRecord; p_opos := 0; p_ends := []; p_buf := [] |}.

Definition pstep (d : dialect) (p : pend) (c : N) : pend * list raw :=
  let so := dfa_step d (p_state p) c in
  let buf' := if snd so then p_buf p ++ [c] else p_buf p in
  let opos' := if snd so then S (p_opos p) else p_opos p in
  let ends' := if field_final (fst so) then p_ends p ++ [opos'] else p_ends p in
  if record_final (fst so)
  then ({| p_state := fst so; p_opos := 0; p_ends := []; p_buf := [] |}, [(ends', buf')])
  else ({| p_state := fst so; p_opos := opos'; p_ends := ends'; p_buf := buf' |}, []).

Fixpoint prun (d : dialect) (p : pend) (bs : list N) : pend * list raw :=
  match bs with
  | [] => (p, [])
  | c :: r => let q := pstep d p c in let q2 := prun d (fst q) r in (fst q2, snd q ++ snd q2)
  end.

Definition preset (p : pend) : pend :=
  if record_final (p_state p)
  then {| p_state := StartRecord; p_opos := p_opos p; p_ends := p_ends p; p_buf := p_buf p |}
  else p.

Definition conc (hr : bool) (done : list raw) (p : pend) : dstate :=
  ({| r_state := p_state p; r_opos := p_opos p; r_has_read := hr |}, flat done (p_ends p) (p_buf p)).

Lemma pstep_good d p c : good (snd (pstep d p c)).
Proof.
  unfold pstep. destruct (record_final (fst (dfa_step d (p_state p) c))) eqn:R; cbn [snd].
  - rewrite (record_final_field_final _ R). constructor; [|constructor]. cbn [fst].
    intros K. apply app_eq_nil in K. destruct K; discriminate.
  - constructor.
Qed.

Lemma prun_good d : forall bs p, good (snd (prun d p bs)).
Proof.
  induction bs as [|c bs IH]; intros p; cbn [prun snd].
  - constructor.
  - apply Forall_app. split; [apply pstep_good | apply IH].
Qed.

Lemma prun_app d : forall a b p,
  prun d p (a ++ b) =
  (fst (prun d (fst (prun d p a)) b), snd (prun d p a) ++ snd (prun d (fst (prun d p a)) b)).
Proof.
  induction a as [|c a IH]; intros b p; cbn [app prun fst snd].
  - destruct (prun d p b); reflexivity.
  - rewrite IH. cbn [fst snd]. rewrite app_assoc. reflexivity.
Qed.

Lemma pstep_preset d p c : pstep d (preset p) c = pstep d p c.
Proof.
  unfold preset. destruct (record_final (p_state p)) eqn:R; [|reflexivity].
  unfold pstep. cbn [p_state p_opos p_ends p_buf]. rewrite (dfa_step_reset d _ c R). reflexivity.
Qed.

Lemma prun_preset_snd d p bs : snd (prun d (preset p) bs) = snd (prun d p bs).
Proof. destruct bs as [|c bs]; cbn [prun snd]; [reflexivity|]. rewrite pstep_preset. reflexivity. Qed.

(* ------------------------------------------------------------------ simulation *)
Lemma byte_step_conc d hr done p c :
  byte_step d (conc hr done p) c = conc true (done ++ snd (pstep d p c)) (fst (pstep d p c)).
Proof.
  unfold byte_step, conc, pstep. cbn [r_state r_opos buf ends bounds flat].
  destruct (dfa_step d (p_state p) c) as [s' out]. cbn [fst snd].
  destruct (record_final s') eqn:R; cbn [fst snd p_state p_opos p_ends p_buf].
  - f_equal. unfold flat. rewrite bnds_snoc. cbn [plus].
    rewrite !map_app, !concat_app. cbn [map concat fst snd]. rewrite !app_nil_r.
    destruct out; destruct (field_final s'); rewrite <- ?app_assoc; reflexivity.
  - rewrite app_nil_r. f_equal. unfold flat.
    destruct out; destruct (field_final s'); rewrite <- ?app_assoc; reflexivity.
Qed.

Lemma fold_conc d : forall bs done p,
  fold_left (byte_step d) bs (conc true done p) = conc true (done ++ snd (prun d p bs)) (fst (prun d p bs)).
Proof.
  induction bs as [|c bs IH]; intros done p; cbn [fold_left prun fst snd].
  - rewrite app_nil_r. reflexivity.
  - rewrite byte_step_conc, IH, app_assoc. reflexivity.
Qed.

Lemma fold_conc_ne d hr bs done p : bs <> [] ->
  fold_left (byte_step d) bs (conc hr done p) = conc true (done ++ snd (prun d p bs)) (fst (prun d p bs)).
Proof.
  destruct bs as [|c bs]; [congruence|]. intros _. cbn [fold_left prun fst snd].
  rewrite byte_step_conc, fold_conc, app_assoc. reflexivity.
Qed.

Lemma end_of_chunk_conc done p : end_of_chunk (conc true done p) = conc true done (preset p).
Proof.
  unfold end_of_chunk, conc, preset. cbn [r_state r_opos].
  destruct (record_final (p_state p)); reflexivity.
Qed.

(* a non-empty chunk that is decoded without BOM stripping *)
Lemma decode_body d hr done p ch : ch <> [] -> strip_bom (fst (conc hr done p)) ch = ch ->
  decode d (conc hr done p) ch = conc true (done ++ snd (prun d p ch)) (preset (fst (prun d p ch))).
Proof.
  intros Hne Hs. unfold decode. rewrite Hs. destruct ch as [|c ch]; [congruence|].
  rewrite fold_conc_ne by assumption. apply end_of_chunk_conc.
Qed.

Lemma strip_bom_read r ch : r_has_read r = true -> strip_bom r ch = ch.
Proof. intros H. unfold strip_bom. rewrite H. reflexivity. Qed.

(* ------------------------------------------------------------------ flushing after every chunk *)
Lemma flush_from_conc d : forall chunks p,
  Forall (fun ch => ch <> []) chunks ->
  decode_flush_from clear_completed_carry d (conc true [] p) chunks = recs_of_raw (snd (prun d p (concat chunks))).
Proof.
  induction chunks as [|ch rest IH]; intros p H.
  - cbn [decode_flush_from concat prun snd]. unfold conc. cbn [snd]. apply records_of_flat. constructor.
  - inversion H as [|? ? Hch Hrest]; subst.
    cbn [decode_flush_from concat].
    rewrite (decode_body d true [] p ch Hch) by (apply strip_bom_read; reflexivity).
    cbn [app]. unfold conc. cbn [fst snd].
    rewrite records_of_flat by apply prun_good.
    rewrite clear_fixed_flat by apply prun_good.
    change ({| r_state := p_state (preset (fst (prun d p ch)));
               r_opos := p_opos (preset (fst (prun d p ch))); r_has_read := true |},
            flat [] (p_ends (preset (fst (prun d p ch)))) (p_buf (preset (fst (prun d p ch)))))
      with (conc true [] (preset (fst (prun d p ch)))).
    rewrite IH by assumption. rewrite prun_preset_snd, prun_app. cbn [snd].
    rewrite recs_of_raw_app. reflexivity.
Qed.

(* ------------------------------------------------------------------ the BOM *)
Lemma strip_bom_cases r ch :
  strip_bom r ch = ch \/ (r_has_read r = false /\ ch = 239%N :: 187%N :: 191%N :: strip_bom r ch).
Proof.
  unfold strip_bom. destruct (r_has_read r); [left; reflexivity|].
  destruct ch as [|a [|b [|c t]]]; try (left; reflexivity);
  repeat match goal with
         | |- context [match ?x with _ => _ end] => destruct x; try (left; reflexivity)
         end;
  first [left; reflexivity | right; split; reflexivity].
Qed.

Lemma strip_bom_app_long l X : 3 <= length l -> strip_bom rdr_init (l ++ X) = strip_bom rdr_init l ++ X.
Proof.
  intros H. destruct l as [|a [|b [|c t]]]; cbn [length] in H; try lia.
  unfold strip_bom. cbn [r_has_read rdr_init app].
  repeat match goal with
         | |- context [match ?x with _ => _ end] => destruct x; try reflexivity
         end.
Qed.

Lemma strip_bom_app l X :
  3 <= length l \/ strip_bom rdr_init (l ++ X) = l ++ X ->
  strip_bom rdr_init (l ++ X) = strip_bom rdr_init l ++ X.
Proof.
  intros [H|H]; [apply strip_bom_app_long; exact H|].
  destruct (strip_bom_cases rdr_init l) as [E|[_ E]].
  - rewrite E. exact H.
  - apply strip_bom_app_long. rewrite E. cbn [length]. lia.
Qed.

(* ------------------------------------------------------------------ the first chunk *)
Lemma preset_idem_init : preset p_init = p_init.
Proof. reflexivity. Qed.

Lemma decode_first d ch : ch <> [] ->
  decode d st_init ch =
  conc true (snd (prun d p_init (strip_bom rdr_init ch))) (preset (fst (prun d p_init (strip_bom rdr_init ch)))).
Proof.
  intros Hne. unfold decode. destruct ch as [|c0 ch]; [congruence|].
  change (fst st_init) with rdr_init.
  destruct (strip_bom rdr_init (c0 :: ch)) as [|b0 body] eqn:E.
  - reflexivity.
  - change st_init with (conc false [] p_init).
    rewrite fold_conc_ne by discriminate. apply end_of_chunk_conc.
Qed.

(* ------------------------------------------------------------------ the key theorem *)
Theorem chunking_irrelevant_flush_carry : forall d chunks,
  Forall (fun ch => ch <> []) chunks -> chunks <> [] ->
  (3 <= length (hd [] chunks) \/ strip_bom rdr_init (concat chunks) = concat chunks) ->
  decode_flush_carry d chunks = run_dfa d (concat chunks).
Proof.
  intros d chunks HF Hne HB. destruct chunks as [|c1 rest]; [congruence|].
  inversion HF as [|? ? Hc1 Hrest]; subst. cbn [hd concat] in *.
  assert (HS := strip_bom_app c1 (concat rest) HB).
  assert (Hcat : c1 ++ concat rest <> []) by (destruct c1; [congruence | discriminate]).
  unfold decode_flush_carry, run_dfa. cbn [decode_flush_from].
  rewrite (decode_first d c1 Hc1), (decode_first d _ Hcat), HS.
  set (body := strip_bom rdr_init c1).
  unfold conc. cbn [fst snd].
  rewrite !records_of_flat by apply prun_good.
  rewrite clear_fixed_flat by apply prun_good.
  change ({| r_state := p_state (preset (fst (prun d p_init body)));
             r_opos := p_opos (preset (fst (prun d p_init body))); r_has_read := true |},
          flat [] (p_ends (preset (fst (prun d p_init body)))) (p_buf (preset (fst (prun d p_init body)))))
    with (conc true [] (preset (fst (prun d p_init body)))).
  rewrite flush_from_conc by assumption.
  rewrite prun_preset_snd, prun_app. cbn [snd]. rewrite recs_of_raw_app. reflexivity.
Qed.

(* ------------------------------------------------------------------ the AS-WRITTEN clear, partial result *)
(* the cut is harmless for `clear_completed_old`: the carried (pending) record does not consist of field ends only *)
Definition carry_ok (br : byte_records) : Prop :=
  match rev (bounds br) with
  | [] => True
  | (ei, eo) :: _ => skipn (S ei) (ends br) = [] \/ skipn eo (buf br) <> []
  end.

(* `carry_ok` holds of the state reached after every chunk but the last (the states are those of the as-written
   flushing run itself) *)
Fixpoint cuts_ok (d : dialect) (st : dstate) (chunks : list (list N)) : Prop :=
  match chunks with
  | [] => True
  | ch :: rest =>
      let st' := decode d st ch in
      (rest = [] \/ carry_ok (snd st')) /\ cuts_ok d (fst st', clear_completed_old (snd st')) rest
  end.

Lemma clear_completed_carry_ok br : carry_ok br -> clear_completed_old br = clear_completed_carry br.
Proof.
  unfold carry_ok, clear_completed_old, clear_completed_carry.
  destruct (rev (bounds br)) as [|[ei eo] tl]; [reflexivity|].
  intros H. destruct (Nat.eqb_spec eo (length (buf br))) as [E|E]; [|reflexivity].
  subst eo. rewrite skipn_all in *. destruct H as [H|H]; [|congruence].
  rewrite H. reflexivity.
Qed.

Lemma records_of_clear_completed br : records_of (clear_completed_old br) = Some [].
Proof.
  unfold clear_completed_old. destruct (rev (bounds br)) as [|[ei eo] tl] eqn:E.
  - unfold records_of. destruct (bounds br) as [|x l]; [reflexivity|].
    cbn [rev] in E. destruct (rev l); discriminate.
  - destruct (eo =? length (buf br)); reflexivity.
Qed.

Lemma records_of_clear_completed_carry br : records_of (clear_completed_carry br) = Some [].
Proof.
  unfold clear_completed_carry. destruct (rev (bounds br)) as [|[ei eo] tl] eqn:E.
  - unfold records_of. destruct (bounds br) as [|x l]; [reflexivity|].
    cbn [rev] in E. destruct (rev l); discriminate.
  - reflexivity.
Qed.

Lemma flush_as_written_eq_fixed d : forall chunks st,
  cuts_ok d st chunks ->
  decode_flush_from clear_completed_old d st chunks = decode_flush_from clear_completed_carry d st chunks.
Proof.
  induction chunks as [|ch rest IH]; intros st H; [reflexivity|].
  cbn [cuts_ok] in H. destruct H as [[Hl|Hc] Hrest]; cbn [decode_flush_from].
  - subst rest. cbn [decode_flush_from snd].
    rewrite records_of_clear_completed, records_of_clear_completed_carry. reflexivity.
  - rewrite <- (clear_completed_carry_ok _ Hc). rewrite IH by exact Hrest. reflexivity.
Qed.

Theorem chunking_irrelevant_flush_old_partial : forall d chunks,
  Forall (fun ch => ch <> []) chunks -> chunks <> [] ->
  (3 <= length (hd [] chunks) \/ strip_bom rdr_init (concat chunks) = concat chunks) ->
  cuts_ok d st_init chunks ->
  decode_flush_old d chunks = run_dfa d (concat chunks).
Proof.
  intros d chunks HF Hne HB HC. unfold decode_flush_old.
  rewrite (flush_as_written_eq_fixed d chunks st_init HC).
  apply chunking_irrelevant_flush_carry; assumption.
Qed.

(* the hypothesis is what fails on the refuting witness, and holds e.g. when that file is cut elsewhere *)
Example cuts_ok_fails_on_witness :
  ~ cuts_ok {| delim := 44%N; quote := 34%N |} st_init [[97;44;98;10;44];[99;10]]%N.
Proof. cbv. intros [[H|[H|H]] _]; [discriminate H | discriminate H | apply H; reflexivity]. Qed.

Example cuts_ok_holds_elsewhere :
  cuts_ok {| delim := 44%N; quote := 34%N |} st_init [[97;44;98;10];[44;99;10]]%N.
Proof. cbv. repeat split; auto. Qed.

(* the BOM hypothesis cannot be dropped: a BOM split by the first cut is not stripped (even with the repaired clear) *)
Example bom_split_matters :
  exists d chunks, Forall (fun ch => ch <> []) chunks /\ chunks <> [] /\
                   decode_flush_carry d chunks <> run_dfa d (concat chunks).
Proof.
  exists {| delim := 44%N; quote := 34%N |}, [[239];[187;191;97;10]]%N.
  split; [repeat constructor; discriminate|]. split; [discriminate|]. vm_compute. discriminate.
Qed.

(* ================================================================== the CURRENT code *)
(* ------------------------------------------------------------------ (1) the repaired clear_completed *)
Lemma clear_completed_eq_carry : forall br, clear_completed br = clear_completed_carry br.
Proof.
  intros br. unfold clear_completed, clear_completed_carry.
  destruct (rev (bounds br)) as [|[ei eo] tl]; [reflexivity|].
  destruct (Nat.eqb_spec eo (length (buf br))) as [E1|E1];
    destruct (Nat.eqb_spec (S ei) (length (ends br))) as [E2|E2]; cbn [andb]; try reflexivity.
  rewrite E1, E2, !skipn_all. reflexivity.
Qed.

Lemma decode_flush_from_ext c1 c2 d : (forall br, c1 br = c2 br) ->
  forall chunks st, decode_flush_from c1 d st chunks = decode_flush_from c2 d st chunks.
Proof.
  intros H. induction chunks as [|ch rest IH]; intros st; cbn [decode_flush_from]; [reflexivity|].
  rewrite H, IH. reflexivity.
Qed.

Theorem chunking_irrelevant_flush : forall d chunks,
  Forall (fun ch => ch <> []) chunks -> chunks <> [] ->
  (3 <= length (hd [] chunks) \/ strip_bom rdr_init (concat chunks) = concat chunks) ->
  decode_flush d chunks = run_dfa d (concat chunks).
Proof.
  intros d chunks HF Hne HB. unfold decode_flush.
  rewrite (decode_flush_from_ext _ _ d clear_completed_eq_carry).
  apply chunking_irrelevant_flush_carry; assumption.
Qed.

(* ------------------------------------------------------------------ (2) the reader *)
Definition skipf (skip : bool) (rs : list (list (list N))) : list (list (list N)) := if skip then tl rs else rs.

(* what the end-of-input signal emits: the pending record, unless the DFA is between records *)
Definition eof_emit (p : pend) : list raw :=
  if record_final (p_state p) || is_start (p_state p) then [] else [(p_ends p ++ [p_opos p], p_buf p)].

(* everything emitted from the pending state p by the bytes bs followed by the end-of-input signal *)
Definition ptail (d : dialect) (p : pend) (bs : list N) : list raw :=
  snd (prun d p bs) ++ eof_emit (fst (prun d p bs)).

Lemma eof_emit_good p : good (eof_emit p).
Proof.
  unfold eof_emit. destruct (record_final (p_state p) || is_start (p_state p)); constructor; [|constructor].
  cbn [fst]. intros K. apply app_eq_nil in K. destruct K; discriminate.
Qed.

Lemma ptail_good d p bs : good (ptail d p bs).
Proof. apply Forall_app. split; [apply prun_good | apply eof_emit_good]. Qed.

Lemma eof_emit_preset p : eof_emit (preset p) = eof_emit p.
Proof.
  unfold preset, eof_emit. destruct (record_final (p_state p)) eqn:R; [|rewrite R; reflexivity].
  reflexivity.
Qed.

Lemma ptail_preset d p bs : ptail d (preset p) bs = ptail d p bs.
Proof.
  unfold ptail. destruct bs as [|c bs]; cbn [prun fst snd].
  - rewrite eof_emit_preset. reflexivity.
  - rewrite pstep_preset. reflexivity.
Qed.

Lemma ptail_app d p a b : ptail d p (a ++ b) = snd (prun d p a) ++ ptail d (fst (prun d p a)) b.
Proof. unfold ptail. rewrite prun_app. cbn [fst snd]. rewrite app_assoc. reflexivity. Qed.

Lemma records_of_decode_eof hr done p : good done ->
  records_of (snd (decode_eof (conc hr done p))) = recs_of_raw (done ++ eof_emit p).
Proof.
  intros G. unfold decode_eof, conc, eof_emit. cbn [r_state r_opos].
  destruct (record_final (p_state p) || is_start (p_state p)); cbn [snd].
  - rewrite app_nil_r. apply records_of_flat. exact G.
  - assert (G' : good (done ++ [(p_ends p ++ [p_opos p], p_buf p)])).
    { apply Forall_app. split; [exact G|]. constructor; [|constructor]. cbn [fst].
      intros K. apply app_eq_nil in K. destruct K; discriminate. }
    rewrite <- (records_of_flat _ [] [] G'). f_equal.
    unfold flat. cbn [buf ends bounds]. rewrite bnds_snoc. cbn [plus].
    rewrite !map_app, !concat_app. cbn [map concat fst snd]. rewrite !app_nil_r.
    rewrite <- !app_assoc. reflexivity.
Qed.

Lemma bnds_length : forall done pi po, length (bnds pi po done) = length done.
Proof. induction done as [|x done IH]; intros pi po; cbn [bnds length]; [reflexivity|]. rewrite IH. reflexivity. Qed.

Lemma recs_of_raw_length : forall done l, recs_of_raw done = Some l -> length l = length done.
Proof.
  induction done as [|x done IH]; intros l H; cbn [recs_of_raw] in H.
  - inversion H. reflexivity.
  - destruct (fields_of (snd x) 0 (fst x)); [|discriminate].
    destruct (recs_of_raw done) as [rs|]; [|discriminate]. inversion H. cbn [length]. rewrite (IH rs); reflexivity.
Qed.

(* the header is dropped from a flushed batch that holds at least one record *)
Lemma skipf_opt_app skip X B : 1 <= length X ->
  opt_app (option_map (skipf skip) (recs_of_raw X)) (option_map (skipf false) B) =
  option_map (skipf skip) (opt_app (recs_of_raw X) B).
Proof.
  intros HL. destruct (recs_of_raw X) as [l|] eqn:E; [|reflexivity].
  apply recs_of_raw_length in E.
  destruct B as [b|]; [|reflexivity]. cbn [option_map opt_app]. unfold skipf.
  destruct skip; [|reflexivity]. destruct l; [cbn [length] in E; lia | reflexivity].
Qed.

Definition after (d : dialect) (cap : nat) (skip : bool) (st' : dstate) (rest : list (list N)) :=
  if cap <=? length (bounds (snd st'))
  then opt_app (option_map (skipf skip) (records_of (snd st')))
               (reader_loop d cap false (fst st', clear_completed (snd st')) rest)
  else reader_loop d cap skip st' rest.

Lemma reader_loop_cons d cap skip st ch rest :
  reader_loop d cap skip st (ch :: rest) = after d cap skip (decode d st ch) rest.
Proof. reflexivity. Qed.

Lemma reader_loop_nil d cap skip st :
  reader_loop d cap skip st [] = option_map (skipf skip) (records_of (snd (decode_eof st))).
Proof. reflexivity. Qed.

(* the statement about a reader state that still holds completed records *)
Definition reader_spec (d : dialect) (cap : nat) (rest : list (list N)) : Prop :=
  forall skip done p, good done ->
    reader_loop d cap skip (conc true done p) rest
    = option_map (skipf skip) (recs_of_raw (done ++ ptail d p (concat rest))).

Lemma after_conc d cap skip X p' rest : 1 <= cap -> good X -> reader_spec d cap rest ->
  after d cap skip (conc true X (preset p')) rest
  = option_map (skipf skip) (recs_of_raw (X ++ ptail d p' (concat rest))).
Proof.
  intros Hcap G IH. unfold after, conc. cbn [fst snd].
  unfold flat at 1. cbn [bounds]. rewrite bnds_length.
  destruct (Nat.leb_spec cap (length X)) as [L|L].
  - rewrite clear_completed_eq_carry, records_of_flat, clear_fixed_flat by exact G.
    change ({| r_state := p_state (preset p'); r_opos := p_opos (preset p'); r_has_read := true |},
            flat [] (p_ends (preset p')) (p_buf (preset p')))
      with (conc true [] (preset p')).
    rewrite (IH false [] (preset p')) by constructor.
    cbn [app]. rewrite ptail_preset, recs_of_raw_app.
    apply skipf_opt_app. lia.
  - change ({| r_state := p_state (preset p'); r_opos := p_opos (preset p'); r_has_read := true |},
            flat X (p_ends (preset p')) (p_buf (preset p')))
      with (conc true X (preset p')).
    rewrite (IH skip X (preset p') G), ptail_preset. reflexivity.
Qed.

Lemma reader_from_conc d cap : 1 <= cap -> forall chunks,
  Forall (fun ch => ch <> []) chunks -> reader_spec d cap chunks.
Proof.
  intros Hcap. induction chunks as [|ch rest IH]; intros HF skip done p G.
  - rewrite reader_loop_nil, records_of_decode_eof by exact G.
    unfold ptail. cbn [concat prun fst snd app]. reflexivity.
  - inversion HF as [|? ? Hch Hrest]; subst.
    rewrite reader_loop_cons.
    rewrite (decode_body d true done p ch Hch) by (apply strip_bom_read; reflexivity).
    rewrite after_conc; auto.
    + cbn [concat]. rewrite ptail_app, app_assoc. reflexivity.
    + apply Forall_app. split; [exact G | apply prun_good].
Qed.

Lemma run_reader_ne d bs : bs <> [] ->
  run_reader d bs = records_of (snd (decode_eof (decode d st_init bs))).
Proof. destruct bs; [congruence | reflexivity]. Qed.

Theorem reader_chunking_irrelevant : forall d out_cap skip chunks,
  1 <= out_cap ->
  Forall (fun ch => ch <> []) chunks ->
  (chunks = [] \/ 3 <= length (hd [] chunks) \/ strip_bom rdr_init (concat chunks) = concat chunks) ->
  reader_loop d out_cap skip st_init chunks
    = option_map (fun rs => if skip then tl rs else rs) (run_reader d (concat chunks)).
Proof.
  intros d cap skip chunks Hcap HF HB. change (fun rs => if skip then tl rs else rs) with (skipf skip).
  destruct chunks as [|c1 rest].
  - reflexivity.
  - destruct HB as [HB|HB]; [discriminate HB|].
    inversion HF as [|? ? Hc1 Hrest]; subst. cbn [hd concat] in *.
    assert (HS := strip_bom_app c1 (concat rest) HB).
    assert (Hcat : c1 ++ concat rest <> []) by (destruct c1; [congruence | discriminate]).
    rewrite reader_loop_cons, (decode_first d c1 Hc1).
    rewrite after_conc; [| exact Hcap | apply prun_good | apply reader_from_conc; assumption].
    rewrite (run_reader_ne d _ Hcat).
    rewrite (decode_first d _ Hcat), records_of_decode_eof by apply prun_good.
    rewrite eof_emit_preset, HS. fold (ptail d p_init (strip_bom rdr_init c1 ++ concat rest)).
    rewrite ptail_app. reflexivity.
Qed.

(* the reader of one whole-file read = the reader for every chunking, batch capacity and header flag *)
Corollary read_file_chunking_irrelevant : forall d has_header out_cap chunks,
  1 <= out_cap -> Forall (fun ch => ch <> []) chunks ->
  (chunks = [] \/ 3 <= length (hd [] chunks) \/ strip_bom rdr_init (concat chunks) = concat chunks) ->
  read_file d has_header out_cap chunks
    = option_map (fun rs => if has_header then tl rs else rs) (run_reader d (concat chunks)).
Proof. intros. unfold read_file. apply reader_chunking_irrelevant; assumption. Qed.

(* 1 <= out_cap cannot be dropped: with capacity 0 a flush of zero records consumes the header flag *)
Example reader_cap0_refuted :
  exists d chunks, Forall (fun ch => ch <> []) chunks /\
    reader_loop d 0 true st_init chunks <> option_map (@tl _) (run_reader d (concat chunks)).
Proof.
  exists {| delim := 44%N; quote := 34%N |}, [[97];[10;98;10]]%N.
  split; [repeat constructor; discriminate|]. vm_compute. discriminate.
Qed.

Print Assumptions chunking_flush_old_refuted.
Print Assumptions chunking_irrelevant_flush_carry.
Print Assumptions chunking_irrelevant_flush_old_partial.
Print Assumptions clear_completed_eq_carry.
Print Assumptions chunking_irrelevant_flush.
Print Assumptions reader_chunking_irrelevant.
Print Assumptions read_file_chunking_irrelevant.
