(* Proofs about model/Lexer.v: the tokenizer is total (never Panic, never out of Fuel with fuel
   length+1), every slice it takes is in bounds and on character boundaries, and the tokens tile the input. *)
From Coq Require Import NArith List Bool Lia ZifyBool ZifyNat ZifyN.
From GV Require Import model.Utf8 gen.TablesLexer model.Lexer.
Import ListNotations.
Open Scope N_scope.

(* ---------------------------------------------------------------- byte lengths *)
Lemma w_pos c : 1 <= cp_width c.
Proof. unfold cp_width. destruct (c <? 128); [lia|]. destruct (c <? 2048); [lia|]. destruct (c <? 65536); lia. Qed.

Lemma blen_cons c l : blen (c :: l) = cp_width c + blen l.
Proof. reflexivity. Qed.

Lemma blen_app a b : blen (a ++ b) = blen a + blen b.
Proof.
  induction a as [|c a IH]; [reflexivity|].
  rewrite <- app_comm_cons, !blen_cons, IH. lia.
Qed.

Lemma blen_nil : blen [] = 0.
Proof. reflexivity. Qed.

Lemma blen_zero l : blen l = 0 -> l = [].
Proof. destruct l as [|c l]; [reflexivity|]. rewrite blen_cons. pose proof (w_pos c). lia. Qed.

Lemma length_le_blen l : N.of_nat (length l) <= blen l.
Proof.
  induction l as [|c l IH]; [cbn [length blen fold_right]; lia|].
  rewrite blen_cons. cbn [length]. pose proof (w_pos c). lia.
Qed.

(* ---------------------------------------------------------------- slicing primitives *)
Lemma str_from_app pre rest : str_from (pre ++ rest) (blen pre) = Ok rest.
Proof.
  induction pre as [|c pre IH].
  - rewrite blen_nil. cbn [app]. destruct rest; reflexivity.
  - rewrite <- app_comm_cons, blen_cons. cbn [str_from]. pose proof (w_pos c) as Hw.
    destruct (cp_width c + blen pre =? 0) eqn:E0; [lia|].
    destruct (cp_width c + blen pre <? cp_width c) eqn:E1; [lia|].
    replace (cp_width c + blen pre - cp_width c) with (blen pre) by lia. exact IH.
Qed.

Lemma str_to_app src rest : str_to (src ++ rest) (blen src) = Ok src.
Proof.
  induction src as [|c src IH].
  - rewrite blen_nil. cbn [app]. destruct rest; reflexivity.
  - rewrite <- app_comm_cons, blen_cons. cbn [str_to]. pose proof (w_pos c) as Hw.
    destruct (cp_width c + blen src =? 0) eqn:E0; [lia|].
    destruct (cp_width c + blen src <? cp_width c) eqn:E1; [lia|].
    replace (cp_width c + blen src - cp_width c) with (blen src) by lia. rewrite IH. reflexivity.
Qed.

Lemma str_slice_app pre src rest :
  str_slice (pre ++ src ++ rest) (blen pre) (blen pre + blen src) = Ok src.
Proof.
  unfold str_slice. destruct (blen pre + blen src <? blen pre) eqn:E; [lia|].
  rewrite str_from_app. cbn [bind].
  replace (blen pre + blen src - blen pre) with (blen src) by lia. apply str_to_app.
Qed.

(* adequacy of the Panic modelling: the primitives answer Ok exactly on boundaries, Panic otherwise *)
Lemma str_from_ok q : forall i r, str_from q i = Ok r -> exists pre, q = pre ++ r /\ blen pre = i.
Proof.
  induction q as [|c q IH]; intros i r H; cbn [str_from] in H.
  - destruct (i =? 0) eqn:E; [|discriminate]. injection H as <-. exists []. split; [reflexivity|]. rewrite blen_nil. lia.
  - destruct (i =? 0) eqn:E.
    + injection H as <-. exists []. split; [reflexivity|]. rewrite blen_nil. lia.
    + destruct (i <? cp_width c) eqn:E1; [discriminate|].
      destruct (IH _ _ H) as [pre [Hq Hb]]. exists (c :: pre). split.
      * rewrite Hq. reflexivity.
      * rewrite blen_cons. lia.
Qed.

Lemma str_from_ok_or_panic q : forall i, (exists r, str_from q i = Ok r) \/ str_from q i = Panic.
Proof.
  induction q as [|c q IH]; intros i; cbn [str_from].
  - destruct (i =? 0); [left; eexists; reflexivity | right; reflexivity].
  - destruct (i =? 0); [left; eexists; reflexivity|].
    destruct (i <? cp_width c); [right; reflexivity | apply IH].
Qed.

Lemma str_to_ok q : forall n r, str_to q n = Ok r -> exists post, q = r ++ post /\ blen r = n.
Proof.
  induction q as [|c q IH]; intros n r H; cbn [str_to] in H.
  - destruct (n =? 0) eqn:E; [|discriminate]. injection H as <-. exists []. split; [reflexivity|]. rewrite blen_nil. lia.
  - destruct (n =? 0) eqn:E.
    + injection H as <-. exists (c :: q). split; [reflexivity|]. rewrite blen_nil. lia.
    + destruct (n <? cp_width c) eqn:E1; [discriminate|].
      destruct (str_to q (n - cp_width c)) as [l| | |] eqn:E2; cbn [bind] in H; try discriminate.
      injection H as <-. destruct (IH _ _ E2) as [post [Hq Hb]]. exists post. split.
      * rewrite Hq. reflexivity.
      * rewrite blen_cons. lia.
Qed.

Lemma str_to_ok_or_panic q : forall n, (exists r, str_to q n = Ok r) \/ str_to q n = Panic.
Proof.
  induction q as [|c q IH]; intros n; cbn [str_to].
  - destruct (n =? 0); [left; eexists; reflexivity | right; reflexivity].
  - destruct (n =? 0); [left; eexists; reflexivity|].
    destruct (n <? cp_width c); [right; reflexivity|].
    destruct (IH (n - cp_width c)) as [[r Hr]|Hp]; rewrite ?Hr, ?Hp; cbn [bind];
      [left; eexists; reflexivity | right; reflexivity].
Qed.

Lemma str_from_boundary q i : boundary q i <-> str_from q i <> Panic.
Proof.
  split.
  - intros [pre [post [Hq Hb]]]. subst q i. rewrite str_from_app. discriminate.
  - intros H. destruct (str_from_ok_or_panic q i) as [[r Hr]|Hp]; [|contradiction].
    destruct (str_from_ok _ _ _ Hr) as [pre [Hq Hb]]. exists pre, r. split; assumption.
Qed.

(* two splittings of one string: the shorter prefix is a prefix of the longer one *)
Lemma split_prefix : forall (p1 s1 p2 s2 : str),
  p1 ++ s1 = p2 ++ s2 -> blen p1 <= blen p2 -> exists m, p2 = p1 ++ m /\ s1 = m ++ s2.
Proof.
  induction p1 as [|c p1 IH]; intros s1 p2 s2 H Hle.
  - exists p2. split; [reflexivity | exact H].
  - destruct p2 as [|d p2].
    + rewrite blen_cons, blen_nil in Hle. pose proof (w_pos c). lia.
    + rewrite <- !app_comm_cons in H. injection H as Hc Ht. subst d.
      rewrite !blen_cons in Hle. destruct (IH s1 p2 s2 Ht ltac:(lia)) as [m [Hp Hs]].
      exists m. split; [rewrite Hp; reflexivity | exact Hs].
Qed.

Lemma str_slice_ok_iff q a b : slice_ok q (a, b) <-> str_slice q a b <> Panic.
Proof.
  unfold slice_ok. cbn [fst snd]. split.
  - intros [Hab [Hb [[p1 [s1 [Hq1 Hl1]]] [p2 [s2 [Hq2 Hl2]]]]]].
    assert (Hsp : p1 ++ s1 = p2 ++ s2) by congruence.
    destruct (split_prefix p1 s1 p2 s2 Hsp ltac:(lia)) as [m [Hp Hs]].
    subst p2 s1 a b q. rewrite blen_app. rewrite str_slice_app. discriminate.
  - intros H. unfold str_slice in H. destruct (b <? a) eqn:E; [contradiction|].
    destruct (str_from_ok_or_panic q a) as [[r Hr]|Hp]; [|rewrite Hp in H; contradiction].
    rewrite Hr in H. cbn [bind] in H.
    destruct (str_to_ok_or_panic r (b - a)) as [[s Hs]|Hp]; [|contradiction].
    destruct (str_from_ok _ _ _ Hr) as [pre [Hq Hb]].
    destruct (str_to_ok _ _ _ Hs) as [post [Hr2 Hb2]].
    subst r q. repeat split.
    + lia.
    + rewrite !blen_app. lia.
    + exists pre, (s ++ post). split; [reflexivity | exact Hb].
    + exists (pre ++ s), post. split; [rewrite app_assoc; reflexivity | rewrite blen_app; lia].
Qed.

(* ---------------------------------------------------------------- State: positions and the invariant *)
Definition at_pos (q pre rest : str) (st : state) : Prop := q = pre ++ rest /\ idx st = blen pre.
Definition inv (q : str) (st : state) : Prop :=
  line st + col st <= idx st /\ Forall (slice_ok q) (slog st).

Lemma slice_ok_tail q pre rest : q = pre ++ rest -> slice_ok q (blen pre, blen q).
Proof.
  intros ->. unfold slice_ok. cbn [fst snd]. rewrite blen_app. repeat split; try lia.
  - exists pre, rest. split; reflexivity.
  - exists (pre ++ rest), []. split; [rewrite app_nil_r; reflexivity | apply blen_app].
Qed.

Lemma slice_ok_mid pre src rest : slice_ok (pre ++ src ++ rest) (blen pre, blen pre + blen src).
Proof.
  unfold slice_ok. cbn [fst snd]. rewrite !blen_app. repeat split; try lia.
  - exists pre, (src ++ rest). split; reflexivity.
  - exists (pre ++ src), rest. split; [rewrite app_assoc; reflexivity | apply blen_app].
Qed.

Lemma peek_spec q pre rest st :
  at_pos q pre rest st -> inv q st ->
  exists st', peek q st = Ok (hd_error rest, st') /\ at_pos q pre rest st' /\ inv q st'.
Proof.
  intros [Hq Hi] [Hlc Hlog].
  assert (Hsf : str_from q (idx st) = Ok rest) by (rewrite Hi, Hq; apply str_from_app).
  unfold peek. rewrite Hsf. cbn [bind].
  eexists. split; [reflexivity|]. split.
  - split; [exact Hq | exact Hi].
  - split; [exact Hlc|]. cbn [logged slog]. constructor; [|exact Hlog].
    rewrite Hi. apply slice_ok_tail with (rest := rest). exact Hq.
Qed.

Lemma uadd_ok a b : a + b < USIZE -> uadd a b = Ok (a + b).
Proof. intros H. unfold uadd. destruct (a + b <? USIZE) eqn:E; [reflexivity | lia]. Qed.

Lemma next_spec_cons q pre c rest st :
  blen q < USIZE -> at_pos q pre (c :: rest) st -> inv q st ->
  exists st', next q st = Ok (Some c, st') /\ at_pos q (pre ++ [c]) rest st' /\ inv q st'.
Proof.
  intros Hlen [Hq Hi] [Hlc Hlog]. pose proof (w_pos c) as Hw.
  assert (Hbl : blen q = blen pre + cp_width c + blen rest).
  { rewrite Hq, blen_app, blen_cons. lia. }
  assert (Hso : slice_ok q (idx st, blen q)).
  { rewrite Hi. apply slice_ok_tail with (rest := c :: rest). exact Hq. }
  assert (Hsf : str_from q (idx st) = Ok (c :: rest)) by (rewrite Hi, Hq; apply str_from_app).
  unfold next. rewrite Hsf. cbn [bind logged idx line col slog].
  assert (Hpos : q = (pre ++ [c]) ++ rest) by (rewrite <- app_assoc; exact Hq).
  assert (Hb2 : blen (pre ++ [c]) = blen pre + cp_width c).
  { rewrite blen_app, blen_cons, blen_nil. lia. }
  destruct (c =? 10) eqn:Enl.
  - rewrite (uadd_ok (line st) 1) by lia. cbn [bind fst snd].
    destruct rest as [|c2 rest'].
    + cbn [bind]. eexists. split; [reflexivity|]. split; [split; cbn [idx]; [exact Hpos|]|split; cbn [idx line col slog]].
      * rewrite Hb2, Hbl, blen_nil. lia.
      * lia.
      * constructor; assumption.
    + rewrite (uadd_ok (idx st) (cp_width c)) by (rewrite blen_cons in Hbl; pose proof (w_pos c2); lia).
      cbn [bind]. eexists. split; [reflexivity|]. split; [split; cbn [idx]; [exact Hpos|]|split; cbn [idx line col slog]].
      * rewrite Hb2. lia.
      * lia.
      * constructor; assumption.
  - rewrite (uadd_ok (col st) 1) by lia. cbn [bind fst snd].
    destruct rest as [|c2 rest'].
    + cbn [bind]. eexists. split; [reflexivity|]. split; [split; cbn [idx]; [exact Hpos|]|split; cbn [idx line col slog]].
      * rewrite Hb2, Hbl, blen_nil. lia.
      * lia.
      * constructor; assumption.
    + rewrite (uadd_ok (idx st) (cp_width c)) by (rewrite blen_cons in Hbl; pose proof (w_pos c2); lia).
      cbn [bind]. eexists. split; [reflexivity|]. split; [split; cbn [idx]; [exact Hpos|]|split; cbn [idx line col slog]].
      * rewrite Hb2. lia.
      * lia.
      * constructor; assumption.
Qed.

Lemma next_spec_nil q pre st :
  at_pos q pre [] st -> inv q st ->
  exists st', next q st = Ok (None, st') /\ at_pos q pre [] st' /\ inv q st'.
Proof.
  intros [Hq Hi] [Hlc Hlog].
  assert (Hsf : str_from q (idx st) = Ok []) by (rewrite Hi, Hq; apply str_from_app).
  unfold next. rewrite Hsf. cbn [bind].
  eexists. split; [reflexivity|]. split.
  - split; [exact Hq | exact Hi].
  - split; [exact Hlc|]. cbn [logged slog]. constructor; [|exact Hlog].
    rewrite Hi. apply slice_ok_tail with (rest := []). exact Hq.
Qed.

(* ---------------------------------------------------------------- take_while *)
Fixpoint span_st {P} (pred : P -> N -> bool * P) (p : P) (l : str) : str * str :=
  match l with
  | [] => ([], [])
  | c :: r => let (b, p') := pred p c in
              if b then let (t, d) := span_st pred p' r in (c :: t, d) else ([], l)
  end.

Lemma span_st_app {P} (pred : P -> N -> bool * P) : forall l p, l = fst (span_st pred p l) ++ snd (span_st pred p l).
Proof.
  induction l as [|c l IH]; intros p; [reflexivity|].
  cbn [span_st]. destruct (pred p c) as [b p']. destruct b; [|reflexivity].
  specialize (IH p'). destruct (span_st pred p' l) as [t d]. cbn [fst snd] in *. rewrite IH at 1. reflexivity.
Qed.

Lemma tw_loop_spec {P} (pred : P -> N -> bool * P) : forall chars p off i qlen,
  off + i + blen chars = qlen -> qlen < USIZE ->
  tw_loop pred p chars off i qlen = Ok (off + i + blen (fst (span_st pred p chars))).
Proof.
  induction chars as [|c r IH]; intros p off i qlen Hsum Hlt.
  - cbn [tw_loop span_st fst]. rewrite blen_nil in *. f_equal. lia.
  - rewrite blen_cons in Hsum. cbn [tw_loop span_st]. rewrite uadd_ok by lia. cbn [bind].
    destruct (pred p c) as [b p']. destruct b.
    + rewrite (IH p' (off + cp_width c) i qlen) by lia.
      destruct (span_st pred p' r) as [t d]. cbn [fst]. rewrite blen_cons. f_equal. lia.
    + cbn [fst]. rewrite blen_nil. f_equal. lia.
Qed.

Lemma take_while_spec {P} (pred : P -> N -> bool * P) p q pre rest st :
  blen q < USIZE -> at_pos q pre rest st -> inv q st ->
  exists st', take_while pred p q st = Ok (fst (span_st pred p rest), st')
              /\ at_pos q (pre ++ fst (span_st pred p rest)) (snd (span_st pred p rest)) st' /\ inv q st'.
Proof.
  intros Hlen [Hq Hi] [Hlc Hlog].
  pose proof (span_st_app pred rest p) as Hsp.
  set (t := fst (span_st pred p rest)) in *. set (d := snd (span_st pred p rest)) in *.
  assert (Hsf : str_from q (idx st) = Ok rest) by (rewrite Hi, Hq; apply str_from_app).
  unfold take_while. rewrite Hsf. cbn [bind logged idx line col slog].
  rewrite (tw_loop_spec pred rest p 0 (idx st) (blen q)).
  2:{ rewrite Hi, Hq, blen_app. lia. }
  2:{ exact Hlen. }
  fold t. cbn [bind].
  assert (Hq2 : q = pre ++ t ++ d) by (rewrite <- Hsp; exact Hq).
  replace (0 + idx st + blen t) with (blen pre + blen t) by lia.
  assert (Hss : str_slice q (idx st) (blen pre + blen t) = Ok t) by (rewrite Hi, Hq2; apply str_slice_app).
  rewrite Hss. cbn [bind].
  eexists. split; [reflexivity|]. split; [split; cbn [idx]|split; cbn [idx line col slog]].
  - rewrite <- app_assoc. exact Hq2.
  - rewrite blen_app. reflexivity.
  - lia.
  - constructor; [|constructor; [|exact Hlog]].
    + rewrite Hi, Hq2. apply slice_ok_mid.
    + rewrite Hi. apply slice_ok_tail with (rest := rest). exact Hq.
Qed.

(* what a stateless predicate takes *)
Lemma span_stateless f : forall l,
  forallb f (fst (span_st (stateless f) tt l)) = true /\
  (snd (span_st (stateless f) tt l) = [] \/
   exists x d, snd (span_st (stateless f) tt l) = x :: d /\ f x = false).
Proof.
  induction l as [|c l [IH1 IH2]]; [split; [reflexivity | left; reflexivity]|].
  cbn [span_st stateless]. destruct (f c) eqn:E.
  - destruct (span_st (stateless f) tt l) as [t d]. cbn [fst snd forallb] in *. rewrite E, IH1. split; [reflexivity | exact IH2].
  - cbn [fst snd forallb]. split; [reflexivity|]. right. exists c, l. split; [reflexivity | exact E].
Qed.

Lemma span_first_true {P} (pred : P -> N -> bool * P) p c r :
  fst (pred p c) = true -> exists t, fst (span_st pred p (c :: r)) = c :: t.
Proof.
  intros H. cbn [span_st]. destruct (pred p c) as [b p']. cbn [fst] in H. subst b.
  destruct (span_st pred p' r) as [t d]. exists t. reflexivity.
Qed.

Lemma forallb_not_in (x : N) l : forallb (fun c => negb (c =? x)) l = true -> ~ In x l.
Proof.
  induction l as [|c l IH]; intros H Hin; [exact Hin|].
  cbn [forallb] in H. apply andb_true_iff in H as [H1 H2]. destruct Hin as [->|Hin].
  - rewrite N.eqb_refl in H1. discriminate.
  - exact (IH H2 Hin).
Qed.

Lemma list_eqb_eq : forall a b, list_eqb a b = true -> a = b.
Proof.
  induction a as [|x a IH]; intros [|y b] H; cbn [list_eqb] in H; try discriminate; [reflexivity|].
  apply andb_true_iff in H as [H1 H2]. apply N.eqb_eq in H1. subst y. f_equal. apply IH. exact H2.
Qed.

(* ---------------------------------------------------------------- the arms of next_token *)
Section Arms.
Variable is_alpha : N -> bool.
Variable is_numeric : N -> bool.
Notation arm_of' := (arm_of is_alpha).
Notation spells' := (spells is_alpha is_numeric).
Notation run_arm' := (run_arm is_alpha is_numeric).
Notation next_token' := (next_token is_alpha is_numeric).
Notation tok_loop' := (tok_loop is_alpha is_numeric).
Notation tokenize' := (tokenize is_alpha is_numeric).
Notation tiles' := (tiles is_alpha is_numeric).

(* what taking an arm tells about the character *)
Definition arm_fact (c : N) (a : arm) : Prop :=
  match a with
  | AWs => True
  | AOp1 o => In [c] (op_spellings o)
  | AOp2 alts d => In [c] (op_spellings d) /\
                   forall c2 o, assoc_op c2 alts = Some o -> In [c; c2] (op_spellings o)
  | AMinus => c = 45
  | AString => c = 39
  | ANumber => is_digit c || (c =? 46) = true
  | AIdent => is_identifier_start is_alpha c = true
  | AQIdent => c = 34
  | AUnhandled => True
  end.

Ltac alts_tac :=
  let c2 := fresh "c2" in let o := fresh "o" in let H := fresh "H" in
  intros c2 o H; cbn [assoc_op] in H;
  repeat lazymatch type of H with
  | (if ?b then _ else _) = _ =>
    let E2 := fresh "E2" in
    destruct b eqn:E2;
    [ apply N.eqb_eq in E2; subst c2; injection H as <-; cbn [op_spellings In]; auto 6 | ]
  end; discriminate H.

Ltac fact_tac E :=
  cbn [arm_fact op_spellings In];
  first [ exact I | exact E | reflexivity
        | solve [auto 6]
        | split; [ solve [auto 6] | alts_tac ] ].

Lemma arm_of_fact c : arm_fact c (arm_of' c).
Proof.
  unfold arm_of.
  repeat lazymatch goal with
  | |- arm_fact _ (if ?b then _ else _) =>
    let E := fresh "E" in
    destruct b eqn:E; [ try (apply N.eqb_eq in E; subst c); fact_tac E | ]
  end.
  exact I.
Qed.

Definition step_ok (q pre rest : str) (t : token) (st' : state) : Prop :=
  exists src rest', rest = src ++ rest' /\ src <> [] /\ spells' t src rest'
                    /\ at_pos q (pre ++ src) rest' st' /\ inv q st'.

Lemma at_pos_assoc q pre a b rest st : at_pos q ((pre ++ a) ++ b) rest st -> at_pos q (pre ++ a ++ b) rest st.
Proof. rewrite <- app_assoc. exact (fun H => H). Qed.

Lemma escape_noq qc : forall t, forallb (fun c => negb (c =? qc)) t = true -> escape qc t = t.
Proof.
  induction t as [|c t IH]; intros H; [reflexivity|].
  cbn [forallb] in H. apply andb_true_iff in H as [H1 H2]. cbn [escape].
  apply negb_true_iff in H1. rewrite H1, (IH H2). reflexivity.
Qed.

Lemma escape_app qc : forall a b, escape qc (a ++ b) = escape qc a ++ escape qc b.
Proof.
  induction a as [|c a IH]; intros b; [reflexivity|].
  cbn [app escape]. rewrite IH. destruct (c =? qc); reflexivity.
Qed.

Lemma escape_quote_cons qc b : escape qc (qc :: b) = qc :: qc :: escape qc b.
Proof. cbn [escape]. rewrite N.eqb_refl. reflexivity. Qed.

(* Tokenizer::take_quoted_string: the loop collects the content up to the closing quote, collapsing doubled
   quotes; at end of input it answers Unterminated *)
Lemma quoted_loop_spec qc q :
  blen q < USIZE -> forall fuel pre rest st acc,
  at_pos q pre rest st -> inv q st -> (length rest < fuel)%nat ->
  match quoted_loop fuel qc q st acc with
  | Ok (body, st') =>
    exists b rest', body = acc ++ b /\ rest = escape qc b ++ qc :: rest' /\ ~ (exists r, rest' = qc :: r) /\
                    at_pos q (pre ++ escape qc b ++ [qc]) rest' st' /\ inv q st'
  | Err e => e = Unterminated qc /\ exists b, rest = escape qc b
  | _ => False
  end.
Proof.
  intros Hlen. induction fuel as [|f IH]; intros pre rest st acc Hp Hi Hfuel; [lia|].
  cbn [quoted_loop].
  destruct (take_while_spec (stateless (fun c => negb (c =? qc))) tt q pre rest st Hlen Hp Hi) as [st1 [Htw [Hp1 Hi1]]].
  pose proof (span_st_app (stateless (fun c => negb (c =? qc))) rest tt) as Hsp.
  destruct (span_stateless (fun c => negb (c =? qc)) rest) as [Hall Hd].
  set (t := fst (span_st (stateless (fun c => negb (c =? qc))) tt rest)) in *.
  set (d := snd (span_st (stateless (fun c => negb (c =? qc))) tt rest)) in *.
  pose proof (escape_noq qc t Hall) as Het.
  rewrite Htw. cbn [bind fst snd].
  destruct Hd as [Hd | [x [d' [Hd Hx]]]].
  - (* end of input inside the string *)
    rewrite Hd in Hp1. destruct (next_spec_nil q (pre ++ t) st1 Hp1 Hi1) as [st2 [Hn [Hp2 Hi2]]].
    rewrite Hn. cbn [bind fst snd]. split; [reflexivity|]. exists t.
    rewrite Hsp, Hd, app_nil_r, Het. reflexivity.
  - apply negb_false_iff, N.eqb_eq in Hx. subst x. rewrite Hd in Hp1.
    destruct (next_spec_cons q (pre ++ t) qc d' st1 Hlen Hp1 Hi1) as [st2 [Hn [Hp2 Hi2]]].
    rewrite Hn. cbn [bind fst snd].
    destruct (peek_spec q ((pre ++ t) ++ [qc]) d' st2 Hp2 Hi2) as [st3 [Hpk [Hp3 Hi3]]].
    rewrite Hpk. cbn [bind fst snd].
    assert (Hpre : (pre ++ t) ++ [qc] = pre ++ escape qc t ++ [qc]) by (rewrite Het, <- app_assoc; reflexivity).
    destruct d' as [|c2 d'']; cbn [hd_error].
    + exists t, []. repeat split.
      * rewrite Hsp, Hd, Het. reflexivity.
      * intros [r Hr]. discriminate Hr.
      * rewrite <- Hpre. apply Hp3.
      * rewrite <- Hpre. apply Hp3.
      * apply Hi3.
      * apply Hi3.
    + destruct (c2 =? qc) eqn:E2.
      * (* doubled quote: the string continues *)
        apply N.eqb_eq in E2. subst c2.
        destruct (next_spec_cons q ((pre ++ t) ++ [qc]) qc d'' st3 Hlen Hp3 Hi3) as [st4 [Hn4 [Hp4 Hi4]]].
        rewrite Hn4. cbn [bind fst snd].
        assert (Hf' : (length d'' < f)%nat).
        { rewrite Hsp, Hd, app_length in Hfuel. cbn [length] in Hfuel. lia. }
        specialize (IH (((pre ++ t) ++ [qc]) ++ [qc]) d'' st4 ((acc ++ t) ++ [qc]) Hp4 Hi4 Hf').
        destruct (quoted_loop f qc q st4 ((acc ++ t) ++ [qc])) as [[body st5]|e| |].
        -- destruct IH as [b' [rest' [Hb [Hr [Hnq [Hp5 Hi5]]]]]].
           exists (t ++ qc :: b'), rest'.
           assert (Hesc : escape qc (t ++ qc :: b') = t ++ qc :: qc :: escape qc b').
           { rewrite escape_app, escape_quote_cons, Het. reflexivity. }
           assert (Hpre2 : (((pre ++ t) ++ [qc]) ++ [qc]) ++ escape qc b' ++ [qc]
                           = pre ++ escape qc (t ++ qc :: b') ++ [qc]).
           { rewrite Hesc. repeat rewrite <- app_assoc. reflexivity. }
           repeat split.
           ++ rewrite Hb. repeat rewrite <- app_assoc. reflexivity.
           ++ rewrite Hsp, Hd, Hr, Hesc. repeat rewrite <- app_assoc. reflexivity.
           ++ exact Hnq.
           ++ rewrite <- Hpre2. apply Hp5.
           ++ rewrite <- Hpre2. apply Hp5.
           ++ apply Hi5.
           ++ apply Hi5.
        -- destruct IH as [He [b' Hr]]. split; [exact He|]. exists (t ++ qc :: b').
           rewrite escape_app, escape_quote_cons, Het, Hsp, Hd, Hr. reflexivity.
        -- exact IH.
        -- exact IH.
      * exists t, (c2 :: d''). repeat split.
        -- rewrite Hsp, Hd, Het. reflexivity.
        -- intros [r Hr]. injection Hr as Hc _. subst c2. rewrite N.eqb_refl in E2. discriminate E2.
        -- rewrite <- Hpre. apply Hp3.
        -- rewrite <- Hpre. apply Hp3.
        -- apply Hi3.
        -- apply Hi3.
Qed.

Lemma quoted_spec qc q pre rest st :
  blen q < USIZE -> at_pos q pre rest st -> inv q st ->
  match take_quoted_string qc q st with
  | Ok (body, st') =>
    exists rest', rest = escape qc body ++ qc :: rest' /\ ~ (exists r, rest' = qc :: r) /\
                  at_pos q (pre ++ escape qc body ++ [qc]) rest' st' /\ inv q st'
  | Err e => e = Unterminated qc /\ exists b, rest = escape qc b
  | _ => False
  end.
Proof.
  intros Hlen Hp Hi. unfold take_quoted_string.
  assert (Hf : (length rest < S (length q))%nat).
  { destruct Hp as [Hq _]. rewrite Hq, app_length. lia. }
  pose proof (quoted_loop_spec qc q Hlen (S (length q)) pre rest st [] Hp Hi Hf) as H.
  destruct (quoted_loop (S (length q)) qc q st []) as [[body st']|e| |]; try exact H.
  destruct H as [b [rest' [Hb [Hr [Hnq [Hp' Hi']]]]]]. cbn [app] in Hb. subst b.
  exists rest'. repeat split; try assumption; try apply Hp'; try apply Hi'.
Qed.

Lemma num_pred_true pf c p' : num_pred pf c = (true, p') -> is_digit c || (c =? 46) = true.
Proof.
  unfold num_pred. destruct (is_digit c); [reflexivity|]. destruct pf; [discriminate|].
  destruct (c =? 46); [reflexivity | discriminate].
Qed.

Lemma span_num : forall l pf,
  forallb (fun c => is_digit c || (c =? 46)) (fst (span_st num_pred pf l)) = true.
Proof.
  induction l as [|c l IH]; intros pf; [reflexivity|].
  cbn [span_st]. destruct (num_pred pf c) as [b p'] eqn:Enp. destruct b; [|reflexivity].
  specialize (IH p'). destruct (span_st num_pred p' l) as [t d]. cbn [fst forallb] in *.
  rewrite (num_pred_true _ _ _ Enp), IH. reflexivity.
Qed.

Lemma ident_start_pred c : is_identifier_start is_alpha c = true -> ident_pred is_alpha is_numeric c = true.
Proof.
  unfold is_identifier_start, ident_pred, is_alnum.
  destruct (is_alpha c), (is_numeric c), (c =? 95); cbn [orb]; intros H; first [reflexivity | discriminate H].
Qed.

Lemma run_arm_spec q pre c rest st :
  blen q < USIZE -> at_pos q pre (c :: rest) st -> inv q st ->
  match run_arm' (arm_of' c) c q st with
  | Ok (t, st') => step_ok q pre (c :: rest) t st'
  | Err e => (e = Unhandled c /\ arm_of' c = AUnhandled) \/
             (exists b, e = Unterminated c /\ (c = 39 \/ c = 34) /\ rest = escape c b)
  | _ => False
  end.
Proof.
  intros Hlen Hp Hi. pose proof (arm_of_fact c) as Hf.
  destruct (arm_of' c) as [ |o|alts dflt| | | | | | ] eqn:Ha; cbn [run_arm arm_fact] in *.
  - (* whitespace *)
    destruct (next_spec_cons q pre c rest st Hlen Hp Hi) as [st1 [Hn [Hp1 Hi1]]].
    rewrite Hn. cbn [bind fst snd]. exists [c], rest. repeat split; try assumption; try apply Hp1; try apply Hi1.
    + discriminate.
    + cbn [spells]. exists c. split; [reflexivity | exact Ha].
  - (* one-character operator *)
    destruct (next_spec_cons q pre c rest st Hlen Hp Hi) as [st1 [Hn [Hp1 Hi1]]].
    rewrite Hn. cbn [bind fst snd]. exists [c], rest. repeat split; try assumption; try apply Hp1; try apply Hi1.
    discriminate.
  - (* one- or two-character operator *)
    destruct Hf as [Hf1 Hf2].
    destruct (next_spec_cons q pre c rest st Hlen Hp Hi) as [st1 [Hn [Hp1 Hi1]]].
    rewrite Hn. cbn [bind fst snd].
    destruct (peek_spec q (pre ++ [c]) rest st1 Hp1 Hi1) as [st2 [Hpk [Hp2 Hi2]]].
    rewrite Hpk. cbn [bind fst snd].
    destruct rest as [|c2 rest1]; cbn [hd_error].
    + exists [c], []. repeat split; try assumption; try apply Hp2; try apply Hi2. discriminate.
    + destruct (assoc_op c2 alts) as [o|] eqn:Ea.
      * destruct (next_spec_cons q (pre ++ [c]) c2 rest1 st2 Hlen Hp2 Hi2) as [st3 [Hn3 [Hp3 Hi3]]].
        rewrite Hn3. cbn [bind fst snd]. apply at_pos_assoc in Hp3.
        exists [c; c2], rest1. repeat split; try apply Hp3; try apply Hi3.
        -- discriminate.
        -- exact (Hf2 _ _ Ea).
      * exists [c], (c2 :: rest1). repeat split; try assumption; try apply Hp2; try apply Hi2. discriminate.
  - (* minus or single-line comment *)
    subst c.
    destruct (next_spec_cons q pre 45 rest st Hlen Hp Hi) as [st1 [Hn [Hp1 Hi1]]].
    rewrite Hn. cbn [bind fst snd].
    destruct (peek_spec q (pre ++ [45]) rest st1 Hp1 Hi1) as [st2 [Hpk [Hp2 Hi2]]].
    rewrite Hpk. cbn [bind fst snd].
    destruct rest as [|c2 rest1]; cbn [hd_error].
    + exists [45], []. repeat split; try apply Hp2; try apply Hi2; [discriminate | cbn [spells op_spellings In]; auto].
    + destruct (c2 =? 45) eqn:E45.
      * apply N.eqb_eq in E45. subst c2.
        destruct (next_spec_cons q (pre ++ [45]) 45 rest1 st2 Hlen Hp2 Hi2) as [st3 [Hn3 [Hp3 Hi3]]].
        rewrite Hn3. cbn [bind fst snd].
        destruct (take_while_spec (stateless (fun c => negb (c =? 10))) tt q _ rest1 st3 Hlen Hp3 Hi3) as [st4 [Htw [Hp4 Hi4]]].
        pose proof (span_st_app (stateless (fun c => negb (c =? 10))) rest1 tt) as Hsp.
        destruct (span_stateless (fun c => negb (c =? 10)) rest1) as [Hall Hd].
        set (t := fst (span_st (stateless (fun c => negb (c =? 10))) tt rest1)) in *.
        set (d := snd (span_st (stateless (fun c => negb (c =? 10))) tt rest1)) in *.
        rewrite Htw. cbn [bind fst snd].
        apply at_pos_assoc in Hp4. rewrite <- app_assoc in Hp4. cbn [app] in Hp4.
        exists (45 :: 45 :: t), d. repeat split; try apply Hp4; try apply Hi4.
        -- cbn [app]. rewrite Hsp at 1. reflexivity.
        -- discriminate.
        -- apply forallb_not_in. exact Hall.
        -- destruct Hd as [Hd | [x [d' [Hd Hx]]]]; [left; exact Hd|].
           right. apply negb_false_iff, N.eqb_eq in Hx. subst x. exists d'. exact Hd.
      * exists [45], (c2 :: rest1). repeat split; try apply Hp2; try apply Hi2; [discriminate | cbn [spells op_spellings In]; auto].
  - (* string literal *)
    subst c.
    destruct (next_spec_cons q pre 39 rest st Hlen Hp Hi) as [st1 [Hn [Hp1 Hi1]]].
    rewrite Hn. cbn [bind fst snd].
    pose proof (quoted_spec 39 q (pre ++ [39]) rest st1 Hlen Hp1 Hi1) as Hq.
    destruct (take_quoted_string 39 q st1) as [[body st2]|e| |]; cbn [bind fst snd]; try exact Hq.
    + destruct Hq as [rest' [Hr [Hnq [Hp2 Hi2]]]]. apply at_pos_assoc in Hp2.
      exists (39 :: escape 39 body ++ [39]), rest'. repeat split; try apply Hp2; try apply Hi2.
      * rewrite Hr. cbn [app]. rewrite <- app_assoc. reflexivity.
      * discriminate.
      * exact Hnq.
    + destruct Hq as [He [b Hb]]. right. exists b. repeat split; [exact He | left; reflexivity | exact Hb].
  - (* number or period *)
    destruct (take_while_spec num_pred false q pre (c :: rest) st Hlen Hp Hi) as [st1 [Htw [Hp1 Hi1]]].
    pose proof (span_st_app num_pred (c :: rest) false) as Hsp.
    pose proof (span_num (c :: rest) false) as Hnum.
    assert (Hfirst : fst (num_pred false c) = true).
    { unfold num_pred. destruct (is_digit c); [reflexivity|]. cbn [orb] in Hf. rewrite Hf. reflexivity. }
    destruct (span_first_true num_pred false c rest Hfirst) as [t' Ht].
    set (t := fst (span_st num_pred false (c :: rest))) in *.
    set (d := snd (span_st num_pred false (c :: rest))) in *.
    rewrite Htw. cbn [bind fst snd].
    destruct (list_eqb t [46]) eqn:Ep.
    + apply list_eqb_eq in Ep. exists t, d. repeat split; try assumption; try apply Hp1; try apply Hi1.
      * rewrite Ht. discriminate.
      * rewrite Ep. cbn [spells op_spellings In]. auto.
    + exists t, d. repeat split; try assumption; try apply Hp1; try apply Hi1.
      rewrite Ht. discriminate.
  - (* identifier / keyword *)
    destruct (take_while_spec (stateless (ident_pred is_alpha is_numeric)) tt q pre (c :: rest) st Hlen Hp Hi) as [st1 [Htw [Hp1 Hi1]]].
    pose proof (span_st_app (stateless (ident_pred is_alpha is_numeric)) (c :: rest) tt) as Hsp.
    destruct (span_stateless (ident_pred is_alpha is_numeric) (c :: rest)) as [Hall _].
    assert (Hfirst : fst (stateless (ident_pred is_alpha is_numeric) tt c) = true).
    { cbn [stateless fst]. apply ident_start_pred. exact Hf. }
    destruct (span_first_true _ tt c rest Hfirst) as [t' Ht].
    set (t := fst (span_st (stateless (ident_pred is_alpha is_numeric)) tt (c :: rest))) in *.
    set (d := snd (span_st (stateless (ident_pred is_alpha is_numeric)) tt (c :: rest))) in *.
    rewrite Htw. cbn [bind fst snd].
    exists t, d. repeat split; try assumption; try apply Hp1; try apply Hi1.
    rewrite Ht. discriminate.
  - (* quoted identifier *)
    subst c.
    destruct (next_spec_cons q pre 34 rest st Hlen Hp Hi) as [st1 [Hn [Hp1 Hi1]]].
    rewrite Hn. cbn [bind fst snd].
    pose proof (quoted_spec 34 q (pre ++ [34]) rest st1 Hlen Hp1 Hi1) as Hq.
    destruct (take_quoted_string 34 q st1) as [[body st2]|e| |]; cbn [bind fst snd]; try exact Hq.
    + destruct Hq as [rest' [Hr [Hnq [Hp2 Hi2]]]]. apply at_pos_assoc in Hp2.
      exists (34 :: escape 34 body ++ [34]), rest'. repeat split; try apply Hp2; try apply Hi2.
      * rewrite Hr. cbn [app]. rewrite <- app_assoc. reflexivity.
      * discriminate.
      * exact Hnq.
    + destruct Hq as [He [b Hb]]. right. exists b. repeat split; [exact He | right; reflexivity | exact Hb].
  - left. split; reflexivity.
Qed.

Definition err_at (e : lex_error) (c : N) (r : str) : Prop :=
  (e = Unhandled c /\ arm_of' c = AUnhandled) \/
  (exists b, e = Unterminated c /\ (c = 39 \/ c = 34) /\ r = escape c b).

Lemma next_token_spec q pre rest st :
  blen q < USIZE -> at_pos q pre rest st -> inv q st ->
  match next_token' q st with
  | Ok (None, st') => rest = [] /\ inv q st'
  | Ok (Some t, st') => step_ok q pre rest t st'
  | Err e => exists c r, rest = c :: r /\ err_at e c r
  | _ => False
  end.
Proof.
  intros Hlen Hp Hi. unfold next_token.
  destruct (peek_spec q pre rest st Hp Hi) as [st0 [Hpk [Hp0 Hi0]]].
  rewrite Hpk. cbn [bind fst snd].
  destruct rest as [|c rest]; cbn [hd_error].
  - split; [reflexivity | exact Hi0].
  - pose proof (run_arm_spec q pre c rest st0 Hlen Hp0 Hi0) as Hr.
    destruct (run_arm' (arm_of' c) c q st0) as [[t st1]|e| |]; cbn [bind fst snd].
    + exact Hr.
    + exists c, rest. split; [reflexivity | exact Hr].
    + exact Hr.
    + exact Hr.
Qed.

Lemma tok_loop_spec : forall fuel q pre rest st,
  blen q < USIZE -> at_pos q pre rest st -> inv q st -> (length rest < fuel)%nat ->
  match tok_loop' fuel q st (idx st) with
  | Ok (toks, st') => tiles' (idx st) rest toks /\ inv q st'
  | Err e => exists pre' c r, rest = pre' ++ c :: r /\ err_at e c r
  | _ => False
  end.
Proof.
  induction fuel as [|f IH]; intros q pre rest st Hlen Hp Hi Hfuel; [lia|].
  cbn [tok_loop].
  pose proof (next_token_spec q pre rest st Hlen Hp Hi) as Hn.
  destruct (next_token' q st) as [[[t|] st1]|c| |]; cbn [bind fst snd].
  - destruct Hn as [src [rest' [Hr [Hne [Hsp [Hp1 Hi1]]]]]].
    assert (Hf' : (length rest' < f)%nat).
    { rewrite Hr, app_length in Hfuel. destruct src; [contradiction|]. cbn [length] in Hfuel. lia. }
    specialize (IH q (pre ++ src) rest' st1 Hlen Hp1 Hi1 Hf').
    assert (Hidx : idx st1 = idx st + blen src).
    { destruct Hp as [_ Hix]. destruct Hp1 as [_ Hix1]. rewrite Hix1, Hix, blen_app. reflexivity. }
    destruct (tok_loop' f q st1 (idx st1)) as [[toks st2]|c| |]; cbn [bind fst snd].
    + destruct IH as [Ht Hi2]. split; [|exact Hi2]. rewrite Hr.
      apply tiles_cons; [exact Hne | exact Hsp | reflexivity | rewrite <- Hidx; exact Ht].
    + destruct IH as [pre' [c0 [r0 [Hr0 He]]]]. exists (src ++ pre'), c0, r0. split; [|exact He].
      rewrite Hr, Hr0, <- app_assoc. reflexivity.
    + exact IH.
    + exact IH.
  - destruct Hn as [-> Hi1]. split; [constructor | exact Hi1].
  - destruct Hn as [c0 [r0 [Hr0 He]]]. exists [], c0, r0. split; [exact Hr0 | exact He].
  - exact Hn.
  - exact Hn.
Qed.

Lemma tokenize_spec q :
  blen q < USIZE ->
  match tokenize' q with
  | Ok (toks, st') => tiles' 0 q toks /\ inv q st'
  | Err e => exists pre c r, q = pre ++ c :: r /\ err_at e c r
  | _ => False
  end.
Proof.
  intros Hlen. unfold tokenize.
  apply (tok_loop_spec (S (length q)) q [] q init_state Hlen).
  - split; reflexivity.
  - split; [cbn [init_state line col idx]; lia | constructor].
  - lia.
Qed.

(* ---- the theorems ---- *)
Theorem lexer_total q :
  blen q < USIZE ->
  (exists toks st, tokenize' q = Ok (toks, st)) \/ (exists c, tokenize' q = Err c).
Proof.
  intros Hlen. pose proof (tokenize_spec q Hlen) as H.
  destruct (tokenize' q) as [[toks st]|c| |]; [left; eauto | right; eauto | contradiction | contradiction].
Qed.

(* the two errors, and where they come from: an unhandled character at a token start, or an opening quote whose
   string (doubled quotes being escapes) runs to the end of the input *)
Theorem lexer_errors_characterised q e :
  blen q < USIZE -> tokenize' q = Err e ->
  exists pre c r, q = pre ++ c :: r /\
    ((e = Unhandled c /\ arm_of' c = AUnhandled) \/
     (exists body, e = Unterminated c /\ (c = 39 \/ c = 34) /\ r = escape c body)).
Proof. intros Hlen E. pose proof (tokenize_spec q Hlen) as H. rewrite E in H. exact H. Qed.

Theorem lexer_slices_in_bounds q toks st :
  blen q < USIZE -> tokenize' q = Ok (toks, st) -> Forall (slice_ok q) (slog st).
Proof. intros Hlen E. pose proof (tokenize_spec q Hlen) as H. rewrite E in H. apply H. Qed.

Theorem lexer_tokens_cover_input q toks st :
  blen q < USIZE -> tokenize' q = Ok (toks, st) -> tiles' 0 q toks.
Proof. intros Hlen E. pose proof (tokenize_spec q Hlen) as H. rewrite E in H. apply H. Qed.

Lemma tiles_concat : forall off rest toks, tiles' off rest toks ->
  exists srcs, concat srcs = rest /\
    Forall2 (fun t src => src <> [] /\ exists after, spells' (tok t) src after) toks srcs.
Proof.
  intros off rest toks H. induction H as [off|off src rest t ts Hne Hsp Hst Ht [srcs [Hc Hf]]].
  - exists []. split; [reflexivity | constructor].
  - exists (src :: srcs). split; [cbn [concat]; rewrite Hc; reflexivity|].
    constructor; [split; [exact Hne | exists rest; exact Hsp] | exact Hf].
Qed.

Theorem lexer_concat_sources q toks st :
  blen q < USIZE -> tokenize' q = Ok (toks, st) ->
  exists srcs, concat srcs = q /\
    Forall2 (fun t src => src <> [] /\ exists after, spells' (tok t) src after) toks srcs.
Proof. intros Hlen E. exact (tiles_concat _ _ _ (lexer_tokens_cover_input q toks st Hlen E)). Qed.

Lemma tiles_length : forall off rest toks, tiles' off rest toks -> (length toks <= length rest)%nat.
Proof.
  intros off rest toks H. induction H as [off|off src rest t ts Hne Hsp Hst Ht IH]; [cbn [length]; lia|].
  rewrite app_length. destruct src; [contradiction|]. cbn [length] in *. lia.
Qed.

Theorem lexer_token_count q toks st :
  blen q < USIZE -> tokenize' q = Ok (toks, st) -> (length toks <= length q)%nat.
Proof. intros Hlen E. exact (tiles_length _ _ _ (lexer_tokens_cover_input q toks st Hlen E)). Qed.

End Arms.

(* ---------------------------------------------------------------- keywords.rs *)
Theorem keywords_strictly_sorted : keywords <> [] /\ sortedb keywords = true.
Proof. split; [discriminate | vm_compute; reflexivity]. Qed.
