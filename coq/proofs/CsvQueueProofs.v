(* C17 — the file queue of one partition (ReadCsv::poll_pull + CsvReader::prepare) and the growing inference sample of
   ReadCsv::bind.
     reader_run_fst            reader_run returns the rows of reader_loop_h (and the state the reader is left in)
     read_queue_independent    the rows of a partition are the rows of its files read one by one from a fresh reader,
                               whatever state the reader was in before: the rows of file i depend on file i only
     read_queue_rows           ... and are, per file, those of one read of the whole file (any reads, any batch size)
     read_queue_old_refuted    before `decoder.reset()` in prepare: a BOM at the start of a later file stayed in its
                               first field
     bind_sample_enough        the sample bind infers from holds two complete records, or reaches the end of the file,
                               or is MAX_INFER_BUF_SIZE long
     sample_grows_old_refuted  before the sample could grow: a first data record ending beyond the first read left the
                               columns Boolean and the scan failed *)
From Coq Require Import NArith List Bool Arith Lia.
From GV Require Import model.Csv model.CsvInfer proofs.CsvProofs proofs.CsvFlushProofs proofs.CsvBomProofs.
Import ListNotations.

Fixpoint opt_concat {A} (l : list (option (list A))) : option (list A) :=
  match l with
  | [] => Some []
  | x :: r => opt_app x (opt_concat r)
  end.

Lemma reader_run_fst : forall d cap chunks skip h,
  fst (reader_run d cap skip h chunks) = reader_loop_h d cap skip h chunks.
Proof.
  intros d cap chunks. induction chunks as [|ch rest IH]; intros skip h; [reflexivity|].
  cbn [reader_run reader_loop_h].
  destruct (cap <=? length (bounds (snd (h_st (decode_h d h ch))))).
  - cbn [fst]. rewrite IH. reflexivity.
  - apply IH.
Qed.

(* FULL STATEMENT: per-file independence.  `h` is whatever the previous files of the partition left behind *)
Theorem read_queue_independent : forall d cap hdr files h,
  read_queue prepare d cap hdr h files = opt_concat (map (reader_loop_h d cap hdr h_init) files).
Proof.
  intros d cap hdr files. induction files as [|f rest IH]; intros h; [reflexivity|].
  cbn [read_queue map opt_concat]. unfold prepare at 1. rewrite reader_run_fst, IH. reflexivity.
Qed.

Theorem read_queue_rows : forall d cap hdr files h,
  1 <= cap -> Forall (fun f => Forall (fun ch => ch <> []) f) files ->
  read_queue prepare d cap hdr h files
  = opt_concat (map (fun f => option_map (fun rs => if hdr then tl rs else rs) (run_reader d (concat f))) files).
Proof.
  intros d cap hdr files h Hcap HF. rewrite read_queue_independent. f_equal.
  induction HF as [|f rest Hf _ IH]; [reflexivity|].
  cbn [map]. rewrite IH, (reader_h_chunking_irrelevant d cap hdr f Hcap Hf). reflexivity.
Qed.

Example read_queue_rows_sat :
  let d := {| delim := 44; quote := 34 |}%N in
  let files := [[[49;44;50;10;51]; [44;52]]; [[239;187]; [191;55;44;56;10]]]%N in
  1 <= 2 /\ Forall (fun f => Forall (fun ch => ch <> []) f) files /\
  read_queue prepare d 2 false h_init files = Some [[[49];[50]]; [[51];[52]]; [[55];[56]]]%N.
Proof.
  cbv zeta. split; [apply Nat.le_succ_diag_r|]. split; [repeat constructor; discriminate|]. vm_compute. reflexivity.
Qed.

(* "1,2\n" then BOM "7,8\n" in one partition: the old prepare left has_read / started set, the BOM of the second file
   was data *)
Lemma read_queue_old_refuted :
  exists d files,
    Forall (fun f => Forall (fun ch => ch <> []) f) files /\
    read_queue prepare_old d 2048 false h_init files = Some [[[49];[50]]; [[239;187;191;55];[56]]]%N /\
    read_queue prepare d 2048 false h_init files = Some [[[49];[50]]; [[55];[56]]]%N.
Proof.
  exists comma_dq, [[[49;44;50;10]]; [[239;187;191;55;44;56;10]]]%N.
  split; [repeat constructor; discriminate|]. split; vm_compute; reflexivity.
Qed.

(* ------------------------------------------------------------------ the inference sample of bind *)
Theorem bind_sample_enough : forall fuel max buflen acc rest eof r,
  bind_sample fuel max buflen acc rest eof = Some r ->
  2 <= length (bs_recs r) \/ bs_eof r = true \/ (max <= bs_len r)%N.
Proof.
  induction fuel as [|k IH]; intros max buflen acc rest eof r H; cbn [bind_sample] in H;
    destruct (infer_dialect acc eof) as [od|]; try discriminate H;
    destruct (run_sample match od with Some d => d | None => default_dialect end eof acc) as [recs|];
    try discriminate H;
    destruct ((2 <=? length recs) || eof || (max <=? buflen)%N) eqn:E.
  1, 3: injection H as <-; cbn [bs_recs bs_eof bs_len];
        apply orb_prop in E; destruct E as [E|E];
        [apply orb_prop in E; destruct E as [E|E];
         [left; apply Nat.leb_le; exact E|right; left; exact E]
        |right; right; apply N.leb_le; exact E].
  - discriminate H.
  - destruct (split_n rest buflen) as [[more rest'] filled]. exact (IH _ _ _ _ _ _ H).
Qed.

(* the first read alone is used exactly when it is enough *)
Lemma bind_sample_first_enough : forall fuel max buflen acc rest eof od recs,
  infer_dialect acc eof = Some od ->
  run_sample match od with Some d => d | None => default_dialect end eof acc = Some recs ->
  2 <= length recs \/ eof = true ->
  bind_sample fuel max buflen acc rest eof
  = Some {| bs_dialect := od; bs_recs := recs; bs_eof := eof; bs_len := buflen |}.
Proof.
  intros fuel max buflen acc rest eof od recs Hd Hr He.
  destruct fuel; cbn [bind_sample]; rewrite Hd, Hr;
    (destruct He as [He| ->]; [apply Nat.leb_le in He; rewrite He|rewrite orb_true_r]); reflexivity.
Qed.

(* header a,s and one data row "1,xxxxxxxxxx": with a first read of 8 bytes (buffer limit 64) the old bind saw the
   header only: two Boolean columns, and the scan fails; the sample now grows to 32 bytes and reaches the end *)
Definition grow_file : list N := [97;44;115;10;49;44;120;120;120;120;120;120;120;120;120;120;10]%N.

Lemma sample_grows_old_refuted :
  read_csv_old 8 grow_file 2048 [grow_file]
  = ScanOk None {| has_header := true; col_types := [CBool; CBool]; col_names := [Some [97]; Some [115]] |}%N None /\
  read_csv 8 64 grow_file 2048 [grow_file]
  = ScanOk (Some comma_dq) {| has_header := true; col_types := [CInt; CUtf8]; col_names := [Some [97]; Some [115]] |}%N
      (Some [[Some [49]; Some [120;120;120;120;120;120;120;120;120;120]]])%N /\
  option_map (fun r => (bs_eof r, bs_len r)) (bind_sample_file 8 64 grow_file) = Some (true, 32%N).
Proof. split; [|split]; vm_compute; reflexivity. Qed.

Print Assumptions read_queue_independent.
Print Assumptions read_queue_rows.
Print Assumptions read_queue_old_refuted.
Print Assumptions bind_sample_enough.
Print Assumptions bind_sample_first_enough.
Print Assumptions sample_grows_old_refuted.
