(* Proofs about model/ParserSkel.v: token indexing is guarded (no PPanic), everything terminates within
   3 * tokens + 2 units of fuel (no PFuel), a successful parse consumes at least one token and stays inside the
   token list, and the native recursion depth (nested Expr::parse_subexpr frames) is at most tokens + 1 —
   reached by the families nested_minus / nested_parens.

   Method: a small "type system" for parser actions.  `I F c s r idx x` says of the result x of an action
   started at token index idx: no panic; on success at least c tokens were consumed and the index is still
   <= len; the depth is <= (len - idx) + s; and if the fuel F available to recursive calls is at least
   3 * (len - idx) + r the action does not run out of fuel.  Sequencing pushes the allowances forward:
   after consuming d tokens the continuation may use (c - d, s + d, r + 3 d).  The handlers of the model are
   checked against these types by the tactic `pstep`. *)
From Coq Require Import NArith ZArith List Bool Arith Lia ZifyBool ZifyNat ZifyN.
From GV Require Import model.Utf8 gen.TablesLexer model.Lexer model.ParserSkel proofs.LexerProofs.
Import ListNotations.
Local Open Scope nat_scope.

Section Proofs.
Variable toks : list token.
Notation len := (length toks).

(* ---------------------------------------------------------------- Parser::next / peek_nth *)
Lemma next_loop_spec : forall n i, i <= len -> len - i < n ->
  (exists i', next_loop toks n i = POk (None, i') /\ i <= i' /\ i' <= len) \/
  (exists t i', next_loop toks n i = POk (Some t, i') /\ i + 1 <= i' /\ i' <= len).
Proof.
  induction n as [|n IH]; intros i Hi Hn; [lia|].
  cbn [next_loop]. destruct (Nat.leb_spec len i) as [Hge|Hlt].
  - left. exists i. repeat split; lia.
  - destruct (nth_error toks i) as [t|] eqn:E.
    + destruct (is_trivia t).
      * destruct (IH (S i) ltac:(lia) ltac:(lia)) as [[i' [H1 [H2 H3]]]|[t' [i' [H1 [H2 H3]]]]].
        -- left. exists i'. repeat split; [exact H1 | lia | lia].
        -- right. exists t', i'. repeat split; [exact H1 | lia | lia].
      * right. exists t, (S i). repeat split; lia.
    + apply nth_error_None in E. lia.
Qed.

Lemma peek_loop_spec : forall f i n, i <= len -> len - i < f -> exists r, peek_loop toks f i n = POk r.
Proof.
  induction f as [|f IH]; intros i n Hi Hf; [lia|].
  cbn [peek_loop]. destruct (Nat.leb_spec len i) as [Hge|Hlt]; [eexists; reflexivity|].
  destruct (nth_error toks i) as [t|] eqn:E.
  - destruct (is_trivia t); [apply IH; lia|].
    destruct n as [|n']; [eexists; reflexivity | apply IH; lia].
  - apply nth_error_None in E. lia.
Qed.

(* ---------------------------------------------------------------- the typing judgement *)
Definition I {A} (F c s r idx : nat) (x : res A) : Prop :=
  out x <> PPanic /\
  (forall a i', out x = POk (a, i') -> idx + c <= i' /\ i' <= len) /\
  dep x <= (len - idx) + s /\
  (3 * (len - idx) + r <= F -> out x <> PFuel).

Lemma I_ret {A} F (a : A) c s r idx : c = 0 -> idx <= len -> I F c s r idx (ret a idx).
Proof.
  intros -> Hi. unfold I, ret. cbn [out dep]. repeat split; try discriminate; try lia.
  - injection H as _ <-. lia.
  - injection H as _ <-. lia.
Qed.

Lemma I_fail {A} F c s r idx : I F c s r idx (@fail A idx).
Proof. unfold I, fail. cbn [out dep]. repeat split; try discriminate; lia. Qed.

Lemma I_unsup {A} F c s r idx : I F c s r idx (@unsup A idx).
Proof. unfold I, unsup. cbn [out dep]. repeat split; try discriminate; lia. Qed.

Lemma I_ok {A} F c s r idx (a : A) i' d :
  idx + c <= i' -> i' <= len -> d <= (len - idx) + s -> I F c s r idx (mk_res (POk (a, i')) d).
Proof.
  intros H1 H2 H3. unfold I. cbn [out dep]. split; [discriminate|].
  split; [intros a0 i0 E; injection E as _ <-; lia|]. split; [exact H3 | intros _; discriminate].
Qed.

Lemma I_weaken {A} F c s r c' s' r' idx (x : res A) :
  I F c s r idx x -> c' <= c -> s <= s' -> r <= r' -> I F c' s' r' idx x.
Proof.
  intros [Hp [Ho [Hd Hf]]] Hc Hs Hr. repeat split.
  - exact Hp.
  - destruct (Ho _ _ H). lia.
  - destruct (Ho _ _ H). lia.
  - lia.
  - intros HF. apply Hf. lia.
Qed.

Lemma I_bind_gen {A B} F (m : P A) (k : A -> P B) c s r idx :
  out (m idx) <> PPanic -> dep (m idx) <= (len - idx) + s ->
  (3 * (len - idx) + r <= F -> out (m idx) <> PFuel) ->
  (forall a i', out (m idx) = POk (a, i') ->
     exists d, idx + d <= i' /\ i' <= len /\ I F (c - d) (s + d) (r + 3 * d) i' (k a i')) ->
  I F c s r idx (bind m k idx).
Proof.
  intros Hp Hd Hf Hk. unfold bind. destruct (out (m idx)) as [[a i']| | | |] eqn:E.
  - destruct (Hk a i' eq_refl) as [d [H1 [H2 [Ip [Io [Id If]]]]]]. unfold I. cbn [out dep]. repeat split.
    + exact Ip.
    + destruct (Io _ _ H). lia.
    + destruct (Io _ _ H). lia.
    + lia.
    + intros HF. apply If. lia.
  - unfold I. cbn [out dep]. repeat split; try discriminate; lia.
  - unfold I. cbn [out dep]. repeat split; try discriminate; lia.
  - contradiction.
  - unfold I. cbn [out dep]. repeat split; try discriminate; try lia. intros HF. exfalso. exact (Hf HF eq_refl).
Qed.

Lemma I_bind_typed {A B} F (m : P A) (k : A -> P B) c1 s1 r1 c s r idx :
  I F c1 s1 r1 idx (m idx) -> s1 <= s -> r1 <= r ->
  (forall a i', idx + c1 <= i' -> i' <= len -> I F (c - c1) (s + c1) (r + 3 * c1) i' (k a i')) ->
  I F c s r idx (bind m k idx).
Proof.
  intros [Hp [Ho [Hd Hf]]] Hs Hr Hk. apply I_bind_gen.
  - exact Hp.
  - lia.
  - intros HF. apply Hf. lia.
  - intros a i' E. destruct (Ho _ _ E) as [H1 H2]. exists c1. split; [lia | split; [lia | apply Hk; lia]].
Qed.

Lemma I_frame {A} F (m : P A) c s r idx : I F c s r idx (m idx) -> I F c (S s) r idx (frame m idx).
Proof.
  intros [Hp [Ho [Hd Hf]]]. unfold frame, I. cbn [out dep]. repeat split.
  - exact Hp.
  - destruct (Ho _ _ H). lia.
  - destruct (Ho _ _ H). lia.
  - lia.
  - exact Hf.
Qed.

Lemma I_bind_maybe {A B} F (p : P A) (k : option A -> P B) c1 s1 r1 c s r idx :
  idx <= len ->
  I F c1 s1 r1 idx (p idx) -> s1 <= s -> r1 <= r ->
  (forall a i', idx + c1 <= i' -> i' <= len -> I F (c - c1) (s + c1) (r + 3 * c1) i' (k (Some a) i')) ->
  I F c s r idx (k None idx) ->
  I F c s r idx (bind (maybe_parse p) k idx).
Proof.
  intros Hi [Hp [Ho [Hd Hf]]] Hs Hr Hsome Hnone. apply I_bind_gen.
  - unfold maybe_parse. destruct (out (p idx)) as [[a i']| | | |]; cbn [out]; try discriminate. contradiction.
  - unfold maybe_parse. destruct (out (p idx)) as [[a i']| | | |]; cbn [dep]; lia.
  - intros HF. specialize (Hf ltac:(lia)). unfold maybe_parse.
    destruct (out (p idx)) as [[a i']| | | |]; cbn [out]; try discriminate. contradiction.
  - intros a i' E. unfold maybe_parse in E. destruct (out (p idx)) as [[a0 i0]| | | |] eqn:E0; cbn [out] in E; try discriminate.
    + injection E as <- <-. destruct (Ho _ _ eq_refl) as [H1 H2]. exists c1. split; [lia | split; [lia | apply Hsome; lia]].
    + injection E as <- <-. exists 0. split; [lia | split; [lia|]].
      replace (c - 0) with c by lia. replace (s + 0) with s by lia. replace (r + 3 * 0) with r by lia. exact Hnone.
Qed.

Lemma I_bind_next {B} F (k : option token -> P B) c s r idx :
  idx <= len ->
  (forall t i', idx + 1 <= i' -> i' <= len -> I F (c - 1) (s + 1) (r + 3 * 1) i' (k (Some t) i')) ->
  (forall i', idx <= i' -> i' <= len -> I F c s r i' (k None i')) ->
  I F c s r idx (bind (next toks) k idx).
Proof.
  intros Hi Hsome Hnone.
  destruct (next_loop_spec (S (len - idx)) idx Hi ltac:(lia)) as [[i' [H1 [H2 H3]]]|[t [i' [H1 [H2 H3]]]]].
  - apply I_bind_gen; unfold next; rewrite H1; cbn [out dep]; try discriminate; try lia.
    intros a i0 E. injection E as <- <-. exists 0. split; [lia | split; [lia|]].
    replace (c - 0) with c by lia. replace (s + 0) with s by lia. replace (r + 3 * 0) with r by lia. apply Hnone; lia.
  - apply I_bind_gen; unfold next; rewrite H1; cbn [out dep]; try discriminate; try lia.
    intros a i0 E. injection E as <- <-. exists 1. split; [lia | split; [lia | apply Hsome; lia]].
Qed.

Lemma I_bind_peek {B} F n (k : option token -> P B) c s r idx :
  idx <= len -> (forall t, I F c s r idx (k t idx)) -> I F c s r idx (bind (peek_nth toks n) k idx).
Proof.
  intros Hi Hk. destruct (peek_loop_spec (S (len - idx)) idx n Hi ltac:(lia)) as [x Hx].
  apply I_bind_gen; unfold peek_nth; rewrite Hx; cbn [out dep]; try discriminate; try lia.
  intros a i0 E. injection E as <- <-. exists 0. split; [lia | split; [lia|]].
  replace (c - 0) with c by lia. replace (s + 0) with s by lia. replace (r + 3 * 0) with r by lia. apply Hk.
Qed.

Lemma bind_assoc {A B C} (m : P A) (k1 : A -> P B) (k2 : B -> P C) idx :
  bind (bind m k1) k2 idx = bind m (fun x => bind (k1 x) k2) idx.
Proof.
  unfold bind. destruct (out (m idx)) as [[a i']| | | |]; cbn [out dep]; try reflexivity.
  destruct (out (k1 a i')) as [[b i'']| | | |]; cbn [out dep]; try reflexivity.
  f_equal. lia.
Qed.

Lemma bind_ret {A B} (a : A) (k : A -> P B) idx : bind (ret a) k idx = k a idx.
Proof. unfold bind, ret. cbn [out dep]. destruct (k a idx) as [o d]. cbn [out dep]. f_equal. Qed.

(* actions that move the index backwards are given their types by hand *)
Lemma parse_keyword_I F k idx : idx <= len -> I F 0 0 0 idx (parse_keyword toks k idx).
Proof.
  intros Hi. unfold parse_keyword, bind, next.
  destruct (next_loop_spec (S (len - idx)) idx Hi ltac:(lia)) as [[i' [H1 [H2 H3]]]|[t [i' [H1 [H2 H3]]]]];
    rewrite H1; cbn [out dep].
  - unfold set_idx, ret, I. cbn [out dep]. repeat split; try discriminate; try lia; injection H as _ <-; lia.
  - destruct (is_kw t k); unfold set_idx, ret, I; cbn [out dep]; repeat split; try discriminate; try lia;
      injection H as _ <-; lia.
Qed.

Lemma parse_one_of_keywords_I F ks idx : idx <= len -> I F 0 0 0 idx (parse_one_of_keywords toks ks idx).
Proof.
  intros Hi. unfold parse_one_of_keywords, bind, next.
  destruct (next_loop_spec (S (len - idx)) idx Hi ltac:(lia)) as [[i' [H1 [H2 H3]]]|[t [i' [H1 [H2 H3]]]]];
    rewrite H1; cbn [out dep].
  - unfold ret, I. cbn [out dep]. repeat split; try discriminate; try lia; injection H as _ <-; lia.
  - destruct (find (is_kw t) ks); unfold set_idx, ret, I; cbn [out dep]; repeat split; try discriminate; try lia;
      injection H as _ <-; lia.
Qed.

(* ---------------------------------------------------------------- the checker *)
Lemma fail_I0 {A} F idx : I F 0 0 0 idx (@fail A idx).
Proof. apply I_fail. Qed.
Lemma unsup_I0 {A} F idx : I F 0 0 0 idx (@unsup A idx).
Proof. apply I_unsup. Qed.
Hint Resolve parse_keyword_I parse_one_of_keywords_I fail_I0 unsup_I0 : ptyped.

Ltac side := first [ lia | cbn; lia ].

Ltac pstep :=
  cbn beta iota zeta;
  lazymatch goal with
  | |- I _ _ _ _ _ (ret _ _) => apply I_ret; side
  | |- I _ _ _ _ _ (fail _) => apply I_fail
  | |- I _ _ _ _ _ (unsup _) => apply I_unsup
  | |- I _ _ _ _ _ (frame _ _) => apply I_frame
  | |- I _ _ _ _ _ (bind (next _) _ _) =>
    apply I_bind_next; [ side | intros ? ? ? ? | intros ? ? ? ]
  | |- I _ _ _ _ _ (bind (peek_nth _ _) _ _) => apply I_bind_peek; [ side | intros ? ]
  | |- I _ _ _ _ _ (bind (peek _) _ _) => apply I_bind_peek; [ side | intros ? ]
  | |- I _ _ _ _ _ (bind (maybe_parse _) _ _) =>
    eapply I_bind_maybe; [ side | solve [ eauto with ptyped ] | side | side | intros ? ? ? ? | ]
  | |- I _ _ _ _ _ (bind (bind _ _) _ _) => rewrite bind_assoc
  | |- I _ _ _ _ _ (bind (ret _) _ _) => rewrite bind_ret
  | |- I _ _ _ _ _ (bind (match ?x with _ => _ end) _ _) => destruct x
  | |- I _ _ _ _ _ (bind (if ?b then _ else _) _ _) => destruct b
  | |- I _ _ _ _ _ (bind _ _ _) =>
    eapply I_bind_typed; [ solve [ eauto with ptyped ] | side | side | intros ? ? ? ? ]
  | |- I _ _ _ _ _ (match ?x with _ => _ end _) => destruct x
  | |- I _ _ _ _ _ (if ?b then _ else _) => destruct b
  | |- I _ _ _ _ _ ((if ?b then _ else _) _) => destruct b
  | |- I _ _ _ _ _ _ =>
    eapply I_weaken; [ solve [ eauto with ptyped ] | side | side | side ]
  end.

Ltac pcheck := repeat pstep.

(* ---------------------------------------------------------------- the primitives, typed *)
Lemma next_tok_I F idx : idx <= len -> I F 1 0 0 idx (next_tok toks idx).
Proof. intros Hi. unfold next_tok. pcheck. Qed.
Hint Resolve next_tok_I : ptyped.

Lemma of_opt_I {A} F (o : option A) idx : idx <= len -> I F 0 0 0 idx (of_opt o idx).
Proof. intros Hi. unfold of_opt. pcheck. Qed.
Hint Resolve of_opt_I : ptyped.

Lemma consume_token_I F o idx : idx <= len -> I F 0 0 0 idx (consume_token toks o idx).
Proof. intros Hi. unfold consume_token. pcheck. Qed.
Hint Resolve consume_token_I : ptyped.

Lemma expect_token_I F o idx : idx <= len -> I F 0 0 0 idx (expect_token toks o idx).
Proof. intros Hi. unfold expect_token. pcheck. Qed.
Lemma expect_keyword_I F k idx : idx <= len -> I F 0 0 0 idx (expect_keyword toks k idx).
Proof. intros Hi. unfold expect_keyword. pcheck. Qed.
Lemma expect_one_of_tokens_I F o1 o2 idx : idx <= len -> I F 0 0 0 idx (expect_one_of_tokens toks o1 o2 idx).
Proof. intros Hi. unfold expect_one_of_tokens. pcheck. Qed.
Lemma next_keyword_I F idx : idx <= len -> I F 0 0 0 idx (next_keyword toks idx).
Proof. intros Hi. unfold next_keyword. pcheck. Qed.
Hint Resolve expect_token_I expect_keyword_I expect_one_of_tokens_I next_keyword_I : ptyped.

Lemma is_query_node_start_I F idx : idx <= len -> I F 0 0 0 idx (is_query_node_start toks idx).
Proof.
  intros Hi. destruct (next_keyword_I F idx Hi) as [Hp [Ho [Hd Hf]]].
  unfold is_query_node_start. destruct (out (next_keyword toks idx)) as [[k i']| | | |] eqn:E.
  - apply I_ok; lia.
  - apply I_ok; lia.
  - unfold I. cbn [out dep]. split; [discriminate|]. split; [intros a0 i0 E0; discriminate E0|]. split; [lia | intros _; discriminate].
  - exfalso. exact (Hp eq_refl).
  - unfold I. cbn [out dep]. split; [discriminate|]. split; [intros a0 i0 E0; discriminate E0|]. split; [lia|].
    intros HF. exfalso. exact (Hf HF eq_refl).
Qed.
Hint Resolve is_query_node_start_I : ptyped.

Lemma ident_parse_I F idx : idx <= len -> I F 1 0 0 idx (ident_parse toks idx).
Proof. intros Hi. unfold ident_parse. pcheck. Qed.
Lemma parse_string_literal_I F idx : idx <= len -> I F 1 0 0 idx (parse_string_literal toks idx).
Proof. intros Hi. unfold parse_string_literal. pcheck. Qed.
Lemma parse_i64_literal_I F idx : idx <= len -> I F 1 0 0 idx (parse_i64_literal toks idx).
Proof. intros Hi. unfold parse_i64_literal. pcheck. Qed.
Hint Resolve ident_parse_I parse_string_literal_I parse_i64_literal_I : ptyped.

Lemma parse_precision_scale_I F idx : idx <= len -> I F 0 0 0 idx (parse_precision_scale toks idx).
Proof. intros Hi. unfold parse_precision_scale. pcheck. Qed.
Hint Resolve parse_precision_scale_I : ptyped.

Lemma datatype_parse_I F idx : idx <= len -> I F 1 0 0 idx (datatype_parse toks idx).
Proof. intros Hi. unfold datatype_parse. pcheck. Qed.
Lemma interval_unit_parse_I F idx : idx <= len -> I F 0 0 0 idx (interval_unit_parse toks idx).
Proof. intros Hi. unfold interval_unit_parse. pcheck. Qed.
Lemma date_part_parse_I F idx : idx <= len -> I F 0 0 0 idx (date_part_parse toks idx).
Proof. intros Hi. unfold date_part_parse. pcheck. Qed.
Lemma get_infix_precedence_I F idx : idx <= len -> I F 0 0 0 idx (get_infix_precedence toks idx).
Proof. intros Hi. unfold get_infix_precedence. pcheck. Qed.
Hint Resolve datatype_parse_I interval_unit_parse_I date_part_parse_I get_infix_precedence_I : ptyped.

(* ---------------------------------------------------------------- the handlers, for any well-typed `call` *)
Definition cR (q : req) : nat := match q with RSubexpr _ | RComma _ _ | RCaseLoop _ _ => 1 | _ => 0 end.
Definition sR (q : req) : nat := match q with RSubexpr _ | RComma _ _ | RCaseLoop _ _ => 1 | _ => 0 end.
Definition rR (q : req) : nat := match q with RComma _ _ | RCaseLoop _ _ => 2 | _ => 1 end.

Section Handlers.
Variable F : nat.
Variable call : req -> P sx.
Hypothesis Hcall : forall q idx, idx <= len -> I F (cR q) (sR q) (rR q) idx (call q idx).

Lemma call_sub F' p idx : F' = F -> idx <= len -> I F' 1 1 1 idx (call (RSubexpr p) idx).
Proof. intros -> Hi. exact (Hcall (RSubexpr p) idx Hi). Qed.
Lemma call_loop e p idx : idx <= len -> I F 0 0 1 idx (call (RLoop e p) idx).
Proof. intros Hi. exact (Hcall (RLoop e p) idx Hi). Qed.
Lemma call_comma a acc idx : idx <= len -> I F 1 1 2 idx (call (RComma a acc) idx).
Proof. intros Hi. exact (Hcall (RComma a acc) idx Hi). Qed.
Lemma call_case c r idx : idx <= len -> I F 1 1 2 idx (call (RCaseLoop c r) idx).
Proof. intros Hi. exact (Hcall (RCaseLoop c r) idx Hi). Qed.
Lemma call_ident ids w idx : idx <= len -> I F 0 0 1 idx (call (RIdentLoop ids w) idx).
Proof. intros Hi. exact (Hcall (RIdentLoop ids w) idx Hi). Qed.
Lemma expr_parse_I idx : idx <= len -> I F 1 1 1 idx (expr_parse call idx).
Proof. intros Hi. exact (Hcall (RSubexpr 0%N) idx Hi). Qed.
Hint Resolve call_loop call_comma call_case call_ident expr_parse_I : ptyped.
Hint Extern 1 (I _ _ _ _ _ (call (RSubexpr _) _)) => apply call_sub; [reflexivity | lia] : ptyped.

Lemma function_arg_parse_I idx : idx <= len -> I F 1 1 1 idx (function_arg_parse toks call idx).
Proof. intros Hi. unfold function_arg_parse. pcheck. Qed.
Lemma array_subscript_parse_I idx : idx <= len -> I F 0 1 1 idx (array_subscript_parse toks call idx).
Proof. intros Hi. unfold array_subscript_parse, slice. pcheck. Qed.
Lemma interval_parse_I idx : idx <= len -> I F 1 1 1 idx (interval_parse toks call idx).
Proof. intros Hi. unfold interval_parse. pcheck. Qed.
Hint Resolve function_arg_parse_I array_subscript_parse_I interval_parse_I : ptyped.

Lemma ident_expr_tail_I ids w idx : idx <= len -> I F 0 1 2 idx (ident_expr_tail toks call ids w idx).
Proof. intros Hi. unfold ident_expr_tail. pcheck. Qed.
Hint Resolve ident_expr_tail_I : ptyped.
Lemma parse_ident_expr_I v q idx : idx <= len -> I F 0 1 2 idx (parse_ident_expr toks call v q idx).
Proof. intros Hi. unfold parse_ident_expr. pcheck. Qed.
Lemma unary_I o p idx : idx <= len -> I F 1 1 1 idx (unary call o p idx).
Proof. intros Hi. unfold unary. pcheck. Qed.
Hint Resolve parse_ident_expr_I unary_I : ptyped.

Lemma prefix_keyword_I k v q idx : idx <= len -> I F 0 1 2 idx (prefix_keyword toks call k v q idx).
Proof. intros Hi. unfold prefix_keyword. pcheck. Qed.
Hint Resolve prefix_keyword_I : ptyped.

Lemma parse_prefix_I idx : idx <= len -> I F 1 0 0 idx (parse_prefix toks call idx).
Proof. intros Hi. unfold parse_prefix. pcheck. Qed.

Lemma in_list_I n e idx : idx <= len -> I F 0 1 2 idx (in_list toks call n e idx).
Proof. intros Hi. unfold in_list. pcheck. Qed.
Lemma like_I n ci e idx : idx <= len -> I F 0 1 1 idx (like call n ci e idx).
Proof. intros Hi. unfold like. pcheck. Qed.
Lemma between_I n e idx : idx <= len -> I F 0 1 1 idx (between toks call n e idx).
Proof. intros Hi. unfold between. pcheck. Qed.
Lemma is_tail_I n e k idx : idx <= len -> I F 0 1 1 idx (is_tail toks call n e k idx).
Proof. intros Hi. unfold is_tail. pcheck. Qed.
Hint Resolve in_list_I like_I between_I is_tail_I : ptyped.

Lemma parse_infix_I e p idx : idx <= len -> I F 1 0 0 idx (parse_infix toks call e p idx).
Proof. intros Hi. unfold parse_infix. pcheck. Qed.
Hint Resolve parse_prefix_I parse_infix_I : ptyped.

Lemma handler_I q idx : idx <= len -> I F (cR q) (sR q) (rR q - 1) idx (handler toks call q idx).
Proof.
  intros Hi. destruct q as [p|e p|a acc|cs rs|ids w]; cbn [handler cR sR rR Nat.sub]; pcheck.
Qed.
End Handlers.

(* ---------------------------------------------------------------- go *)
Lemma go_I : forall f q idx, idx <= len -> I f (cR q) (sR q) (rR q) idx (go toks f q idx).
Proof.
  induction f as [|f IH]; intros q idx Hi.
  - cbn [go]. unfold I. cbn [out dep]. repeat split; try discriminate; try lia.
    intros HF. destruct q; cbn [rR] in HF; lia.
  - cbn [go]. pose proof (handler_I f (go toks f) IH q idx Hi) as [Hp [Ho [Hd Hf]]].
    repeat split; try assumption.
    + destruct (Ho _ _ H). lia.
    + destruct (Ho _ _ H). lia.
    + intros HF. apply Hf. destruct q; cbn [rR] in *; lia.
Qed.

(* ---- the theorems ---- *)
Theorem parser_total : out (parse_expr toks) <> PPanic /\ out (parse_expr toks) <> PFuel.
Proof.
  unfold parse_expr. destruct (go_I (3 * len + 2) (RSubexpr 0%N) 0 ltac:(lia)) as [Hp [Ho [Hd Hf]]].
  split; [exact Hp | apply Hf; cbn [rR]; lia].
Qed.

Theorem parser_progress e i : out (parse_expr toks) = POk (e, i) -> 1 <= i /\ i <= len.
Proof.
  unfold parse_expr. destruct (go_I (3 * len + 2) (RSubexpr 0%N) 0 ltac:(lia)) as [Hp [Ho [Hd Hf]]].
  intros E. destruct (Ho _ _ E). cbn [cR] in *. lia.
Qed.

Theorem parser_depth_le_tokens : dep (parse_expr toks) <= len + 1.
Proof.
  unfold parse_expr. destruct (go_I (3 * len + 2) (RSubexpr 0%N) 0 ltac:(lia)) as [Hp [Ho [Hd Hf]]].
  cbn [sR] in Hd. lia.
Qed.

End Proofs.

(* ---------------------------------------------------------------- the depth bound is tight *)
Lemma nth_error_repeat' {A} (x : A) : forall n i, i < n -> nth_error (repeat x n) i = Some x.
Proof.
  induction n as [|n IH]; intros i Hi; [lia|]. destruct i as [|i]; [reflexivity|]. cbn [repeat nth_error]. apply IH. lia.
Qed.

Lemma next_at toks i t :
  nth_error toks i = Some t -> is_trivia t = false -> next toks i = mk_res (POk (Some t, S i)) 0.
Proof.
  intros E Ht. unfold next. f_equal. cbn [next_loop].
  assert (Hlt : i < length toks) by (apply nth_error_Some; rewrite E; discriminate).
  destruct (Nat.leb_spec (length toks) i) as [Hge|_]; [lia|]. rewrite E, Ht. reflexivity.
Qed.

Lemma next_end toks i : length toks <= i -> next toks i = mk_res (POk (None, i)) 0.
Proof.
  intros Hge. unfold next. f_equal. cbn [next_loop].
  destruct (Nat.leb_spec (length toks) i) as [_|Hlt]; [reflexivity | lia].
Qed.

Lemma res_eta {A} (x : res A) : mk_res (out x) (Nat.max 0 (dep x)) = x.
Proof. destruct x as [o d]. reflexivity. Qed.

Lemma prefix_at_end toks call i : length toks <= i -> parse_prefix toks call i = mk_res PErr 0.
Proof.
  intros Hge. unfold parse_prefix, bind, maybe_parse, datatype_parse, next_tok, bind.
  rewrite (next_end toks i Hge). cbn [out dep fail ret]. rewrite (next_end toks i Hge). reflexivity.
Qed.

Lemma prefix_minus toks call i :
  nth_error toks i = Some (TOp OMinus) ->
  parse_prefix toks call i = unary call "Minus"%tag PREC_UNARY_MINUS (S i).
Proof.
  intros E. unfold parse_prefix, bind, maybe_parse, datatype_parse, next_tok, bind.
  rewrite (next_at toks i _ E eq_refl). cbn [out dep fail ret tok_keyword].
  rewrite (next_at toks i _ E eq_refl). cbn [out dep fail ret]. apply res_eta.
Qed.

Lemma minus_chain n : forall k f p i, i + k = n -> k + 1 <= f ->
  go (repeat (TOp OMinus) n) f (RSubexpr p) i = mk_res PErr (k + 1).
Proof.
  induction k as [|k IH]; intros f p i Hik Hf; (destruct f as [|f]; [lia|]); cbn [go handler]; unfold frame, bind.
  - rewrite prefix_at_end by (rewrite repeat_length; lia). reflexivity.
  - rewrite prefix_minus by (apply nth_error_repeat'; lia). unfold unary, bind.
    rewrite (IH f PREC_UNARY_MINUS (S i)) by lia. cbn [out dep]. f_equal; lia.
Qed.

(* for every n there is a text of n tokens ("- - - ... -") on which the parser nests n + 1 frames *)
Theorem parser_depth_tight n :
  length (repeat (TOp OMinus) n) = n /\
  out (parse_expr (repeat (TOp OMinus) n)) = PErr /\ dep (parse_expr (repeat (TOp OMinus) n)) = n + 1.
Proof.
  split; [apply repeat_length|]. unfold parse_expr.
  rewrite (minus_chain n n _ 0%N 0) by (rewrite ?repeat_length; lia). split; reflexivity.
Qed.

(* the family of findings/C15.json parser-stack-overflow: "((( ... 1 ... )))" succeeds and nests n + 1 frames *)
Lemma parens_300 :
  length (nested_parens 300) = 601 /\ dep (parse_expr (nested_parens 300)) = 301 /\
  exists e, out (parse_expr (nested_parens 300)) = POk (e, 601).
Proof. split; [reflexivity|]. split; [vm_compute; reflexivity | eexists; vm_compute; reflexivity]. Qed.

Lemma precedences_present :
  Forall (fun p : option N => p <> None)
    [prec_or; prec_and; prec_not; prec_is; prec_comparison; prec_containment; prec_everything_else;
     prec_add_sub; prec_mul_div_mod; prec_exponentiation; prec_unary_minus; prec_array_elem; prec_cast].
Proof. repeat constructor; discriminate. Qed.

Lemma example_1_plus_2 :
  parse_expr [TNumber [49%N]; TWhitespace; TOp OPlus; TNumber [50%N]] =
  mk_res (POk (SN "BinaryExpr"%tag [SN "Literal"%tag [SN "Number"%tag [SS [49%N]]]; SN "Plus"%tag [];
                                    SN "Literal"%tag [SN "Number"%tag [SS [50%N]]]], 4)) 2.
Proof. vm_compute. reflexivity. Qed.

(* tokenizer and expression parser together: a text is answered by an AST, an error ("Unhandled character" or a
   parse error) or PUnsup; never a panic, never out of fuel *)
Theorem front_end_total is_alpha is_numeric q :
  (blen q < USIZE)%N ->
  (exists r, front_end is_alpha is_numeric q = Ok r /\ out r <> PPanic /\ out r <> PFuel) \/
  (exists c, front_end is_alpha is_numeric q = Err c).
Proof.
  intros Hlen. unfold front_end.
  destruct (lexer_total is_alpha is_numeric q Hlen) as [[toks [st E]]|[c E]]; rewrite E.
  - left. eexists. split; [reflexivity|]. apply parser_total.
  - right. exists c. reflexivity.
Qed.
