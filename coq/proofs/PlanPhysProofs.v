(* C01 (composition), part 3: physical plans (model/Plan.v, exec_pplan) refine logical plans, for every
   distribution of the rows over partitions and batches and every order the runtime may choose; composition
   with the planner theorem of proofs/PlanProofs.v and with the judge (proofs/SqlJudgeProofs.v).
   The operator-level facts are those of C03/C06/C07/C08, used as lemmas. *)
From Coq Require Import NArith ZArith List Bool Lia Permutation Btauto Sorted.
From GV Require Import lib.Bytes model.Sql model.Rel model.Plan.
From GV Require Import model.SortKey model.SortSpec model.Merge model.LimitOp model.HashJoin model.NlJoin
  model.AggState model.AggTable.
From GV Require Import proofs.RelProofs proofs.PlanProofs.
From GV Require Import proofs.JoinSpecProofs proofs.HashJoinProofs proofs.AggProofs proofs.AggTableProofs
  proofs.LimitOpProofs proofs.MergeProofs proofs.SortSpecProofs proofs.SqlJudgeProofs.
Import ListNotations.
Local Open Scope nat_scope.

(* ================================================================ Part 3: physical plans refine logical plans *)

(* induction over the plan children of a logical plan (expressions are not entered) *)
Section LplanInd.
  Variable P : lplan -> Prop.
  Hypotheses
    (HScan : forall t, P (LScan t)) (HSingle : P LSingleRow) (HExprList : forall rows, P (LExprList rows))
    (HFilter : forall e c, P c -> P (LFilter e c)) (HProject : forall es c, P c -> P (LProject es c))
    (HProjectAll : forall c, P c -> P (LProjectAll c))
    (HCross : forall l r, P l -> P r -> P (LCrossJoin l r))
    (HArb : forall k c la ra l r, P l -> P r -> P (LArbitraryJoin k c la ra l r))
    (HCmp : forall k cs la ra l r, P l -> P r -> P (LComparisonJoin k cs la ra l r))
    (HDep : forall k on ra l r, P l -> P r -> P (LDependentJoin k on ra l r))
    (HAgg : forall keys aggs c, P c -> P (LAggregate keys aggs c))
    (HDistinct : forall c, P c -> P (LDistinct c))
    (HSetop : forall all l r, P l -> P r -> P (LSetop all l r))
    (HOrder : forall keys c, P c -> P (LOrder keys c))
    (HLimit : forall lim off c, P c -> P (LLimit lim off c))
    (HMat : forall c, P c -> P (LMaterializationScan c)).
  Fixpoint lplan_ind2 (p : lplan) : P p :=
    match p as p0 return P p0 with
    | LScan t => HScan t | LSingleRow => HSingle | LExprList rows => HExprList rows
    | LFilter e c => HFilter e c (lplan_ind2 c) | LProject es c => HProject es c (lplan_ind2 c)
    | LProjectAll c => HProjectAll c (lplan_ind2 c)
    | LCrossJoin l r => HCross l r (lplan_ind2 l) (lplan_ind2 r)
    | LArbitraryJoin k c la ra l r => HArb k c la ra l r (lplan_ind2 l) (lplan_ind2 r)
    | LComparisonJoin k cs la ra l r => HCmp k cs la ra l r (lplan_ind2 l) (lplan_ind2 r)
    | LDependentJoin k on ra l r => HDep k on ra l r (lplan_ind2 l) (lplan_ind2 r)
    | LAggregate keys aggs c => HAgg keys aggs c (lplan_ind2 c)
    | LDistinct c => HDistinct c (lplan_ind2 c)
    | LSetop all l r => HSetop all l r (lplan_ind2 l) (lplan_ind2 r)
    | LOrder keys c => HOrder keys c (lplan_ind2 c)
    | LLimit lim off c => HLimit lim off c (lplan_ind2 c)
    | LMaterializationScan c => HMat c (lplan_ind2 c)
    end.
End LplanInd.

(* ---------------------------------------------------------------- filter, project on a permuted input *)

Lemma rfilter_perm p (a b out out' : list (list value)) :
  Permutation a b -> rfilter p a = Ok out -> rfilter p b = Ok out' -> Permutation out out'.
Proof.
  intros HP Ha Hb. apply rfilter_ok in Ha. apply rfilter_ok in Hb. destruct Ha as [_ ->], Hb as [_ ->].
  unfold pfilter. apply RelProofs.filter_perm. exact HP.
Qed.

Lemma rproject_perm f (a b out out' : list (list value)) :
  Permutation a b -> rproject f a = Ok out -> rproject f b = Ok out' -> Permutation out out'.
Proof.
  unfold rproject. intros HP Ha Hb.
  rewrite (mapM_ok_map f [] _ _ Ha), (mapM_ok_map f [] _ _ Hb). apply Permutation_map. exact HP.
Qed.

(* ---------------------------------------------------------------- joins *)

Lemma pure_join_ext_in k L R la ra (p q : row -> row -> bool) :
  (forall l r, In l L -> In r R -> p l r = q l r) -> pure_join k L R la ra p = pure_join k L R la ra q.
Proof.
  intros H.
  assert (Hr : forall l, In l L -> rmatches p l R = rmatches q l R).
  { intros l Hl. unfold rmatches. apply filter_ext_in. intros r Hr. apply H; assumption. }
  assert (Hl : forall r, In r R -> lmatches p L r = lmatches q L r).
  { intros r Hr0. unfold lmatches. apply filter_ext_in. intros l Hl. apply H; assumption. }
  assert (He : forall l, In l L -> existsb (p l) R = existsb (q l) R).
  { intros l Hl0. clear Hr Hl. induction R as [|r R IH]; [reflexivity|]. cbn [existsb].
    rewrite (H l r Hl0 (or_introl eq_refl)), IH; [reflexivity|]. intros l' r' Hl' Hr'. apply H; [exact Hl'|right; exact Hr']. }
  destruct k; cbn [pure_join].
  - apply flat_map_ext_in. intros l Hl0. rewrite (Hr l Hl0). reflexivity.
  - apply flat_map_ext_in. intros l Hl0. rewrite (Hr l Hl0). reflexivity.
  - apply flat_map_ext_in. intros l Hl0. rewrite (Hr l Hl0). reflexivity.
  - apply flat_map_ext_in. intros r Hr0. rewrite (Hl r Hr0). reflexivity.
  - apply filter_ext_in. intros l Hl0. apply He, Hl0.
  - apply filter_ext_in. intros l Hl0. cbn beta. f_equal. apply He, Hl0.
Qed.

(* the declarative join with a two-argument condition: Ok = every pair evaluated, result = the pure join *)
Lemma join2_ok k L R la ra (on2 : row -> row -> res bool) out :
  join2 k L R la ra on2 = Ok out ->
  (forall l r, In l L -> In r R -> exists b, on2 l r = Ok b) /\
  out = pure_join k L R la ra (fun l r => unres false (on2 l r)).
Proof.
  intros H.
  assert (Ht : forall l r, In l L -> In r R -> exists b, on2 l r = Ok b).
  { intros l r Hl Hr. unfold join2 in H. destruct k.
    - destruct (bind_ok _ _ _ H) as [parts [Hm _]]. destruct (mapM_ok_total _ _ _ Hm l Hl) as [y Hy].
      destruct (bind_ok _ _ _ Hy) as [ms [Hm2 _]]. destruct (mapM_ok_total _ _ _ Hm2 r Hr) as [z Hz].
      destruct (on2 l r); [eauto|discriminate].
    - destruct (bind_ok _ _ _ H) as [parts [Hm _]]. destruct (mapM_ok_total _ _ _ Hm l Hl) as [y Hy].
      destruct (bind_ok _ _ _ Hy) as [ms [Hm2 _]]. destruct (mapM_ok_total _ _ _ Hm2 r Hr) as [z Hz].
      destruct (on2 l r); [eauto|discriminate].
    - destruct (bind_ok _ _ _ H) as [parts [Hm _]]. destruct (mapM_ok_total _ _ _ Hm l Hl) as [y Hy].
      destruct (bind_ok _ _ _ Hy) as [ms [Hm2 _]]. destruct (mapM_ok_total _ _ _ Hm2 r Hr) as [z Hz].
      destruct (on2 l r); [eauto|discriminate].
    - destruct (bind_ok _ _ _ H) as [parts [Hm _]]. destruct (mapM_ok_total _ _ _ Hm r Hr) as [y Hy].
      destruct (bind_ok _ _ _ Hy) as [ms [Hm2 _]]. destruct (mapM_ok_total _ _ _ Hm2 l Hl) as [z Hz].
      destruct (on2 l r); [eauto|discriminate].
    - destruct (bind_ok _ _ _ H) as [parts [Hm _]]. destruct (mapM_ok_total _ _ _ Hm l Hl) as [y Hy].
      destruct (bind_ok _ _ _ Hy) as [ms [Hm2 _]]. destruct (mapM_ok_total _ _ _ Hm2 r Hr) as [z Hz]. eauto.
    - destruct (bind_ok _ _ _ H) as [parts [Hm _]]. destruct (mapM_ok_total _ _ _ Hm l Hl) as [y Hy].
      destruct (bind_ok _ _ _ Hy) as [ms [Hm2 _]]. destruct (mapM_ok_total _ _ _ Hm2 r Hr) as [z Hz]. eauto. }
  split; [exact Ht|].
  (* through join_rows: the condition of join_rows on l ++ r cannot see l and r, so go through a lookup-free route:
     join2 is join_rows' text with on2 l r for on (l ++ r); reuse join_rows_pure on an instance where they agree *)
  set (f := fun l r => unres false (on2 l r)).
  assert (Hon : forall l r, In l L -> In r R -> on2 l r = Ok (f l r)).
  { intros l r Hl Hr. destruct (Ht l r Hl Hr) as [b Hb]. unfold f. rewrite Hb. reflexivity. }
  assert (Hin : forall l, In l L ->
     (do ms <- mapM (fun r => do b <- on2 l r; Ok (if b then [l ++ r] else [])) R; Ok (concat ms))
     = Ok (map (fun r => l ++ r) (rmatches f l R))).
  { intros l Hl. rewrite (mapM_pure _ (fun r : row => if f l r then [l ++ r] else @nil row)).
    - cbn [bind]. rewrite concat_map_if. reflexivity.
    - intros r Hr. rewrite (Hon l r Hl Hr). reflexivity. }
  assert (Hsemi : forall l, In l L -> mapM (fun r => on2 l r) R = Ok (map (f l) R)).
  { intros l Hl. apply mapM_pure. intros r Hr. apply Hon; assumption. }
  assert (E : join2 k L R la ra on2 = Ok (pure_join k L R la ra f)).
  { destruct k; unfold join2, pure_join.
    - rewrite (mapM_pure _ (fun l => map (fun r => l ++ r) (rmatches f l R))) by exact Hin.
      cbn [bind]. rewrite flat_map_concat_map. reflexivity.
    - rewrite (mapM_pure _ (fun l => map (fun r => l ++ r) (rmatches f l R))) by exact Hin.
      cbn [bind]. rewrite flat_map_concat_map. reflexivity.
    - rewrite (mapM_pure _ (fun l => or_pad (map (fun r => l ++ r) (rmatches f l R)) (l ++ nulls ra))).
      + cbn [bind]. rewrite flat_map_concat_map. reflexivity.
      + intros l Hl. pose proof (Hin l Hl) as E1.
        destruct (mapM (fun r => do b <- on2 l r; Ok (if b then [l ++ r] else [])) R) as [ms|e]; cbn [bind] in *; [|discriminate].
        injection E1 as E1. rewrite E1. reflexivity.
    - rewrite (mapM_pure _ (fun r => or_pad (map (fun l => l ++ r) (lmatches f L r)) (nulls la ++ r))).
      + cbn [bind]. rewrite flat_map_concat_map. reflexivity.
      + intros r Hr.
        rewrite (mapM_pure _ (fun l : row => if f l r then [l ++ r] else @nil row)).
        * cbn [bind]. rewrite concat_map_if. reflexivity.
        * intros l Hl. rewrite (Hon l r Hl Hr). reflexivity.
    - rewrite (mapM_pure _ (fun l => if existsb (f l) R then [l] else [])).
      + cbn [bind]. rewrite concat_map_if, map_id. reflexivity.
      + intros l Hl. rewrite (Hsemi l Hl). cbn [bind]. rewrite existsb_id_map. reflexivity.
    - rewrite (mapM_pure _ (fun l => if negb (existsb (f l) R) then [l] else [])).
      + cbn [bind]. rewrite concat_map_if, map_id. reflexivity.
      + intros l Hl. rewrite (Hsemi l Hl). cbn [bind]. rewrite existsb_id_map.
        destruct (existsb (f l) R); reflexivity. }
  rewrite E in H. injection H as <-. reflexivity.
Qed.

Lemma rcross_pure (L R : list (list value)) la ra : rcross L R = pure_join JInner L R la ra (fun _ _ => true).
Proof.
  unfold rcross. cbn [pure_join]. apply flat_map_ext. intros l. unfold rmatches. rewrite filter_true. reflexivity.
Qed.

Lemma rjoin_ok_pure k (L R : list (list value)) la ra on want :
  rjoin k L R la ra on = Ok want ->
  (forall l r, In l L -> In r R -> exists b, on (l ++ r) = Ok b) /\
  want = pure_join k L R la ra (fun l r => unres false (on (l ++ r))).
Proof.
  intros H. pose proof (rjoin_ok _ _ _ _ _ _ _ H) as [Ht _]. split; [exact Ht|].
  unfold rjoin in H. rewrite (join_rows_pure k L R la ra on (fun l r => unres false (on (l ++ r)))) in H.
  - congruence.
  - intros l r Hl Hr. destruct (Ht l r Hl Hr) as [b Hb]. rewrite Hb. reflexivity.
Qed.

Lemma spec_kind_n k nk : nkind_of k = Some nk -> forall L R la ra p,
  pure_h (kind_of_n nk) L R la ra p = pure_join k L R la ra p.
Proof. destruct k; cbn; intros H; inversion H; subst; reflexivity. Qed.

Lemma spec_kind_h k hk : hkind_of k = Some hk -> forall L R la ra p,
  pure_h hk L R la ra p = pure_join k L R la ra p.
Proof. destruct k; cbn; intros H; inversion H; subst; reflexivity. Qed.

(* a comparison condition list with only plain comparison operators *)
Lemma cmp_conds_some conds cs : cmp_conds conds = Some cs ->
  conds = map (fun c => match c with (op, a, b) => (JOp op, a, b) end) cs.
Proof.
  revert cs. induction conds as [|[[o a] b] conds IH]; intros cs H.
  - cbn in H. injection H as <-. reflexivity.
  - cbn [cmp_conds fold_right] in H. fold (cmp_conds conds) in H.
    destruct o as [op|neg]; [|discriminate]. destruct (cmp_conds conds) as [l|]; [|discriminate].
    injection H as <-. cbn [map]. rewrite (IH l eq_refl). reflexivity.
Qed.

Lemma all_true_cons b bs : all_true (b :: bs) = b && all_true bs.
Proof. reflexivity. Qed.

(* evaluating the conditions = the row matcher on the evaluated key columns *)
Lemma conds_eval_match d en (cs : list (cmpop * pexpr * pexpr)) x y t :
  eval_conds d en (map (fun c => match c with (op, a, b) => (JOp op, a, b) end) cs) x y = Ok t ->
  t = conds_match (map (fun c => match c with (op, _, _) => op end) cs)
        (unres [] (mapM (fun c => match c with (_, a, _) => eval_pexpr d (x :: en) a end) cs))
        (unres [] (mapM (fun c => match c with (_, _, b) => eval_pexpr d (y :: en) b end) cs)).
Proof.
  unfold eval_conds. revert t. induction cs as [|[[op a] b] cs IH]; intros t H.
  - cbn in H. injection H as <-. reflexivity.
  - cbn [map] in *. rewrite mapM_cons in H. destruct (bind_ok _ _ _ H) as [bs [Hm Ht]]. injection Ht as <-.
    destruct (bind_ok _ _ _ Hm) as [b0 [Hb0 Hm1]]. destruct (bind_ok _ _ _ Hm1) as [bs' [Hbs' Hcons]]. injection Hcons as <-.
    destruct (bind_ok _ _ _ Hb0) as [u [Hu Hb1]]. destruct (bind_ok _ _ _ Hb1) as [v [Hv Hj]].
    rewrite !mapM_cons, Hu, Hv. cbn [bind].
    assert (IH' := IH (all_true bs')). rewrite Hbs' in IH'. cbn [bind] in IH'. specialize (IH' eq_refl).
    destruct (mapM (fun c => match c with (_, a0, _) => eval_pexpr d (x :: en) a0 end) cs) as [us|e1] eqn:E1;
    destruct (mapM (fun c => match c with (_, _, b1) => eval_pexpr d (y :: en) b1 end) cs) as [vs|e2] eqn:E2;
      cbn [bind unres] in *.
    + cbn [conds_match]. rewrite all_true_cons, IH'. f_equal.
      unfold jop_holds in Hj. unfold cmp_true. destruct (cmp3 op u v) as [w|e]; cbn [bind] in Hj; [|discriminate].
      destruct w as [|[|]| |]; cbn in Hj; try discriminate Hj; injection Hj as <-; reflexivity.
    + exfalso. clear - Hbs' E2. 
      assert (X : forall l, mapM (fun c : jop * pexpr * pexpr => let (y0, b) := c in let (o, a) := y0 in
                    do u <- eval_pexpr d (x :: en) a; do v <- eval_pexpr d (y :: en) b; jop_holds o u v)
                    (map (fun c : cmpop * pexpr * pexpr => let (y0, b) := c in let (op, a) := y0 in (JOp op, a, b)) l) = Ok bs' ->
                  exists vs, mapM (fun c : cmpop * pexpr * pexpr => let (y0, b1) := c in let (_, _) := y0 in eval_pexpr d (y :: en) b1) l = Ok vs) .
      { clear. intros l. revert bs'. induction l as [|[[op a] b] l IH]; intros bs' H; [eexists; reflexivity|].
        cbn [map] in H. rewrite mapM_cons in H. destruct (bind_ok _ _ _ H) as [b0 [Hb0 H1]].
        destruct (bind_ok _ _ _ H1) as [bs2 [H2 _]]. destruct (bind_ok _ _ _ Hb0) as [u [Hu H3]]. destruct (bind_ok _ _ _ H3) as [v [Hv _]].
        destruct (IH _ H2) as [vs Hvs]. rewrite mapM_cons, Hv, Hvs. eexists. reflexivity. }
      destruct (X cs Hbs') as [vs Hvs]. congruence.
    + exfalso. clear - Hbs' E1.
      assert (X : forall l, mapM (fun c : jop * pexpr * pexpr => let (y0, b) := c in let (o, a) := y0 in
                    do u <- eval_pexpr d (x :: en) a; do v <- eval_pexpr d (y :: en) b; jop_holds o u v)
                    (map (fun c : cmpop * pexpr * pexpr => let (y0, b) := c in let (op, a) := y0 in (JOp op, a, b)) l) = Ok bs' ->
                  exists us, mapM (fun c : cmpop * pexpr * pexpr => let (y0, _) := c in let (_, a0) := y0 in eval_pexpr d (x :: en) a0) l = Ok us).
      { clear. intros l. revert bs'. induction l as [|[[op a] b] l IH]; intros bs' H; [eexists; reflexivity|].
        cbn [map] in H. rewrite mapM_cons in H. destruct (bind_ok _ _ _ H) as [b0 [Hb0 H1]].
        destruct (bind_ok _ _ _ H1) as [bs2 [H2 _]]. destruct (bind_ok _ _ _ Hb0) as [u [Hu H3]].
        destruct (IH _ H2) as [us Hus]. rewrite mapM_cons, Hu, Hus. eexists. reflexivity. }
      destruct (X cs Hbs') as [us Hus]. congruence.
    + exfalso. clear - Hbs' E1.
      assert (X : forall l, mapM (fun c : jop * pexpr * pexpr => let (y0, b) := c in let (o, a) := y0 in
                    do u <- eval_pexpr d (x :: en) a; do v <- eval_pexpr d (y :: en) b; jop_holds o u v)
                    (map (fun c : cmpop * pexpr * pexpr => let (y0, b) := c in let (op, a) := y0 in (JOp op, a, b)) l) = Ok bs' ->
                  exists us, mapM (fun c : cmpop * pexpr * pexpr => let (y0, _) := c in let (_, a0) := y0 in eval_pexpr d (x :: en) a0) l = Ok us).
      { clear. intros l. revert bs'. induction l as [|[[op a] b] l IH]; intros bs' H; [eexists; reflexivity|].
        cbn [map] in H. rewrite mapM_cons in H. destruct (bind_ok _ _ _ H) as [b0 [Hb0 H1]].
        destruct (bind_ok _ _ _ H1) as [bs2 [H2 _]]. destruct (bind_ok _ _ _ Hb0) as [u [Hu H3]].
        destruct (IH _ H2) as [us Hus]. rewrite mapM_cons, Hu, Hus. eexists. reflexivity. }
      destruct (X cs Hbs') as [us Hus]. congruence.
Qed.

(* ---------------------------------------------------------------- aggregates *)

Lemma agg_wt_b_wt f vs : agg_wt_b f vs = true -> wt f vs.
Proof.
  unfold agg_wt_b, wt. destruct f.
  - intros _. exists 0. apply Forall_forall. intros v _. destruct v; [left; reflexivity|right; exact I..].
  - intros _. exists 0. apply Forall_forall. intros v _. destruct v; [left; reflexivity|right; exact I..].
  - intros H. exists 0. apply Forall_forall. intros v Hv. rewrite forallb_forall in H. specialize (H v Hv).
    destruct v; try discriminate; [left; reflexivity|right; exact H].
  - destruct (filter (fun v => negb (Nat.eqb (vkind v) 0)) vs) as [|v0 rest] eqn:E.
    + intros _. exists 0. apply Forall_forall. intros v Hv. left.
      destruct v; try reflexivity; exfalso;
        (assert (Hin : In _ (filter (fun v => negb (Nat.eqb (vkind v) 0)) vs)) by (apply filter_In; split; [exact Hv|reflexivity]));
        rewrite E in Hin; destruct Hin.
    + intros H. exists (AggProofs.kind v0). apply Forall_forall. intros v Hv. rewrite forallb_forall in H. specialize (H v Hv).
      apply orb_true_iff in H. destruct H as [H|H]; apply Nat.eqb_eq in H.
      * left. destruct v; try discriminate; reflexivity.
      * right. cbn. destruct v, v0; cbn in *; congruence.
  - destruct (filter (fun v => negb (Nat.eqb (vkind v) 0)) vs) as [|v0 rest] eqn:E.
    + intros _. exists 0. apply Forall_forall. intros v Hv. left.
      destruct v; try reflexivity; exfalso;
        (assert (Hin : In _ (filter (fun v => negb (Nat.eqb (vkind v) 0)) vs)) by (apply filter_In; split; [exact Hv|reflexivity]));
        rewrite E in Hin; destruct Hin.
    + intros H. exists (AggProofs.kind v0). apply Forall_forall. intros v Hv. rewrite forallb_forall in H. specialize (H v Hv).
      apply orb_true_iff in H. destruct H as [H|H]; apply Nat.eqb_eq in H.
      * left. destruct v; try discriminate; reflexivity.
      * right. cbn. destruct v, v0; cbn in *; congruence.
  - intros H. exists 0. apply Forall_forall. intros v Hv. rewrite forallb_forall in H. specialize (H v Hv).
    destruct v; try discriminate; [left; reflexivity|right; exact I].
  - intros H. exists 0. apply Forall_forall. intros v Hv. rewrite forallb_forall in H. specialize (H v Hv).
    destruct v; try discriminate; [left; reflexivity|right; exact I].
Qed.

(* grouping commutes with a map over the grouped values *)
Lemma group_insert_map (g : row -> row) k r (gs : list (row * list row)) :
  group_insert k (g r) (map (fun x => (fst x, map g (snd x))) gs)
  = map (fun x => (fst x, map g (snd x))) (group_insert k r gs).
Proof.
  induction gs as [|[k' rs] gs IH]; [reflexivity|]. cbn [map group_insert fst snd].
  destruct (row_same k k'); cbn [map fst snd]; [rewrite map_app; reflexivity|rewrite IH; reflexivity].
Qed.

Lemma group_rows_map (g : row -> row) (kv : list (row * row)) :
  group_rows (map (fun p => (fst p, g (snd p))) kv) = map (fun x => (fst x, map g (snd x))) (group_rows kv).
Proof.
  unfold group_rows.
  assert (H : forall acc, fold_left (fun gs p => group_insert (fst p) (snd p) gs) (map (fun p => (fst p, g (snd p))) kv)
                                    (map (fun x => (fst x, map g (snd x))) acc)
                          = map (fun x => (fst x, map g (snd x))) (fold_left (fun gs p => group_insert (fst p) (snd p) gs) kv acc)).
  { induction kv as [|[k r] kv IH]; intros acc; [reflexivity|]. cbn [map fold_left fst snd].
    rewrite <- (IH (group_insert k r acc)). f_equal. apply group_insert_map. }
  exact (H []).
Qed.

Lemma filter_concat {A} (p : A -> bool) (ls : list (list A)) : filter p (concat ls) = concat (map (filter p) ls).
Proof. induction ls as [|l ls IH]; [reflexivity|]. cbn. rewrite filter_app, IH. reflexivity. Qed.

Lemma nth_error_indexed {A} (l : list A) : forall s i x, nth_error (indexed s l) i = Some x ->
  fst x = s + i /\ nth_error l i = Some (snd x).
Proof.
  induction l as [|a l IH]; intros s [|i] x H; cbn in H; try discriminate.
  - injection H as <-. cbn. split; [lia|reflexivity].
  - destruct (IH _ _ _ H) as [H1 H2]. split; [lia|exact H2].
Qed.

Lemma In_indexed {A} (l : list A) s i a : In (i, a) (indexed s l) -> s <= i /\ nth_error l (i - s) = Some a.
Proof.
  revert s. induction l as [|x l IH]; intros s H; [destruct H|]. cbn in H. destruct H as [H|H].
  - injection H as <- <-. rewrite Nat.sub_diag. split; [lia|reflexivity].
  - destruct (IH _ H) as [H1 H2]. split; [lia|]. replace (i - s) with (S (i - S s)) by lia. exact H2.
Qed.

Lemma mapM_nth {A B} (f : A -> res B) : forall l ys i a, mapM f l = Ok ys -> nth_error l i = Some a ->
  exists y, nth_error ys i = Some y /\ f a = Ok y.
Proof.
  induction l as [|x l IH]; intros ys i a H Hn; [destruct i; discriminate|].
  rewrite mapM_cons in H. destruct (bind_ok _ _ _ H) as [y [Hy H1]]. destruct (bind_ok _ _ _ H1) as [ys' [H2 H3]].
  injection H3 as <-. destruct i as [|i]; cbn in Hn.
  - injection Hn as <-. exists y. split; [reflexivity|exact Hy].
  - destruct (IH _ _ _ H2 Hn) as [y' [Hy' Hf]]. exists y'. split; [exact Hy'|exact Hf].
Qed.

Lemma mapM_indexed_ext {A B} (f : nat * A -> res B) (g : A -> res B) (l : list A) s ys zs :
  mapM f (indexed s l) = Ok ys -> mapM g l = Ok zs ->
  (forall i a y z, nth_error l i = Some a -> f (s + i, a) = Ok y -> g a = Ok z -> y = z) -> ys = zs.
Proof.
  revert s ys zs. induction l as [|a l IH]; intros s ys zs Hf Hg H.
  - cbn in Hf, Hg. congruence.
  - cbn [indexed] in Hf. rewrite mapM_cons in Hf. rewrite mapM_cons in Hg.
    destruct (bind_ok _ _ _ Hf) as [y [Hy H1]]. destruct (bind_ok _ _ _ H1) as [ys' [H2 H3]]. injection H3 as <-.
    destruct (bind_ok _ _ _ Hg) as [z [Hz G1]]. destruct (bind_ok _ _ _ G1) as [zs' [G2 G3]]. injection G3 as <-.
    f_equal.
    + apply (H 0 a y z eq_refl); [rewrite Nat.add_0_r; exact Hy|exact Hz].
    + apply (IH (S s) ys' zs' H2 G2). intros i a' y' z' Hn Hfy Hgz. apply (H (S i) a' y' z' Hn); [|exact Hgz].
      replace (s + S i) with (S s + i) by lia. exact Hfy.
Qed.


Section Refine.
  Variable deal : list nat -> nat -> list row -> list (list (list row)).
  Variable batching : list nat -> list row -> list (list row).
  Variable perm_b : list nat -> list bptr -> list bptr.
  Variable perm_l : list nat -> list lptr -> list lptr.
  Variable hash : list value -> N.
  Variable kbits : N.
  Variable Pn : nat.
  Variable hasha : row -> N.
  Variables pout capacity chunk : nat.
  Variable tree_of : list nat -> list (list srow) -> mtree.
  Variable lsched : list nat -> list nat.
  Variable usched : list nat -> nat -> list uevent.

  (* what is assumed of the runtime's choices: every row is delivered exactly once, there is at least one
     partition, insertion / drain orders are orders of the stored rows, equal keys hash equally, the merge
     queue merges every run exactly once *)
  Hypothesis Hdeal : forall pth i rows, Permutation (flat (deal pth i rows)) rows.
  Hypothesis Hdeal_ne : forall pth i rows, deal pth i rows <> [].
  Hypothesis Hpb : forall pth l, Permutation (perm_b pth l) l.
  Hypothesis Hpl : forall pth l, Permutation (perm_l pth l) l.
  Hypothesis Hhash : hash_ok hash.
  Hypothesis HPn : 1 <= Pn.
  Hypothesis Hpout : 1 <= pout.
  Hypothesis Hchunk : 1 <= chunk.
  Hypothesis Htree : forall pth rs,
    Permutation (runs (tree_of pth rs)) (concat rs) /\
    (forall cs, Forall (Sorted (fun a b => sle cs a b = true)) rs ->
                all_runs (Sorted (fun a b => sle cs a b = true)) (tree_of pth rs)).

  Hypothesis Hbatch : forall pth rows, concat (batching pth rows) = rows.
  Hypothesis Hlsched : forall pth rows,
    Permutation (concat (interleave (lsched pth) (deal pth 0 rows))) (flat (deal pth 0 rows)).

  Notation exec := (exec_pplan deal batching perm_b perm_l hash kbits Pn hasha pout capacity chunk tree_of lsched usched).

  Lemma nl_refine pth d en k nk cond la ra (Lg Lw Rg Rw : list (list value)) f' :
    nkind_of k = Some nk -> Permutation Lg Lw -> Permutation Rg Rw ->
    (forall l r, In l Lw -> In r Rw -> unres false (nj_eval d en cond l r) = f' l r) ->
    Permutation
      (nl_join (Some (fun x y => unres false (nj_eval d en cond x y)))
               nk la ra (deal pth 0 Lg) (perm_l pth (collected (deal pth 0 Lg))) (deal pth 1 Rg))
      (pure_join k Lw Rw la ra f').
  Proof.
    intros Hk HL HR Hf.
    eapply Permutation_trans; [apply nl_join_pure; apply Hpl|].
    rewrite (spec_kind_n k nk Hk).
    eapply Permutation_trans.
    - apply pure_join_perm; [eapply Permutation_trans; [apply Hdeal|exact HL]|eapply Permutation_trans; [apply Hdeal|exact HR]].
    - rewrite (pure_join_ext_in k Lw Rw la ra _ f' Hf). apply Permutation_refl.
  Qed.

  Lemma existsb_false_in {A} (f : A -> bool) l x : existsb f l = false -> In x l -> f x = false.
  Proof.
    intros H Hin. destruct (f x) eqn:E; [|reflexivity].
    assert (existsb f l = true) by (apply existsb_exists; exists x; split; assumption). congruence.
  Qed.

  (* one group: the merged partial states give the reference value whenever both give a value *)
  Lemma agg_group_agree d en (aggs : list (aggfn * bool * pexpr)) (pparts : list (list (list (row * row))))
        (k : list value) (ms : list (list value)) avs' avs :
    existsb (fun a => match a with (_, dis, _) => dis end) aggs = false ->
    (forall i fn dis arg, nth_error aggs i = Some (fn, dis, arg) ->
       forall vs, mapM (fun r => eval_pexpr d (r :: en) arg) ms = Ok vs ->
       Permutation (concat (group_vals pparts k i)) vs) ->
    mapM (fun ia => match ia with (i, (fn, _, _)) => agg_phys fn (group_vals pparts k i) end) (indexed 0 aggs) = Ok avs' ->
    mapM (fun a => match a with (fn, dis, arg) =>
            do vs <- mapM (fun r => eval_pexpr d (r :: en) arg) ms; agg_apply fn dis (length ms) vs end) aggs = Ok avs ->
    avs' = avs.
  Proof.
    intros Hnd Hperm Hp Hs. apply (mapM_indexed_ext _ _ aggs 0 avs' avs Hp Hs).
    intros i [[fn dis] arg] y z Hn Hy Hz. cbn [Nat.add] in Hy.
    assert (Hdis : dis = false).
    { apply nth_error_In in Hn. exact (existsb_false_in _ _ _ Hnd Hn). }
    subst dis. destruct (bind_ok _ _ _ Hz) as [vs [Hvs Ha]].
    unfold agg_phys in Hy. destruct (agg_wt_b fn (concat (group_vals pparts k i))) eqn:Ew; [|discriminate].
    pose proof (Hperm i fn false arg Hn vs Hvs) as HP.
    assert (Hlen : length ms = length vs) by (symmetry; apply (mapM_length _ _ _ Hvs)).
    rewrite Hlen in Ha.
    apply (agg_never_wrong fn (group_vals pparts k i) vs y z); try assumption.
    apply (wt_perm fn _ _ HP). apply agg_wt_b_wt, Ew.
  Qed.

  Lemma mapM_ok_both {A B} (f : A -> res B) (dflt : B) l ys : mapM f l = Ok ys ->
    ys = map (fun x => unres dflt (f x)) l /\ forall x, In x l -> f x = Ok (unres dflt (f x)).
  Proof.
    intros H. split; [apply (mapM_ok_map f dflt l ys H)|].
    intros x Hx. destruct (mapM_ok_total f l ys H x Hx) as [y Hy]. rewrite Hy. reflexivity.
  Qed.

  Lemma mapM3_ok {A B} (f : A -> res B) (dflt : B) (parts : list (list (list A))) pp :
    mapM (mapM (mapM f)) parts = Ok pp ->
    pp = map (map (map (fun x => unres dflt (f x)))) parts /\
    forall x, In x (concat (concat parts)) -> f x = Ok (unres dflt (f x)).
  Proof.
    intros H. destruct (mapM_ok_both _ [] _ _ H) as [E1 T1].
    assert (T2 : forall part, In part parts -> forall b, In b part -> mapM f b = Ok (map (fun x => unres dflt (f x)) b) /\
                                                     forall x, In x b -> f x = Ok (unres dflt (f x))).
    { intros part Hp b Hb. pose proof (T1 part Hp) as Hpart.
      destruct (mapM_ok_both _ [] _ _ Hpart) as [_ T]. pose proof (T b Hb) as Hbb.
      destruct (mapM_ok_both f dflt _ _ Hbb) as [E T']. split; [rewrite Hbb; f_equal; exact E|exact T']. }
    split.
    - rewrite E1. apply map_ext_in. intros part Hp. pose proof (T1 part Hp) as Hpart.
      destruct (mapM_ok_both _ [] _ _ Hpart) as [E2 _]. rewrite Hpart. cbn [unres]. rewrite E2.
      apply map_ext_in. intros b Hb. destruct (T2 part Hp b Hb) as [E3 _]. rewrite E3. reflexivity.
    - intros x Hx. apply in_concat in Hx. destruct Hx as [b [Hb Hx]]. apply in_concat in Hb. destruct Hb as [part [Hp Hb]].
      exact (proj2 (T2 part Hp b Hb) x Hx).
  Qed.

  Lemma concat_map_map3 {A B} (g : A -> B) (parts : list (list (list A))) :
    concat (map (@concat B) (map (map (map g)) parts)) = map g (concat (concat parts)).
  Proof.
    induction parts as [|p parts IH]; [reflexivity|]. cbn [map concat]. rewrite concat_app, map_app, IH. f_equal.
    rewrite concat_map. reflexivity.
  Qed.

  Lemma concat_group_vals (pparts : list (list (list (row * row)))) k i :
    concat (group_vals pparts k i)
    = map (fun it => nth i (snd it) VNull) (filter (fun it => row_same k (fst it)) (concat (map (@concat (row * row)) pparts))).
  Proof.
    unfold group_vals. induction pparts as [|p pp IH]; [reflexivity|]. cbn [map concat].
    rewrite IH, filter_app, map_app. reflexivity.
  Qed.

  Definition PP (d : db) (en : env) (keys : list pexpr) (aggs : list (aggfn * bool * pexpr)) (r : row) : res (row * row) :=
    do k <- mapM (eval_pexpr d (r :: en)) keys;
    do args <- mapM (fun a => match a with (_, _, arg) => eval_pexpr d (r :: en) arg end) aggs;
    Ok (k, args).

  Lemma PP_ok d en keys aggs r k args : PP d en keys aggs r = Ok (k, args) ->
    mapM (eval_pexpr d (r :: en)) keys = Ok k /\
    forall i fn dis arg, nth_error aggs i = Some (fn, dis, arg) ->
      exists v, eval_pexpr d (r :: en) arg = Ok v /\ nth i args VNull = v.
  Proof.
    unfold PP. intros H. destruct (bind_ok _ _ _ H) as [k0 [Hk H1]]. destruct (bind_ok _ _ _ H1) as [a0 [Ha H2]].
    injection H2 as <- <-. split; [exact Hk|]. intros i fn dis arg Hn.
    destruct (mapM_nth _ _ _ _ _ Ha Hn) as [v [Hv He]]. exists v. split; [exact He|]. apply nth_error_nth. exact Hv.
  Qed.

  (* the members of a group and its per-partition values are the same bag of argument values *)
  Lemma group_vals_perm d en keys aggs (parts : list (list (list (list value)))) (rows : list (list value)) k i fn dis arg vs :
    (forall x, In x (flat parts) -> PP d en keys aggs x = Ok (unres ([], []) (PP d en keys aggs x))) ->
    Permutation (flat parts) rows ->
    nth_error aggs i = Some (fn, dis, arg) ->
    mapM (fun r => eval_pexpr d (r :: en) arg)
         (filter (fun x => row_same k (fst (unres ([], []) (PP d en keys aggs x)))) rows) = Ok vs ->
    Permutation (concat (group_vals (map (map (map (fun x => unres ([], []) (PP d en keys aggs x)))) parts) k i)) vs.
  Proof.
    intros Hok HP Hn Hvs. rewrite concat_group_vals, concat_map_map3.
    fold (flat parts).
    set (PPu := fun x => unres ([], []) (PP d en keys aggs x)) in *.
    rewrite (mapM_ok_map _ VNull _ _ Hvs).
    rewrite filter_map_comm, map_map.
    eapply Permutation_trans.
    - apply Permutation_map. apply RelProofs.filter_perm. exact HP.
    - assert (Hin : forall x, In x (filter (fun x => row_same k (fst (PPu x))) rows) -> In x (flat parts)).
      { intros x Hx. apply filter_In in Hx. destruct Hx as [Hx _]. apply (Permutation_in x (Permutation_sym HP) Hx). }
      rewrite (map_ext_in _ (fun x => unres VNull (eval_pexpr d (x :: en) arg))); [apply Permutation_refl|].
      intros x Hx. pose proof (Hok x (Hin x Hx)) as Hx0. fold (PPu x) in Hx0. destruct (PPu x) as [kx ax] eqn:Epp.
      destruct (PP_ok _ _ _ _ _ _ _ Hx0) as [_ Hargs]. destruct (Hargs i fn dis arg Hn) as [v [Hv Hnth]].
      cbn beta. cbn [snd]. transitivity (unres VNull (Ok v)); [exact Hnth|f_equal; symmetry; exact Hv].
  Qed.

  Lemma two_level_rows_ok (pparts : list (list (list (row * row)))) : pparts <> [] ->
    exists outs, two_level hasha (list row) [] row (fun s v => s ++ [v]) (@app row) pout capacity chunk pparts = TOk outs /\
                 Permutation (concat (map groups outs)) (group_rows (concat (map (@concat (row * row)) pparts))).
  Proof.
    intros Hne. destruct (two_level_merge_exact_rows hasha pout capacity chunk Hpout Hchunk pparts Hne)
      as [outs [Hr [_ [Hperm _]]]].
    exists outs. split; [exact Hr|exact Hperm].
  Qed.

  Lemma group_members (kv : list (row * row)) k ms : In (k, ms) (group_rows kv) ->
    ms = map snd (filter (fun p => row_same k (fst p)) kv).
  Proof. intros H. exact (proj1 (proj1 (group_rows_exact kv) k ms H)). Qed.

  Lemma hashagg_refine pth d en keys aggs (rows' rows : list (list value)) got want :
    existsb (fun a => match a with (_, dis, _) => dis end) aggs = false ->
    Permutation rows' rows ->
    (do pparts <- mapM (mapM (mapM (PP d en keys aggs))) (deal pth 0 rows');
     match two_level hasha (list row) [] row (fun s v => s ++ [v]) (@app row) pout capacity chunk pparts with
     | TErr _ => Err EType
     | TOk outs =>
         mapM (fun g =>
                 do avs <- mapM (fun ia => match ia with (i, (fn, _, _)) => agg_phys fn (group_vals pparts (fst g) i) end)
                                (indexed 0 aggs);
                 Ok (fst g ++ avs)) (concat (map groups outs))
     end) = Ok got ->
    (do kv <- mapM (fun x => do k <- mapM (eval_pexpr d (x :: en)) keys; Ok (k, x)) rows;
     mapM (agg_row (map (fun a => match a with (fn, dis, arg) => (fn, dis, fun r => eval_pexpr d (r :: en) arg) end) aggs))
          (group_rows kv)) = Ok want ->
    Permutation got want.
  Proof.
    intros Hnd HP Hg Hw.
    set (parts := deal pth 0 rows') in *.
    assert (HPp : Permutation (flat parts) rows) by (eapply Permutation_trans; [apply Hdeal|exact HP]).
    destruct (bind_ok _ _ _ Hg) as [pparts [Hpp Hg1]]. clear Hg.
    destruct (mapM3_ok (PP d en keys aggs) ([], []) parts pparts Hpp) as [Epp Tpp].
    set (PPu := fun x => unres ([], []) (PP d en keys aggs x)) in *.
    assert (Hne : pparts <> []).
    { rewrite Epp. intros E. apply map_eq_nil in E. exact (Hdeal_ne pth 0 rows' E). }
    destruct (two_level_rows_ok pparts Hne) as [outs [Htl HG]]. rewrite Htl in Hg1.
    set (G' := concat (map groups outs)) in *.
    (* items of the table *)
    assert (Eitems : concat (map (@concat (row * row)) pparts) = map PPu (flat parts)).
    { rewrite Epp. apply concat_map_map3. }
    rewrite Eitems in HG.
    (* the reference side *)
    destruct (bind_ok _ _ _ Hw) as [kv [Hkv Hw1]]. clear Hw.
    assert (Ekv : kv = map (fun x => (fst (PPu x), x)) rows).
    { rewrite (mapM_ok_map _ ([], []) _ _ Hkv). apply map_ext_in. intros x Hx.
      assert (Hxp : In x (flat parts)) by (apply (Permutation_in x (Permutation_sym HPp) Hx)).
      pose proof (Tpp x Hxp) as Hx0. fold (PPu x) in Hx0. destruct (PPu x) as [kx ax] eqn:Ex.
      destruct (PP_ok _ _ _ _ _ _ _ Hx0) as [Hk _].
      transitivity (unres ([], []) (do k <- Ok kx; Ok (k, x))); [|reflexivity].
      f_equal. f_equal. exact Hk. }
    (* keys of both sides are the same bag *)
    assert (Hkeys : Permutation (map fst G') (map fst (group_rows kv))).
    { eapply Permutation_trans; [apply Permutation_map; exact HG|].
      assert (Hitems : Permutation (map PPu (flat parts)) (map (fun p => (fst p, snd (PPu (snd p)))) kv)).
      { rewrite Ekv, map_map. eapply Permutation_trans; [apply Permutation_map; exact HPp|].
        match goal with |- Permutation _ (map ?f rows) => rewrite (map_ext f PPu) end; [apply Permutation_refl|].
        intros x. cbn [fst snd]. destruct (PPu x); reflexivity. }
      eapply Permutation_trans; [exact (proj1 (group_rows_perm _ _ Hitems))|].
      rewrite (group_rows_map (fun x => snd (PPu x)) kv), map_map. cbn [fst]. apply Permutation_refl. }
    (* outputs *)
    set (OUT := fun g : row * list row =>
                  do avs <- mapM (fun ia => match ia with (i, (fn, _, _)) => agg_phys fn (group_vals pparts (fst g) i) end)
                                 (indexed 0 aggs);
                  Ok (fst g ++ avs)) in *.
    destruct (mapM_ok_both OUT [] _ _ Hg1) as [Egot Tgot].
    set (AG := agg_row (map (fun a => match a with (fn, dis, arg) => (fn, dis, fun r => eval_pexpr d (r :: en) arg) end) aggs)) in *.
    destruct (mapM_ok_both AG [] _ _ Hw1) as [Ewant Twant].
    set (OK := fun k : row => unres [] (OUT (k, []))).
    assert (Egot' : got = map OK (map fst G')).
    { rewrite Egot, map_map. apply map_ext. intros [k ms]. reflexivity. }
    assert (Ewant' : want = map OK (map fst (group_rows kv))).
    { rewrite Ewant, map_map. apply map_ext_in. intros [k ms] Hin. cbn [fst].
      (* the group's key occurs in the table *)
      assert (Hk' : In k (map fst G')).
      { apply (Permutation_in k (Permutation_sym Hkeys)). apply in_map_iff. exists (k, ms). split; [reflexivity|exact Hin]. }
      apply in_map_iff in Hk'. destruct Hk' as [[k0 ms0] [Ek0 Hin0]]. cbn [fst] in Ek0. subst k0.
      pose proof (Tgot _ Hin0) as Ho. pose proof (Twant _ Hin) as Ha.
      change (unres [] (AG (k, ms)) = unres [] (OUT (k, ms0))).
      destruct (bind_ok _ _ _ Ho) as [avs' [Havs' Ho1]].
      unfold AG, agg_row in Ha. rewrite mapM_map in Ha. destruct (bind_ok _ _ _ Ha) as [avs [Havs Ha1]].
      cbn [fst snd] in *.
      assert (Eavs : avs' = avs).
      { apply (agg_group_agree d en aggs pparts k ms avs' avs Hnd); [|exact Havs'|].
        - intros i fn dis arg Hn vs Hvs.
          rewrite (group_members kv k ms Hin) in Hvs. rewrite Ekv in Hvs.
          rewrite filter_map_comm, map_map in Hvs. cbn [fst snd] in Hvs. rewrite map_id in Hvs.
          rewrite Epp. exact (group_vals_perm d en keys aggs parts rows k i fn dis arg vs Tpp HPp Hn Hvs).
        - erewrite mapM_ext_in; [exact Havs|]. intros [[fn dis] arg] _. reflexivity. }
      assert (E1 : OUT (k, ms0) = Ok (k ++ avs')) by (unfold OUT; cbn [fst]; rewrite Havs'; reflexivity).
      assert (E2 : AG (k, ms) = Ok (k ++ avs)).
      { unfold AG, agg_row. rewrite mapM_map. cbn [fst snd]. rewrite Havs. reflexivity. }
      rewrite E1, E2, Eavs. reflexivity. }
    rewrite Egot', Ewant'. apply Permutation_map. exact Hkeys.
  Qed.

  Lemma group_rows_nil_keys (rows : list (list value)) :
    match group_rows (map (fun x => (@nil value, x)) rows) with [] => [([], [])] | g => g end = [([], rows)].
  Proof.
    assert (H : forall l acc, fold_left (fun gs (p : row * row) => group_insert (fst p) (snd p) gs)
                                        (map (fun x => (@nil value, x)) l) [([], acc)] = [([], acc ++ l)]).
    { induction l as [|x l IH]; intros acc; [rewrite app_nil_r; reflexivity|].
      cbn [map fold_left fst snd group_insert row_same]. rewrite IH, <- app_assoc. reflexivity. }
    unfold group_rows. destruct rows as [|x rows]; [reflexivity|].
    cbn [map fold_left fst snd group_insert]. rewrite H. reflexivity.
  Qed.

  Lemma filter_all_in {A} (p : A -> bool) l : (forall x, In x l -> p x = true) -> filter p l = l.
  Proof.
    induction l as [|x l IH]; intros H; [reflexivity|]. cbn [filter].
    rewrite (H x (or_introl eq_refl)), IH; [reflexivity|]. intros y Hy. apply H. right. exact Hy.
  Qed.

  Lemma ungrouped_refine pth d en aggs (rows' rows : list (list value)) got want :
    existsb (fun a => match a with (_, dis, _) => dis end) aggs = false ->
    Permutation rows' rows ->
    (do pparts <- mapM (mapM (mapM (PP d en [] aggs))) (deal pth 0 rows');
     do avs <- mapM (fun ia => match ia with (i, (fn, _, _)) => agg_phys fn (group_vals pparts [] i) end) (indexed 0 aggs);
     Ok [avs]) = Ok got ->
    (do kv <- mapM (fun x => do k <- mapM (eval_pexpr d (x :: en)) []; Ok (k, x)) rows;
     mapM (agg_row (map (fun a => match a with (fn, dis, arg) => (fn, dis, fun r => eval_pexpr d (r :: en) arg) end) aggs))
          (match group_rows kv with [] => [([], [])] | g => g end)) = Ok want ->
    Permutation got want.
  Proof.
    intros Hnd HP Hg Hw.
    set (parts := deal pth 0 rows') in *.
    assert (HPp : Permutation (flat parts) rows) by (eapply Permutation_trans; [apply Hdeal|exact HP]).
    destruct (bind_ok _ _ _ Hg) as [pparts [Hpp Hg1]]. clear Hg.
    destruct (mapM3_ok (PP d en [] aggs) ([], []) parts pparts Hpp) as [Epp Tpp].
    destruct (bind_ok _ _ _ Hg1) as [avs' [Havs' Hg2]]. injection Hg2 as <-.
    destruct (bind_ok _ _ _ Hw) as [kv [Hkv Hw1]]. clear Hw.
    assert (Ekv : kv = map (fun x => (@nil value, x)) rows).
    { rewrite (mapM_ok_map _ ([], []) _ _ Hkv). apply map_ext. intros x. reflexivity. }
    rewrite Ekv, group_rows_nil_keys in Hw1.
    rewrite mapM_cons in Hw1. destruct (bind_ok _ _ _ Hw1) as [w [Ha Hw2]]. cbn in Hw2. injection Hw2 as <-.
    unfold agg_row in Ha. rewrite mapM_map in Ha. destruct (bind_ok _ _ _ Ha) as [avs [Havs Ha1]]. cbn [fst snd] in *.
    injection Ha1 as <-. cbn [app].
    assert (Eavs : avs' = avs).
    { apply (agg_group_agree d en aggs pparts [] rows avs' avs Hnd); [|exact Havs'|].
      - intros i fn dis arg Hn vs Hvs. rewrite Epp.
        apply (group_vals_perm d en [] aggs parts rows [] i fn dis arg vs Tpp HPp Hn).
        rewrite filter_all_in; [exact Hvs|].
        intros x Hx. assert (Hxp : In x (flat parts)) by (apply (Permutation_in x (Permutation_sym HPp) Hx)).
        pose proof (Tpp x Hxp) as Hx0. destruct (unres ([], []) (PP d en [] aggs x)) as [kx ax] eqn:Ex.
        destruct (PP_ok _ _ _ _ _ _ _ Hx0) as [Hk _]. cbn in Hk. injection Hk as <-. reflexivity.
      - erewrite mapM_ext_in; [exact Havs|]. intros [[fn dis] arg] _. reflexivity. }
    rewrite Eavs. apply Permutation_refl.
  Qed.

  (* DISTINCT / UNION: the group keys of the table over whole rows are the distinct rows *)
  Lemma distinct_refine pth (rows' rows : list (list value)) got :
    Permutation rows' rows ->
    match two_level hasha (list row) [] row (fun s v => s ++ [v]) (@app row) pout capacity chunk
                    (map (map (map (fun r => (r, r)))) (deal pth 0 rows')) with
    | TErr _ => Err EType
    | TOk outs => Ok (map fst (concat (map groups outs)))
    end = Ok got ->
    Permutation got (dedup_rows rows).
  Proof.
    intros HP Hg. set (parts := deal pth 0 rows') in *.
    assert (HPp : Permutation (flat parts) rows) by (eapply Permutation_trans; [apply Hdeal|exact HP]).
    assert (Hne : map (map (map (fun r : row => (r, r)))) parts <> []).
    { intros E. apply map_eq_nil in E. exact (Hdeal_ne pth 0 rows' E). }
    destruct (two_level_rows_ok _ Hne) as [outs [Htl HG]]. rewrite Htl in Hg. injection Hg as <-.
    rewrite concat_map_map3 in HG. fold (flat parts) in HG.
    set (kv := map (fun r : row => (r, r)) (flat parts)) in *.
    apply NoDup_Permutation.
    - apply (Permutation_NoDup (l := map fst (group_rows kv))); [apply Permutation_sym, Permutation_map, HG|].
      exact (proj1 (one_row_per_group kv)).
    - exact (proj1 (distinct_spec rows)).
    - intros x. split.
      + intros Hx. apply (Permutation_in x (Permutation_map fst HG)) in Hx.
        apply in_map_iff in Hx. destruct Hx as [[k ms] [Ek Hin]]. cbn [fst] in Ek. subst k.
        destruct (proj1 (group_rows_exact kv) x ms Hin) as [Ems Hnz].
        apply (proj1 (proj2 (proj2 (distinct_spec rows)))).
        (* a member exists, it is a row with this key *)
        destruct ms as [|m ms]; [exfalso; apply Hnz; reflexivity|].
        pose proof (in_eq m ms) as Hm. rewrite Ems in Hm.
        apply in_map_iff in Hm. destruct Hm as [[a b] [Eb Hf]]. apply filter_In in Hf. destruct Hf as [Hin' Hs].
        unfold kv in Hin'. apply in_map_iff in Hin'. destruct Hin' as [r [Er Hr]]. injection Er as <- <-.
        cbn [fst] in Hs. apply row_same_iff in Hs. subst r. apply (Permutation_in x HPp Hr).
      + intros Hx. apply (proj1 (proj2 (proj2 (distinct_spec rows)))) in Hx.
        apply (Permutation_in x (Permutation_sym HPp)) in Hx.
        destruct (proj1 (proj2 (group_rows_exact kv)) (x, x)) as [rs [Hin _]].
        { unfold kv. apply in_map_iff. exists x. split; [reflexivity|exact Hx]. }
        cbn [fst] in Hin. apply (Permutation_in x (Permutation_sym (Permutation_map fst HG))).
        apply in_map_iff. exists (x, rs). split; [reflexivity|exact Hin].
  Qed.

  Lemma concat_map_concat {A} (l : list (list (list A))) : concat (map (@concat A) l) = concat (concat l).
  Proof. induction l as [|x l IH]; [reflexivity|]. cbn [map concat]. rewrite concat_app, IH. reflexivity. Qed.

  Lemma union_pairs_perm {A} : forall (ls rs : list (list A)), length ls = length rs ->
    Permutation (concat (map (fun p => snd p ++ fst p) (combine ls rs))) (concat ls ++ concat rs).
  Proof.
    induction ls as [|l ls IH]; intros [|r rs] H; try discriminate; [constructor|].
    cbn [combine map concat fst snd]. injection H as H.
    eapply Permutation_trans; [apply Permutation_app_head; apply (IH rs H)|].
    (* (r ++ l) ++ (cl ++ cr)  ~  (l ++ cl) ++ (r ++ cr) *)
    eapply Permutation_trans; [apply Permutation_app_tail; apply Permutation_app_comm|].
    rewrite <- !app_assoc. apply Permutation_app_head. apply Permutation_app_swap_app.
  Qed.

  Lemma union_refine pth (Lg Lw Rg Rw : list (list value)) got :
    Permutation Lg Lw -> Permutation Rg Rw ->
    (let ls := map (@concat row) (deal pth 0 Lg) in let rs := map (@concat row) (deal pth 1 Rg) in
     let runs := map (fun ip => union_run (usched pth (fst ip)) (union_init [fst (snd ip)] [snd (snd ip)]))
                     (indexed 0 (combine ls rs)) in
     if Nat.eqb (length ls) (length rs) && forallb (fun s => u_done s) runs
     then Ok (concat (map union_output runs)) else Err EType) = Ok got ->
    Permutation got (Lw ++ Rw).
  Proof.
    intros HL HR. cbv zeta.
    set (ls := map (@concat row) (deal pth 0 Lg)). set (rs := map (@concat row) (deal pth 1 Rg)).
    destruct (Nat.eqb (length ls) (length rs)) eqn:El; [|discriminate]. apply Nat.eqb_eq in El.
    match goal with |- (if true && ?b then _ else _) = _ -> _ => destruct b eqn:Ed; [|discriminate] end.
    cbn [andb]. intros H. injection H as <-.
    assert (Hout : forall s (prs : list (list row * list row)),
       forallb (fun st : ustate row => u_done st)
               (map (fun ip => union_run (usched pth (fst ip)) (union_init [fst (snd ip)] [snd (snd ip)])) (indexed s prs)) = true ->
       concat (map union_output (map (fun ip => union_run (usched pth (fst ip)) (union_init [fst (snd ip)] [snd (snd ip)])) (indexed s prs)))
       = concat (map (fun p => snd p ++ fst p) prs)).
    { clear. intros s prs. revert s. induction prs as [|[l r] prs IH]; intros s Hd; [reflexivity|].
      cbn [indexed map forallb fst snd] in Hd. apply andb_true_iff in Hd. destruct Hd as [H1 H2].
      cbn [indexed map concat fst snd]. rewrite (IH _ H2). f_equal.
      pose proof (union_concat row [l] [r] (usched pth s)) as [_ Hc]. rewrite (Hc H1). cbn [concat]. rewrite !app_nil_r. reflexivity. }
    rewrite (Hout 0 (combine ls rs) Ed).
    eapply Permutation_trans; [apply union_pairs_perm; exact El|].
    unfold ls, rs. rewrite !concat_map_concat. apply Permutation_app.
    - eapply Permutation_trans; [apply Hdeal|exact HL].
    - eapply Permutation_trans; [apply Hdeal|exact HR].
  Qed.

  Lemma hashjoin_refine pth d en k hk conds cs la ra (Lg Lw Rg Rw : list (list value)) want :
    hkind_of k = Some hk -> cmp_conds conds = Some cs ->
    Permutation Lg Lw -> Permutation Rg Rw ->
    join2 k Lw Rw la ra (eval_conds d en conds) = Ok want ->
    Permutation
      (hash_join hash (map (fun c => match c with (op, _, _) => op end) cs)
         (fun x => unres [] (mapM (fun c => match c with (_, a, _) => eval_pexpr d (x :: en) a end) cs))
         (fun y => unres [] (mapM (fun c => match c with (_, _, b) => eval_pexpr d (y :: en) b end) cs))
         kbits hk la ra Pn (deal pth 0 Lg) (perm_b pth (stored_rows (deal pth 0 Lg))) (deal pth 1 Rg))
      want.
  Proof.
    intros Hk Hc HL HR Hw. destruct (join2_ok _ _ _ _ _ _ _ Hw) as [Ht ->].
    eapply Permutation_trans; [apply (hash_join_pure hash Hhash); [exact HPn|apply Hpb]|].
    rewrite (spec_kind_h k hk Hk).
    eapply Permutation_trans.
    - apply pure_join_perm; [eapply Permutation_trans; [apply Hdeal|exact HL]|eapply Permutation_trans; [apply Hdeal|exact HR]].
    - rewrite (pure_join_ext_in k Lw Rw la ra _ (fun l r => unres false (eval_conds d en conds l r))); [apply Permutation_refl|].
      intros l r Hl Hr. destruct (Ht l r Hl Hr) as [b Hb]. rewrite Hb. cbn [unres].
      rewrite (cmp_conds_some conds cs Hc) in Hb. symmetry. exact (conds_eval_match d en cs l r b Hb).
  Qed.

  (* ---------------------------------------------------------------- sort *)
  Lemma number_parts_concat : forall ps s,
    concat (number_parts s ps) = combine (seq s (length (concat ps))) (concat ps).
  Proof.
    induction ps as [|p ps IH]; intros s; [reflexivity|]. cbn [number_parts concat].
    rewrite IH, app_length, seq_app. symmetry. apply combine_app_eq. rewrite seq_length. reflexivity.
  Qed.

  Lemma mapM_o_ok {A B} (f : A -> option B) (dflt : B) : forall l ys, mapM_o f l = Ok ys ->
    ys = map (fun x => match f x with Some y => y | None => dflt end) l.
  Proof.
    induction l as [|x l IH]; intros ys H; [cbn in H; injection H as <-; reflexivity|].
    cbn [mapM_o] in H. destruct (f x) as [y|] eqn:E; [|discriminate].
    destruct (bind_ok _ _ _ H) as [ys' [H1 H2]]. injection H2 as <-. cbn [map]. rewrite E, (IH _ H1). reflexivity.
  Qed.

  Lemma row_of_srow_of keys (all : list (list value)) i r :
    nth_error all i = Some r -> row_of_srow all (srow_of keys (i, r)) = Some r.
  Proof. intros H. unfold row_of_srow, srow_of. cbn [snd fst]. rewrite Nat2N.id. exact H. Qed.

  Lemma In_combine_seq {A} (l : list A) : forall s i x, In (i, x) (combine (seq s (length l)) l) -> nth_error l (i - s) = Some x /\ s <= i.
  Proof.
    induction l as [|a l IH]; intros s i x H; [destruct H|]. cbn [length seq combine] in H. destruct H as [H|H].
    - injection H as <- <-. rewrite Nat.sub_diag. split; [reflexivity|lia].
    - destruct (IH _ _ _ H) as [H1 H2]. split; [|lia]. replace (i - s) with (S (i - S s)) by lia. exact H1.
  Qed.

  (* the merged runs, decoded: all rows of the input, each once *)
  Lemma sort_decode pth keys cs (parts : list (list (list value))) got :
    mapM_o (row_of_srow (concat parts))
           (merge_tree cs (tree_of pth (map (fun p => isort cs (map (srow_of keys) p)) (number_parts 0 parts)))) = Ok got ->
    Permutation got (concat parts) /\
    Sorted (fun a b => sle cs a b = true)
           (merge_tree cs (tree_of pth (map (fun p => isort cs (map (srow_of keys) p)) (number_parts 0 parts)))) /\
    Permutation (merge_tree cs (tree_of pth (map (fun p => isort cs (map (srow_of keys) p)) (number_parts 0 parts))))
                (map (srow_of keys) (combine (seq 0 (length (concat parts))) (concat parts))) /\
    got = map (fun s => match row_of_srow (concat parts) s with Some r => r | None => [] end)
              (merge_tree cs (tree_of pth (map (fun p => isort cs (map (srow_of keys) p)) (number_parts 0 parts)))).
  Proof.
    set (rs := map (fun p => isort cs (map (srow_of keys) p)) (number_parts 0 parts)).
    intros H. destruct (Htree pth rs) as [Hperm Hsorted].
    assert (Hall : all_runs (Sorted (fun a b => sle cs a b = true)) (tree_of pth rs)).
    { apply Hsorted. unfold rs. apply Forall_forall. intros r Hr. apply in_map_iff in Hr. destruct Hr as [p [<- _]].
      apply sortedb_Sorted. apply isort_sorted. }
    destruct (merge_tree_sorted_perm cs (tree_of pth rs) Hall) as [HS HP].
    assert (HM : Permutation (merge_tree cs (tree_of pth rs))
                             (map (srow_of keys) (combine (seq 0 (length (concat parts))) (concat parts)))).
    { eapply Permutation_trans; [exact HP|]. eapply Permutation_trans; [exact Hperm|].
      rewrite <- number_parts_concat, concat_map. unfold rs.
      generalize (number_parts 0 parts). intros nps. induction nps as [|p nps IH]; [constructor|].
      cbn [map concat]. apply Permutation_app; [apply isort_perm|exact IH]. }
    pose proof (mapM_o_ok _ [] _ _ H) as Eg.
    split; [|split; [exact HS|split; [exact HM|exact Eg]]].
    rewrite Eg. eapply Permutation_trans; [apply Permutation_map; exact HM|].
    rewrite map_map.
    rewrite (map_ext_in _ snd).
    - rewrite combine_seq_snd. apply Permutation_refl.
    - intros [i r] Hin. destruct (In_combine_seq _ _ _ _ Hin) as [Hn _]. rewrite Nat.sub_0_r in Hn.
      rewrite (row_of_srow_of keys _ i r Hn). reflexivity.
  Qed.

  (* ---------------------------------------------------------------- the refinement, as bags *)
  Theorem phys_refines_bag : forall l, no_limit l = true ->
    forall pth d en got want,
    exec pth d en (phys_of l) = Ok got -> eval_lplan d en l = Ok want -> Permutation got want.
  Proof.
    apply (lplan_ind2 (fun l => no_limit l = true -> forall pth d en got want,
             exec pth d en (phys_of l) = Ok got -> eval_lplan d en l = Ok want -> Permutation got want)).
    - (* Scan *) intros t _ pth d en got want Hg Hw. cbn in Hg, Hw. rewrite Hg in Hw. injection Hw as <-. apply Permutation_refl.
    - (* SingleRow *) intros _ pth d en got want Hg Hw. cbn in Hg, Hw. injection Hg as <-. injection Hw as <-. apply Permutation_refl.
    - (* ExprList *) intros rows _ pth d en got want Hg Hw. cbn [phys_of exec_pplan eval_lplan] in Hg, Hw. rewrite Hg in Hw.
      injection Hw as <-. apply Permutation_refl.
    - (* Filter *) intros e c IH Hn pth d en got want Hg Hw. cbn [no_limit] in Hn. cbn [phys_of exec_pplan] in Hg. cbn [eval_lplan] in Hw.
      destruct (bind_ok _ _ _ Hg) as [rows' [Hc' Hg1]]. destruct (bind_ok _ _ _ Hw) as [rows [Hc Hw1]].
      apply (rfilter_perm _ _ _ _ _ (Permutation_trans (Hdeal _ _ _) (IH Hn _ _ _ _ _ Hc' Hc)) Hg1 Hw1).
    - (* Project *) intros es c IH Hn pth d en got want Hg Hw. cbn [no_limit] in Hn. cbn [phys_of exec_pplan] in Hg. cbn [eval_lplan] in Hw.
      destruct (bind_ok _ _ _ Hg) as [rows' [Hc' Hg1]]. destruct (bind_ok _ _ _ Hw) as [rows [Hc Hw1]].
      apply (rproject_perm _ _ _ _ _ (Permutation_trans (Hdeal _ _ _) (IH Hn _ _ _ _ _ Hc' Hc)) Hg1 Hw1).
    - (* ProjectAll *) intros c IH Hn pth d en got want Hg Hw. exact (IH Hn _ _ _ _ _ Hg Hw).
    - (* CrossJoin *) intros l r IHl IHr Hn pth d en got want Hg Hw. cbn [no_limit] in Hn. apply andb_true_iff in Hn. destruct Hn as [Hnl Hnr].
      cbn [phys_of exec_pplan] in Hg. cbn [eval_lplan] in Hw.
      destruct (bind_ok _ _ _ Hg) as [Lg [HLg Hg1]]. destruct (bind_ok _ _ _ Hg1) as [Rg [HRg Hg2]].
      destruct (bind_ok _ _ _ Hg2) as [chk [_ Hg3]]. injection Hg3 as <-.
      destruct (bind_ok _ _ _ Hw) as [Lw [HLw Hw1]]. destruct (bind_ok _ _ _ Hw1) as [Rw [HRw Hw2]]. injection Hw2 as <-.
      rewrite nl_cross_as_true. rewrite (rcross_pure Lw Rw 0 0).
      eapply Permutation_trans; [apply nl_join_pure; apply Hpl|]. cbn [kind_of_n pure_h spec_kind].
      apply pure_join_perm; [eapply Permutation_trans; [apply Hdeal|exact (IHl Hnl _ _ _ _ _ HLg HLw)]
                            |eapply Permutation_trans; [apply Hdeal|exact (IHr Hnr _ _ _ _ _ HRg HRw)]].
    - (* ArbitraryJoin *) intros k c la ra l r IHl IHr Hn pth d en got want Hg Hw. cbn [no_limit] in Hn. apply andb_true_iff in Hn. destruct Hn as [Hnl Hnr].
      cbn [phys_of] in Hg. destruct (nkind_of k) as [nk|] eqn:Ek; [|discriminate Hg].
      cbn [exec_pplan] in Hg. cbn [eval_lplan] in Hw.
      destruct (bind_ok _ _ _ Hg) as [Lg [HLg Hg1]]. destruct (bind_ok _ _ _ Hg1) as [Rg [HRg Hg2]].
      destruct (bind_ok _ _ _ Hg2) as [chk [_ Hg3]]. injection Hg3 as <-.
      destruct (bind_ok _ _ _ Hw) as [Lw [HLw Hw1]]. destruct (bind_ok _ _ _ Hw1) as [Rw [HRw Hw2]].
      destruct (rjoin_ok_pure _ _ _ _ _ _ _ Hw2) as [_ ->].
      apply (nl_refine pth d en k nk (NCWhole c) la ra Lg Lw Rg Rw _ Ek (IHl Hnl _ _ _ _ _ HLg HLw) (IHr Hnr _ _ _ _ _ HRg HRw)).
      intros x y _ _. reflexivity.
    - (* ComparisonJoin *) intros k cs la ra l r IHl IHr Hn pth d en got want Hg Hw. cbn [no_limit] in Hn. apply andb_true_iff in Hn. destruct Hn as [Hnl Hnr].
      cbn [eval_lplan] in Hw.
      destruct (bind_ok _ _ _ Hw) as [Lw [HLw Hw1]]. destruct (bind_ok _ _ _ Hw1) as [Rw [HRw Hw2]].
      destruct (bind_ok _ _ _ Hw2) as [LK [_ Hw3]]. destruct (bind_ok _ _ _ Hw3) as [RK [_ Hw4]].
      change (join2 k Lw Rw la ra (eval_conds d en cs) = Ok want) in Hw4.
      cbn [phys_of] in Hg.
      destruct (existsb (fun c => match c with (o, _, _) => jop_is_eq o end) cs).
      + destruct (hkind_of k) as [hk|] eqn:Ek; [|discriminate Hg]. destruct (cmp_conds cs) as [ccs|] eqn:Ec; [|discriminate Hg].
        cbn [exec_pplan] in Hg.
        destruct (bind_ok _ _ _ Hg) as [Lg [HLg Hg1]]. destruct (bind_ok _ _ _ Hg1) as [Rg [HRg Hg2]].
        destruct (bind_ok _ _ _ Hg2) as [c1 [_ Hg3]]. destruct (bind_ok _ _ _ Hg3) as [c2 [_ Hg4]]. injection Hg4 as <-.
        exact (hashjoin_refine pth d en k hk cs ccs la ra Lg Lw Rg Rw want Ek Ec
                 (IHl Hnl _ _ _ _ _ HLg HLw) (IHr Hnr _ _ _ _ _ HRg HRw) Hw4).
      + destruct (nkind_of k) as [nk|] eqn:Ek; [|discriminate Hg]. cbn [exec_pplan] in Hg.
        destruct (bind_ok _ _ _ Hg) as [Lg [HLg Hg1]]. destruct (bind_ok _ _ _ Hg1) as [Rg [HRg Hg2]].
        destruct (bind_ok _ _ _ Hg2) as [chk [_ Hg3]]. injection Hg3 as <-.
        destruct (join2_ok _ _ _ _ _ _ _ Hw4) as [_ ->].
        apply (nl_refine pth d en k nk (NCConds cs) la ra Lg Lw Rg Rw _ Ek (IHl Hnl _ _ _ _ _ HLg HLw) (IHr Hnr _ _ _ _ _ HRg HRw)).
        intros x y _ _. reflexivity.
    - (* DependentJoin *) intros k on ra l r _ _ _ pth d en got want Hg. discriminate Hg.
    - (* Aggregate *) intros keys aggs c IH Hn pth d en got want Hg Hw. cbn [no_limit] in Hn. cbn [phys_of] in Hg.
      destruct (existsb (fun a => match a with (_, dis, _) => dis end) aggs) eqn:Ed; [discriminate Hg|].
      cbn [eval_lplan] in Hw. destruct (bind_ok _ _ _ Hw) as [rows [Hc Hw1]]. unfold ragg in Hw1.
      destruct keys as [|k0 keys].
      + cbn [exec_pplan] in Hg. destruct (bind_ok _ _ _ Hg) as [rows' [Hc' Hg1]].
        exact (ungrouped_refine pth d en aggs rows' rows got want Ed (IH Hn _ _ _ _ _ Hc' Hc) Hg1 Hw1).
      + cbn [exec_pplan] in Hg. destruct (bind_ok _ _ _ Hg) as [rows' [Hc' Hg1]].
        exact (hashagg_refine pth d en (k0 :: keys) aggs rows' rows got want Ed (IH Hn _ _ _ _ _ Hc' Hc) Hg1 Hw1).
    - (* Distinct *) intros c IH Hn pth d en got want Hg Hw. cbn [no_limit] in Hn. cbn [phys_of exec_pplan] in Hg. cbn [eval_lplan] in Hw.
      destruct (bind_ok _ _ _ Hg) as [rows' [Hc' Hg1]]. destruct (bind_ok _ _ _ Hw) as [rows [Hc Hw1]]. injection Hw1 as <-.
      exact (distinct_refine pth rows' rows got (IH Hn _ _ _ _ _ Hc' Hc) Hg1).
    - (* Setop *) intros all l r IHl IHr Hn pth d en got want Hg Hw. cbn [no_limit] in Hn. apply andb_true_iff in Hn. destruct Hn as [Hnl Hnr].
      cbn [eval_lplan] in Hw. destruct (bind_ok _ _ _ Hw) as [Lw [HLw Hw1]]. destruct (bind_ok _ _ _ Hw1) as [Rw [HRw Hw2]]. injection Hw2 as <-.
      cbn [phys_of] in Hg. destruct all.
      + cbn [exec_pplan] in Hg. destruct (bind_ok _ _ _ Hg) as [Lg [HLg Hg1]]. destruct (bind_ok _ _ _ Hg1) as [Rg [HRg Hg2]].
        exact (union_refine pth Lg Lw Rg Rw got (IHl Hnl _ _ _ _ _ HLg HLw) (IHr Hnr _ _ _ _ _ HRg HRw) Hg2).
      + cbn [exec_pplan] in Hg. destruct (bind_ok _ _ _ Hg) as [U [HU Hg0]].
        destruct (bind_ok _ _ _ HU) as [Lg [HLg Hg1]]. destruct (bind_ok _ _ _ Hg1) as [Rg [HRg Hg2]].
        pose proof (union_refine (0 :: pth) Lg Lw Rg Rw U (IHl Hnl _ _ _ _ _ HLg HLw) (IHr Hnr _ _ _ _ _ HRg HRw) Hg2) as HUp.
        exact (distinct_refine pth U (Lw ++ Rw) got HUp Hg0).
    - (* Order *) intros keys c IH Hn pth d en got want Hg Hw. cbn [no_limit] in Hn. cbn [phys_of exec_pplan] in Hg. cbn [eval_lplan] in Hw.
      destruct (bind_ok _ _ _ Hg) as [rows' [Hc' Hg1]]. destruct (bind_ok _ _ _ Hw) as [rows [Hc Hw1]]. injection Hw1 as <-.
      destruct (sort_typed_b _ keys); [|discriminate Hg1].
      destruct (sort_decode pth keys _ (map (@concat row) (deal pth 0 rows')) got Hg1) as [HP _].
      eapply Permutation_trans; [exact HP|]. rewrite concat_map_concat.
      eapply Permutation_trans; [apply Hdeal|]. eapply Permutation_trans; [exact (IH Hn _ _ _ _ _ Hc' Hc)|].
      apply Permutation_sym. unfold rsort. apply RelProofs.sort_by_perm.
    - (* Limit *) intros lim off c _ Hn. discriminate Hn.
    - (* MaterializationScan *) intros c IH Hn pth d en got want Hg Hw. exact (IH Hn _ _ _ _ _ Hg Hw).
  Qed.

  (* ---------------------------------------------------------------- the sort keys order rows like ORDER BY *)
  Lemma sint_enc z : in_range 64 z = true -> sint 8 (Z.to_N (z mod 2 ^ 64)) = z.
  Proof.
    unfold in_range. intros H. apply andb_true_iff in H. destruct H as [H1 H2].
    apply Z.leb_le in H1. apply Z.ltb_lt in H2.
    change (Z.of_N 64 - 1)%Z with 63%Z in *.
    unfold sint, top_bit, bitsw. change (8 * N.of_nat 8)%N with 64%N. change (64 - 1)%N with 63%N.
    destruct (Z_lt_le_dec z 0) as [Hneg|Hpos].
    - assert (E : (z mod 2 ^ 64 = z + 2 ^ 64)%Z).
      { symmetry. apply (Z.mod_unique z (2 ^ 64) (-1) (z + 2 ^ 64))%Z; lia. }
      rewrite E. assert (Hlt : (Z.to_N (z + 2 ^ 64) <? 2 ^ 63)%N = false).
      { apply N.ltb_ge. apply N2Z.inj_le. rewrite Z2N.id by lia. change (Z.of_N (2 ^ 63)) with (2 ^ 63)%Z. lia. }
      rewrite Hlt. rewrite Z2N.id by lia. change (Z.of_N 64) with 64%Z. lia.
    - assert (E : (z mod 2 ^ 64 = z)%Z) by (apply Z.mod_small; lia).
      rewrite E. assert (Hlt : (Z.to_N z <? 2 ^ 63)%N = true).
      { apply N.ltb_lt. apply N2Z.inj_lt. rewrite Z2N.id by lia. change (Z.of_N (2 ^ 63)) with (2 ^ 63)%Z. lia. }
      rewrite Hlt. apply Z2N.id. lia.
  Qed.

  Lemma col_cmp_enc kd desc nf v1 v2 : key_ok kd v1 = true -> key_ok kd v2 = true ->
    col_cmp (Build_kcol (kty_of_kind kd) desc nf) (enc_key v1) (enc_key v2) = key_cmp desc nf v1 v2.
  Proof.
    intros H1 H2. unfold col_cmp, key_cmp. cbn [k_nulls_first k_desc k_ty].
    destruct v1 as [|b1|z1|s1], v2 as [|b2|z2|s2]; cbn [enc_key]; try reflexivity;
      cbn [key_ok vkind] in H1, H2.
    - apply Nat.eqb_eq in H1. subst kd. cbn [kty_of_kind val_cmp val_compare]. destruct b1, b2; reflexivity.
    - apply Nat.eqb_eq in H1. apply andb_true_iff in H2. destruct H2 as [H2 _]. apply Nat.eqb_eq in H2. congruence.
    - apply Nat.eqb_eq in H1. apply Nat.eqb_eq in H2. congruence.
    - apply Nat.eqb_eq in H2. apply andb_true_iff in H1. destruct H1 as [H1 _]. apply Nat.eqb_eq in H1. congruence.
    - apply andb_true_iff in H1. destruct H1 as [Hk1 Hr1]. apply andb_true_iff in H2. destruct H2 as [_ Hr2].
      apply Nat.eqb_eq in Hk1. subst kd. cbn [kty_of_kind val_cmp val_compare].
      rewrite (sint_enc z1 Hr1), (sint_enc z2 Hr2). reflexivity.
    - apply Nat.eqb_eq in H2. apply andb_true_iff in H1. destruct H1 as [H1 _]. apply Nat.eqb_eq in H1. congruence.
    - apply Nat.eqb_eq in H1. apply Nat.eqb_eq in H2. congruence.
    - apply Nat.eqb_eq in H1. apply andb_true_iff in H2. destruct H2 as [H2 _]. apply Nat.eqb_eq in H2. congruence.
    - apply Nat.eqb_eq in H1. subst kd. cbn [kty_of_kind val_cmp val_compare]. reflexivity.
  Qed.

  Lemma row_cmp_enc (all : list (list value)) keys r1 r2 :
    (forall k, In k keys -> match k with (i, _, _) => key_ok (col_kind all i) (nth i r1 VNull) = true /\
                                                      key_ok (col_kind all i) (nth i r2 VNull) = true end) ->
    row_cmp (sort_cols all keys)
            (map (fun k => match k with (i, _, _) => enc_key (nth i r1 VNull) end) keys)
            (map (fun k => match k with (i, _, _) => enc_key (nth i r2 VNull) end) keys)
    = keys_cmp keys r1 r2.
  Proof.
    induction keys as [|[[i desc] nf] keys IH]; intros H; [reflexivity|].
    cbn [sort_cols map row_cmp keys_cmp]. destruct (H (i, desc, nf) (or_introl eq_refl)) as [H1 H2].
    rewrite (col_cmp_enc _ desc nf _ _ H1 H2).
    destruct (key_cmp desc nf (nth i r1 VNull) (nth i r2 VNull)); try reflexivity.
    apply IH. intros k Hk. apply H. right. exact Hk.
  Qed.

  Lemma Sorted_map_in {A B} (R : A -> A -> Prop) (R' : B -> B -> Prop) (f : A -> B) l :
    (forall a b, In a l -> In b l -> R a b -> R' (f a) (f b)) -> Sorted R l -> Sorted R' (map f l).
  Proof.
    intros H HS. induction HS as [|a l HS IH Hd]; [constructor|]. cbn [map]. constructor.
    - apply IH. intros x y Hx Hy. apply H; right; assumption.
    - destruct Hd as [|b l Hab]; [constructor|]. cbn [map]. constructor. apply H; [left; reflexivity|right; left; reflexivity|exact Hab].
  Qed.

  Lemma sort_sorted pth keys (parts : list (list (list value))) got :
    sort_typed_b (concat parts) keys = true ->
    mapM_o (row_of_srow (concat parts))
           (merge_tree (sort_cols (concat parts) keys)
              (tree_of pth (map (fun p => isort (sort_cols (concat parts) keys) (map (srow_of keys) p)) (number_parts 0 parts)))) = Ok got ->
    Permutation got (concat parts) /\ sorted_by keys got = true.
  Proof.
    intros Ht Hg. set (all := concat parts) in *. set (cs := sort_cols all keys) in *.
    destruct (sort_decode pth keys cs parts got Hg) as [HP [HS [HM Eg]]]. split; [exact HP|].
    apply sorted_by_Sorted. rewrite Eg.
    apply (Sorted_map_in (fun a b => sle cs a b = true)); [|exact HS].
    intros a b Ha Hb Hab.
    apply (Permutation_in a HM) in Ha. apply (Permutation_in b HM) in Hb.
    apply in_map_iff in Ha. destruct Ha as [[i1 r1] [<- Hi1]]. apply in_map_iff in Hb. destruct Hb as [[i2 r2] [<- Hi2]].
    destruct (In_combine_seq _ _ _ _ Hi1) as [Hn1 _]. destruct (In_combine_seq _ _ _ _ Hi2) as [Hn2 _].
    rewrite Nat.sub_0_r in Hn1, Hn2.
    pose proof (row_of_srow_of keys all i1 r1 Hn1) as E1. pose proof (row_of_srow_of keys all i2 r2 Hn2) as E2.
    cbv beta. unfold all in E1, E2. rewrite E1, E2. fold all.
    unfold sle, rle, srow_of in Hab. cbn [fst snd] in Hab. unfold keys_le.
    rewrite <- (row_cmp_enc all keys r1 r2); [exact Hab|].
    intros [[i desc] nf] Hk. unfold sort_typed_b in Ht. rewrite forallb_forall in Ht. specialize (Ht _ Hk). cbn beta iota in Ht.
    rewrite forallb_forall in Ht. split; apply Ht; eapply nth_error_In; eassumption.
  Qed.

  (* ---------------------------------------------------------------- composition with the planner and the judge *)
  Lemma sorted_by_nil l : sorted_by [] l = true.
  Proof. induction l as [|x [|y l] IH]; try reflexivity. cbn [sorted_by] in *. exact IH. Qed.

  Theorem end_to_end_unordered sch d q pth got want want' :
    db_arity_ok sch d = true -> joins_wf sch q = true -> is_order_limit q = false -> no_limit (plan_of q) = true ->
    eval_query d [] q = Ok want -> eval_lplan d [] (plan_of q) = Ok want' ->
    exec pth d [] (phys_of (plan_of q)) = Ok got ->
    check_answer d q got = VOk.
  Proof.
    intros Hd Hq Ho Hn Hs Hl Hp.
    pose proof (plan_of_correct_ok sch d q [] want want' Hd Hq Hs Hl) as E. subst want'.
    apply (check_answer_complete_unordered d q got want Ho Hs).
    apply Permutation_sym. exact (phys_refines_bag (plan_of q) Hn pth d [] got want Hp Hl).
  Qed.

  (* the input of ORDER BY [LIMIT]: sorted when there are keys *)
  Lemma order_stage pth d en keys p (S inp : list (list value)) :
    no_limit p = true -> eval_lplan d en p = Ok inp ->
    exec pth d en (phys_of (match keys with [] => p | _ :: _ => LOrder keys p end)) = Ok S ->
    Permutation S inp /\ sorted_by keys S = true.
  Proof.
    intros Hn Hl Hp. destruct keys as [|k0 keys].
    - split; [exact (phys_refines_bag p Hn pth d en S inp Hp Hl)|apply sorted_by_nil].
    - cbn [phys_of exec_pplan] in Hp. destruct (bind_ok _ _ _ Hp) as [rows' [Hc Hp1]].
      destruct (sort_typed_b (concat (map (@concat row) (deal pth 0 rows'))) (k0 :: keys)) eqn:Et; [|discriminate Hp1].
      destruct (sort_sorted pth (k0 :: keys) (map (@concat row) (deal pth 0 rows')) S Et Hp1) as [HP HS].
      split; [|exact HS]. eapply Permutation_trans; [exact HP|]. rewrite concat_map_concat.
      eapply Permutation_trans; [apply Hdeal|]. exact (phys_refines_bag p Hn (0 :: pth) d en rows' inp Hc Hl).
  Qed.

  Theorem end_to_end_ordered sch d q' keys lim off pth got inp inp' :
    db_arity_ok sch d = true -> joins_wf sch q' = true -> no_limit (plan_of q') = true ->
    eval_query d [] q' = Ok inp -> eval_lplan d [] (plan_of q') = Ok inp' ->
    exec pth d [] (phys_of (plan_of (QOrderLimit q' keys lim off))) = Ok got ->
    exists p, Permutation p inp /\ sorted_by keys p = true /\ got = slice_rows off lim p.
  Proof.
    intros Hd Hq Hn Hs Hl Hp.
    pose proof (plan_of_correct_ok sch d q' [] inp inp' Hd Hq Hs Hl) as E. subst inp'.
    change (plan_of (QOrderLimit q' keys lim off))
      with (let po := match keys with [] => plan_of q' | _ :: _ => LOrder keys (plan_of q') end in
            match lim, off with None, O => po | _, _ => LLimit lim off po end) in Hp.
    cbv zeta in Hp.
    destruct lim as [n|].
    - (* LIMIT n OFFSET off *)
      cbn [phys_of exec_pplan] in Hp. destruct (bind_ok _ _ _ Hp) as [S [HS Hp1]].
      destruct (order_stage (0 :: pth) d [] keys (plan_of q') S inp Hn Hl HS) as [HPS HSS].
      set (bs := match phys_of (match keys with [] => plan_of q' | _ :: _ => LOrder keys (plan_of q') end) with
                 | XSort _ _ => batching pth S
                 | _ => interleave (lsched pth) (deal pth 0 S)
                 end) in *.
      destruct (limit_slice_exact row n (Some off) bs) as [st [outs [ps [Hr Ho]]]]. rewrite Hr in Hp1. injection Hp1 as <-.
      exists (concat bs). split; [|split; [|exact Ho]].
      + destruct keys as [|k0 keys].
        * subst bs. destruct (phys_of (plan_of q')); try (eapply Permutation_trans; [apply Hlsched|]; eapply Permutation_trans; [apply Hdeal|exact HPS]).
          rewrite Hbatch. exact HPS.
        * subst bs. cbn [phys_of]. rewrite Hbatch. exact HPS.
      + destruct keys as [|k0 keys]; [apply sorted_by_nil|]. subst bs. cbn [phys_of]. rewrite Hbatch. exact HSS.
    - destruct off as [|off].
      + destruct (order_stage pth d [] keys (plan_of q') got inp Hn Hl Hp) as [HPS HSS].
        exists got. split; [exact HPS|split; [exact HSS|reflexivity]].
      + discriminate Hp.
  Qed.
End Refine.

(* ---------------------------------------------------------------- the hypotheses are satisfiable; a run *)

(* one partition, one batch; rows enter the join table in storage order; a left-deep merge tree *)
Definition ex_deal : list nat -> nat -> list row -> list (list (list row)) := fun _ _ rows => [[rows]].
Definition ex_batching : list nat -> list row -> list (list row) := fun _ rows => [rows].
Definition ex_tree : list nat -> list (list srow) -> mtree :=
  fun _ rs => fold_right (fun r t => Node (Run r) t) (Run []) rs.

Example oracle_hyps_sat :
  (forall pth i rows, Permutation (flat (ex_deal pth i rows)) rows) /\
  (forall pth i rows, ex_deal pth i rows <> []) /\
  (forall (pth : list nat) (l : list bptr), Permutation l l) /\
  hash_ok (fun _ => 0%N) /\
  (forall pth rs, Permutation (runs (ex_tree pth rs)) (concat rs) /\
     (forall cs, Forall (Sorted (fun a b => sle cs a b = true)) rs ->
                 all_runs (Sorted (fun a b => sle cs a b = true)) (ex_tree pth rs))) /\
  (forall pth rows, concat (ex_batching pth rows) = rows) /\
  (forall pth rows, Permutation (concat (interleave [0] (ex_deal pth 0 rows))) (flat (ex_deal pth 0 rows))).
Proof.
  repeat split.
  - intros pth i rows. unfold flat, ex_deal. cbn [concat app]. rewrite ?app_nil_r. cbn [concat app]. rewrite ?app_nil_r. apply Permutation_refl.
  - intros pth i rows. discriminate.
  - intros. apply Permutation_refl.
  - unfold ex_tree. induction rs as [|r rs IH]; cbn [fold_right runs concat]; [constructor|].
    apply Permutation_app_head. exact IH.
  - intros cs H. unfold ex_tree. induction H as [|r rs Hr _ IH]; cbn [fold_right all_runs]; [constructor|]. split; assumption.
  - intros pth rows. unfold ex_batching. cbn [concat]. apply app_nil_r.
  - intros pth rows. unfold ex_deal, flat. cbn. rewrite ?app_nil_r. apply Permutation_refl.
Qed.

(* the join + group + order + limit example of PlanProofs.v, executed *)
Example ex_q1_exec :
  no_limit (plan_of (QSelect (Some (FJoin JInner (FQuery (QTable 0)) (FQuery (QTable 1))
                      (Some (EAnd (ECmp CEq (ECol 0 0) (ECol 0 2)) (ECmp CGt (ECol 0 2) (EConst (VInt 0))))) 2 2))
             (Some (ECmp CGt (ECol 0 1) (EConst (VInt 1))))
             (Some ([ECol 0 0], [(ASum, false, ECol 0 1)]))
             None [ECol 0 0; ECol 0 1] false)) = true /\
  exec_pplan ex_deal ex_batching (fun _ l => l) (fun _ l => l) (fun _ => 0%N) 4%N 1 (fun _ => 0%N) 2 4 8
             ex_tree (fun _ => [0]) (fun _ _ => [UPush; UExec; UExec; UPush; UExec; UExec])
             [] ex_db [] (phys_of (plan_of ex_q1))
  = Ok [[VInt 2; VInt 25]; [VInt 1; VInt 10]].
Proof. split; vm_compute; reflexivity. Qed.

Example ex_q2_exec :
  no_limit (plan_of ex_q2) = true /\
  exec_pplan ex_deal ex_batching (fun _ l => l) (fun _ l => l) (fun _ => 0%N) 4%N 1 (fun _ => 0%N) 2 4 8
             ex_tree (fun _ => [0]) (fun _ _ => [UPush; UExec; UExec; UPush; UExec; UExec])
             [] ex_db [] (phys_of (plan_of ex_q2))
  = Ok [[VInt 10]; [VInt 20]; [VInt 5]].
Proof. split; vm_compute; reflexivity. Qed.

(* ---------------------------------------------------------------- the statements, with the oracle's side conditions bundled *)

(* what is assumed of the runtime's choices (see Section Refine): every row is delivered exactly once and there is at
   least one partition; insertion and drain orders are orders of the stored rows; equal keys hash equally; at least
   one drain / output partition and merge chunk; the merge queue merges every sorted run exactly once; the ordered
   stream is cut into batches without reordering; the limit operator sees every batch of every partition *)
Definition oracle_ok
    (deal : list nat -> nat -> list row -> list (list (list row)))
    (batching : list nat -> list row -> list (list row))
    (perm_b : list nat -> list bptr -> list bptr) (perm_l : list nat -> list lptr -> list lptr)
    (hash : list value -> N) (Pn pout chunk : nat)
    (tree_of : list nat -> list (list srow) -> mtree) (lsched : list nat -> list nat) : Prop :=
  (forall pth i rows, Permutation (flat (deal pth i rows)) rows) /\
  (forall pth i rows, deal pth i rows <> []) /\
  (forall pth l, Permutation (perm_b pth l) l) /\
  (forall pth l, Permutation (perm_l pth l) l) /\
  hash_ok hash /\ 1 <= Pn /\ 1 <= pout /\ 1 <= chunk /\
  (forall pth rs, Permutation (runs (tree_of pth rs)) (concat rs) /\
     (forall cs, Forall (Sorted (fun a b => sle cs a b = true)) rs ->
                 all_runs (Sorted (fun a b => sle cs a b = true)) (tree_of pth rs))) /\
  (forall pth rows, concat (batching pth rows) = rows) /\
  (forall pth rows, Permutation (concat (interleave (lsched pth) (deal pth 0 rows))) (flat (deal pth 0 rows))).

Section Bundled.
  Variables (deal : list nat -> nat -> list row -> list (list (list row)))
            (batching : list nat -> list row -> list (list row))
            (perm_b : list nat -> list bptr -> list bptr) (perm_l : list nat -> list lptr -> list lptr)
            (hash : list value -> N) (kbits : N) (Pn : nat) (hasha : row -> N) (pout capacity chunk : nat)
            (tree_of : list nat -> list (list srow) -> mtree) (lsched : list nat -> list nat)
            (usched : list nat -> nat -> list uevent).
  Hypothesis HO : oracle_ok deal batching perm_b perm_l hash Pn pout chunk tree_of lsched.
  Notation exec := (exec_pplan deal batching perm_b perm_l hash kbits Pn hasha pout capacity chunk tree_of lsched usched).

  Theorem phys_refines_logical : forall l, no_limit l = true ->
    forall pth d en got want,
    exec pth d en (phys_of l) = Ok got -> eval_lplan d en l = Ok want -> Permutation got want.
  Proof.
    destruct HO as (H1 & H2 & H3 & H4 & H5 & H6 & H7 & H8 & H9 & _ & _).
    exact (phys_refines_bag deal batching perm_b perm_l hash kbits Pn hasha pout capacity chunk tree_of lsched usched
             H1 H2 H3 H4 H5 H6 H7 H8 H9).
  Qed.

  Theorem end_to_end_unordered_b : forall sch d q pth got want want',
    db_arity_ok sch d = true -> joins_wf sch q = true -> is_order_limit q = false -> no_limit (plan_of q) = true ->
    eval_query d [] q = Ok want -> eval_lplan d [] (plan_of q) = Ok want' ->
    exec pth d [] (phys_of (plan_of q)) = Ok got ->
    check_answer d q got = VOk.
  Proof.
    destruct HO as (H1 & H2 & H3 & H4 & H5 & H6 & H7 & H8 & H9 & _ & _).
    exact (end_to_end_unordered deal batching perm_b perm_l hash kbits Pn hasha pout capacity chunk tree_of lsched usched
             H1 H2 H3 H4 H5 H6 H7 H8 H9).
  Qed.

  Theorem end_to_end_ordered_b : forall sch d q' keys lim off pth got inp inp',
    db_arity_ok sch d = true -> joins_wf sch q' = true -> no_limit (plan_of q') = true ->
    eval_query d [] q' = Ok inp -> eval_lplan d [] (plan_of q') = Ok inp' ->
    exec pth d [] (phys_of (plan_of (QOrderLimit q' keys lim off))) = Ok got ->
    exists p, Permutation p inp /\ sorted_by keys p = true /\ got = slice_rows off lim p.
  Proof.
    destruct HO as (H1 & H2 & H3 & H4 & H5 & H6 & H7 & H8 & H9 & H10 & H11).
    exact (end_to_end_ordered deal batching perm_b perm_l hash kbits Pn hasha pout capacity chunk tree_of lsched usched
             H1 H2 H3 H4 H5 H6 H7 H8 H9 H10 H11).
  Qed.
End Bundled.

Example oracle_ok_sat : oracle_ok ex_deal ex_batching (fun _ l => l) (fun _ l => l) (fun _ => 0%N) 1 2 8 ex_tree (fun _ => [0]).
Proof.
  destruct oracle_hyps_sat as (H1 & H2 & H3 & H5 & H9 & H10 & H11).
  unfold oracle_ok. split; [exact H1|]. split; [exact H2|]. split; [intros; apply Permutation_refl|].
  split; [intros; apply Permutation_refl|]. split; [exact H5|]. split; [lia|]. split; [lia|]. split; [lia|].
  split; [exact H9|]. split; [exact H10|exact H11].
Qed.


(* ================================================================ the judge is complete for ordered answers *)

Section OrderComplete.
  Variable keys : list (nat * bool * bool).
  Variable ty : nat -> kind.
  Let le (a b : Sql.row) : Prop := keys_le keys a b = true.
  Let wf := row_typed ty keys.
  Let keq := keys_eq keys.

  Lemma keq_refl a : keq a a.
  Proof. unfold keq, keys_eq. apply keys_cmp_refl. Qed.

  Lemma keq_sym a b : keq a b -> keq b a.
  Proof. unfold keq, keys_eq. intros H. rewrite keys_cmp_antisym, H. reflexivity. Qed.

  Lemma keq_trans a b c : wf a -> wf b -> wf c -> keq a b -> keq b c -> keq a c.
  Proof.
    unfold keq, keys_eq. intros Ha Hb Hc H1 H2. generalize (keys_cmp_ctrip ty keys a b c Ha Hb Hc).
    rewrite H1, H2. destruct (keys_cmp keys a c); cbn; congruence.
  Qed.

  Lemma le_le_keq a b : le a b -> le b a -> keq a b.
  Proof.
    unfold le, keq, keys_eq, keys_le. intros H1 H2. rewrite (keys_cmp_antisym keys a b) in H2.
    destruct (keys_cmp keys a b); cbn in *; try reflexivity; discriminate.
  Qed.

  Lemma le_refl a : le a a.
  Proof. unfold le. apply keys_le_refl. Qed.

  (* z, equivalent to x, in front; x moved behind a block of rows all equivalent to x *)
  Lemma keq_shift x b2 : forall b1 z a',
    wf x -> wf z -> Forall wf a' -> Forall (fun e => keq e x /\ wf e) b1 -> Forall wf b2 ->
    keq z x -> Forall2 keq a' (b1 ++ b2) -> Forall2 keq (z :: a') (b1 ++ x :: b2).
  Proof.
    induction b1 as [|e b1 IH]; intros z a' Hx Hz Ha Hb1 Hb2 Hzx H.
    - cbn [app] in *. constructor; [exact Hzx|exact H].
    - cbn [app] in *. inversion H as [|a0 e' a'' rest Ha0 Hrest]; subst.
      inversion Hb1 as [|e' b1' [Hex Hewf] Hb1']; subst. inversion Ha as [|a0' a''' Ha0wf Ha'']; subst.
      constructor.
      + apply (keq_trans z x e Hz Hx Hewf Hzx (keq_sym _ _ Hex)).
      + apply IH; try assumption. apply (keq_trans a0 e x Ha0wf Hewf Hx Ha0 Hex).
  Qed.

  Lemma sorted_perm_keq : forall a b, Forall wf a -> Permutation a b ->
    StronglySorted le a -> StronglySorted le b -> Forall2 keq a b.
  Proof.
    induction a as [|x a' IH]; intros b Hwf HP Sa Sb.
    - apply Permutation_nil in HP. subst. constructor.
    - assert (Hin : In x b) by (apply (Permutation_in x HP); left; reflexivity).
      destruct (in_split x b Hin) as [b1 [b2 ->]].
      pose proof (Permutation_cons_app_inv _ _ HP) as HP'.
      inversion Hwf as [|x' a'' Hx Hwa]; subst. inversion Sa as [|x' a'' Sa' Hxa]; subst.
      assert (Hwb : Forall wf (b1 ++ x :: b2)) by (eapply Permutation_Forall; [exact HP|exact Hwf]).
      apply Forall_app in Hwb. destruct Hwb as [Hwb1 Hwb2]. inversion Hwb2 as [|x' b2' _ Hwb2']; subst.
      destruct (SSorted_app_inv keys b1 (x :: b2) Sb) as (S1 & S2 & H12).
      inversion S2 as [|x' b2' S2' Hxb2]; subst.
      assert (S12 : StronglySorted le (b1 ++ b2)).
      { apply (SSorted_app keys); [exact S1|exact S2'|]. intros u v Hu Hv. apply H12; [exact Hu|right; exact Hv]. }
      pose proof (IH (b1 ++ b2) Hwa HP' Sa' S12) as HF.
      apply (keq_shift x b2 b1 x a' Hx Hx Hwa); [|exact Hwb2'|apply keq_refl|exact HF].
      apply Forall_forall. intros e He. rewrite Forall_forall in Hwb1. split; [|apply Hwb1, He].
      apply le_le_keq.
      + apply H12; [exact He|left; reflexivity].
      + assert (Hea : In e (x :: a')).
        { apply (Permutation_in e (Permutation_sym HP)). apply in_or_app. left. exact He. }
        destruct Hea as [<-|Hea]; [apply le_refl|]. rewrite Forall_forall in Hxa. apply Hxa, Hea.
  Qed.

  Lemma Forall2_same_keys a : forall b, Forall2 keq a b -> same_keys keys a b = true.
  Proof.
    induction a as [|x a IH]; intros b H; inversion H as [|x' y a' b' Hxy Hab]; subst; [reflexivity|].
    cbn [same_keys]. unfold keq, keys_eq in Hxy. rewrite Hxy. apply IH, Hab.
  Qed.

  Lemma Forall2_firstn {A B} (R : A -> B -> Prop) n : forall l l', Forall2 R l l' -> Forall2 R (firstn n l) (firstn n l').
  Proof.
    induction n as [|n IH]; intros l l' H; [constructor|]. inversion H; subst; [constructor|].
    cbn [firstn]. constructor; [assumption|apply IH; assumption].
  Qed.
  Lemma Forall2_skipn {A B} (R : A -> B -> Prop) n : forall l l', Forall2 R l l' -> Forall2 R (skipn n l) (skipn n l').
  Proof.
    induction n as [|n IH]; intros l l' H; [exact H|]. inversion H; subst; [constructor|].
    cbn [skipn]. apply IH; assumption.
  Qed.

  Theorem order_check_complete lim off inp p :
    Forall wf inp -> Permutation p inp -> sorted_by keys p = true ->
    order_check keys lim off inp (slice_rows off lim p) = true.
  Proof.
    intros Hwf HP HS. unfold order_check.
    assert (Hwp : Forall wf p) by (eapply Permutation_Forall; [apply Permutation_sym; exact HP|exact Hwf]).
    pose proof (SqlJudgeProofs.sort_by_perm keys inp) as Hsp. pose proof (sort_by_sorted keys inp) as Hss.
    assert (Hws : Forall wf (sort_by keys inp)) by (eapply Permutation_Forall; [apply Permutation_sym; exact Hsp|exact Hwf]).
    assert (HF : Forall2 keq (sort_by keys inp) p).
    { apply sorted_perm_keq; [exact Hws| |apply (Sorted_StronglySorted_typed keys ty); [exact Hws|apply sorted_by_Sorted; exact Hss]
                                         |apply (Sorted_StronglySorted_typed keys ty); [exact Hwp|apply sorted_by_Sorted; exact HS]].
      eapply Permutation_trans; [exact Hsp|apply Permutation_sym; exact HP]. }
    pose proof (Permutation_length HP) as Hl.
    apply andb_true_intro. split; [apply andb_true_intro; split; [apply andb_true_intro; split|]|].
    - destruct lim as [n|]; unfold slice_rows.
      + apply (sub_bagb_perm_prefix _ inp (skipn n (skipn off p) ++ firstn off p)).
        rewrite app_assoc, firstn_skipn.
        eapply perm_trans; [apply Permutation_sym, HP|].
        rewrite <- (firstn_skipn off p) at 1. apply Permutation_app_comm.
      + apply (sub_bagb_perm_prefix _ inp (firstn off p)).
        eapply perm_trans; [apply Permutation_sym, HP|].
        rewrite <- (firstn_skipn off p) at 1. apply Permutation_app_comm.
    - destruct lim as [n|]; unfold slice_rows;
        [apply sorted_by_firstn, sorted_by_skipn, HS|apply sorted_by_skipn, HS].
    - apply Forall2_same_keys. destruct lim as [n|]; unfold slice_rows.
      + apply Forall2_firstn, Forall2_skipn, HF.
      + apply Forall2_skipn, HF.
    - destruct lim as [n|]; [reflexivity|]. unfold slice_rows. rewrite skipn_length, Hl. apply Nat.eqb_refl.
  Qed.
End OrderComplete.

Section BundledJudge.
  Variables (deal : list nat -> nat -> list row -> list (list (list row)))
            (batching : list nat -> list row -> list (list row))
            (perm_b : list nat -> list bptr -> list bptr) (perm_l : list nat -> list lptr -> list lptr)
            (hash : list value -> N) (kbits : N) (Pn : nat) (hasha : row -> N) (pout capacity chunk : nat)
            (tree_of : list nat -> list (list srow) -> mtree) (lsched : list nat -> list nat)
            (usched : list nat -> nat -> list uevent).
  Hypothesis HO : oracle_ok deal batching perm_b perm_l hash Pn pout chunk tree_of lsched.
  Notation exec := (exec_pplan deal batching perm_b perm_l hash kbits Pn hasha pout capacity chunk tree_of lsched usched).

  (* ORDER BY [LIMIT [OFFSET]] at the top, key columns of one kind each: the judge accepts the physical answer *)
  Theorem end_to_end_ordered_judge : forall ty sch d q' keys lim off pth got inp inp',
    db_arity_ok sch d = true -> joins_wf sch q' = true -> no_limit (plan_of q') = true ->
    eval_query d [] q' = Ok inp -> eval_lplan d [] (plan_of q') = Ok inp' ->
    Forall (row_typed ty keys) inp ->
    exec pth d [] (phys_of (plan_of (QOrderLimit q' keys lim off))) = Ok got ->
    check_answer d (QOrderLimit q' keys lim off) got = VOk.
  Proof.
    intros ty sch d q' keys lim off pth got inp inp' Hd Hq Hn Hs Hl Hty Hp.
    destruct (end_to_end_ordered_b deal batching perm_b perm_l hash kbits Pn hasha pout capacity chunk tree_of lsched usched HO
                sch d q' keys lim off pth got inp inp' Hd Hq Hn Hs Hl Hp) as [p [HP [HS ->]]].
    rewrite check_answer_ordered_unfold, Hs.
    rewrite (order_check_complete keys ty lim off inp p Hty HP HS). reflexivity.
  Qed.
End BundledJudge.

(* the ordered example satisfies the typing hypothesis *)
Example ex_q1_typed :
  Forall (row_typed (fun _ => KdInt) [(0, true, true)]) [[VInt 1; VInt 10]; [VInt 2; VInt 25]].
Proof. repeat constructor. Qed.
