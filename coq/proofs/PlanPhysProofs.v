(* C01 (composition), part 3: physical plans (model/Plan.v, exec_pplan) refine logical plans, for every
   distribution of the rows over partitions and batches and every order the runtime may choose; composition
   with the planner theorem of proofs/PlanProofs.v and with the judge (proofs/SqlJudgeProofs.v).
   The operator-level facts are those of C03/C06/C07/C08, used as lemmas. *)
From Coq Require Import NArith ZArith List Bool Lia Permutation Btauto Sorted.
From GV Require Import lib.Bytes model.Sql model.Rel model.Plan.
From GV Require Import model.SortKey model.SortSpec model.Merge model.LimitOp model.HashJoin model.NlJoin
  model.AggState model.AggTable.
From GV Require Import proofs.RelProofs proofs.PlanProofs.
From GV Require Import proofs.JoinSpecProofs proofs.HashJoinProofs proofs.AggProofs proofs.AggTableProofs
  proofs.LimitOpProofs proofs.MergeProofs proofs.SortSpecProofs proofs.SqlJudgeProofs.
Import ListNotations.
Local Open Scope nat_scope.

(* ================================================================ Part 3: physical plans refine logical plans *)

(* induction over the plan children of a logical plan (expressions are not entered) *)
Section LplanInd.
  Variable P : lplan -> Prop.
  Hypotheses
    (HScan : forall t, P (LScan t)) (HSingle : P LSingleRow) (HExprList : forall rows, P (LExprList rows))
    (HFilter : forall e c, P c -> P (LFilter e c)) (HProject : forall es c, P c -> P (LProject es c))
    (HProjectAll : forall c, P c -> P (LProjectAll c))
    (HCross : forall l r, P l -> P r -> P (LCrossJoin l r))
    (HArb : forall k c la ra l r, P l -> P r -> P (LArbitraryJoin k c la ra l r))
    (HCmp : forall k cs la ra l r, P l -> P r -> P (LComparisonJoin k cs la ra l r))
    (HDep : forall k on ra l r, P l -> P r -> P (LDependentJoin k on ra l r))
    (HAgg : forall keys aggs c, P c -> P (LAggregate keys aggs c))
    (HDistinct : forall c, P c -> P (LDistinct c))
    (HSetop : forall all l r, P l -> P r -> P (LSetop all l r))
    (HOrder : forall keys c, P c -> P (LOrder keys c))
    (HLimit : forall lim off c, P c -> P (LLimit lim off c))
    (HMat : forall c, P c -> P (LMaterializationScan c)).
  Fixpoint lplan_ind2 (p : lplan) : P p :=
    match p as p0 return P p0 with
    | LScan t => HScan t | LSingleRow => HSingle | LExprList rows => HExprList rows
    | LFilter e c => HFilter e c (lplan_ind2 c) | LProject es c => HProject es c (lplan_ind2 c)
    | LProjectAll c => HProjectAll c (lplan_ind2 c)
    | LCrossJoin l r => HCross l r (lplan_ind2 l) (lplan_ind2 r)
    | LArbitraryJoin k c la ra l r => HArb k c la ra l r (lplan_ind2 l) (lplan_ind2 r)
    | LComparisonJoin k cs la ra l r => HCmp k cs la ra l r (lplan_ind2 l) (lplan_ind2 r)
    | LDependentJoin k on ra l r => HDep k on ra l r (lplan_ind2 l) (lplan_ind2 r)
    | LAggregate keys aggs c => HAgg keys aggs c (lplan_ind2 c)
    | LDistinct c => HDistinct c (lplan_ind2 c)
    | LSetop all l r => HSetop all l r (lplan_ind2 l) (lplan_ind2 r)
    | LOrder keys c => HOrder keys c (lplan_ind2 c)
    | LLimit lim off c => HLimit lim off c (lplan_ind2 c)
    | LMaterializationScan c => HMat c (lplan_ind2 c)
    end.
End LplanInd.

(* ---------------------------------------------------------------- filter, project on a permuted input *)

Lemma rfilter_perm p (a b out out' : list (list value)) :
  Permutation a b -> rfilter p a = Ok out -> rfilter p b = Ok out' -> Permutation out out'.
Proof.
  intros HP Ha Hb. apply rfilter_ok in Ha. apply rfilter_ok in Hb. destruct Ha as [_ ->], Hb as [_ ->].
  unfold pfilter. apply RelProofs.filter_perm. exact HP.
Qed.

Lemma rproject_perm f (a b out out' : list (list value)) :
  Permutation a b -> rproject f a = Ok out -> rproject f b = Ok out' -> Permutation out out'.
Proof.
  unfold rproject. intros HP Ha Hb.
  rewrite (mapM_ok_map f [] _ _ Ha), (mapM_ok_map f [] _ _ Hb). apply Permutation_map. exact HP.
Qed.

(* ---------------------------------------------------------------- joins *)

Lemma pure_join_ext_in k L R la ra (p q : row -> row -> bool) :
  (forall l r, In l L -> In r R -> p l r = q l r) -> pure_join k L R la ra p = pure_join k L R la ra q.
Proof.
  intros H.
  assert (Hr : forall l, In l L -> rmatches p l R = rmatches q l R).
  { intros l Hl. unfold rmatches. apply filter_ext_in. intros r Hr. apply H; assumption. }
  assert (Hl : forall r, In r R -> lmatches p L r = lmatches q L r).
  { intros r Hr0. unfold lmatches. apply filter_ext_in. intros l Hl. apply H; assumption. }
  assert (He : forall l, In l L -> existsb (p l) R = existsb (q l) R).
  { intros l Hl0. clear Hr Hl. induction R as [|r R IH]; [reflexivity|]. cbn [existsb].
    rewrite (H l r Hl0 (or_introl eq_refl)), IH; [reflexivity|]. intros l' r' Hl' Hr'. apply H; [exact Hl'|right; exact Hr']. }
  destruct k; cbn [pure_join].
  - apply flat_map_ext_in. intros l Hl0. rewrite (Hr l Hl0). reflexivity.
  - apply flat_map_ext_in. intros l Hl0. rewrite (Hr l Hl0). reflexivity.
  - apply flat_map_ext_in. intros l Hl0. rewrite (Hr l Hl0). reflexivity.
  - apply flat_map_ext_in. intros r Hr0. rewrite (Hl r Hr0). reflexivity.
  - apply filter_ext_in. intros l Hl0. apply He, Hl0.
  - apply filter_ext_in. intros l Hl0. cbn beta. f_equal. apply He, Hl0.
Qed.

(* the declarative join with a two-argument condition: Ok = every pair evaluated, result = the pure join *)
Lemma join2_ok k L R la ra (on2 : row -> row -> res bool) out :
  join2 k L R la ra on2 = Ok out ->
  (forall l r, In l L -> In r R -> exists b, on2 l r = Ok b) /\
  out = pure_join k L R la ra (fun l r => unres false (on2 l r)).
Proof.
  intros H.
  assert (Ht : forall l r, In l L -> In r R -> exists b, on2 l r = Ok b).
  { intros l r Hl Hr. unfold join2 in H. destruct k.
    - destruct (bind_ok _ _ _ H) as [parts [Hm _]]. destruct (mapM_ok_total _ _ _ Hm l Hl) as [y Hy].
      destruct (bind_ok _ _ _ Hy) as [ms [Hm2 _]]. destruct (mapM_ok_total _ _ _ Hm2 r Hr) as [z Hz].
      destruct (on2 l r); [eauto|discriminate].
    - destruct (bind_ok _ _ _ H) as [parts [Hm _]]. destruct (mapM_ok_total _ _ _ Hm l Hl) as [y Hy].
      destruct (bind_ok _ _ _ Hy) as [ms [Hm2 _]]. destruct (mapM_ok_total _ _ _ Hm2 r Hr) as [z Hz].
      destruct (on2 l r); [eauto|discriminate].
    - destruct (bind_ok _ _ _ H) as [parts [Hm _]]. destruct (mapM_ok_total _ _ _ Hm l Hl) as [y Hy].
      destruct (bind_ok _ _ _ Hy) as [ms [Hm2 _]]. destruct (mapM_ok_total _ _ _ Hm2 r Hr) as [z Hz].
      destruct (on2 l r); [eauto|discriminate].
    - destruct (bind_ok _ _ _ H) as [parts [Hm _]]. destruct (mapM_ok_total _ _ _ Hm r Hr) as [y Hy].
      destruct (bind_ok _ _ _ Hy) as [ms [Hm2 _]]. destruct (mapM_ok_total _ _ _ Hm2 l Hl) as [z Hz].
      destruct (on2 l r); [eauto|discriminate].
    - destruct (bind_ok _ _ _ H) as [parts [Hm _]]. destruct (mapM_ok_total _ _ _ Hm l Hl) as [y Hy].
      destruct (bind_ok _ _ _ Hy) as [ms [Hm2 _]]. destruct (mapM_ok_total _ _ _ Hm2 r Hr) as [z Hz]. eauto.
    - destruct (bind_ok _ _ _ H) as [parts [Hm _]]. destruct (mapM_ok_total _ _ _ Hm l Hl) as [y Hy].
      destruct (bind_ok _ _ _ Hy) as [ms [Hm2 _]]. destruct (mapM_ok_total _ _ _ Hm2 r Hr) as [z Hz]. eauto. }
  split; [exact Ht|].
  (* through join_rows: the condition of join_rows on l ++ r cannot see l and r, so go through a lookup-free route:
     join2 is join_rows' text with on2 l r for on (l ++ r); reuse join_rows_pure on an instance where they agree *)
  set (f := fun l r => unres false (on2 l r)).
  assert (Hon : forall l r, In l L -> In r R -> on2 l r = Ok (f l r)).
  { intros l r Hl Hr. destruct (Ht l r Hl Hr) as [b Hb]. unfold f. rewrite Hb. reflexivity. }
  assert (Hin : forall l, In l L ->
     (do ms <- mapM (fun r => do b <- on2 l r; Ok (if b then [l ++ r] else [])) R; Ok (concat ms))
     = Ok (map (fun r => l ++ r) (rmatches f l R))).
  { intros l Hl. rewrite (mapM_pure _ (fun r : row => if f l r then [l ++ r] else @nil row)).
    - cbn [bind]. rewrite concat_map_if. reflexivity.
    - intros r Hr. rewrite (Hon l r Hl Hr). reflexivity. }
  assert (Hsemi : forall l, In l L -> mapM (fun r => on2 l r) R = Ok (map (f l) R)).
  { intros l Hl. apply mapM_pure. intros r Hr. apply Hon; assumption. }
  assert (E : join2 k L R la ra on2 = Ok (pure_join k L R la ra f)).
  { destruct k; unfold join2, pure_join.
    - rewrite (mapM_pure _ (fun l => map (fun r => l ++ r) (rmatches f l R))) by exact Hin.
      cbn [bind]. rewrite flat_map_concat_map. reflexivity.
    - rewrite (mapM_pure _ (fun l => map (fun r => l ++ r) (rmatches f l R))) by exact Hin.
      cbn [bind]. rewrite flat_map_concat_map. reflexivity.
    - rewrite (mapM_pure _ (fun l => or_pad (map (fun r => l ++ r) (rmatches f l R)) (l ++ nulls ra))).
      + cbn [bind]. rewrite flat_map_concat_map. reflexivity.
      + intros l Hl. pose proof (Hin l Hl) as E1.
        destruct (mapM (fun r => do b <- on2 l r; Ok (if b then [l ++ r] else [])) R) as [ms|e]; cbn [bind] in *; [|discriminate].
        injection E1 as E1. rewrite E1. reflexivity.
    - rewrite (mapM_pure _ (fun r => or_pad (map (fun l => l ++ r) (lmatches f L r)) (nulls la ++ r))).
      + cbn [bind]. rewrite flat_map_concat_map. reflexivity.
      + intros r Hr.
        rewrite (mapM_pure _ (fun l : row => if f l r then [l ++ r] else @nil row)).
        * cbn [bind]. rewrite concat_map_if. reflexivity.
        * intros l Hl. rewrite (Hon l r Hl Hr). reflexivity.
    - rewrite (mapM_pure _ (fun l => if existsb (f l) R then [l] else [])).
      + cbn [bind]. rewrite concat_map_if, map_id. reflexivity.
      + intros l Hl. rewrite (Hsemi l Hl). cbn [bind]. rewrite existsb_id_map. reflexivity.
    - rewrite (mapM_pure _ (fun l => if negb (existsb (f l) R) then [l] else [])).
      + cbn [bind]. rewrite concat_map_if, map_id. reflexivity.
      + intros l Hl. rewrite (Hsemi l Hl). cbn [bind]. rewrite existsb_id_map.
        destruct (existsb (f l) R); reflexivity. }
  rewrite E in H. injection H as <-. reflexivity.
Qed.

Lemma rcross_pure (L R : list (list value)) la ra : rcross L R = pure_join JInner L R la ra (fun _ _ => true).
Proof.
  unfold rcross. cbn [pure_join]. apply flat_map_ext. intros l. unfold rmatches. rewrite filter_true. reflexivity.
Qed.

Lemma rjoin_ok_pure k (L R : list (list value)) la ra on want :
  rjoin k L R la ra on = Ok want ->
  (forall l r, In l L -> In r R -> exists b, on (l ++ r) = Ok b) /\
  want = pure_join k L R la ra (fun l r => unres false (on (l ++ r))).
Proof.
  intros H. pose proof (rjoin_ok _ _ _ _ _ _ _ H) as [Ht _]. split; [exact Ht|].
  unfold rjoin in H. rewrite (join_rows_pure k L R la ra on (fun l r => unres false (on (l ++ r)))) in H.
  - congruence.
  - intros l r Hl Hr. destruct (Ht l r Hl Hr) as [b Hb]. rewrite Hb. reflexivity.
Qed.

Lemma spec_kind_n k nk : nkind_of k = Some nk -> forall L R la ra p,
  pure_h (kind_of_n nk) L R la ra p = pure_join k L R la ra p.
Proof. destruct k; cbn; intros H; inversion H; subst; reflexivity. Qed.

Lemma spec_kind_h k hk : hkind_of k = Some hk -> forall L R la ra p,
  pure_h hk L R la ra p = pure_join k L R la ra p.
Proof. destruct k; cbn; intros H; inversion H; subst; reflexivity. Qed.

(* a comparison condition list with only plain comparison operators *)
Lemma cmp_conds_some conds cs : cmp_conds conds = Some cs ->
  conds = map (fun c => match c with (op, a, b) => (JOp op, a, b) end) cs.
Proof.
  revert cs. induction conds as [|[[o a] b] conds IH]; intros cs H.
  - cbn in H. injection H as <-. reflexivity.
  - cbn [cmp_conds fold_right] in H. fold (cmp_conds conds) in H.
    destruct o as [op|neg]; [|discriminate]. destruct (cmp_conds conds) as [l|]; [|discriminate].
    injection H as <-. cbn [map]. rewrite (IH l eq_refl). reflexivity.
Qed.

Lemma all_true_cons b bs : all_true (b :: bs) = b && all_true bs.
Proof. reflexivity. Qed.

(* evaluating the conditions = the row matcher on the evaluated key columns *)
Lemma conds_eval_match d en (cs : list (cmpop * pexpr * pexpr)) x y t :
  eval_conds d en (map (fun c => match c with (op, a, b) => (JOp op, a, b) end) cs) x y = Ok t ->
  t = conds_match (map (fun c => match c with (op, _, _) => op end) cs)
        (unres [] (mapM (fun c => match c with (_, a, _) => eval_pexpr d (x :: en) a end) cs))
        (unres [] (mapM (fun c => match c with (_, _, b) => eval_pexpr d (y :: en) b end) cs)).
Proof.
  unfold eval_conds. revert t. induction cs as [|[[op a] b] cs IH]; intros t H.
  - cbn in H. injection H as <-. reflexivity.
  - cbn [map] in *. rewrite mapM_cons in H. destruct (bind_ok _ _ _ H) as [bs [Hm Ht]]. injection Ht as <-.
    destruct (bind_ok _ _ _ Hm) as [b0 [Hb0 Hm1]]. destruct (bind_ok _ _ _ Hm1) as [bs' [Hbs' Hcons]]. injection Hcons as <-.
    destruct (bind_ok _ _ _ Hb0) as [u [Hu Hb1]]. destruct (bind_ok _ _ _ Hb1) as [v [Hv Hj]].
    rewrite !mapM_cons, Hu, Hv. cbn [bind].
    assert (IH' := IH (all_true bs')). rewrite Hbs' in IH'. cbn [bind] in IH'. specialize (IH' eq_refl).
    destruct (mapM (fun c => match c with (_, a0, _) => eval_pexpr d (x :: en) a0 end) cs) as [us|e1] eqn:E1;
    destruct (mapM (fun c => match c with (_, _, b1) => eval_pexpr d (y :: en) b1 end) cs) as [vs|e2] eqn:E2;
      cbn [bind unres] in *.
    + cbn [conds_match]. rewrite all_true_cons, IH'. f_equal.
      unfold jop_holds in Hj. unfold cmp_true. destruct (cmp3 op u v) as [w|e]; cbn [bind] in Hj; [|discriminate].
      destruct w as [|[|]| |]; cbn in Hj; try discriminate Hj; injection Hj as <-; reflexivity.
    + exfalso. clear - Hbs' E2. 
      assert (X : forall l, mapM (fun c : jop * pexpr * pexpr => let (y0, b) := c in let (o, a) := y0 in
                    do u <- eval_pexpr d (x :: en) a; do v <- eval_pexpr d (y :: en) b; jop_holds o u v)
                    (map (fun c : cmpop * pexpr * pexpr => let (y0, b) := c in let (op, a) := y0 in (JOp op, a, b)) l) = Ok bs' ->
                  exists vs, mapM (fun c : cmpop * pexpr * pexpr => let (y0, b1) := c in let (_, _) := y0 in eval_pexpr d (y :: en) b1) l = Ok vs) .
      { clear. intros l. revert bs'. induction l as [|[[op a] b] l IH]; intros bs' H; [eexists; reflexivity|].
        cbn [map] in H. rewrite mapM_cons in H. destruct (bind_ok _ _ _ H) as [b0 [Hb0 H1]].
        destruct (bind_ok _ _ _ H1) as [bs2 [H2 _]]. destruct (bind_ok _ _ _ Hb0) as [u [Hu H3]]. destruct (bind_ok _ _ _ H3) as [v [Hv _]].
        destruct (IH _ H2) as [vs Hvs]. rewrite mapM_cons, Hv, Hvs. eexists. reflexivity. }
      destruct (X cs Hbs') as [vs Hvs]. congruence.
    + exfalso. clear - Hbs' E1.
      assert (X : forall l, mapM (fun c : jop * pexpr * pexpr => let (y0, b) := c in let (o, a) := y0 in
                    do u <- eval_pexpr d (x :: en) a; do v <- eval_pexpr d (y :: en) b; jop_holds o u v)
                    (map (fun c : cmpop * pexpr * pexpr => let (y0, b) := c in let (op, a) := y0 in (JOp op, a, b)) l) = Ok bs' ->
                  exists us, mapM (fun c : cmpop * pexpr * pexpr => let (y0, _) := c in let (_, a0) := y0 in eval_pexpr d (x :: en) a0) l = Ok us).
      { clear. intros l. revert bs'. induction l as [|[[op a] b] l IH]; intros bs' H; [eexists; reflexivity|].
        cbn [map] in H. rewrite mapM_cons in H. destruct (bind_ok _ _ _ H) as [b0 [Hb0 H1]].
        destruct (bind_ok _ _ _ H1) as [bs2 [H2 _]]. destruct (bind_ok _ _ _ Hb0) as [u [Hu H3]].
        destruct (IH _ H2) as [us Hus]. rewrite mapM_cons, Hu, Hus. eexists. reflexivity. }
      destruct (X cs Hbs') as [us Hus]. congruence.
    + exfalso. clear - Hbs' E1.
      assert (X : forall l, mapM (fun c : jop * pexpr * pexpr => let (y0, b) := c in let (o, a) := y0 in
                    do u <- eval_pexpr d (x :: en) a; do v <- eval_pexpr d (y :: en) b; jop_holds o u v)
                    (map (fun c : cmpop * pexpr * pexpr => let (y0, b) := c in let (op, a) := y0 in (JOp op, a, b)) l) = Ok bs' ->
                  exists us, mapM (fun c : cmpop * pexpr * pexpr => let (y0, _) := c in let (_, a0) := y0 in eval_pexpr d (x :: en) a0) l = Ok us).
      { clear. intros l. revert bs'. induction l as [|[[op a] b] l IH]; intros bs' H; [eexists; reflexivity|].
        cbn [map] in H. rewrite mapM_cons in H. destruct (bind_ok _ _ _ H) as [b0 [Hb0 H1]].
        destruct (bind_ok _ _ _ H1) as [bs2 [H2 _]]. destruct (bind_ok _ _ _ Hb0) as [u [Hu H3]].
        destruct (IH _ H2) as [us Hus]. rewrite mapM_cons, Hu, Hus. eexists. reflexivity. }
      destruct (X cs Hbs') as [us Hus]. congruence.
Qed.

(* ---------------------------------------------------------------- aggregates *)

Lemma agg_wt_b_wt f vs : agg_wt_b f vs = true -> wt f vs.
Proof.
  unfold agg_wt_b, wt. destruct f.
  - intros _. exists 0. apply Forall_forall. intros v _. destruct v; [left; reflexivity|right; exact I..].
  - intros _. exists 0. apply Forall_forall. intros v _. destruct v; [left; reflexivity|right; exact I..].
  - intros H. exists 0. apply Forall_forall. intros v Hv. rewrite forallb_forall in H. specialize (H v Hv).
    destruct v; try discriminate; [left; reflexivity|right; exact H].
  - destruct (filter (fun v => negb (Nat.eqb (vkind v) 0)) vs) as [|v0 rest] eqn:E.
    + intros _. exists 0. apply Forall_forall. intros v Hv. left.
      destruct v; try reflexivity; exfalso;
        (assert (Hin : In _ (filter (fun v => negb (Nat.eqb (vkind v) 0)) vs)) by (apply filter_In; split; [exact Hv|reflexivity]));
        rewrite E in Hin; destruct Hin.
    + intros H. exists (AggProofs.kind v0). apply Forall_forall. intros v Hv. rewrite forallb_forall in H. specialize (H v Hv).
      apply orb_true_iff in H. destruct H as [H|H]; apply Nat.eqb_eq in H.
      * left. destruct v; try discriminate; reflexivity.
      * right. cbn. destruct v, v0; cbn in *; congruence.
  - destruct (filter (fun v => negb (Nat.eqb (vkind v) 0)) vs) as [|v0 rest] eqn:E.
    + intros _. exists 0. apply Forall_forall. intros v Hv. left.
      destruct v; try reflexivity; exfalso;
        (assert (Hin : In _ (filter (fun v => negb (Nat.eqb (vkind v) 0)) vs)) by (apply filter_In; split; [exact Hv|reflexivity]));
        rewrite E in Hin; destruct Hin.
    + intros H. exists (AggProofs.kind v0). apply Forall_forall. intros v Hv. rewrite forallb_forall in H. specialize (H v Hv).
      apply orb_true_iff in H. destruct H as [H|H]; apply Nat.eqb_eq in H.
      * left. destruct v; try discriminate; reflexivity.
      * right. cbn. destruct v, v0; cbn in *; congruence.
  - intros H. exists 0. apply Forall_forall. intros v Hv. rewrite forallb_forall in H. specialize (H v Hv).
    destruct v; try discriminate; [left; reflexivity|right; exact I].
  - intros H. exists 0. apply Forall_forall. intros v Hv. rewrite forallb_forall in H. specialize (H v Hv).
    destruct v; try discriminate; [left; reflexivity|right; exact I].
Qed.

(* grouping commutes with a map over the grouped values *)
Lemma group_insert_map (g : row -> row) k r (gs : list (row * list row)) :
  group_insert k (g r) (map (fun x => (fst x, map g (snd x))) gs)
  = map (fun x => (fst x, map g (snd x))) (group_insert k r gs).
Proof.
  induction gs as [|[k' rs] gs IH]; [reflexivity|]. cbn [map group_insert fst snd].
  destruct (row_same k k'); cbn [map fst snd]; [rewrite map_app; reflexivity|rewrite IH; reflexivity].
Qed.

Lemma group_rows_map (g : row -> row) (kv : list (row * row)) :
  group_rows (map (fun p => (fst p, g (snd p))) kv) = map (fun x => (fst x, map g (snd x))) (group_rows kv).
Proof.
  unfold group_rows.
  assert (H : forall acc, fold_left (fun gs p => group_insert (fst p) (snd p) gs) (map (fun p => (fst p, g (snd p))) kv)
                                    (map (fun x => (fst x, map g (snd x))) acc)
                          = map (fun x => (fst x, map g (snd x))) (fold_left (fun gs p => group_insert (fst p) (snd p) gs) kv acc)).
  { induction kv as [|[k r] kv IH]; intros acc; [reflexivity|]. cbn [map fold_left fst snd].
    rewrite <- (IH (group_insert k r acc)). f_equal. apply group_insert_map. }
  exact (H []).
Qed.

Lemma filter_concat {A} (p : A -> bool) (ls : list (list A)) : filter p (concat ls) = concat (map (filter p) ls).
Proof. induction ls as [|l ls IH]; [reflexivity|]. cbn. rewrite filter_app, IH. reflexivity. Qed.

Lemma nth_error_indexed {A} (l : list A) : forall s i x, nth_error (indexed s l) i = Some x ->
  fst x = s + i /\ nth_error l i = Some (snd x).
Proof.
  induction l as [|a l IH]; intros s [|i] x H; cbn in H; try discriminate.
  - injection H as <-. cbn. split; [lia|reflexivity].
  - destruct (IH _ _ _ H) as [H1 H2]. split; [lia|exact H2].
Qed.

Lemma In_indexed {A} (l : list A) s i a : In (i, a) (indexed s l) -> s <= i /\ nth_error l (i - s) = Some a.
Proof.
  revert s. induction l as [|x l IH]; intros s H; [destruct H|]. cbn in H. destruct H as [H|H].
  - injection H as <- <-. rewrite Nat.sub_diag. split; [lia|reflexivity].
  - destruct (IH _ H) as [H1 H2]. split; [lia|]. replace (i - s) with (S (i - S s)) by lia. exact H2.
Qed.

Lemma mapM_nth {A B} (f : A -> res B) : forall l ys i a, mapM f l = Ok ys -> nth_error l i = Some a ->
  exists y, nth_error ys i = Some y /\ f a = Ok y.
Proof.
  induction l as [|x l IH]; intros ys i a H Hn; [destruct i; discriminate|].
  rewrite mapM_cons in H. destruct (bind_ok _ _ _ H) as [y [Hy H1]]. destruct (bind_ok _ _ _ H1) as [ys' [H2 H3]].
  injection H3 as <-. destruct i as [|i]; cbn in Hn.
  - injection Hn as <-. exists y. split; [reflexivity|exact Hy].
  - destruct (IH _ _ _ H2 Hn) as [y' [Hy' Hf]]. exists y'. split; [exact Hy'|exact Hf].
Qed.

Lemma mapM_indexed_ext {A B} (f : nat * A -> res B) (g : A -> res B) (l : list A) s ys zs :
  mapM f (indexed s l) = Ok ys -> mapM g l = Ok zs ->
  (forall i a y z, nth_error l i = Some a -> f (s + i, a) = Ok y -> g a = Ok z -> y = z) -> ys = zs.
Proof.
  revert s ys zs. induction l as [|a l IH]; intros s ys zs Hf Hg H.
  - cbn in Hf, Hg. congruence.
  - cbn [indexed] in Hf. rewrite mapM_cons in Hf. rewrite mapM_cons in Hg.
    destruct (bind_ok _ _ _ Hf) as [y [Hy H1]]. destruct (bind_ok _ _ _ H1) as [ys' [H2 H3]]. injection H3 as <-.
    destruct (bind_ok _ _ _ Hg) as [z [Hz G1]]. destruct (bind_ok _ _ _ G1) as [zs' [G2 G3]]. injection G3 as <-.
    f_equal.
    + apply (H 0 a y z eq_refl); [rewrite Nat.add_0_r; exact Hy|exact Hz].
    + apply (IH (S s) ys' zs' H2 G2). intros i a' y' z' Hn Hfy Hgz. apply (H (S i) a' y' z' Hn); [|exact Hgz].
      replace (s + S i) with (S s + i) by lia. exact Hfy.
Qed.
