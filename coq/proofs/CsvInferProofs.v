(* C17 — proofs about model/CsvInfer.v: what one update guarantees, the header decision, and the closed
   regression witness about the code before the repair (Boolean words are not valid Int64/Float64, so the
   candidate chain alone is not a join).  The lattice theorems are in CsvInferLattice.v. *)
From Coq Require Import NArith ZArith List Bool Arith Lia Permutation.
From GV Require Import model.Csv model.CsvInfer.
Import ListNotations.

(* the candidate after an update accepts the value just seen *)
Lemma update_valid : forall c f, f <> [] -> is_valid (update c f) f = true.
Proof.
  intros c f Hf. destruct f as [|b f]; [contradiction|].
  unfold update. destruct c; cbn [is_valid];
    repeat match goal with
           | |- context [if ?b then _ else _] => destruct b eqn:?
           end; cbn [is_valid]; try reflexivity; try assumption.
Qed.

(* candidates only widen *)
Lemma update_monotone : forall c f, (cand_rank c <= cand_rank (update c f))%nat.
Proof.
  intros c f. destruct f as [|b f]; [apply Nat.le_refl|].
  unfold update. destruct c;
    repeat match goal with
           | |- context [if ?b then _ else _] => destruct b
           end; cbn [cand_rank]; lia.
Qed.

Lemma update_empty : forall c, update c [] = c.
Proof. intros c. reflexivity. Qed.

(* header decision (the documented rule): row 0 is taken as a header iff some field of it is not valid for its column's
   type computed from the other rows; an empty field is valid for Utf8 only *)
Lemma header_decision_spec : forall first rest s,
  infer_schema (first :: rest) = Some s ->
  col_types s = fold_left revalidate_row rest (fold_left update_row rest (repeat CBool (length first))) /\
  (has_header s = true <->
   exists f c, In (f, c) (combine first (col_types s)) /\ is_valid c f = false).
Proof.
  intros first rest s H. unfold infer_schema in H. inversion H as [Hs]. clear H. cbn [col_types has_header].
  split; [reflexivity|].
  rewrite existsb_exists. split.
  - intros [[f c] [Hin Hv]]. exists f, c. split; [exact Hin|]. cbn [fst snd] in Hv.
    destruct (is_valid c f); [discriminate Hv|reflexivity].
  - intros [f [c [Hin Hv]]]. exists (f, c). split; [exact Hin|]. cbn [fst snd]. rewrite Hv. reflexivity.
Qed.

Example header_decision_sat :
  exists s, infer_schema [[[97]]; [[49]]]%N = Some s /\ has_header s = true /\ col_types s = [CInt].
Proof. eexists. split; [reflexivity|]. split; reflexivity. Qed.

(* a first row every field of which parses as its column's type is not a header *)
Lemma valid_first_row_not_header : forall first rest s,
  infer_schema (first :: rest) = Some s ->
  (forall f c, In (f, c) (combine first (col_types s)) -> is_valid c f = true) ->
  has_header s = false.
Proof.
  intros first rest s H Hall. destruct (header_decision_spec first rest s H) as [_ Hh].
  destruct (has_header s) eqn:E; [|reflexivity]. exfalso.
  destruct (proj1 Hh eq_refl) as [f [c [Hin Hv]]]. rewrite (Hall f c Hin) in Hv. discriminate Hv.
Qed.

(* the rule on empty fields: ",,\n1,m\n" (empty names: pinned by slt/csv/infer/empty_header_names.slt), ",2\n3,4\n"
   (the empty string does not parse as Int64) and ",x\n,y\n" (nor as the Boolean of a column without values) have a
   header; ",x\nz,y\n" (Utf8 accepts the empty string) has none *)
Example header_empty_fields :
  (exists s, infer_schema [[[]; []]; [[49]; [109]]]%N = Some s /\ has_header s = true /\ col_types s = [CInt; CUtf8]) /\
  (exists s, infer_schema [[[]; [50]]; [[51]; [52]]]%N = Some s /\ has_header s = true /\ col_types s = [CInt; CInt]) /\
  (exists s, infer_schema [[[]; [120]]; [[]; [121]]]%N = Some s /\ has_header s = true /\ col_types s = [CBool; CUtf8]) /\
  (exists s, infer_schema [[[]; [120]]; [[122]; [121]]]%N = Some s /\ has_header s = false).
Proof. repeat split; eexists; repeat split; reflexivity. Qed.

(* ------------------------------------------------------------------ closed witnesses (regression) *)
(* column values "t","1" vs "1","t": before the re-validation pass Int64 vs Utf8 (the inferred type depended on the
   row order, and Int64 does not accept the sampled "t"); now Utf8 both ways *)
Lemma candidate_old_refuted :
  exists vs1 vs2, Permutation vs1 vs2 /\ col_type_old vs1 <> col_type_old vs2 /\
    (exists v, In v vs1 /\ v <> [] /\ is_valid (col_type_old vs1) v = false) /\
    col_type vs1 = CUtf8 /\ col_type vs2 = CUtf8.
Proof.
  exists [[116]; [49]]%N, [[49]; [116]]%N. split; [apply perm_swap|].
  split; [vm_compute; discriminate|]. split; [|split; vm_compute; reflexivity].
  exists [116]%N. split; [left; reflexivity|]. split; [discriminate|]. vm_compute. reflexivity.
Qed.
