(* C17 — proofs about model/CsvInfer.v: what one update guarantees, the header decision, and the closed
   refutation witnesses of the lattice properties (Boolean words are not valid Int64/Float64, so the candidate
   chain is not a join).  The partial lattice theorems are in CsvInferLattice.v. *)
From Coq Require Import NArith ZArith List Bool Arith Lia Permutation.
From GV Require Import model.Csv model.CsvInfer.
Import ListNotations.

Definition col_cand (vs : list (list N)) : cand := fold_left update vs CBool.

(* the candidate after an update accepts the value just seen *)
Lemma update_valid : forall c f, f <> [] -> is_valid (update c f) f = true.
Proof.
  intros c f Hf. destruct f as [|b f]; [contradiction|].
  unfold update. destruct c; cbn [is_valid];
    repeat match goal with
           | |- context [if ?b then _ else _] => destruct b eqn:?
           end; cbn [is_valid]; try reflexivity; try assumption.
Qed.

(* candidates only widen *)
Lemma update_monotone : forall c f, (cand_rank c <= cand_rank (update c f))%nat.
Proof.
  intros c f. destruct f as [|b f]; [apply Nat.le_refl|].
  unfold update. destruct c;
    repeat match goal with
           | |- context [if ?b then _ else _] => destruct b
           end; cbn [cand_rank]; lia.
Qed.

Lemma update_empty : forall c, update c [] = c.
Proof. intros c. reflexivity. Qed.

(* header decision: row 0 is taken as a header iff some field of it (EMPTY ones included) fails its column's
   candidate computed from the other rows *)
Lemma header_decision_spec : forall first rest s,
  infer_schema (first :: rest) = Some s ->
  col_types s = fold_left update_row rest (repeat CBool (length first)) /\
  (has_header s = true <->
   exists f c, In (f, c) (combine first (col_types s)) /\ is_valid c f = false).
Proof.
  intros first rest s H. unfold infer_schema in H. inversion H as [Hs]. clear H. cbn [col_types has_header].
  split; [reflexivity|].
  rewrite existsb_exists. split.
  - intros [[f c] [Hin Hv]]. exists f, c. split; [exact Hin|]. cbn [fst snd] in Hv.
    destruct (is_valid c f); [discriminate Hv|reflexivity].
  - intros [f [c [Hin Hv]]]. exists (f, c). split; [exact Hin|]. cbn [fst snd]. rewrite Hv. reflexivity.
Qed.

Example header_decision_sat :
  exists s, infer_schema [[[97]]; [[49]]]%N = Some s /\ has_header s = true /\ col_types s = [CInt].
Proof. eexists. split; [reflexivity|]. split; reflexivity. Qed.

(* ------------------------------------------------------------------ closed witnesses *)
(* column values "t","1" vs "1","t": Int64 vs Utf8 — the inferred type depends on the row order *)
Lemma candidate_order_irrelevant_refuted :
  exists vs1 vs2, Permutation vs1 vs2 /\ col_cand vs1 <> col_cand vs2.
Proof.
  exists [[116]; [49]]%N, [[49]; [116]]%N. split; [apply perm_swap|]. vm_compute. discriminate.
Qed.

(* "t","1": the column is typed Int64, which does not accept the sampled value "t" (the scan then fails) *)
Lemma candidate_is_narrowest_refuted :
  exists vs v, In v vs /\ v <> [] /\ is_valid (col_cand vs) v = false.
Proof.
  exists [[116]; [49]]%N, [116]%N. split; [left; reflexivity|]. split; [discriminate|]. vm_compute. reflexivity.
Qed.

(* ",2\n3,4\n": a headerless file whose first row has an empty field in an Int64 column gets a header *)
Lemma header_null_first_row_refuted :
  exists recs s, infer_schema recs = Some s /\ has_header s = true /\
    Forall (fun r => Forall (fun f => f = [] \/ is_int f = true) r) recs.
Proof.
  exists [[[]; [50]]; [[51]; [52]]]%N. eexists. split; [reflexivity|]. split; [reflexivity|].
  repeat constructor; solve [left; reflexivity | right; vm_compute; reflexivity].
Qed.
