(* Proofs about model/TextConv.v (text <-> value). *)
From Coq Require Import NArith ZArith List Bool Lia ZifyBool ZifyN.
From GV Require Import model.Cast model.Calendar model.TextConv.
Import ListNotations.
Open Scope Z_scope.
Ltac Zify.zify_post_hook ::= Z.div_mod_to_equations.

(* value of a digit string, most significant first *)
Definition nval (a : Z) (l : list N) : Z := fold_left (fun a b => a * 10 - digit_val b) l a.

Lemma digit_char_ok d : 0 <= d < 10 -> is_digit (digit_char d) = true /\ digit_val (digit_char d) = d.
Proof. intros Hd. unfold is_digit, digit_char, digit_val. split; lia. Qed.

Lemma is_digit_val b : is_digit b = true -> 0 <= digit_val b < 10.
Proof. unfold is_digit, digit_val. lia. Qed.

Lemma dval_app a l1 l2 : dval a (l1 ++ l2) = dval (dval a l1) l2.
Proof. unfold dval. apply fold_left_app. Qed.

Lemma udigits_spec : forall f v acc, 0 <= v < 10 ^ Z.of_nat (S f) ->
  exists ds, udigits (S f) v acc = ds ++ acc /\ ds <> [] /\ forallb is_digit ds = true /\ dval 0 ds = v.
Proof.
  induction f as [|f IH]; intros v acc Hv.
  - assert (Hlt : v < 10) by (cbn in Hv; lia). cbn [udigits]. replace (v <? 10) with true by lia.
    exists [digit_char v]. destruct (digit_char_ok v ltac:(lia)) as [H1 H2].
    repeat split; [discriminate| cbn; rewrite H1; reflexivity | cbn; rewrite H2; lia].
  - cbn [udigits]. destruct (v <? 10) eqn:E.
    + exists [digit_char v]. destruct (digit_char_ok v ltac:(lia)) as [H1 H2].
      repeat split; [discriminate| cbn; rewrite H1; reflexivity | cbn; rewrite H2; lia].
    + rewrite Nat2Z.inj_succ, Z.pow_succ_r in Hv by lia.
      destruct (IH (v / 10) (digit_char (v mod 10) :: acc) ltac:(lia)) as [ds [H1 [H2 [H3 H4]]]].
      destruct (digit_char_ok (v mod 10) ltac:(lia)) as [H5 H6].
      exists (ds ++ [digit_char (v mod 10)]). repeat split.
      * change (udigits (S f) (v / 10) (digit_char (v mod 10) :: acc) = (ds ++ [digit_char (v mod 10)]) ++ acc).
        rewrite H1, <- app_assoc. reflexivity.
      * destruct ds; discriminate.
      * rewrite forallb_app, H3. cbn. rewrite H5. reflexivity.
      * rewrite dval_app, H4. cbn. rewrite H6. lia.
Qed.

Lemma format_uint_spec v : 0 <= v ->
  exists ds, format_uint v = ds /\ ds <> [] /\ forallb is_digit ds = true /\ dval 0 ds = v.
Proof.
  intros Hv. unfold format_uint.
  assert (Hb : v < 10 ^ Z.of_nat (S (Z.to_nat (Z.log2 v)))).
  { pose proof (Z.log2_nonneg v) as Hl. rewrite Nat2Z.inj_succ, Z2Nat.id by lia.
    destruct (Z.eq_dec v 0) as [->|Hn]; [cbn; lia|].
    pose proof (Z.log2_spec v ltac:(lia)) as [_ Hs].
    assert (2 ^ Z.succ (Z.log2 v) <= 10 ^ Z.succ (Z.log2 v)) by (apply Z.pow_le_mono_l; lia). lia. }
  destruct (udigits_spec _ v [] (conj Hv Hb)) as [ds [H1 H2]]. exists ds. rewrite H1, app_nil_r. auto.
Qed.

Lemma dval_ge : forall ds a, 0 <= a -> forallb is_digit ds = true -> a <= dval a ds.
Proof.
  induction ds as [|b r IH]; intros a Ha Hd; [cbn; lia|].
  cbn in Hd. apply andb_true_iff in Hd. destruct Hd as [Hb Hr]. pose proof (is_digit_val b Hb).
  change (dval a (b :: r)) with (dval (a * 10 + digit_val b) r).
  specialize (IH (a * 10 + digit_val b) ltac:(lia) Hr). lia.
Qed.

Lemma nval_opp : forall ds a, nval (- a) ds = - dval a ds.
Proof.
  induction ds as [|b r IH]; intros a; [cbn; lia|].
  change (nval (- a) (b :: r)) with (nval (- a * 10 - digit_val b) r).
  change (dval a (b :: r)) with (dval (a * 10 + digit_val b) r).
  replace (- a * 10 - digit_val b) with (- (a * 10 + digit_val b)) by lia. apply IH.
Qed.

Lemma in_range_intro t x : imin t <= x <= imax t -> in_range t x = true.
Proof. unfold in_range. lia. Qed.

Lemma pdigits_pos : forall t ds a, forallb is_digit ds = true -> 0 <= a -> imin t <= 0 -> dval a ds <= imax t ->
  pdigits t false a ds = Some (dval a ds).
Proof.
  intros t. induction ds as [|b r IH]; intros a Hd Ha Hlo Hhi; [reflexivity|].
  cbn in Hd. apply andb_true_iff in Hd. destruct Hd as [Hb Hr]. pose proof (is_digit_val b Hb) as Hv.
  change (dval a (b :: r)) with (dval (a * 10 + digit_val b) r) in *.
  pose proof (dval_ge r (a * 10 + digit_val b) ltac:(lia) Hr) as Hge.
  cbn [pdigits]. rewrite Hb.
  rewrite (in_range_intro t (a * 10)) by lia. rewrite (in_range_intro t (a * 10 + digit_val b)) by lia.
  apply IH; auto; lia.
Qed.

Lemma pdigits_neg : forall t ds a, forallb is_digit ds = true -> 0 <= a -> 0 <= imax t -> imin t <= - dval a ds ->
  pdigits t true (- a) ds = Some (- dval a ds).
Proof.
  intros t. induction ds as [|b r IH]; intros a Hd Ha Hhi Hlo; [reflexivity|].
  cbn in Hd. apply andb_true_iff in Hd. destruct Hd as [Hb Hr]. pose proof (is_digit_val b Hb) as Hv.
  change (dval a (b :: r)) with (dval (a * 10 + digit_val b) r) in *.
  pose proof (dval_ge r (a * 10 + digit_val b) ltac:(lia) Hr) as Hge.
  cbn [pdigits]. rewrite Hb.
  rewrite (in_range_intro t (- a * 10)) by lia. rewrite (in_range_intro t (- a * 10 - digit_val b)) by lia.
  replace (- a * 10 - digit_val b) with (- (a * 10 + digit_val b)) by lia.
  apply IH; auto; lia.
Qed.

Lemma digit_not_sign b : is_digit b = true -> ((b =? 43) || (b =? 45))%N = false.
Proof. unfold is_digit. lia. Qed.

(* every integer of every width: parse (format v) = v — no bound on the number of digits *)
Lemma format_parse_int_roundtrip : forall t v, in_range t v = true -> parse_int t (format_int v) = Some v.
Proof.
  intros t v Hr. unfold in_range in Hr.
  assert (Hlo : imin t <= 0) by (unfold imin; destruct (i_signed t); [pose proof (Z.pow_nonneg 2 (i_bits t - 1)); lia|lia]).
  unfold format_int. destruct (v <? 0) eqn:E.
  - destruct (format_uint_spec (- v) ltac:(lia)) as [ds [H1 [H2 [H3 H4]]]]. rewrite H1.
    assert (Hs : i_signed t = true) by (unfold imin in Hr; destruct (i_signed t); [reflexivity|lia]).
    destruct ds as [|b r]; [congruence|].
    unfold parse_int. change ((45 =? 43) || (45 =? 45))%N with true. change (45 =? 43)%N with false. rewrite Hs.
    assert (Hhi : 0 <= imax t).
    { unfold imin, imax in *. rewrite Hs in *. remember (2 ^ (i_bits t - 1)) as P. lia. }
    change 0 with (- 0) at 1. rewrite pdigits_neg by (auto; lia).
    rewrite H4. f_equal. lia.
  - destruct (format_uint_spec v ltac:(lia)) as [ds [H1 [H2 [H3 H4]]]]. rewrite H1.
    destruct ds as [|b r]; [congruence|].
    assert (Hb : is_digit b = true) by (cbn in H3; apply andb_true_iff in H3; tauto).
    unfold parse_int. rewrite (digit_not_sign b Hb).
    rewrite pdigits_pos; auto; try lia. rewrite H4. reflexivity.
Qed.

Example roundtrip_int_sat : in_range I64 (- 2 ^ 63) = true /\ parse_int I64 (format_int (- 2 ^ 63)) = Some (- 2 ^ 63).
Proof. vm_compute. split; reflexivity. Qed.

(* text -> integer rejects everything that is not  [+-]? digit+  *)
Lemma pdigits_some_digits : forall t neg bs a v, pdigits t neg a bs = Some v -> forallb is_digit bs = true.
Proof.
  intros t neg. induction bs as [|b r IH]; intros a v H; [reflexivity|].
  cbn [pdigits] in H. cbn [forallb]. destruct (is_digit b); [|discriminate].
  destruct (in_range t (a * 10)); [|discriminate].
  destruct (in_range t _); [|discriminate]. cbn. eapply IH. exact H.
Qed.

Lemma parse_int_rejects_garbage : forall t bs v, parse_int t bs = Some v -> wellformed_int bs = true.
Proof.
  intros t bs v H. destruct bs as [|b r]; [discriminate|].
  unfold parse_int in H. unfold wellformed_int.
  destruct ((b =? 43) || (b =? 45))%N eqn:Es.
  - destruct r as [|c r']; [discriminate|]. cbn [negb andb].
    destruct (b =? 43)%N eqn:E43.
    + eapply pdigits_some_digits. exact H.
    + destruct (i_signed t).
      * eapply pdigits_some_digits. exact H.
      * apply pdigits_some_digits in H. cbn [forallb] in H. apply andb_true_iff in H. destruct H as [Hb _].
        unfold is_digit in Hb. lia.
  - eapply pdigits_some_digits. exact H.
Qed.

(* booleans *)
Lemma format_parse_bool_roundtrip : forall b, parse_bool (format_bool b) = Some b.
Proof. intros []; vm_compute; reflexivity. Qed.

(* text -> decimal BEFORE the repair 7b11b6c5d (Old.parse_decimal): accepted garbage, truncated, panicked,
   exceeded the precision.  Kept as closed witnesses; the current parser is specified in
   proofs/TextConvDecimalProofs.v *)
Lemma old_parse_decimal_rejects_garbage_refuted :
  exists bs, wellformed_decimal bs = false /\ Old.parse_decimal true D64 5 2 bs = Ok 0.
Proof. exists []. vm_compute. split; reflexivity. Qed.

Lemma old_parse_decimal_lone_sign_and_point :
  Old.parse_decimal true D64 5 2 [45%N] = Ok 0 /\ Old.parse_decimal true D64 5 2 [46%N] = Ok 0 /\ Old.parse_decimal true D64 5 2 [43%N; 46%N] = Ok 0.
Proof. vm_compute. repeat split; reflexivity. Qed.

(* '12.349' -> 12.34 although the nearest DECIMAL(5,2) is 12.35 *)
Lemma old_parse_decimal_truncates :
  Old.parse_decimal true D64 5 2 [49; 50; 46; 51; 52; 57]%N = Ok 1234 /\ rha_div 12349 10 = 1235.
Proof. vm_compute. split; reflexivity. Qed.

(* '10' -> DECIMAL(3,2) value 1000 = 10.00: four digits in a precision-3 decimal *)
Lemma old_parse_decimal_precision_refuted :
  exists bs r, Old.parse_decimal true D64 3 2 bs = Ok r /\ 10 ^ 3 <= Z.abs r.
Proof. exists [49; 48]%N, 1000. vm_compute. split; [reflexivity|congruence]. Qed.

(* 23 nines -> DECIMAL(18,0): unchecked multiplication panics (wraps without overflow checks) *)
Lemma old_parse_decimal_long_panics :
  Old.parse_decimal true D64 18 0 (repeat 57%N 23) = Panic /\ Old.parse_decimal true D64 18 18 (repeat 57%N 5) = Panic.
Proof. vm_compute. split; reflexivity. Qed.

(* the same inputs on the current parser *)
Lemma parse_decimal_repaired_witnesses :
  parse_decimal true D64 5 2 [] = Err /\ parse_decimal true D64 5 2 [45%N] = Err /\ parse_decimal true D64 5 2 [46%N] = Err
  /\ parse_decimal true D64 5 2 [49; 50; 46; 51; 52; 57]%N = Ok 1235
  /\ parse_decimal true D64 3 2 [49; 48]%N = Err
  /\ parse_decimal true D64 18 0 (repeat 57%N 23) = Err /\ parse_decimal true D64 18 18 (repeat 57%N 5) = Err.
Proof. vm_compute. repeat split; reflexivity. Qed.

(* intervals: the formatter's own output does not parse back — whatever the quantity parser is *)
Lemma format_parse_interval_roundtrip_refuted : forall qparse,
  exists iv, parse_interval qparse (format_interval iv) <> Some iv.
Proof.
  intros qparse. exists (mk_iv 2 0 0).
  assert (H : parse_interval qparse (format_interval (mk_iv 2 0 0)) = None).
  { unfold parse_interval.
    change (split_ws (map lower (format_interval (mk_iv 2 0 0)))) with [[50%N]; [109; 111; 110; 115]%N].
    cbn [length Nat.even parse_fields]. destruct (qparse [50%N]); reflexivity. }
  rewrite H. discriminate.
Qed.

Lemma format_interval_loses_negative_days : format_interval (mk_iv 0 (-1) 0) = [].
Proof. vm_compute. reflexivity. Qed.
