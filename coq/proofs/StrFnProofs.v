(* Proofs about model/StrFn.v: impl_f = Ok (spec_f), or the refutation with a witness. *)
From Coq Require Import NArith ZArith List Bool Lia ZifyBool ZifyNat ZifyN.
From GV Require Import model.Utf8 model.StrFn proofs.Utf8Proofs.
Import ListNotations.
Open Scope N_scope.

Lemma lenN_cons {A} (x : A) l : lenN (x :: l) = lenN l + 1.
Proof. unfold lenN. cbn [length]. lia. Qed.
Lemma lenN_nil {A} : lenN (@nil A) = 0.
Proof. reflexivity. Qed.

Lemma takeN_0 {A} (l : list A) : takeN 0 l = [].
Proof. destruct l; reflexivity. Qed.
Lemma dropN_0 {A} (l : list A) : dropN 0 l = l.
Proof. destruct l; reflexivity. Qed.
Lemma takeN_all {A} (l : list A) : forall k, lenN l <= k -> takeN k l = l.
Proof.
  induction l as [|x l IH]; intros k H; [reflexivity|].
  rewrite lenN_cons in H. cbn [takeN]. destruct (k =? 0) eqn:E; [lia|].
  rewrite IH by lia. reflexivity.
Qed.
Lemma dropN_all {A} (l : list A) : forall k, lenN l <= k -> dropN k l = [].
Proof.
  induction l as [|x l IH]; intros k H; [reflexivity|].
  rewrite lenN_cons in H. cbn [dropN]. destruct (k =? 0) eqn:E; [lia|]. apply IH. lia.
Qed.
Lemma lenN_takeN {A} (l : list A) : forall k, k <= lenN l -> lenN (takeN k l) = k.
Proof.
  induction l as [|x l IH]; intros k H.
  - rewrite lenN_nil in H. cbn. lia.
  - rewrite lenN_cons in H. cbn [takeN]. destruct (k =? 0) eqn:E; [rewrite lenN_nil; lia|].
    rewrite lenN_cons, IH by lia. lia.
Qed.

(* ---- char_indices / slicing ---- *)
Lemma take_chars_ok cs : forall k,
  match char_index_nth cs k with Some p => slice_to cs p | None => Ok cs end = Ok (takeN k cs).
Proof.
  induction cs as [|c r IH]; intros k; [reflexivity|].
  cbn [char_index_nth takeN]. destruct (k =? 0) eqn:E; [reflexivity|].
  specialize (IH (k - 1)). pose proof (cp_width_pos c) as W.
  destruct (char_index_nth r (k - 1)) as [p|]; cbn [option_map].
  - cbn [slice_to]. destruct (cp_width c + p =? 0) eqn:E0; [lia|].
    destruct (cp_width c + p <? cp_width c) eqn:E1; [lia|].
    replace (cp_width c + p - cp_width c) with p by lia. rewrite IH. reflexivity.
  - injection IH as H. rewrite <- H. reflexivity.
Qed.

Lemma drop_chars_ok cs d : forall k, (k < lenN cs \/ d = []) ->
  match char_index_nth cs k with Some p => slice_from cs p | None => Ok d end = Ok (dropN k cs).
Proof.
  induction cs as [|c r IH]; intros k H.
  - cbn. destruct H as [H| ->]; [rewrite lenN_nil in H; lia|reflexivity].
  - cbn [char_index_nth dropN]. destruct (k =? 0) eqn:E; [reflexivity|].
    assert (H' : k - 1 < lenN r \/ d = []) by (rewrite lenN_cons in H; destruct H as [H|H]; [left; lia|right; exact H]).
    specialize (IH (k - 1) H'). pose proof (cp_width_pos c) as W.
    destruct (char_index_nth r (k - 1)) as [p|]; cbn [option_map].
    + cbn [slice_from]. destruct (cp_width c + p =? 0) eqn:E0; [lia|].
      destruct (cp_width c + p <? cp_width c) eqn:E1; [lia|].
      replace (cp_width c + p - cp_width c) with p by lia. exact IH.
    + exact IH.
Qed.

Lemma slice_to_blen_take cs : forall i, slice_to cs (blen (takeN i cs)) = Ok (takeN i cs).
Proof.
  induction cs as [|c r IH]; intros i; [reflexivity|].
  cbn [takeN]. destruct (i =? 0) eqn:E; [reflexivity|].
  cbn [blen fold_right]. fold (blen (takeN (i - 1) r)). pose proof (cp_width_pos c) as W.
  cbn [slice_to]. destruct (cp_width c + blen (takeN (i - 1) r) =? 0) eqn:E0; [lia|].
  destruct (cp_width c + blen (takeN (i - 1) r) <? cp_width c) eqn:E1; [lia|].
  replace (cp_width c + blen (takeN (i - 1) r) - cp_width c) with (blen (takeN (i - 1) r)) by lia.
  rewrite IH. reflexivity.
Qed.

(* ---- left / right: full strength, every count ---- *)
Lemma left_correct cs count : impl_left cs count = Ok (spec_left cs count).
Proof.
  unfold impl_left, spec_left.
  destruct (count =? 0)%Z eqn:E0.
  { assert (count = 0%Z) by lia. subst. cbn. rewrite takeN_0. reflexivity. }
  destruct (count <? 0)%Z eqn:E1.
  - destruct (0 <=? count)%Z eqn:E3; [lia|].
    replace (Z.to_N (Z.abs count)) with (Z.to_N (- count)) by lia.
    destruct (lenN cs <=? Z.to_N (- count)) eqn:E4.
    + replace (lenN cs - Z.to_N (- count)) with 0 by lia. rewrite takeN_0. reflexivity.
    + apply take_chars_ok.
  - destruct (0 <=? count)%Z eqn:E3; [|lia]. apply take_chars_ok.
Qed.

Lemma right_correct cs count : impl_right cs count = Ok (spec_right cs count).
Proof.
  unfold impl_right, spec_right.
  destruct (count =? 0)%Z eqn:E0.
  { assert (count = 0%Z) by lia. subst. cbn [Z.leb Z.compare Z.to_N].
    rewrite N.sub_0_r, dropN_all by lia. reflexivity. }
  destruct (count <? 0)%Z eqn:E1.
  - destruct (0 <=? count)%Z eqn:E3; [lia|].
    replace (Z.to_N (Z.abs count)) with (Z.to_N (- count)) by lia.
    destruct (lenN cs <=? Z.to_N (- count)) eqn:E4.
    + rewrite dropN_all by lia. reflexivity.
    + apply drop_chars_ok. right. reflexivity.
  - destruct (0 <=? count)%Z eqn:E3; [|lia].
    destruct (lenN cs <=? Z.to_N count) eqn:E4.
    + replace (lenN cs - Z.to_N count) with 0 by lia. rewrite dropN_0. reflexivity.
    + apply drop_chars_ok. left. lia.
Qed.

(* ---- substring ---- *)
Lemma skip_chars_ok cs : forall fuel n, lenN cs <= N.of_nat fuel -> skip_chars fuel n cs = Ok (dropN n cs).
Proof.
  induction cs as [|c r IH]; intros fuel n H.
  - destruct fuel; cbn [skip_chars dropN]; destruct (n =? 0); reflexivity.
  - rewrite lenN_cons in H. destruct fuel as [|f]; [lia|].
    cbn [skip_chars dropN]. destruct (n =? 0) eqn:E; [reflexivity|]. apply IH. lia.
Qed.

Lemma lenN_dropN {A} (l : list A) : forall k, lenN (dropN k l) = lenN l - k.
Proof.
  induction l as [|x l IH]; intros k; [reflexivity|].
  cbn [dropN]. destruct (k =? 0) eqn:E.
  - assert (k = 0) by lia. subst. lia.
  - rewrite IH, lenN_cons. lia.
Qed.

(* what the current code computes, for every from / count, once fuel >= length *)
Lemma substring_eval fuel cs from count : lenN cs <= N.of_nat fuel ->
  impl_substring fuel cs from count =
  Ok (takeN (Z.to_N (Z.max (sat64 (sat64 (from + Z.max count 0) - Z.max from 1)) 0))
            (dropN (Z.to_N (Z.max from 1 - 1)) cs)).
Proof.
  intros H. unfold impl_substring. cbv zeta. rewrite skip_chars_ok by exact H. cbn [bind].
  apply take_chars_ok.
Qed.

(* termination: the loop consumes at most length(s) characters, whatever from and count are *)
Lemma substring_terminates fuel cs from count : lenN cs <= N.of_nat fuel ->
  impl_substring fuel cs from count <> OutOfFuel.
Proof. intros H. rewrite substring_eval by exact H. discriminate. Qed.

Lemma substring_from_terminates fuel cs from : lenN cs <= N.of_nat fuel ->
  impl_substring_from fuel cs from <> OutOfFuel.
Proof. intros H. unfold impl_substring_from. rewrite skip_chars_ok by exact H. discriminate. Qed.

Lemma substring_from_correct fuel cs from : in_i64 from -> lenN cs <= N.of_nat fuel ->
  impl_substring_from fuel cs from = Ok (spec_substring_from cs from).
Proof.
  unfold in_i64, MIN64, MAX64. intros R H. unfold impl_substring_from, spec_substring_from.
  rewrite skip_chars_ok by exact H. do 2 f_equal. unfold sat64, MIN64, MAX64. lia.
Qed.

(* full strength, every i64 from and count: the range [from, from + count) clamped to the string,
   '' for a negative count.  (A Rust string holds at most isize::MAX = 2^63 - 1 bytes; the hypothesis
   on the length only excludes a string of exactly that many one-byte characters.) *)
Lemma substring_correct fuel cs from count :
  in_i64 from -> in_i64 count -> (Z.of_N (lenN cs) < MAX64)%Z -> lenN cs <= N.of_nat fuel ->
  impl_substring fuel cs from count = Ok (spec_substring cs from count).
Proof.
  unfold in_i64. intros Rf Rc L H. rewrite substring_eval by exact H. unfold spec_substring. f_equal.
  unfold MIN64, MAX64 in *.
  destruct (count <? 0)%Z eqn:E.
  { replace (Z.to_N (Z.max (sat64 (sat64 (from + Z.max count 0) - Z.max from 1)) 0)) with 0
      by (unfold sat64, MIN64, MAX64; lia).
    apply takeN_0. }
  cbv zeta.
  set (rest := dropN (Z.to_N (Z.max from 1 - 1)) cs).
  assert (LR : lenN rest = lenN cs - Z.to_N (Z.max from 1 - 1)) by apply lenN_dropN.
  destruct (Z_le_gt_dec (from + count) (2 ^ 63 - 1)) as [S|S].
  - f_equal. unfold sat64, MIN64, MAX64. lia.
  - rewrite !takeN_all; [reflexivity| |]; rewrite LR; unfold sat64, MIN64, MAX64; lia.
Qed.

Example substring_hyp_sat : in_i64 0 /\ in_i64 (-2) /\ (Z.of_N (lenN [104; 105]) < MAX64)%Z /\ lenN [104; 105] <= N.of_nat 2.
Proof. unfold in_i64, MIN64, MAX64. repeat split; vm_compute; congruence. Qed.

(* ---- strpos ---- *)
Lemma find_sub_bound cs p : forall i, find_sub cs p = Some i -> i <= lenN cs.
Proof.
  induction cs as [|c r IH]; intros i H; cbn [find_sub] in H.
  - destruct (starts_with [] p); [inversion H; subst; apply N.le_0_l|discriminate].
  - destruct (starts_with (c :: r) p); [inversion H; subst; lia|].
    destruct (find_sub r p) as [j|]; [|discriminate]. inversion H; subst.
    rewrite lenN_cons. specialize (IH j eq_refl). lia.
Qed.

Lemma strpos_correct cs p : impl_strpos cs p = Ok (spec_strpos cs p).
Proof.
  unfold impl_strpos, spec_strpos. destruct (find_sub cs p) as [i|] eqn:F; [|reflexivity].
  rewrite slice_to_blen_take. cbn [bind]. rewrite lenN_takeN by (eapply find_sub_bound, F). reflexivity.
Qed.

(* ---- results are valid UTF-8 ---- *)
Lemma valid_takeN cs : forall k, cps_valid cs -> cps_valid (takeN k cs).
Proof.
  unfold cps_valid. induction cs as [|c r IH]; intros k V; [constructor|].
  inversion V; subst. cbn [takeN]. destruct (k =? 0); constructor; auto.
Qed.
Lemma valid_dropN cs : forall k, cps_valid cs -> cps_valid (dropN k cs).
Proof.
  unfold cps_valid. induction cs as [|c r IH]; intros k V; [constructor|].
  inversion V; subst. cbn [dropN]. destruct (k =? 0); auto.
Qed.
Lemma valid_rev cs : cps_valid cs -> cps_valid (rev cs).
Proof. unfold cps_valid. apply Forall_rev. Qed.

Lemma left_valid cs count r : cps_valid cs -> impl_left cs count = Ok r -> utf8_validb (encode r) = true.
Proof.
  intros V H. apply encode_valid. rewrite left_correct in H. inversion H; subst. unfold spec_left.
  destruct (0 <=? count)%Z; apply valid_takeN, V.
Qed.

Lemma right_valid cs count r : cps_valid cs -> impl_right cs count = Ok r -> utf8_validb (encode r) = true.
Proof.
  intros V H. apply encode_valid. rewrite right_correct in H. inversion H; subst. unfold spec_right.
  destruct (0 <=? count)%Z; apply valid_dropN, V.
Qed.

Lemma reverse_correct cs r : cps_valid cs -> impl_reverse cs = Ok r ->
  r = spec_reverse cs /\ utf8_validb (encode r) = true.
Proof.
  intros V H. inversion H; subst. split; [reflexivity|]. apply encode_valid, valid_rev, V.
Qed.

Lemma skip_chars_valid cs : forall fuel n r, cps_valid cs -> skip_chars fuel n cs = Ok r -> cps_valid r.
Proof.
  induction cs as [|c t IH]; intros fuel n r V H.
  - destruct fuel; cbn [skip_chars] in H; destruct (n =? 0); inversion H; subst; constructor.
  - destruct fuel as [|f]; cbn [skip_chars] in H; destruct (n =? 0); try discriminate;
      try (inversion H; subst; exact V).
    inversion V; subst. eapply IH; eassumption.
Qed.

(* whatever substring returns (any from, any count, any fuel) is valid UTF-8 *)
Lemma substring_valid fuel cs from count r : cps_valid cs ->
  impl_substring fuel cs from count = Ok r -> utf8_validb (encode r) = true.
Proof.
  intros V H. apply encode_valid. revert H. unfold impl_substring. cbv zeta.
  destruct (skip_chars fuel (Z.to_N (Z.max from 1 - 1)) cs) as [rest| |] eqn:I; cbn [bind]; try discriminate.
  rewrite take_chars_ok. intros H; inversion H; subst.
  apply valid_takeN. eapply skip_chars_valid; [exact V|exact I].
Qed.

(* ---- lpad / rpad: the provable part ---- *)
Lemma lenN_app {A} (a b : list A) : lenN (a ++ b) = lenN a + lenN b.
Proof. unfold lenN. rewrite app_length. lia. Qed.

Lemma lenN_rep m pad : lenN (rep m pad) = N.of_nat m * lenN pad.
Proof.
  induction m as [|m IH]; [reflexivity|].
  cbn [rep]. rewrite lenN_app, IH. lia.
Qed.

Lemma rep_add a b pad : rep (a + b) pad = rep a pad ++ rep b pad.
Proof. induction a as [|a IH]; [reflexivity|]. cbn [Nat.add rep]. rewrite IH, app_assoc. reflexivity. Qed.

Lemma takeN_app_le {A} (a b : list A) : forall k, k <= lenN a -> takeN k (a ++ b) = takeN k a.
Proof.
  induction a as [|x a IH]; intros k H.
  - rewrite lenN_nil in H. assert (k = 0) by lia. subst. cbn [app]. rewrite takeN_0. reflexivity.
  - rewrite lenN_cons in H. cbn [app takeN]. destruct (k =? 0) eqn:E; [reflexivity|].
    rewrite IH by lia. reflexivity.
Qed.

Lemma takeN_app_ge {A} (a b : list A) : forall k, lenN a <= k -> takeN k (a ++ b) = a ++ takeN (k - lenN a) b.
Proof.
  induction a as [|x a IH]; intros k H.
  - cbn [app]. rewrite lenN_nil, N.sub_0_r. reflexivity.
  - rewrite lenN_cons in *. cbn [app takeN]. destruct (k =? 0) eqn:E; [lia|].
    rewrite IH by lia. replace (k - 1 - lenN a) with (k - (lenN a + 1)) by lia. reflexivity.
Qed.

Lemma fill_of_rep m k pad : 1 <= lenN pad -> k <= N.of_nat m * lenN pad -> takeN k (rep m pad) = fillN k pad.
Proof.
  intros P H. unfold fillN.
  assert (L : k <= lenN (rep (N.to_nat k) pad)) by (rewrite lenN_rep; nia).
  destruct (Nat.le_ge_cases m (N.to_nat k)) as [C|C].
  - replace (N.to_nat k) with (m + (N.to_nat k - m))%nat by lia.
    rewrite rep_add, takeN_app_le by (rewrite lenN_rep; exact H). reflexivity.
  - replace m with (N.to_nat k + (m - N.to_nat k))%nat at 1 by lia.
    rewrite rep_add, takeN_app_le by exact L. reflexivity.
Qed.

Lemma pad_loop_ok pad pl fuel : (1 <= pl)%Z -> forall rem buf, (rem <= Z.of_nat fuel)%Z ->
  exists m : nat,
    pad_loop fuel rem pl pad buf = Ok (buf ++ rep m pad, (rem - Z.of_nat m * pl)%Z) /\
    (rem - Z.of_nat m * pl <= 0)%Z /\
    ((0 < rem)%Z -> (- pl < rem - Z.of_nat m * pl)%Z) /\
    ((rem <= 0)%Z -> m = 0%nat).
Proof.
  intros P. induction fuel as [|f IH]; intros rem buf H; cbn [pad_loop]; destruct (rem <=? 0)%Z eqn:E.
  - exists 0%nat. cbn [rep]. rewrite app_nil_r. replace (rem - Z.of_nat 0 * pl)%Z with rem by lia.
    repeat split; lia.
  - lia.
  - exists 0%nat. cbn [rep]. rewrite app_nil_r. replace (rem - Z.of_nat 0 * pl)%Z with rem by lia.
    repeat split; lia.
  - destruct (IH (rem - pl)%Z (buf ++ pad)) as (m & H1 & H2 & H3 & H4); [lia|].
    exists (S m). rewrite H1. cbn [rep]. rewrite <- app_assoc.
    replace (rem - pl - Z.of_nat m * pl)%Z with (rem - Z.of_nat (S m) * pl)%Z by lia.
    split; [reflexivity|]. split; [lia|]. split; [|lia].
    intros _. destruct (Z_lt_le_dec 0 (rem - pl)) as [G|G].
    + specialize (H3 G). lia.
    + specialize (H4 G). subst m. lia.
Qed.

Lemma trunc_back_ok buf k : k < lenN buf -> trunc_back buf k = Ok (takeN (lenN buf - 1 - k) buf).
Proof. intros H. unfold trunc_back. destruct (k <? lenN buf) eqn:E; [|lia]. apply take_chars_ok. Qed.

Lemma is_nil_false_len {A} (l : list A) : is_nil l = false -> 1 <= lenN l.
Proof. destruct l; [discriminate|]. intros _. rewrite lenN_cons. lia. Qed.

Lemma slice_to_full cs : slice_to cs (blen cs) = Ok cs.
Proof.
  pose proof (slice_to_blen_take cs (lenN cs)) as H. rewrite takeN_all in H by lia. exact H.
Qed.

Lemma take_chars_full cs k :
  match char_index_nth cs k with Some p => slice_to cs p | None => slice_to cs (blen cs) end = Ok (takeN k cs).
Proof.
  pose proof (take_chars_ok cs k) as H. destruct (char_index_nth cs k); [exact H|].
  injection H as H. rewrite <- H. apply slice_to_full.
Qed.

(* full strength: every count (negative, truncating, padding), every pad (empty included), every
   string; the fuel only has to cover the number of pad copies, which is at most count *)
Lemma rpad_correct fuel cs count pad : (count <= Z.of_nat fuel)%Z ->
  impl_rpad fuel cs count pad = Ok (spec_rpad cs count pad).
Proof.
  intros F. unfold impl_rpad, spec_rpad. cbv zeta.
  destruct (is_nil pad || (count <? Z.of_N (lenN cs))%Z) eqn:B.
  - rewrite take_chars_ok.
    destruct (count <=? 0)%Z eqn:E0.
    + replace (Z.max count 0) with 0%Z by lia. cbn [Z.to_N]. rewrite takeN_0. reflexivity.
    + replace (Z.max count 0) with count by lia.
      destruct (Z.to_N count <=? lenN cs) eqn:E1; [reflexivity|].
      assert (NP : is_nil pad = true).
      { destruct (is_nil pad); [reflexivity|]. cbn [orb] in B. lia. }
      rewrite NP, takeN_all by lia. reflexivity.
  - apply orb_false_iff in B as [NP C]. pose proof (is_nil_false_len pad NP) as PL.
    destruct (pad_loop_ok pad (Z.of_N (lenN pad)) fuel ltac:(lia) (count - Z.of_N (lenN cs))%Z cs ltac:(lia))
      as (m & H1 & H2 & H3 & H4).
    rewrite H1. cbn [bind].
    set (rem := (count - Z.of_N (lenN cs) - Z.of_nat m * Z.of_N (lenN pad))%Z) in *.
    destruct (Z_lt_le_dec 0 (count - Z.of_N (lenN cs))) as [G|G].
    + specialize (H3 G).
      destruct (count <=? 0)%Z eqn:E0; [lia|].
      destruct (Z.to_N count <=? lenN cs) eqn:E1; [lia|]. rewrite NP.
      assert (K : Z.to_N count - lenN cs <= N.of_nat m * lenN pad) by lia.
      destruct (rem <? 0)%Z eqn:E2.
      * rewrite trunc_back_ok by (rewrite lenN_app, lenN_rep; lia).
        rewrite lenN_app, lenN_rep.
        replace (lenN cs + N.of_nat m * lenN pad - 1 - Z.to_N (Z.abs rem - 1)) with (Z.to_N count) by lia.
        rewrite takeN_app_ge by lia. rewrite fill_of_rep by assumption. reflexivity.
      * assert (R : rem = 0%Z) by lia.
        rewrite <- (fill_of_rep m) by assumption.
        rewrite takeN_all by (rewrite lenN_rep; lia). reflexivity.
    + specialize (H4 G). subst m. cbn [rep]. rewrite app_nil_r.
      assert (R : rem = 0%Z) by (unfold rem; lia).
      destruct (rem <? 0)%Z eqn:E2; [lia|].
      destruct (count <=? 0)%Z eqn:E0.
      * assert (lenN cs = 0) by lia. destruct cs; [reflexivity|rewrite lenN_cons in *; lia].
      * destruct (Z.to_N count <=? lenN cs) eqn:E1; [|lia]. rewrite takeN_all by lia. reflexivity.
Qed.

Lemma lpad_correct fuel cs count pad : (count <= Z.of_nat fuel)%Z ->
  impl_lpad fuel cs count pad = Ok (spec_lpad cs count pad).
Proof.
  intros F. unfold impl_lpad, spec_lpad. cbv zeta.
  destruct ((Z.of_N (lenN cs) >? count)%Z || is_nil pad) eqn:B.
  - rewrite take_chars_full.
    destruct (count <=? 0)%Z eqn:E0.
    + replace (Z.max count 0) with 0%Z by lia. cbn [Z.to_N]. rewrite takeN_0. reflexivity.
    + replace (Z.max count 0) with count by lia.
      destruct (Z.to_N count <=? lenN cs) eqn:E1; [reflexivity|].
      assert (NP : is_nil pad = true).
      { destruct (is_nil pad); [reflexivity|]. rewrite orb_false_r in B. lia. }
      rewrite NP, takeN_all by lia. reflexivity.
  - apply orb_false_iff in B as [C NP]. pose proof (is_nil_false_len pad NP) as PL.
    destruct (pad_loop_ok pad (Z.of_N (lenN pad)) fuel ltac:(lia) (count - Z.of_N (lenN cs))%Z [] ltac:(lia))
      as (m & H1 & H2 & H3 & H4).
    rewrite H1. cbn [bind app].
    set (rem := (count - Z.of_N (lenN cs) - Z.of_nat m * Z.of_N (lenN pad))%Z) in *.
    destruct (Z_lt_le_dec 0 (count - Z.of_N (lenN cs))) as [G|G].
    + specialize (H3 G).
      destruct (count <=? 0)%Z eqn:E0; [lia|].
      destruct (Z.to_N count <=? lenN cs) eqn:E1; [lia|]. rewrite NP.
      assert (K : Z.to_N count - lenN cs <= N.of_nat m * lenN pad) by lia.
      destruct (rem <? 0)%Z eqn:E2.
      * rewrite trunc_back_ok by (rewrite lenN_rep; lia). cbn [bind].
        rewrite lenN_rep.
        replace (N.of_nat m * lenN pad - 1 - Z.to_N (Z.abs rem - 1)) with (Z.to_N count - lenN cs) by lia.
        rewrite fill_of_rep by assumption. reflexivity.
      * cbn [bind]. assert (R : rem = 0%Z) by lia.
        rewrite <- (fill_of_rep m) by assumption.
        rewrite takeN_all by (rewrite lenN_rep; lia). reflexivity.
    + specialize (H4 G). subst m. cbn [rep].
      assert (R : rem = 0%Z) by (unfold rem; lia).
      destruct (rem <? 0)%Z eqn:E2; [lia|]. cbn [bind app].
      destruct (count <=? 0)%Z eqn:E0.
      * assert (lenN cs = 0) by lia. destruct cs; [reflexivity|rewrite lenN_cons in *; lia].
      * destruct (Z.to_N count <=? lenN cs) eqn:E1; [|lia]. rewrite takeN_all by lia. reflexivity.
Qed.

Example pad_hyp_sat : (-3 <= Z.of_nat 0)%Z /\ (5 <= Z.of_nat 5)%Z. Proof. lia. Qed.

Lemma pad_valid_app a b : cps_valid a -> cps_valid b -> cps_valid (a ++ b).
Proof. unfold cps_valid. intros. apply Forall_app; split; assumption. Qed.

(* ---- regression witnesses: the transcriptions before 0e7aca77d / 5eee47bd9 / 16bd2d89d ---- *)
Lemma old_left_refuted : Old.impl_left [97; 98; 99] MIN64 = Panic.
Proof. vm_compute. reflexivity. Qed.
Lemma old_right_refuted : Old.impl_right [97; 98; 99] MIN64 = Panic.
Proof. vm_compute. reflexivity. Qed.
Lemma old_substring_refuted_hang :        (* substring('hello', 0, 2) *)
  Old.impl_substring 1000 [104; 101; 108; 108; 111] 0 2 = OutOfFuel /\
  spec_substring [104; 101; 108; 108; 111] 0 2 = [104].
Proof. split; vm_compute; reflexivity. Qed.
Lemma old_lpad_refuted_boundary :         (* lpad('héllo', 2, 'x') *)
  Old.impl_lpad 100 [104; 233; 108; 108; 111] 2 [120] = Panic /\
  spec_lpad [104; 233; 108; 108; 111] 2 [120] = [104; 233].
Proof. split; vm_compute; reflexivity. Qed.
Lemma old_lpad_refuted_negative :         (* lpad('x', -1, 'y') *)
  Old.impl_lpad 100 [120] (-1) [121] = Panic /\ spec_lpad [120] (-1) [121] = [].
Proof. split; vm_compute; reflexivity. Qed.
Lemma old_lpad_refuted_bytes :            (* lpad('éab', 2, 'x') = 'é' *)
  Old.impl_lpad 100 [233; 97; 98] 2 [120] = Ok [233] /\ spec_lpad [233; 97; 98] 2 [120] = [233; 97].
Proof. split; vm_compute; reflexivity. Qed.
Lemma old_rpad_refuted_negative :         (* rpad('abc', -1, 'x') = 'abc' *)
  Old.impl_rpad 100 [97; 98; 99] (-1) [120] = Ok [97; 98; 99] /\ spec_rpad [97; 98; 99] (-1) [120] = [].
Proof. split; vm_compute; reflexivity. Qed.
Lemma old_pad_refuted_empty_pad :         (* lpad / rpad ('abc', 2, '') = 'abc' *)
  Old.impl_lpad 100 [97; 98; 99] 2 [] = Ok [97; 98; 99] /\ Old.impl_rpad 100 [97; 98; 99] 2 [] = Ok [97; 98; 99] /\
  spec_lpad [97; 98; 99] 2 [] = [97; 98] /\ spec_rpad [97; 98; 99] 2 [] = [97; 98].
Proof. repeat split; vm_compute; reflexivity. Qed.

(* ================= round 3: the remaining functions ================= *)

(* ---- translate: the HashMap construction = "first occurrence in `from` decides" ---- *)
Lemma map_lookup_snoc c m k v :
  map_lookup c (m ++ [(k, v)]) =
  match map_lookup c m with Some x => Some x | None => if k =? c then Some v else None end.
Proof.
  induction m as [|[k0 v0] m IH]; cbn [app map_lookup]; [reflexivity|].
  destruct (k0 =? c); [reflexivity|exact IH].
Qed.

Lemma build_map_lookup c to from : forall i m,
  map_lookup c (build_map from to i m) =
  match map_lookup c m with
  | Some v => Some v
  | None => match index_of c from with Some j => Some (nthN to (i + j)) | None => None end
  end.
Proof.
  induction from as [|c0 r IH]; intros i m; cbn [build_map index_of].
  - destruct (map_lookup c m); reflexivity.
  - rewrite IH. destruct (map_lookup c0 m) as [v0|] eqn:L0.
    + destruct (map_lookup c m) as [v|] eqn:L; [reflexivity|].
      destruct (c0 =? c) eqn:E; [apply N.eqb_eq in E; subst; congruence|].
      destruct (index_of c r) as [j|]; cbn [option_map]; [|reflexivity].
      do 2 f_equal. lia.
    + rewrite map_lookup_snoc. destruct (map_lookup c m) as [v|] eqn:L; [reflexivity|].
      destruct (c0 =? c) eqn:E.
      * rewrite N.add_0_r. reflexivity.
      * destruct (index_of c r) as [j|]; cbn [option_map]; [|reflexivity]. do 2 f_equal. lia.
Qed.

Lemma translate_correct cs from to : translate_map cs from to = Ok (spec_translate cs from to).
Proof.
  unfold translate_map, spec_translate. f_equal. apply flat_map_ext. intros c.
  rewrite build_map_lookup. cbn [map_lookup]. rewrite N.add_0_l || idtac.
  destruct (index_of c from) as [j|]; [|reflexivity].
  replace (0 + j) with j by lia. destruct (nthN to j); reflexivity.
Qed.

(* ---- repeat: the push loop = n copies ---- *)
Lemma concat_repeat_comm (cs : list N) k : concat (repeat cs k) ++ cs = cs ++ concat (repeat cs k).
Proof.
  induction k as [|k IH]; cbn [repeat concat]; [rewrite app_nil_r; reflexivity|].
  rewrite <- app_assoc, IH. reflexivity.
Qed.

Lemma repeat_correct cs num : impl_repeat cs num = Ok (spec_repeat_copies cs num).
Proof.
  unfold impl_repeat, spec_repeat_copies, repN. f_equal.
  rewrite N2Nat.inj_iter. induction (N.to_nat (Z.to_N num)) as [|k IH]; [reflexivity|].
  change (Nat.iter (S k) (fun a : list N => a ++ cs) [])
    with ((fun a : list N => a ++ cs) (Nat.iter k (fun a : list N => a ++ cs) [])).
  cbv beta. rewrite IH. cbn [repeat concat]. apply concat_repeat_comm.
Qed.

(* ---- trim family: what is removed is a run of characters of the set, and it is maximal ---- *)
Definition in_set (set : list N) (c : N) : bool := existsb (N.eqb c) set.

Lemma ltrim_spec cs set : exists pre,
  cs = pre ++ spec_ltrim cs set /\ forallb (in_set set) pre = true /\
  match spec_ltrim cs set with [] => True | c :: _ => in_set set c = false end.
Proof.
  unfold spec_ltrim. induction cs as [|c r IH].
  - exists []. repeat split.
  - cbn [trim_set_start]. fold (in_set set c). destruct (in_set set c) eqn:E.
    + destruct IH as (pre & H1 & H2 & H3). exists (c :: pre). split; [cbn [app]; congruence|].
      split; [cbn [forallb]; rewrite E, H2; reflexivity|exact H3].
    + exists []. repeat split. exact E.
Qed.

Lemma rtrim_spec cs set : exists post,
  cs = spec_rtrim cs set ++ post /\ forallb (in_set set) post = true /\
  match rev (spec_rtrim cs set) with [] => True | c :: _ => in_set set c = false end.
Proof.
  unfold spec_rtrim. destruct (ltrim_spec (rev cs) set) as (pre & H1 & H2 & H3). unfold spec_ltrim in *.
  exists (rev pre). split; [|split].
  - rewrite <- rev_app_distr, <- H1, rev_involutive. reflexivity.
  - rewrite forallb_forall in *. intros x Hx. apply H2, in_rev, Hx.
  - rewrite rev_involutive. exact H3.
Qed.

(* ---- split_part: full strength, every n ---- *)
Lemma nth_list_nth l : forall k, nth_list l k = nth (N.to_nat k) l [].
Proof.
  induction l as [|x l IH]; intros k; [destruct (N.to_nat k); reflexivity|].
  cbn [nth_list]. destruct (k =? 0) eqn:E.
  - assert (k = 0) by lia. subst. reflexivity.
  - rewrite IH. replace (N.to_nat k) with (S (N.to_nat (k - 1))) by lia. reflexivity.
Qed.

Lemma nth_list_rev l k : 1 <= k ->
  nth_list (rev l) (k - 1) = if lenN l <? k then [] else nth_list l (lenN l - k).
Proof.
  intros K. rewrite !nth_list_nth. unfold lenN. destruct (N.of_nat (length l) <? k) eqn:E.
  - apply nth_overflow. rewrite rev_length. lia.
  - rewrite rev_nth by lia. f_equal. lia.
Qed.

Lemma split_part_correct cs d n : impl_split_part cs d n = Ok (spec_split_part cs d n).
Proof.
  unfold impl_split_part, spec_split_part.
  destruct (n =? 0)%Z eqn:E0.
  { assert (n = 0%Z) by lia. subst. cbn. destruct (is_nil d); reflexivity. }
  destruct (is_nil d); [reflexivity|].
  destruct (0 <? n)%Z eqn:E1; [reflexivity|].
  destruct (n <? 0)%Z eqn:E2; [|lia]. cbv zeta.
  replace (Z.to_N (- n - 1)) with (Z.to_N (Z.abs n) - 1) by lia.
  rewrite nth_list_rev by lia.
  destruct (lenN (split_go cs d [] 0) <? Z.to_N (Z.abs n)); reflexivity.
Qed.

(* regression witnesses about the code before e3543b716 (rsplit; empty delimiter only for n = 1) *)
Definition old_split_part_neg (cs d : list N) (n : Z) : list N :=
  nth_list (map (@rev N) (split_go (rev cs) (rev d) [] 0)) (Z.to_N (- n - 1)).
Lemma old_split_part_overlap_refuted :     (* split_part('aaa', 'aa', -1) was '' *)
  old_split_part_neg [97; 97; 97] [97; 97] (-1) = [] /\ spec_split_part [97; 97; 97] [97; 97] (-1) = [97].
Proof. split; vm_compute; reflexivity. Qed.

(* ---- results are valid UTF-8 ---- *)
Lemma valid_flat_map (f : N -> list N) cs : (forall c, cp_valid c -> cps_valid (f c)) ->
  cps_valid cs -> cps_valid (flat_map f cs).
Proof.
  unfold cps_valid. intros Hf V. induction V as [|c cs Vc _ IH]; [constructor|].
  cbn [flat_map]. apply Forall_app. split; [apply Hf, Vc|exact IH].
Qed.

Lemma valid_repl_go from to cs : cps_valid to -> forall k, cps_valid cs -> cps_valid (repl_go cs from to k).
Proof.
  unfold cps_valid. intros Vt. induction cs as [|c r IH]; intros k V; [constructor|].
  inversion V; subst. cbn [repl_go]. destruct k; [|apply IH; assumption].
  destruct (starts_with (c :: r) from).
  - apply Forall_app. split; [exact Vt|apply IH; assumption].
  - constructor; [assumption|apply IH; assumption].
Qed.

Lemma replace_valid cs from to r : cps_valid cs -> cps_valid to ->
  impl_replace cs from to = Ok r -> utf8_validb (encode r) = true.
Proof.
  intros V Vt H. inversion H; subst. apply encode_valid. unfold spec_replace.
  destruct (is_nil from); [exact V|apply valid_repl_go; assumption].
Qed.

Lemma nthN_in l : forall i y, nthN l i = Some y -> In y l.
Proof.
  induction l as [|x l IH]; intros i y H; [discriminate|]. cbn [nthN] in H.
  destruct (i =? 0); [inversion H; left; reflexivity|right; eapply IH, H].
Qed.

Lemma translate_valid cs from to r : cps_valid cs -> cps_valid to ->
  translate_map cs from to = Ok r -> utf8_validb (encode r) = true.
Proof.
  intros V Vt H. rewrite translate_correct in H. inversion H; subst. apply encode_valid.
  unfold spec_translate. apply valid_flat_map; [|exact V]. intros c Vc.
  destruct (index_of c from) as [j|]; [|constructor; [exact Vc|constructor]].
  destruct (nthN to j) as [y|] eqn:E; [|constructor].
  constructor; [|constructor]. unfold cps_valid in Vt. rewrite Forall_forall in Vt.
  apply Vt. eapply nthN_in, E.
Qed.

Lemma valid_trim_start set cs : cps_valid cs -> cps_valid (trim_set_start set cs).
Proof.
  unfold cps_valid. induction 1 as [|c r Vc V IH]; [constructor|].
  cbn [trim_set_start]. destruct (existsb (N.eqb c) set); [exact IH|constructor; assumption].
Qed.

Lemma trim_valid cs set : cps_valid cs ->
  utf8_validb (encode (spec_ltrim cs set)) = true /\ utf8_validb (encode (spec_rtrim cs set)) = true /\
  utf8_validb (encode (spec_btrim cs set)) = true.
Proof.
  intros V. assert (L : cps_valid (spec_ltrim cs set)) by apply valid_trim_start, V.
  assert (R : forall x, cps_valid x -> cps_valid (spec_rtrim x set)).
  { intros x Vx. unfold spec_rtrim. apply valid_rev, valid_trim_start, valid_rev, Vx. }
  repeat split; apply encode_valid; [exact L|apply R, V|apply R, L].
Qed.

Lemma concat_repeat_valid a b n : cps_valid a -> cps_valid b ->
  utf8_validb (encode (spec_concat a b)) = true /\ utf8_validb (encode (spec_repeat_copies a n)) = true.
Proof.
  intros Va Vb. split; apply encode_valid.
  - apply pad_valid_app; assumption.
  - unfold spec_repeat_copies. induction (N.to_nat (Z.to_N n)) as [|k IH]; [constructor|].
    cbn [repeat concat]. apply pad_valid_app; assumption.
Qed.

(* ---- case mapping, ASCII rows ---- *)
Lemma flat_map_single (f : N -> N) cs : flat_map (fun c => [f c]) cs = map f cs.
Proof. induction cs as [|c cs IH]; [reflexivity|]. cbn [flat_map map app]. rewrite IH. reflexivity. Qed.

Lemma upper_ascii_correct cs : upper_ascii cs = Ok (spec_upper_ascii cs).
Proof. unfold upper_ascii, impl_upper, up1, spec_upper_ascii. rewrite flat_map_single. reflexivity. Qed.
Lemma lower_ascii_correct cs : lower_ascii cs = Ok (spec_lower_ascii cs).
Proof. unfold lower_ascii, impl_lower, lo1, spec_lower_ascii. rewrite flat_map_single. reflexivity. Qed.

Lemma ascii_upper_bound c : c < 0x80 -> ascii_upper c < 0x80.
Proof. unfold ascii_upper. destruct ((97 <=? c) && (c <=? 122)) eqn:E; lia. Qed.
Lemma ascii_lower_bound c : c < 0x80 -> ascii_lower c < 0x80.
Proof. unfold ascii_lower. destruct ((65 <=? c) && (c <=? 90)) eqn:E; lia. Qed.

Lemma ascii_valid cs : is_ascii cs = true -> cps_valid cs.
Proof.
  unfold is_ascii, cps_valid. rewrite forallb_forall, Forall_forall. intros H x Hx.
  specialize (H x Hx). unfold cp_valid, cp_validb. lia.
Qed.

Lemma case_ascii_properties cs : is_ascii cs = true ->
  is_ascii (spec_upper_ascii cs) = true /\ is_ascii (spec_lower_ascii cs) = true /\
  length (spec_upper_ascii cs) = length cs /\ length (spec_lower_ascii cs) = length cs /\
  spec_upper_ascii (spec_upper_ascii cs) = spec_upper_ascii cs /\
  spec_lower_ascii (spec_upper_ascii cs) = spec_lower_ascii cs /\
  utf8_validb (encode (spec_upper_ascii cs)) = true /\ utf8_validb (encode (spec_lower_ascii cs)) = true.
Proof.
  intros A. unfold spec_upper_ascii, spec_lower_ascii.
  assert (U : is_ascii (map ascii_upper cs) = true).
  { unfold is_ascii in *. rewrite forallb_forall in *. intros x Hx. apply in_map_iff in Hx as (c & <- & Hc).
    specialize (A c Hc). pose proof (ascii_upper_bound c). lia. }
  assert (L : is_ascii (map ascii_lower cs) = true).
  { unfold is_ascii in *. rewrite forallb_forall in *. intros x Hx. apply in_map_iff in Hx as (c & <- & Hc).
    specialize (A c Hc). pose proof (ascii_lower_bound c). lia. }
  split; [exact U|]. split; [exact L|]. split; [apply map_length|]. split; [apply map_length|].
  split; [|split].
  - rewrite map_map. apply map_ext. intros c. unfold ascii_upper.
    destruct ((97 <=? c) && (c <=? 122)) eqn:E; [|rewrite E; reflexivity].
    destruct ((97 <=? c - 32) && (c - 32 <=? 122)) eqn:E2; [lia|reflexivity].
  - rewrite map_map. apply map_ext. intros c. unfold ascii_upper, ascii_lower.
    destruct ((97 <=? c) && (c <=? 122)) eqn:E.
    + destruct ((65 <=? c - 32) && (c - 32 <=? 90)) eqn:E2; [|lia].
      destruct ((65 <=? c) && (c <=? 90)) eqn:E3; lia.
    + reflexivity.
  - split; apply encode_valid, ascii_valid; assumption.
Qed.

Lemma ascii_upper_nonalpha c : ascii_alpha c = false -> ascii_upper c = c.
Proof. unfold ascii_upper, ascii_alpha. intros H. destruct ((97 <=? c) && (c <=? 122)) eqn:X; lia. Qed.
Lemma ascii_lower_nonalpha c : ascii_alpha c = false -> ascii_lower c = c.
Proof. unfold ascii_lower, ascii_alpha. intros H. destruct ((65 <=? c) && (c <=? 90)) eqn:X; lia. Qed.

(* initcap, full strength: first letter of every maximal alphanumeric run upper, the rest lower *)
Lemma initcap_go_correct cs : forall cap prev, cap = negb prev ->
  initcap_go up1 lo1 ascii_alpha ascii_alnum cap cs = spec_initcap_go prev cs.
Proof.
  induction cs as [|c r IH]; intros cap prev E; [reflexivity|].
  cbn [initcap_go spec_initcap_go]. destruct (ascii_alpha c) eqn:A.
  - cbn [orb]. rewrite (IH false true eq_refl). subst cap. destruct prev; reflexivity.
  - assert (AN : ascii_alnum c = ascii_digit c) by (unfold ascii_alnum; rewrite A; reflexivity).
    rewrite AN. cbn [orb].
    rewrite (IH (negb (ascii_digit c)) (ascii_digit c) eq_refl).
    rewrite (ascii_upper_nonalpha c A), (ascii_lower_nonalpha c A). destruct prev; reflexivity.
Qed.

Lemma initcap_correct cs : initcap_ascii cs = Ok (spec_initcap_ascii cs).
Proof.
  unfold initcap_ascii, impl_initcap, spec_initcap_ascii. f_equal.
  apply initcap_go_correct. reflexivity.
Qed.

(* regression witness about the definition before 900b19af8: initcap('a+b') = 'A+b' *)
Lemma old_initcap_refuted :
  old_initcap_ascii [97; 43; 98] = Ok [65; 43; 98] /\ spec_initcap_ascii [97; 43; 98] = [65; 43; 66].
Proof. split; vm_compute; reflexivity. Qed.
