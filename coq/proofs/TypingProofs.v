(* C18 — type soundness of model/Typing.v against the reference evaluation of model/Sql.v. *)
From Coq Require Import NArith ZArith List Bool Lia.
From GV Require Import lib.Bytes model.Sql model.Typing proofs.SqlLogicProofs.
Import ListNotations.

(* ---------------------------------------------------------------- ranges *)
Lemma in_range_iff : forall w z, in_range w z = true <-> (- 2 ^ (Z.of_N w - 1) <= z < 2 ^ (Z.of_N w - 1))%Z.
Proof.
  intros w z. unfold in_range. rewrite andb_true_iff, Z.leb_le, Z.ltb_lt. tauto.
Qed.

Lemma in_range_mono : forall wa w z, (wa <= w)%N -> in_range wa z = true -> in_range w z = true.
Proof.
  intros wa w z Hle H. apply in_range_iff in H. apply in_range_iff.
  destruct (N.eq_dec wa 0) as [E0|Hnz].
  - subst wa. cbn in H. lia.
  - assert (Hp : (2 ^ (Z.of_N wa - 1) <= 2 ^ (Z.of_N w - 1))%Z) by (apply Z.pow_le_mono_r; lia).
    lia.
Qed.

Lemma rem_in_range : forall w x y, in_range w x = true -> y <> 0%Z -> in_range w (Z.rem x y) = true.
Proof.
  intros w x y H Hy. apply in_range_iff in H. apply in_range_iff.
  set (B := (2 ^ (Z.of_N w - 1))%Z) in *.
  assert (Hay : (0 < Z.abs y)%Z) by lia.
  destruct (Z_le_gt_dec 0 x) as [Hx|Hx].
  - assert (H0 : (0 <= Z.rem x y)%Z) by (apply Z.rem_nonneg; assumption).
    assert (H1 : (Z.rem x y <= x)%Z).
    { rewrite <- (Z.rem_abs_r x y) by exact Hy. apply Z.rem_le; assumption. }
    lia.
  - assert (Hnx : (0 <= - x)%Z) by lia.
    assert (E : Z.rem x y = (- Z.rem (- x) y)%Z).
    { rewrite Z.rem_opp_l by exact Hy. lia. }
    assert (H0 : (0 <= Z.rem (- x) y)%Z) by (apply Z.rem_nonneg; assumption).
    assert (H1 : (Z.rem (- x) y <= - x)%Z).
    { rewrite <- (Z.rem_abs_r (- x) y) by exact Hy. apply Z.rem_le; assumption. }
    lia.
Qed.

(* ---------------------------------------------------------------- values and types *)
Definition boolish_val (v : value) : Prop := v = VNull \/ exists b, v = VBool b.

Lemma boolish_has_type : forall v, boolish_val v -> has_type v TBool.
Proof. intros v [H|[b H]]; subst v; exact I. Qed.

Lemma has_type_null : forall v, has_type v TNull -> v = VNull.
Proof. intros v H. destruct v; cbn in H; [reflexivity|contradiction|contradiction|contradiction]. Qed.

Lemma cmp3_boolish : forall op a b v, cmp3 op a b = Ok v -> boolish_val v.
Proof.
  intros op a b v H. unfold cmp3 in H.
  destruct a, b; try (injection H as H; subst v; left; reflexivity);
    destruct (val_compare _ _); try discriminate; injection H as H; subst v; right; eexists; reflexivity.
Qed.

Lemma and3_boolish : forall a b v, and3 a b = Ok v -> boolish_val v.
Proof.
  intros a b v H. unfold and3 in H.
  destruct a as [|[|]| |], b as [|[|]| |]; try discriminate; injection H as H; subst v;
    first [left; reflexivity|right; eexists; reflexivity].
Qed.

Lemma or3_boolish : forall a b v, or3 a b = Ok v -> boolish_val v.
Proof.
  intros a b v H. unfold or3 in H.
  destruct a as [|[|]| |], b as [|[|]| |]; try discriminate; injection H as H; subst v;
    first [left; reflexivity|right; eexists; reflexivity].
Qed.

Lemma not3_boolish : forall a v, not3 a = Ok v -> boolish_val v.
Proof.
  intros a v H. unfold not3 in H. destruct a; try discriminate; injection H as H; subst v;
    first [left; reflexivity|right; eexists; reflexivity].
Qed.

Lemma in_set_boolish : forall a vs v, in_set a vs = Ok v -> boolish_val v.
Proof.
  intros a vs v H. unfold in_set in H. destruct vs as [|x r].
  - injection H as H. subst v. right. eexists. reflexivity.
  - destruct a; try (injection H as H; subst v; left; reflexivity);
      (destruct (mapM _ (x :: r)) as [cs|]; cbn [bind] in H; [|discriminate];
       injection H as H; subst v;
       destruct (existsb is_true cs); [right; eexists; reflexivity|];
       destruct (existsb _ cs); [left; reflexivity|right; eexists; reflexivity]).
Qed.

Lemma unify_ty_l : forall a b t v, unify_ty a b = Some t -> has_type v a -> has_type v t.
Proof.
  intros a b t v H Hv. destruct a, b; cbn in H; try discriminate; try (injection H as H; subst t; exact Hv);
    try (apply has_type_null in Hv; subst v; exact I).
  destruct (N.eqb w w0) eqn:E; [|discriminate]. injection H as H. subst t. exact Hv.
Qed.

Lemma unify_ty_r : forall a b t v, unify_ty a b = Some t -> has_type v b -> has_type v t.
Proof.
  intros a b t v H Hv. destruct a, b; cbn in H; try discriminate; try (injection H as H; subst t; exact Hv);
    try (apply has_type_null in Hv; subst v; exact I).
  destruct (N.eqb w w0) eqn:E; [|discriminate]. apply N.eqb_eq in E. subst w0. injection H as H. subst t. exact Hv.
Qed.

(* ---------------------------------------------------------------- arithmetic *)
(* the operand's value is in the range of the width it contributes *)
Lemma eff_width_range : forall d en e t other wa z,
  eff_width e t other = Some wa -> eval_expr d en e = Ok (VInt z) -> has_type (VInt z) t -> in_range wa z = true.
Proof.
  intros d en e t other wa z H Hev Hty. unfold eff_width in H. destruct t as [| |w|]; try discriminate.
  - cbn in Hty. contradiction.
  - cbn in Hty.
    destruct e; try (injection H as H; subst wa; exact Hty).
    destruct v; try (injection H as H; subst wa; exact Hty).
    destruct other; try (injection H as H; subst wa; exact Hty).
    cbn in Hev. injection Hev as Hev. subst z0.
    destruct (in_range w0 z) eqn:E; injection H as H; subst wa; [exact E|exact Hty].
Qed.

Lemma eff_width_null : forall e t other v, eff_width e t other = Some 0%N -> has_type v t -> v = VNull \/ exists w, t = TInt w.
Proof.
  intros e t other v H Hv. destruct t; cbn in H; try discriminate.
  - left. apply has_type_null. exact Hv.
  - right. eexists. reflexivity.
Qed.

Lemma arith_sound : forall d en op a b ta tb w x y v,
  arith_width a b ta tb = Some w ->
  eval_expr d en a = Ok x -> eval_expr d en b = Ok y -> has_type x ta -> has_type y tb ->
  arith op w x y = Ok v -> has_type v (TInt w).
Proof.
  intros d en op a b ta tb w x y v Hw Ha Hb Hx Hy H. unfold arith_width in Hw.
  destruct (eff_width a ta tb) as [wa|] eqn:Ea; [|discriminate].
  destruct (eff_width b tb ta) as [wb|] eqn:Eb; [|discriminate].
  injection Hw as Hw.
  unfold arith in H. destruct x as [| |zx|], y as [| |zy|]; try discriminate;
    try (injection H as H; subst v; exact I).
  (* both integers *)
  assert (Rx : in_range wa zx = true) by (eapply eff_width_range; eassumption).
  assert (Hwa : (wa <= w)%N).
  { subst w. destruct (N.eqb wa 0 && N.eqb wb 0)%bool eqn:E0; [|lia].
    apply andb_true_iff in E0. destruct E0 as [E0 _]. apply N.eqb_eq in E0. lia. }
  destruct op.
  - destruct (in_range w (zx + zy)) eqn:E; [|discriminate]. injection H as H. subst v. exact E.
  - destruct (in_range w (zx - zy)) eqn:E; [|discriminate]. injection H as H. subst v. exact E.
  - destruct (in_range w (zx * zy)) eqn:E; [|discriminate]. injection H as H. subst v. exact E.
  - destruct (Z.eqb zy 0); [discriminate|].
    destruct (in_range w (Z.quot zx zy)) eqn:E; [|discriminate]. injection H as H. subst v. exact E.
  - destruct (Z.eqb zy 0) eqn:Ez; [discriminate|]. injection H as H. subst v. cbn [has_type].
    apply rem_in_range; [eapply in_range_mono; eassumption|apply Z.eqb_neq; exact Ez].
Qed.

(* ---------------------------------------------------------------- the theorem *)
Lemma env_ok_lookup : forall en te depth idx r t v,
  env_ok en te -> nth_error te depth = Some r -> nth_error r idx = Some t ->
  match nth_error en depth with
  | Some row => match nth_error row idx with Some x => Ok x | None => Err EType end
  | None => Err EType
  end = Ok v -> has_type v t.
Proof.
  intros en te depth idx r t v Hok. revert depth. induction Hok as [|row tr en' te' Hrow Hrest IH]; intros depth Hr Ht H.
  - destruct depth; discriminate.
  - destruct depth as [|dp]; cbn [nth_error] in *.
    + injection Hr as Hr. subst r. clear IH Hrest. revert idx Ht H.
      induction Hrow as [|x tx row' tr' Hx Hrow' IHr]; intros idx Ht H.
      * destruct idx; discriminate.
      * destruct idx as [|i]; cbn [nth_error] in *.
        -- injection Ht as Ht. injection H as H. subst. exact Hx.
        -- apply (IHr i Ht H).
    + apply (IH dp Hr Ht H).
Qed.

Theorem eval_has_announced_type : forall e te t d en v,
  type_of te e = Some t -> env_ok en te -> eval_expr d en e = Ok v -> has_type v t.
Proof.
  intros e. induction e using expr_nested_ind; intros te t d en v0 Hty Hok Hev.
  - (* EConst *)
    cbn in Hty, Hev. injection Hev as Hev. subst v0. destruct v; cbn in Hty.
    + injection Hty as Hty. subst t. exact I.
    + injection Hty as Hty. subst t. exact I.
    + destruct (in_range 32 z) eqn:E32.
      * injection Hty as Hty. subst t. exact E32.
      * destruct (in_range 64 z) eqn:E64; [|discriminate]. injection Hty as Hty. subst t. exact E64.
    + injection Hty as Hty. subst t. exact I.
  - (* ECol *)
    cbn [type_of] in Hty. cbn [eval_expr] in Hev.
    destruct (nth_error te dp) as [r|] eqn:Er; [|discriminate].
    eapply env_ok_lookup; eassumption.
  - (* ECmp *)
    cbn [type_of] in Hty. destruct (type_of te e1); [|discriminate]. destruct (type_of te e2); [|discriminate].
    destruct (comparable t0 t1); [|discriminate]. injection Hty as Hty. subst t.
    rewrite eval_cmp_unfold in Hev.
    destruct (eval_expr d en e1) as [x|]; cbn [bind] in Hev; [|discriminate].
    destruct (eval_expr d en e2) as [y|]; cbn [bind] in Hev; [|discriminate].
    apply boolish_has_type. eapply cmp3_boolish. exact Hev.
  - (* EDistinct *)
    cbn [type_of] in Hty. destruct (type_of te e1); [|discriminate]. destruct (type_of te e2); [|discriminate].
    destruct (comparable t0 t1); [|discriminate]. injection Hty as Hty. subst t.
    rewrite eval_distinct_unfold in Hev.
    destruct (eval_expr d en e1) as [x|]; cbn [bind] in Hev; [|discriminate].
    destruct (eval_expr d en e2) as [y|]; cbn [bind] in Hev; [|discriminate].
    injection Hev as Hev. subst v0. exact I.
  - (* EAnd *)
    cbn [type_of] in Hty. destruct (type_of te e1); [|discriminate]. destruct (type_of te e2); [|discriminate].
    destruct (boolish t0 && boolish t1)%bool; [|discriminate]. injection Hty as Hty. subst t.
    rewrite eval_and_unfold in Hev.
    destruct (eval_expr d en e1) as [x|]; cbn [bind] in Hev; [|discriminate].
    destruct (eval_expr d en e2) as [y|]; cbn [bind] in Hev; [|discriminate].
    apply boolish_has_type. eapply and3_boolish. exact Hev.
  - (* EOr *)
    cbn [type_of] in Hty. destruct (type_of te e1); [|discriminate]. destruct (type_of te e2); [|discriminate].
    destruct (boolish t0 && boolish t1)%bool; [|discriminate]. injection Hty as Hty. subst t.
    rewrite eval_or_unfold in Hev.
    destruct (eval_expr d en e1) as [x|]; cbn [bind] in Hev; [|discriminate].
    destruct (eval_expr d en e2) as [y|]; cbn [bind] in Hev; [|discriminate].
    apply boolish_has_type. eapply or3_boolish. exact Hev.
  - (* ENot *)
    cbn [type_of] in Hty. destruct (type_of te e); [|discriminate].
    destruct (boolish t0); [|discriminate]. injection Hty as Hty. subst t.
    rewrite eval_not_unfold in Hev.
    destruct (eval_expr d en e) as [x|]; cbn [bind] in Hev; [|discriminate].
    apply boolish_has_type. eapply not3_boolish. exact Hev.
  - (* EIsNull *)
    cbn [type_of] in Hty. destruct (type_of te e); [|discriminate]. injection Hty as Hty. subst t.
    rewrite eval_isnull_unfold in Hev.
    destruct (eval_expr d en e) as [x|]; cbn [bind] in Hev; [|discriminate].
    injection Hev as Hev. subst v0. exact I.
  - (* EArith *)
    cbn [type_of] in Hty.
    destruct (type_of te e1) as [ta|] eqn:Ta; [|discriminate].
    destruct (type_of te e2) as [tb|] eqn:Tb; [|discriminate].
    destruct (arith_width e1 e2 ta tb) as [w'|] eqn:Ew; [|discriminate].
    destruct (N.eqb w w') eqn:Eq; [|discriminate]. apply N.eqb_eq in Eq. subst w'.
    injection Hty as Hty. subst t.
    rewrite eval_arith_unfold in Hev.
    destruct (eval_expr d en e1) as [x|] eqn:Ex; cbn [bind] in Hev; [|discriminate].
    destruct (eval_expr d en e2) as [y|] eqn:Ey; cbn [bind] in Hev; [|discriminate].
    eapply (arith_sound d en op e1 e2 ta tb w x y v0 Ew Ex Ey); [| |exact Hev].
    + eapply IHe1; eassumption.
    + eapply IHe2; eassumption.
  - (* ENeg *)
    cbn [type_of] in Hty. destruct (type_of te e) as [ta|] eqn:Ta; [|discriminate].
    destruct ta as [| |wa|]; try discriminate.
    destruct (N.eqb w wa) eqn:Eq; [|discriminate]. injection Hty as Hty. subst t.
    rewrite eval_neg_unfold in Hev.
    destruct (eval_expr d en e) as [x|] eqn:Ex; cbn [bind] in Hev; [|discriminate].
    unfold arith in Hev. destruct x as [| |zx|]; try discriminate.
    + injection Hev as Hev. subst v0. exact I.
    + destruct (in_range w (0 - zx)) eqn:E; [|discriminate]. injection Hev as Hev. subst v0. exact E.
  - (* ECase *)
    rewrite eval_case_unfold in Hev. cbn [type_of] in Hty.
    match goal with HF : Forall _ bs |- _ => rename HF into HF0 end.
    match type of Hty with
    | match ?g with _ => _ end = _ => destruct g as [tr|] eqn:Tr; [|discriminate]
    end.
    destruct (type_of te e) as [tel|] eqn:Tel; [|destruct tr; discriminate].
    (* a value of the CASE is a THEN value of the unified THEN type, or the ELSE value *)
    assert (Hsplit : has_type v0 tr \/ eval_expr d en e = Ok v0).
    { clear Hty. revert tr Tr v0 Hev.
      induction HF0 as [|[c tb] bs' [Pc Pt] HF IHbs]; intros tr Tr v0 Hev.
      - right. exact Hev.
      - cbn [fst snd] in Pc, Pt.
        destruct (type_of te c) as [tc|] eqn:Tc; [|discriminate].
        destruct (type_of te tb) as [tt'|] eqn:Tt; [|discriminate].
        match type of Tr with
        | match ?g with _ => _ end = _ => destruct g as [tr'|] eqn:Tr'; [|discriminate]
        end.
        destruct (boolish tc); [|discriminate].
        cbn [case_go] in Hev.
        destruct (eval_expr d en c) as [cv|]; cbn [bind] in Hev; [|discriminate].
        destruct (is_true cv).
        + left. eapply unify_ty_l; [exact Tr|]. eapply Pt; eassumption.
        + destruct (IHbs tr' eq_refl v0 Hev) as [Hl|Hr]; [left; eapply unify_ty_r; [exact Tr|exact Hl]|right; exact Hr]. }
    assert (Ht : t = tr /\ (tel = TNull \/ tel = tr)).
    { destruct tel; try (injection Hty as Hty; subst t; split; [reflexivity|left; reflexivity]);
        (destruct (ty_eqb tr _) eqn:E; [|discriminate]; injection Hty as Hty; subst t; split; [reflexivity|right];
         destruct tr; cbn in E; try discriminate; try reflexivity; apply N.eqb_eq in E; subst; reflexivity). }
    destruct Ht as [Ht Hel]. subst t.
    destruct Hsplit as [Hl|Hr]; [exact Hl|].
    pose proof (IHe te tel d en v0 Tel Hok Hr) as Hv.
    destruct Hel as [Hn|Heq]; [subst tel; apply has_type_null in Hv; subst v0; exact I|subst tel; exact Hv].
  - (* EInList *)
    cbn [type_of] in Hty. destruct (type_of te e); [|discriminate].
    destruct (forallb _ es); [|discriminate]. injection Hty as Hty. subst t.
    rewrite eval_inlist_unfold in Hev.
    destruct (eval_expr d en e) as [x|]; cbn [bind] in Hev; [|discriminate].
    destruct (mapM (eval_expr d en) es) as [vs|]; cbn [bind] in Hev; [|discriminate].
    destruct (in_set x vs) as [r|] eqn:Er; cbn [bind] in Hev; [|discriminate].
    apply in_set_boolish in Er. apply boolish_has_type.
    destruct neg; [eapply not3_boolish; exact Hev|injection Hev as Hev; subst v0; exact Er].
  - (* EExists *)
    cbn [type_of] in Hty. injection Hty as Hty. subst t. cbn [eval_expr] in Hev.
    destruct (eval_query d en q) as [rows|]; cbn [bind] in Hev; [|discriminate].
    injection Hev as Hev. subst v0. exact I.
  - (* EInSub *)
    cbn [type_of] in Hty. destruct (type_of te e); [|discriminate]. injection Hty as Hty. subst t.
    cbn [eval_expr] in Hev.
    destruct (eval_expr d en e) as [x|]; cbn [bind] in Hev; [|discriminate].
    destruct (eval_query d en q) as [rows|]; cbn [bind] in Hev; [|discriminate].
    destruct (in_set x (map (fun r => hd VNull r) rows)) as [r|] eqn:Er; cbn [bind] in Hev; [|discriminate].
    apply in_set_boolish in Er. apply boolish_has_type.
    destruct neg; [eapply not3_boolish; exact Hev|injection Hev as Hev; subst v0; exact Er].
  - (* EScalar *)
    cbn [type_of] in Hty. discriminate.
Qed.

(* the hypotheses are satisfiable, with every typing rule exercised:
   CASE WHEN c0 + 5 > 100 AND c2 IS NOT NULL THEN c1 % c0 ELSE NULL END   over (c0 Int8, c1 Int32, c2 Utf8) *)
Example typing_example :
  let te := [[TInt 8; TInt 32; TStr]] in
  let e := ECase [(EAnd (ECmp CGt (EArith Add 8 (ECol 0 0) (EConst (VInt 5))) (EConst (VInt 100)))
                        (EIsNull true (ECol 0 2)),
                   EArith Rem 32 (ECol 0 1) (ECol 0 0))] (EConst VNull) in
  type_of te e = Some (TInt 32) /\ annotate te e = e /\
  env_ok [[VInt 100; VInt (-7); VNull]] te /\
  eval_expr [] [[VInt 100; VInt (-7); VNull]] e = Ok VNull.
Proof.
  cbn zeta. split; [reflexivity|]. split; [reflexivity|]. split; [|reflexivity].
  repeat constructor.
Qed.

(* ---------------------------------------------------------------- aggregates *)
Lemma dedup_rows_in : forall l r, In r (dedup_rows l) -> In r l.
Proof.
  induction l as [|x l IH]; intros r H; cbn [dedup_rows] in H; [contradiction|].
  destruct H as [H|H]; [left; exact H|]. right. apply filter_In in H. apply IH. exact (proj1 H).
Qed.

Lemma agg_values_typed : forall dis vs t, Forall (fun x => has_type x t) vs -> Forall (fun x => has_type x t) (agg_values dis vs).
Proof.
  intros dis vs t H. unfold agg_values. rewrite Forall_forall in *.
  destruct dis.
  - intros x Hx. apply in_map_iff in Hx. destruct Hx as [r [Hr Hin]]. apply dedup_rows_in in Hin.
    apply in_map_iff in Hin. destruct Hin as [v [Hv Hin]]. subst r. cbn in Hr. subst x.
    apply filter_In in Hin. apply H. exact (proj1 Hin).
  - intros x Hx. apply filter_In in Hx. apply H. exact (proj1 Hx).
Qed.

Lemma agg_values_nonnull : forall dis vs x, In x (agg_values dis vs) -> x <> VNull.
Proof.
  intros dis vs x Hx. unfold agg_values in Hx.
  assert (Hf : forall y, In y (filter (fun v => match v with VNull => false | _ => true end) vs) -> y <> VNull).
  { intros y Hy. apply filter_In in Hy. destruct Hy as [_ Hy]. destruct y; [discriminate| | |]; discriminate. }
  destruct dis; [|apply Hf; exact Hx].
  apply in_map_iff in Hx. destruct Hx as [r [Hr Hin]]. apply dedup_rows_in in Hin.
  apply in_map_iff in Hin. destruct Hin as [v [Hv Hin]]. subst r. cbn in Hr. subst x. apply Hf. exact Hin.
Qed.

Lemma sum_ints_typed : forall xs acc v,
  Forall (fun x => has_type x (TInt 64)) xs -> (forall a, acc = Ok a -> has_type a (TInt 64)) ->
  fold_left (fun acc v => do a <- acc;
                          match a, v with
                          | VNull, VInt x => Ok (VInt x)
                          | VInt s, VInt x => if in_range 64 (s + x) then Ok (VInt (s + x)) else Err EOverflow
                          | _, _ => Err EType
                          end) xs acc = Ok v -> has_type v (TInt 64).
Proof.
  induction xs as [|x xs IH]; intros acc v Hxs Hacc H; cbn [fold_left] in H.
  - apply Hacc. exact H.
  - inversion Hxs as [|? ? Hx Hrest]; subst. eapply IH; [exact Hrest| |exact H].
    intros a Ha. destruct acc as [a0|]; cbn [bind] in Ha; [|discriminate].
    destruct a0 as [| |s|], x as [| |zx|]; try discriminate.
    + injection Ha as Ha. subst a. exact Hx.
    + destruct (in_range 64 (s + zx)) eqn:E; [|discriminate]. injection Ha as Ha. subst a. exact E.
Qed.

Lemma extremum_typed : forall want xs t acc v,
  Forall (fun x => has_type x t) xs -> (forall a, acc = Ok a -> has_type a t) ->
  fold_left (fun acc v => do a <- acc;
                          match a with
                          | VNull => Ok v
                          | _ => match val_compare v a with
                                 | Some c => Ok (if match c, want with Lt, Lt | Gt, Gt => true | _, _ => false end
                                                 then v else a)
                                 | None => Err EType
                                 end
                          end) xs acc = Ok v -> has_type v t.
Proof.
  intros want. induction xs as [|x xs IH]; intros t acc v Hxs Hacc H; cbn [fold_left] in H.
  - apply Hacc. exact H.
  - inversion Hxs as [|? ? Hx Hrest]; subst. eapply IH; [exact Hrest| |exact H].
    intros a Ha. destruct acc as [a0|]; cbn [bind] in Ha; [|discriminate].
    assert (H0 : has_type a0 t) by (apply Hacc; reflexivity).
    destruct a0; try (injection Ha as Ha; subst a; exact Hx);
      (match type of Ha with context [val_compare x ?y] => destruct (val_compare x y) as [c|] end;
       [|discriminate]; injection Ha as Ha; subst a;
       destruct (match c, want with Lt, Lt | Gt, Gt => true | _, _ => false end); assumption).
Qed.

Lemma bool_fold_boolish : forall (u : bool) xs acc v,
  (forall a, acc = Ok a -> boolish_val a) ->
  fold_left (fun acc v => do a <- acc;
                          match a, v with
                          | VNull, VBool b => Ok (VBool b)
                          | VBool x, VBool b => Ok (VBool (if u then andb x b else orb x b))
                          | _, _ => Err EType
                          end) xs acc = Ok v -> boolish_val v.
Proof.
  intros u. induction xs as [|x xs IH]; intros acc v Hacc H; cbn [fold_left] in H.
  - apply Hacc. exact H.
  - eapply IH; [|exact H]. intros a Ha. destruct acc as [a0|]; cbn [bind] in Ha; [|discriminate].
    destruct a0, x; try discriminate; injection Ha as Ha; subst a; right; eexists; reflexivity.
Qed.

(* aggregate results have the announced type; counts are assumed to fit Int64 *)
Theorem agg_has_announced_type : forall f dis nrows vs targ t v,
  agg_type f targ = Some t -> Forall (fun x => has_type x targ) vs ->
  in_range 64 (Z.of_nat nrows) = true -> in_range 64 (Z.of_nat (List.length (agg_values dis vs))) = true ->
  agg_apply f dis nrows vs = Ok v -> has_type v t.
Proof.
  intros f dis nrows vs targ t v Hty Hvs Hn Hc H. unfold agg_apply in H.
  pose proof (agg_values_typed dis vs targ Hvs) as Hxs.
  destruct f; cbn [agg_type] in Hty.
  - injection Hty as Hty. injection H as H. subst t v. exact Hn.
  - injection Hty as Hty. injection H as H. subst t v. exact Hc.
  - assert (Ht : t = TInt 64).
    { destruct targ as [| |w|]; try discriminate; [injection Hty as Hty; congruence|].
      destruct (N.leb w 64); [injection Hty as Hty; congruence|discriminate]. }
    subst t. unfold sum_ints in H.
    apply (sum_ints_typed (agg_values dis vs) (Ok VNull) v); [| |exact H].
    + rewrite Forall_forall in *. intros x Hx. specialize (Hxs x Hx).
      destruct targ as [| |w|]; try discriminate.
      * apply has_type_null in Hxs. subst x. exact I.
      * destruct (N.leb w 64) eqn:E; [|discriminate]. apply N.leb_le in E.
        destruct x; cbn in Hxs |- *; try exact I; try contradiction. eapply in_range_mono; eassumption.
    + intros a Ha. injection Ha as Ha. subst a. exact I.
  - injection Hty as Hty. subst t.
    apply (extremum_typed Lt (agg_values dis vs) targ (Ok VNull) v Hxs); [|exact H].
    intros a Ha. injection Ha as Ha. subst a. exact I.
  - injection Hty as Hty. subst t.
    apply (extremum_typed Gt (agg_values dis vs) targ (Ok VNull) v Hxs); [|exact H].
    intros a Ha. injection Ha as Ha. subst a. exact I.
  - destruct (boolish targ); [|discriminate]. injection Hty as Hty. subst t. apply boolish_has_type.
    apply (bool_fold_boolish true (agg_values dis vs) (Ok VNull) v); [|exact H]. intros a Ha. injection Ha as Ha. subst a. left. reflexivity.
  - destruct (boolish targ); [|discriminate]. injection Hty as Hty. subst t. apply boolish_has_type.
    apply (bool_fold_boolish false (agg_values dis vs) (Ok VNull) v); [|exact H]. intros a Ha. injection Ha as Ha. subst a. left. reflexivity.
Qed.
