(* C09: correlated subqueries mean what nested evaluation means (dependent join `rdep` / `pdep` of
   model/Rel.v = evaluate the subquery once per outer row); the rewrites of
   /repo/crates/glaredb_core/src/logical/planner/plan_subquery.rs as algebraic identities, the ones the
   engine gets wrong as closed refutations. *)
From Coq Require Import NArith ZArith List Bool Permutation Lia.
From GV Require Import lib.Bytes model.Sql model.Rel proofs.RelProofs.
Import ListNotations.

(* ================================================================ 7. the magic-set identity *)

(* join-back condition between an outer row (arity la) and a right row that carries the correlated values in
   its first `length cs` columns; eqf is the row comparison used (null-safe row_same, or plain = ) *)
Definition on_corr (eqf : list value -> list value -> bool) (cs : list nat) (la : nat) : list value -> bool :=
  fun x => eqf (cols cs (firstn la x)) (firstn (length cs) (skipn la x)).
(* the projection that forgets the duplicated correlated columns *)
Definition drop_corr (la n : nat) : list value -> list value := fun x => firstn la x ++ skipn (la + n) x.

(* T  JOIN[corr, eqf]  ( DISTINCT(pi_corr T)  DEPJOIN  sub' ) *)
Definition magic_rhs eqf (cs : list nat) (la ra : nat) (T : list (list value)) (sub' : list value -> list (list value)) :=
  pproject (drop_corr la (length cs))
    (pjoin JInner T (pdep (rdistinct (pproject (cols cs) T)) sub') la ra (on_corr eqf cs la)).

Lemma cols_length cs x : length (cols cs x) = length cs.
Proof. unfold cols. apply map_length. Qed.

Lemma flat_map_single_in {A B} (test : A -> bool) (F : A -> list B) k0 D :
  NoDup D -> In k0 D -> (forall k, In k D -> (test k = true <-> k = k0)) ->
  flat_map (fun k => if test k then F k else []) D = F k0.
Proof.
  intros Hn. induction Hn as [|k D Hk Hn IH]; intros Hin Ht; [destruct Hin|]. cbn [flat_map].
  destruct Hin as [->|Hin].
  - rewrite (proj2 (Ht k0 (or_introl eq_refl)) eq_refl).
    rewrite (flat_map_ext_in _ (fun _ => [])), flat_map_nil; [apply app_nil_r|].
    intros k Hk'. destruct (test k) eqn:Htk; [|reflexivity].
    apply (Ht k (or_intror Hk')) in Htk. subst k. contradiction.
  - destruct (test k) eqn:Htk.
    + apply (Ht k (or_introl eq_refl)) in Htk. subst k. contradiction.
    + cbn [app]. apply IH; [exact Hin|]. intros k' Hk'. apply Ht. right. exact Hk'.
Qed.

Lemma matches_pdep on t D (sub' : list value -> list (list value)) :
  matches on t (pdep D sub')
  = flat_map (fun k => flat_map (fun s => if on (t ++ k ++ s) then [t ++ k ++ s] else []) (sub' k)) D.
Proof.
  unfold matches, pdep. rewrite flat_map_flat_map. apply flat_map_ext_in. intros k _.
  rewrite flat_map_map. reflexivity.
Qed.

Lemma flat_map_if_const {A B} (test : A -> bool) (F : A -> B) (c : bool) l :
  (forall s, In s l -> test s = c) ->
  flat_map (fun s => if test s then [F s] else []) l = if c then map F l else [].
Proof.
  induction l as [|s l IH]; intros H; [destruct c; reflexivity|]. cbn [flat_map map].
  rewrite (H s (or_introl eq_refl)), IH by (intros s' Hs'; apply H; right; exact Hs').
  destruct c; reflexivity.
Qed.

Lemma drop_corr_app la t k s : length t = la -> drop_corr la (length k) (t ++ k ++ s) = t ++ s.
Proof.
  intros Hl. unfold drop_corr. destruct (split_at t (k ++ s) la Hl) as [-> _]. f_equal.
  rewrite <- Hl, app_assoc, skipn_app, app_length, Nat.sub_diag.
  rewrite skipn_all2 by (rewrite app_length; lia). reflexivity.
Qed.

Lemma magic_set_generic eqf cs la ra T sub sub' :
  arity la T ->
  (forall x, In x T -> sub x = sub' (cols cs x)) ->
  (forall t k, In t T -> In k (rdistinct (pproject (cols cs) T)) -> (eqf (cols cs t) k = true <-> k = cols cs t)) ->
  pdep T sub = magic_rhs eqf cs la ra T sub'.
Proof.
  intros Ha Hsub Heq. unfold magic_rhs. unfold pproject at 1. unfold pdep at 1. cbn [pjoin].
  rewrite map_flat_map. apply flat_map_ext_in. intros t Ht.
  assert (Hlt : length t = la) by (unfold arity in Ha; rewrite Forall_forall in Ha; auto).
  assert (HD : forall k, In k (rdistinct (pproject (cols cs) T)) -> length k = length cs).
  { intros k Hk. unfold rdistinct, pproject in Hk. apply (proj1 (dedup_rows_In _ _)) in Hk.
    apply in_map_iff in Hk as [t' [<- _]]. apply cols_length. }
  assert (HinD : In (cols cs t) (rdistinct (pproject (cols cs) T))).
  { unfold rdistinct, pproject. apply (proj2 (dedup_rows_In _ _)). apply in_map. exact Ht. }
  rewrite matches_pdep.
  rewrite (flat_map_ext_in _ (fun k => if eqf (cols cs t) k then map (fun s => t ++ k ++ s) (sub' k) else [])).
  - rewrite (flat_map_single_in (fun k => eqf (cols cs t) k) (fun k => map (fun s => t ++ k ++ s) (sub' k)) (cols cs t)).
    + rewrite map_map, (Hsub t Ht). apply map_ext. intros s.
      rewrite <- (cols_length cs t). symmetry. apply drop_corr_app, Hlt.
    + apply dedup_rows_NoDup.
    + exact HinD.
    + intros k Hk. apply Heq; assumption.
  - intros k Hk. apply flat_map_if_const. intros s _. unfold on_corr.
    destruct (split_at t (k ++ s) la Hlt) as [-> ->].
    destruct (split_at k s (length cs) (HD k Hk)) as [-> _]. reflexivity.
Qed.

(* THE IDENTITY, for the null-safe comparison (IS NOT DISTINCT FROM on every correlated column) *)
Theorem magic_set_identity cs la ra T sub sub' :
  arity la T -> (forall x, In x T -> sub x = sub' (cols cs x)) ->
  pdep T sub ≡b magic_rhs row_same cs la ra T sub'.
Proof.
  intros Ha Hsub. apply bag_eq_of_eq. apply magic_set_generic; [exact Ha|exact Hsub|].
  intros t k _ _. rewrite row_same_iff. split; congruence.
Qed.

Example magic_set_identity_ex :
  let T := [[VNull]; [VInt 1]] in
  let sub' := fun k : list value => [[hd VNull k]] in
  arity 1%nat T /\ (forall x, In x T -> sub' (cols [0%nat] x) = sub' (cols [0%nat] x)).
Proof. split; [repeat constructor|reflexivity]. Qed.

(* plain `=` (NULL = NULL is not true) loses the partners of outer rows with a NULL correlated value:
   T = {(NULL)}, the subquery returns (7) for every outer row *)
Theorem magic_set_identity_plain_eq_refuted :
  exists cs la ra T sub',
    arity la T /\ ~ (pdep T (fun x => sub' (cols cs x)) ≡b magic_rhs row_eq_true cs la ra T sub').
Proof.
  exists [0%nat], 1%nat, 2%nat, [[VNull]], (fun _ => [[VInt 7]]). split; [repeat constructor|].
  vm_compute. intros H. apply Permutation_sym, Permutation_nil in H. discriminate.
Qed.

Lemma eq_true_same a b : a <> VNull -> eq_true a b = val_same a b.
Proof.
  intros Ha. unfold eq_true, cmp3, val_same.
  destruct a as [|x|x|x], b as [|y|y|y]; try contradiction; try reflexivity; cbn [val_compare].
  - destruct x, y; reflexivity.
  - destruct (Z.compare x y); reflexivity.
  - destruct (lex_cmp x y); reflexivity.
Qed.

Lemma row_eq_true_same a : Forall (fun v => v <> VNull) a -> forall b, row_eq_true a b = row_same a b.
Proof.
  induction 1 as [|x a Hx Ha IH]; intros [|y b]; try reflexivity. cbn [row_eq_true row_same].
  rewrite (eq_true_same x y Hx), IH. reflexivity.
Qed.

(* ... and plain `=` is enough when no outer row has a NULL in a correlated column *)
Theorem magic_set_identity_plain_eq_nonnull cs la ra T sub sub' :
  arity la T -> (forall x, In x T -> sub x = sub' (cols cs x)) ->
  (forall t, In t T -> Forall (fun v => v <> VNull) (cols cs t)) ->
  pdep T sub ≡b magic_rhs row_eq_true cs la ra T sub'.
Proof.
  intros Ha Hsub Hnn. apply bag_eq_of_eq. apply magic_set_generic; [exact Ha|exact Hsub|].
  intros t k Ht _. rewrite (row_eq_true_same _ (Hnn t Ht)), row_same_iff. split; congruence.
Qed.

Example magic_set_identity_plain_eq_nonnull_ex :
  forall t, In t [[VInt 1]; [VInt 2]] -> Forall (fun v => v <> VNull) (cols [0%nat] t).
Proof. intros t [<-|[<-|[]]]; repeat constructor; discriminate. Qed.

(* res-level: when the subquery evaluates without error for every outer row *)
Theorem magic_set_identity_res cs la ra T (sub sub' : list value -> res (list (list value))) :
  arity la T -> (forall x, In x T -> sub x = sub' (cols cs x)) -> total_on sub T ->
  rdep T sub ≡r
  (do R <- rdep (rdistinct (pproject (cols cs) T)) sub';
   do j <- rjoin JInner T R la ra (fun x => Ok (on_corr row_same cs la x));
   Ok (pproject (drop_corr la (length cs)) j)).
Proof.
  intros Ha Hsub Ht.
  rewrite (rdep_total T sub Ht).
  assert (Ht' : total_on sub' (rdistinct (pproject (cols cs) T))).
  { intros k Hk. unfold rdistinct, pproject in Hk. apply (proj1 (dedup_rows_In _ _)) in Hk.
    apply in_map_iff in Hk as [t [<- Hin]].
    rewrite <- (Hsub t Hin). apply Ht, Hin. }
  rewrite (rdep_total _ sub' Ht'). cbn [bind].
  rewrite rjoin_total by (intros l r _ _; eexists; reflexivity). cbn [bind].
  apply (magic_set_identity cs la ra T (fun x => unres [] (sub x)) (fun k => unres [] (sub' k))); [exact Ha|].
  intros x Hx. rewrite (Hsub x Hx). reflexivity.
Qed.

(* ================================================================ 8. pushing the dependent join down *)

(* a subplan without correlation: dependent join = cross product (the base case of `pushdown`) *)
Theorem dep_uncorrelated_is_cross D (S : list (list value)) : pdep D (fun _ => S) = rcross D S.
Proof. reflexivity. Qed.

(* through a Filter: the (correlated) predicate becomes a predicate over outer ++ inner columns *)
Theorem dep_push_filter la T (sub : list value -> list (list value)) (p : list value -> list value -> bool) :
  arity la T ->
  pdep T (fun x => pfilter (p x) (sub x))
  ≡b pfilter (fun xs => p (firstn la xs) (skipn la xs)) (pdep T sub).
Proof.
  intros Ha. apply bag_eq_of_eq. unfold pdep, pfilter. rewrite filter_flat_map. apply flat_map_ext_in.
  intros t Ht. assert (Hl : length t = la) by (unfold arity in Ha; rewrite Forall_forall in Ha; auto).
  induction (sub t) as [|s ss IH]; [reflexivity|]. cbn [filter map].
  destruct (split_at t s la Hl) as [-> ->]. destruct (p t s); cbn [map]; rewrite IH; reflexivity.
Qed.

Example dep_push_filter_ex : arity 1%nat [[VInt 1]; [VNull]].
Proof. repeat constructor. Qed.

(* through a Project: the outer columns are carried along (appended in the source, prefixed here) *)
Theorem dep_push_project la T (sub : list value -> list (list value)) (f : list value -> list value -> list value) :
  arity la T ->
  pdep T (fun x => pproject (f x) (sub x))
  ≡b pproject (fun xs => firstn la xs ++ f (firstn la xs) (skipn la xs)) (pdep T sub).
Proof.
  intros Ha. apply bag_eq_of_eq. unfold pdep, pproject. rewrite map_flat_map. apply flat_map_ext_in.
  intros t Ht. assert (Hl : length t = la) by (unfold arity in Ha; rewrite Forall_forall in Ha; auto).
  rewrite !map_map. apply map_ext. intros s. destruct (split_at t s la Hl) as [-> ->]. reflexivity.
Qed.

(* through a cross product with an uncorrelated side *)
Theorem dep_push_cross T (s1 : list value -> list (list value)) (S2 : list (list value)) :
  pdep T (fun x => rcross (s1 x) S2) ≡b rcross (pdep T s1) S2.
Proof.
  apply bag_eq_of_eq. unfold pdep, rcross. rewrite flat_map_flat_map. apply flat_map_ext_in. intros t _.
  rewrite flat_map_map, map_flat_map. apply flat_map_ext_in. intros u _.
  rewrite map_map. apply map_ext. intros v. apply app_assoc.
Qed.

(* through DISTINCT (no change to the node: the correlated columns are part of the row) *)
Theorem dep_push_distinct D (sub : list value -> list (list value)) :
  NoDup D -> (forall k k', In k D -> In k' D -> length k = length k') ->
  pdep D (fun k => rdistinct (sub k)) ≡b rdistinct (pdep D sub).
Proof.
  intros Hn Hlen. apply bag_eq_of_eq. unfold pdep, rdistinct.
  induction Hn as [|k D Hk Hn IH]; [reflexivity|]. cbn [flat_map].
  assert (Hd : forall (l1 l2 : list (list value)),
     (forall x y, In x l1 -> In y l2 -> row_same x y = false) ->
     dedup_rows (l1 ++ l2) = dedup_rows l1 ++ dedup_rows l2).
  { clear. induction l1 as [|x l1 IH]; intros l2 Hd; [reflexivity|]. cbn [app dedup_rows].
    rewrite IH by (intros a b Ha Hb; apply Hd; [right; exact Ha|exact Hb]).
    rewrite filter_app. f_equal. f_equal.
    rewrite (filter_ext_in (fun y => negb (row_same x y)) (fun _ => true)).
    - clear. induction (dedup_rows l2) as [|y l IH]; [reflexivity|]. cbn. rewrite IH. reflexivity.
    - intros y Hy. apply (proj1 (dedup_rows_In _ _)) in Hy. rewrite (Hd x y (or_introl eq_refl) Hy). reflexivity. }
  rewrite Hd.
  - rewrite <- IH by (intros a b Ha Hb; apply Hlen; right; assumption). f_equal.
    (* dedup of rows that all carry the same prefix k *)
    clear. induction (sub k) as [|s ss IHs]; [reflexivity|]. cbn [map dedup_rows]. f_equal.
    rewrite <- IHs. clear IHs. induction (dedup_rows ss) as [|u us IHu]; [reflexivity|]. cbn [filter map].
    assert (Hs : row_same (k ++ s) (k ++ u) = row_same s u).
    { clear. induction k as [|v k IH]; [reflexivity|]. cbn. rewrite val_same_refl, IH. reflexivity. }
    rewrite Hs. destruct (row_same s u); cbn [negb map]; rewrite IHu; reflexivity.
  - intros x y Hx Hy. apply in_map_iff in Hx as [s [<- _]].
    apply in_flat_map in Hy as [k' [Hk' Hy]]. apply in_map_iff in Hy as [s' [<- _]].
    destruct (row_same (k ++ s) (k' ++ s')) eqn:Hs; [|reflexivity]. exfalso.
    apply row_same_eq in Hs.
    assert (Hkk : length k = length k') by (apply Hlen; [left; reflexivity|right; exact Hk']).
    apply (f_equal (firstn (length k))) in Hs.
    destruct (split_at k s (length k) eq_refl) as [Hs1 _]. rewrite Hs1 in Hs.
    destruct (split_at k' s' (length k) (eq_sym Hkk)) as [Hs2 _]. rewrite Hs2 in Hs.
    subst k'. contradiction.
Qed.

Example dep_push_distinct_ex :
  NoDup [[VInt 1]; [VNull]] /\ (forall k k', In k [[VInt 1]; [VNull]] -> In k' [[VInt 1]; [VNull]] -> length k = length k').
Proof.
  split.
  - constructor; [intros [H|[]]; discriminate|constructor; [intros []|constructor]].
  - intros k k' [<-|[<-|[]]] [<-|[<-|[]]]; reflexivity.
Qed.

(* ================================================================ 9. EXISTS / NOT EXISTS / scalar / IN *)

(* EXISTS (SELECT .. FROM R WHERE on(outer, r)) over each outer row = semi join; NOT EXISTS = anti join;
   as a value = the mark-join flag *)
Theorem exists_as_semi_join la ra T R on :
  pdep_semi T (fun x => pfilter (fun r => on (x ++ r)) R) ≡b pjoin JSemi T R la ra on.
Proof.
  apply bag_eq_of_eq. unfold pdep_semi. cbn [pjoin]. rewrite <- flat_map_filter_single.
  apply flat_map_ext_in. intros x _. unfold pfilter. rewrite nonempty_filter. reflexivity.
Qed.

Theorem not_exists_as_anti_join la ra T R on :
  pdep_anti T (fun x => pfilter (fun r => on (x ++ r)) R) ≡b pjoin JAnti T R la ra on.
Proof.
  apply bag_eq_of_eq. unfold pdep_anti. cbn [pjoin]. rewrite <- flat_map_filter_single.
  apply flat_map_ext_in. intros x _. unfold pfilter. rewrite nonempty_filter.
  destruct (existsb (fun r => on (x ++ r)) R); reflexivity.
Qed.

Theorem exists_as_mark_join T R on :
  pdep_mark T (fun x => pfilter (fun r => on (x ++ r)) R) ≡b pmark T R on.
Proof.
  apply bag_eq_of_eq. unfold pdep_mark, pmark. apply map_ext. intros x. unfold pfilter.
  rewrite nonempty_filter. reflexivity.
Qed.

(* res level: the dependent semi join of Rel.v (the subquery evaluated per outer row in the res monad) *)
Theorem exists_as_semi_join_res la ra T R (on : list value -> res bool) :
  pairs_total on T R ->
  rdep_semi T (fun x => rfilter (fun r => on (x ++ r)) R) ≡r rjoin JSemi T R la ra on.
Proof.
  intros Ht.
  assert (Hs : total_on (fun x => rfilter (fun r => on (x ++ r)) R) T).
  { intros x Hx. rewrite rfilter_total by (intros r Hr; apply Ht; assumption). eauto. }
  rewrite (rdep_semi_total _ _ Hs), (rjoin_total _ _ _ _ _ _ Ht).
  cbn [res_bag_eq].
  replace (pdep_semi T (fun x => unres [] (rfilter (fun r => on (x ++ r)) R)))
    with (pdep_semi T (fun x => pfilter (fun r => pure_of on (x ++ r)) R)).
  - apply (exists_as_semi_join la ra T R (pure_of on)).
  - unfold pdep_semi. apply filter_ext_in. intros x Hx.
    rewrite rfilter_total by (intros r Hr; apply Ht; assumption). reflexivity.
Qed.

Example exists_as_semi_join_res_ex : pairs_total (pexpr (ECmp CEq (ECol 0 0) (ECol 0 1))) [[VInt 1]; [VNull]] [[VInt 1]].
Proof. intros l r [<-|[<-|[]]] [<-|[]]; eexists; reflexivity. Qed.

(* ---- correlated scalar aggregate:  SELECT l.*, (SELECT agg(arg) FROM R WHERE on(l, r)) FROM T l *)

(* nested evaluation: a global aggregate has one group even over no rows; EScalar takes its single row *)
Definition scalar_agg_nested (fn : aggfn) (T R : list (list value)) (on : list value -> bool)
                             (arg : list value -> value) : res (list (list value)) :=
  mapM (fun l => let ms := filter (fun r => on (l ++ r)) R in
                 do v <- agg_apply fn false (length ms) (map arg ms); Ok (l ++ [v])) T.

(* the LEFT-join rewrite: aggregate grouped by the correlated columns (only groups that HAVE rows exist),
   LEFT-joined back: an outer row without partner gets NULL
   = CASE WHEN EXISTS (rows feeding the aggregate) THEN (subquery) ELSE NULL END   (sqlast.py count_null) *)
Definition scalar_agg_leftjoin (fn : aggfn) (T R : list (list value)) (on : list value -> bool)
                               (arg : list value -> value) : res (list (list value)) :=
  mapM (fun l => let ms := filter (fun r => on (l ++ r)) R in
                 match ms with
                 | [] => Ok (l ++ [VNull])
                 | _ => do v <- agg_apply fn false (length ms) (map arg ms); Ok (l ++ [v])
                 end) T.

Definition null_on_empty (fn : aggfn) : bool :=
  match fn with ACountStar | ACount => false | _ => true end.

Theorem scalar_agg_decorrelation fn T R on arg :
  null_on_empty fn = true -> scalar_agg_leftjoin fn T R on arg = scalar_agg_nested fn T R on arg.
Proof.
  intros Hf. unfold scalar_agg_leftjoin, scalar_agg_nested.
  induction T as [|l T IH]; [reflexivity|]. rewrite !mapM_cons, IH.
  destruct (filter (fun r => on (l ++ r)) R) as [|m ms]; [|reflexivity].
  destruct fn; try discriminate; reflexivity.
Qed.

Example scalar_agg_decorrelation_ex : null_on_empty ASum = true /\ null_on_empty AMin = true /\ null_on_empty AMax = true.
Proof. repeat split. Qed.

(* count: the specification says 0, the rewrite gives NULL.
   SELECT l.a, (SELECT count( * ) FROM r WHERE r.b = l.a) FROM l   with l = {(1)}, r = {} *)
Theorem scalar_agg_decorrelation_count_refuted :
  exists fn T R on arg,
    scalar_agg_nested fn T R on arg = Ok [[VInt 1; VInt 0]] /\
    scalar_agg_leftjoin fn T R on arg = Ok [[VInt 1; VNull]].
Proof.
  exists ACountStar, [[VInt 1]], [], (fun x => eq_true (nth 0 x VNull) (nth 1 x VNull)), (fun _ => VNull).
  split; reflexivity.
Qed.

Theorem scalar_agg_decorrelation_count_col_refuted :
  exists T R on arg,
    scalar_agg_nested ACount T R on arg = Ok [[VInt 1; VInt 0]] /\
    scalar_agg_leftjoin ACount T R on arg = Ok [[VInt 1; VNull]].
Proof.
  exists [[VInt 1]], [[VInt 2]], (fun x => eq_true (nth 0 x VNull) (nth 1 x VNull)), (fun r => nth 0 r VNull).
  split; reflexivity.
Qed.

(* ---- a IN (subquery): the mark join is two-valued
   = EXISTS (SELECT 1 FROM (sub) s WHERE s.c0 = a)   (sqlast.py in2v) *)
Definition in_mark (a : value) (vs : list value) : value := VBool (existsb (eq_true a) vs).

Lemma cmp_all_nonnull a vs cs :
  a <> VNull -> Forall (fun v => v <> VNull) vs -> mapM (fun v => cmp3 CEq a v) vs = Ok cs ->
  existsb is_true cs = existsb (eq_true a) vs /\
  existsb (fun c => match c with VNull => true | _ => false end) cs = false.
Proof.
  intros Ha Hvs. revert cs. induction Hvs as [|v vs Hv Hvs IH]; intros cs Hm.
  - cbn in Hm. injection Hm as <-. split; reflexivity.
  - rewrite mapM_cons in Hm. destruct (cmp3 CEq a v) as [c|e] eqn:Hc; cbn [bind] in Hm; [|discriminate].
    destruct (mapM (fun v0 => cmp3 CEq a v0) vs) as [cs'|e]; cbn [bind] in Hm; [|discriminate].
    injection Hm as <-. destruct (IH cs' eq_refl) as [IH1 IH2]. cbn [existsb]. rewrite IH1, IH2.
    unfold eq_true. rewrite Hc. split.
    + destruct c as [|[]|?|?]; reflexivity.
    + rewrite orb_false_r. unfold cmp3 in Hc.
      destruct a as [|x|x|x], v as [|y|y|y]; try contradiction; cbn [val_compare] in Hc;
        try discriminate; injection Hc as <-; reflexivity.
Qed.

Theorem in_subquery_3vl a vs r :
  a <> VNull -> Forall (fun v => v <> VNull) vs -> in_set a vs = Ok r -> r = in_mark a vs.
Proof.
  intros Ha Hvs Hin. unfold in_mark. destruct vs as [|v vs].
  - cbn in Hin. injection Hin as <-. reflexivity.
  - assert (Hin' : (do cs <- mapM (fun v0 => cmp3 CEq a v0) (v :: vs);
                    Ok (if existsb is_true cs then VBool true
                        else if existsb (fun c => match c with VNull => true | _ => false end) cs then VNull
                        else VBool false)) = Ok r).
    { destruct a; [contradiction| | |]; exact Hin. }
    destruct (mapM (fun v0 => cmp3 CEq a v0) (v :: vs)) as [cs|e] eqn:Hm; cbn [bind] in Hin'; [|discriminate].
    destruct (cmp_all_nonnull a (v :: vs) cs Ha Hvs Hm) as [H1 H2]. rewrite H1, H2 in Hin'.
    injection Hin' as <-. cbn [existsb]. destruct (eq_true a v || existsb (eq_true a) vs); reflexivity.
Qed.

Example in_subquery_3vl_ex :
  VInt 2 <> VNull /\ Forall (fun v => v <> VNull) [VInt 1; VInt 2] /\ in_set (VInt 2) [VInt 1; VInt 2] = Ok (VBool true).
Proof. split; [discriminate|split; [repeat constructor; discriminate|reflexivity]]. Qed.

(* NULL on the left: SQL says NULL, the mark join FALSE;  under NOT IN in a WHERE clause the row is kept *)
Theorem in_subquery_null_lhs_refuted :
  exists a vs, in_set a vs = Ok VNull /\ in_mark a vs = VBool false /\
    (do r <- in_set a vs; do n <- not3 r; collapse3 n) = Ok false /\
    (do n <- not3 (in_mark a vs); collapse3 n) = Ok true.
Proof. exists VNull, [VInt 1]. repeat split. Qed.

(* a NULL in the subquery result and no match: SQL says NULL, the mark join FALSE *)
Theorem in_subquery_null_in_set_refuted :
  exists a vs, in_set a vs = Ok VNull /\ in_mark a vs = VBool false /\
    (do r <- in_set a vs; do n <- not3 r; collapse3 n) = Ok false /\
    (do n <- not3 (in_mark a vs); collapse3 n) = Ok true.
Proof. exists (VInt 2), [VInt 1; VNull]. repeat split. Qed.

(* ================================================================ 10. CTEs and materializations *)

Lemma fold_push_buf bs m : buf (fold_left mat_push bs m) = buf m ++ concat bs.
Proof.
  revert m. induction bs as [|b bs IH]; intros m; cbn [fold_left concat]; [symmetry; apply app_nil_r|].
  rewrite IH. cbn [mat_push buf]. apply app_assoc_reverse.
Qed.
Lemma fold_push_finished bs m : finished (fold_left mat_push bs m) = finished m.
Proof. revert m. induction bs as [|b bs IH]; intros m; cbn [fold_left]; [reflexivity|]. rewrite IH. reflexivity. Qed.

(* every scan of one finished materialization returns the same rows: all the pushed batches, each row once,
   in push order; before the push side has finished no scan returns anything *)
Theorem materialization_scans_agree batches :
  (forall k : nat, mat_scan (materialize batches) = Some (concat batches)) /\
  mat_scan (fold_left mat_push batches mat_empty) = None.
Proof.
  split.
  - intros _. unfold materialize, mat_scan, mat_finish. cbn [finished buf]. rewrite fold_push_buf. reflexivity.
  - unfold mat_scan. rewrite fold_push_finished. reflexivity.
Qed.

(* k readers of one materialization, each applying its own plan f_i: same as each reading the defining rows *)
Theorem materialization_readers batches (readers : list (list (list value) -> list (list value))) :
  map (fun f => option_map f (mat_scan (materialize batches))) readers
  = map (fun f => Some (f (concat batches))) readers.
Proof.
  apply map_ext. intros f. rewrite (proj1 (materialization_scans_agree batches) 0%nat). reflexivity.
Qed.

(* a CTE whose body evaluated to c, stored as one more table: every reference, in whatever environment it is
   evaluated (also inside a correlated subquery), sees exactly c: references are interchangeable with the
   body's value *)
Theorem cte_inline d en q1 c :
  eval_query d en q1 = Ok c ->
  forall en', eval_query (d ++ [c]) en' (QTable (length d)) = eval_query d en q1.
Proof.
  intros H en'. rewrite H. cbn [eval_query]. rewrite nth_error_app2, Nat.sub_diag by lia. reflexivity.
Qed.

Example cte_inline_ex : eval_query [] [] (QValues [[EConst (VInt 1)]]) = Ok [[VInt 1]].
Proof. reflexivity. Qed.

(* two references joined with each other = the body's rows joined with themselves *)
Theorem cte_self_join d en q1 c k on la ra :
  eval_query d en q1 = Ok c ->
  eval_from (d ++ [c]) en (FJoin k (FQuery (QTable (length d))) (FQuery (QTable (length d))) on la ra)
  = join_rows k c c la ra (fun row => opt_pred (eval_expr (d ++ [c]) (row :: en)) on).
Proof.
  intros _. cbn [eval_from eval_query]. rewrite nth_error_app2, Nat.sub_diag by lia. reflexivity.
Qed.
