(* C17 — proofs about model/Csv.v: the decoder state does not depend on the chunking (records accumulating),
   the closed refutation witnesses.  The flush variant is in CsvFlushProofs.v, the RFC-4180 refinement in
   CsvRfcProofs.v. *)
From Coq Require Import NArith List Bool Arith Lia.
From GV Require Import model.Csv.
Import ListNotations.

(* ------------------------------------------------------------------ the end-of-chunk reset is invisible *)
Lemma step_reset : forall d s c, record_final s = true -> dfa_step d s c = dfa_step d StartRecord c.
Proof.
  intros d s c Hs. destruct s; try discriminate Hs;
    unfold dfa_step, dfa_closure, transition_nfa, term_equals, is_end, fst, snd;
    rewrite ?(N.eqb_sym LF c);
    destruct (c =? LF)%N eqn:E1; destruct (c =? CR)%N eqn:E2; cbn [orb];
    destruct (quote d =? c)%N; destruct (delim d =? c)%N; try reflexivity.
Qed.

Definition set_read (st : dstate) : dstate :=
  ({| r_state := r_state (fst st); r_opos := r_opos (fst st); r_has_read := true |}, snd st).

Lemma byte_step_set_read : forall d st c, byte_step d (set_read st) c = byte_step d st c.
Proof. intros d [r br] c. reflexivity. Qed.

Lemma byte_step_eoc : forall d st c, byte_step d (end_of_chunk st) c = byte_step d st c.
Proof.
  intros d [r br] c. unfold end_of_chunk.
  destruct (record_final (r_state r)) eqn:E; [|reflexivity].
  unfold byte_step. cbn [r_state r_opos].
  rewrite (step_reset d (r_state r) c E). reflexivity.
Qed.

Lemma fold_first_eq : forall (f : dstate -> N -> dstate) (g : dstate -> dstate) bs st,
  (forall c, f (g st) c = f st c) -> bs <> [] -> fold_left f bs (g st) = fold_left f bs st.
Proof.
  intros f g bs st H Hne. destruct bs as [|b bs]; [contradiction|]. cbn [fold_left]. rewrite H. reflexivity.
Qed.

Lemma byte_step_has_read : forall d st c, r_has_read (fst (byte_step d st c)) = true.
Proof.
  intros d [r br] c. unfold byte_step.
  destruct (dfa_step d (r_state r) c) as [s' o]. destruct (record_final s'); reflexivity.
Qed.

Lemma fold_has_read : forall d bs st, bs <> [] -> r_has_read (fst (fold_left (byte_step d) bs st)) = true.
Proof.
  intros d bs. induction bs as [|b bs IH]; intros st H; [contradiction|].
  cbn [fold_left]. destruct bs as [|b2 bs2].
  - apply byte_step_has_read.
  - apply IH. discriminate.
Qed.

Lemma eoc_has_read : forall st, r_has_read (fst st) = true -> r_has_read (fst (end_of_chunk st)) = true.
Proof. intros [r br] H. unfold end_of_chunk. destruct (record_final (r_state r)); [reflexivity|exact H]. Qed.

Lemma strip_bom_read : forall r ch, r_has_read r = true -> strip_bom r ch = ch.
Proof. intros r ch H. unfold strip_bom. rewrite H. reflexivity. Qed.

Lemma decode_read : forall d st ch, r_has_read (fst st) = true -> ch <> [] ->
  decode d st ch = end_of_chunk (fold_left (byte_step d) ch st).
Proof.
  intros d st ch H Hne. unfold decode. destruct ch as [|b ch]; [contradiction|].
  rewrite (strip_bom_read _ _ H). reflexivity.
Qed.

Lemma concat_nonempty : forall (chunks : list (list N)),
  Forall (fun ch => ch <> []) chunks -> chunks <> [] -> concat chunks <> [].
Proof.
  intros chunks HF Hne. destruct chunks as [|c cs]; [contradiction|].
  inversion HF as [|x l Hc Hcs]; subst. cbn [concat]. destruct c; [contradiction|discriminate].
Qed.

(* from any state that has already read: decoding chunk after chunk = decoding the concatenation *)
Lemma chunks_from_read : forall d chunks st,
  r_has_read (fst st) = true -> Forall (fun ch => ch <> []) chunks -> chunks <> [] ->
  fold_left (decode d) chunks st = end_of_chunk (fold_left (byte_step d) (concat chunks) st).
Proof.
  intros d chunks. induction chunks as [|ch rest IH]; intros st Hr HF Hne; [contradiction|].
  inversion HF as [|x l Hch Hrest]; subst.
  cbn [fold_left concat]. rewrite (decode_read d st ch Hr Hch).
  destruct rest as [|c2 rest2].
  - cbn [fold_left concat]. rewrite app_nil_r. reflexivity.
  - assert (Hne2 : c2 :: rest2 <> []) by discriminate.
    rewrite IH; [| apply eoc_has_read, fold_has_read, Hch | exact Hrest | exact Hne2].
    rewrite fold_left_app.
    rewrite (fold_first_eq (byte_step d) end_of_chunk); [reflexivity | intro c; apply byte_step_eoc |].
    apply concat_nonempty; assumption.
Qed.

Lemma decode_init_form : forall d ch, ch <> [] ->
  decode d st_init ch = match strip_bom rdr_init ch with
                        | [] => set_read st_init
                        | body => end_of_chunk (fold_left (byte_step d) body st_init)
                        end.
Proof. intros d ch H. destruct ch as [|b ch]; [contradiction|]. reflexivity. Qed.

(* KEY THEOREM (records accumulating, i.e. while the reader has not yet filled a batch): the complete decoder
   state — csv_core state, output position, buf, ends, record boundaries — after any sequence of non-empty reads
   equals the state after one read of the whole input.  The BOM hypothesis says the first read decides the BOM
   like the whole input does (true when the first read has >= 3 bytes or the input has no BOM). *)
Theorem chunking_irrelevant_noflush : forall d c1 rest,
  c1 <> [] -> Forall (fun ch => ch <> []) rest ->
  strip_bom rdr_init (c1 ++ concat rest) = strip_bom rdr_init c1 ++ concat rest ->
  decode_chunks d (c1 :: rest) = decode d st_init (c1 ++ concat rest).
Proof.
  intros d c1 rest Hc1 HF Hbom.
  unfold decode_chunks. cbn [fold_left].
  destruct rest as [|c2 rest2].
  - cbn [fold_left concat]. rewrite app_nil_r. reflexivity.
  - assert (Hne2 : c2 :: rest2 <> []) by discriminate.
    assert (Hcat : concat (c2 :: rest2) <> []) by (apply concat_nonempty; assumption).
    remember (concat (c2 :: rest2)) as tail eqn:Etail.
    assert (Hwhole : c1 ++ tail <> []) by (destruct c1; [contradiction|discriminate]).
    rewrite (decode_init_form d (c1 ++ tail) Hwhole), (decode_init_form d c1 Hc1), Hbom.
    destruct (strip_bom rdr_init c1) as [|b body] eqn:Es.
    + (* the first read was exactly the BOM *)
      cbn [app]. destruct tail as [|t tl]; [contradiction|].
      rewrite chunks_from_read; [| reflexivity | exact HF | exact Hne2].
      rewrite <- Etail.
      rewrite (fold_first_eq (byte_step d) set_read); [reflexivity | intro c; apply byte_step_set_read | discriminate].
    + cbn [app].
      rewrite chunks_from_read; [| apply eoc_has_read, fold_has_read; discriminate | exact HF | exact Hne2].
      rewrite <- Etail.
      rewrite (fold_first_eq (byte_step d) end_of_chunk); [| intro c; apply byte_step_eoc | exact Hcat].
      change (b :: body ++ tail) with ((b :: body) ++ tail). rewrite fold_left_app. reflexivity.
Qed.

(* the hypotheses are satisfiable: "a,b\n1,2\n" cut inside the second record *)
Example chunking_irrelevant_noflush_sat :
  let d := {| delim := 44; quote := 34 |}%N in
  let c1 := [97;44;98;10;49]%N in let rest := [[44]; [50;10]]%N in
  c1 <> [] /\ Forall (fun ch => ch <> []) rest /\
  strip_bom rdr_init (c1 ++ concat rest) = strip_bom rdr_init c1 ++ concat rest /\
  records_of (snd (decode_chunks d (c1 :: rest))) = Some [[[97];[98]];[[49];[50]]]%N.
Proof.
  cbv zeta. split; [discriminate|]. split; [repeat constructor; discriminate|]. split; reflexivity.
Qed.

(* ------------------------------------------------------------------ closed witnesses *)
Definition comma_dq : dialect := {| delim := 44; quote := 34 |}%N.

(* "a,b\n1,2": WITHOUT the end-of-input signal (ReadCsv::bind's inference sample before the repair; the reader before
   ddfbbbc21) the last record is lost; the reader and the sample of a whole file (with the signal) return the
   RFC-4180 records *)
Lemma sample_unterminated_last_record :
  exists d bs, ends_with_terminator bs = false /\
    run_dfa d bs = Some [[[97];[98]]]%N /\ rfc4180 d bs = [[[97];[98]]; [[49];[50]]]%N /\
    run_reader d bs = Some (rfc4180 d bs) /\ run_sample d true bs = Some (rfc4180 d bs).
Proof. exists comma_dq, [97;44;98;10;49;44;50]%N. vm_compute. repeat split; reflexivity. Qed.

(* regression witnesses about the OLD definitions (code before ddfbbbc21 / 0abcb062b) *)
Lemma reader_old_unterminated_refuted :
  exists d bs, reader_loop_old d 2048 false st_init [bs] <> Some (rfc4180 d bs) /\
               reader_loop d 2048 false st_init [bs] = Some (rfc4180 d bs).
Proof. exists comma_dq, [97;44;98;10;49;44;50]%N. vm_compute. split; [discriminate|reflexivity]. Qed.

Lemma reader_old_flush_refuted :
  exists d c1 c2, reader_loop_old d 1 false st_init [c1; c2] <> reader_loop_old d 1 false st_init [c1 ++ c2] /\
                  reader_loop d 1 false st_init [c1; c2] = reader_loop d 1 false st_init [c1 ++ c2].
Proof. exists comma_dq, [97;44;98;10;44]%N, [99;10]%N. vm_compute. split; [discriminate|reflexivity]. Qed.

(* "a\n\nb\n": the blank line is not a record, for csv_core (documented) and for the spec; "a\n\"\"\nb\n": a quoted
   empty field on a line of its own is *)
Lemma blank_line_skipped :
  exists d bs bs', ends_with_terminator bs = true /\
    run_reader d bs = Some [[[97]]; [[98]]]%N /\ rfc4180 d bs = [[[97]]; [[98]]]%N /\
    run_reader d bs' = Some [[[97]]; [[]]; [[98]]]%N /\ rfc4180 d bs' = [[[97]]; [[]]; [[98]]]%N.
Proof. exists comma_dq, [97;10;10;98;10]%N, [97;10;34;34;10;98;10]%N. vm_compute. repeat split; reflexivity. Qed.

(* a BOM cut by a first read of fewer than 3 bytes is not stripped *)
Lemma bom_split_refuted :
  exists d c1 rest, c1 <> [] /\ Forall (fun ch => ch <> []) rest /\
    records_of (snd (decode_chunks d (c1 :: rest))) <> records_of (snd (decode d st_init (c1 ++ concat rest))).
Proof.
  exists comma_dq, [239;187]%N, [[191;97;10]]%N. split; [discriminate|]. split; [repeat constructor; discriminate|].
  vm_compute. discriminate.
Qed.
