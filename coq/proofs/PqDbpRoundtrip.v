(* DELTA_BINARY_PACKED: the single-read round trip of the spec encoder `dbp_encode` through the
   faithful decoder (`dbp_new`, `dbp_read`, `dbp_into_cursor`) for value lists of any length, by
   induction over the blocks and miniblocks; and the length prefix of DELTA_LENGTH_BYTE_ARRAY /
   DELTA_BYTE_ARRAY pages (`dbp_read_lengths`).

   Structure: (1) signed/modular arithmetic, (2) miniblock widths, (3) `chunks`, (4) dbp_accum against
   the spec deltas, (5) one miniblock (full / partially read), (6) the decoder loop: one miniblock step,
   block load, induction over miniblocks and blocks (`go_stream`), (7) header + theorems. *)
From Coq Require Import NArith ZArith List Bool Lia ZifyBool ZifyNat ZifyN.
From GV Require Import model.PqBits model.PqDelta proofs.PqBitsProofs.
Import ListNotations.
Local Open Scope N_scope.

(* ---------- 1. signed / modular arithmetic ---------- *)

Lemma pow2Z bits : Z.of_N (2 ^ bits) = (2 ^ Z.of_N bits)%Z.
Proof. rewrite N2Z.inj_pow. reflexivity. Qed.

Lemma pow2Z_pos bits : (0 < 2 ^ Z.of_N bits)%Z.
Proof. apply Z.pow_pos_nonneg; lia. Qed.

Lemma of_signed_Z bits z : Z.of_N (of_signed bits z) = (z mod 2 ^ Z.of_N bits)%Z.
Proof.
  unfold of_signed. apply Z2N.id.
  apply (proj1 (Z.mod_pos_bound z _ (pow2Z_pos bits))).
Qed.

Lemma of_signed_lt bits z : of_signed bits z < 2 ^ bits.
Proof.
  pose proof (of_signed_Z bits z) as HZ.
  pose proof (Z.mod_pos_bound z _ (pow2Z_pos bits)) as Hb.
  pose proof (pow2Z bits) as HP.
  revert HZ Hb HP. generalize (of_signed bits z) (2 ^ bits) (2 ^ Z.of_N bits)%Z (z mod 2 ^ Z.of_N bits)%Z.
  intros a b c d HZ Hb HP. lia.
Qed.

Lemma of_signed_cases bits z :
  exists k, (Z.of_N (of_signed bits z) = z + k * 2 ^ Z.of_N bits)%Z.
Proof.
  rewrite of_signed_Z.
  pose proof (pow2Z_pos bits) as Hp.
  exists (- (z / 2 ^ Z.of_N bits))%Z.
  pose proof (Z.div_mod z (2 ^ Z.of_N bits)%Z ltac:(lia)) as Hdm.
  revert Hdm. generalize (z / 2 ^ Z.of_N bits)%Z (z mod 2 ^ Z.of_N bits)%Z (2 ^ Z.of_N bits)%Z.
  intros q r m Hdm. lia.
Qed.

Lemma to_signed_cases bits x :
  exists k, (to_signed bits x = Z.of_N x + k * 2 ^ Z.of_N bits)%Z.
Proof.
  unfold to_signed. destruct (x <? 2 ^ (bits - 1)); [exists 0%Z | exists (-1)%Z]; lia.
Qed.

Lemma pow2_half_N bits : 0 < bits -> 2 ^ bits = 2 * 2 ^ (bits - 1).
Proof. intros Hb. rewrite <- N.pow_succ_r'. f_equal. lia. Qed.

Lemma pow2_half_Z bits : 0 < bits -> (2 ^ Z.of_N bits = 2 * 2 ^ (Z.of_N bits - 1))%Z.
Proof. intros Hb. rewrite <- Z.pow_succ_r by lia. f_equal. lia. Qed.

Lemma pow2_half_NZ bits : 0 < bits -> Z.of_N (2 ^ (bits - 1)) = (2 ^ (Z.of_N bits - 1))%Z.
Proof. intros Hb. rewrite N2Z.inj_pow. f_equal. lia. Qed.

Lemma to_signed_range bits x : 0 < bits -> x < 2 ^ bits ->
  (- 2 ^ (Z.of_N bits - 1) <= to_signed bits x < 2 ^ (Z.of_N bits - 1))%Z.
Proof.
  intros Hb Hx. unfold to_signed.
  rewrite (pow2_half_Z bits Hb). rewrite (pow2_half_N bits Hb) in Hx.
  rewrite <- (pow2_half_NZ bits Hb).
  destruct (x <? 2 ^ (bits - 1)) eqn:E; [apply N.ltb_lt in E | apply N.ltb_ge in E];
    revert Hx E; generalize (2 ^ (bits - 1)); intros h Hx E; lia.
Qed.

Lemma of_to_signed bits x : x < 2 ^ bits -> of_signed bits (to_signed bits x) = x.
Proof.
  intros Hx. destruct (to_signed_cases bits x) as [k Hk].
  apply N2Z.inj. rewrite of_signed_Z, Hk, Z_mod_plus_full.
  apply Z.mod_small. rewrite <- pow2Z. lia.
Qed.

(* what one step of dbp_accum computes on an encoded delta *)
Lemma accum_step bits prev v mn : v < 2 ^ bits ->
  (of_signed bits (to_signed bits (of_signed bits (Z.of_N v - Z.of_N prev)) - mn)
   + of_signed bits mn + prev) mod 2 ^ bits = v.
Proof.
  intros Hv.
  destruct (of_signed_cases bits (Z.of_N v - Z.of_N prev)) as [k1 H1].
  destruct (to_signed_cases bits (of_signed bits (Z.of_N v - Z.of_N prev))) as [k2 H2].
  destruct (of_signed_cases bits (to_signed bits (of_signed bits (Z.of_N v - Z.of_N prev)) - mn)) as [k3 H3].
  destruct (of_signed_cases bits mn) as [k4 H4].
  apply N2Z.inj. rewrite N2Z.inj_mod, !N2Z.inj_add, pow2Z.
  rewrite H3, H4, H2, H1.
  replace (Z.of_N v - Z.of_N prev + k1 * 2 ^ Z.of_N bits + k2 * 2 ^ Z.of_N bits - mn
           + k3 * 2 ^ Z.of_N bits + (mn + k4 * 2 ^ Z.of_N bits) + Z.of_N prev)%Z
    with (Z.of_N v + (k1 + k2 + k3 + k4) * 2 ^ Z.of_N bits)%Z by ring.
  rewrite Z_mod_plus_full. apply Z.mod_small. rewrite <- pow2Z. lia.
Qed.

Lemma signed_range_63 bits z : 0 < bits <= 64 ->
  (- 2 ^ (Z.of_N bits - 1) <= z < 2 ^ (Z.of_N bits - 1))%Z -> (- 2 ^ 63 <= z < 2 ^ 63)%Z.
Proof.
  intros Hb Hz.
  assert (Hp : (2 ^ (Z.of_N bits - 1) <= 2 ^ 63)%Z) by (apply Z.pow_le_mono_r; lia).
  revert Hz Hp. generalize (2 ^ (Z.of_N bits - 1))%Z. intros h Hz Hp. lia.
Qed.

Lemma zigzag_lt z : (- 2 ^ 63 <= z < 2 ^ 63)%Z -> zigzag_encode z < 2 ^ 64.
Proof.
  intros Hz. unfold zigzag_encode. change (2 ^ 64) with 18446744073709551616.
  change (2 ^ 63)%Z with 9223372036854775808%Z in Hz.
  destruct (0 <=? z)%Z eqn:E; [apply Z.leb_le in E | apply Z.leb_gt in E]; lia.
Qed.

(* reading back a zigzag + ULEB128 signed number of the `bits`-wide type *)
Lemma read_signed bits z tail : 0 < bits <= 64 ->
  (- 2 ^ (Z.of_N bits - 1) <= z < 2 ^ (Z.of_N bits - 1))%Z ->
  vlq_decode (vlq_encode (zigzag_encode z) ++ tail) = Ok (zigzag_encode z, tail)
  /\ from_i64 bits (zigzag_decode (zigzag_encode z)) = Some (of_signed bits z).
Proof.
  intros Hb Hz. split.
  - apply vlq_roundtrip. apply zigzag_lt. apply (signed_range_63 bits z Hb Hz).
  - apply from_i64_roundtrip; assumption.
Qed.

(* ---------- 2. widths ---------- *)

Lemma fold_max_ge : forall xs a,
  a <= fold_left N.max xs a /\ Forall (fun x => x <= fold_left N.max xs a) xs.
Proof.
  induction xs as [|x xs IH]; intros a; cbn [fold_left].
  - split; [lia | constructor].
  - destruct (IH (N.max a x)) as [H1 H2]. split; [lia|].
    constructor; [lia | exact H2].
Qed.

Lemma fold_max_lt B : forall xs a, a < B -> Forall (fun x => x < B) xs -> fold_left N.max xs a < B.
Proof.
  induction xs as [|x xs IH]; intros a Ha Hxs; cbn [fold_left]; [exact Ha|].
  inversion Hxs as [|x' xs' Hx Hr]; subst. apply IH; [lia | exact Hr].
Qed.

Definition mb_w (mb : list N) : N := N.size (nmax_list mb).

Lemma size_zero m : N.size m = 0 -> m = 0.
Proof. destruct m as [|p]; [reflexivity|]. cbn [N.size]. discriminate. Qed.

Lemma size_le_bits m bits : m < 2 ^ bits -> N.size m <= bits.
Proof.
  intros Hm. destruct (N.eq_dec m 0) as [H0|H0]; [subst m; cbn [N.size]; lia|].
  rewrite N.size_log2 by exact H0.
  assert (Hl : N.log2 m < bits) by (apply N.log2_lt_pow2; [lia | exact Hm]).
  lia.
Qed.

Lemma mb_w_values mb : Forall (fun v => v < 2 ^ mb_w mb) mb.
Proof.
  unfold mb_w, nmax_list.
  destruct (fold_max_ge mb 0) as [_ H].
  pose proof (N.size_gt (fold_left N.max mb 0)) as Hs.
  eapply Forall_impl; [|exact H]. cbv beta. intros a Ha. lia.
Qed.

Lemma mb_w_le bits mb : Forall (fun v => v < 2 ^ bits) mb -> mb_w mb <= bits.
Proof.
  intros H. unfold mb_w, nmax_list. apply size_le_bits. apply fold_max_lt; [|exact H].
  apply pow2_pos.
Qed.

Lemma mb_w_zero mb : mb_w mb = 0 -> mb = repeat 0 (length mb).
Proof.
  unfold mb_w, nmax_list. intros H. apply size_zero in H.
  destruct (fold_max_ge mb 0) as [_ HF]. rewrite H in HF. clear H.
  induction mb as [|x mb IH]; cbn [length repeat]; [reflexivity|].
  inversion HF as [|x' mb' Hx Hr]; subst. f_equal; [lia | apply IH; exact Hr].
Qed.

Lemma Forall_repeat {A} (P : A -> Prop) a n : P a -> Forall P (repeat a n).
Proof. intros H. induction n as [|n IH]; cbn [repeat]; constructor; assumption. Qed.

(* ---------- 3. chunks ---------- *)

Inductive chunked {A} (k : nat) : list (list A) -> Prop :=
| ch_nil : chunked k []
| ch_last c : (0 < length c <= k)%nat -> chunked k [c]
| ch_cons c c' r : length c = k -> chunked k (c' :: r) -> chunked k (c :: c' :: r).

Lemma chunked_tail {A} k (c : list A) r : chunked k (c :: r) -> chunked k r.
Proof. intros H. inversion H as [|c0 Hc|c0 c' r' Hc Hr]; subst; [constructor | exact Hr]. Qed.

Lemma chunked_head_full {A} k (c c' : list A) r : chunked k (c :: c' :: r) -> length c = k.
Proof. intros H. inversion H as [|c0 Hc|c0 c1 r' Hc Hr]. exact Hc. Qed.

Lemma chunked_head {A} k (c : list A) r : chunked k (c :: r) -> (0 < length c <= k)%nat.
Proof.
  revert c. induction r as [|c' r IH]; intros c H.
  - inversion H as [|c0 Hc|c0 c1 r' Hc Hr]. exact Hc.
  - inversion H as [|c0 Hc|c0 c1 r' Hc Hr].
    specialize (IH c' Hr). lia.
Qed.

Lemma chunks_nonempty_src {A} f k (xs : list A) c r : chunks f k xs = c :: r -> xs <> [].
Proof. destruct f as [|f]; [discriminate|]. destruct xs; [discriminate|]. intros _. discriminate. Qed.

Lemma chunks_chunked {A} k : (0 < k)%nat -> forall f (xs : list A), chunked k (chunks f k xs).
Proof.
  intros Hk. induction f as [|f IH]; intros xs; cbn [chunks]; [constructor|].
  destruct xs as [|x xs]; [constructor|].
  specialize (IH (skipn k (x :: xs))).
  destruct (chunks f k (skipn k (x :: xs))) as [|c' r] eqn:E.
  - constructor. rewrite firstn_length. cbn [length]. lia.
  - constructor; [|exact IH].
    apply chunks_nonempty_src in E.
    rewrite firstn_length.
    assert (Hl : length (skipn k (x :: xs)) <> 0%nat).
    { destruct (skipn k (x :: xs)); [congruence | cbn [length]; lia]. }
    rewrite skipn_length in Hl. lia.
Qed.

Lemma chunks_concat {A} k : (0 < k)%nat -> forall f (xs : list A),
  (length xs <= f * k)%nat -> concat (chunks f k xs) = xs.
Proof.
  intros Hk. induction f as [|f IH]; intros xs Hl; cbn [chunks].
  - destruct xs; [reflexivity | cbn [length] in Hl; lia].
  - destruct xs as [|x xs]; [reflexivity|].
    cbn [concat]. rewrite IH; [apply firstn_skipn|].
    rewrite skipn_length. lia.
Qed.

Lemma chunks_length_le {A} k : forall f (xs : list A), (length (chunks f k xs) <= f)%nat.
Proof.
  induction f as [|f IH]; intros xs; cbn [chunks]; [cbn [length]; lia|].
  destruct xs as [|x xs]; cbn [length]; [lia|]. specialize (IH (skipn k (x :: xs))). lia.
Qed.

Lemma chunks_full {A} k : (0 < k)%nat -> forall f (xs : list A), length xs = (f * k)%nat ->
  length (chunks f k xs) = f /\ Forall (fun c => length c = k) (chunks f k xs).
Proof.
  intros Hk. induction f as [|f IH]; intros xs Hl; cbn [chunks].
  - split; [reflexivity | constructor].
  - destruct xs as [|x xs]; [cbn [length] in Hl; lia|].
    destruct (IH (skipn k (x :: xs))) as [H1 H2]; [rewrite skipn_length; lia|].
    split; [cbn [length]; lia|].
    constructor; [|exact H2]. rewrite firstn_length. lia.
Qed.

Lemma Forall_firstn' {A} (P : A -> Prop) k xs : Forall P xs -> Forall P (firstn k xs).
Proof.
  intros H. rewrite <- (firstn_skipn k xs) in H. apply Forall_app in H. exact (proj1 H).
Qed.
Lemma Forall_skipn' {A} (P : A -> Prop) k xs : Forall P xs -> Forall P (skipn k xs).
Proof.
  intros H. rewrite <- (firstn_skipn k xs) in H. apply Forall_app in H. exact (proj2 H).
Qed.

Lemma chunks_Forall {A} (P : A -> Prop) k : forall f (xs : list A),
  Forall P xs -> Forall (Forall P) (chunks f k xs).
Proof.
  induction f as [|f IH]; intros xs H; cbn [chunks]; [constructor|].
  destruct xs as [|x xs]; [constructor|].
  constructor; [apply Forall_firstn'; exact H | apply IH; apply Forall_skipn'; exact H].
Qed.

(* ---------- 4. accumulation against the spec deltas ---------- *)

Lemma dbp_accum_app bits mn : forall a prev b,
  dbp_accum bits mn prev (a ++ b) =
  let '(va, la) := dbp_accum bits mn prev a in
  let '(vb, lb) := dbp_accum bits mn la b in (va ++ vb, lb).
Proof.
  induction a as [|d a IH]; intros prev b.
  - cbn [app dbp_accum]. destruct (dbp_accum bits mn prev b) as [vb lb]. reflexivity.
  - cbn [app dbp_accum]. rewrite IH.
    destruct (dbp_accum bits mn ((d + mn + prev) mod 2 ^ bits) a) as [va la].
    destruct (dbp_accum bits mn la b) as [vb lb]. reflexivity.
Qed.

Fixpoint lastv (prev : N) (vs : list N) : N :=
  match vs with [] => prev | v :: r => lastv v r end.

Lemma lastv_app : forall a prev b, lastv prev (a ++ b) = lastv (lastv prev a) b.
Proof. induction a as [|x a IH]; intros prev b; cbn [app lastv]; [reflexivity | apply IH]. Qed.

Lemma deltas_app_inv bits : forall a prev vs b, deltas bits prev vs = a ++ b ->
  exists v1 v2, vs = v1 ++ v2 /\ a = deltas bits prev v1 /\ b = deltas bits (lastv prev v1) v2.
Proof.
  induction a as [|d a IH]; intros prev vs b H.
  - exists [], vs. cbn [app deltas lastv]. cbn [app] in H. auto.
  - destruct vs as [|v vs]; [discriminate|]. cbn [deltas app] in H.
    injection H as Hd Hr.
    destruct (IH v vs b Hr) as (v1 & v2 & E1 & E2 & E3).
    exists (v :: v1), v2. cbn [app deltas lastv].
    split; [rewrite E1; reflexivity|]. split; [rewrite Hd, <- E2; reflexivity | exact E3].
Qed.

Lemma accum_deltas bits mn : forall vs prev, Forall (fun v => v < 2 ^ bits) vs ->
  dbp_accum bits (of_signed bits mn) prev
            (map (fun d => of_signed bits (d - mn)) (deltas bits prev vs)) = (vs, lastv prev vs).
Proof.
  induction vs as [|v vs IH]; intros prev H; [reflexivity|].
  inversion H as [|v' vs' Hv Hr]; subst.
  cbn [deltas map dbp_accum lastv]. rewrite accum_step by exact Hv.
  rewrite IH by exact Hr. reflexivity.
Qed.

Definition blk_mn (b : list Z) : Z := zmin_list (hd 0%Z b) b.
Definition blk_rel (bits : N) (b : list Z) : list N :=
  map (fun d => of_signed bits (d - blk_mn b)) b.

Fixpoint acc_blks (bits prev : N) (blks : list (list Z)) : list N * N :=
  match blks with
  | [] => ([], prev)
  | b :: r => let '(v1, l1) := dbp_accum bits (of_signed bits (blk_mn b)) prev (blk_rel bits b) in
              let '(v2, l2) := acc_blks bits l1 r in (v1 ++ v2, l2)
  end.

Lemma acc_blks_deltas bits : forall blks prev vs, Forall (fun v => v < 2 ^ bits) vs ->
  concat blks = deltas bits prev vs -> acc_blks bits prev blks = (vs, lastv prev vs).
Proof.
  induction blks as [|b blks IH]; intros prev vs Hvs Hc.
  - cbn [concat] in Hc. destruct vs as [|v vs]; [reflexivity | discriminate].
  - cbn [concat] in Hc. symmetry in Hc.
    destruct (deltas_app_inv bits b prev vs (concat blks) Hc) as (v1 & v2 & E & Eb & Er).
    subst vs. apply Forall_app in Hvs. destruct Hvs as [H1 H2].
    cbn [acc_blks]. unfold blk_rel. rewrite Eb.
    rewrite accum_deltas by exact H1.
    rewrite (IH (lastv prev v1) v2 H2 Er). rewrite lastv_app. reflexivity.
Qed.

(* ---------- 5. one miniblock ---------- *)

Definition mb_enc (pern : nat) (mb : list N) : list N :=
  bitpack (mb_w mb) (mb ++ repeat 0 (pern - length mb)).

Lemma bitpack_0 vals : bitpack 0 vals = [].
Proof. unfold bitpack, packed_len. rewrite N.mul_0_l. reflexivity. Qed.

Lemma mul_mod8 a b : b mod 8 = 0 -> (a * b) mod 8 = 0.
Proof.
  intros H. apply N.mod_divides in H; [|lia]. destruct H as [c Hc]. subst b.
  replace (a * (8 * c)) with (a * c * 8) by lia. apply N.mod_mul. lia.
Qed.

Lemma unpack_mb_full bits mb tail : 0 < bits <= 64 ->
  N.of_nat (length mb) mod 8 = 0 ->
  Forall (fun v => v < 2 ^ bits) mb -> bytes_ok tail ->
  bit_unpack bits (mb_w mb) (length mb) (mb_enc (length mb) mb ++ tail) 0 = Ok (mb, tail, 0).
Proof.
  intros Hb Hm Hv Ht. unfold mb_enc. rewrite Nat.sub_diag. cbn [repeat]. rewrite app_nil_r.
  pose proof (mb_w_le bits mb Hv) as Hw.
  destruct (N.eq_dec (mb_w mb) 0) as [H0|H0].
  - pose proof (mb_w_zero mb H0) as Hz.
    rewrite H0, bitpack_0. cbn [app]. unfold bit_unpack.
    change (64 <? 0) with false. change (0 =? 0) with true. cbv iota.
    rewrite <- Hz. reflexivity.
  - apply bitpack_roundtrip; [lia | exact Hw | apply mb_w_values | exact Ht |].
    apply mul_mod8. exact Hm.
Qed.

Lemma app_eq_suffix {A} : forall (a b c d : list A), a ++ b = c ++ d -> (length d <= length b)%nat ->
  exists x, b = x ++ d.
Proof.
  intros a b c d Heq Hl.
  assert (Hlen : (length a + length b = length c + length d)%nat).
  { rewrite <- !app_length, Heq. reflexivity. }
  exists (skipn (length a) c).
  apply (f_equal (skipn (length a))) in Heq.
  rewrite skipn_app, skipn_all, Nat.sub_diag in Heq. cbn [skipn app] in Heq.
  rewrite Heq, skipn_app.
  replace (length a - length c)%nat with 0%nat by lia. reflexivity.
Qed.

Lemma skip_arith A B Lb Lt pos' pl : 8 * Lb + A = 8 * (pl + Lt) + pos' -> pos' < 8 ->
  8 * pl = B -> A <= B -> Lt <= Lb /\ (B - A + 7) / 8 = Lb - Lt.
Proof.
  intros H1 H2 H3 H4. split; [lia|].
  symmetry. apply N.div_unique with (r := 7 - pos'); lia.
Qed.

Lemma unpack_mb_partial bits pern mb tail : 0 < bits <= 64 ->
  (length mb < pern)%nat -> N.of_nat pern mod 8 = 0 ->
  Forall (fun v => v < 2 ^ bits) mb -> bytes_ok tail ->
  exists buf' pos',
    bit_unpack bits (mb_w mb) (length mb) (mb_enc pern mb ++ tail) 0 = Ok (mb, buf', pos')
    /\ (if 0 <? mb_w mb
        then exists x, take_bytes (N.to_nat ((mb_w mb * (N.of_nat pern - N.of_nat (length mb)) + 7) / 8)) buf'
                       = Ok (x, tail)
        else buf' = tail).
Proof.
  intros Hb Hl Hm Hv Ht. unfold mb_enc.
  pose proof (mb_w_le bits mb Hv) as Hw.
  destruct (N.eq_dec (mb_w mb) 0) as [H0|H0].
  - pose proof (mb_w_zero mb H0) as Hz.
    rewrite H0, bitpack_0. cbn [app]. unfold bit_unpack.
    change (64 <? 0) with false. change (0 =? 0) with true. cbv iota.
    exists tail, 0. rewrite <- Hz. split; reflexivity.
  - set (w := mb_w mb) in *.
    set (vals := mb ++ repeat 0 (pern - length mb)).
    assert (Hvals : Forall (fun v => v < 2 ^ w) vals).
    { apply Forall_app. split; [apply mb_w_values|]. apply Forall_repeat. apply pow2_pos. }
    assert (Hlv : length vals = pern).
    { unfold vals. rewrite app_length, repeat_length. lia. }
    destruct (bitpack_prefix_full bits w vals (length mb) tail ltac:(lia) Hw Hvals Ht ltac:(lia))
      as (buf' & pos' & Hrun & Hpos & Hlen & pre & Hpre).
    exists buf', pos'. split.
    + rewrite Hrun. unfold vals. rewrite firstn_app, firstn_all, Nat.sub_diag. cbn [firstn].
      rewrite app_nil_r. reflexivity.
    + destruct (0 <? w) eqn:E; [|apply N.ltb_ge in E; lia].
      destruct (packed_len_bits w (length vals)) as (pad & Hpl & _ & Hpad0).
      rewrite Hlv in Hpl, Hpad0. specialize (Hpad0 (mul_mod8 _ _ Hm)). subst pad.
      rewrite app_length in Hlen. unfold bitpack at 1 in Hlen. rewrite le_bytes_length, Hlv in Hlen.
      assert (Hle : w * N.of_nat (length mb) <= w * N.of_nat pern) by (apply N.mul_le_mono_l; lia).
      rewrite N.mul_sub_distr_l.
      destruct (skip_arith (w * N.of_nat (length mb)) (w * N.of_nat pern) (N.of_nat (length buf'))
                  (N.of_nat (length tail)) pos' (N.of_nat (packed_len w pern))) as [Hlt Hdiv].
      * rewrite Hlen, Nat2N.inj_add. reflexivity.
      * exact Hpos.
      * rewrite Hpl. lia.
      * exact Hle.
      * rewrite Hdiv.
        destruct (app_eq_suffix pre buf' (bitpack w vals) tail (eq_sym Hpre) ltac:(lia)) as [x Hx].
        exists x. subst buf'. rewrite app_length in Hlt |- *.
        replace (N.to_nat (N.of_nat (length x + length tail) - N.of_nat (length tail))) with (length x) by lia.
        apply take_bytes_app.
Qed.

(* ---------- 6. the decoder loop ---------- *)

Lemma dbp_go_0 bits f s : dbp_go bits f 0 s = Ok ([], s).
Proof. destruct f; reflexivity. Qed.

Lemma dbp_go_S bits f cap s : (0 < cap)%nat -> d_rem s <> 0 ->
  dbp_go bits (S f) cap s =
  (s1 <- (if (d_per s <=? d_mb_val s) || (d_mbc s <=? d_mb_idx s) then dbp_load bits s else Ok s) ;;
   s2 <- (if d_mb_val s1 =? 0 then
            w <- nth_panic (d_widths s1) (d_mb_idx s1) ;;
            Ok (mk_dbp (d_buf s1) (d_mbc s1) (d_total s1) (d_rem s1) (d_widths s1) (d_mb_idx s1)
                       (d_mb_val s1) (d_per s1) (d_min s1) (d_prev s1) (d_first s1) 0 w)
          else Ok s1) ;;
   let count := Nat.min cap (N.to_nat (d_per s2 - d_mb_val s2)) in
   '(raw, buf1, pos1) <- bit_unpack bits (d_w s2) count (d_buf s2) (d_pos s2) ;;
   if d_rem s2 <? N.of_nat count then Err else
   let '(vs, last) := dbp_accum bits (d_min s2) (d_prev s2) raw in
   let mv := d_mb_val s2 + N.of_nat count in
   let s3 := mk_dbp buf1 (d_mbc s2) (d_total s2) (d_rem s2 - N.of_nat count) (d_widths s2)
                    (if d_per s2 <=? mv then d_mb_idx s2 + 1 else d_mb_idx s2)
                    (if d_per s2 <=? mv then 0 else mv)
                    (d_per s2) (d_min s2) last (d_first s2) pos1 (d_w s2) in
   '(rest, s4) <- dbp_go bits f (cap - count) s3 ;;
   Ok (vs ++ rest, s4)).
Proof.
  intros Hc Hr. destruct cap as [|c]; [lia|].
  apply N.eqb_neq in Hr. cbn [dbp_go]. rewrite Hr. reflexivity.
Qed.

Definition dbp_done (s : dbp) (tail : list N) : Prop :=
  d_rem s = 0 /\ d_first s = false /\ dbp_into_cursor s = Ok tail.

Lemma dbp_go_load bits f cap s s1 : (0 < cap)%nat -> d_rem s <> 0 ->
  (d_per s <=? d_mb_val s) || (d_mbc s <=? d_mb_idx s) = true ->
  dbp_load bits s = Ok s1 ->
  (d_per s1 <=? d_mb_val s1) || (d_mbc s1 <=? d_mb_idx s1) = false ->
  d_rem s1 = d_rem s ->
  dbp_go bits f cap s = dbp_go bits f cap s1.
Proof.
  intros Hc Hr Hl Hload Hl1 Hr1.
  destruct f as [|f].
  - destruct cap as [|c]; [lia|]. cbn [dbp_go]. rewrite Hr1.
    apply N.eqb_neq in Hr. rewrite Hr. reflexivity.
  - rewrite (dbp_go_S bits f cap s Hc Hr).
    rewrite (dbp_go_S bits f cap s1 Hc ltac:(rewrite Hr1; exact Hr)).
    rewrite Hl, Hl1, Hload. reflexivity.
Qed.

Lemma zmin_list_range lo hi : forall xs d, (lo <= d < hi)%Z ->
  Forall (fun x => (lo <= x < hi)%Z) xs -> (lo <= zmin_list d xs < hi)%Z.
Proof.
  unfold zmin_list. induction xs as [|x xs IH]; intros d Hd Hxs; cbn [fold_left]; [exact Hd|].
  inversion Hxs as [|x' xs' Hx Hr]; subst. apply IH; [lia | exact Hr].
Qed.

Section Stream.
Variables (bits : N) (mbcn pern : nat) (total : N) (rest : list N).
Hypothesis Hbits : 0 < bits <= 64.
Hypothesis Hmbc : (0 < mbcn)%nat.
Hypothesis Hper : (0 < pern)%nat.
Hypothesis Hper8 : N.of_nat pern mod 8 = 0.
Hypothesis Hrest : bytes_ok rest.

Definition in_range (d : Z) : Prop := (- 2 ^ (Z.of_N bits - 1) <= d < 2 ^ (Z.of_N bits - 1))%Z.

Lemma in_range_0 : in_range 0%Z.
Proof.
  unfold in_range. assert (H : (0 < 2 ^ (Z.of_N bits - 1))%Z) by (apply Z.pow_pos_nonneg; lia). lia.
Qed.

Lemma blk_mn_range b : Forall in_range b -> in_range (blk_mn b).
Proof.
  intros Hb. unfold blk_mn. apply zmin_list_range; [|exact Hb].
  destruct b as [|d b]; cbn [hd]; [apply in_range_0|]. inversion Hb; assumption.
Qed.

Lemma blk_rel_lt b : Forall (fun v => v < 2 ^ bits) (blk_rel bits b).
Proof. unfold blk_rel. apply Forall_map. apply Forall_forall. intros d _. apply of_signed_lt. Qed.

Lemma dbp_block_eq b :
  dbp_block bits mbcn pern b =
  vlq_encode (zigzag_encode (blk_mn b))
  ++ (map mb_w (chunks mbcn pern (blk_rel bits b))
      ++ repeat 0 (mbcn - length (chunks mbcn pern (blk_rel bits b))))
  ++ flat_map (mb_enc pern) (chunks mbcn pern (blk_rel bits b)).
Proof. unfold dbp_block. rewrite <- app_assoc. reflexivity. Qed.

Lemma mbs_enc_bytes_ok : forall mbs tl, bytes_ok tl -> bytes_ok (flat_map (mb_enc pern) mbs ++ tl).
Proof.
  induction mbs as [|mb mbs IH]; intros tl Htl; cbn [flat_map app]; [exact Htl|].
  rewrite <- app_assoc. apply bitpack_bytes_ok. apply IH. exact Htl.
Qed.

Lemma widths_bytes_ok : forall mbs, Forall (Forall (fun v => v < 2 ^ bits)) mbs -> bytes_ok (map mb_w mbs).
Proof.
  intros mbs H. unfold bytes_ok. apply Forall_map. eapply Forall_impl; [|exact H].
  cbv beta. intros mb Hmb. pose proof (mb_w_le bits mb Hmb). lia.
Qed.

Lemma block_bytes_ok b tl : bytes_ok tl -> bytes_ok (dbp_block bits mbcn pern b ++ tl).
Proof.
  intros Htl. rewrite dbp_block_eq. unfold bytes_ok. rewrite !Forall_app.
  split; [split; [apply vlq_encode_bytes | split; [split|]] | exact Htl].
  - apply widths_bytes_ok. apply chunks_Forall. apply blk_rel_lt.
  - apply Forall_repeat. lia.
  - rewrite <- (app_nil_r (flat_map _ _)). apply mbs_enc_bytes_ok. constructor.
Qed.

Lemma blocks_bytes_ok : forall blks, bytes_ok (flat_map (dbp_block bits mbcn pern) blks ++ rest).
Proof.
  induction blks as [|b blks IH]; cbn [flat_map app]; [exact Hrest|].
  rewrite <- app_assoc. apply block_bytes_ok. exact IH.
Qed.

(* load_next_block on an encoded block *)
Lemma load_block b tail rem ws0 j0 v0 per mn0 prev fst p0 w0 :
  Forall in_range b ->
  exists w1,
  dbp_load bits (mk_dbp (dbp_block bits mbcn pern b ++ tail) (N.of_nat mbcn) total rem ws0 j0 v0 per mn0
                        prev fst p0 w0)
  = Ok (mk_dbp (flat_map (mb_enc pern) (chunks mbcn pern (blk_rel bits b)) ++ tail) (N.of_nat mbcn) total rem
         (map mb_w (chunks mbcn pern (blk_rel bits b))
          ++ repeat 0 (mbcn - length (chunks mbcn pern (blk_rel bits b))))
         0 0 per (of_signed bits (blk_mn b)) prev fst 0 w1).
Proof.
  intros Hb. pose proof (blk_mn_range b Hb) as Hmn.
  rewrite dbp_block_eq. set (mbs := chunks mbcn pern (blk_rel bits b)).
  pose proof (chunks_length_le pern mbcn (blk_rel bits b)) as Hlen. fold mbs in Hlen.
  set (ws := map mb_w mbs ++ repeat 0 (mbcn - length mbs)).
  assert (Hlws : length ws = mbcn).
  { unfold ws. rewrite app_length, map_length, repeat_length. lia. }
  destruct ws as [|w1 ws'] eqn:Ews; [cbn [length] in Hlws; lia|].
  exists w1. unfold dbp_load. cbn [d_buf d_mbc d_total d_rem d_per d_prev d_first].
  destruct (read_signed bits (blk_mn b) ((w1 :: ws') ++ flat_map (mb_enc pern) mbs ++ tail) Hbits Hmn)
    as [Hv Hf].
  rewrite <- !app_assoc. rewrite Hv. cbn [bind].
  rewrite Hf. cbn [opt_err bind].
  rewrite Nat2N.id.
  assert (Htb : forall X, take_bytes mbcn ((w1 :: ws') ++ X) = Ok (w1 :: ws', X)).
  { intros X. rewrite <- Hlws. apply take_bytes_app. }
  rewrite Htb. cbn [bind].
  unfold nth_panic. cbn [N.to_nat nth_error bind]. reflexivity.
Qed.

Definition acc_stream (mn prev : N) (mbs : list (list N)) (blks : list (list Z)) : list N :=
  let '(v1, l1) := dbp_accum bits mn prev (concat mbs) in v1 ++ fst (acc_blks bits l1 blks).

Definition st (buf : list N) (rem : N) (ws : list N) (j : nat) (mn prev : N) (p0 w0 : N) : dbp :=
  mk_dbp buf (N.of_nat mbcn) total rem ws (N.of_nat j) 0 (N.of_nat pern) mn prev false p0 w0.

Lemma no_load j : (j < mbcn)%nat -> (N.of_nat pern <=? 0) || (N.of_nat mbcn <=? N.of_nat j) = false.
Proof. intros Hj. lia. Qed.

Lemma go_full_mb ws j mn prev p0 w0 mb tail f cap vs last :
  (j < mbcn)%nat -> nth_error ws j = Some (mb_w mb) ->
  length mb = pern -> (pern <= cap)%nat ->
  Forall (fun v => v < 2 ^ bits) mb -> bytes_ok tail ->
  dbp_accum bits mn prev mb = (vs, last) ->
  dbp_go bits (S f) cap (st (mb_enc pern mb ++ tail) (N.of_nat cap) ws j mn prev p0 w0)
  = ('(r, s4) <- dbp_go bits f (cap - pern)
                   (st tail (N.of_nat (cap - pern)) ws (S j) mn last 0 (mb_w mb)) ;;
     Ok (vs ++ r, s4)).
Proof.
  intros Hj Hnth Hl Hcap Hv Ht Hacc. unfold st.
  rewrite dbp_go_S; [| lia | cbn [d_rem]; lia].
  cbn [d_per d_mb_val d_mbc d_mb_idx]. rewrite (no_load j Hj). cbn [bind d_mb_val].
  change (0 =? 0) with true. cbv iota.
  cbn [d_widths d_mb_idx]. unfold nth_panic. rewrite Nat2N.id, Hnth. cbn [bind].
  cbn [d_buf d_mbc d_total d_rem d_widths d_mb_idx d_mb_val d_per d_min d_prev d_first d_pos d_w].
  rewrite N.sub_0_r, Nat2N.id.
  replace (Nat.min cap pern) with pern by lia.
  subst pern. rewrite (unpack_mb_full bits mb tail Hbits Hper8 Hv Ht). cbn [bind].
  replace (N.of_nat cap <? N.of_nat (length mb)) with false by (symmetry; lia).
  rewrite Hacc. rewrite N.add_0_l, N.leb_refl.
  replace (N.of_nat cap - N.of_nat (length mb)) with (N.of_nat (cap - length mb)) by lia.
  replace (N.of_nat j + 1) with (N.of_nat (S j)) by lia.
  reflexivity.
Qed.

Lemma go_partial_mb ws j mn prev p0 w0 mb tail f vs last :
  (j < mbcn)%nat -> nth_error ws j = Some (mb_w mb) ->
  (0 < length mb < pern)%nat ->
  Forall (fun v => v < 2 ^ bits) mb -> bytes_ok tail ->
  dbp_accum bits mn prev mb = (vs, last) ->
  exists s',
    dbp_go bits (S f) (length mb) (st (mb_enc pern mb ++ tail) (N.of_nat (length mb)) ws j mn prev p0 w0)
    = Ok (vs, s') /\ dbp_done s' tail.
Proof.
  intros Hj Hnth Hl Hv Ht Hacc. unfold st.
  rewrite dbp_go_S; [| lia | cbn [d_rem]; lia].
  cbn [d_per d_mb_val d_mbc d_mb_idx]. rewrite (no_load j Hj). cbn [bind d_mb_val].
  change (0 =? 0) with true. cbv iota.
  cbn [d_widths d_mb_idx]. unfold nth_panic at 1. rewrite Nat2N.id, Hnth. cbn [bind].
  cbn [d_buf d_mbc d_total d_rem d_widths d_mb_idx d_mb_val d_per d_min d_prev d_first d_pos d_w].
  rewrite N.sub_0_r, Nat2N.id.
  replace (Nat.min (length mb) pern) with (length mb) by lia.
  destruct (unpack_mb_partial bits pern mb tail Hbits ltac:(lia) Hper8 Hv Ht) as (buf' & pos' & Hrun & Hskip).
  rewrite Hrun. cbn [bind]. rewrite N.ltb_irrefl, Hacc, Nat.sub_diag, dbp_go_0. cbn [bind].
  rewrite app_nil_r, N.add_0_l, N.sub_diag.
  replace (N.of_nat pern <=? N.of_nat (length mb)) with false by (symmetry; lia).
  eexists. split; [reflexivity|].
  unfold dbp_done. cbn [d_rem d_first]. split; [reflexivity|]. split; [reflexivity|].
  unfold dbp_into_cursor. cbn [d_mb_val d_mb_idx d_widths d_per d_buf].
  assert (Hjl : (j < length ws)%nat) by (apply nth_error_Some; rewrite Hnth; discriminate).
  replace ((0 <? N.of_nat (length mb)) && (N.of_nat j <? N.of_nat (length ws))) with true by (symmetry; lia).
  unfold nth_panic. rewrite Nat2N.id, Hnth. cbn [bind].
  replace (0 <? N.of_nat pern - N.of_nat (length mb)) with true by (symmetry; lia).
  destruct (0 <? mb_w mb).
  - destruct Hskip as [x Hx]. cbn [andb]. rewrite Hx. reflexivity.
  - cbn [andb]. rewrite Hskip. reflexivity.
Qed.

Definition blockn : nat := (mbcn * pern)%nat.

Definition stream_stmt (blks : list (list Z)) (mbs : list (list N)) : Prop :=
  forall j wpre wpost mn prev p0 w0 f cap,
  length wpre = j -> (j + length mbs <= mbcn)%nat ->
  (blks <> [] -> (j + length mbs = mbcn)%nat /\ Forall (fun c => length c = pern) mbs) ->
  cap = (length (concat mbs) + length (concat blks))%nat -> (cap <= f)%nat ->
  exists s',
    dbp_go bits f cap
      (st (flat_map (mb_enc pern) mbs ++ flat_map (dbp_block bits mbcn pern) blks ++ rest)
          (N.of_nat cap) (wpre ++ map mb_w mbs ++ wpost) j mn prev p0 w0)
    = Ok (acc_stream mn prev mbs blks, s')
    /\ dbp_done s' rest.

Lemma go_mbs blks : stream_stmt blks [] ->
  forall mbs, chunked pern mbs -> Forall (Forall (fun v => v < 2 ^ bits)) mbs -> stream_stmt blks mbs.
Proof.
  intros Hnil. induction mbs as [|mb mbs IH]; intros Hcm Hvm; [exact Hnil|].
  intros j wpre wpost mn prev p0 w0 f cap Hj Hjm Hfull Hcap Hf.
  pose proof (chunked_head _ _ _ Hcm) as Hmb.
  inversion Hvm as [|mb' mbs' Hvmb Hvmbs]; subst mb' mbs'.
  cbn [length] in Hjm.
  assert (Hnth : nth_error (wpre ++ map mb_w (mb :: mbs) ++ wpost) j = Some (mb_w mb)).
  { rewrite nth_error_app2 by lia. rewrite Hj, Nat.sub_diag. reflexivity. }
  assert (Hws : wpre ++ map mb_w (mb :: mbs) ++ wpost = (wpre ++ [mb_w mb]) ++ map mb_w mbs ++ wpost).
  { rewrite <- app_assoc. reflexivity. }
  destruct (dbp_accum bits mn prev mb) as [vs last] eqn:Eacc.
  cbn [concat] in Hcap. rewrite app_length in Hcap.
  cbn [flat_map]. rewrite <- app_assoc.
  destruct (Nat.eq_dec (length mb) pern) as [Hfl|Hpart].
  - (* a full miniblock *)
    destruct f as [|f]; [lia|].
    rewrite (go_full_mb _ j mn prev p0 w0 mb _ f cap vs last ltac:(lia) Hnth Hfl ltac:(lia) Hvmb
               (mbs_enc_bytes_ok mbs _ (blocks_bytes_ok blks)) Eacc).
    rewrite Hws.
    destruct (IH (chunked_tail _ _ _ Hcm) Hvmbs (S j) (wpre ++ [mb_w mb]) wpost mn last 0 (mb_w mb) f
                 (cap - pern)%nat) as (s' & Hgo & Hdone).
    + rewrite app_length. cbn [length]. lia.
    + lia.
    + intros Hne. destruct (Hfull Hne) as [H1 H2]. cbn [length] in H1. split; [lia|].
      inversion H2; assumption.
    + lia.
    + lia.
    + rewrite Hgo. cbn [bind]. exists s'. split; [|exact Hdone].
      unfold acc_stream. cbn [concat]. rewrite dbp_accum_app, Eacc.
      destruct (dbp_accum bits mn last (concat mbs)) as [v1 l1].
      rewrite app_assoc. reflexivity.
  - (* the partially filled last miniblock *)
    assert (Hb : blks = []).
    { destruct blks as [|b blks']; [reflexivity|]. exfalso.
      destruct (Hfull ltac:(discriminate)) as [_ H2]. inversion H2; subst. lia. }
    assert (Hm : mbs = []).
    { destruct mbs as [|mb2 mbs']; [reflexivity|]. exfalso.
      apply chunked_head_full in Hcm. lia. }
    subst blks mbs. cbn [concat length flat_map app] in Hcap |- *.
    destruct f as [|f]; [lia|].
    replace cap with (length mb) by lia.
    destruct (go_partial_mb (wpre ++ map mb_w [mb] ++ wpost) j mn prev p0 w0 mb rest f vs last
                ltac:(lia) Hnth ltac:(lia) Hvmb Hrest Eacc) as (s' & Hgo & Hdone).
    exists s'. split; [|exact Hdone]. rewrite Hgo.
    unfold acc_stream. cbn [concat acc_blks]. rewrite app_nil_r, Eacc. cbn [fst]. rewrite app_nil_r. reflexivity.
Qed.

Lemma go_stream : forall blks, chunked blockn blks -> Forall (Forall in_range) blks ->
  forall mbs, chunked pern mbs -> Forall (Forall (fun v => v < 2 ^ bits)) mbs -> stream_stmt blks mbs.
Proof.
  induction blks as [|b blks IHb]; intros Hcb Hrb; apply go_mbs.
  - (* nothing left *)
    intros j wpre wpost mn prev p0 w0 f cap Hj Hjm Hfull Hcap Hf.
    cbn [concat length Nat.add] in Hcap. subst cap. rewrite dbp_go_0.
    eexists. split; [reflexivity|].
    unfold dbp_done, st, dbp_into_cursor. cbn [d_rem d_first d_mb_val d_buf].
    change (0 <? 0) with false. cbn [andb flat_map app N.of_nat]. auto.
  - (* the next block is loaded *)
    intros j wpre wpost mn prev p0 w0 f cap Hj Hjm Hfull Hcap Hf.
    destruct (Hfull ltac:(discriminate)) as [Hjmbc _]. cbn [length] in Hjmbc.
    inversion Hrb as [|b' blks' Hrb1 Hrb2]; subst b' blks'.
    pose proof (chunked_head _ _ _ Hcb) as Hlb.
    cbn [flat_map app]. rewrite <- app_assoc.
    set (tail := flat_map (dbp_block bits mbcn pern) blks ++ rest).
    destruct (load_block b tail (N.of_nat cap) (wpre ++ map mb_w [] ++ wpost) (N.of_nat j) 0 (N.of_nat pern)
                mn prev false p0 w0 Hrb1) as [w1 Hload].
    cbn [concat length Nat.add] in Hcap. rewrite app_length in Hcap.
    unfold st at 1.
    erewrite dbp_go_load;
      [ | lia | cbn [d_rem]; lia | cbn [d_per d_mb_val d_mbc d_mb_idx]; lia | exact Hload
        | cbn [d_per d_mb_val d_mbc d_mb_idx]; lia | reflexivity ].
    set (mbs := chunks mbcn pern (blk_rel bits b)).
    assert (Hconc : concat mbs = blk_rel bits b).
    { apply chunks_concat; [exact Hper|]. unfold blk_rel. rewrite map_length. unfold blockn in Hlb. lia. }
    assert (Hlc : length (concat mbs) = length b).
    { rewrite Hconc. unfold blk_rel. apply map_length. }
    destruct (IHb (chunked_tail _ _ _ Hcb) Hrb2 mbs (chunks_chunked pern Hper mbcn _)
                  (chunks_Forall _ pern mbcn _ (blk_rel_lt b))
                  0%nat [] (repeat 0 (mbcn - length mbs)) (of_signed bits (blk_mn b)) prev 0 w1 f cap)
      as (s' & Hgo & Hdone).
    + reflexivity.
    + pose proof (chunks_length_le pern mbcn (blk_rel bits b)). fold mbs in H. lia.
    + intros Hne. destruct blks as [|b2 blks2]; [congruence|].
      apply chunked_head_full in Hcb.
      destruct (chunks_full pern Hper mbcn (blk_rel bits b)) as [H1 H2].
      { unfold blk_rel. rewrite map_length. exact Hcb. }
      fold mbs in H1, H2. split; [lia | exact H2].
    + lia.
    + exact Hf.
    + exists s'. split; [|exact Hdone].
      unfold st in Hgo. cbn [app N.of_nat] in Hgo. fold tail in Hgo. rewrite Hgo.
      unfold acc_stream. cbn [concat acc_blks dbp_accum app]. rewrite Hconc.
      destruct (dbp_accum bits (of_signed bits (blk_mn b)) prev (blk_rel bits b)) as [v1 l1].
      destruct (acc_blks bits l1 blks) as [v2 l2]. reflexivity.
Qed.
End Stream.

(* ---------- 7. the header and the two theorems ---------- *)

Lemma deltas_length bits : forall vs prev, length (deltas bits prev vs) = length vs.
Proof. induction vs as [|v vs IH]; intros prev; cbn [deltas length]; [reflexivity | rewrite IH; reflexivity]. Qed.

Lemma deltas_range bits : 0 < bits -> forall vs prev, Forall (in_range bits) (deltas bits prev vs).
Proof.
  intros Hb. induction vs as [|v vs IH]; intros prev; cbn [deltas]; constructor; [|apply IH].
  apply to_signed_range; [exact Hb | apply of_signed_lt].
Qed.

(* from a freshly loaded block: the rest of the page in one dbp_go *)
Lemma go_blocks_loaded bits mbcn pern total rest b blks prev p0 w0 cap :
  0 < bits <= 64 -> (0 < mbcn)%nat -> (0 < pern)%nat -> N.of_nat pern mod 8 = 0 -> bytes_ok rest ->
  chunked (mbcn * pern)%nat (b :: blks) -> Forall (Forall (in_range bits)) (b :: blks) ->
  cap = length (concat (b :: blks)) ->
  exists s',
    dbp_go bits cap cap
      (mk_dbp (flat_map (mb_enc pern) (chunks mbcn pern (blk_rel bits b))
               ++ flat_map (dbp_block bits mbcn pern) blks ++ rest)
              (N.of_nat mbcn) total (N.of_nat cap)
              (map mb_w (chunks mbcn pern (blk_rel bits b))
               ++ repeat 0 (mbcn - length (chunks mbcn pern (blk_rel bits b))))
              0 0 (N.of_nat pern) (of_signed bits (blk_mn b)) prev false p0 w0)
    = Ok (fst (acc_blks bits prev (b :: blks)), s')
    /\ dbp_done s' rest.
Proof.
  intros Hbits Hmbc Hper Hper8 Hrest Hcb Hrb Hcap.
  inversion Hrb as [|b' blks' Hrb1 Hrb2]; subst b' blks'.
  pose proof (chunked_head _ _ _ Hcb) as Hlb.
  set (mbs := chunks mbcn pern (blk_rel bits b)).
  assert (Hconc : concat mbs = blk_rel bits b).
  { apply chunks_concat; [exact Hper|]. unfold blk_rel. rewrite map_length. lia. }
  assert (Hlc : length (concat mbs) = length b).
  { rewrite Hconc. unfold blk_rel. apply map_length. }
  cbn [concat] in Hcap. rewrite app_length in Hcap.
  destruct (go_stream bits mbcn pern total rest Hbits Hmbc Hper Hper8 Hrest blks
              (chunked_tail _ _ _ Hcb) Hrb2 mbs (chunks_chunked pern Hper mbcn _)
              (chunks_Forall _ pern mbcn _ (blk_rel_lt bits b))
              0%nat [] (repeat 0 (mbcn - length mbs)) (of_signed bits (blk_mn b)) prev p0 w0 cap cap)
    as (s' & Hgo & Hdone).
  - reflexivity.
  - pose proof (chunks_length_le pern mbcn (blk_rel bits b)) as Hle. fold mbs in Hle. lia.
  - intros Hne. destruct blks as [|b2 blks2]; [congruence|].
    apply chunked_head_full in Hcb.
    destruct (chunks_full pern Hper mbcn (blk_rel bits b)) as [H1 H2].
    { unfold blk_rel. rewrite map_length. exact Hcb. }
    fold mbs in H1, H2. split; [lia | exact H2].
  - lia.
  - lia.
  - exists s'. split; [|exact Hdone].
    unfold st in Hgo. cbn [app N.of_nat] in Hgo. rewrite Hgo.
    unfold acc_stream. cbn [acc_blks]. rewrite Hconc.
    destruct (dbp_accum bits (of_signed bits (blk_mn b)) prev (blk_rel bits b)) as [v1 l1].
    destruct (acc_blks bits l1 blks) as [v2 l2]. reflexivity.
Qed.

Lemma dbp_new_header bits block mbc total first tail :
  0 < bits <= 64 -> block < 2 ^ 64 -> 0 < mbc < 2 ^ 64 -> total < 2 ^ 64 -> first < 2 ^ bits ->
  dbp_new bits (vlq_encode block ++ vlq_encode mbc ++ vlq_encode total
                ++ vlq_encode (zigzag_encode (to_signed bits first)) ++ tail)
  = (if 1 <? total
     then dbp_load bits (mk_dbp tail mbc total (total - 1) (repeat 0 (N.to_nat mbc)) 0 0 (block / mbc) 0
                                first (0 <? total) 0 0)
     else Ok (mk_dbp tail mbc total (total - 1) (repeat 0 (N.to_nat mbc)) 0 0 (block / mbc) 0
                     first (0 <? total) 0 0)).
Proof.
  intros Hb Hblock Hmbc Htotal Hfirst. unfold dbp_new.
  rewrite (vlq_roundtrip block _ Hblock). cbn [bind].
  rewrite (vlq_roundtrip mbc _ (proj2 Hmbc)). cbn [bind].
  rewrite (vlq_roundtrip total _ Htotal). cbn [bind].
  destruct (read_signed bits (to_signed bits first) tail Hb
              (to_signed_range bits first ltac:(lia) Hfirst)) as [Hv Hf].
  rewrite Hv. cbn [bind]. rewrite Hf. cbn [opt_err bind].
  rewrite (of_to_signed bits first Hfirst).
  replace (mbc =? 0) with false by (symmetry; lia). reflexivity.
Qed.

Definition dbp_params_ok (bits block mbc : N) : Prop :=
  (bits = 32 \/ bits = 64) /\ 0 < mbc /\ mbc < 256 /\ block mod mbc = 0 /\ 0 < block / mbc
  /\ (block / mbc) mod 8 = 0 /\ block < 2 ^ 32.

(* the same with the block geometry given as nat numbers *)
Lemma dbp_roundtrip_nat bits mbcn pern vals rest :
  0 < bits <= 64 -> (0 < mbcn)%nat -> (0 < pern)%nat -> N.of_nat pern mod 8 = 0 ->
  N.of_nat mbcn < 2 ^ 64 -> N.of_nat (mbcn * pern) < 2 ^ 64 ->
  Forall (fun v => v < 2 ^ bits) vals -> N.of_nat (length vals) < 2 ^ 64 -> bytes_ok rest ->
  exists s s',
    dbp_new bits (dbp_encode bits (N.of_nat (mbcn * pern)) (N.of_nat mbcn) vals ++ rest) = Ok s
    /\ dbp_read bits (length vals) s = Ok (vals, s')
    /\ dbp_done s' rest
    /\ d_total s = N.of_nat (length vals).
Proof.
  intros Hbits Hmbc Hper Hper8 Hmbc64 Hblock64 Hvals Hlen Hrest.
  assert (Hdiv : N.of_nat (mbcn * pern) / N.of_nat mbcn = N.of_nat pern).
  { rewrite Nat2N.inj_mul, N.mul_comm. apply N.div_mul. lia. }
  assert (Hfirst : hd 0 vals < 2 ^ bits).
  { destruct vals as [|v vals']; cbn [hd]; [apply pow2_pos | inversion Hvals; assumption]. }
  unfold dbp_encode. rewrite Hdiv, !Nat2N.id. rewrite <- !app_assoc.
  assert (Hm2 : 0 < N.of_nat mbcn < 2 ^ 64) by (split; [lia | exact Hmbc64]).
  rewrite (dbp_new_header bits _ _ _ _ _ Hbits Hblock64 Hm2 Hlen Hfirst).
  rewrite Hdiv, Nat2N.id.
  destruct vals as [|v [|v2 vr]].
  - (* no value *)
    cbn [hd tl length deltas chunks flat_map app N.of_nat].
    change (1 <? 0) with false. cbv iota.
    eexists. eexists. split; [reflexivity|]. split; [reflexivity|].
    unfold dbp_done, dbp_into_cursor. cbn [d_rem d_first d_mb_val d_buf d_total].
    change (0 <? 0) with false. cbn [andb]. auto.
  - (* the header value only *)
    cbn [hd tl length deltas chunks flat_map app].
    change (N.of_nat 1) with 1. change (1 <? 1) with false. change (0 <? 1) with true. cbv iota.
    eexists. eexists. split; [reflexivity|].
    cbn [dbp_read d_first dbp_go bind d_prev app length Nat.sub repeat].
    split; [reflexivity|].
    unfold dbp_done, dbp_into_cursor, dbp_clear_first. cbn [d_rem d_first d_mb_val d_buf d_total].
    change (0 <? 0) with false. cbn [andb]. auto.
  - (* at least one delta *)
    cbn [hd tl].
    set (ds := deltas bits v (v2 :: vr)).
    assert (Hlds : length ds = S (length vr)).
    { unfold ds. rewrite deltas_length. reflexivity. }
    set (blks := chunks (length ds) (mbcn * pern) ds).
    assert (Hkpos : (0 < mbcn * pern)%nat) by lia.
    assert (Hconc : concat blks = ds).
    { apply chunks_concat; [exact Hkpos|]. nia. }
    pose proof (chunks_chunked (mbcn * pern)%nat Hkpos (length ds) ds) as Hcb. fold blks in Hcb.
    assert (Hrb : Forall (Forall (in_range bits)) blks).
    { apply chunks_Forall. apply deltas_range. lia. }
    destruct blks as [|b blks'] eqn:Eblks.
    { cbn [concat] in Hconc. rewrite <- Hconc in Hlds. discriminate. }
    cbn [flat_map]. rewrite <- app_assoc.
    set (T := N.of_nat (length (v :: v2 :: vr))).
    assert (HT : T = N.of_nat (S (S (length vr)))) by reflexivity.
    replace (1 <? T) with true by (symmetry; lia).
    replace (0 <? T) with true by (symmetry; lia).
    inversion Hrb as [|b0 blks0 Hrb1 Hrb2]; subst b0 blks0.
    destruct (load_block bits mbcn pern T Hbits Hmbc Hper Hper8 b
                (flat_map (dbp_block bits mbcn pern) blks' ++ rest) (T - 1) (repeat 0 mbcn) 0 0
                (N.of_nat pern) 0 v true 0 0 Hrb1) as [w1 Hload].
    destruct (go_blocks_loaded bits mbcn pern T rest b blks' v 0 w1 (S (length vr))
                Hbits Hmbc Hper Hper8 Hrest Hcb Hrb) as (s' & Hgo & Hdone).
    { rewrite Hconc. symmetry. exact Hlds. }
    rewrite Hload.
    eexists. exists s'. split; [reflexivity|].
    cbn [length dbp_read d_first]. unfold dbp_clear_first.
    cbn [d_buf d_mbc d_total d_rem d_widths d_mb_idx d_mb_val d_per d_min d_prev d_first d_pos d_w].
    replace (T - 1) with (N.of_nat (S (length vr))) by lia.
    rewrite Hgo. cbn [bind].
    inversion Hvals as [|v' vals' Hv Hvals2]; subst v' vals'.
    rewrite (acc_blks_deltas bits (b :: blks') v (v2 :: vr) Hvals2 Hconc). cbn [fst length].
    rewrite Nat.sub_diag. cbn [repeat]. rewrite app_nil_r.
    split; [reflexivity|]. split; [exact Hdone | reflexivity].
Qed.

(* GOAL 1: one read of the whole page returns the encoded values, never fails, and leaves the
   decoder with no remaining value, the header value consumed and the data cursor (try_into_cursor)
   exactly behind the padded last miniblock. *)
Theorem dbp_roundtrip : forall bits block mbc vals rest, dbp_params_ok bits block mbc ->
  Forall (fun v => v < 2 ^ bits) vals -> N.of_nat (length vals) < 2 ^ 32 -> bytes_ok rest ->
  exists s s', dbp_new bits (dbp_encode bits block mbc vals ++ rest) = Ok s /\
               dbp_read bits (length vals) s = Ok (vals, s') /\
               d_rem s' = 0 /\ d_first s' = false /\ dbp_into_cursor s' = Ok rest /\
               d_total s = N.of_nat (length vals).
Proof.
  intros bits block mbc vals rest (Hb & Hm0 & Hm1 & Hbm & Hp0 & Hp8 & Hblk) Hv Hlen Hrest.
  assert (Hbits : 0 < bits <= 64) by (destruct Hb; subst bits; lia).
  assert (Eblock : N.of_nat (N.to_nat mbc * N.to_nat (block / mbc)) = block).
  { rewrite Nat2N.inj_mul, !N2Nat.id.
    pose proof (N.div_mod block mbc ltac:(lia)) as Hdm. rewrite Hbm in Hdm. lia. }
  assert (H32 : 2 ^ 32 < 2 ^ 64) by reflexivity.
  assert (H256 : 256 < 2 ^ 64) by reflexivity.
  destruct (dbp_roundtrip_nat bits (N.to_nat mbc) (N.to_nat (block / mbc)) vals rest Hbits)
    as (s & s' & Hnew & Hread & (Hrem & Hfirst & Hcur) & Htot).
  - lia.
  - lia.
  - rewrite N2Nat.id. exact Hp8.
  - rewrite N2Nat.id. apply N.lt_trans with (1 := Hm1). exact H256.
  - rewrite Eblock. apply N.lt_trans with (1 := Hblk). exact H32.
  - exact Hv.
  - apply N.lt_trans with (1 := Hlen). exact H32.
  - exact Hrest.
  - rewrite Eblock, N2Nat.id in Hnew.
    exists s, s'. split; [exact Hnew|]. split; [exact Hread|].
    split; [exact Hrem|]. split; [exact Hfirst|]. split; [exact Hcur | exact Htot].
Qed.

(* GOAL 2 *)
Theorem dbp_read_lengths_roundtrip : forall block mbc lens rest, dbp_params_ok 32 block mbc ->
  Forall (fun v => v < 2 ^ 32) lens -> N.of_nat (length lens) < 2 ^ 32 -> bytes_ok rest ->
  dbp_read_lengths (dbp_encode 32 block mbc lens ++ rest) = Ok (lens, rest).
Proof.
  intros block mbc lens rest Hp Hv Hlen Hrest.
  destruct (dbp_roundtrip 32 block mbc lens rest Hp Hv Hlen Hrest)
    as (s & s' & Hnew & Hread & _ & _ & Hcur & Htot).
  unfold dbp_read_lengths. rewrite Hnew. cbn [bind]. rewrite Htot, Nat2N.id, Hread. cbn [bind].
  rewrite Hcur. reflexivity.
Qed.

(* a page with exactly one value is the header only *)
Theorem dbp_single_value : forall bits block mbc v, dbp_params_ok bits block mbc -> v < 2 ^ bits ->
  dbp_decode_split bits (dbp_encode bits block mbc [v]) [1%nat] = Ok [[v]].
Proof.
  intros bits block mbc v Hp Hv.
  destruct (dbp_roundtrip bits block mbc [v] [] Hp ltac:(constructor; [exact Hv | constructor])
              ltac:(reflexivity) ltac:(constructor))
    as (s & s' & Hnew & Hread & _).
  rewrite app_nil_r in Hnew. cbn [length] in Hread.
  unfold dbp_decode_split. rewrite Hnew. cbn [bind dbp_reads]. rewrite Hread. reflexivity.
Qed.

Lemma params_ok_32_128_4 : dbp_params_ok 32 128 4.
Proof.
  unfold dbp_params_ok. split; [left; reflexivity|]. split; [reflexivity|]. split; [reflexivity|].
  split; [reflexivity|]. split; [reflexivity|]. split; reflexivity.
Qed.

(* 1 + block_size lengths: the deltas end exactly at the end of a block *)
Theorem dbp_lengths_full_block : forall lens rest, length lens = 129%nat ->
  Forall (fun v => v < 2 ^ 32) lens -> bytes_ok rest ->
  dbp_read_lengths (dbp_encode 32 128 4 lens ++ rest) = Ok (lens, rest).
Proof.
  intros lens rest Hl Hv Hrest.
  apply dbp_read_lengths_roundtrip; [exact params_ok_32_128_4 | exact Hv | | exact Hrest].
  rewrite Hl. reflexivity.
Qed.

(* ---------- the hypotheses are satisfiable ---------- *)
Example params_ok_examples :
  dbp_params_ok 32 128 4 /\ dbp_params_ok 64 128 4 /\ dbp_params_ok 64 256 8 /\ dbp_params_ok 32 128 1.
Proof.
  unfold dbp_params_ok.
  split; [split; [left; reflexivity|]; split; [reflexivity|]; split; [reflexivity|];
          split; [reflexivity|]; split; [reflexivity|]; split; reflexivity|].
  split; [split; [right; reflexivity|]; split; [reflexivity|]; split; [reflexivity|];
          split; [reflexivity|]; split; [reflexivity|]; split; reflexivity|].
  split; [split; [right; reflexivity|]; split; [reflexivity|]; split; [reflexivity|];
          split; [reflexivity|]; split; [reflexivity|]; split; reflexivity|].
  split; [left; reflexivity|]; split; [reflexivity|]; split; [reflexivity|];
  split; [reflexivity|]; split; [reflexivity|]; split; reflexivity.
Qed.

Example dbp_roundtrip_hyps_ex :
  Forall (fun v => v < 2 ^ 32) [1; 2; 3; 4] /\ N.of_nat (length [1; 2; 3; 4]) < 2 ^ 32 /\ bytes_ok [7].
Proof.
  split; [repeat constructor|]. split; [reflexivity|]. repeat constructor.
Qed.

Example dbp_roundtrip_ex :
  dbp_decode_split 32 (dbp_encode 32 128 4 [1; 2; 3; 4] ++ [7]) [4%nat] = Ok [[1; 2; 3; 4]]
  /\ dbp_read_lengths (dbp_encode 32 128 4 [1; 2; 3; 4] ++ [7]) = Ok ([1; 2; 3; 4], [7]).
Proof. vm_compute. split; reflexivity. Qed.

(* 300 values = 299 deltas = two full blocks of 128 and a third one with 43 deltas (two miniblocks,
   the second partially filled); negative deltas and 32 bit wrap-around *)
Definition sample32 : list N :=
  map (fun i => (N.of_nat i * N.of_nat i * 7919 + (if Nat.even i then 2 ^ 31 else 5)) mod 2 ^ 32) (seq 0 300).
Example dbp_roundtrip_blocks_ex :
  forallb (fun v => v <? 2 ^ 32) sample32 = true
  /\ dbp_decode_split 32 (dbp_encode 32 128 4 sample32 ++ [7; 8]) [300%nat] = Ok [sample32]
  /\ dbp_read_lengths (dbp_encode 32 128 4 sample32 ++ [7; 8]) = Ok (sample32, [7; 8]).
Proof. vm_compute. split; [reflexivity|]. split; reflexivity. Qed.

Example dbp_single_value_ex : dbp_decode_split 64 (dbp_encode 64 256 8 [5]) [1%nat] = Ok [[5]].
Proof. vm_compute. reflexivity. Qed.

Example dbp_lengths_full_block_ex :
  dbp_read_lengths (dbp_encode 32 128 4 (repeat 1 129) ++ [9]) = Ok (repeat 1 129, [9]).
Proof. vm_compute. reflexivity. Qed.

Print Assumptions dbp_roundtrip.
Print Assumptions dbp_read_lengths_roundtrip.
