(* Proofs about model/Merge.v: two-way merge, arbitrary merge trees, and the
   limit-hint (top-k) truncation. *)
From Coq Require Import NArith List Bool Lia Arith Permutation Sorted.
From GV Require Import lib.Bytes model.SortKey model.SortSpec model.Merge proofs.SortSpecProofs.
Import ListNotations.
Local Open Scope nat_scope.

(* ---------- unfolding ---------- *)

Lemma merge_nil_l cs b : merge cs [] b = b.
Proof. reflexivity. Qed.

Lemma merge_nil_r cs a : merge cs a [] = a.
Proof. destruct a; reflexivity. Qed.

Lemma merge_cons cs x a y b :
  merge cs (x :: a) (y :: b) =
  if sle cs x y then x :: merge cs a (y :: b) else y :: merge cs (x :: a) b.
Proof. reflexivity. Qed.

(* ---------- permutation ---------- *)

Theorem merge_perm cs a : forall b, Permutation (merge cs a b) (a ++ b).
Proof.
  induction a as [|x a IHa]; intros b; [apply Permutation_refl|].
  induction b as [|y b IHb].
  - rewrite merge_nil_r, app_nil_r. apply Permutation_refl.
  - rewrite merge_cons. destruct (sle cs x y).
    + cbn [app]. apply perm_skip, IHa.
    + eapply perm_trans; [apply perm_skip, IHb|]. apply Permutation_middle.
Qed.

(* ---------- sortedness: totality of the order is enough ---------- *)

Lemma merge_HdRel cs z a b :
  HdRel (fun a b => sle cs a b = true) z a -> HdRel (fun a b => sle cs a b = true) z b ->
  HdRel (fun a b => sle cs a b = true) z (merge cs a b).
Proof.
  destruct a as [|x a]; [intros _ H; exact H|].
  destruct b as [|y b]; [intros H _; rewrite merge_nil_r; exact H|].
  intros Ha Hb. rewrite merge_cons.
  inversion Ha as [|x' a' Hzx]; inversion Hb as [|y' b' Hzy]; subst.
  destruct (sle cs x y); constructor; assumption.
Qed.

Theorem merge_sorted cs a : forall b,
  Sorted (fun a b => sle cs a b = true) a -> Sorted (fun a b => sle cs a b = true) b ->
  Sorted (fun a b => sle cs a b = true) (merge cs a b).
Proof.
  induction a as [|x a IHa]; intros b Ha Hb; [exact Hb|].
  induction b as [|y b IHb]; [rewrite merge_nil_r; exact Ha|].
  rewrite merge_cons. destruct (sle cs x y) eqn:E.
  - inversion Ha as [|x' a' Ha' Hxa]; subst. constructor.
    + apply IHa; assumption.
    + apply merge_HdRel; [exact Hxa|constructor; exact E].
  - inversion Hb as [|y' b' Hb' Hyb]; subst. constructor.
    + apply IHb; assumption.
    + apply merge_HdRel; [constructor; apply sle_false_flip, E|exact Hyb].
Qed.

Corollary merge_sortedb cs a b :
  sortedb cs a = true -> sortedb cs b = true -> sortedb cs (merge cs a b) = true.
Proof. rewrite !sortedb_Sorted. apply merge_sorted. Qed.

(* ---------- any merge tree over sorted runs ---------- *)

Theorem merge_tree_sorted_perm cs t :
  all_runs (Sorted (fun a b => sle cs a b = true)) t ->
  Sorted (fun a b => sle cs a b = true) (merge_tree cs t) /\
  Permutation (merge_tree cs t) (runs t).
Proof.
  induction t as [l|l IHl r IHr]; cbn [all_runs merge_tree runs].
  - intros H. split; [exact H|apply Permutation_refl].
  - intros [Hl Hr]. destruct (IHl Hl) as [Sl Pl]. destruct (IHr Hr) as [Sr Pr]. split.
    + apply merge_sorted; assumption.
    + eapply perm_trans; [apply merge_perm|]. apply Permutation_app; assumption.
Qed.

(* two pairing orders of the same runs give the same rows in sorted order *)
Corollary merge_tree_any_order cs t1 t2 :
  all_runs (Sorted (fun a b => sle cs a b = true)) t1 ->
  all_runs (Sorted (fun a b => sle cs a b = true)) t2 ->
  Permutation (runs t1) (runs t2) ->
  Sorted (fun a b => sle cs a b = true) (merge_tree cs t1) /\
  Sorted (fun a b => sle cs a b = true) (merge_tree cs t2) /\
  Permutation (merge_tree cs t1) (merge_tree cs t2).
Proof.
  intros H1 H2 HP.
  destruct (merge_tree_sorted_perm cs t1 H1) as [S1 P1].
  destruct (merge_tree_sorted_perm cs t2 H2) as [S2 P2].
  split; [exact S1|]. split; [exact S2|].
  eapply perm_trans; [exact P1|]. eapply perm_trans; [exact HP|]. apply Permutation_sym, P2.
Qed.

(* ---------- the limit hint ---------- *)

(* the first k rows of a merge only depend on the first k rows of each input *)
Lemma firstn_merge_firstn cs k : forall ka kb a b, k <= ka -> k <= kb ->
  firstn k (merge cs (firstn ka a) (firstn kb b)) = firstn k (merge cs a b).
Proof.
  induction k as [|k IH]; intros ka kb a b Ha Hb; [reflexivity|].
  destruct ka as [|ka]; [lia|]. destruct kb as [|kb]; [lia|].
  destruct a as [|x a].
  - rewrite firstn_nil, !merge_nil_l, firstn_firstn, Nat.min_l by lia. reflexivity.
  - destruct b as [|y b].
    + rewrite firstn_nil, !merge_nil_r, firstn_firstn, Nat.min_l by lia. reflexivity.
    + change (firstn (S ka) (x :: a)) with (x :: firstn ka a).
      change (firstn (S kb) (y :: b)) with (y :: firstn kb b).
      rewrite !merge_cons. destruct (sle cs x y); cbn [firstn]; f_equal.
      * change (y :: firstn kb b) with (firstn (S kb) (y :: b)). apply IH; lia.
      * change (x :: firstn ka a) with (firstn (S ka) (x :: a)). apply IH; lia.
Qed.

Theorem topk_hint_equiv : forall cs k a b,
  firstn k (merge cs (firstn k a) (firstn k b)) = firstn k (merge cs a b).
Proof. intros cs k a b. apply firstn_merge_firstn; apply le_n. Qed.

Corollary merge_hint_spec cs k a b : merge_hint cs k a b = firstn k (merge cs a b).
Proof. apply topk_hint_equiv. Qed.

(* truncating every run and every intermediate merge to k rows gives the first k
   rows of the full merge tree *)
Theorem merge_tree_hint_spec cs k t : merge_tree_hint cs k t = firstn k (merge_tree cs t).
Proof.
  induction t as [l|l IHl r IHr]; cbn [merge_tree_hint merge_tree]; [reflexivity|].
  rewrite IHl, IHr. unfold merge_hint.
  rewrite !firstn_firstn, Nat.min_id. apply topk_hint_equiv.
Qed.

(* top-k over any merge tree: the first k rows of a sorted permutation of all rows *)
Corollary merge_tree_hint_topk cs k t :
  all_runs (Sorted (fun a b => sle cs a b = true)) t ->
  exists p, Permutation p (runs t) /\ Sorted (fun a b => sle cs a b = true) p /\
            merge_tree_hint cs k t = firstn k p.
Proof.
  intros H. destruct (merge_tree_sorted_perm cs t H) as [S P].
  exists (merge_tree cs t). split; [exact P|]. split; [exact S|apply merge_tree_hint_spec].
Qed.

(* ---------- a concrete run ---------- *)

Module Example.
  Import SortSpecProofs.Example.
  (* three sorted runs of the example input (k1 ASC NULLS LAST, k2 DESC NULLS FIRST) *)
  Definition r1 : list srow := [row neg1 (i 2) 7; row (i 1) (i 7) 2; row (i 2) (i 5) 0]%N.
  Definition r2 : list srow := [row (i 1) KNull 1; row (i 1) (i 7) 4; row KNull (i 3) 3]%N.
  Definition r3 : list srow := [row (i 1) (i 3) 6; row (i 2) (i 9) 5]%N.

  Example runs_sorted :
    sortedb cs r1 = true /\ sortedb cs r2 = true /\ sortedb cs r3 = true.
  Proof. repeat split; vm_compute; reflexivity. Qed.

  (* both pairing orders give the declared order of the ids *)
  Example tree_left :
    map snd (merge_tree cs (Node (Node (Run r1) (Run r2)) (Run r3)))
    = map (fun n => [KBits n]) [7; 1; 2; 4; 6; 5; 0; 3]%N.
  Proof. vm_compute. reflexivity. Qed.

  Example tree_right :
    map snd (merge_tree cs (Node (Run r1) (Node (Run r2) (Run r3))))
    = map (fun n => [KBits n]) [7; 1; 2; 4; 6; 5; 0; 3]%N.
  Proof. vm_compute. reflexivity. Qed.

  (* limit hint k = 2: every run and every merge is cut to 2 rows *)
  Example tree_hint :
    map snd (merge_tree_hint cs 2 (Node (Run r1) (Node (Run r2) (Run r3))))
    = map (fun n => [KBits n]) [7; 1]%N.
  Proof. vm_compute. reflexivity. Qed.
End Example.

Print Assumptions merge_perm.
Print Assumptions merge_sorted.
Print Assumptions merge_tree_sorted_perm.
Print Assumptions topk_hint_equiv.
Print Assumptions merge_tree_hint_spec.
Print Assumptions merge_tree_hint_topk.
