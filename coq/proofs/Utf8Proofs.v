(* Proofs about model/Utf8.v *)
From Coq Require Import NArith ZArith List Bool Lia ZifyBool ZifyN.
From GV Require Import model.Utf8.
Import ListNotations.
Open Scope N_scope.
Ltac Zify.zify_post_hook ::= Z.div_mod_to_equations.

Lemma decode_encode_cp c bs : cp_valid c ->
  decode (encode_cp c ++ bs) = option_map (cons c) (decode bs).
Proof.
  unfold cp_valid, cp_validb, encode_cp. intros V.
  destruct (c <? 0x80) eqn:E1.
  { cbn [app decode]. rewrite E1. reflexivity. }
  destruct (c <? 0x800) eqn:E2.
  { cbn [app decode]. unfold is_cont.
    repeat match goal with |- context [if ?b then _ else _] => destruct b eqn:? end; try lia.
    f_equal. f_equal. lia. }
  destruct (c <? 0x10000) eqn:E3.
  { cbn [app decode]. unfold is_cont, cp_validb. cbv zeta.
    repeat match goal with |- context [if ?b then _ else _] => destruct b eqn:? end; try lia.
    f_equal. f_equal. lia. }
  cbn [app decode]. unfold is_cont, cp_validb. cbv zeta.
  repeat match goal with |- context [if ?b then _ else _] => destruct b eqn:? end; try lia.
  f_equal. f_equal. lia.
Qed.

Lemma decode_encode cs : cps_valid cs -> decode (encode cs) = Some cs.
Proof.
  induction 1 as [|c cs V _ IH]; [reflexivity|].
  cbn [encode flat_map]. rewrite decode_encode_cp by exact V.
  fold (encode cs). rewrite IH. reflexivity.
Qed.

Lemma encode_valid cs : cps_valid cs -> utf8_validb (encode cs) = true.
Proof. intros V. unfold utf8_validb. rewrite decode_encode by exact V. reflexivity. Qed.

Lemma encode_inj a b : cps_valid a -> cps_valid b -> encode a = encode b -> a = b.
Proof.
  intros Va Vb E. apply decode_encode in Va, Vb. rewrite E in Va. congruence.
Qed.

Lemma encode_cp_length c : lenN (encode_cp c) = cp_width c.
Proof.
  unfold encode_cp, cp_width, lenN.
  destruct (c <? 0x80); [reflexivity|]. destruct (c <? 0x800); [reflexivity|].
  destruct (c <? 0x10000); reflexivity.
Qed.

Lemma encode_length cs : lenN (encode cs) = blen cs.
Proof.
  induction cs as [|c cs IH]; [reflexivity|].
  cbn [encode flat_map blen fold_right]. fold (encode cs). fold (blen cs).
  unfold lenN in *. rewrite app_length, Nat2N.inj_add, IH.
  pose proof (encode_cp_length c) as W. unfold lenN in W. rewrite W. reflexivity.
Qed.

Lemma cp_width_pos c : 0 < cp_width c.
Proof. unfold cp_width. destruct (c <? 0x80), (c <? 0x800), (c <? 0x10000); lia. Qed.

(* an ASCII byte never occurs inside a multi-byte sequence: the byte-wise tests of
   optimizer/expr_rewrite/like.rs for '%', '_', '\' see exactly the ASCII characters *)
Lemma ascii_in_encode_cp a c : a < 0x80 -> In a (encode_cp c) <-> a = c.
Proof.
  intros A. unfold encode_cp.
  destruct (c <? 0x80) eqn:E1; [cbn [In]; intuition congruence|].
  destruct (c <? 0x800) eqn:E2; [cbn [In]; split; [intros [H|[H|[]]]; lia | intros ->; lia]|].
  destruct (c <? 0x10000) eqn:E3;
    cbn [In]; (split; [intros H; repeat destruct H as [H|H]; try lia; destruct H | intros ->; lia]).
Qed.

Lemma ascii_in_encode a cs : a < 0x80 -> In a (encode cs) <-> In a cs.
Proof.
  intros A. induction cs as [|c cs IH]; [reflexivity|].
  cbn [encode flat_map In]. fold (encode cs). rewrite in_app_iff, IH, ascii_in_encode_cp by exact A.
  intuition congruence.
Qed.
