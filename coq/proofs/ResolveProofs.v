(* C18 — proofs about model/Resolve.v over the regenerated tables gen/TablesTyping.v. *)
From Coq Require Import NArith ZArith List Bool Lia ZifyBool ZifyNat ZifyN.
From GV Require Import model.Resolve gen.TablesTyping model.ResolveSrc.
Import ListNotations.
Open Scope N_scope.

(* a boolean fact about the current parameters; false when a constant is missing *)
Definition on_src (Q : params -> bool) : bool := match src_params with Some P => Q P | None => false end.
Lemma on_src_true : forall Q, on_src Q = true -> exists P, src_params = Some P /\ Q P = true.
Proof.
  intros Q H. unfold on_src in H. destruct src_params as [P|]; [|discriminate].
  exists P. split; [reflexivity|exact H].
Qed.

(* ---------------------------------------------------------------- enumeration lemmas *)
Lemma in_type_range : forall P t, t < p_ntypes P -> In t (type_range P).
Proof.
  intros P t Hlt. unfold type_range. apply in_map_iff. exists (N.to_nat t). split.
  - apply N2Nat.id.
  - apply in_seq. lia.
Qed.

Lemma wf_in_all_inputs : forall P i, wf_input P i -> In i (all_inputs P).
Proof.
  intros P [t l] [Hty Hlit]. cbn [i_ty i_lit] in Hty, Hlit. unfold all_inputs.
  destruct l as [w|].
  - apply in_or_app. right. destruct Hlit as [[Ht Hw]|Ht]; subst t.
    + apply in_or_app. left. destruct w; cbn [map In]; auto; exfalso; apply Hw; reflexivity.
    + apply in_or_app. right. destruct w; cbn [map In]; auto.
  - apply in_or_app. left. apply in_map_iff. exists t. split; [reflexivity|]. apply in_type_range. exact Hty.
Qed.

Lemma in_tuples : forall (A : Type) (l : list A) (h : list A) (k : nat),
  List.length h = k -> Forall (fun x => In x l) h -> In h (tuples k l).
Proof.
  intros A l h. induction h as [|x xs IH]; intros k Hlen Hall.
  - subst k. cbn [List.length tuples]. left. reflexivity.
  - cbn [List.length] in Hlen. destruct k as [|k']; [discriminate|]. injection Hlen as Hlen.
    cbn [tuples]. apply in_flat_map. exists x.
    split; [exact (Forall_inv Hall)|]. apply in_map. apply IH; [exact Hlen|exact (Forall_inv_tail Hall)].
Qed.

(* ---------------------------------------------------------------- boolean equalities *)
Lemma cast_eqb_eq : forall a b, cast_eqb a b = true -> a = b.
Proof.
  intros a b H. destruct a as [|t s|t s], b as [|t' s'|t' s']; cbn [cast_eqb] in H; try discriminate; try reflexivity.
  - apply andb_true_iff in H. destruct H as [H1 H2]. apply N.eqb_eq in H1, H2. subst. reflexivity.
  - apply andb_true_iff in H. destruct H as [H1 H2]. apply N.eqb_eq in H1, H2. subst. reflexivity.
Qed.

Lemma casts_eqb_eq : forall a b, casts_eqb a b = true -> a = b.
Proof.
  induction a as [|x xs IH]; intros [|y ys] H; cbn [casts_eqb] in H; try discriminate; try reflexivity.
  apply andb_true_iff in H. destruct H as [H1 H2]. apply cast_eqb_eq in H1. apply IH in H2. subst. reflexivity.
Qed.

Lemma optN_eqb_eq : forall a b, optN_eqb a b = true -> a = b.
Proof.
  intros [x|] [y|] H; cbn [optN_eqb] in H; try discriminate; try reflexivity.
  apply N.eqb_eq in H. subst. reflexivity.
Qed.

(* ---------------------------------------------------------------- determinism of the choice *)
(* every candidate the unstable sort may put first has the same cast vector and the same return type id *)
Definition agree (P : params) (f : fset) (have : list input) : Prop :=
  forall c1 c2, In c1 (maximal P (find_candidates P have (f_sigs f))) ->
                In c2 (maximal P (find_candidates P have (f_sigs f))) ->
                snd c1 = snd c2 /\ sig_ret f (fst c1) = sig_ret f (fst c2).

Lemma agree_b_sound : forall P f have, agree_b P f have = true -> agree P f have.
Proof.
  intros P f have H c1 c2 H1 H2. unfold agree_b in H.
  destruct (maximal P (find_candidates P have (f_sigs f))) as [|c rest] eqn:EM; [contradiction|].
  assert (Hall : forall c', In c' (c :: rest) -> snd c = snd c' /\ sig_ret f (fst c) = sig_ret f (fst c')).
  { intros c' [Heq|Hin].
    - subst c'. split; reflexivity.
    - rewrite forallb_forall in H. specialize (H c' Hin). apply andb_true_iff in H. destruct H as [Ha Hb].
      split; [apply casts_eqb_eq; exact Ha|apply optN_eqb_eq; exact Hb]. }
  destruct (Hall c1 H1) as [A1 B1]. destruct (Hall c2 H2) as [A2 B2].
  split; congruence.
Qed.

Lemma existsb_false_all : forall (A : Type) (p : A -> bool) l, existsb p l = false -> forall x, In x l -> p x = false.
Proof.
  intros A p l. induction l as [|y ys IH]; intros H x Hin; [contradiction|].
  cbn [existsb] in H. apply orb_false_iff in H. destruct H as [Hy Hys].
  destruct Hin as [Heq|Hin]; [subst; exact Hy|apply IH; assumption].
Qed.

Lemma cands_from_none : forall P have sigs idx,
  (forall s, In s sigs -> arity_ok s (List.length have) = false) -> cands_from P have sigs idx = [].
Proof.
  intros P have sigs. induction sigs as [|s rest IH]; intros idx H; [reflexivity|].
  cbn [cands_from]. unfold compare_and_fill at 1. rewrite (H s (or_introl eq_refl)). cbn [negb].
  apply IH. intros s' Hin. apply H. right. exact Hin.
Qed.

Lemma no_accept_agree : forall P f have, accepts_arity f (List.length have) = false -> agree P f have.
Proof.
  intros P f have H c1 c2 H1 _. unfold find_candidates in H1.
  rewrite cands_from_none in H1; [contradiction|].
  intros s Hin. exact (existsb_false_all _ _ _ H s Hin).
Qed.

Lemma check_arity_sound : forall P f k ts have,
  check_arity P ts f k = true -> List.length have = k -> In have ts -> agree P f have.
Proof.
  intros P f k ts have H Hlen Hin. unfold check_arity in H.
  destruct (accepts_arity f k) eqn:EA.
  - apply agree_b_sound. rewrite forallb_forall in H. apply H. exact Hin.
  - apply no_accept_agree. rewrite Hlen. exact EA.
Qed.

Lemma check_sets_sound : forall P sets, check_sets P sets = true ->
  forall f, In f sets -> forall have, (List.length have <= 3)%nat -> Forall (wf_input P) have -> agree P f have.
Proof.
  intros P sets H f Hf have Hlen Hwf. unfold check_sets in H. rewrite forallb_forall in H.
  specialize (H f Hf). repeat (apply andb_true_iff in H; destruct H as [H ?H]).
  assert (Hin : In have (tuples (List.length have) (all_inputs P))).
  { apply in_tuples; [reflexivity|]. eapply Forall_impl; [|exact Hwf].
    intros a Ha. apply wf_in_all_inputs. exact Ha. }
  destruct (List.length have) as [|[|[|[|n]]]] eqn:EL.
  - eapply check_arity_sound; [exact H|exact EL|exact Hin].
  - eapply check_arity_sound; [exact H2|exact EL|exact Hin].
  - eapply check_arity_sound; [exact H1|exact EL|exact Hin].
  - eapply check_arity_sound; [exact H0|exact EL|exact Hin].
  - exfalso. lia.
Qed.

(* the sweep over the CURRENT tables: every scalar and aggregate function set, every tuple of at most three
   inputs (27 type ids + the 7 integer-literal classes) *)
Definition check_src : bool := on_src (fun P => check_sets P all_sets).

Lemma check_src_true : on_src (fun P => check_sets P all_sets) = true.
Proof. vm_compute. reflexivity. Qed.

Theorem resolution_deterministic :
  exists P, src_params = Some P /\
  forall f, In f all_sets -> forall have, (List.length have <= 3)%nat -> Forall (wf_input P) have -> agree P f have.
Proof.
  destruct (on_src_true _ check_src_true) as [P [E H]].
  exists P. split; [exact E|]. apply check_sets_sound. exact H.
Qed.

(* the hypotheses are satisfiable: the sweep is not empty *)
Definition wf_input_b (P : params) (i : input) : bool :=
  (i_ty i <? p_ntypes P) &&
  match i_lit i with
  | None => true
  | Some w => ((i_ty i =? p_i32 P) && negb (lw_rank w =? 3)) || (i_ty i =? p_i64 P)
  end.
Lemma wf_input_b_sound : forall P i, wf_input_b P i = true -> wf_input P i.
Proof.
  intros P [t l] H. unfold wf_input_b in H. cbn [i_ty i_lit] in H.
  apply andb_true_iff in H. destruct H as [H1 H2]. split; cbn [i_ty i_lit].
  - apply N.ltb_lt. exact H1.
  - destruct l as [w|]; [|exact I]. apply orb_true_iff in H2. destruct H2 as [H2|H2].
    + left. apply andb_true_iff in H2. destruct H2 as [Ha Hb]. split; [apply N.eqb_eq; exact Ha|].
      intros Hw. subst w. cbn in Hb. discriminate.
    + right. apply N.eqb_eq. exact H2.
Qed.

Definition no_set : fset := {| f_sigs := [] |}.
Definition ex_have : list input := [{| i_ty := 4; i_lit := None |}; {| i_ty := 5; i_lit := None |}].
Definition nonempty_b (P : params) : bool :=
  Nat.leb 1000 (List.length (tuples 2 (all_inputs P))) && Nat.leb 100 (List.length all_sets) &&
  forallb (wf_input_b P) ex_have && Nat.leb 2 (List.length (find_candidates P ex_have (f_sigs (nth 0 all_sets no_set)))).
Lemma nonempty_src : on_src nonempty_b = true.
Proof. vm_compute. reflexivity. Qed.

Example resolution_sweep_nonempty :
  exists P, src_params = Some P /\ (1000 <= List.length (tuples 2 (all_inputs P)))%nat /\
            (100 <= List.length all_sets)%nat /\
            exists f have, In f all_sets /\ List.length have = 2%nat /\ Forall (wf_input P) have /\
                           (2 <= List.length (find_candidates P have (f_sigs f)))%nat.
Proof.
  destruct (on_src_true _ nonempty_src) as [P [E H]].
  exists P. split; [exact E|]. unfold nonempty_b in H.
  apply andb_true_iff in H. destruct H as [H H4]. apply andb_true_iff in H. destruct H as [H H3].
  apply andb_true_iff in H. destruct H as [H1 H2].
  apply Nat.leb_le in H1, H2, H4.
  split; [exact H1|]. split; [exact H2|].
  exists (nth 0 all_sets no_set). exists ex_have.
  split; [apply nth_In; lia|]. split; [reflexivity|]. split; [|exact H4].
  apply Forall_forall. intros i Hi. apply wf_input_b_sound. rewrite forallb_forall in H3. apply H3. exact Hi.
Qed.

(* ---------------------------------------------------------------- exact match *)
Lemma find_exact_from_spec : forall P sigs ids idx i,
  find_exact_from P sigs ids idx = Some i ->
  idx <= i /\ exists s, nth_error sigs (N.to_nat (i - idx)) = Some s /\ exact_match P s ids = true.
Proof.
  intros P sigs ids. induction sigs as [|s rest IH]; intros idx i H; cbn [find_exact_from] in H; [discriminate|].
  destruct (exact_match P s ids) eqn:EM.
  - injection H as H. subst i. split; [lia|]. exists s. rewrite N.sub_diag. cbn [N.to_nat nth_error]. auto.
  - apply IH in H. destruct H as [Hle [s' [Hn He]]]. split; [lia|]. exists s'. split; [|exact He].
    replace (N.to_nat (i - idx)) with (S (N.to_nat (i - (idx + 1)))) by lia. cbn [nth_error]. exact Hn.
Qed.

Lemma cast_one_exact : forall P h e, (e =? p_any P) || (i_ty h =? e) = true -> cast_one P h e = Some CNo.
Proof. intros P h e H. unfold cast_one, no_cast_needed. rewrite H. reflexivity. Qed.

Lemma fill_pos_exact : forall P have es, exact_pos P es (map i_ty have) = true ->
  fill_pos P have es = Some (repeat CNo (Nat.min (List.length have) (List.length es))).
Proof.
  intros P have. induction have as [|h hs IH]; intros es H.
  - cbn [fill_pos List.length Nat.min repeat]. destruct es; reflexivity.
  - destruct es as [|e es'].
    + cbn [fill_pos List.length Nat.min repeat]. reflexivity.
    + cbn [map exact_pos] in H. apply andb_true_iff in H. destruct H as [H1 H2].
      cbn [fill_pos]. rewrite (cast_one_exact P h e H1). rewrite (IH es' H2).
      cbn [List.length Nat.min repeat]. reflexivity.
Qed.

Lemma fill_all_exact : forall P rem e,
  forallb (fun h => negb (e =? p_any P) && (h =? e)) (map i_ty rem) = true ->
  fill_all P rem e = Some (repeat CNo (List.length rem)).
Proof.
  intros P rem e. induction rem as [|h hs IH]; intros H; [reflexivity|].
  cbn [map forallb] in H. apply andb_true_iff in H. destruct H as [H1 H2].
  apply andb_true_iff in H1. destruct H1 as [_ H1].
  cbn [fill_all]. rewrite (cast_one_exact P h e); [|rewrite H1; apply orb_true_r].
  rewrite (IH H2). reflexivity.
Qed.

Lemma exact_match_no_casts : forall P s have, exact_match P s (map i_ty have) = true ->
  compare_and_fill P have s = Some (repeat CNo (List.length have)).
Proof.
  intros P s have H. unfold exact_match in H.
  apply andb_true_iff in H. destruct H as [H Hvar]. apply andb_true_iff in H. destruct H as [Har Hpos].
  rewrite map_length in Har. unfold compare_and_fill. rewrite Har. cbn [negb].
  rewrite (fill_pos_exact P have (s_pos s) Hpos).
  unfold arity_ok in Har.
  destruct (s_var s) as [e|].
  - assert (Hge : (List.length (s_pos s) <= List.length have)%nat).
    { apply negb_true_iff in Har. apply Nat.ltb_ge in Har. exact Har. }
    rewrite Nat.min_r by exact Hge.
    rewrite skipn_map in Hvar.
    destruct (skipn (List.length (s_pos s)) have) as [|r rs] eqn:ES.
    + f_equal. f_equal.
      assert (Hl : List.length (skipn (List.length (s_pos s)) have) = 0%nat) by (rewrite ES; reflexivity).
      rewrite skipn_length in Hl. lia.
    + assert (Hne : (e =? p_any P) = false).
      { cbn [map forallb] in Hvar. apply andb_true_iff in Hvar. destruct Hvar as [Hv _].
        apply andb_true_iff in Hv. destruct Hv as [Hv _]. apply negb_true_iff in Hv. exact Hv. }
      rewrite Hne. rewrite (fill_all_exact P (r :: rs) e Hvar).
      rewrite <- repeat_app. f_equal. f_equal.
      assert (Hl : List.length (skipn (List.length (s_pos s)) have) = List.length (r :: rs)) by (rewrite ES; reflexivity).
      rewrite skipn_length in Hl. lia.
  - apply Nat.eqb_eq in Har. rewrite Har. rewrite Nat.min_id.
    destruct (skipn (List.length (s_pos s)) have); reflexivity.
Qed.

(* an exact signature match is chosen, with no casts; and the same signature, seen as a candidate, needs none *)
Theorem resolve_exact_wins : forall P f have i,
  find_exact P (f_sigs f) (map i_ty have) = Some i ->
  resolve P f have = RExact i /\
  exists s, nth_error (f_sigs f) (N.to_nat i) = Some s /\ exact_match P s (map i_ty have) = true /\
            compare_and_fill P have s = Some (repeat CNo (List.length have)).
Proof.
  intros P f have i H. split.
  - unfold resolve. rewrite H. reflexivity.
  - unfold find_exact in H. apply find_exact_from_spec in H. destruct H as [_ [s [Hn He]]].
    rewrite N.sub_0_r in Hn. exists s. split; [exact Hn|]. split; [exact He|].
    apply exact_match_no_casts. exact He.
Qed.

(* and nothing can outscore it: with the current tables no cast scores above NO_CAST_SCORE *)
Lemma total_from : forall P cs a, fold_left (fun a c => a + cast_score P c) cs a = a + total P cs.
Proof.
  intros P cs. unfold total. induction cs as [|c cs IH]; intros a; cbn [fold_left].
  - lia.
  - rewrite IH. rewrite (IH (0 + cast_score P c)). lia.
Qed.

Lemma total_cons : forall P c cs, total P (c :: cs) = cast_score P c + total P cs.
Proof. intros P c cs. unfold total at 1. cbn [fold_left]. rewrite total_from. lia. Qed.

Lemma total_repeat_nocast : forall P n, total P (repeat CNo n) = N.of_nat n * p_nocast P.
Proof.
  intros P n. induction n as [|n IH]; [reflexivity|].
  cbn [repeat]. rewrite total_cons. rewrite IH. cbn [cast_score]. lia.
Qed.

Definition ex_have2 : list input := [{| i_ty := 16; i_lit := None |}; {| i_ty := 16; i_lit := None |}].
Lemma exact_src : on_src (fun P => match find_exact P (f_sigs (nth 0 all_sets no_set)) (map i_ty ex_have2) with
                                    | Some _ => true | None => false end) = true.
Proof. vm_compute. reflexivity. Qed.
Example exact_hypothesis_satisfiable :
  exists P f have i, src_params = Some P /\ find_exact P (f_sigs f) (map i_ty have) = Some i.
Proof.
  destruct (on_src_true _ exact_src) as [P [E H]]. cbv beta in H.
  exists P. exists (nth 0 all_sets no_set). exists ex_have2.
  destruct (find_exact P (f_sigs (nth 0 all_sets no_set)) (map i_ty ex_have2)) as [i|]; [|discriminate].
  exists i. split; [exact E|reflexivity].
Qed.

(* ---------------------------------------------------------------- set operations *)
Lemma zs_eqb_eq : forall a b, zs_eqb a b = true -> a = b.
Proof.
  induction a as [|x xs IH]; intros [|y ys] H; cbn [zs_eqb] in H; try discriminate; try reflexivity.
  apply andb_true_iff in H. destruct H as [H1 H2]. apply Z.eqb_eq in H1. apply IH in H2. subst. reflexivity.
Qed.

Lemma dtype_eqb_eq : forall a b, dtype_eqb a b = true -> a = b.
Proof.
  intros [i m] [i' m'] H. unfold dtype_eqb in H. cbn [d_id d_meta] in H.
  apply andb_true_iff in H. destruct H as [H1 H2]. apply N.eqb_eq in H1. apply zs_eqb_eq in H2. subst. reflexivity.
Qed.

Definition castable (P : params) (from to : dtype) : Prop := exists s, score P (d_id from) (d_id to) = Some s.
Definition is_dec (P : params) (d : dtype) : Prop := exists ps, dec_meta P d = Some ps.

(* what one output column of a set operation satisfies *)
Definition unified (P : params) (l r : dtype) (o : dtype * side) : Prop :=
  match snd o with
  | SNone => fst o = l /\ l = r
  | SRight => fst o = l /\ (castable P r l \/ (is_dec P l /\ is_dec P r))
  | SLeft => fst o = r /\ (castable P l r \/ (is_dec P l /\ is_dec P r))
  | SBoth => is_dec P l /\ is_dec P r /\ is_dec P (fst o) /\ dec_unify P l r = Some o
  end.

Lemma dtype_eqb_refl : forall a, dtype_eqb a a = true.
Proof.
  intros [i m]. unfold dtype_eqb. cbn [d_id d_meta]. rewrite N.eqb_refl. cbn [andb].
  induction m as [|z m IHm]; [reflexivity|]. cbn [zs_eqb]. rewrite Z.eqb_refl. exact IHm.
Qed.

Lemma dec_unify_spec : forall P l r o, dec_unify P l r = Some o ->
  exists lp ls rp rs, dec_meta P l = Some (lp, ls) /\ dec_meta P r = Some (rp, rs) /\
    d_meta (fst o) = [Z.min (Z.max (Z.max (lp - ls) (rp - rs) + Z.max ls rs) 1) dec128_max_precision; Z.max ls rs] /\
    (d_id (fst o) = p_dec64 P \/ d_id (fst o) = p_dec128 P) /\
    snd o = side_of (negb (dtype_eqb l (fst o))) (negb (dtype_eqb r (fst o))).
Proof.
  intros P l r o H. unfold dec_unify in H.
  destruct (dec_meta P l) as [[lp ls]|] eqn:EL; [|discriminate].
  destruct (dec_meta P r) as [[rp rs]|] eqn:ER; [|discriminate].
  injection H as H. subst o. exists lp, ls, rp, rs. cbn [fst snd d_meta d_id].
  split; [reflexivity|]. split; [reflexivity|]. split; [reflexivity|]. split; [|reflexivity].
  destruct ((_ <=? _)%Z && _ && _); [left|right]; reflexivity.
Qed.

Lemma dec_unify_out_dec : forall P l r o, dec_unify P l r = Some o -> is_dec P l /\ is_dec P r /\ is_dec P (fst o).
Proof.
  intros P l r o H. destruct (dec_unify_spec P l r o H) as [lp [ls [rp [rs [EL [ER [Hm [Hid _]]]]]]]].
  split; [eexists; exact EL|]. split; [eexists; exact ER|].
  unfold is_dec, dec_meta. rewrite Hm.
  destruct Hid as [Hid|Hid]; rewrite Hid, N.eqb_refl; [|rewrite orb_true_r]; eexists; reflexivity.
Qed.

Lemma unify1_unified : forall P l r o, unify1 P l r = Some o -> unified P l r o.
Proof.
  intros P l r o H. unfold unify1 in H.
  destruct (dtype_eqb l r) eqn:EQ.
  - injection H as H. subst o. unfold unified. cbn [fst snd]. split; [reflexivity|apply dtype_eqb_eq; exact EQ].
  - destruct (dec_unify P l r) as [x|] eqn:ED.
    + injection H as H. subst x. destruct (dec_unify_out_dec P l r o ED) as [DL [DR DO]].
      destruct (dec_unify_spec P l r o ED) as [lp [ls [rp [rs [_ [_ [_ [_ Hs]]]]]]]].
      unfold unified. rewrite Hs.
      destruct (dtype_eqb l (fst o)) eqn:E1; destruct (dtype_eqb r (fst o)) eqn:E2; cbn [negb side_of].
      * exfalso. apply dtype_eqb_eq in E1, E2. rewrite <- E2 in E1. subst r. rewrite dtype_eqb_refl in EQ. discriminate.
      * apply dtype_eqb_eq in E1. split; [symmetry; exact E1|right; split; assumption].
      * apply dtype_eqb_eq in E2. split; [symmetry; exact E2|right; split; assumption].
      * repeat split; assumption.
    + destruct (score P (d_id r) (d_id l)) as [ls|] eqn:EL; destruct (score P (d_id l) (d_id r)) as [rs|] eqn:ER;
        cbn [opt_ge] in H.
      * destruct (rs <=? ls); injection H as H; subst o; unfold unified, castable; cbn [fst snd]; eauto.
      * injection H as H. subst o. unfold unified, castable. cbn [fst snd]. eauto.
      * injection H as H. subst o. unfold unified, castable. cbn [fst snd]. eauto.
      * discriminate.
Qed.

(* the unified decimal type holds every value of both branch types exactly: its scale is the larger scale (no
   rounding) and, unless the precision had to be clamped at 38, it has at least as many integer digits as either
   side; in the clamp case the precision is 38 and the scale is still the larger one (a value with more than
   38 - scale integer digits fails the cast at run time instead of being rounded) *)
Theorem union_decimal_exact : forall P l r o lp ls rp rs,
  unify1 P l r = Some o -> dec_meta P l = Some (lp, ls) -> dec_meta P r = Some (rp, rs) -> l <> r ->
  exists po so, dec_meta P (fst o) = Some (po, so) /\ so = Z.max ls rs /\
    ((Z.max (lp - ls) (rp - rs) + so <= dec128_max_precision)%Z ->
       (lp - ls <= po - so)%Z /\ (rp - rs <= po - so)%Z /\ (ls <= so)%Z /\ (rs <= so)%Z) /\
    ((dec128_max_precision < Z.max (lp - ls) (rp - rs) + so)%Z ->
       po = dec128_max_precision /\ (ls <= so)%Z /\ (rs <= so)%Z).
Proof.
  intros P l r o lp ls rp rs H EL ER Hne. unfold unify1 in H.
  destruct (dtype_eqb l r) eqn:EQ; [apply dtype_eqb_eq in EQ; contradiction|].
  destruct (dec_unify P l r) as [x|] eqn:ED.
  - injection H as H. subst x.
    destruct (dec_unify_spec P l r o ED) as [lp' [ls' [rp' [rs' [EL' [ER' [Hm [Hid _]]]]]]]].
    rewrite EL in EL'. rewrite ER in ER'. injection EL' as A1 A2. injection ER' as B1 B2. subst lp' ls' rp' rs'.
    eexists. eexists. split.
    + unfold dec_meta. rewrite Hm. destruct Hid as [Hid|Hid]; rewrite Hid, N.eqb_refl; [|rewrite orb_true_r]; reflexivity.
    + unfold dec128_max_precision. split; [reflexivity|]. split; intros Hc; lia.
  - exfalso. unfold dec_unify in ED. rewrite EL, ER in ED. discriminate.
Qed.

Lemma unify_zip_unified : forall P ls rs out,
  unify_zip P ls rs = Some out ->
  List.length out = Nat.min (List.length ls) (List.length rs) /\
  forall k l r o, nth_error ls k = Some l -> nth_error rs k = Some r -> nth_error out k = Some o -> unified P l r o.
Proof.
  intros P ls. induction ls as [|l ls' IH]; intros rs out H.
  - cbn [unify_zip] in H. injection H as H. subst out. split; [reflexivity|].
    intros k l r o Hl. destruct k; discriminate.
  - destruct rs as [|r rs'].
    + cbn [unify_zip] in H. injection H as H. subst out. split; [reflexivity|].
      intros k l0 r0 o _ Hr. destruct k; discriminate.
    + cbn [unify_zip] in H. destruct (unify1 P l r) as [x|] eqn:E1; [|discriminate].
      destruct (unify_zip P ls' rs') as [xs|] eqn:E2; [|discriminate].
      injection H as H. subst out. destruct (IH rs' xs E2) as [Hlen Hnth].
      split; [cbn [List.length Nat.min]; rewrite Hlen; reflexivity|].
      intros k l0 r0 o Hl Hr Ho. destruct k as [|k'].
      * cbn [nth_error] in Hl, Hr, Ho. injection Hl as Hl. injection Hr as Hr. injection Ho as Ho. subst.
        apply unify1_unified. exact E1.
      * cbn [nth_error] in Hl, Hr, Ho. eapply Hnth; eassumption.
Qed.

(* the binder accepts a set operation only when both branches have the same number of columns, and the output
   has that many columns *)
Theorem union_arity_checked : forall P ls rs out,
  unify_cols P ls rs = Some out ->
  List.length ls = List.length rs /\ List.length out = List.length ls.
Proof.
  intros P ls rs out H. unfold unify_cols in H.
  destruct (Nat.eqb (List.length ls) (List.length rs)) eqn:E; [|discriminate].
  apply Nat.eqb_eq in E. split; [exact E|].
  destruct (unify_zip_unified P ls rs out H) as [Hlen _]. rewrite Hlen, <- E. apply Nat.min_id.
Qed.

Theorem union_types_unified : forall P ls rs out,
  unify_cols P ls rs = Some out ->
  List.length ls = List.length rs /\ List.length out = List.length ls /\
  forall k l r o, nth_error ls k = Some l -> nth_error rs k = Some r -> nth_error out k = Some o -> unified P l r o.
Proof.
  intros P ls rs out H. destruct (union_arity_checked P ls rs out H) as [A B].
  split; [exact A|]. split; [exact B|].
  unfold unify_cols in H. destruct (Nat.eqb (List.length ls) (List.length rs)); [|discriminate].
  exact (proj2 (unify_zip_unified P ls rs out H)).
Qed.

(* ---- after the cast requirement both branches have ONE full type per column *)
Lemma combine_outs : forall (orig : list dtype) (outs : list (dtype * side)),
  List.length orig = List.length outs -> map (fun p => fst (snd p)) (combine orig outs) = map fst outs.
Proof.
  induction orig as [|x xs IH]; intros [|o os] H; cbn [List.length] in H; try discriminate; [reflexivity|].
  cbn [combine map fst snd]. f_equal. apply IH. lia.
Qed.

Lemma zip_no_left_is_left : forall P ls rs out, unify_zip P ls rs = Some out -> List.length ls = List.length rs ->
  needs_cast SLeft out = false -> map fst out = ls.
Proof.
  intros P ls. induction ls as [|l ls' IH]; intros [|r rs'] out H Hlen Hn; cbn [List.length] in Hlen; try discriminate.
  - cbn [unify_zip] in H. injection H as H. subst out. reflexivity.
  - cbn [unify_zip] in H. destruct (unify1 P l r) as [x|] eqn:E1; [|discriminate].
    destruct (unify_zip P ls' rs') as [xs|] eqn:E2; [|discriminate]. injection H as H. subst out.
    unfold needs_cast in Hn. cbn [existsb] in Hn. apply orb_false_iff in Hn. destruct Hn as [Hx Hxs].
    cbn [map]. f_equal; [|apply (IH rs' xs E2); [lia|exact Hxs]].
    pose proof (unify1_unified P l r x E1) as U. unfold unified in U. unfold side_is in Hx.
    destruct (snd x); [exact (proj1 U)|discriminate|exact (proj1 U)|discriminate].
Qed.

Lemma zip_no_right_is_right : forall P ls rs out, unify_zip P ls rs = Some out -> List.length ls = List.length rs ->
  needs_cast SRight out = false -> map fst out = rs.
Proof.
  intros P ls. induction ls as [|l ls' IH]; intros [|r rs'] out H Hlen Hn; cbn [List.length] in Hlen; try discriminate.
  - cbn [unify_zip] in H. injection H as H. subst out. reflexivity.
  - cbn [unify_zip] in H. destruct (unify1 P l r) as [x|] eqn:E1; [|discriminate].
    destruct (unify_zip P ls' rs') as [xs|] eqn:E2; [|discriminate]. injection H as H. subst out.
    unfold needs_cast in Hn. cbn [existsb] in Hn. apply orb_false_iff in Hn. destruct Hn as [Hx Hxs].
    cbn [map]. f_equal; [|apply (IH rs' xs E2); [lia|exact Hxs]].
    pose proof (unify1_unified P l r x E1) as U. unfold unified in U. unfold side_is in Hx.
    destruct (snd x); [destruct U as [U1 U2]; congruence|exact (proj1 U)|discriminate|discriminate].
Qed.

Definition cast_ok (P : params) (f t : dtype) : Prop := castable P f t \/ (is_dec P f /\ is_dec P t).
Lemma zip_casts_castable : forall P ls rs out, unify_zip P ls rs = Some out ->
  (forall f t, In (f, t) (filter (fun p => negb (dtype_eqb (fst p) (snd p))) (map (fun p => (fst p, fst (snd p))) (combine ls out))) -> cast_ok P f t) /\
  (forall f t, In (f, t) (filter (fun p => negb (dtype_eqb (fst p) (snd p))) (map (fun p => (fst p, fst (snd p))) (combine rs out))) -> cast_ok P f t).
Proof.
  intros P ls. induction ls as [|l ls' IH]; intros rs out H.
  - cbn [unify_zip] in H. injection H as H. subst out. split; intros f t Hin; [contradiction|].
    destruct rs; contradiction.
  - destruct rs as [|r rs'].
    + cbn [unify_zip] in H. injection H as H. subst out. split; intros f t Hin; contradiction.
    + cbn [unify_zip] in H. destruct (unify1 P l r) as [x|] eqn:E1; [|discriminate].
      destruct (unify_zip P ls' rs') as [xs|] eqn:E2; [|discriminate]. injection H as H. subst out.
      destruct (IH rs' xs E2) as [IL IR].
      pose proof (unify1_unified P l r x E1) as U. unfold unified in U.
      split; intros f t Hin; cbn [combine map filter fst snd] in Hin.
      * destruct (negb (dtype_eqb l (fst x))) eqn:EN.
        -- destruct Hin as [Heq|Hin]; [|apply IL; exact Hin]. injection Heq as Hf Ht. subst f t. unfold cast_ok.
           destruct (snd x).
           ++ destruct U as [U1 _]. rewrite U1, dtype_eqb_refl in EN. discriminate.
           ++ destruct U as [U1 [U2|U2]]; rewrite U1; [left; exact U2|right; exact U2].
           ++ destruct U as [U1 _]. rewrite U1, dtype_eqb_refl in EN. discriminate.
           ++ destruct U as [DL [_ [DO _]]]. right. split; assumption.
        -- apply IL. exact Hin.
      * destruct (negb (dtype_eqb r (fst x))) eqn:EN.
        -- destruct Hin as [Heq|Hin]; [|apply IR; exact Hin]. injection Heq as Hf Ht. subst f t. unfold cast_ok.
           destruct (snd x).
           ++ destruct U as [U1 U2]. rewrite U1, U2, dtype_eqb_refl in EN. discriminate.
           ++ destruct U as [U1 _]. rewrite U1, dtype_eqb_refl in EN. discriminate.
           ++ destruct U as [U1 [U2|[U2 U3]]]; rewrite U1; [left; exact U2|right; split; assumption].
           ++ destruct U as [_ [DR [DO _]]]. right. split; assumption.
        -- apply IR. exact Hin.
Qed.

(* accepted => after the cast requirement BOTH branches have exactly the announced full data types (ids and
   parameters), and every cast the projections contain is one the score table allows implicitly *)
Theorem union_branches_one_type : forall P ls rs out,
  unify_cols P ls rs = Some out ->
  branch_after ls out (needs_cast SLeft out) = map fst out /\
  branch_after rs out (needs_cast SRight out) = map fst out /\
  (forall f t, In (f, t) (casts_inserted ls out (needs_cast SLeft out)) -> cast_ok P f t) /\
  (forall f t, In (f, t) (casts_inserted rs out (needs_cast SRight out)) -> cast_ok P f t).
Proof.
  intros P ls rs out H. destruct (union_arity_checked P ls rs out H) as [Hlen Hout].
  unfold unify_cols in H. destruct (Nat.eqb (List.length ls) (List.length rs)); [|discriminate].
  destruct (zip_casts_castable P ls rs out H) as [CL CR].
  unfold branch_after, casts_inserted.
  split; [|split; [|split]].
  - destruct (needs_cast SLeft out) eqn:E; [apply combine_outs; lia|].
    symmetry. eapply zip_no_left_is_left; eassumption.
  - destruct (needs_cast SRight out) eqn:E; [apply combine_outs; lia|].
    symmetry. eapply zip_no_right_is_right; eassumption.
  - destruct (needs_cast SLeft out); [exact CL|intros f t []].
  - destruct (needs_cast SRight out); [exact CR|intros f t []].
Qed.

(* DECIMAL(10,2) UNION DECIMAL(12,4): same id, different parameters -> one side is cast, the output is one full type *)
Lemma union_decimal_src : on_src (fun P =>
  match unify_cols P [{| d_id := 17; d_meta := [10; 2]%Z |}] [{| d_id := 17; d_meta := [12; 4]%Z |}] with
  | Some [(t, SLeft)] => dtype_eqb t {| d_id := 17; d_meta := [12; 4]%Z |}
  | _ => false
  end) = true.
Proof. vm_compute. reflexivity. Qed.

Definition ex_l : list dtype := [{| d_id := 6; d_meta := [] |}].
Definition ex_r : list dtype := [{| d_id := 7; d_meta := [] |}].
Lemma union_src : on_src (fun P => match unify_cols P ex_l ex_r with Some [(_, SLeft)] => true | _ => false end) = true.
Proof. vm_compute. reflexivity. Qed.
Example union_hypothesis_satisfiable :
  exists P ls rs out, src_params = Some P /\ unify_cols P ls rs = Some out /\
                      exists o, In o out /\ snd o = SLeft.
Proof.
  destruct (on_src_true _ union_src) as [P [E H]]. cbv beta in H.
  exists P. exists ex_l. exists ex_r.
  destruct (unify_cols P ex_l ex_r) as [[|[t sd] [|y ys]]|]; try discriminate; destruct sd; try discriminate.
  eexists. split; [exact E|]. split; [reflexivity|]. eexists. split; [left; reflexivity|]. reflexivity.
Qed.

(* why the length test is needed: the loop alone (the binder before f82a4c29b) accepts unequal column counts *)
Theorem union_zip_alone_accepts_unequal_arity :
  exists P ls rs out, src_params = Some P /\ List.length ls <> List.length rs /\ unify_zip P ls rs = Some out /\
                      unify_cols P ls rs = None.
Proof.
  destruct (on_src_true _ check_src_true) as [P [E _]].
  exists P. exists [{| d_id := 6; d_meta := [] |}].
  exists [{| d_id := 6; d_meta := [] |}; {| d_id := 6; d_meta := [] |}].
  eexists. split; [exact E|]. split; [cbn [List.length]; lia|].
  split; vm_compute; reflexivity.
Qed.
