(* C14 — proofs about the catalog model (model/Catalog.v). *)
From Coq Require Import List NArith ZArith Bool Lia.
From GV Require Import model.Catalog.
Import ListNotations.

Ltac break_hyp H :=
  repeat match type of H with
         | context[match ?x with _ => _ end] => destruct x eqn:?
         end.
Ltac break_goal :=
  repeat match goal with
         | |- context[match ?x with _ => _ end] => destruct x eqn:?
         end.

(* ------------------------------------------------------------------ lists *)
Lemma set_nth_same : forall A (l : list A) u x, nth_error l u = Some x -> set_nth u x l = l.
Proof.
  intros A l u x H. unfold set_nth.
  destruct (nth_error_split l u H) as (l1 & l2 & -> & <-).
  rewrite firstn_app, Nat.sub_diag, firstn_all. cbn [firstn]. rewrite app_nil_r.
  rewrite skipn_app, skipn_all2 by lia. replace (S (length l1) - length l1) with 1 by lia. reflexivity.
Qed.

Lemma nth_error_set_nth_other : forall A (l : list A) u u' x,
  u <> u' -> u < length l -> nth_error (set_nth u x l) u' = nth_error l u'.
Proof.
  intros A l u. revert l. induction u as [|u IH]; intros l u' x Hne Hlt; destruct l as [|a l]; cbn [length] in Hlt; try lia.
  - destruct u' as [|u']; [lia|]. reflexivity.
  - destruct u' as [|u']; [reflexivity|].
    change (set_nth (S u) x (a :: l)) with (a :: set_nth u x l). cbn [nth_error]. apply IH; lia.
Qed.

Lemma nth_error_set_nth_same : forall A (l : list A) u x,
  u < length l -> nth_error (set_nth u x l) u = Some x.
Proof.
  intros A l u x Hlt. unfold set_nth.
  rewrite nth_error_app2 by (rewrite firstn_length; lia).
  rewrite firstn_length. replace (u - Nat.min u (length l)) with 0 by lia. reflexivity.
Qed.

Lemma set_nth_length : forall A (l : list A) u x, u < length l -> length (set_nth u x l) = length l.
Proof.
  intros A l u x H. unfold set_nth. rewrite app_length. cbn [length]. rewrite firstn_length, skipn_length. lia.
Qed.

(* ------------------------------------------------------------------ association lists *)
Section Alist.
Context {A : Type}.
Implicit Types l : list (N * A).

Lemma alookup_aadd_same : forall l k v, alookup k l = None -> alookup k (aadd k v l) = Some v.
Proof.
  intros l k v. unfold aadd. induction l as [|[k' v'] l IH]; cbn; intros H.
  - rewrite N.eqb_refl. reflexivity.
  - destruct (N.eqb k k'); [discriminate|auto].
Qed.

Lemma alookup_aadd_other : forall l k k' v, k' <> k -> alookup k' (aadd k v l) = alookup k' l.
Proof.
  intros l k k' v Hne. unfold aadd. induction l as [|[k2 v2] l IH]; cbn.
  - destruct (N.eqb_spec k' k); [contradiction|reflexivity].
  - destruct (N.eqb k' k2); [reflexivity|exact IH].
Qed.

Lemma alookup_areplace_same : forall l k v v0, alookup k l = Some v0 -> alookup k (areplace k v l) = Some v.
Proof.
  intros l k v v0. induction l as [|[k' v'] l IH]; cbn; intros H; [discriminate|].
  destruct (N.eqb k k') eqn:E; cbn; rewrite E; [reflexivity|auto].
Qed.

Lemma alookup_areplace_other : forall l k k' v, k' <> k -> alookup k' (areplace k v l) = alookup k' l.
Proof.
  intros l k k' v Hne. induction l as [|[k2 v2] l IH]; cbn; [reflexivity|].
  destruct (N.eqb_spec k k2) as [E|E]; cbn.
  - subst k2. destruct (N.eqb_spec k' k); [contradiction|reflexivity].
  - destruct (N.eqb k' k2); [reflexivity|exact IH].
Qed.

Lemma alookup_aremove_same : forall l k, alookup k (aremove k l) = None.
Proof.
  intros l k. induction l as [|[k' v'] l IH]; cbn; [reflexivity|].
  destruct (N.eqb k k') eqn:E; [exact IH|]. cbn. rewrite E. exact IH.
Qed.

Lemma alookup_aremove_other : forall l k k', k' <> k -> alookup k' (aremove k l) = alookup k' l.
Proof.
  intros l k k' Hne. induction l as [|[k2 v2] l IH]; cbn; [reflexivity|].
  destruct (N.eqb_spec k k2) as [E|E]; cbn.
  - subst k2. destruct (N.eqb_spec k' k); [contradiction|exact IH].
  - destruct (N.eqb k' k2); [reflexivity|exact IH].
Qed.

Lemma keys_areplace : forall l k v, keys (areplace k v l) = keys l.
Proof.
  intros l k v. unfold keys. induction l as [|[k' v'] l IH]; cbn; [reflexivity|].
  destruct (N.eqb k k'); cbn; [reflexivity|]. f_equal. exact IH.
Qed.

Lemma alookup_none_notin : forall l k, alookup k l = None -> ~ In k (keys l).
Proof.
  intros l k. unfold keys. induction l as [|[k' v'] l IH]; cbn; intros H; [tauto|].
  destruct (N.eqb_spec k k'); [discriminate|]. intros [E|E]; [congruence|]. exact (IH H E).
Qed.

Lemma in_keys_aremove : forall l k x, In x (keys (aremove k l)) -> In x (keys l).
Proof.
  intros l k x. unfold keys. induction l as [|[k' v'] l IH]; cbn; [tauto|].
  destruct (N.eqb k k'); cbn; intros H; [right; auto|]. destruct H; [left; assumption|right; auto].
Qed.

Lemma nodup_aremove : forall l k, NoDup (keys l) -> NoDup (keys (aremove k l)).
Proof.
  intros l k. unfold keys. induction l as [|[k' v'] l IH]; cbn; intros H; [constructor|].
  inversion H; subst. destruct (N.eqb k k'); [auto|]. cbn. constructor; [|auto].
  intros Hin. apply H2. exact (in_keys_aremove _ _ _ Hin).
Qed.
End Alist.

Lemma nodup_snoc : forall (l : list N) k, NoDup l -> ~ In k l -> NoDup (l ++ [k]).
Proof.
  intros l k Hn Hk. induction Hn as [|x l Hx Hn IH]; cbn.
  - constructor; [tauto|constructor].
  - constructor.
    + rewrite in_app_iff. cbn. intros [H|[H|[]]]; [tauto|]. subst. apply Hk. left. reflexivity.
    + apply IH. intros H. apply Hk. right. exact H.
Qed.

Lemma nodup_aadd : forall A (l : list (N * A)) k v, NoDup (keys l) -> alookup k l = None -> NoDup (keys (aadd k v l)).
Proof.
  intros A l k v Hn Hl. unfold aadd, keys. rewrite map_app. cbn [map fst].
  apply nodup_snoc; [exact Hn|]. exact (alookup_none_notin _ _ Hl).
Qed.

Lemma alookup_in : forall A (l : list (N * A)) k v, alookup k l = Some v -> In (k, v) l.
Proof.
  intros A l k v. induction l as [|[k' v'] l IH]; cbn; intros H; [discriminate|].
  destruct (N.eqb_spec k k').
  - inversion H; subst. left. reflexivity.
  - right. auto.
Qed.

(* ------------------------------------------------------------------ well-formedness *)
Definition wf_scs (scs : list (ident * schema)) : Prop :=
  NoDup (keys scs) /\ Forall (fun p => NoDup (keys (snd p))) scs.

Lemma forall_areplace : forall (P : ident * schema -> Prop) scs s v,
  Forall P scs -> (forall k, P (k, v)) -> Forall P (areplace s v scs).
Proof.
  intros P scs s v HF Hv. induction HF as [|[k' v'] l Hx HF IH]; cbn; [constructor|].
  destruct (N.eqb s k'); constructor; auto.
Qed.

Lemma wf_put_entry : forall scs s n e, wf_scs scs -> wf_scs (put_entry scs s n e).
Proof.
  intros scs s n e [H1 H2]. unfold put_entry.
  destruct (alookup s scs) as [sc|] eqn:Hs; [|split; assumption].
  assert (Hsc : NoDup (keys sc)).
  { rewrite Forall_forall in H2. exact (H2 _ (alookup_in _ _ _ _ Hs)). }
  split; [rewrite keys_areplace; exact H1|].
  apply forall_areplace; [exact H2|]. intros k. cbn [snd].
  destruct (alookup n sc) eqn:Hn.
  - rewrite keys_areplace. exact Hsc.
  - apply nodup_aadd; assumption.
Qed.

Lemma wf_del_entry : forall scs s n, wf_scs scs -> wf_scs (del_entry scs s n).
Proof.
  intros scs s n [H1 H2]. unfold del_entry.
  destruct (alookup s scs) as [sc|] eqn:Hs; [|split; assumption].
  assert (Hsc : NoDup (keys sc)).
  { rewrite Forall_forall in H2. exact (H2 _ (alookup_in _ _ _ _ Hs)). }
  split; [rewrite keys_areplace; exact H1|].
  apply forall_areplace; [exact H2|]. intros k. cbn [snd]. apply nodup_aremove. exact Hsc.
Qed.

Lemma forall_aremove : forall (P : ident * schema -> Prop) scs s, Forall P scs -> Forall P (aremove s scs).
Proof.
  intros P scs s HF. induction HF as [|[k' v'] l Hx HF IH]; cbn; [constructor|].
  destruct (N.eqb s k'); [exact IH|constructor; assumption].
Qed.

Lemma wf_add_schema : forall scs s, wf_scs scs -> alookup s scs = None -> wf_scs (aadd s [] scs).
Proof.
  intros scs s [H1 H2] Hs. split; [apply nodup_aadd; assumption|].
  unfold aadd. apply Forall_app. split; [exact H2|]. constructor; [cbn; constructor|constructor].
Qed.

Lemma wf_remove_schema : forall scs s, wf_scs scs -> wf_scs (aremove s scs).
Proof. intros scs s [H1 H2]. split; [apply nodup_aremove; exact H1|apply forall_aremove; exact H2]. Qed.

Lemma exec_wf : forall o se s,
  wf_sess se ->
  (forall se' r, exec o se s = inl (se', r) -> wf_sess se') /\ (forall se' e, exec o se s = inr (se', e) -> wf_sess se').
Proof.
  intros o se s Hw. pose proof Hw as Hw0. unfold wf_sess in Hw. fold (wf_scs (schemas se)) in Hw.
  assert (P1 : forall s n e, wf_sess (with_schemas se (put_entry (schemas se) s n e))).
  { intros. unfold wf_sess. cbn [with_schemas schemas]. apply wf_put_entry. exact Hw. }
  assert (P2 : forall s n, wf_sess (with_schemas se (del_entry (schemas se) s n))).
  { intros. unfold wf_sess. cbn [with_schemas schemas]. apply wf_del_entry. exact Hw. }
  assert (P3 : forall c, wf_sess (with_conf se c)).
  { intros. exact Hw0. }
  assert (P4 : forall s, alookup s (schemas se) = None -> wf_sess (with_schemas se (aadd s [] (schemas se)))).
  { intros. unfold wf_sess. cbn [with_schemas schemas]. apply wf_add_schema; assumption. }
  assert (P5 : forall s, wf_sess (with_schemas se (aremove s (schemas se)))).
  { intros. unfold wf_sess. cbn [with_schemas schemas]. apply wf_remove_schema; assumption. }
  split; intros se' x H; destruct s; cbn [exec] in H; break_hyp H; inversion H; subst; auto.
Qed.

(* ------------------------------------------------------------------ the statements of C14 *)

Lemma exec_err_unchanged : forall se s se' e, exec no_oracle se s = inr (se', e) -> se' = se.
Proof.
  intros se s se' e H. destruct s; cbn [exec leak no_oracle] in H; break_hyp H; inversion H; reflexivity.
Qed.

Theorem step_error_atomic_proof : forall st u s e, snd (step st u s) = Err e -> fst (step st u s) = st.
Proof.
  intros st u s e. unfold step, step_impl.
  destruct (nth_error st u) as [se|] eqn:Hn; [|reflexivity].
  destruct (exec no_oracle se s) as [[se' r]|[se' e']] eqn:He; cbn [fst snd]; [discriminate|].
  intros _. rewrite (exec_err_unchanged _ _ _ _ He). apply set_nth_same. exact Hn.
Qed.

(* a failing INSERT / CTAS in the implementation is NOT atomic: what the storage layer flushed stays *)
Lemma step_impl_error_not_atomic_proof :
  exists o st u s e, snd (step_impl o st u s) = Err e /\ fst (step_impl o st u s) <> st.
Proof.
  exists {| leak := Some [] |}, (new_engine 2 1), 0,
         (Ctas (None, 1%N) OnError (SrcRows [1%N] [7%N] true)), EOther.
  split; [reflexivity|]. vm_compute. discriminate.
Qed.

Lemma exec_oracle_irrelevant : forall o se s,
  fails_at_runtime s = false -> exec o se s = exec no_oracle se s.
Proof.
  intros o se s Hf. destruct s; try reflexivity.
  - (* Insert *) cbn [exec].
    destruct src as [c rws f|q]; cbn [fails_at_runtime] in Hf.
    + subst f. cbn [eval_source]. break_goal; reflexivity.
    + destruct (resolve_ref r) as [s n]. destruct (lookup (schemas se) s n) as [ent|]; try reflexivity.
      destruct (eval_source (schemas se) (SrcRef q)) as [c9 new f|] eqn:E; [|reflexivity].
      assert (f = false).
      { cbn [eval_source] in E. destruct (read (schemas se) q) as [[c0 r0]|]; inversion E; reflexivity. }
      subst f. destruct ent as [cols rows|t]; [|reflexivity]. destruct (negb (length c9 =? length cols)); reflexivity.
  - (* Ctas *) cbn [exec]. destruct src as [c8 rws f|q]; cbn [fails_at_runtime] in Hf.
    + subst f. cbn [eval_source]. break_goal; reflexivity.
    + destruct (resolve_ref r) as [s n].
      destruct (eval_source (schemas se) (SrcRef q)) as [c9 new f|] eqn:E; [|reflexivity].
      assert (f = false).
      { cbn [eval_source] in E. destruct (read (schemas se) q) as [[c1 r0]|]; inversion E; reflexivity. }
      subst f. break_goal; reflexivity.
Qed.

Theorem step_impl_agrees_proof : forall o st u s,
  fails_at_runtime s = false ->
  step_impl o st u s = step st u s.
Proof.
  intros o st u s Hf. unfold step, step_impl. destruct (nth_error st u) as [se|] eqn:Hn; [|reflexivity].
  rewrite (exec_oracle_irrelevant o se s Hf). reflexivity.
Qed.

Definition ine_stmt (s : stmt) : bool :=
  match s with
  | CreateSchema _ true => true
  | CreateTable _ _ OnIgnore => true
  | Ctas _ OnIgnore (SrcRows _ _ false) => true
  | _ => false
  end.

Lemma lookup_put_entry : forall scs s n e sc, alookup s scs = Some sc ->
  exists sc', alookup s (put_entry scs s n e) = Some sc' /\ alookup n sc' = Some e.
Proof.
  intros scs s n e sc Hs. unfold put_entry. rewrite Hs.
  eexists. split; [eapply alookup_areplace_same; exact Hs|].
  destruct (alookup n sc) eqn:Hn.
  - eapply alookup_areplace_same. exact Hn.
  - apply alookup_aadd_same. exact Hn.
Qed.

Lemma exec_ine_idempotent : forall se s se1 r1,
  ine_stmt s = true -> exec no_oracle se s = inl (se1, r1) ->
  exists r2, exec no_oracle se1 s = inl (se1, r2).
Proof.
  intros se s se1 r1 Hi He. destruct s; try discriminate; cbn [ine_stmt] in Hi.
  - (* CreateSchema *) destruct if_not_exists; [|discriminate]. cbn [exec] in *.
    destruct (alookup s (schemas se)) eqn:Hs.
    + inversion He; subst. rewrite Hs. eexists; reflexivity.
    + inversion He; subst. cbn [with_schemas schemas]. rewrite (alookup_aadd_same _ _ _ Hs). eexists; reflexivity.
  - (* CreateTable *) destruct c; try discriminate. cbn [exec] in *.
    destruct (resolve_ref r) as [s n].
    destruct (alookup s (schemas se)) as [sc|] eqn:Hs; [|discriminate].
    destruct (alookup n sc) eqn:Hn.
    + inversion He; subst. rewrite Hs, Hn. eexists; reflexivity.
    + inversion He; subst. cbn [with_schemas schemas].
      destruct (lookup_put_entry _ _ n (Table cols []) _ Hs) as (sc' & H1 & H2). rewrite H1, H2. eexists; reflexivity.
  - (* Ctas *) destruct c; try discriminate. destruct src as [c rws f|]; [|discriminate]. destruct f; [discriminate|].
    cbn [exec eval_source] in *.
    destruct (resolve_ref r) as [s n].
    destruct (alookup s (schemas se)) as [sc|] eqn:Hs; [|discriminate].
    destruct (alookup n sc) eqn:Hn.
    + inversion He; subst. rewrite Hs, Hn. eexists; reflexivity.
    + inversion He; subst. cbn [with_schemas schemas].
      destruct (lookup_put_entry _ _ n (Table c rws) _ Hs) as (sc' & H1 & H2). rewrite H1, H2. eexists; reflexivity.
Qed.

Theorem create_if_not_exists_idempotent_proof : forall st u s r1,
  ine_stmt s = true -> snd (step st u s) = Ok r1 ->
  let st1 := fst (step st u s) in
  fst (step st1 u s) = st1 /\ exists r2, snd (step st1 u s) = Ok r2.
Proof.
  intros st u s r1 Hi. unfold step, step_impl.
  destruct (nth_error st u) as [se|] eqn:Hn; [|cbn; discriminate].
  destruct (exec no_oracle se s) as [[se1 r]|[se1 e]] eqn:He; cbn [fst snd]; [|discriminate].
  intros _.
  assert (Hlt : u < length st) by (apply nth_error_Some; congruence).
  rewrite nth_error_set_nth_same by exact Hlt.
  destruct (exec_ine_idempotent _ _ _ _ Hi He) as (r2 & H2). rewrite H2. cbn [fst snd].
  split; [|eexists; reflexivity].
  apply set_nth_same. apply nth_error_set_nth_same. exact Hlt.
Qed.

Theorem drop_removes_exactly_proof : forall st u r ie res0 se se',
  snd (step st u (DropTable r ie false)) = Ok res0 ->
  nth_error st u = Some se -> nth_error (fst (step st u (DropTable r ie false))) u = Some se' ->
  lookup (schemas se') (fst (resolve_ref r)) (snd (resolve_ref r)) = None /\
  (forall s' n', (s', n') <> resolve_ref r -> lookup (schemas se') s' n' = lookup (schemas se) s' n') /\
  keys (schemas se') = keys (schemas se) /\ conf se' = conf se.
Proof.
  intros st u r ie res0 se se' Hok Hn Hn'. unfold step, step_impl in *. rewrite Hn in *.
  assert (Hlt : u < length st) by (apply nth_error_Some; congruence).
  cbn [exec] in *. destruct (resolve_ref r) as [s n] eqn:Hr. cbn [fst snd].
  destruct (alookup s (schemas se)) as [sc|] eqn:Hs; [|discriminate].
  destruct (alookup n sc) eqn:Hen.
  - cbn [fst snd] in *. rewrite nth_error_set_nth_same in Hn' by exact Hlt. inversion Hn'; subst se'.
    cbn [with_schemas schemas conf]. unfold del_entry. rewrite Hs. repeat split.
    + unfold lookup. rewrite (alookup_areplace_same _ _ _ _ Hs). apply alookup_aremove_same.
    + intros s' n' Hne. unfold lookup. destruct (N.eq_dec s' s) as [E|E].
      * subst s'. rewrite (alookup_areplace_same _ _ _ _ Hs), Hs. apply alookup_aremove_other. congruence.
      * rewrite alookup_areplace_other by exact E. reflexivity.
    + apply keys_areplace.
  - destruct ie; [|discriminate]. cbn [fst snd] in *.
    rewrite nth_error_set_nth_same in Hn' by exact Hlt. inversion Hn'; subst se'. repeat split.
    unfold lookup. rewrite Hs. exact Hen.
Qed.

Theorem names_unique_inv_proof : forall o st u s, wf st -> wf (fst (step_impl o st u s)).
Proof.
  intros o st u s Hw. unfold step_impl. destruct (nth_error st u) as [se|] eqn:Hn; [|exact Hw].
  assert (Hse : wf_sess se). { unfold wf in Hw. rewrite Forall_forall in Hw. exact (Hw _ (nth_error_In _ _ Hn)). }
  pose proof (exec_wf o se s Hse) as He.
  assert (Hset : forall se', wf_sess se' -> wf (set_nth u se' st)).
  { intros se' Hs'. unfold wf, set_nth. apply Forall_app. split.
    - apply Forall_forall. intros x Hx. unfold wf in Hw. rewrite Forall_forall in Hw. apply Hw.
      rewrite <- (firstn_skipn u st). apply in_or_app. left. exact Hx.
    - constructor; [exact Hs'|]. apply Forall_forall. intros x Hx. unfold wf in Hw. rewrite Forall_forall in Hw. apply Hw.
      rewrite <- (firstn_skipn (S u) st). apply in_or_app. right. exact Hx. }
  destruct He as [He1 He2].
  destruct (exec o se s) as [[se' r]|[se' e]] eqn:Hx; cbn [fst]; apply Hset; [eapply He1|eapply He2]; reflexivity.
Qed.

Theorem session_isolation_proof : forall o st u u' s,
  u <> u' -> view u' (fst (step_impl o st u s)) = view u' st.
Proof.
  intros o st u u' s Hne. unfold view, step_impl.
  destruct (nth_error st u) as [se|] eqn:Hn; [|reflexivity].
  assert (Hlt : u < length st) by (apply nth_error_Some; congruence).
  destruct (exec o se s) as [[se' r]|[se' e]]; cbn [fst]; apply nth_error_set_nth_other; assumption.
Qed.

Lemma read_ref_mono : forall f scs r x, read_ref f scs r = Some x -> read_ref (S f) scs r = Some x.
Proof.
  induction f as [|f IH]; intros scs r x H; [discriminate|].
  cbn [read_ref] in H. change (read_ref (S (S f)) scs r) with
    (let (s, n) := resolve_ref r in
     match alookup s scs with
     | None => None
     | Some sc => match alookup n sc with
                  | None => None
                  | Some (Table c rows) => Some (c, rows)
                  | Some (View t) => read_ref (S f) scs t
                  end
     end).
  destruct (resolve_ref r) as [s n]. destruct (alookup s scs) as [sc|]; [|discriminate].
  destruct (alookup n sc) as [[c rows|t]|]; [exact H|apply IH; exact H|discriminate].
Qed.

Lemma read_ref_mono_le : forall f g scs r x, f <= g -> read_ref f scs r = Some x -> read_ref g scs r = Some x.
Proof.
  intros f g scs r x Hle H. induction Hle as [|g Hle IH]; [exact H|]. apply read_ref_mono. exact IH.
Qed.

Theorem view_sees_current_base_proof : forall scs vs vn t f x,
  lookup scs vs vn = Some (View t) -> read_ref f scs t = Some x ->
  forall g, f < g -> read_ref g scs (Some vs, vn) = Some x.
Proof.
  intros scs vs vn t f x Hl Hr g Hlt. destruct g as [|g]; [lia|].
  cbn [read_ref resolve_ref fst snd]. unfold lookup in Hl.
  destruct (alookup vs scs) as [sc|]; [|discriminate]. rewrite Hl.
  apply (read_ref_mono_le f g); [lia|exact Hr].
Qed.

Example view_sees_current_base_satisfiable :
  exists scs, lookup scs 0%N 2%N = Some (View (None, 1%N)) /\ read_ref 1 scs (None, 1%N) = Some ([5%N], [7%N; 8%N]) /\
              read scs (Some 0%N, 2%N) = Some ([5%N], [7%N; 8%N]).
Proof. exists [(0%N, [(1%N, Table [5%N] [7%N; 8%N]); (2%N, View (None, 1%N))])]. repeat split. Qed.

Example ine_satisfiable :
  exists r1, ine_stmt (CreateTable (None, 1%N) [5%N] OnIgnore) = true /\
             snd (step (new_engine 2 1) 0 (CreateTable (None, 1%N) [5%N] OnIgnore)) = Ok r1.
Proof. eexists. split; reflexivity. Qed.

Example drop_satisfiable :
  let st := fst (step (new_engine 2 1) 0 (CreateTable (None, 1%N) [5%N] OnError)) in
  snd (step st 0 (DropTable (None, 1%N) false false)) = Ok RNone.
Proof. reflexivity. Qed.

Example error_atomic_satisfiable :
  snd (step (new_engine 2 1) 0 (DropTable (None, 1%N) false false)) = Err ENotFound.
Proof. reflexivity. Qed.
