(* C07 proofs: the open-addressing group table (model/AggTable.v) refines the association list
   `al_run`, under any sequence of batches and resizes and any initial capacity (part A), and the
   two-level partitioned scheme loses / duplicates no group (part B). *)
From Coq Require Import NArith ZArith List Bool Arith Lia ZifyBool ZifyNat ZifyN Permutation.
From GV Require Import lib.Bytes model.Sql model.AggTable.
Import ListNotations.
Local Open Scope nat_scope.

(* ---------------------------------------------------------------- row_same is equality *)

Lemma val_same_eq a b : val_same a b = true -> a = b.
Proof.
  destruct a as [|x|x|x], b as [|y|y|y]; cbn; try discriminate; try reflexivity.
  - destruct x, y; try discriminate; reflexivity.
  - destruct (Z.compare x y) eqn:Hc; try discriminate. apply Z.compare_eq in Hc. congruence.
  - destruct (lex_cmp x y) eqn:Hc; try discriminate. apply lex_cmp_eq_iff in Hc. congruence.
Qed.

Lemma val_same_refl a : val_same a a = true.
Proof.
  destruct a as [|x|x|x]; cbn; try reflexivity.
  - destruct x; reflexivity.
  - rewrite Z.compare_refl. reflexivity.
  - rewrite lex_cmp_refl. reflexivity.
Qed.

Lemma row_same_eq a : forall b, row_same a b = true -> a = b.
Proof.
  induction a as [|x a IH]; intros [|y b]; cbn; try discriminate; [reflexivity|].
  intros H. apply andb_prop in H as [H1 H2]. apply val_same_eq in H1. apply IH in H2. congruence.
Qed.

Lemma row_same_refl a : row_same a a = true.
Proof. induction a as [|x a IH]; [reflexivity|]. cbn. rewrite val_same_refl, IH. reflexivity. Qed.

Lemma row_same_iff a b : row_same a b = true <-> a = b.
Proof. split; [apply row_same_eq|intros ->; apply row_same_refl]. Qed.

Lemma row_same_false a b : row_same a b = false <-> a <> b.
Proof.
  split.
  - intros H E. subst b. rewrite row_same_refl in H. discriminate.
  - intros H. destruct (row_same a b) eqn:E; [|reflexivity]. apply row_same_eq in E. contradiction.
Qed.

(* the hypothesis "same rows have the same hash" holds for every function *)
Lemma hash_respects_row_same (hash : row -> N) k1 k2 : row_same k1 k2 = true -> hash k1 = hash k2.
Proof. intros H. apply row_same_eq in H. congruence. Qed.

(* ---------------------------------------------------------------- arithmetic of the directory *)

Definition pow2N (c : nat) : Prop := exists k : N, N.of_nat c = (2 ^ k)%N.

Lemma pow2N_pos c : pow2N c -> 1 <= c.
Proof.
  intros [k Hk]. assert (Hnz : (2 ^ k <> 0)%N) by (apply N.pow_nonzero; discriminate). lia.
Qed.

Lemma pow2N_mask c : pow2N c -> forall a, N.land a (N.of_nat c - 1) = (a mod N.of_nat c)%N.
Proof.
  intros [k Hk] a. rewrite Hk, N.sub_1_r, <- N.ones_equiv. apply N.land_ones.
Qed.

Lemma offset_of_lt h c : pow2N c -> offset_of h c < c.
Proof.
  intros Hc. unfold offset_of. rewrite (pow2N_mask c Hc).
  pose proof (pow2N_pos c Hc) as Hp.
  assert (Hlt : (h mod N.of_nat c < N.of_nat c)%N) by (apply N.mod_lt; lia). lia.
Qed.

Lemma offset_of_mod h c : pow2N c -> offset_of h c = N.to_nat (h mod N.of_nat c).
Proof. intros Hc. unfold offset_of. rewrite (pow2N_mask c Hc). reflexivity. Qed.

Lemma inc_wrap_eq o c : pow2N c -> o < c -> inc_wrap o c = if Nat.eqb (S o) c then 0 else S o.
Proof.
  intros Hc Ho. unfold inc_wrap. rewrite (pow2N_mask c Hc).
  pose proof (pow2N_pos c Hc) as Hp.
  destruct (Nat.eqb_spec (S o) c) as [E|E].
  - replace (N.of_nat o + 1)%N with (N.of_nat c) by lia. rewrite N.mod_same by lia. reflexivity.
  - rewrite N.mod_small by lia. lia.
Qed.

Lemma inc_wrap_mod o c : pow2N c -> o < c -> inc_wrap o c = (o + 1) mod c.
Proof.
  intros Hc Ho. rewrite (inc_wrap_eq o c Hc Ho).
  destruct (Nat.eqb_spec (S o) c) as [E|E].
  - replace (o + 1) with c by lia. rewrite Nat.mod_same by lia. reflexivity.
  - rewrite Nat.mod_small by lia. lia.
Qed.

(* the slot reached after d steps from o (d <= c) *)
Definition pos (c o d : nat) : nat := if o + d <? c then o + d else o + d - c.

Lemma pos_0 c o : o < c -> pos c o 0 = o.
Proof. intros Ho. unfold pos. destruct (Nat.ltb_spec (o + 0) c); lia. Qed.

Lemma pos_lt c o d : o < c -> d <= c -> pos c o d < c.
Proof. intros Ho Hd. unfold pos. destruct (Nat.ltb_spec (o + d) c); lia. Qed.

Lemma pos_mod c o d : o < c -> d <= c -> pos c o d = (o + d) mod c.
Proof.
  intros Ho Hd. unfold pos. destruct (Nat.ltb_spec (o + d) c) as [H|H].
  - rewrite Nat.mod_small by lia. reflexivity.
  - remember (o + d - c) as r eqn:Er. assert (E : o + d = r + 1 * c) by lia.
    rewrite E, Nat.mod_add by lia. rewrite Nat.mod_small by lia. reflexivity.
Qed.

Lemma inc_wrap_pos c o d : pow2N c -> o < c -> d < c -> inc_wrap (pos c o d) c = pos c o (S d).
Proof.
  intros Hc Ho Hd. rewrite inc_wrap_eq by (auto; apply pos_lt; lia).
  unfold pos. destruct (Nat.ltb_spec (o + d) c), (Nat.ltb_spec (o + S d) c);
    match goal with |- context [Nat.eqb ?a ?b] => destruct (Nat.eqb_spec a b) end; lia.
Qed.

Lemma pos_surj c o s : o < c -> s < c -> exists d, d < c /\ pos c o d = s.
Proof.
  intros Ho Hs. destruct (Nat.leb_spec o s) as [H|H].
  - exists (s - o). unfold pos. destruct (Nat.ltb_spec (o + (s - o)) c); lia.
  - exists (s + c - o). unfold pos. destruct (Nat.ltb_spec (o + (s + c - o)) c); lia.
Qed.

Lemma pos_inj c o d1 d2 : o < c -> d1 < c -> d2 < c -> pos c o d1 = pos c o d2 -> d1 = d2.
Proof.
  intros Ho H1 H2. unfold pos.
  destruct (Nat.ltb_spec (o + d1) c), (Nat.ltb_spec (o + d2) c); lia.
Qed.

(* next_power_of_two / is_power_of_two *)
Lemma next_pow2_from_pow2N n : forall fuel p, pow2N p -> pow2N (next_pow2_from p n fuel).
Proof.
  induction fuel as [|f IH]; intros p Hp; cbn [next_pow2_from]; [exact Hp|].
  destruct (Nat.leb n p); [exact Hp|]. apply IH. destruct Hp as [k Hk]. exists (N.succ k).
  rewrite N.pow_succ_r', <- Hk. lia.
Qed.

Lemma next_pow2_from_ge n : forall fuel p, 1 <= p -> n <= p + fuel -> n <= next_pow2_from p n fuel.
Proof.
  induction fuel as [|f IH]; intros p Hp Hn; cbn [next_pow2_from]; [lia|].
  destruct (Nat.leb_spec n p) as [H|H]; [exact H|]. apply IH; lia.
Qed.

Lemma next_pow2_pow2N n : pow2N (next_pow2 n).
Proof. apply next_pow2_from_pow2N. exists 0%N. reflexivity. Qed.

Lemma next_pow2_ge n : n <= next_pow2 n.
Proof. apply next_pow2_from_ge; lia. Qed.

Lemma pow2N_nat c : pow2N c <-> exists k : nat, c = 2 ^ k.
Proof.
  split.
  - intros [k Hk]. exists (N.to_nat k). apply Nat2N.inj. rewrite Nat2N.inj_pow, N2Nat.id. exact Hk.
  - intros [k ->]. exists (N.of_nat k). rewrite Nat2N.inj_pow. reflexivity.
Qed.

Lemma next_pow2_is_pow2 n : exists k : nat, next_pow2 n = 2 ^ k.
Proof. apply pow2N_nat, next_pow2_pow2N. Qed.

Lemma is_pow2_pow2N v : is_pow2 v = true -> v <> 0 -> pow2N v.
Proof.
  unfold is_pow2. intros H Hv. apply N.eqb_eq in H.
  set (n := N.of_nat v) in *. assert (Hn : (n <> 0)%N) by lia.
  exists (N.log2 n).
  destruct (N.log2_spec n) as [Hlo Hhi]; [lia|].
  destruct (N.eq_dec n (2 ^ N.log2 n)) as [E|E]; [exact E|exfalso].
  assert (Hb1 : N.testbit n (N.log2 n) = true) by (apply N.bit_log2; exact Hn).
  assert (Hl : N.log2 (n - 1) = N.log2 n).
  { apply N.log2_unique; [lia|]. split; lia. }
  assert (Hb2 : N.testbit (n - 1) (N.log2 n) = true).
  { rewrite <- Hl. apply N.bit_log2. lia. }
  assert (Hb : N.testbit (N.land n (n - 1)) (N.log2 n) = true).
  { rewrite N.land_spec, Hb1, Hb2. reflexivity. }
  rewrite H in Hb. rewrite N.bits_0 in Hb. discriminate.
Qed.

Lemma pow2_is_pow2 k : is_pow2 (2 ^ k) = true.
Proof.
  unfold is_pow2. apply N.eqb_eq.
  assert (Hc : pow2N (2 ^ k)) by (apply pow2N_nat; exists k; reflexivity).
  rewrite (pow2N_mask _ Hc). apply N.mod_same. pose proof (pow2N_pos _ Hc). lia.
Qed.

(* ---------------------------------------------------------------- list helpers *)

Lemma length_set_nth {A} (x : A) : forall l i, length (set_nth l i x) = length l.
Proof. induction l as [|y l IH]; intros [|i]; cbn; auto. Qed.

Lemma nth_error_set_nth_eq {A} (x : A) : forall l i, i < length l -> nth_error (set_nth l i x) i = Some x.
Proof.
  induction l as [|y l IH]; intros [|i] Hi; cbn in *; try lia; [reflexivity|]. apply IH. lia.
Qed.

Lemma nth_error_set_nth_ne {A} (x : A) : forall l i j, i <> j -> nth_error (set_nth l i x) j = nth_error l j.
Proof.
  induction l as [|y l IH]; intros [|i] [|j] Hij; cbn; try reflexivity; try lia. apply IH. lia.
Qed.

Lemma map_fst_set_nth {A B} (k : A) (b : B) : forall l i b0,
  nth_error l i = Some (k, b0) -> map fst (set_nth l i (k, b)) = map fst l.
Proof.
  induction l as [|y l IH]; intros [|i] b0 Hi; cbn in *; try discriminate.
  - injection Hi as ->. reflexivity.
  - f_equal. eapply IH, Hi.
Qed.

Fixpoint nocc (es : list entry) : nat :=
  match es with [] => 0 | None :: r => nocc r | Some _ :: r => Datatypes.S (nocc r) end.

Lemma nocc_le es : nocc es <= length es.
Proof. induction es as [|[e|] es IH]; cbn; lia. Qed.

Lemma nocc_app a b : nocc (a ++ b) = nocc a + nocc b.
Proof. induction a as [|[e|] a IH]; cbn; lia. Qed.

Lemma nocc_repeat n : nocc (repeat None n) = 0.
Proof. induction n as [|n IH]; cbn; auto. Qed.

Lemma nth_error_repeat_None n s (e : entry) : nth_error (repeat None n) s = Some e -> e = None.
Proof. intros H. apply nth_error_In in H. apply repeat_spec in H. exact H. Qed.

Lemma nocc_set_nth e : forall es i, nth_error es i = Some None -> nocc (set_nth es i (Some e)) = Datatypes.S (nocc es).
Proof.
  induction es as [|[y|] es IH]; intros [|i] Hi; cbn in *; try discriminate; try reflexivity.
  - f_equal. apply IH, Hi.
  - apply IH, Hi.
Qed.

Lemma nocc_empty_slot : forall es, nocc es < length es -> exists s, nth_error es s = Some None.
Proof.
  induction es as [|[y|] es IH]; cbn; intros H; [lia| |exists 0; reflexivity].
  destruct IH as [s Hs]; [lia|]. exists (Datatypes.S s). exact Hs.
Qed.

Lemma nodup_snoc {A} (a : A) : forall l, NoDup l -> ~ In a l -> NoDup (l ++ [a]).
Proof.
  induction l as [|y l IH]; intros Hnd Hin; cbn.
  - constructor; [intros []|constructor].
  - apply NoDup_cons_iff in Hnd as [Hy Hnd]. constructor.
    + rewrite in_app_iff. intros [H|[H|[]]]; [contradiction|]. apply Hin. left. symmetry. exact H.
    + apply IH; [exact Hnd|]. intros H. apply Hin. right. exact H.
Qed.

Lemma nodup_keys_idx {B} (gs : list (row * B)) g1 g2 k s1 s2 :
  NoDup (map fst gs) -> nth_error gs g1 = Some (k, s1) -> nth_error gs g2 = Some (k, s2) -> g1 = g2.
Proof.
  intros Hnd H1 H2. apply (proj1 (NoDup_nth_error (map fst gs)) Hnd).
  - rewrite map_length. apply nth_error_Some. rewrite H1. discriminate.
  - rewrite (map_nth_error fst _ _ H1), (map_nth_error fst _ _ H2). reflexivity.
Qed.

(* ---------------------------------------------------------------- the association list *)
Section AlistLemmas.
  Context {St X : Type}.
  Variable init : St.
  Variable f : St -> X -> St.

  Lemma al_find_some : forall (gs : list (row * St)) key i j, al_find gs key i = Some j ->
    exists g st, j = i + g /\ nth_error gs g = Some (key, st) /\
                 forall x, al_apply init f gs key x = set_nth gs g (key, f st x).
  Proof.
    induction gs as [|[k s] gs IH]; intros key i j Hf; cbn [al_find] in Hf; [discriminate|].
    destruct (row_same key k) eqn:Ers.
    - apply row_same_eq in Ers. subst k. injection Hf as <-. exists 0, s. split; [lia|]. split; [reflexivity|].
      intros x. cbn [al_apply set_nth]. rewrite row_same_refl. reflexivity.
    - destruct (IH key (Datatypes.S i) j Hf) as [g [st [Hj [Hg Ha]]]].
      exists (Datatypes.S g), st. split; [lia|]. split; [exact Hg|].
      intros x. cbn [al_apply set_nth]. rewrite Ers, Ha. reflexivity.
  Qed.

  Lemma al_find_none : forall (gs : list (row * St)) key i, al_find gs key i = None ->
    ~ In key (map fst gs) /\ forall x, al_apply init f gs key x = gs ++ [(key, f init x)].
  Proof.
    induction gs as [|[k s] gs IH]; intros key i Hf; cbn [al_find] in Hf.
    - split; [intros []|reflexivity].
    - destruct (row_same key k) eqn:Ers; [discriminate|]. destruct (IH key _ Hf) as [Hin Ha]. split.
      + cbn. intros [E|H]; [|contradiction]. subst k. rewrite row_same_refl in Ers. discriminate.
      + intros x. cbn [al_apply]. rewrite Ers, Ha. reflexivity.
  Qed.

  Lemma al_apply_length (gs : list (row * St)) key x : length (al_apply init f gs key x) <= Datatypes.S (length gs).
  Proof.
    induction gs as [|[k s] gs IH]; cbn [al_apply]; [cbn; lia|].
    destruct (row_same key k); cbn [length]; lia.
  Qed.

  Lemma al_run_app : forall a b (gs : list (row * St)),
    al_run init f gs (a ++ b) =
    (fst (al_run init f (fst (al_run init f gs a)) b),
     snd (al_run init f gs a) ++ snd (al_run init f (fst (al_run init f gs a)) b)).
  Proof.
    induction a as [|[k x] a IH]; intros b gs.
    - cbn. destruct (al_run init f gs b); reflexivity.
    - cbn [app al_run fst snd]. rewrite IH. reflexivity.
  Qed.
End AlistLemmas.

(* ---------------------------------------------------------------- part A: the table *)
Section TableProofs.
  Variable hash : row -> N.
  Variable St : Type.
  Variable init : St.

  Definition occupied (es : list entry) (s : nat) : Prop := exists e, nth_error es s = Some (Some e).

  (* linear-probing reachability: between the home slot of an entry and the entry no empty slot *)
  Definition reach (es : list entry) : Prop :=
    forall s h g, nth_error es s = Some (Some (h, g)) ->
      exists d, d < length es /\ s = pos (length es) (offset_of h (length es)) d /\
                forall j, j < d -> occupied es (pos (length es) (offset_of h (length es)) j).

  Record Inv (t : table St) : Prop := mkInv {
    inv_cap : pow2N (length (entries t));
    inv_ent : forall s h g, nth_error (entries t) s = Some (Some (h, g)) ->
                exists k st, nth_error (groups t) g = Some (k, st) /\ h = hash k;
    inv_grp : forall g k st, nth_error (groups t) g = Some (k, st) ->
                exists s, nth_error (entries t) s = Some (Some (hash k, g));
    inv_occ : nocc (entries t) = length (groups t);
    inv_reach : reach (entries t);
    inv_nodup : NoDup (map fst (groups t));
    inv_room : length (groups t) < length (entries t) }.

  Lemma occupied_set_nth es s0 e s : s0 < length es -> occupied es s -> occupied (set_nth es s0 (Some e)) s.
  Proof.
    intros Hs0 [e' He']. destruct (Nat.eq_dec s0 s) as [<-|Hne].
    - exists e. apply nth_error_set_nth_eq, Hs0.
    - exists e'. rewrite nth_error_set_nth_ne by exact Hne. exact He'.
  Qed.

  Lemma first_empty es o : nocc es < length es -> o < length es ->
    exists d, d < length es /\ nth_error es (pos (length es) o d) = Some None /\
              forall j, j < d -> occupied es (pos (length es) o j).
  Proof.
    intros Hn Ho. set (c := length es) in *.
    destruct (nocc_empty_slot es Hn) as [s Hs].
    assert (Hsc : s < c) by (apply nth_error_Some; rewrite Hs; discriminate).
    destruct (pos_surj c o s Ho Hsc) as [d0 [Hd0 Hp0]].
    assert (Hscan : forall n, n <= c -> (forall j, j < n -> occupied es (pos c o j)) \/
               exists d, d < n /\ nth_error es (pos c o d) = Some None /\
                         forall j, j < d -> occupied es (pos c o j)).
    { induction n as [|n IHn]; intros Hnc.
      - left. intros j Hj. lia.
      - destruct IHn as [Hall|[d [Hd [Hnone Hocc]]]]; [lia| |].
        + destruct (nth_error es (pos c o n)) as [[e|]|] eqn:En.
          * left. intros j Hj. destruct (Nat.eq_dec j n) as [->|Hne]; [exists e; exact En|apply Hall; lia].
          * right. exists n. split; [lia|]. split; [exact En|exact Hall].
          * exfalso. apply nth_error_None in En. pose proof (pos_lt c o n Ho). fold c in En. lia.
        + right. exists d. split; [lia|]. split; assumption. }
    destruct (Hscan (Datatypes.S d0)) as [Hall|[d [Hd [Hnone Hocc]]]]; [lia| |].
    - destruct (Hall d0) as [e He]; [lia|]. rewrite Hp0, Hs in He. discriminate.
    - exists d. split; [lia|]. split; assumption.
  Qed.

  Lemma reach_insert es h g d :
    reach es -> d < length es ->
    nth_error es (pos (length es) (offset_of h (length es)) d) = Some None ->
    (forall j, j < d -> occupied es (pos (length es) (offset_of h (length es)) j)) ->
    reach (set_nth es (pos (length es) (offset_of h (length es)) d) (Some (h, g))).
  Proof.
    intros Hr Hd Hnone Hocc. set (s0 := pos (length es) (offset_of h (length es)) d) in *.
    assert (Hs0 : s0 < length es) by (apply nth_error_Some; rewrite Hnone; discriminate).
    intros s h1 g1 Hs. rewrite length_set_nth. destruct (Nat.eq_dec s0 s) as [<-|Hne].
    - rewrite nth_error_set_nth_eq in Hs by exact Hs0. injection Hs as <- <-.
      exists d. split; [exact Hd|]. split; [reflexivity|].
      intros j Hj. apply occupied_set_nth; [exact Hs0|apply Hocc, Hj].
    - rewrite nth_error_set_nth_ne in Hs by exact Hne.
      destruct (Hr s h1 g1 Hs) as [d1 [Hd1 [Hsd1 Hocc1]]].
      exists d1. split; [exact Hd1|]. split; [exact Hsd1|].
      intros j Hj. apply occupied_set_nth; [exact Hs0|apply Hocc1, Hj].
  Qed.

  (* ------------------------------------------------ probe *)
  Lemma probe_found (t : table St) key g st : Inv t -> nth_error (groups t) g = Some (key, st) ->
    probe St (entries t) (groups t) (hash key) key (offset_of (hash key) (cap St t)) (cap St t) = PFound g.
  Proof.
    intros HI Hg. unfold cap. set (es := entries t). set (c := length es). set (h := hash key).
    set (o0 := offset_of h c).
    destruct (inv_grp t HI g key st Hg) as [s Hs].
    destruct (inv_reach t HI s h g Hs) as [d [Hd [Hsd Hocc]]].
    fold es in Hs, Hd, Hsd, Hocc. fold c in Hd, Hsd, Hocc. fold o0 in Hsd, Hocc.
    assert (Hpc : pow2N c) by apply (inv_cap t HI).
    assert (Ho0 : o0 < c) by (apply offset_of_lt, Hpc).
    assert (Hgen : forall n i, i + n = d ->
              probe St es (groups t) h key (pos c o0 i) (c - i) = PFound g).
    { induction n as [|n IHn]; intros i Hi.
      - assert (i = d) by lia. subst i. destruct (c - d) as [|fu] eqn:Ef; [lia|]. cbn [probe].
        rewrite <- Hsd, Hs, N.eqb_refl, Hg, row_same_refl. reflexivity.
      - destruct (c - i) as [|fu] eqn:Ef; [lia|]. cbn [probe].
        destruct (Hocc i) as [[h' g'] He]; [lia|]. rewrite He.
        assert (Hnext : probe St es (groups t) h key (inc_wrap (pos c o0 i) (length es)) fu = PFound g).
        { fold c. rewrite inc_wrap_pos by (auto; lia). replace fu with (c - Datatypes.S i) by lia.
          apply IHn. lia. }
        destruct (N.eqb_spec h' h) as [Eh|Eh]; [|exact Hnext].
        destruct (inv_ent t HI _ _ _ He) as [k' [st' [Hg' _]]]. rewrite Hg'.
        destruct (row_same key k') eqn:Ers; [|exact Hnext].
        apply row_same_eq in Ers. subst k'. f_equal.
        exact (nodup_keys_idx _ _ _ _ _ _ (inv_nodup t HI) Hg' Hg). }
    specialize (Hgen d 0 eq_refl). rewrite pos_0, Nat.sub_0_r in Hgen by exact Ho0. exact Hgen.
  Qed.

  Lemma probe_new (t : table St) key : Inv t -> ~ In key (map fst (groups t)) ->
    exists d, d < cap St t /\
      probe St (entries t) (groups t) (hash key) key (offset_of (hash key) (cap St t)) (cap St t)
        = PNew (pos (cap St t) (offset_of (hash key) (cap St t)) d) /\
      nth_error (entries t) (pos (cap St t) (offset_of (hash key) (cap St t)) d) = Some None /\
      forall j, j < d -> occupied (entries t) (pos (cap St t) (offset_of (hash key) (cap St t)) j).
  Proof.
    intros HI Hnin. unfold cap. set (es := entries t). set (c := length es). set (h := hash key).
    set (o0 := offset_of h c).
    assert (Hpc : pow2N c) by apply (inv_cap t HI).
    assert (Ho0 : o0 < c) by (apply offset_of_lt, Hpc).
    destruct (first_empty es o0) as [d [Hd [Hnone Hocc]]].
    { unfold es. rewrite (inv_occ t HI). apply (inv_room t HI). }
    { exact Ho0. }
    fold c in Hd, Hnone, Hocc.
    exists d. split; [exact Hd|]. split; [|split; assumption].
    assert (Hgen : forall n i, i + n = d ->
              probe St es (groups t) h key (pos c o0 i) (c - i) = PNew (pos c o0 d)).
    { induction n as [|n IHn]; intros i Hi.
      - assert (i = d) by lia. subst i. destruct (c - d) as [|fu] eqn:Ef; [lia|]. cbn [probe].
        rewrite Hnone. reflexivity.
      - destruct (c - i) as [|fu] eqn:Ef; [lia|]. cbn [probe].
        destruct (Hocc i) as [[h' g'] He]; [lia|]. rewrite He.
        assert (Hnext : probe St es (groups t) h key (inc_wrap (pos c o0 i) (length es)) fu = PNew (pos c o0 d)).
        { fold c. rewrite inc_wrap_pos by (auto; lia). replace fu with (c - Datatypes.S i) by lia.
          apply IHn. lia. }
        destruct (N.eqb_spec h' h) as [Eh|Eh]; [|exact Hnext].
        destruct (inv_ent t HI _ _ _ He) as [k' [st' [Hg' _]]]. rewrite Hg'.
        destruct (row_same key k') eqn:Ers; [|exact Hnext].
        apply row_same_eq in Ers. subst k'. exfalso. apply Hnin.
        apply nth_error_In in Hg'. apply (in_map fst) in Hg'. exact Hg'. }
    specialize (Hgen d 0 eq_refl). rewrite pos_0, Nat.sub_0_r in Hgen by exact Ho0. exact Hgen.
  Qed.

  (* ------------------------------------------------ the invariant is preserved *)
  Lemma Inv_update t g key st st' : Inv t -> nth_error (groups t) g = Some (key, st) ->
    Inv (mkT (entries t) (set_nth (groups t) g (key, st'))).
  Proof.
    intros HI Hg.
    assert (Hgl : g < length (groups t)) by (apply nth_error_Some; rewrite Hg; discriminate).
    constructor; cbn [entries groups].
    - apply (inv_cap t HI).
    - intros s h g1 Hs. destruct (inv_ent t HI s h g1 Hs) as [k [st1 [Hk Hh]]].
      destruct (Nat.eq_dec g g1) as [<-|Hne].
      + exists key, st'. rewrite nth_error_set_nth_eq by exact Hgl. split; [reflexivity|].
        rewrite Hg in Hk. injection Hk as E1 E2. subst k. exact Hh.
      + exists k, st1. rewrite nth_error_set_nth_ne by exact Hne. auto.
    - intros g1 k st1 Hg1. destruct (Nat.eq_dec g g1) as [<-|Hne].
      + rewrite nth_error_set_nth_eq in Hg1 by exact Hgl. injection Hg1 as <- <-.
        apply (inv_grp t HI g key st Hg).
      + rewrite nth_error_set_nth_ne in Hg1 by exact Hne. apply (inv_grp t HI g1 k st1 Hg1).
    - rewrite length_set_nth. apply (inv_occ t HI).
    - apply (inv_reach t HI).
    - rewrite (map_fst_set_nth key st' _ _ st Hg). apply (inv_nodup t HI).
    - rewrite length_set_nth. apply (inv_room t HI).
  Qed.

  Lemma Inv_insert t key st d :
    Inv t -> ~ In key (map fst (groups t)) -> length (groups t) + 1 < cap St t -> d < cap St t ->
    nth_error (entries t) (pos (cap St t) (offset_of (hash key) (cap St t)) d) = Some None ->
    (forall j, j < d -> occupied (entries t) (pos (cap St t) (offset_of (hash key) (cap St t)) j)) ->
    Inv (mkT (set_nth (entries t) (pos (cap St t) (offset_of (hash key) (cap St t)) d)
                      (Some (hash key, length (groups t))))
             (groups t ++ [(key, st)])).
  Proof.
    unfold cap. intros HI Hnin Hroom Hd Hnone Hocc.
    set (s0 := pos (length (entries t)) (offset_of (hash key) (length (entries t))) d) in *.
    assert (Hs0 : s0 < length (entries t)) by (apply nth_error_Some; rewrite Hnone; discriminate).
    constructor; cbn [entries groups].
    - rewrite length_set_nth. apply (inv_cap t HI).
    - intros s h g Hs. destruct (Nat.eq_dec s0 s) as [<-|Hne].
      + rewrite nth_error_set_nth_eq in Hs by exact Hs0. injection Hs as <- <-.
        exists key, st. split; [|reflexivity].
        rewrite nth_error_app2 by lia. rewrite Nat.sub_diag. reflexivity.
      + rewrite nth_error_set_nth_ne in Hs by exact Hne.
        destruct (inv_ent t HI s h g Hs) as [k [st1 [Hk Hh]]]. exists k, st1. split; [|exact Hh].
        rewrite nth_error_app1; [exact Hk|]. apply nth_error_Some. rewrite Hk. discriminate.
    - intros g k st1 Hg. destruct (Nat.lt_ge_cases g (length (groups t))) as [Hlt|Hge].
      + rewrite nth_error_app1 in Hg by exact Hlt.
        destruct (inv_grp t HI g k st1 Hg) as [s Hs]. exists s.
        rewrite nth_error_set_nth_ne; [exact Hs|]. intros E. subst s. rewrite Hnone in Hs. discriminate.
      + rewrite nth_error_app2 in Hg by exact Hge.
        destruct (g - length (groups t)) as [|m] eqn:Em.
        * cbn in Hg. injection Hg as <- <-. exists s0. rewrite nth_error_set_nth_eq by exact Hs0.
          replace g with (length (groups t)) by lia. reflexivity.
        * cbn in Hg. destruct m; discriminate.
    - rewrite (nocc_set_nth _ _ _ Hnone), app_length. cbn [length]. pose proof (inv_occ t HI) as Ho. lia.
    - apply reach_insert; [apply (inv_reach t HI)|exact Hd|exact Hnone|exact Hocc].
    - rewrite map_app. cbn [map fst]. apply nodup_snoc; [apply (inv_nodup t HI)|exact Hnin].
    - rewrite length_set_nth, app_length. cbn [length]. lia.
  Qed.

  Section ApplyProofs.
    Variable X : Type.
    Variable f : St -> X -> St.

    Lemma find_or_insert_ok t key x : Inv t -> length (groups t) + 1 < cap St t ->
      exists t', find_or_insert hash St init X f t key x = TOk (t', al_id (groups t) key) /\
                 Inv t' /\ groups t' = al_apply init f (groups t) key x /\ cap St t' = cap St t.
    Proof.
      intros HI Hroom. unfold find_or_insert, al_id.
      destruct (al_find (groups t) key 0) as [j|] eqn:Ef.
      - destruct (al_find_some init f _ _ _ _ Ef) as [g [st [Hj [Hg Ha]]]]. cbn in Hj. subst j.
        rewrite (probe_found t key g st HI Hg), Hg.
        eexists. split; [reflexivity|]. split; [apply (Inv_update t g key st _ HI Hg)|].
        split; [cbn [groups]; rewrite Ha; reflexivity|reflexivity].
      - destruct (al_find_none init f _ _ _ Ef) as [Hnin Ha].
        destruct (probe_new t key HI Hnin) as [d [Hd [Hp [Hnone Hocc]]]]. rewrite Hp.
        eexists. split; [reflexivity|]. split; [apply (Inv_insert t key _ d HI Hnin Hroom Hd Hnone Hocc)|].
        split; [cbn [groups]; rewrite Ha; reflexivity|]. unfold cap. cbn [entries]. apply length_set_nth.
    Qed.

    Definition batch_step (acc : tres (table St * list nat)) (it : row * X) : tres (table St * list nat) :=
      tbind acc (fun tg => tbind (find_or_insert hash St init X f (fst tg) (fst it) (snd it))
                                 (fun r => TOk (fst r, snd tg ++ [snd r]))).

    Lemma batch_fold_ok : forall items t ids0, Inv t -> length (groups t) + length items < cap St t ->
      exists t', fold_left batch_step items (TOk (t, ids0))
                   = TOk (t', ids0 ++ snd (al_run init f (groups t) items)) /\
                 Inv t' /\ groups t' = fst (al_run init f (groups t) items) /\ cap St t' = cap St t.
    Proof.
      induction items as [|[k x] items IH]; intros t ids0 HI Hroom.
      - exists t. cbn. rewrite app_nil_r. auto.
      - cbn [length] in Hroom.
        destruct (find_or_insert_ok t k x HI) as [t1 [Hf [HI1 [Hg1 Hc1]]]]; [lia|].
        cbn [fold_left]. unfold batch_step at 2. cbn [tbind fst snd]. rewrite Hf. cbn [tbind fst snd].
        destruct (IH t1 (ids0 ++ [al_id (groups t) k]) HI1) as [t' [Hfold [HI' [Hg' Hc']]]].
        { rewrite Hg1, Hc1. pose proof (al_apply_length init f (groups t) k x). lia. }
        exists t'. rewrite Hfold. cbn [al_run fst snd]. rewrite <- Hg1, <- app_assoc. cbn [app].
        split; [reflexivity|]. split; [exact HI'|]. split; [exact Hg'|]. congruence.
    Qed.

    (* ------------------------------------------------ resize *)
    Definition resize_step (nc : nat) (acc : tres (list entry)) (ent : entry) : tres (list entry) :=
      tbind acc (fun es => match ent with
                           | None => TOk es
                           | Some (h, g) => reinsert es (h, g) (offset_of h nc) nc
                           end).
  End ApplyProofs.

  Lemma reinsert_ok ns h g : pow2N (length ns) -> nocc ns < length ns ->
    exists d, d < length ns /\
      reinsert ns (h, g) (offset_of h (length ns)) (length ns)
        = TOk (set_nth ns (pos (length ns) (offset_of h (length ns)) d) (Some (h, g))) /\
      nth_error ns (pos (length ns) (offset_of h (length ns)) d) = Some None /\
      forall j, j < d -> occupied ns (pos (length ns) (offset_of h (length ns)) j).
  Proof.
    intros Hpc Hn. set (c := length ns) in *. set (o0 := offset_of h c).
    assert (Ho0 : o0 < c) by (apply offset_of_lt, Hpc).
    destruct (first_empty ns o0 Hn Ho0) as [d [Hd [Hnone Hocc]]]. fold c in Hd, Hnone, Hocc.
    exists d. split; [exact Hd|]. split; [|split; assumption].
    assert (Hgen : forall n i, i + n = d ->
              reinsert ns (h, g) (pos c o0 i) (c - i) = TOk (set_nth ns (pos c o0 d) (Some (h, g)))).
    { induction n as [|n IHn]; intros i Hi.
      - assert (i = d) by lia. subst i. destruct (c - d) as [|fu] eqn:Ef; [lia|]. cbn [reinsert].
        rewrite Hnone. reflexivity.
      - destruct (c - i) as [|fu] eqn:Ef; [lia|]. cbn [reinsert].
        destruct (Hocc i) as [e He]; [lia|]. rewrite He. fold c.
        rewrite inc_wrap_pos by (auto; lia). replace fu with (c - Datatypes.S i) by lia. apply IHn. lia. }
    specialize (Hgen d 0 eq_refl). rewrite pos_0, Nat.sub_0_r in Hgen by exact Ho0. exact Hgen.
  Qed.

  (* loop invariant of the re-insertion: `pre` = old entries already moved, `ns` = new directory *)
  Record RI (nc : nat) (pre ns : list entry) : Prop := mkRI {
    ri_len : length ns = nc;
    ri_occ : nocc ns = nocc pre;
    ri_reach : reach ns;
    ri_sub : forall s h g, nth_error ns s = Some (Some (h, g)) -> In (Some (h, g)) pre;
    ri_sup : forall h g, In (Some (h, g)) pre -> exists s, nth_error ns s = Some (Some (h, g)) }.

  Lemma resize_loop nc : pow2N nc -> forall rest pre ns, RI nc pre ns -> nocc pre + nocc rest < nc ->
    exists ns', fold_left (resize_step nc) rest (TOk ns) = TOk ns' /\ RI nc (pre ++ rest) ns'.
  Proof.
    intros Hpc. induction rest as [|[[h g]|] rest IH]; intros pre ns HR Hn.
    - exists ns. rewrite app_nil_r. split; [reflexivity|exact HR].
    - cbn [nocc] in Hn. destruct HR as [Hlen Hocc Hreach Hsub Hsup].
      destruct (reinsert_ok ns h g) as [d [Hd [Hre [Hnone Hpath]]]].
      { rewrite Hlen. exact Hpc. } { rewrite Hlen, Hocc. lia. }
      cbn [fold_left]. unfold resize_step at 2. cbn [tbind].
      set (s0 := pos (length ns) (offset_of h (length ns)) d) in *.
      assert (Hre' : reinsert ns (h, g) (offset_of h nc) nc = TOk (set_nth ns s0 (Some (h, g)))).
      { rewrite <- Hlen. exact Hre. }
      rewrite Hre'.
      assert (Hs0 : s0 < length ns) by (apply nth_error_Some; rewrite Hnone; discriminate).
      destruct (IH (pre ++ [Some (h, g)]) (set_nth ns s0 (Some (h, g)))) as [ns' [Hfold HR']].
      + constructor.
        * rewrite length_set_nth. exact Hlen.
        * rewrite (nocc_set_nth _ _ _ Hnone), nocc_app, Hocc. cbn [nocc]. lia.
        * apply reach_insert; assumption.
        * intros s h1 g1 Hs. rewrite in_app_iff. destruct (Nat.eq_dec s0 s) as [<-|Hne].
          -- rewrite nth_error_set_nth_eq in Hs by exact Hs0. injection Hs as <- <-. right. left. reflexivity.
          -- rewrite nth_error_set_nth_ne in Hs by exact Hne. left. eapply Hsub, Hs.
        * intros h1 g1 Hin. rewrite in_app_iff in Hin. destruct Hin as [Hin|[Hin|[]]].
          -- destruct (Hsup h1 g1 Hin) as [s Hs]. exists s. rewrite nth_error_set_nth_ne; [exact Hs|].
             intros E. subst s. rewrite Hnone in Hs. discriminate.
          -- injection Hin as <- <-. exists s0. apply nth_error_set_nth_eq, Hs0.
      + rewrite nocc_app. cbn [nocc]. lia.
      + exists ns'. rewrite <- app_assoc in HR'. split; [exact Hfold|exact HR'].
    - cbn [nocc] in Hn. cbn [fold_left]. unfold resize_step at 2. cbn [tbind].
      destruct (IH (pre ++ [None]) ns) as [ns' [Hfold HR']].
      + destruct HR as [Hlen Hocc Hreach Hsub Hsup]. constructor; try assumption.
        * rewrite nocc_app. cbn [nocc]. lia.
        * intros s h1 g1 Hs. rewrite in_app_iff. left. eapply Hsub, Hs.
        * intros h1 g1 Hin. rewrite in_app_iff in Hin. destruct Hin as [Hin|[Hin|[]]]; [|discriminate].
          apply Hsup, Hin.
      + rewrite nocc_app. cbn [nocc]. lia.
      + exists ns'. rewrite <- app_assoc in HR'. split; [exact Hfold|exact HR'].
  Qed.

  Lemma resize_ok t n : Inv t -> cap St t <= n ->
    exists t', resize St t n = TOk t' /\ Inv t' /\ groups t' = groups t /\
               n <= cap St t' /\ cap St t <= cap St t'.
  Proof.
    intros HI Hn. unfold resize, cap in *.
    pose proof (pow2N_pos _ (inv_cap t HI)) as Hc1.
    set (nc := if is_pow2 n then n else next_pow2 n).
    assert (Hpc : pow2N nc).
    { unfold nc. destruct (is_pow2 n) eqn:Ep; [apply is_pow2_pow2N; [exact Ep|lia]|apply next_pow2_pow2N]. }
    assert (Hge : n <= nc).
    { unfold nc. destruct (is_pow2 n); [lia|apply next_pow2_ge]. }
    destruct (Nat.ltb_spec nc (length (entries t))) as [Hlt|Hnlt]; [lia|].
    destruct (resize_loop nc Hpc (entries t) [] (repeat None nc)) as [ns' [Hfold HR]].
    - constructor.
      + apply repeat_length.
      + rewrite nocc_repeat. reflexivity.
      + intros s h g Hs. apply nth_error_repeat_None in Hs. discriminate.
      + intros s h g Hs. apply nth_error_repeat_None in Hs. discriminate.
      + intros h g [].
    - cbn [nocc]. rewrite (inv_occ t HI). pose proof (inv_room t HI). lia.
    - cbn [app] in HR. destruct HR as [Hlen Hocc Hreach Hsub Hsup].
      exists (mkT ns' (groups t)). split.
      { exact (f_equal (fun x => tbind x (fun es => TOk (mkT es (groups t)))) Hfold). }
      cbn [entries groups].
      split; [|split; [reflexivity|lia]].
      constructor; cbn [entries groups].
      + rewrite Hlen. exact Hpc.
      + intros s h g Hs. apply Hsub in Hs. apply In_nth_error in Hs as [s1 Hs1].
        apply (inv_ent t HI s1 h g Hs1).
      + intros g k st Hg. destruct (inv_grp t HI g k st Hg) as [s Hs]. apply nth_error_In in Hs.
        apply Hsup, Hs.
      + rewrite Hocc. apply (inv_occ t HI).
      + exact Hreach.
      + apply (inv_nodup t HI).
      + pose proof (inv_room t HI). lia.
  Qed.

  Lemma Inv_table_new capacity : Inv (table_new St capacity).
  Proof.
    unfold table_new. constructor; cbn [entries groups].
    - rewrite repeat_length. apply next_pow2_pow2N.
    - intros s h g Hs. apply nth_error_repeat_None in Hs. discriminate.
    - intros g k st Hg. destruct g; discriminate.
    - apply nocc_repeat.
    - intros s h g Hs. apply nth_error_repeat_None in Hs. discriminate.
    - constructor.
    - rewrite repeat_length. cbn [length]. pose proof (pow2N_pos _ (next_pow2_pow2N capacity)). lia.
  Qed.

  Section BatchProofs.
    Variable X : Type.
    Variable f : St -> X -> St.

    Lemma apply_batch_ok t items : Inv t ->
      exists t', apply_batch hash St init X f t items = TOk (t', snd (al_run init f (groups t) items)) /\
                 Inv t' /\ groups t' = fst (al_run init f (groups t) items) /\ cap St t <= cap St t'.
    Proof.
      intros HI. destruct items as [|it items'] eqn:Eit.
      - exists t. cbn. auto.
      - rewrite <- Eit. assert (Hlen : 1 <= length items) by (subst items; cbn; lia).
        assert (Hab : apply_batch hash St init X f t items =
                      tbind (if needs_resize St t (length items)
                             then resize St t (Nat.max (cap St t * 2) (length items + cap St t))
                             else TOk t)
                            (fun t1 => fold_left (batch_step X f) items (TOk (t1, [])))).
        { subst items. reflexivity. }
        rewrite Hab. clear Hab Eit.
        assert (Hpre : exists t1,
                   (if needs_resize St t (length items)
                    then resize St t (Nat.max (cap St t * 2) (length items + cap St t))
                    else TOk t) = TOk t1 /\
                   Inv t1 /\ groups t1 = groups t /\ cap St t <= cap St t1 /\
                   length (groups t1) + length items < cap St t1).
        { destruct (needs_resize St t (length items)) eqn:En.
          - destruct (resize_ok t (Nat.max (cap St t * 2) (length items + cap St t)))
              as [t1 [Hr [HI1 [Hg1 [Hc1 Hc2]]]]]; [exact HI|lia|].
            exists t1. rewrite Hg1. pose proof (inv_room t HI) as Hroom. unfold cap in *.
            split; [exact Hr|]. split; [exact HI1|]. split; [reflexivity|]. lia.
          - exists t. unfold needs_resize, num_occupied in En. apply Nat.ltb_ge in En. unfold cap in *.
            split; [reflexivity|]. split; [exact HI|]. split; [reflexivity|]. lia. }
        destruct Hpre as [t1 [Hr [HI1 [Hg1 [Hc1 Hroom]]]]]. rewrite Hr. cbn [tbind].
        destruct (batch_fold_ok X f items t1 [] HI1 Hroom) as [t' [Hfold [HI' [Hg' Hc']]]].
        exists t'. rewrite Hfold. cbn [app]. rewrite Hg1 in *.
        split; [reflexivity|]. split; [exact HI'|]. split; [exact Hg'|]. lia.
    Qed.

    (* any interleaving of batches and spontaneous resizes *)
    Inductive op := OpBatch (items : list (row * X)) | OpResize (extra : nat).
    Definition op_items (o : op) : list (row * X) :=
      match o with OpBatch items => items | OpResize _ => [] end.
    Definition table_step (acc : tres (table St * list nat)) (o : op) : tres (table St * list nat) :=
      tbind acc (fun tg =>
        match o with
        | OpBatch items => tbind (apply_batch hash St init X f (fst tg) items)
                                 (fun r => TOk (fst r, snd tg ++ snd r))
        | OpResize extra => tbind (resize St (fst tg) (cap St (fst tg) + extra))
                                  (fun t' => TOk (t', snd tg))
        end).
    Definition table_run (t : table St) (ops : list op) : tres (table St * list nat) :=
      fold_left table_step ops (TOk (t, [])).

    Lemma table_run_gen : forall ops t ids0, Inv t ->
      exists t', fold_left table_step ops (TOk (t, ids0))
                   = TOk (t', ids0 ++ snd (al_run init f (groups t) (concat (map op_items ops)))) /\
                 groups t' = fst (al_run init f (groups t) (concat (map op_items ops))) /\ Inv t'.
    Proof.
      induction ops as [|[items|extra] ops IH]; intros t ids0 HI.
      - exists t. cbn. rewrite app_nil_r. auto.
      - destruct (apply_batch_ok t items HI) as [t1 [Hab [HI1 [Hg1 _]]]].
        cbn [fold_left]. unfold table_step at 2. cbn [tbind fst snd]. rewrite Hab. cbn [tbind fst snd].
        destruct (IH t1 (ids0 ++ snd (al_run init f (groups t) items)) HI1) as [t' [Hfold [Hg' HI']]].
        exists t'. rewrite Hfold. cbn [map concat op_items]. rewrite al_run_app. cbn [fst snd].
        rewrite <- Hg1, app_assoc. auto.
      - destruct (resize_ok t (cap St t + extra) HI) as [t1 [Hr [HI1 [Hg1 _]]]]; [lia|].
        cbn [fold_left]. unfold table_step at 2. cbn [tbind fst snd]. rewrite Hr. cbn [tbind fst snd].
        destruct (IH t1 ids0 HI1) as [t' [Hfold [Hg' HI']]].
        exists t'. rewrite Hfold. cbn [map concat op_items app]. rewrite <- Hg1. auto.
    Qed.

    (* (A) the open-addressing table refines the association list, whatever the initial capacity and
       whatever resizes happen in between *)
    Theorem table_find_or_insert_spec : forall capacity ops,
      exists t ids, table_run (table_new St capacity) ops = TOk (t, ids) /\
                    (groups t, ids) = al_run init f [] (concat (map op_items ops)) /\ Inv t.
    Proof.
      intros capacity ops.
      destruct (table_run_gen ops (table_new St capacity) [] (Inv_table_new capacity)) as [t [Hrun [Hg HI]]].
      exists t. eexists. split; [exact Hrun|]. split; [|exact HI].
      cbn [app table_new groups] in *. rewrite Hg. destruct (al_run init f [] (concat (map op_items ops))); reflexivity.
    Qed.
  End BatchProofs.
End TableProofs.

Print Assumptions table_find_or_insert_spec.

(* ---------------------------------------------------------------- part B, list level:
   association lists characterised by their lookup; merging = concatenating the member lists *)
Lemma al_run_fst {S X} (init:S) (f:S->X->S) items : forall gs,
  fst (al_run init f gs items) = fold_left (fun gs it => al_apply init f gs (fst it) (snd it)) items gs.
Proof.
  induction items as [|[k x] items IH]; intros gs; cbn; [reflexivity|].
  apply IH.
Qed.

(* ---------------------------------------------------------------- generic facts *)
Section Gen.
  Context {T X : Type}.
  Variable init : T.
  Variable f : T -> X -> T.

  Fixpoint lkp (k : row) (gs : list (row * T)) : option T :=
    match gs with
    | [] => None
    | (k0, s) :: gs' => if row_same k k0 then Some s else lkp k gs'
    end.

  Definition unw (o : option T) : T := match o with Some s => s | None => init end.

  Lemma lkp_apply gs k x k' :
    lkp k' (al_apply init f gs k x) =
    if row_same k' k then Some (f (unw (lkp k gs)) x) else lkp k' gs.
  Proof.
    induction gs as [|[k0 s0] gs IH]; cbn.
    - reflexivity.
    - destruct (row_same k k0) eqn:E1; cbn.
      + apply row_same_eq in E1. subst k0. destruct (row_same k' k); reflexivity.
      + rewrite IH. destruct (row_same k' k0) eqn:E2; destruct (row_same k' k) eqn:E3; try reflexivity.
        apply row_same_eq in E2. apply row_same_eq in E3. subst.
        rewrite row_same_refl in E1. discriminate.
  Qed.

  Lemma keys_apply gs k x k' :
    In k' (map fst (al_apply init f gs k x)) <-> In k' (map fst gs) \/ k' = k.
  Proof.
    induction gs as [|[k0 s0] gs IH]; cbn.
    - split; intros H; [destruct H as [H|[]]; right; congruence | destruct H as [[]|H]; left; congruence].
    - destruct (row_same k k0) eqn:E1; cbn.
      + apply row_same_eq in E1. subst k0. split; intros H.
        * left. exact H.
        * destruct H as [H|H]; [exact H|]. left. congruence.
      + rewrite IH. tauto.
  Qed.

  Lemma nodup_apply gs k x : NoDup (map fst gs) -> NoDup (map fst (al_apply init f gs k x)).
  Proof.
    induction gs as [|[k0 s0] gs IH]; cbn; intros H.
    - constructor; [intros []|constructor].
    - inversion H as [|a l Hn Hd]; subst.
      destruct (row_same k k0) eqn:E1; cbn.
      + constructor; assumption.
      + constructor; [|apply IH; exact Hd].
        rewrite keys_apply. intros [Hi|He]; [exact (Hn Hi)|].
        subst. rewrite row_same_refl in E1. discriminate.
  Qed.

  Lemma nodup_run items : forall gs, NoDup (map fst gs) -> NoDup (map fst (fst (al_run init f gs items))).
  Proof.
    induction items as [|[k x] items IH]; intros gs H; cbn; [exact H|].
    apply IH. apply nodup_apply. exact H.
  Qed.

  Lemma lkp_none k gs : ~ In k (map fst gs) -> lkp k gs = None.
  Proof.
    induction gs as [|[k0 s0] gs IH]; cbn; intros H; [reflexivity|].
    destruct (row_same k k0) eqn:E.
    - apply row_same_eq in E. exfalso. apply H. left. congruence.
    - apply IH. intros Hi. apply H. right. exact Hi.
  Qed.

  Lemma lkp_in gs : NoDup (map fst gs) -> forall k s, In (k, s) gs <-> lkp k gs = Some s.
  Proof.
    induction gs as [|[k0 s0] gs IH]; cbn; intros H k s.
    - split; [intros []|discriminate].
    - inversion H as [|a l Hn Hd]; subst.
      destruct (row_same k k0) eqn:E.
      + apply row_same_eq in E. subst k0. split; intros H1.
        * destruct H1 as [H1|H1]; [congruence|].
          exfalso. apply Hn. apply (in_map fst) in H1. exact H1.
        * left. congruence.
      + apply row_same_false in E. rewrite <- (IH Hd). split; intros H1.
        * destruct H1 as [H1|H1]; [|exact H1]. exfalso. apply E. congruence.
        * right. exact H1.
  Qed.

  Lemma apply_notin a k x : ~ In k (map fst a) -> al_apply init f a k x = a ++ [(k, f init x)].
  Proof.
    induction a as [|[k0 s0] a IH]; cbn; intros H; [reflexivity|].
    destruct (row_same k k0) eqn:E.
    - apply row_same_eq in E. exfalso. apply H. left. congruence.
    - f_equal. apply IH. intros Hi. apply H. right. exact Hi.
  Qed.
End Gen.

Lemma NoDup_app_disj {A} (l1 l2 : list A) :
  NoDup l1 -> NoDup l2 -> (forall x, In x l1 -> In x l2 -> False) -> NoDup (l1 ++ l2).
Proof.
  induction l1 as [|a l1 IH]; cbn; intros H1 H2 Hd; [exact H2|].
  inversion H1 as [|a' l' Hn Hd1]; subst.
  constructor.
  - rewrite in_app_iff. intros [Hi|Hi]; [exact (Hn Hi)|]. apply (Hd a); [left; reflexivity|exact Hi].
  - apply IH; [exact Hd1|exact H2|]. intros x Hx1 Hx2. apply (Hd x); [right; exact Hx1|exact Hx2].
Qed.

Lemma NoDup_concat_tagged {A} (tag : A -> nat) : forall (L : list (list A)) (off : nat),
  (forall j l, nth_error L j = Some l -> NoDup l /\ Forall (fun x => tag x = (off + j)%nat) l) ->
  NoDup (concat L).
Proof.
  induction L as [|l L IH]; intros off H; cbn; [constructor|].
  destruct (H 0%nat l eq_refl) as [Hn Hf].
  apply NoDup_app_disj.
  - exact Hn.
  - apply (IH (S off)). intros j l' Hj. destruct (H (S j) l' Hj) as [Hn' Hf'].
    split; [exact Hn'|]. eapply Forall_impl; [|exact Hf']. cbn. intros x Hx. lia.
  - intros x Hx1 Hx2. apply in_concat in Hx2. destruct Hx2 as [l' [Hl' Hx']].
    apply In_nth_error in Hl'. destruct Hl' as [j Hj].
    destruct (H (S j) l' Hj) as [_ Hf'].
    rewrite Forall_forall in Hf, Hf'.
    specialize (Hf x Hx1). specialize (Hf' x Hx'). lia.
Qed.

Section ListB.
  Variable V : Type.

  Definition updl (s : list V) (v : V) : list V := s ++ [v].
  Definition AL (items : list (row * V)) : list (row * list V) := fst (al_run [] updl [] items).
  Definition MG (a b : list (row * list V)) : list (row * list V) := fst (al_run [] (@app V) a b).
  Definition vals (k : row) (items : list (row * V)) : list V := map snd (filter (fun it => row_same k (fst it)) items).
  Definition Rep (gs : list (row * list V)) (items : list (row * V)) : Prop :=
    NoDup (map fst gs) /\ forall k s, In (k, s) gs <-> (s = vals k items /\ s <> []).

  Definition mk (l : list V) : option (list V) := match l with [] => None | _ => Some l end.

  Lemma mk_some l s : mk l = Some s <-> (s = l /\ s <> []).
  Proof.
    destruct l as [|v l]; cbn; split; intros H.
    - discriminate.
    - destruct H as [H1 H2]. congruence.
    - inversion H; subst. split; [reflexivity|discriminate].
    - destruct H as [H1 H2]. congruence.
  Qed.

  Lemma unw_mk l : unw [] (mk l) = l.
  Proof. destruct l; reflexivity. Qed.

  Lemma Rep_lkp gs items :
    Rep gs items <-> (NoDup (map fst gs) /\ forall k, lkp k gs = mk (vals k items)).
  Proof.
    unfold Rep. split; intros [Hn H]; split; try exact Hn.
    - intros k. destruct (lkp k gs) as [s|] eqn:E.
      + apply (lkp_in gs Hn) in E. apply H in E. symmetry. apply mk_some.
        destruct E as [E1 E2]. split; [exact E1|exact E2].
      + destruct (mk (vals k items)) as [s|] eqn:E2; [|reflexivity].
        apply mk_some in E2. assert (Hi : In (k, s) gs).
        { apply H. destruct E2 as [E2 E3]. split; [exact E2|exact E3]. }
        apply (lkp_in gs Hn) in Hi. congruence.
    - intros k s. rewrite (lkp_in gs Hn). rewrite H. rewrite mk_some. tauto.
  Qed.

  Lemma vals_app k a b : vals k (a ++ b) = vals k a ++ vals k b.
  Proof. unfold vals. rewrite filter_app, map_app. reflexivity. Qed.

  Lemma Rep_nil : Rep [] [].
  Proof. apply Rep_lkp. split; [constructor|]. intros k. reflexivity. Qed.

  Lemma Rep_step gs pre k v : Rep gs pre -> Rep (al_apply [] updl gs k v) (pre ++ [(k, v)]).
  Proof.
    rewrite !Rep_lkp. intros [Hn H]. split; [apply nodup_apply; exact Hn|].
    intros k'. rewrite lkp_apply. rewrite vals_app. rewrite H.
    unfold vals at 3. cbn [filter fst map snd].
    destruct (row_same k' k) eqn:E.
    - apply row_same_eq in E. subst k'. rewrite unw_mk. cbn [map snd]. unfold updl.
      destruct (vals k pre); reflexivity.
    - cbn [map]. rewrite app_nil_r. rewrite H. reflexivity.
  Qed.

  Lemma Rep_run items : forall gs pre, Rep gs pre -> Rep (fst (al_run [] updl gs items)) (pre ++ items).
  Proof.
    induction items as [|[k v] items IH]; intros gs pre H; cbn.
    - rewrite app_nil_r. exact H.
    - replace (pre ++ (k, v) :: items) with ((pre ++ [(k, v)]) ++ items)
        by (rewrite <- app_assoc; reflexivity).
      apply IH. apply Rep_step. exact H.
  Qed.

  Lemma Rep_AL items : Rep (AL items) items.
  Proof. unfold AL. apply (Rep_run items [] []). apply Rep_nil. Qed.

  Lemma lkp_MG b : forall a, NoDup (map fst b) -> forall k,
    lkp k (MG a b) = match lkp k b with Some s => Some (unw [] (lkp k a) ++ s) | None => lkp k a end.
  Proof.
    unfold MG. induction b as [|[k0 s0] b IH]; intros a Hn k; cbn; [reflexivity|].
    cbn in Hn. inversion Hn as [|x l Hni Hd]; subst.
    rewrite (IH _ Hd). rewrite lkp_apply.
    destruct (row_same k k0) eqn:E.
    - apply row_same_eq in E. subst k0. rewrite (lkp_none k b Hni). reflexivity.
    - reflexivity.
  Qed.

  Lemma Rep_MG a b ia ib : Rep a ia -> Rep b ib -> Rep (MG a b) (ia ++ ib).
  Proof.
    rewrite !Rep_lkp. intros [Hna Ha] [Hnb Hb]. split.
    - unfold MG. apply nodup_run. exact Hna.
    - intros k. rewrite (lkp_MG b a Hnb). rewrite Ha, Hb. rewrite vals_app.
      destruct (vals k ib) as [|v l]; cbn [mk].
      + rewrite app_nil_r. reflexivity.
      + rewrite unw_mk. destruct (vals k ia); reflexivity.
  Qed.

  Lemma run_app_disj b : forall a, NoDup (map fst (a ++ b)) -> fst (al_run [] (@app V) a b) = a ++ b.
  Proof.
    induction b as [|[k s] b IH]; intros a H; cbn.
    - rewrite app_nil_r. reflexivity.
    - rewrite apply_notin.
      + cbn [app]. rewrite IH; rewrite <- app_assoc; [reflexivity|exact H].
      + rewrite map_app in H. cbn in H. apply NoDup_remove_2 in H.
        intros Hi. apply H. apply in_or_app. left. exact Hi.
  Qed.

  Lemma MG_nil_l b : NoDup (map fst b) -> MG [] b = b.
  Proof. intros H. unfold MG. apply (run_app_disj b []). exact H. Qed.

  Lemma MG_nil_r a : MG a [] = a.
  Proof. reflexivity. Qed.

  Lemma Rep_fold_MG : forall (ls : list (list (row * list V))) (is : list (list (row * V))) a ia,
    Rep a ia -> Forall2 Rep ls is -> Rep (fold_left MG ls a) (ia ++ concat is).
  Proof.
    intros ls is a ia Ha HF. revert a ia Ha.
    induction HF as [|l i ls is Hl HF IH]; intros a ia Ha; cbn.
    - rewrite app_nil_r. exact Ha.
    - rewrite app_assoc. apply IH. apply Rep_MG; [exact Ha|exact Hl].
  Qed.

  Lemma vals_nonempty k l : vals k l <> [] -> exists it, In it l /\ fst it = k.
  Proof.
    unfold vals. induction l as [|it l IH]; cbn; intros H; [congruence|].
    destruct (row_same k (fst it)) eqn:E.
    - apply row_same_eq in E. exists it. split; [left; reflexivity|congruence].
    - destruct (IH H) as [it' [H1 H2]]. exists it'. split; [right; exact H1|exact H2].
  Qed.

  Lemma vals_filter_rt (rt : row -> nat) k items :
    vals k (filter (fun it => Nat.eqb (rt (fst it)) (rt k)) items) = vals k items.
  Proof.
    unfold vals. induction items as [|[k0 v] items IH]; cbn; [reflexivity|].
    destruct (row_same k k0) eqn:E.
    - apply row_same_eq in E. subst k0. rewrite Nat.eqb_refl. cbn.
      rewrite row_same_refl. cbn. f_equal. exact IH.
    - destruct (Nat.eqb (rt k0) (rt k)); cbn; [rewrite E|]; exact IH.
  Qed.

  Lemma Rep_rt (rt : row -> nat) j gs items :
    Rep gs (filter (fun it => Nat.eqb (rt (fst it)) j) items) ->
    Forall (fun g => rt (fst g) = j) gs.
  Proof.
    intros [Hn H]. apply Forall_forall. intros [k s] Hi. cbn.
    apply H in Hi. destruct Hi as [H1 H2]. subst s.
    apply vals_nonempty in H2. destruct H2 as [it [Hi Hk]].
    apply filter_In in Hi. destruct Hi as [_ Hi]. apply Nat.eqb_eq in Hi. congruence.
  Qed.

  Theorem outs_perm : forall (pout : nat) (rt : row -> nat), (forall k, (rt k < pout)%nat) ->
    forall (outs : list (list (row * list V))) (items : list (row * V)),
    length outs = pout ->
    (forall j gs, nth_error outs j = Some gs -> Rep gs (filter (fun it => Nat.eqb (rt (fst it)) j) items)) ->
    Permutation (concat outs) (AL items) /\
    (forall j gs, nth_error outs j = Some gs -> Forall (fun g => rt (fst g) = j) gs).
  Proof.
    intros pout rt Hrt outs items Hlen Hrep.
    assert (Htag : forall j gs, nth_error outs j = Some gs -> Forall (fun g => rt (fst g) = j) gs).
    { intros j gs Hj. eapply Rep_rt. apply Hrep. exact Hj. }
    split; [|exact Htag].
    apply NoDup_Permutation.
    - apply (NoDup_concat_tagged (fun g : row * list V => rt (fst g)) outs 0%nat).
      intros j l Hj. split.
      + destruct (Hrep j l Hj) as [Hn _]. apply NoDup_map_inv in Hn. exact Hn.
      + cbn. apply Htag. exact Hj.
    - destruct (Rep_AL items) as [Hn _]. apply NoDup_map_inv in Hn. exact Hn.
    - intros [k s]. destruct (Rep_AL items) as [_ HAL]. rewrite HAL. rewrite in_concat. split.
      + intros [gs [Hgs Hi]]. apply In_nth_error in Hgs. destruct Hgs as [j Hj].
        pose proof (Htag j gs Hj) as Hf. rewrite Forall_forall in Hf.
        specialize (Hf _ Hi). cbn in Hf. subst j.
        apply (Hrep _ _ Hj) in Hi. rewrite vals_filter_rt in Hi. exact Hi.
      + intros Hs. destruct (nth_error outs (rt k)) as [gs|] eqn:Hj.
        * exists gs. split; [eapply nth_error_In; exact Hj|].
          apply (Hrep _ _ Hj). rewrite vals_filter_rt. exact Hs.
        * apply nth_error_None in Hj. specialize (Hrt k). lia.
  Qed.
End ListB.

Lemma group_insert_apply k r gs : group_insert k r gs = al_apply [] (updl row) gs k r.
Proof.
  induction gs as [|[k0 rs] gs IH]; cbn; [reflexivity|].
  destruct (row_same k k0); [reflexivity|]. rewrite IH. reflexivity.
Qed.

Lemma group_rows_AL kv : group_rows kv = AL row kv.
Proof.
  unfold group_rows, AL. rewrite al_run_fst.
  generalize (@nil (row * list row)). induction kv as [|p kv IH]; intros gs; cbn; [reflexivity|].
  rewrite group_insert_apply. apply IH.
Qed.


(* ---------------------------------------------------------------- part B, table level *)

Lemma route_lt h pout : 1 <= pout -> route h pout < pout.
Proof.
  intros Hp. unfold route.
  assert (Hm : (h mod 2 ^ 64 < 2 ^ 64)%N) by (apply N.mod_lt; discriminate).
  assert (Hd : ((h mod 2 ^ 64) * N.of_nat pout / 2 ^ 64 < N.of_nat pout)%N).
  { apply N.div_lt_upper_bound; [discriminate|]. apply N.mul_lt_mono_pos_r; [lia|exact Hm]. }
  lia.
Qed.

Lemma mapi_from_ok {A B} (P : nat -> A -> B -> Prop) (g : nat -> A -> tres B) : forall l i,
  (forall j a, nth_error l j = Some a -> exists b, g (i + j) a = TOk b /\ P (i + j) a b) ->
  exists bs, mapi_from i g l = TOk bs /\ length bs = length l /\
             forall j b, nth_error bs j = Some b -> exists a, nth_error l j = Some a /\ P (i + j) a b.
Proof.
  induction l as [|a l IH]; intros i H.
  - exists []. cbn. split; [reflexivity|]. split; [reflexivity|]. intros [|j] b Hb; discriminate.
  - destruct (H 0 a eq_refl) as [b0 [Hg0 HP0]]. rewrite Nat.add_0_r in Hg0, HP0.
    destruct (IH (Datatypes.S i)) as [bs [Hm [Hlen Hbs]]].
    { intros j a' Ha'. replace (Datatypes.S i + j) with (i + Datatypes.S j) by lia. apply H. exact Ha'. }
    exists (b0 :: bs). cbn [mapi_from]. rewrite Hg0. cbn [tbind]. rewrite Hm. cbn [tbind].
    split; [reflexivity|]. split; [cbn; lia|].
    intros [|j] b Hb; cbn in Hb.
    + injection Hb as <-. exists a. rewrite Nat.add_0_r. auto.
    + destruct (Hbs j b Hb) as [a' [Ha' HP']]. exists a'. split; [exact Ha'|].
      replace (i + Datatypes.S j) with (Datatypes.S i + j) by lia. exact HP'.
Qed.

Lemma nth_rel_Forall2 {A B} (R : B -> A -> Prop) : forall (bs : list B) (l : list A),
  length bs = length l ->
  (forall j b, nth_error bs j = Some b -> exists a, nth_error l j = Some a /\ R b a) ->
  Forall2 R bs l.
Proof.
  induction bs as [|b bs IH]; intros [|a l] Hlen H; cbn in Hlen; try lia; constructor.
  - destruct (H 0 b eq_refl) as [a' [Ha' HR]]. cbn in Ha'. injection Ha' as <-. exact HR.
  - apply IH; [lia|]. intros j b' Hb'. apply (H (Datatypes.S j) b' Hb').
Qed.

Lemma chunks_concat {A} n : 1 <= n -> forall fuel (l : list A), length l <= fuel -> concat (chunks n l fuel) = l.
Proof.
  intros Hn. induction fuel as [|fu IH]; intros l Hl.
  - destruct l; [reflexivity|cbn in Hl; lia].
  - cbn [chunks]. destruct l as [|a l']; [reflexivity|]. set (l := a :: l') in *.
    cbn [concat]. rewrite IH; [apply firstn_skipn|]. rewrite skipn_length. lia.
Qed.

Lemma concat_map_filter {A} (p : A -> bool) : forall (ls : list (list A)),
  concat (map (filter p) ls) = filter p (concat ls).
Proof.
  induction ls as [|l ls IH]; [reflexivity|]. cbn [map concat]. rewrite filter_app, IH. reflexivity.
Qed.

Section TwoLevel.
  Variable hash : row -> N.
  Variable V : Type.
  Variable pout capacity chunk : nat.
  Hypothesis Hpout : 1 <= pout.
  Hypothesis Hchunk : 1 <= chunk.

  Notation St := (list V).
  Notation tinv := (Inv hash (list V)).
  Definition rtf (j : nat) (it : row * V) : bool := Nat.eqb (route (hash (fst it)) pout) j.

  (* the P_out local tables of one input partition after it has consumed `pre` *)
  Definition LT (pre : list (row * V)) (ts : list (table (list V))) : Prop :=
    length ts = pout /\
    forall j t, nth_error ts j = Some t -> tinv t /\ groups t = AL V (filter (rtf j) pre).

  Lemma insert_local_ok pre ts batch : LT pre ts ->
    exists ts', insert_local hash (list V) [] V (updl V) pout ts batch = TOk ts' /\ LT (pre ++ batch) ts'.
  Proof.
    intros [Hlen Hts]. unfold insert_local.
    destruct (mapi_from_ok
                (fun j (t t' : table (list V)) => tinv t' /\ groups t' = AL V (filter (rtf j) (pre ++ batch)))
                (fun j t => tbind (apply_batch hash (list V) [] V (updl V) t
                                     (filter (fun it => Nat.eqb (route (hash (fst it)) pout) j) batch))
                                  (fun r => TOk (fst r)))
                ts 0) as [ts' [Hm [Hlen' Hts']]].
    - intros j t Hj. cbn [Nat.add]. destruct (Hts j t Hj) as [HI Hg].
      destruct (apply_batch_ok hash (list V) [] V (updl V) t (filter (rtf j) batch) HI)
        as [t' [Hab [HI' [Hg' _]]]].
      exists t'. unfold rtf in Hab at 1. rewrite Hab. cbn [tbind fst]. split; [reflexivity|].
      split; [exact HI'|]. rewrite Hg', Hg. unfold AL. rewrite filter_app, al_run_app. reflexivity.
    - exists ts'. split; [exact Hm|]. split; [lia|].
      intros j t' Hj. destruct (Hts' j t' Hj) as [t [_ HP]]. exact HP.
  Qed.

  Lemma local_fold_ok : forall batches pre ts, LT pre ts ->
    exists ts', fold_left (fun acc b => tbind acc (fun ts => insert_local hash (list V) [] V (updl V) pout ts b))
                          batches (TOk ts) = TOk ts' /\ LT (pre ++ concat batches) ts'.
  Proof.
    induction batches as [|b batches IH]; intros pre ts HL.
    - exists ts. cbn. rewrite app_nil_r. auto.
    - destruct (insert_local_ok pre ts b HL) as [ts1 [Hi HL1]].
      cbn [fold_left tbind]. rewrite Hi.
      destruct (IH (pre ++ b) ts1 HL1) as [ts' [Hf HL']].
      exists ts'. split; [exact Hf|]. cbn [concat]. rewrite app_assoc. exact HL'.
  Qed.

  Lemma local_build_ok batches :
    exists ts, local_build hash (list V) [] V (updl V) pout capacity batches = TOk ts /\ LT (concat batches) ts.
  Proof.
    unfold local_build. apply (local_fold_ok batches []).
    split; [apply repeat_length|]. intros j t Hj. apply nth_error_In, repeat_spec in Hj. subst t.
    split; [apply Inv_table_new|]. reflexivity.
  Qed.

  Lemma merge_chunks_ok : forall cs t, tinv t ->
    exists t', fold_left (fun acc c => tbind acc (fun t => tbind (apply_batch hash (list V) [] (list V) (@app V) t c)
                                                                (fun r => TOk (fst r))))
                         cs (TOk t) = TOk t' /\
               tinv t' /\ groups t' = fst (al_run [] (@app V) (groups t) (concat cs)).
  Proof.
    induction cs as [|c cs IH]; intros t HI.
    - exists t. cbn. auto.
    - destruct (apply_batch_ok hash (list V) [] (list V) (@app V) t c HI) as [t1 [Hab [HI1 [Hg1 _]]]].
      cbn [fold_left tbind]. rewrite Hab. cbn [tbind fst].
      destruct (IH t1 HI1) as [t' [Hf [HI' Hg']]]. exists t'. split; [exact Hf|]. split; [exact HI'|].
      cbn [concat]. rewrite al_run_app. cbn [fst]. rewrite <- Hg1. exact Hg'.
  Qed.

  Lemma merge_from_ok dst src : tinv dst -> tinv src ->
    exists t, merge_from hash (list V) [] (@app V) chunk dst src = TOk t /\ tinv t /\
              groups t = MG V (groups dst) (groups src).
  Proof.
    intros Hd Hs. unfold merge_from, num_occupied.
    destruct (Nat.eqb_spec (length (groups dst)) 0) as [E0|E0].
    - exists src. split; [reflexivity|]. split; [exact Hs|].
      destruct (groups dst); [|discriminate]. symmetry. apply MG_nil_l. apply (inv_nodup _ _ _ Hs).
    - destruct (Nat.eqb_spec (length (groups src)) 0) as [E1|E1].
      + exists dst. split; [reflexivity|]. split; [exact Hd|].
        destruct (groups src); [|discriminate]. symmetry. apply MG_nil_r.
      + destruct (merge_chunks_ok (chunks chunk (groups src) (length (groups src))) dst Hd)
          as [t [Hf [HI Hg]]].
        exists t. split; [exact Hf|]. split; [exact HI|].
        rewrite chunks_concat in Hg by (auto; lia). exact Hg.
  Qed.

  Lemma merge_global_fold_ok j : j < pout -> forall others (Is : list (list (row * V))) g ia,
    Forall2 (fun ts I => LT I ts) others Is -> tinv g -> Rep V (groups g) ia ->
    exists t, fold_left (fun acc ts => tbind acc (fun g =>
                           match nth_error ts j with
                           | None => TErr TOob
                           | Some o => merge_from hash (list V) [] (@app V) chunk g o
                           end)) others (TOk g) = TOk t /\
              tinv t /\ Rep V (groups t) (ia ++ filter (rtf j) (concat Is)).
  Proof.
    intros Hj. induction others as [|ts others IH]; intros Is g ia HF HI HR.
    - inversion HF; subst. exists g. cbn. rewrite app_nil_r. auto.
    - inversion HF as [|ts0 I others0 Is' HL HF']; subst. destruct HL as [Hlen Hts].
      destruct (nth_error ts j) as [o|] eqn:Eo; [|apply nth_error_None in Eo; lia].
      destruct (Hts j o Eo) as [HIo Hgo].
      destruct (merge_from_ok g o HI HIo) as [g1 [Hm [HI1 Hg1]]].
      cbn [fold_left tbind]. rewrite Eo, Hm.
      destruct (IH Is' g1 (ia ++ filter (rtf j) I) HF' HI1) as [t [Hf [HIt HRt]]].
      { rewrite Hg1. apply Rep_MG; [exact HR|]. rewrite Hgo. apply Rep_AL. }
      exists t. split; [exact Hf|]. split; [exact HIt|].
      cbn [concat]. rewrite filter_app, app_assoc. exact HRt.
  Qed.

  Lemma merge_global_ok j locals (Is : list (list (row * V))) : j < pout -> locals <> [] ->
    Forall2 (fun ts I => LT I ts) locals Is ->
    exists t, merge_global hash (list V) [] (@app V) chunk j locals = TOk t /\ tinv t /\
              Rep V (groups t) (filter (rtf j) (concat Is)).
  Proof.
    intros Hj Hne HF. destruct locals as [|first others]; [contradiction|].
    inversion HF as [|ts0 I others0 Is' HL HF']; subst. destruct HL as [Hlen Hts].
    unfold merge_global.
    destruct (nth_error first j) as [g0|] eqn:Eg; [|apply nth_error_None in Eg; lia].
    destruct (Hts j g0 Eg) as [HI0 Hg0].
    destruct (merge_global_fold_ok j Hj others Is' g0 (filter (rtf j) I) HF' HI0) as [t [Hf [HIt HRt]]].
    { rewrite Hg0. apply Rep_AL. }
    exists t. split; [exact Hf|]. split; [exact HIt|]. cbn [concat]. rewrite filter_app. exact HRt.
  Qed.

  (* (B) routing by hash + per-partition merge loses no group, duplicates no group, and every group
     carries exactly its members in partition-major arrival order *)
  Theorem two_level_merge_exact : forall parts : list (list (list (row * V))), parts <> [] ->
    exists outs, two_level hash (list V) [] V (updl V) (@app V) pout capacity chunk parts = TOk outs /\
      length outs = pout /\
      Permutation (concat (map groups outs)) (AL V (concat (map (@concat _) parts))) /\
      (forall j t, nth_error outs j = Some t ->
                   Forall (fun g => route (hash (fst g)) pout = j) (groups t)) /\
      Forall tinv outs.
  Proof.
    intros parts Hne. unfold two_level.
    destruct (mapi_from_ok (fun (_ : nat) p ts => LT (concat p) ts)
                (fun (_ : nat) p => local_build hash (list V) [] V (updl V) pout capacity p) parts 0)
      as [locals [Hm [Hlen Hloc]]].
    { intros j p _. destruct (local_build_ok p) as [ts [Hb HL]]. exists ts. auto. }
    rewrite Hm. cbn [tbind].
    assert (HF : Forall2 (fun ts I => LT I ts) locals (map (@concat _) parts)).
    { apply nth_rel_Forall2; [rewrite map_length; exact Hlen|].
      intros j ts Hts. destruct (Hloc j ts Hts) as [p [Hp HL]]. exists (concat p).
      split; [apply map_nth_error, Hp|exact HL]. }
    assert (Hlne : locals <> []).
    { destruct locals; [|discriminate]. destruct parts; [contradiction|discriminate]. }
    set (items := concat (map (@concat _) parts)).
    destruct (mapi_from_ok (fun j (_ : unit) t => tinv t /\ Rep V (groups t) (filter (rtf j) items))
                (fun j (_ : unit) => merge_global hash (list V) [] (@app V) chunk j locals)
                (repeat tt pout) 0) as [outs [Hm2 [Hlen2 Houts]]].
    { intros j u Hu. cbn [Nat.add].
      assert (Hj : j < pout).
      { rewrite <- (repeat_length tt pout). apply nth_error_Some. rewrite Hu. discriminate. }
      destruct (merge_global_ok j locals _ Hj Hlne HF) as [t [Hmg [HI HR]]]. exists t. auto. }
    exists outs. split; [exact Hm2|]. rewrite repeat_length in Hlen2. split; [exact Hlen2|].
    destruct (outs_perm V pout (fun k => route (hash k) pout) (fun k => route_lt (hash k) pout Hpout)
                (map groups outs) items) as [Hperm Hfor].
    { rewrite map_length. exact Hlen2. }
    { intros j gs Hgs. rewrite nth_error_map in Hgs. destruct (nth_error outs j) as [t|] eqn:Ht; [|discriminate].
      cbn in Hgs. injection Hgs as <-.
      destruct (Houts j t Ht) as [_ [_ [_ HR]]]. exact HR. }
    split; [exact Hperm|]. split.
    - intros j t Ht. apply (Hfor j (groups t)). apply map_nth_error, Ht.
    - apply Forall_forall. intros t Ht. apply In_nth_error in Ht as [j Hj].
      destruct (Houts j t Hj) as [_ [_ [HI _]]]. exact HI.
  Qed.
End TwoLevel.

Print Assumptions two_level_merge_exact.

(* (B) for V := row, literally against Sql.group_rows *)
Corollary two_level_merge_exact_rows (hash : row -> N) (pout capacity chunk : nat) :
  1 <= pout -> 1 <= chunk -> forall parts : list (list (list (row * row))), parts <> [] ->
  exists outs, two_level hash (list row) [] row (updl row) (@app row) pout capacity chunk parts = TOk outs /\
    length outs = pout /\
    Permutation (concat (map groups outs)) (group_rows (concat (map (@concat _) parts))) /\
    (forall j t, nth_error outs j = Some t ->
                 Forall (fun g => route (hash (fst g)) pout = j) (groups t)).
Proof.
  intros Hp Hc parts Hne.
  destruct (two_level_merge_exact hash row pout capacity chunk Hp Hc parts Hne)
    as [outs [Hr [Hlen [Hperm [Hroute _]]]]].
  exists outs. rewrite group_rows_AL. auto.
Qed.
Print Assumptions two_level_merge_exact_rows.

Example two_level_hyps_sat : 1 <= 2 /\ 1 <= 1 /\ [[[([VInt 1], [VInt 1])]]] <> @nil (list (list (row * row))).
Proof. split; [lia|]. split; [lia|discriminate]. Qed.

(* ---------------------------------------------------------------- the ids handed out by al_run *)
Section AlIds.
  Context {St X : Type}.
  Variable init : St.
  Variable f : St -> X -> St.

  (* a new key gets the fresh id = number of groups so far *)
  Lemma al_id_fresh (gs : list (row * St)) k : ~ In k (map fst gs) -> al_id gs k = length gs.
  Proof.
    intros Hnin. unfold al_id. destruct (al_find gs k 0) as [j|] eqn:Ef; [|reflexivity].
    destruct (al_find_some init f _ _ _ _ Ef) as [g [st [_ [Hg _]]]]. exfalso. apply Hnin.
    apply nth_error_In in Hg. apply (in_map fst) in Hg. exact Hg.
  Qed.

  Lemma al_id_key (gs : list (row * St)) k x :
    nth_error (map fst (al_apply init f gs k x)) (al_id gs k) = Some k.
  Proof.
    unfold al_id. destruct (al_find gs k 0) as [j|] eqn:Ef.
    - destruct (al_find_some init f _ _ _ _ Ef) as [g [st [Hj [Hg Ha]]]]. cbn in Hj. subst j.
      rewrite Ha, (map_fst_set_nth k (f st x) _ _ st Hg). apply (map_nth_error fst _ _ Hg).
    - destruct (al_find_none init f _ _ _ Ef) as [_ Ha]. rewrite Ha, map_app.
      rewrite nth_error_app2 by (rewrite map_length; lia). rewrite map_length, Nat.sub_diag. reflexivity.
  Qed.

  Lemma al_apply_keys_ext (gs : list (row * St)) k x :
    exists suf, map fst (al_apply init f gs k x) = map fst gs ++ suf.
  Proof.
    destruct (al_find gs k 0) as [j|] eqn:Ef.
    - destruct (al_find_some init f _ _ _ _ Ef) as [g [st [_ [Hg Ha]]]]. exists [].
      rewrite Ha, (map_fst_set_nth k (f st x) _ _ st Hg), app_nil_r. reflexivity.
    - destruct (al_find_none init f _ _ _ Ef) as [_ Ha]. exists [k]. rewrite Ha, map_app. reflexivity.
  Qed.

  Lemma al_run_ids : forall items (gs : list (row * St)),
    (exists suf, map fst (fst (al_run init f gs items)) = map fst gs ++ suf) /\
    forall i k x, nth_error items i = Some (k, x) ->
      exists a, nth_error (snd (al_run init f gs items)) i = Some a /\
                nth_error (map fst (fst (al_run init f gs items))) a = Some k.
  Proof.
    induction items as [|[k0 x0] items IH]; intros gs.
    - split; [exists []; cbn; rewrite app_nil_r; reflexivity|]. intros [|i] k x Hi; discriminate.
    - cbn [al_run fst snd]. destruct (IH (al_apply init f gs k0 x0)) as [[suf' Hsuf'] Hids].
      destruct (al_apply_keys_ext gs k0 x0) as [suf1 Hsuf1]. split.
      + exists (suf1 ++ suf'). rewrite Hsuf', Hsuf1, app_assoc. reflexivity.
      + intros [|i] k x Hi; cbn in Hi.
        * injection Hi as <- <-. exists (al_id gs k0). split; [reflexivity|].
          pose proof (al_id_key gs k0 x0) as Hk. rewrite Hsuf', nth_error_app1; [exact Hk|].
          apply nth_error_Some. rewrite Hk. discriminate.
        * apply (Hids i k x Hi).
  Qed.

  (* two inserted keys get the same id iff they are row_same *)
  Theorem al_run_ids_same_iff : forall items i j ki xi kj xj,
    nth_error items i = Some (ki, xi) -> nth_error items j = Some (kj, xj) ->
    exists a b, nth_error (snd (al_run init f [] items)) i = Some a /\
                nth_error (snd (al_run init f [] items)) j = Some b /\
                (a = b <-> row_same ki kj = true).
  Proof.
    intros items i j ki xi kj xj Hi Hj.
    destruct (al_run_ids items []) as [_ Hids].
    destruct (Hids i ki xi Hi) as [a [Ha Hka]]. destruct (Hids j kj xj Hj) as [b [Hb Hkb]].
    exists a, b. split; [exact Ha|]. split; [exact Hb|].
    assert (Hnd : NoDup (map fst (fst (al_run init f [] items)))) by (apply nodup_run; constructor).
    split.
    - intros <-. rewrite Hka in Hkb. injection Hkb as <-. apply row_same_refl.
    - intros Hs. apply row_same_eq in Hs. subst kj.
      apply (proj1 (NoDup_nth_error _) Hnd); [apply nth_error_Some; rewrite Hka; discriminate|congruence].
  Qed.
End AlIds.
Print Assumptions al_run_ids_same_iff.

Example al_run_ids_hyps_sat :
  nth_error [([VInt 1], 5%Z); ([VInt 2], 6%Z); ([VInt 1], 7%Z)] 0 = Some ([VInt 1], 5%Z) /\
  nth_error [([VInt 1], 5%Z); ([VInt 2], 6%Z); ([VInt 1], 7%Z)] 2 = Some ([VInt 1], 7%Z) /\
  snd (al_run 0%Z Z.add [] [([VInt 1], 5%Z); ([VInt 2], 6%Z); ([VInt 1], 7%Z)]) = [0; 1; 0].
Proof. repeat split. Qed.

(* ---------------------------------------------------------------- running the concrete model *)
Definition ex_hash (r : row) : N :=
  match r with [VInt z] => (Z.to_N (z mod 4) * 4611686018427387904)%N | _ => 0%N end.
Definition ex_k (z : Z) : row := [VInt z].
Definition ex_show {St} (r : tres (table St * list nat)) :=
  match r with TOk (t, ids) => Some (groups t, ids, cap St t, entries t) | TErr _ => None end.

(* every key collides on slot 0 (hashes are multiples of 2^62); capacity 1 -> 8 -> 16 *)
Example ex_table_run :
  ex_show (table_run ex_hash Z 0%Z Z Z.add (table_new Z 1)
     [OpBatch Z [(ex_k 1, 10%Z); (ex_k 5, 20%Z); (ex_k 2, 30%Z); (ex_k 1, 40%Z)]; OpResize Z 3;
      OpBatch Z [(ex_k 5, 1%Z); (ex_k 3, 2%Z)]])
  = Some ([(ex_k 1, 50%Z); (ex_k 5, 21%Z); (ex_k 2, 30%Z); (ex_k 3, 2%Z)], [0; 1; 2; 0; 1; 3], 16,
          [Some (4611686018427387904%N, 0); Some (4611686018427387904%N, 1);
           Some (9223372036854775808%N, 2); Some (13835058055282163712%N, 3);
           None; None; None; None; None; None; None; None; None; None; None; None]).
Proof. vm_compute. reflexivity. Qed.

(* one row per batch from capacity 1: resizes 1 -> 2 -> 4 -> 8 -> 16, ids unaffected *)
Example ex_table_run_many_resizes :
  match table_run ex_hash Z 0%Z Z Z.add (table_new Z 0)
          (map (fun z => OpBatch Z [(ex_k z, z)]) [1; 2; 1; 3; 5; 0; 2; 7; 5]%Z) with
  | TOk (t, ids) => Some (groups t, ids, cap Z t)
  | TErr _ => None
  end
  = Some ([(ex_k 1, 2%Z); (ex_k 2, 4%Z); (ex_k 3, 3%Z); (ex_k 5, 10%Z); (ex_k 0, 0%Z); (ex_k 7, 7%Z)],
          [0; 1; 0; 2; 3; 4; 1; 5; 3], 16).
Proof. vm_compute. reflexivity. Qed.

Example ex_arith_hyps_sat : pow2N 8 /\ 7 < 8 /\ inc_wrap 7 8 = 0 /\ offset_of 13 8 = 5 /\
                            next_pow2 5 = 8 /\ next_pow2 0 = 1 /\ is_pow2 8 = true /\ is_pow2 6 = false.
Proof. split; [exists 3%N; reflexivity|]. split; [lia|]. repeat split. Qed.

Definition ex_parts : list (list (list (row * row))) :=
  [ [ [(ex_k 1, [VInt 100]); (ex_k 2, [VInt 101]); (ex_k 1, [VInt 102])];
      [(ex_k 3, [VInt 103]); (ex_k 5, [VInt 104])] ];
    [ [(ex_k 2, [VInt 200]); (ex_k 0, [VInt 201])]; []; [(ex_k 1, [VInt 202]); (ex_k 3, [VInt 203])] ];
    [ ] ].

(* 3 input partitions (one empty), 2 output partitions, initial capacity 1, merge chunk 1 *)
Example ex_two_level :
  match two_level ex_hash (list row) [] row (updl row) (@app row) 2 1 1 ex_parts with
  | TOk outs => Some (map groups outs)
  | TErr _ => None
  end
  = Some [ [(ex_k 1, [[VInt 100]; [VInt 102]; [VInt 202]]); (ex_k 5, [[VInt 104]]); (ex_k 0, [[VInt 201]])];
           [(ex_k 2, [[VInt 101]; [VInt 200]]); (ex_k 3, [[VInt 103]; [VInt 203]])] ].
Proof. vm_compute. reflexivity. Qed.

Example ex_two_level_spec :
  group_rows (concat (map (@concat _) ex_parts))
  = [(ex_k 1, [[VInt 100]; [VInt 102]; [VInt 202]]); (ex_k 2, [[VInt 101]; [VInt 200]]);
     (ex_k 3, [[VInt 103]; [VInt 203]]); (ex_k 5, [[VInt 104]]); (ex_k 0, [[VInt 201]])]
  /\ map (fun z => route (ex_hash (ex_k z)) 2) [0; 1; 2; 3; 5]%Z = [0; 0; 1; 1; 0].
Proof. vm_compute. split; reflexivity. Qed.

(* NOT proved here (not attempted, time box): (B) for an arbitrary payload S with `mrg init x = x`
   instead of S = list V / mrg = app; the table-level lemmas above (insert_local_ok .. merge_from_ok)
   do not depend on the payload beyond MG_nil_l, only the list-level `Rep` characterisation does. *)
