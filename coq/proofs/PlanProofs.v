(* C01 (composition): proofs about model/Plan.v.
   Part 1: mutual induction principle for Sql.v's expr/query/fromc; the planner is correct for every
           relation closed under bind (instantiated with equality for the planner that keeps ON whole and
           with "agree unless one side raises an error" for the planner with ON-condition extraction).
   Part 2: the ON-condition extraction (JoinConditionExtractor) at the level of rows.
   Part 3: physical plans refine logical plans; composition with the judge. *)
From Coq Require Import NArith ZArith List Bool Lia Permutation Btauto.
From GV Require Import lib.Bytes model.Sql model.Rel model.Plan.
From GV Require Import proofs.RelProofs.
Import ListNotations.
Local Open Scope nat_scope.

(* ================================================================ Part 1 *)

Definition optP {A} (P : A -> Prop) (o : option A) : Prop := match o with None => True | Some x => P x end.
Definition grpP (P : expr -> Prop) (g : option (list expr * list (aggfn * bool * expr))) : Prop :=
  match g with None => True | Some ka => Forall P (fst ka) /\ Forall (fun a => P (snd a)) (snd ka) end.

Section SqlInd.
  Variables (P : expr -> Prop) (Q : query -> Prop) (R : fromc -> Prop).
  Hypotheses
    (HConst : forall v, P (EConst v))
    (HCol : forall dd i, P (ECol dd i))
    (HCmp : forall op a b, P a -> P b -> P (ECmp op a b))
    (HDistinct : forall neg a b, P a -> P b -> P (EDistinct neg a b))
    (HAnd : forall a b, P a -> P b -> P (EAnd a b))
    (HOr : forall a b, P a -> P b -> P (EOr a b))
    (HNot : forall a, P a -> P (ENot a))
    (HIsNull : forall neg a, P a -> P (EIsNull neg a))
    (HArith : forall op w a b, P a -> P b -> P (EArith op w a b))
    (HNeg : forall w a, P a -> P (ENeg w a))
    (HCase : forall bs els, Forall (fun ct => P (fst ct) /\ P (snd ct)) bs -> P els -> P (ECase bs els))
    (HInList : forall neg a es, P a -> Forall P es -> P (EInList neg a es))
    (HExists : forall neg q, Q q -> P (EExists neg q))
    (HInSub : forall neg a q, P a -> Q q -> P (EInSub neg a q))
    (HScalar : forall q, Q q -> P (EScalar q))
    (HTable : forall t, Q (QTable t))
    (HValues : forall rows, Forall (Forall P) rows -> Q (QValues rows))
    (HSelect : forall f wh grp hav sel dis,
        optP R f -> optP P wh -> grpP P grp -> optP P hav ->
        Forall P sel ->
        Q (QSelect f wh grp hav sel dis))
    (HUnion : forall all a b, Q a -> Q b -> Q (QUnion all a b))
    (HOrder : forall q keys lim off, Q q -> Q (QOrderLimit q keys lim off))
    (HFQuery : forall q, Q q -> R (FQuery q))
    (HFJoin : forall k l r on la ra, R l -> R r -> optP P on ->
                                     R (FJoin k l r on la ra))
    (HFLateral : forall k l r on ra, R l -> Q r -> optP P on ->
                                     R (FLateral k l r on ra)).

  Fixpoint expr_ind3 (e : expr) : P e :=
    match e as e0 return P e0 with
    | EConst v => HConst v
    | ECol dd i => HCol dd i
    | ECmp op a b => HCmp op a b (expr_ind3 a) (expr_ind3 b)
    | EDistinct neg a b => HDistinct neg a b (expr_ind3 a) (expr_ind3 b)
    | EAnd a b => HAnd a b (expr_ind3 a) (expr_ind3 b)
    | EOr a b => HOr a b (expr_ind3 a) (expr_ind3 b)
    | ENot a => HNot a (expr_ind3 a)
    | EIsNull neg a => HIsNull neg a (expr_ind3 a)
    | EArith op w a b => HArith op w a b (expr_ind3 a) (expr_ind3 b)
    | ENeg w a => HNeg w a (expr_ind3 a)
    | ECase bs els =>
        HCase bs els
          ((fix go (l : list (expr * expr)) : Forall (fun ct => P (fst ct) /\ P (snd ct)) l :=
              match l with
              | [] => Forall_nil _
              | (c, t) :: l' => Forall_cons (c, t) (conj (expr_ind3 c) (expr_ind3 t)) (go l')
              end) bs)
          (expr_ind3 els)
    | EInList neg a es =>
        HInList neg a es (expr_ind3 a)
          ((fix go (l : list expr) : Forall P l :=
              match l with [] => Forall_nil _ | x :: l' => Forall_cons x (expr_ind3 x) (go l') end) es)
    | EExists neg q => HExists neg q (query_ind3 q)
    | EInSub neg a q => HInSub neg a q (expr_ind3 a) (query_ind3 q)
    | EScalar q => HScalar q (query_ind3 q)
    end
  with query_ind3 (q : query) : Q q :=
    match q as q0 return Q q0 with
    | QTable t => HTable t
    | QValues rows =>
        HValues rows
          ((fix go (l : list (list expr)) : Forall (Forall P) l :=
              match l with
              | [] => Forall_nil _
              | r :: l' =>
                  Forall_cons r
                    ((fix go2 (l2 : list expr) : Forall P l2 :=
                        match l2 with [] => Forall_nil _ | x :: l2' => Forall_cons x (expr_ind3 x) (go2 l2') end) r)
                    (go l')
              end) rows)
    | QSelect f wh grp hav sel dis =>
        HSelect f wh grp hav sel dis
          (match f as f0 return optP R f0 with
           | None => I | Some fc => from_ind3 fc end)
          (match wh as w0 return optP P w0 with
           | None => I | Some e => expr_ind3 e end)
          (match grp as g0 return grpP P g0 with
           | None => I
           | Some (keys, aggs) =>
               conj ((fix go (l : list expr) : Forall P l :=
                        match l with [] => Forall_nil _ | x :: l' => Forall_cons x (expr_ind3 x) (go l') end) keys)
                    ((fix go (l : list (aggfn * bool * expr)) : Forall (fun a => P (snd a)) l :=
                        match l with
                        | [] => Forall_nil _
                        | (fd, arg) :: l' => Forall_cons (fd, arg) (expr_ind3 arg) (go l')
                        end) aggs)
           end)
          (match hav as h0 return optP P h0 with
           | None => I | Some e => expr_ind3 e end)
          ((fix go (l : list expr) : Forall P l :=
              match l with [] => Forall_nil _ | x :: l' => Forall_cons x (expr_ind3 x) (go l') end) sel)
    | QUnion all a b => HUnion all a b (query_ind3 a) (query_ind3 b)
    | QOrderLimit q' keys lim off => HOrder q' keys lim off (query_ind3 q')
    end
  with from_ind3 (f : fromc) : R f :=
    match f as f0 return R f0 with
    | FQuery q => HFQuery q (query_ind3 q)
    | FJoin k l r on la ra =>
        HFJoin k l r on la ra (from_ind3 l) (from_ind3 r)
          (match on as o0 return optP P o0 with
           | None => I | Some e => expr_ind3 e end)
    | FLateral k l r on ra =>
        HFLateral k l r on ra (from_ind3 l) (query_ind3 r)
          (match on as o0 return optP P o0 with
           | None => I | Some e => expr_ind3 e end)
    end.

  Lemma sql_ind3 : (forall e, P e) /\ (forall q, Q q) /\ (forall f, R f).
  Proof. split; [exact expr_ind3|split; [exact query_ind3|exact from_ind3]]. Qed.
End SqlInd.

(* ---------------------------------------------------------------- small facts about res *)

Lemma bind_assoc {A B C} (x : res A) (f : A -> res B) (g : B -> res C) :
  bind (bind x f) g = bind x (fun a => bind (f a) g).
Proof. destruct x; reflexivity. Qed.

Lemma bind_ret {A} (x : res A) : bind x (fun a => Ok a) = x.
Proof. destruct x; reflexivity. Qed.

Lemma bind_ok {A B} (x : res A) (f : A -> res B) b :
  bind x f = Ok b -> exists a, x = Ok a /\ f a = Ok b.
Proof. destruct x as [a|e]; cbn [bind]; intros H; [eauto|discriminate]. Qed.

Lemma mapM_map {A B C} (f : B -> res C) (g : A -> B) l : mapM f (map g l) = mapM (fun x => f (g x)) l.
Proof.
  induction l as [|x l IH]; [reflexivity|]. cbn [map]. rewrite !mapM_cons, IH. reflexivity.
Qed.

Lemma mapM_ext_in {A B} (f g : A -> res B) l : (forall x, In x l -> f x = g x) -> mapM f l = mapM g l.
Proof.
  induction l as [|x l IH]; intros H; [reflexivity|].
  rewrite !mapM_cons, (H x (or_introl eq_refl)), IH; [reflexivity|].
  intros y Hy. apply H. right. exact Hy.
Qed.

Lemma mapM_singletons {A} (l : list A) :
  mapM (fun r => Ok [r]) l = Ok (map (fun r => [r]) l).
Proof. apply mapM_total. reflexivity. Qed.

Lemma concat_singletons {A} (l : list A) : concat (map (fun r => [r]) l) = l.
Proof. induction l as [|x l IH]; [reflexivity|]. cbn. rewrite IH. reflexivity. Qed.

(* ---------------------------------------------------------------- relations closed under bind *)

Definition agree {A} (x y : res A) : Prop := forall a b, x = Ok a -> y = Ok b -> a = b.

Lemma agree_refl {A} (x : res A) : agree x x.
Proof. intros a b Ha Hb. congruence. Qed.

Lemma agree_bind {A B} (x y : res A) (f g : A -> res B) :
  agree x y -> (forall a, x = Ok a -> y = Ok a -> agree (f a) (g a)) -> agree (bind x f) (bind y g).
Proof.
  intros Hxy Hfg u v Hu Hv.
  destruct (bind_ok _ _ _ Hu) as [a [Ha Hfa]]. destruct (bind_ok _ _ _ Hv) as [b [Hb Hgb]].
  pose proof (Hxy a b Ha Hb) as E. subst b. exact (Hfg a Ha Hb u v Hfa Hgb).
Qed.

Lemma eq_bind {A B} (x y : res A) (f g : A -> res B) :
  x = y -> (forall a, x = Ok a -> y = Ok a -> f a = g a) -> bind x f = bind y g.
Proof. intros <- H. destruct x as [a|e]; cbn [bind]; [apply H; reflexivity|reflexivity]. Qed.

Lemma filter_none_id (F : row -> expr -> res value) (X : res (list row)) :
  (do src <- X;
   do kept <- mapM (fun r => do b <- opt_pred (F r) None; Ok (if b then [r] else [])) src;
   Ok (concat kept)) = X.
Proof.
  destruct X as [src|e]; [|reflexivity]. cbn [bind opt_pred].
  rewrite (mapM_total _ (fun r => [r])) by reflexivity. cbn [bind]. rewrite concat_singletons. reflexivity.
Qed.

(* Sql.eval_query of a SELECT block, stage by stage *)
Definition sel_src (d : db) (en : env) (f : option fromc) : res (list row) :=
  match f with None => Ok [[]] | Some fc => eval_from d en fc end.
Definition sel_where (d : db) (en : env) (f : option fromc) (wh : option expr) : res (list row) :=
  do src <- sel_src d en f;
  do kept <- mapM (fun r => do b <- opt_pred (eval_expr d (r :: en)) wh; Ok (if b then [r] else [])) src;
  Ok (concat kept).
Definition sel_aggregate (d : db) (en : env) (keys : list expr) (aggs : list (aggfn * bool * expr)) (rows : list row)
  : res (list row) :=
  do kv <- mapM (fun r => do k <- mapM (eval_expr d (r :: en)) keys; Ok (k, r)) rows;
  let groups := match keys, group_rows kv with [], [] => [([], [])] | _, g => g end in
  mapM (fun g =>
          do avs <- mapM (fun a => match a with (fn, dis0, arg) =>
                            do vs <- mapM (fun r => eval_expr d (r :: en) arg) (snd g);
                            agg_apply fn dis0 (length (snd g)) vs end) aggs;
          Ok (fst g ++ avs)) groups.
Definition sel_group (d : db) (en : env) (grp : option (list expr * list (aggfn * bool * expr))) (hav : option expr)
    (rows : list row) : res (list row) :=
  match grp with
  | None => Ok rows
  | Some (keys, aggs) =>
      do grows <- sel_aggregate d en keys aggs rows;
      do hk <- mapM (fun r => do b <- opt_pred (eval_expr d (r :: en)) hav; Ok (if b then [r] else [])) grows;
      Ok (concat hk)
  end.

Lemma eval_select_staged d en f wh grp hav sel dis :
  eval_query d en (QSelect f wh grp hav sel dis)
  = (do rows2 <- bind (sel_where d en f wh) (sel_group d en grp hav);
     do out <- mapM (fun r => mapM (eval_expr d (r :: en)) sel) rows2;
     Ok (if dis then dedup_rows out else out)).
Proof.
  cbn [eval_query]. unfold sel_where, sel_src. rewrite !bind_assoc.
  assert (X : exists src0, src0 = match f with Some fc => eval_from d en fc | None => Ok [[]] end) by eauto.
  destruct X as [src0 Hx]. destruct f as [fc|]; rewrite <- !Hx; clear Hx; (destruct src0 as [src|er]; [|reflexivity]);
  cbn [bind]; rewrite !bind_assoc;
  (destruct (mapM (fun r => do b <- opt_pred (eval_expr d (r :: en)) wh; Ok (if b then [r] else [])) src) as [kept|er];
    [|reflexivity]);
  cbn [bind]; cbv zeta; unfold sel_group; (destruct grp as [[keys aggs]|]; [|reflexivity]);
  unfold sel_aggregate; rewrite !bind_assoc;
  (destruct (mapM (fun r => do k <- mapM (eval_expr d (r :: en)) keys; Ok (k, r)) (concat kept)) as [kv|er];
    [cbn [bind]; cbv zeta; rewrite ?bind_assoc; reflexivity|reflexivity]).
Qed.

Lemma sel_group_some d en keys aggs hav (X : res (list row)) :
  bind X (sel_group d en (Some (keys, aggs)) hav)
  = (do grows <- bind X (sel_aggregate d en keys aggs);
     do hk <- mapM (fun r => do b <- opt_pred (eval_expr d (r :: en)) hav; Ok (if b then [r] else [])) grows;
     Ok (concat hk)).
Proof. unfold sel_group. rewrite bind_assoc. reflexivity. Qed.

Lemma sel_group_none d en hav (X : res (list row)) : bind X (sel_group d en None hav) = X.
Proof. unfold sel_group. apply bind_ret. Qed.

Section Generic.
  Variable rel : forall A : Type, res A -> res A -> Prop.
  Arguments rel {A}.
  Hypothesis rel_refl : forall A (x : res A), rel x x.
  Hypothesis rel_bind : forall A B (x y : res A) (f g : A -> res B),
    rel x y -> (forall a, x = Ok a -> y = Ok a -> rel (f a) (g a)) -> rel (bind x f) (bind y g).

  Lemma rel_eq {A} (x y : res A) : x = y -> rel x y.
  Proof. intros ->. apply rel_refl. Qed.

  Lemma rel_bind1 {A B} (x y : res A) (f : A -> res B) : rel x y -> rel (bind x f) (bind y f).
  Proof. intros H. apply rel_bind; [exact H|]. intros. apply rel_refl. Qed.

  Lemma rel_mapM {A B} (f g : A -> res B) l :
    (forall x, In x l -> rel (f x) (g x)) -> rel (mapM f l) (mapM g l).
  Proof.
    induction l as [|x l IH]; intros H; [apply rel_refl|].
    rewrite !mapM_cons. apply rel_bind; [apply H; left; reflexivity|]. intros y _ _.
    apply rel_bind1. apply IH. intros z Hz. apply H. right. exact Hz.
  Qed.

  Lemma rel_mapM_map {A A' B} (h : A -> A') (f : A' -> res B) (g : A -> res B) l :
    (forall x, In x l -> rel (f (h x)) (g x)) -> rel (mapM f (map h l)) (mapM g l).
  Proof. intros H. rewrite mapM_map. apply rel_mapM. exact H. Qed.

  Lemma rel_join_rows k L R la ra (on on' : row -> res bool) :
    (forall x, rel (on x) (on' x)) -> rel (join_rows k L R la ra on) (join_rows k L R la ra on').
  Proof.
    intros H. destruct k; unfold join_rows.
    - apply rel_bind1. apply rel_mapM. intros l _. apply rel_bind1. apply rel_mapM. intros r _. apply rel_bind1. apply H.
    - apply rel_bind1. apply rel_mapM. intros l _. apply rel_bind1. apply rel_mapM. intros r _. apply rel_bind1. apply H.
    - apply rel_bind1. apply rel_mapM. intros l _. apply rel_bind1. apply rel_mapM. intros r _. apply rel_bind1. apply H.
    - apply rel_bind1. apply rel_mapM. intros r _. apply rel_bind1. apply rel_mapM. intros l _. apply rel_bind1. apply H.
    - apply rel_bind1. apply rel_mapM. intros l _. apply rel_bind1. apply rel_mapM. intros r _. apply H.
    - apply rel_bind1. apply rel_mapM. intros l _. apply rel_bind1. apply rel_mapM. intros r _. apply H.
  Qed.

  (* ---- the planner, for any way `mkjoin` of building a JOIN ... ON node that is `rel`-correct ---- *)
  Variable mkjoin : jkind -> pexpr -> nat -> nat -> lplan -> lplan -> lplan.
  Variable wfj : fromc -> fromc -> expr -> nat -> nat -> bool.
  Variable Wd : db -> Prop.

  Hypothesis Hjoin : forall d en k e la ra fl fr pl pr,
    Wd d -> wfj fl fr e la ra = true ->
    rel (eval_lplan d en pl) (eval_from d en fl) ->
    rel (eval_lplan d en pr) (eval_from d en fr) ->
    (forall x, rel (eval_pexpr d (x :: en) (plan_expr mkjoin e)) (eval_expr d (x :: en) e)) ->
    rel (eval_lplan d en (mkjoin k (plan_expr mkjoin e) la ra pl pr))
        (eval_from d en (FJoin k fl fr (Some e) la ra)).

  Let PE (e : expr) : Prop := wf_expr wfj e = true ->
    forall d en, Wd d -> rel (eval_pexpr d en (plan_expr mkjoin e)) (eval_expr d en e).
  Let PQ (q : query) : Prop := wf_query wfj q = true ->
    forall d en, Wd d -> rel (eval_lplan d en (plan_query mkjoin q)) (eval_query d en q).
  Let PF (f : fromc) : Prop := wf_from wfj f = true ->
    forall d en, Wd d -> rel (eval_lplan d en (plan_from mkjoin f)) (eval_from d en f).

  Lemma forallb_Forall_imp {A} (P : A -> Prop) (f : A -> bool) l :
    Forall (fun x => f x = true -> P x) l -> forallb f l = true -> Forall P l.
  Proof.
    induction 1 as [|x l Hx Hl IH]; intros Hb; [constructor|].
    cbn [forallb] in Hb. apply andb_true_iff in Hb. destruct Hb as [H1 H2]. constructor; [apply Hx, H1|apply IH, H2].
  Qed.

  Lemma rel_collapse {A} (x y : res value) (f : value -> res A) : rel x y -> rel (bind x f) (bind y f).
  Proof. apply rel_bind1. Qed.

  Lemma pe_case d en bs els :
    Forall (fun ct => rel (eval_pexpr d en (plan_expr mkjoin (fst ct))) (eval_expr d en (fst ct)) /\
                      rel (eval_pexpr d en (plan_expr mkjoin (snd ct))) (eval_expr d en (snd ct))) bs ->
    rel (eval_pexpr d en (plan_expr mkjoin els)) (eval_expr d en els) ->
    rel (eval_pexpr d en (plan_expr mkjoin (ECase bs els))) (eval_expr d en (ECase bs els)).
  Proof.
    intros Hbs Hels. cbn [plan_expr eval_pexpr eval_expr].
    induction Hbs as [|[c t] bs [Hc Ht] Hbs IH]; [exact Hels|].
    cbn [map]. cbn [fst snd] in Hc, Ht.
    apply rel_bind; [exact Hc|]. intros cv _ _. destruct (is_true cv); [exact Ht|exact IH].
  Qed.

  Theorem plan_gen_correct : (forall e, PE e) /\ (forall q, PQ q) /\ (forall f, PF f).
  Proof.
    apply sql_ind3; unfold PE, PQ, PF.
    - (* EConst *) intros v _ d en _. apply rel_refl.
    - (* ECol *) intros dd i _ d en _. apply rel_refl.
    - (* ECmp *) intros op a b IHa IHb Hw d en Hd. cbn [wf_expr] in Hw. apply andb_true_iff in Hw. destruct Hw as [Ha Hb].
      cbn [plan_expr eval_pexpr eval_expr]. apply rel_bind; [apply IHa; assumption|]. intros x _ _.
      apply rel_bind1. apply IHb; assumption.
    - (* EDistinct *) intros neg a b IHa IHb Hw d en Hd. cbn [wf_expr] in Hw. apply andb_true_iff in Hw. destruct Hw as [Ha Hb].
      cbn [plan_expr eval_pexpr eval_expr]. apply rel_bind; [apply IHa; assumption|]. intros x _ _.
      apply rel_bind1. apply IHb; assumption.
    - (* EAnd *) intros a b IHa IHb Hw d en Hd. cbn [wf_expr] in Hw. apply andb_true_iff in Hw. destruct Hw as [Ha Hb].
      cbn [plan_expr eval_pexpr eval_expr]. apply rel_bind; [apply IHa; assumption|]. intros x _ _.
      apply rel_bind1. apply IHb; assumption.
    - (* EOr *) intros a b IHa IHb Hw d en Hd. cbn [wf_expr] in Hw. apply andb_true_iff in Hw. destruct Hw as [Ha Hb].
      cbn [plan_expr eval_pexpr eval_expr]. apply rel_bind; [apply IHa; assumption|]. intros x _ _.
      apply rel_bind1. apply IHb; assumption.
    - (* ENot *) intros a IHa Hw d en Hd. cbn [wf_expr] in Hw.
      cbn [plan_expr eval_pexpr eval_expr]. apply rel_bind1. apply IHa; assumption.
    - (* EIsNull *) intros neg a IHa Hw d en Hd. cbn [wf_expr] in Hw.
      cbn [plan_expr eval_pexpr eval_expr]. apply rel_bind1. apply IHa; assumption.
    - (* EArith *) intros op w a b IHa IHb Hw d en Hd. cbn [wf_expr] in Hw. apply andb_true_iff in Hw. destruct Hw as [Ha Hb].
      cbn [plan_expr eval_pexpr eval_expr]. apply rel_bind; [apply IHa; assumption|]. intros x _ _.
      apply rel_bind1. apply IHb; assumption.
    - (* ENeg *) intros w a IHa Hw d en Hd. cbn [wf_expr] in Hw.
      cbn [plan_expr eval_pexpr eval_expr]. apply rel_bind1. apply IHa; assumption.
    - (* ECase *) intros bs els IHbs IHels Hw d en Hd. cbn [wf_expr] in Hw. apply andb_true_iff in Hw. destruct Hw as [Hb He].
      apply pe_case; [|apply IHels; assumption].
      clear IHels He. induction IHbs as [|[c t] bs [Hc Ht] _ IH]; [constructor|].
      cbn [forallb] in Hb. apply andb_true_iff in Hb. destruct Hb as [Hct Hb]. apply andb_true_iff in Hct. destruct Hct as [Hwc Hwt].
      constructor; [|apply IH, Hb]. cbn [fst snd] in *. split; [apply Hc|apply Ht]; assumption.
    - (* EInList *) intros neg a es IHa IHes Hw d en Hd. cbn [wf_expr] in Hw. apply andb_true_iff in Hw. destruct Hw as [Ha Hes].
      cbn [plan_expr eval_pexpr eval_expr]. apply rel_bind; [apply IHa; assumption|]. intros x _ _.
      apply rel_bind1. apply rel_mapM_map. intros y Hy.
      rewrite Forall_forall in IHes. rewrite forallb_forall in Hes. apply IHes; [exact Hy|apply Hes, Hy|exact Hd].
    - (* EExists *) intros neg q IHq Hw d en Hd. cbn [wf_expr] in Hw.
      cbn [plan_expr eval_pexpr eval_expr]. apply rel_bind1. apply IHq; assumption.
    - (* EInSub *) intros neg a q IHa IHq Hw d en Hd. cbn [wf_expr] in Hw. apply andb_true_iff in Hw. destruct Hw as [Ha Hq].
      cbn [plan_expr eval_pexpr eval_expr]. apply rel_bind; [apply IHa; assumption|]. intros x _ _.
      apply rel_bind1. apply IHq; assumption.
    - (* EScalar *) intros q IHq Hw d en Hd. cbn [wf_expr] in Hw.
      cbn [plan_expr eval_pexpr eval_expr]. apply rel_bind1. apply IHq; assumption.
    - (* QTable *) intros t _ d en _. apply rel_refl.
    - (* QValues *) intros rows IH Hw d en Hd. cbn [wf_query] in Hw.
      cbn [plan_query eval_lplan eval_query]. apply rel_mapM_map. intros r Hr.
      apply rel_mapM_map. intros e He.
      rewrite Forall_forall in IH. specialize (IH r Hr). rewrite Forall_forall in IH.
      rewrite forallb_forall in Hw. specialize (Hw r Hr). rewrite forallb_forall in Hw.
      apply IH; [exact He|apply Hw, He|exact Hd].
    - (* QSelect *)
      intros f wh grp hav sel dis IHf IHwh IHgrp IHhav IHsel Hw d en Hd.
      cbn [wf_query] in Hw. repeat (apply andb_true_iff in Hw; destruct Hw as [Hw ?Hw']).
      rename Hw into Hwf, Hw' into Hwsel, Hw'0 into Hwhav, Hw'1 into Hwgrp, Hw'2 into Hwwh.
      rewrite eval_select_staged. cbn [plan_query].
      (* stage 0: FROM *)
      set (p0 := match f with None => LSingleRow | Some fc => plan_from mkjoin fc end).
      assert (H0 : rel (eval_lplan d en p0) (sel_src d en f)).
      { subst p0. unfold sel_src. destruct f as [fc|]; [apply IHf; assumption|apply rel_refl]. }
      (* stage 1: WHERE *)
      set (p1 := match wh with None => p0 | Some e => LFilter (plan_expr mkjoin e) p0 end).
      assert (H1 : rel (eval_lplan d en p1) (sel_where d en f wh)).
      { subst p1. unfold sel_where. destruct wh as [e|].
        - cbn [eval_lplan]. apply rel_bind; [exact H0|]. intros src _ _. unfold rfilter.
          apply rel_bind1. apply rel_mapM. intros r _. apply rel_bind1.
          cbn [opt_pred]. apply rel_bind1. apply IHwh; assumption.
        - rewrite (filter_none_id (fun r => eval_expr d (r :: en))). exact H0. }
      (* stage 2: GROUP BY + HAVING *)
      set (p2 := match grp with
                 | None => p1
                 | Some (keys, aggs) =>
                     let a := LAggregate (map (plan_expr mkjoin) keys)
                                (map (fun x => match x with (fn, dis0, arg) => (fn, dis0, plan_expr mkjoin arg) end) aggs) p1 in
                     match hav with None => a | Some e => LFilter (plan_expr mkjoin e) a end
                 end).
      assert (H2 : rel (eval_lplan d en p2) (bind (sel_where d en f wh) (sel_group d en grp hav))).
      { subst p2. destruct grp as [[keys aggs]|].
        - cbn [grpP fst snd] in IHgrp. destruct IHgrp as [IHk IHa].
          apply andb_true_iff in Hwgrp. destruct Hwgrp as [Hwk Hwa].
          rewrite Forall_forall in IHk, IHa. rewrite forallb_forall in Hwk, Hwa.
          assert (HA : rel (eval_lplan d en (LAggregate (map (plan_expr mkjoin) keys)
                              (map (fun x => match x with (fn, dis0, arg) => (fn, dis0, plan_expr mkjoin arg) end) aggs) p1))
                           (bind (sel_where d en f wh) (sel_aggregate d en keys aggs))).
          { cbn [eval_lplan]. apply rel_bind; [exact H1|]. intros rows _ _. unfold ragg, sel_aggregate.
            apply rel_bind.
            - apply rel_mapM. intros r _. apply rel_bind1. apply rel_mapM_map. intros e He.
              apply IHk; [exact He|apply Hwk, He|exact Hd].
            - intros kv _ _.
              assert (Eg : match (match map (plan_expr mkjoin) keys with [] => true | _ :: _ => false end), group_rows kv with
                           | true, [] => [([], [])] | _, g => g end
                         = match keys, group_rows kv with [], [] => [([], [])] | _, g => g end).
              { destruct keys; reflexivity. }
              cbv zeta. rewrite Eg. apply rel_mapM. intros g _. unfold agg_row.
              apply rel_bind1. rewrite !mapM_map. apply rel_mapM. intros [[fn dis0] arg] Ha. cbv beta iota.
              apply rel_bind1. apply rel_mapM. intros r _.
              apply (IHa (fn, dis0, arg) Ha); [exact (Hwa _ Ha)|exact Hd]. }
          cbv zeta. rewrite sel_group_some.
          destruct hav as [e|].
          + cbn [eval_lplan]. unfold rfilter. apply rel_bind; [exact HA|]. intros grows _ _.
            apply rel_bind1. apply rel_mapM. intros r _. apply rel_bind1. cbn [opt_pred]. apply rel_bind1.
            apply IHhav; assumption.
          + assert (E : (do grows <- bind (sel_where d en f wh) (sel_aggregate d en keys aggs);
                         do hk <- mapM (fun r => do b <- opt_pred (eval_expr d (r :: en)) None; Ok (if b then [r] else [])) grows;
                         Ok (concat hk))
                        = bind (sel_where d en f wh) (sel_aggregate d en keys aggs)).
            { apply (filter_none_id (fun r => eval_expr d (r :: en))). }
            rewrite E. exact HA.
        - rewrite sel_group_none. exact H1. }
      (* stage 3: projection, DISTINCT *)
      assert (Hproj : forall rows2, rel (rproject (fun r => mapM (eval_pexpr d (r :: en)) (map (plan_expr mkjoin) sel)) rows2)
                                        (mapM (fun r => mapM (eval_expr d (r :: en)) sel) rows2)).
      { intros rows2. unfold rproject.
        apply rel_mapM. intros r _. apply rel_mapM_map. intros e He.
        rewrite Forall_forall in IHsel. rewrite forallb_forall in Hwsel. apply IHsel; [exact He|apply Hwsel, He|exact Hd]. }
      destruct dis.
      + cbn [eval_lplan]. rewrite bind_assoc. apply rel_bind; [exact H2|]. intros rows2 _ _.
        unfold rdistinct. apply rel_bind1. apply Hproj.
      + cbn [eval_lplan]. apply rel_bind; [exact H2|]. intros rows2 _ _. rewrite bind_ret. apply Hproj.
    - (* QUnion *) intros all a b IHa IHb Hw d en Hd. cbn [wf_query] in Hw. apply andb_true_iff in Hw. destruct Hw as [Ha Hb].
      cbn [plan_query eval_lplan eval_query]. apply rel_bind; [apply IHa; assumption|]. intros x _ _.
      apply rel_bind1. apply IHb; assumption.
    - (* QOrderLimit *) intros q keys lim off IHq Hw d en Hd. cbn [wf_query] in Hw.
      cbn [plan_query eval_query].
      assert (Ho : rel (eval_lplan d en (match keys with [] => plan_query mkjoin q | _ :: _ => LOrder keys (plan_query mkjoin q) end))
                       (do rows <- eval_query d en q; Ok (sort_by keys rows))).
      { destruct keys as [|k0 ks].
        - assert (E : (do rows <- eval_query d en q; Ok (sort_by [] rows)) = eval_query d en q).
          { destruct (eval_query d en q) as [rows|er]; [|reflexivity]. cbn [bind]. f_equal.
            unfold sort_by. induction rows as [|r rows IH]; [reflexivity|]. cbn [fold_right]. rewrite IH.
            destruct rows; reflexivity. }
          rewrite E. apply IHq; assumption.
        - cbn [eval_lplan]. unfold rsort. apply rel_bind1. apply IHq; assumption. }
      assert (El : (do rows <- eval_query d en q; Ok (slice_rows off lim (sort_by keys rows)))
                   = (do s <- (do rows <- eval_query d en q; Ok (sort_by keys rows)); Ok (slice_rows off lim s))).
      { rewrite bind_assoc. reflexivity. }
      rewrite El.
      destruct lim as [n|]; [|destruct off as [|off]].
      + cbn [eval_lplan]. unfold rlimit. apply rel_bind1. exact Ho.
      + assert (E0 : (do s <- (do rows <- eval_query d en q; Ok (sort_by keys rows)); Ok (slice_rows 0 None s))
                     = (do rows <- eval_query d en q; Ok (sort_by keys rows))).
        { rewrite bind_assoc. destruct (eval_query d en q); reflexivity. }
        rewrite E0. exact Ho.
      + cbn [eval_lplan]. unfold rlimit. apply rel_bind1. exact Ho.
    - (* FQuery *) intros q IHq Hw d en Hd. cbn [wf_from] in Hw. cbn [plan_from eval_from].
      destruct q; cbn [eval_lplan]; apply IHq; assumption.
    - (* FJoin *) intros k l r on la ra IHl IHr IHon Hw d en Hd. cbn [wf_from] in Hw.
      apply andb_true_iff in Hw. destruct Hw as [Hw Hon]. apply andb_true_iff in Hw. destruct Hw as [Hl Hr].
      destruct on as [e|].
      + apply andb_true_iff in Hon. destruct Hon as [He Hj]. cbn [plan_from].
        apply Hjoin; try assumption; [apply IHl; assumption|apply IHr; assumption|].
        intros x. apply IHon; assumption.
      + cbn [plan_from eval_from]. destruct (is_inner k) eqn:Ek.
        * cbn [eval_lplan]. apply rel_bind; [apply IHl; assumption|]. intros L _ _.
          apply rel_bind; [apply IHr; assumption|]. intros R _ _. apply rel_eq. cbn [opt_pred].
          symmetry. change (join_rows k L R la ra (fun _ => Ok true)) with (rjoin k L R la ra (fun _ => Ok true)).
          rewrite rjoin_total by (intros x y _ _; eauto).
          rewrite (rcross_is_cross_join la ra). destruct k; try discriminate Ek; reflexivity.
        * cbn [eval_lplan]. apply rel_bind; [apply IHl; assumption|]. intros L _ _.
          apply rel_bind; [apply IHr; assumption|]. intros R _ _. apply rel_refl.
    - (* FLateral *) intros k l r on ra IHl IHr IHon Hw d en Hd. cbn [wf_from] in Hw.
      apply andb_true_iff in Hw. destruct Hw as [Hw Hon]. apply andb_true_iff in Hw. destruct Hw as [Hl Hr].
      cbn [plan_from eval_lplan eval_from]. apply rel_bind; [apply IHl; assumption|]. intros L _ _.
      apply rel_bind1. apply rel_mapM. intros lr _. apply rel_bind; [apply IHr; assumption|]. intros R _ _.
      unfold rjoin. apply rel_join_rows. intros x. destruct on as [e|]; cbn [option_map opt_pred].
      * apply rel_bind1. apply IHon; assumption.
      * apply rel_refl.
  Qed.
End Generic.


(* ---------------------------------------------------------------- instance 1: ON kept whole, equality *)

Definition wf_any : fromc -> fromc -> expr -> nat -> nat -> bool := fun _ _ _ _ _ => true.

Lemma wf_trivial :
  (forall e, wf_expr wf_any e = true) /\ (forall q, wf_query wf_any q = true) /\ (forall f, wf_from wf_any f = true).
Proof.
  apply sql_ind3.
  - reflexivity.
  - reflexivity.
  - intros op a b Ha Hb. change (wf_expr wf_any a && wf_expr wf_any b = true). rewrite Ha, Hb. reflexivity.
  - intros neg a b Ha Hb. change (wf_expr wf_any a && wf_expr wf_any b = true). rewrite Ha, Hb. reflexivity.
  - intros a b Ha Hb. change (wf_expr wf_any a && wf_expr wf_any b = true). rewrite Ha, Hb. reflexivity.
  - intros a b Ha Hb. change (wf_expr wf_any a && wf_expr wf_any b = true). rewrite Ha, Hb. reflexivity.
  - intros a Ha. exact Ha.
  - intros neg a Ha. exact Ha.
  - intros op w a b Ha Hb. change (wf_expr wf_any a && wf_expr wf_any b = true). rewrite Ha, Hb. reflexivity.
  - intros w a Ha. exact Ha.
  - intros bs els Hbs Hels.
    change (forallb (fun ct => match ct with (c, t) => wf_expr wf_any c && wf_expr wf_any t end) bs && wf_expr wf_any els = true).
    rewrite Hels, andb_true_r. apply forallb_forall. intros [c t] Hin. rewrite Forall_forall in Hbs.
    destruct (Hbs _ Hin) as [Hc Ht]. cbn [fst snd] in *. rewrite Hc, Ht. reflexivity.
  - intros neg a es Ha Hes. change (wf_expr wf_any a && forallb (wf_expr wf_any) es = true). rewrite Ha. cbn [andb].
    apply forallb_forall. rewrite Forall_forall in Hes. exact Hes.
  - intros neg q Hq. exact Hq.
  - intros neg a q Ha Hq. change (wf_expr wf_any a && wf_query wf_any q = true). rewrite Ha, Hq. reflexivity.
  - intros q Hq. exact Hq.
  - reflexivity.
  - intros rows H. change (forallb (forallb (wf_expr wf_any)) rows = true).
    apply forallb_forall. intros r Hr. apply forallb_forall. rewrite Forall_forall in H.
    specialize (H r Hr). rewrite Forall_forall in H. exact H.
  - intros f wh grp hav sel dis H H0 H1 H2 H3.
    change (match f with Some fc => wf_from wf_any fc | None => true end
            && match wh with Some e => wf_expr wf_any e | None => true end
            && match grp with
               | Some (keys, aggs) => forallb (wf_expr wf_any) keys &&
                      forallb (fun a => match a with (_, _, arg) => wf_expr wf_any arg end) aggs
               | None => true end
            && match hav with Some e => wf_expr wf_any e | None => true end
            && forallb (wf_expr wf_any) sel = true).
    assert (E1 : match f with Some fc => wf_from wf_any fc | None => true end = true)
      by (destruct f; [exact H|reflexivity]).
    assert (E2 : match wh with Some e => wf_expr wf_any e | None => true end = true)
      by (destruct wh; [exact H0|reflexivity]).
    assert (E4 : match hav with Some e => wf_expr wf_any e | None => true end = true)
      by (destruct hav; [exact H2|reflexivity]).
    assert (E3 : match grp with
                 | Some (keys, aggs) => forallb (wf_expr wf_any) keys &&
                      forallb (fun a => match a with (_, _, arg) => wf_expr wf_any arg end) aggs
                 | None => true end = true).
    { destruct grp as [[keys aggs]|]; [|reflexivity]. cbn [grpP fst snd] in H1. destruct H1 as [Hk Ha].
      rewrite Forall_forall in Hk, Ha. apply andb_true_iff. split; apply forallb_forall.
      - exact Hk.
      - intros [[fn dis0] arg] Hin. exact (Ha _ Hin). }
    rewrite E1, E2, E3, E4. cbn [andb]. apply forallb_forall. rewrite Forall_forall in H3. exact H3.
  - intros all a b Ha Hb. change (wf_query wf_any a && wf_query wf_any b = true). rewrite Ha, Hb. reflexivity.
  - intros q keys lim off Hq. exact Hq.
  - intros q Hq. exact Hq.
  - intros k l r on la ra Hl Hr Hon.
    change (wf_from wf_any l && wf_from wf_any r && match on with Some e => wf_expr wf_any e && true | None => true end = true).
    rewrite Hl, Hr. destruct on as [e|]; [|reflexivity]. cbn [optP] in Hon. rewrite Hon. reflexivity.
  - intros k l r on ra Hl Hr Hon.
    change (wf_from wf_any l && wf_query wf_any r && match on with Some e => wf_expr wf_any e | None => true end = true).
    rewrite Hl, Hr. destruct on as [e|]; [|reflexivity]. cbn [optP] in Hon. rewrite Hon. reflexivity.
Qed.

Theorem plan0_correct : forall d en q, eval_lplan d en (plan0_of q) = eval_query d en q.
Proof.
  intros d en q.
  pose proof (plan_gen_correct (fun A x y => x = y) (fun A x => eq_refl) (@eq_bind)
                whole_join wf_any (fun _ => True)) as G.
  cbv beta in G.
  assert (Hj : forall d en k e la ra fl fr pl pr, True -> true = true ->
     eval_lplan d en pl = eval_from d en fl -> eval_lplan d en pr = eval_from d en fr ->
     (forall x, eval_pexpr d (x :: en) (plan_expr whole_join e) = eval_expr d (x :: en) e) ->
     eval_lplan d en (whole_join k (plan_expr whole_join e) la ra pl pr) = eval_from d en (FJoin k fl fr (Some e) la ra)).
  { clear. intros d en k e la ra fl fr pl pr _ _ Hl Hr He. unfold whole_join. cbn [eval_lplan eval_from].
    rewrite Hl, Hr. apply eq_bind; [reflexivity|]. intros L _ _. apply eq_bind; [reflexivity|]. intros R _ _.
    unfold rjoin.
    apply (rel_join_rows (fun A x y => x = y) (fun A x => eq_refl) (@eq_bind)).
    intros x. cbn [opt_pred]. rewrite He. reflexivity. }
  destruct (G Hj) as [_ [GQ _]]. apply GQ; [apply wf_trivial|exact I].
Qed.


(* ================================================================ Part 2: the ON-condition extraction *)

(* induction over the expression structure of a pexpr (plans inside subquery expressions are opaque) *)
Section PexprInd.
  Variable P : pexpr -> Prop.
  Hypotheses
    (HConst : forall v, P (PConst v))
    (HCol : forall dd i, P (PCol dd i))
    (HCmp : forall op a b, P a -> P b -> P (PCmp op a b))
    (HDistinct : forall neg a b, P a -> P b -> P (PDistinct neg a b))
    (HAnd : forall a b, P a -> P b -> P (PAnd a b))
    (HOr : forall a b, P a -> P b -> P (POr a b))
    (HNot : forall a, P a -> P (PNot a))
    (HIsNull : forall neg a, P a -> P (PIsNull neg a))
    (HArith : forall op w a b, P a -> P b -> P (PArith op w a b))
    (HNeg : forall w a, P a -> P (PNeg w a))
    (HCase : forall bs els, Forall (fun ct => P (fst ct) /\ P (snd ct)) bs -> P els -> P (PCase bs els))
    (HInList : forall neg a es, P a -> Forall P es -> P (PInList neg a es))
    (HExists : forall neg l, P (PExists neg l))
    (HInSub : forall neg a l, P a -> P (PInSub neg a l))
    (HScalar : forall l, P (PScalar l)).

  Fixpoint pexpr_ind2 (e : pexpr) : P e :=
    match e as e0 return P e0 with
    | PConst v => HConst v
    | PCol dd i => HCol dd i
    | PCmp op a b => HCmp op a b (pexpr_ind2 a) (pexpr_ind2 b)
    | PDistinct neg a b => HDistinct neg a b (pexpr_ind2 a) (pexpr_ind2 b)
    | PAnd a b => HAnd a b (pexpr_ind2 a) (pexpr_ind2 b)
    | POr a b => HOr a b (pexpr_ind2 a) (pexpr_ind2 b)
    | PNot a => HNot a (pexpr_ind2 a)
    | PIsNull neg a => HIsNull neg a (pexpr_ind2 a)
    | PArith op w a b => HArith op w a b (pexpr_ind2 a) (pexpr_ind2 b)
    | PNeg w a => HNeg w a (pexpr_ind2 a)
    | PCase bs els =>
        HCase bs els
          ((fix go (l : list (pexpr * pexpr)) : Forall (fun ct => P (fst ct) /\ P (snd ct)) l :=
              match l with
              | [] => Forall_nil _
              | (c, t) :: l' => Forall_cons (c, t) (conj (pexpr_ind2 c) (pexpr_ind2 t)) (go l')
              end) bs)
          (pexpr_ind2 els)
    | PInList neg a es =>
        HInList neg a es (pexpr_ind2 a)
          ((fix go (l : list pexpr) : Forall P l :=
              match l with [] => Forall_nil _ | x :: l' => Forall_cons x (pexpr_ind2 x) (go l') end) es)
    | PExists neg l => HExists neg l
    | PInSub neg a l => HInSub neg a l (pexpr_ind2 a)
    | PScalar l => HScalar l
    end.
End PexprInd.

(* ---------------------------------------------------------------- locality of one-sided expressions *)

Definition leftish (s : side) : bool := match s with SLeft | SNone => true | _ => false end.
Definition rightish (s : side) : bool := match s with SRight | SNone => true | _ => false end.

Lemma side_combine_leftish a b : leftish (side_combine a b) = leftish a && leftish b.
Proof. destruct a, b; reflexivity. Qed.
Lemma side_combine_rightish a b : rightish (side_combine a b) = rightish a && rightish b.
Proof. destruct a, b; reflexivity. Qed.

Lemma case_side_ish (ish : side -> bool) la bs s0 :
  (forall a b, ish (side_combine a b) = ish a && ish b) ->
  ish (fold_right (fun ct s => match ct with (c, t) => side_combine (side_combine (expr_side la c) (expr_side la t)) s end) s0 bs)
  = forallb (fun ct => ish (expr_side la (fst ct)) && ish (expr_side la (snd ct))) bs && ish s0.
Proof.
  intros H. induction bs as [|[c t] bs IH]; [reflexivity|]. cbn [fold_right forallb fst snd].
  rewrite !H, IH. btauto.
Qed.

Lemma list_side_ish (ish : side -> bool) la es s0 :
  (forall a b, ish (side_combine a b) = ish a && ish b) ->
  ish (fold_right (fun x s => side_combine (expr_side la x) s) s0 es)
  = forallb (fun x => ish (expr_side la x)) es && ish s0.
Proof.
  intros H. induction es as [|x es IH]; [reflexivity|]. cbn [fold_right forallb]. rewrite H, IH. btauto.
Qed.

Lemma eval_case_ext d en en' bs bs' els els' :
  Forall2 (fun ct ct' => eval_pexpr d en (fst ct) = eval_pexpr d en' (fst ct') /\
                         eval_pexpr d en (snd ct) = eval_pexpr d en' (snd ct')) bs bs' ->
  eval_pexpr d en els = eval_pexpr d en' els' ->
  eval_pexpr d en (PCase bs els) = eval_pexpr d en' (PCase bs' els').
Proof.
  intros Hbs Hels. cbn [eval_pexpr]. induction Hbs as [|[c t] [c' t'] bs bs' [Hc Ht] _ IH]; [exact Hels|].
  cbn [fst snd] in Hc, Ht. rewrite Hc. destruct (eval_pexpr d en' c') as [cv|e]; cbn [bind]; [|reflexivity].
  destruct (is_true cv); [exact Ht|exact IH].
Qed.

Section Locality.
  Variables (d : db) (en : env) (la : nat) (l r : row).
  Hypothesis Hlen : length l = la.

  Lemma loc_left : forall e, leftish (expr_side la e) = true ->
    eval_pexpr d ((l ++ r) :: en) e = eval_pexpr d (l :: en) e.
  Proof.
    apply (pexpr_ind2 (fun e => leftish (expr_side la e) = true ->
                        eval_pexpr d ((l ++ r) :: en) e = eval_pexpr d (l :: en) e)).
    - reflexivity.
    - intros [|dd] i H; cbn [expr_side] in H.
      + destruct (Nat.ltb i la) eqn:E; [|discriminate]. apply Nat.ltb_lt in E.
        cbn [eval_pexpr nth_error]. rewrite nth_error_app1 by lia. reflexivity.
      + discriminate.
    - intros op a b IHa IHb H. cbn [expr_side] in H. rewrite side_combine_leftish in H. apply andb_true_iff in H.
      cbn [eval_pexpr]. rewrite IHa, IHb by tauto. reflexivity.
    - intros neg a b IHa IHb H. cbn [expr_side] in H. rewrite side_combine_leftish in H. apply andb_true_iff in H.
      cbn [eval_pexpr]. rewrite IHa, IHb by tauto. reflexivity.
    - intros a b IHa IHb H. cbn [expr_side] in H. rewrite side_combine_leftish in H. apply andb_true_iff in H.
      cbn [eval_pexpr]. rewrite IHa, IHb by tauto. reflexivity.
    - intros a b IHa IHb H. cbn [expr_side] in H. rewrite side_combine_leftish in H. apply andb_true_iff in H.
      cbn [eval_pexpr]. rewrite IHa, IHb by tauto. reflexivity.
    - intros a IHa H. cbn [expr_side] in H. cbn [eval_pexpr]. rewrite IHa by exact H. reflexivity.
    - intros neg a IHa H. cbn [expr_side] in H. cbn [eval_pexpr]. rewrite IHa by exact H. reflexivity.
    - intros op w a b IHa IHb H. cbn [expr_side] in H. rewrite side_combine_leftish in H. apply andb_true_iff in H.
      cbn [eval_pexpr]. rewrite IHa, IHb by tauto. reflexivity.
    - intros w a IHa H. cbn [expr_side] in H. cbn [eval_pexpr]. rewrite IHa by exact H. reflexivity.
    - intros bs els IHbs IHels H. cbn [expr_side] in H.
      rewrite (case_side_ish leftish la bs _ side_combine_leftish) in H. apply andb_true_iff in H. destruct H as [Hb He].
      apply eval_case_ext; [|apply IHels, He].
      clear IHels He. induction IHbs as [|[c t] bs [Hc Ht] _ IH]; [constructor|].
      cbn [forallb fst snd] in Hb. apply andb_true_iff in Hb. destruct Hb as [Hct Hb]. apply andb_true_iff in Hct.
      constructor; [|apply IH, Hb]. cbn [fst snd] in *. split; [apply Hc|apply Ht]; tauto.
    - intros neg a es IHa IHes H. cbn [expr_side] in H.
      rewrite (list_side_ish leftish la es _ side_combine_leftish) in H. apply andb_true_iff in H. destruct H as [Hes Ha].
      cbn [eval_pexpr]. rewrite IHa by exact Ha.
      rewrite (mapM_ext_in (eval_pexpr d ((l ++ r) :: en)) (eval_pexpr d (l :: en)) es); [reflexivity|].
      intros x Hx. rewrite Forall_forall in IHes. rewrite forallb_forall in Hes. apply IHes; [exact Hx|apply Hes, Hx].
    - intros neg p H. discriminate H.
    - intros neg a p _ H. discriminate H.
    - intros p H. discriminate H.
  Qed.

  Lemma loc_right : forall e, rightish (expr_side la e) = true ->
    eval_pexpr d ((l ++ r) :: en) e = eval_pexpr d (r :: en) (shift_cols la e).
  Proof.
    apply (pexpr_ind2 (fun e => rightish (expr_side la e) = true ->
                        eval_pexpr d ((l ++ r) :: en) e = eval_pexpr d (r :: en) (shift_cols la e))).
    - reflexivity.
    - intros [|dd] i H; cbn [expr_side] in H.
      + destruct (Nat.ltb i la) eqn:E; [discriminate|]. apply Nat.ltb_ge in E.
        cbn [shift_cols eval_pexpr nth_error]. rewrite nth_error_app2 by lia. rewrite Hlen. reflexivity.
      + discriminate.
    - intros op a b IHa IHb H. cbn [expr_side] in H. rewrite side_combine_rightish in H. apply andb_true_iff in H.
      cbn [shift_cols eval_pexpr]. rewrite IHa, IHb by tauto. reflexivity.
    - intros neg a b IHa IHb H. cbn [expr_side] in H. rewrite side_combine_rightish in H. apply andb_true_iff in H.
      cbn [shift_cols eval_pexpr]. rewrite IHa, IHb by tauto. reflexivity.
    - intros a b IHa IHb H. cbn [expr_side] in H. rewrite side_combine_rightish in H. apply andb_true_iff in H.
      cbn [shift_cols eval_pexpr]. rewrite IHa, IHb by tauto. reflexivity.
    - intros a b IHa IHb H. cbn [expr_side] in H. rewrite side_combine_rightish in H. apply andb_true_iff in H.
      cbn [shift_cols eval_pexpr]. rewrite IHa, IHb by tauto. reflexivity.
    - intros a IHa H. cbn [expr_side] in H. cbn [shift_cols eval_pexpr]. rewrite IHa by exact H. reflexivity.
    - intros neg a IHa H. cbn [expr_side] in H. cbn [shift_cols eval_pexpr]. rewrite IHa by exact H. reflexivity.
    - intros op w a b IHa IHb H. cbn [expr_side] in H. rewrite side_combine_rightish in H. apply andb_true_iff in H.
      cbn [shift_cols eval_pexpr]. rewrite IHa, IHb by tauto. reflexivity.
    - intros w a IHa H. cbn [expr_side] in H. cbn [shift_cols eval_pexpr]. rewrite IHa by exact H. reflexivity.
    - intros bs els IHbs IHels H. cbn [expr_side] in H.
      rewrite (case_side_ish rightish la bs _ side_combine_rightish) in H. apply andb_true_iff in H. destruct H as [Hb He].
      cbn [shift_cols]. apply eval_case_ext; [|apply IHels, He].
      clear IHels He. induction IHbs as [|[c t] bs [Hc Ht] _ IH]; [constructor|].
      cbn [forallb fst snd] in Hb. apply andb_true_iff in Hb. destruct Hb as [Hct Hb]. apply andb_true_iff in Hct.
      cbn [map]. constructor; [|apply IH, Hb]. cbn [fst snd] in *. split; [apply Hc|apply Ht]; tauto.
    - intros neg a es IHa IHes H. cbn [expr_side] in H.
      rewrite (list_side_ish rightish la es _ side_combine_rightish) in H. apply andb_true_iff in H. destruct H as [Hes Ha].
      cbn [shift_cols eval_pexpr]. rewrite IHa by exact Ha. rewrite mapM_map.
      rewrite (mapM_ext_in (eval_pexpr d ((l ++ r) :: en)) (fun x => eval_pexpr d (r :: en) (shift_cols la x)) es); [reflexivity|].
      intros x Hx. rewrite Forall_forall in IHes. rewrite forallb_forall in Hes. apply IHes; [exact Hx|apply Hes, Hx].
    - intros neg p H. discriminate H.
    - intros neg a p _ H. discriminate H.
    - intros p H. discriminate H.
  Qed.
End Locality.

(* ---------------------------------------------------------------- conjunctions *)

(* the collapsed value of a condition on the row x in the environment en *)
Definition cv (d : db) (en : env) (c : pexpr) : row -> res bool :=
  fun x => do v <- eval_pexpr d (x :: en) c; collapse3 v.
Definition cvs (d : db) (en : env) (es : list pexpr) : row -> res bool :=
  fun x => do bs <- mapM (fun e => cv d en e x) es; Ok (all_true bs).

Section Conj.
  Variables (d : db) (en : env).
  Notation cvd := (cv d en).
  Notation Qv x := (fun f => pure_of (cvd f) x).

  Lemma cv_and a b x t :
    cvd (PAnd a b) x = Ok t -> exists ta tb, cvd a x = Ok ta /\ cvd b x = Ok tb /\ t = ta && tb.
  Proof.
    unfold cv. cbn [eval_pexpr].
    destruct (eval_pexpr d (x :: en) a) as [va|ea]; cbn [bind]; [|discriminate].
    destruct (eval_pexpr d (x :: en) b) as [vb|eb]; cbn [bind]; [|discriminate].
    destruct va as [|[|]|za|sa], vb as [|[|]|zb|sb]; cbn; intros H; try discriminate H;
      injection H as <-; eexists; eexists; repeat split; reflexivity.
  Qed.

  Lemma cv_split x : forall c t, cvd c x = Ok t ->
    (forall ci, In ci (split_conj c) -> exists ti, cvd ci x = Ok ti) /\
    t = forallb (Qv x) (split_conj c).
  Proof.
    assert (Triv : forall c t, split_conj c = [c] -> cvd c x = Ok t ->
              (forall ci, In ci (split_conj c) -> exists ti, cvd ci x = Ok ti) /\ t = forallb (Qv x) (split_conj c)).
    { intros c t E H. rewrite E. split.
      - intros ci [<-|[]]. eauto.
      - cbn [forallb]. unfold pure_of. rewrite H. cbn [unres]. rewrite andb_true_r. reflexivity. }
    apply (pexpr_ind2 (fun c => forall t, cvd c x = Ok t ->
              (forall ci, In ci (split_conj c) -> exists ti, cvd ci x = Ok ti) /\ t = forallb (Qv x) (split_conj c)));
      intros; try (apply Triv; [reflexivity|assumption]).
    (* PAnd *)
    destruct (cv_and _ _ _ _ H1) as [ta [tb [Ha [Hb ->]]]].
    destruct (H _ Ha) as [Ta ->]. destruct (H0 _ Hb) as [Tb ->]. cbn [split_conj]. split.
    - intros ci Hin. apply in_app_or in Hin. destruct Hin; eauto.
    - rewrite forallb_app. reflexivity.
  Qed.

  Lemma cv_and_all x : forall fs t, cvd (and_all fs) x = Ok t ->
    (forall f, In f fs -> exists ti, cvd f x = Ok ti) /\ t = forallb (Qv x) fs.
  Proof.
    induction fs as [|f fs IH]; intros t H.
    - cbn in H. injection H as <-. split; [intros f []|reflexivity].
    - destruct fs as [|g fs].
      + cbn [and_all] in H. split.
        * intros f' [<-|[]]. eauto.
        * cbn [forallb]. unfold pure_of. rewrite H. cbn [unres]. rewrite andb_true_r. reflexivity.
      + change (and_all (f :: g :: fs)) with (PAnd f (and_all (g :: fs))) in H.
        destruct (cv_and _ _ _ _ H) as [ta [tb [Ha [Hb ->]]]].
        destruct (IH _ Hb) as [Tb ->]. split.
        * intros f' [<-|Hin]; [eauto|apply Tb, Hin].
        * cbn [forallb]. assert (E : pure_of (cv d en f) x = ta) by (unfold pure_of; rewrite Ha; reflexivity).
          rewrite E. reflexivity.
  Qed.

  Lemma cvs_ok es x t : cvs d en es x = Ok t ->
    (forall e, In e es -> exists ti, cvd e x = Ok ti) /\ t = forallb (Qv x) es.
  Proof.
    unfold cvs. intros H. destruct (bind_ok _ _ _ H) as [bs [Hm Hb]]. injection Hb as <-. split.
    - intros e He. exact (mapM_ok_total _ _ _ Hm e He).
    - rewrite (mapM_ok_map _ false _ _ Hm). unfold all_true. clear. induction es as [|e es IH]; [reflexivity|].
      cbn [map forallb]. rewrite IH. reflexivity.
  Qed.
End Conj.

(* ---------------------------------------------------------------- the classification is a partition *)

Definition xall (Qf : pexpr -> bool) (x : extracted) : bool :=
  forallb Qf (x_lf x) && forallb Qf (x_rf x) && forallb Qf (x_arb x) && forallb (fun cm => Qf (cmp_expr cm)) (x_cmp x).

Section Classify.
  Variable Qf : pexpr -> bool.
  Hypothesis Qflip_cmp : forall op a b, Qf (PCmp (flip_cmp op) b a) = Qf (PCmp op a b).
  Hypothesis Qflip_dist : forall neg a b, Qf (PDistinct neg b a) = Qf (PDistinct neg a b).

  Lemma as_comparison_all la e c : as_comparison la e = Some c -> Qf (cmp_expr c) = Qf e.
  Proof.
    unfold as_comparison. destruct e; try discriminate.
    - destruct (expr_side la e1), (expr_side la e2); intros H; try discriminate H; injection H as <-;
        cbn [cmp_expr flip_jop]; auto.
    - destruct (expr_side la e1), (expr_side la e2); intros H; try discriminate H; injection H as <-;
        cbn [cmp_expr flip_jop]; auto.
  Qed.

  Lemma classify_all k la acc e : xall Qf (classify k la acc e) = xall Qf acc && Qf e.
  Proof.
    unfold classify. destruct (expr_side la e).
    - unfold xall, push_arb. cbn [x_lf x_rf x_arb x_cmp]. rewrite forallb_app. cbn [forallb]. btauto.
    - destruct k; unfold xall, push_lf, push_arb; cbn [x_lf x_rf x_arb x_cmp]; rewrite forallb_app; cbn [forallb]; btauto.
    - destruct k; unfold xall, push_rf, push_arb; cbn [x_lf x_rf x_arb x_cmp]; rewrite forallb_app; cbn [forallb]; btauto.
    - destruct (as_comparison la e) as [c|] eqn:E.
      + unfold xall, push_cmp. cbn [x_lf x_rf x_arb x_cmp]. rewrite forallb_app. cbn [forallb].
        rewrite (as_comparison_all la e c E). btauto.
      + unfold xall, push_arb. cbn [x_lf x_rf x_arb x_cmp]. rewrite forallb_app. cbn [forallb]. btauto.
  Qed.

  Lemma extract_fold_all k la es : forall acc,
    xall Qf (fold_left (classify k la) es acc) = xall Qf acc && forallb Qf es.
  Proof.
    induction es as [|e es IH]; intros acc; cbn [fold_left forallb]; [rewrite andb_true_r; reflexivity|].
    rewrite IH, classify_all. btauto.
  Qed.

  Lemma extract_all k la c : xall Qf (extract k la c) = forallb Qf (split_conj c).
  Proof. unfold extract. rewrite extract_fold_all. reflexivity. Qed.
End Classify.

(* sides of the extracted parts *)
Definition lf_ok (k : jkind) : bool := match k with JRight | JInner | JCross => true | _ => false end.
Definition rf_ok (k : jkind) : bool := match k with JLeft | JInner | JCross => true | _ => false end.

Definition xsides (la : nat) (k : jkind) (x : extracted) : Prop :=
  Forall (fun f => expr_side la f = SLeft) (x_lf x) /\
  Forall (fun f => expr_side la f = SRight) (x_rf x) /\
  Forall (fun cm => match cm with (_, a, b) => expr_side la a = SLeft /\ expr_side la b = SRight end) (x_cmp x) /\
  (lf_ok k = false -> x_lf x = []) /\ (rf_ok k = false -> x_rf x = []).

Lemma Forall_snoc {A} (P : A -> Prop) l x : Forall P l -> P x -> Forall P (l ++ [x]).
Proof. intros Hl Hx. apply Forall_app. split; [exact Hl|constructor; [exact Hx|constructor]]. Qed.

Lemma as_comparison_sides la e o a b :
  expr_side la e = SBoth -> as_comparison la e = Some (o, a, b) -> expr_side la a = SLeft /\ expr_side la b = SRight.
Proof.
  unfold as_comparison. destruct e; try discriminate; cbn [expr_side]; intros Hs H;
    destruct (expr_side la e1) eqn:E1, (expr_side la e2) eqn:E2; try discriminate H; try discriminate Hs;
    injection H as _ <- <-; auto.
Qed.

Lemma classify_sides la k acc e : xsides la k acc -> xsides la k (classify k la acc e).
Proof.
  intros [Hl [Hr [Hc [Hlk Hrk]]]]. unfold classify. destruct (expr_side la e) eqn:Es.
  - unfold xsides, push_arb; cbn [x_lf x_rf x_arb x_cmp]. auto.
  - destruct k; unfold xsides, push_lf, push_arb; cbn [x_lf x_rf x_arb x_cmp]; repeat split; auto;
      try (apply Forall_snoc; assumption); try (intros H; discriminate H).
  - destruct k; unfold xsides, push_rf, push_arb; cbn [x_lf x_rf x_arb x_cmp]; repeat split; auto;
      try (apply Forall_snoc; assumption); try (intros H; discriminate H).
  - destruct (as_comparison la e) as [[[o a] b]|] eqn:E.
    + unfold xsides, push_cmp; cbn [x_lf x_rf x_arb x_cmp]. repeat split; auto.
      apply Forall_snoc; [exact Hc|]. exact (as_comparison_sides la e o a b Es E).
    + unfold xsides, push_arb; cbn [x_lf x_rf x_arb x_cmp]. auto.
Qed.

Lemma extract_sides la k c : xsides la k (extract k la c).
Proof.
  unfold extract. assert (H0 : xsides la k (mkX [] [] [] [])).
  { unfold xsides; cbn. repeat split; auto. }
  revert H0. generalize (mkX [] [] [] []). induction (split_conj c) as [|e es IH]; intros acc H; [exact H|].
  cbn [fold_left]. apply IH. apply classify_sides, H.
Qed.

(* ---------------------------------------------------------------- flipped comparisons have the same value *)

Lemma val_compare_flip a b : val_compare b a = option_map CompOpp (val_compare a b).
Proof.
  destruct a as [|[|]|x|s], b as [|[|]|y|t]; cbn; try reflexivity.
  - rewrite Z.compare_antisym. reflexivity.
  - rewrite lex_cmp_antisym. reflexivity.
Qed.

Lemma cmp_holds_flip op c : cmp_holds (flip_cmp op) (CompOpp c) = cmp_holds op c.
Proof. destruct op, c; reflexivity. Qed.

Lemma cmp3_flip op a b : cmp3 (flip_cmp op) b a = cmp3 op a b.
Proof.
  unfold cmp3. destruct a as [|ba|x|s], b as [|bb|y|t]; try reflexivity;
    rewrite (val_compare_flip _ _);
    match goal with |- context [val_compare ?u ?v] => destruct (val_compare u v) as [c|] end; cbn [option_map];
    rewrite ?cmp_holds_flip; reflexivity.
Qed.

Lemma val_same_sym a b : val_same b a = val_same a b.
Proof.
  destruct (val_same a b) eqn:E.
  - apply val_same_eq in E. subst. apply val_same_refl.
  - destruct (val_same b a) eqn:E'; [|reflexivity]. apply val_same_eq in E'. subst. rewrite val_same_refl in E. discriminate.
Qed.

Lemma pure_cv_flip_cmp d en x op a b :
  pure_of (cv d en (PCmp (flip_cmp op) b a)) x = pure_of (cv d en (PCmp op a b)) x.
Proof.
  unfold pure_of, cv. cbn [eval_pexpr].
  destruct (eval_pexpr d (x :: en) a) as [va|ea], (eval_pexpr d (x :: en) b) as [vb|eb]; cbn [bind unres]; try reflexivity.
  rewrite cmp3_flip. reflexivity.
Qed.

Lemma pure_cv_flip_dist d en x neg a b :
  pure_of (cv d en (PDistinct neg b a)) x = pure_of (cv d en (PDistinct neg a b)) x.
Proof.
  unfold pure_of, cv. cbn [eval_pexpr].
  destruct (eval_pexpr d (x :: en) a) as [va|ea], (eval_pexpr d (x :: en) b) as [vb|eb]; cbn [bind unres]; try reflexivity.
  rewrite (val_same_sym va vb). reflexivity.
Qed.

(* ---------------------------------------------------------------- joins: Ok means every pair was evaluated *)

Lemma rjoin_ok k a b la ra on out :
  rjoin k a b la ra on = Ok out -> pairs_total on a b /\ out = pjoin k a b la ra (pure_of on).
Proof.
  intros H. assert (Ht : pairs_total on a b).
  { unfold rjoin, join_rows in H. intros l r Hl Hr.
    destruct k.
    - destruct (bind_ok _ _ _ H) as [parts [Hm _]]. destruct (mapM_ok_total _ _ _ Hm l Hl) as [y Hy].
      destruct (bind_ok _ _ _ Hy) as [ms [Hm2 _]]. destruct (mapM_ok_total _ _ _ Hm2 r Hr) as [z Hz].
      destruct (on (l ++ r)); [eauto|discriminate].
    - destruct (bind_ok _ _ _ H) as [parts [Hm _]]. destruct (mapM_ok_total _ _ _ Hm l Hl) as [y Hy].
      destruct (bind_ok _ _ _ Hy) as [ms [Hm2 _]]. destruct (mapM_ok_total _ _ _ Hm2 r Hr) as [z Hz].
      destruct (on (l ++ r)); [eauto|discriminate].
    - destruct (bind_ok _ _ _ H) as [parts [Hm _]]. destruct (mapM_ok_total _ _ _ Hm l Hl) as [y Hy].
      destruct (bind_ok _ _ _ Hy) as [ms [Hm2 _]]. destruct (mapM_ok_total _ _ _ Hm2 r Hr) as [z Hz].
      destruct (on (l ++ r)); [eauto|discriminate].
    - destruct (bind_ok _ _ _ H) as [parts [Hm _]]. destruct (mapM_ok_total _ _ _ Hm r Hr) as [y Hy].
      destruct (bind_ok _ _ _ Hy) as [ms [Hm2 _]]. destruct (mapM_ok_total _ _ _ Hm2 l Hl) as [z Hz].
      destruct (on (l ++ r)); [eauto|discriminate].
    - destruct (bind_ok _ _ _ H) as [parts [Hm _]]. destruct (mapM_ok_total _ _ _ Hm l Hl) as [y Hy].
      destruct (bind_ok _ _ _ Hy) as [ms [Hm2 _]]. destruct (mapM_ok_total _ _ _ Hm2 r Hr) as [z Hz]. eauto.
    - destruct (bind_ok _ _ _ H) as [parts [Hm _]]. destruct (mapM_ok_total _ _ _ Hm l Hl) as [y Hy].
      destruct (bind_ok _ _ _ Hy) as [ms [Hm2 _]]. destruct (mapM_ok_total _ _ _ Hm2 r Hr) as [z Hz]. eauto. }
  split; [exact Ht|]. rewrite (rjoin_total k a b la ra on Ht) in H. congruence.
Qed.

Lemma join2_as_join_rows k L R la ra (on2 : row -> row -> res bool) (on : row -> res bool) :
  (forall l r, In l L -> In r R -> on2 l r = on (l ++ r)) ->
  join2 k L R la ra on2 = join_rows k L R la ra on.
Proof.
  intros H. destruct k; unfold join2, join_rows.
  - f_equal. apply mapM_ext_in. intros l Hl. f_equal. apply mapM_ext_in. intros r Hr. rewrite H by assumption. reflexivity.
  - f_equal. apply mapM_ext_in. intros l Hl. f_equal. apply mapM_ext_in. intros r Hr. rewrite H by assumption. reflexivity.
  - f_equal. apply mapM_ext_in. intros l Hl. f_equal. apply mapM_ext_in. intros r Hr. rewrite H by assumption. reflexivity.
  - f_equal. apply mapM_ext_in. intros r Hr. f_equal. apply mapM_ext_in. intros l Hl. rewrite H by assumption. reflexivity.
  - f_equal. apply mapM_ext_in. intros l Hl. f_equal. apply mapM_ext_in. intros r Hr. apply H; assumption.
  - f_equal. apply mapM_ext_in. intros l Hl. f_equal. apply mapM_ext_in. intros r Hr. apply H; assumption.
Qed.

(* ---------------------------------------------------------------- the pure identity behind plan_join *)

Lemma pfilter_true_id (p : list value -> bool) a : (forall x, p x = true) -> pfilter p a = a.
Proof.
  intros H. unfold pfilter. induction a as [|x a IH]; [reflexivity|]. cbn [filter]. rewrite H, IH. reflexivity.
Qed.

Lemma arity_pfilter la p a : arity la a -> arity la (pfilter p a).
Proof. apply arity_filter. Qed.

Lemma pure_extract k la ra L R (LFb RFb REST lfp rfp : list value -> bool) :
  reads_left la LFb lfp -> reads_right la RFb rfp -> arity la L ->
  (lf_ok k = false -> (forall x, LFb x = true) /\ (forall x, lfp x = true)) ->
  (rf_ok k = false -> (forall x, RFb x = true) /\ (forall x, rfp x = true)) ->
  pjoin k L R la ra (fun x => LFb x && RFb x && REST x) = pjoin k (pfilter lfp L) (pfilter rfp R) la ra REST.
Proof.
  intros Hl Hr Ha Hlk Hrk.
  destruct k.
  - (* cross = inner *)
    change (pjoin JCross) with (pjoin JInner).
    rewrite <- (pjoin_inner_filter_right la ra RFb rfp REST (pfilter lfp L) R Hr (arity_pfilter la lfp L Ha)).
    rewrite <- (pjoin_inner_filter_left la ra LFb lfp REST L R Hl Ha).
    rewrite !pjoin_inner_filter_into_cond. apply pjoin_ext_in. intros l r _ _. btauto.
  - rewrite <- (pjoin_inner_filter_right la ra RFb rfp REST (pfilter lfp L) R Hr (arity_pfilter la lfp L Ha)).
    rewrite <- (pjoin_inner_filter_left la ra LFb lfp REST L R Hl Ha).
    rewrite !pjoin_inner_filter_into_cond. apply pjoin_ext_in. intros l r _ _. btauto.
  - (* left *)
    destruct (Hlk eq_refl) as [H1 H2]. rewrite (pfilter_true_id lfp L H2).
    rewrite <- (pjoin_left_on_right la ra RFb rfp REST L R Hr Ha).
    apply pjoin_ext_in. intros l r _ _. rewrite H1. btauto.
  - (* right *)
    destruct (Hrk eq_refl) as [H1 H2]. rewrite (pfilter_true_id rfp R H2).
    rewrite <- (pjoin_right_on_left la ra LFb lfp REST L R Hl Ha).
    apply pjoin_ext_in. intros l r _ _. rewrite H1. btauto.
  - destruct (Hlk eq_refl) as [H1 H2]. destruct (Hrk eq_refl) as [H3 H4].
    rewrite (pfilter_true_id lfp L H2), (pfilter_true_id rfp R H4).
    apply pjoin_ext_in. intros l r _ _. rewrite H1, H3. reflexivity.
  - destruct (Hlk eq_refl) as [H1 H2]. destruct (Hrk eq_refl) as [H3 H4].
    rewrite (pfilter_true_id lfp L H2), (pfilter_true_id rfp R H4).
    apply pjoin_ext_in. intros l r _ _. rewrite H1, H3. reflexivity.
Qed.

(* ---------------------------------------------------------------- the extracted join on rows *)

Lemma forallb_map {A B} (f : B -> bool) (g : A -> B) l : forallb f (map g l) = forallb (fun x => f (g x)) l.
Proof. induction l as [|x l IH]; [reflexivity|]. cbn [map forallb]. rewrite IH. reflexivity. Qed.

Lemma forallb_ext_in {A} (p q : A -> bool) l : (forall x, In x l -> p x = q x) -> forallb p l = forallb q l.
Proof.
  induction l as [|x l IH]; intros H; [reflexivity|]. cbn [forallb].
  rewrite (H x (or_introl eq_refl)), IH; [reflexivity|]. intros y Hy. apply H. right. exact Hy.
Qed.

Lemma cond_eval_eq d en la l r o a b :
  length l = la -> expr_side la a = SLeft -> expr_side la b = SRight ->
  (do u <- eval_pexpr d (l :: en) a; do v <- eval_pexpr d (r :: en) (shift_cols la b); jop_holds o u v)
  = cv d en (cmp_expr (o, a, b)) (l ++ r).
Proof.
  intros Hl Ha Hb. unfold cv.
  assert (Ea := loc_left d en la l r Hl a). rewrite Ha in Ea. specialize (Ea eq_refl).
  assert (Eb := loc_right d en la l r Hl b). rewrite Hb in Eb. specialize (Eb eq_refl).
  destruct o as [op|neg]; cbn [cmp_expr eval_pexpr]; rewrite Ea, Eb;
    destruct (eval_pexpr d (l :: en) a) as [u|e1]; cbn [bind]; try reflexivity;
    destruct (eval_pexpr d (r :: en) (shift_cols la b)) as [v|e2]; cbn [bind]; reflexivity.
Qed.

Section ExtractAgree.
  Variables (d : db) (en : env) (k : jkind) (c : pexpr) (la ra : nat) (pl pr : lplan) (L R : list (list value)).
  Hypothesis HL : eval_lplan d en pl = Ok L.
  Hypothesis HR : eval_lplan d en pr = Ok R.
  Hypothesis Ha : arity la L.

  Let X := extract k la c.
  Let Q (x : list value) := fun f => pure_of (cv d en f) x.
  Let lfp (l : list value) := forallb (Q l) (x_lf X).
  Let rfp (r : list value) := forallb (fun f => Q r (shift_cols la f)) (x_rf X).
  Let LFb (x : list value) := forallb (Q x) (x_lf X).
  Let RFb (x : list value) := forallb (Q x) (x_rf X).
  Let ARBb (x : list value) := forallb (Q x) (x_arb X).
  Let CMPb (x : list value) := forallb (fun cm => Q x (cmp_expr cm)) (x_cmp X).

  Let Hsides : xsides la k X := extract_sides la k c.

  Lemma xa_reads_left : reads_left la LFb lfp.
  Proof.
    intros x y Hx. unfold LFb, lfp. apply forallb_ext_in. intros f Hf.
    destruct Hsides as [Hl _]. rewrite Forall_forall in Hl. specialize (Hl f Hf).
    unfold Q, pure_of, cv. rewrite (loc_left d en la x y Hx f); [reflexivity|]. rewrite Hl. reflexivity.
  Qed.

  Lemma xa_reads_right : reads_right la RFb rfp.
  Proof.
    intros x y Hx. unfold RFb, rfp. apply forallb_ext_in. intros f Hf.
    destruct Hsides as [_ [Hr _]]. rewrite Forall_forall in Hr. specialize (Hr f Hf).
    unfold Q, pure_of, cv. rewrite (loc_right d en la x y Hx f); [reflexivity|]. rewrite Hr. reflexivity.
  Qed.

  Lemma xa_left_eval L0 :
    eval_lplan d en (match x_lf X with [] => pl | p :: l0 => LFilter (and_all (p :: l0)) pl end) = Ok L0 ->
    L0 = pfilter lfp L.
  Proof.
    unfold lfp. destruct (x_lf X) as [|f fs] eqn:E.
    - rewrite HL. intros H. injection H as <-. symmetry. apply pfilter_true_id. reflexivity.
    - cbn [eval_lplan]. rewrite HL. cbn [bind]. intros H. apply rfilter_ok in H. destruct H as [Ht ->].
      apply pfilter_ext_in. intros x Hx. destruct (Ht x Hx) as [t Htx].
      unfold pure_of at 1. rewrite Htx. cbn [unres].
      exact (proj2 (cv_and_all d en x (f :: fs) t Htx)).
  Qed.

  Lemma xa_right_eval R0 :
    eval_lplan d en (match x_rf X with [] => pr | p :: l0 => LFilter (and_all (map (shift_cols la) (p :: l0))) pr end) = Ok R0 ->
    R0 = pfilter rfp R.
  Proof.
    unfold rfp. destruct (x_rf X) as [|f fs] eqn:E.
    - rewrite HR. intros H. injection H as <-. symmetry. apply pfilter_true_id. reflexivity.
    - cbn [eval_lplan]. rewrite HR. cbn [bind]. intros H. apply rfilter_ok in H. destruct H as [Ht ->].
      apply pfilter_ext_in. intros x Hx. destruct (Ht x Hx) as [t Htx].
      unfold pure_of at 1. rewrite Htx. cbn [unres].
      rewrite (proj2 (cv_and_all d en x _ t Htx)). apply forallb_map.
  Qed.

  (* the reference result, in pure form over the filtered inputs *)
  Lemma xa_spec out' :
    rjoin k L R la ra (cv d en c) = Ok out' ->
    out' = pjoin k (pfilter lfp L) (pfilter rfp R) la ra (fun x => ARBb x && CMPb x).
  Proof.
    intros Hs. apply rjoin_ok in Hs. destruct Hs as [Ht ->].
    rewrite <- (pure_extract k la ra L R LFb RFb (fun x => ARBb x && CMPb x) lfp rfp xa_reads_left xa_reads_right Ha).
    - apply pjoin_ext_in. intros l r Hl Hr. destruct (Ht l r Hl Hr) as [t Hc].
      unfold pure_of at 1. rewrite Hc. cbn [unres].
      rewrite (proj2 (cv_split d en (l ++ r) c t Hc)).
      change (forallb (Q (l ++ r)) (split_conj c) = LFb (l ++ r) && RFb (l ++ r) && (ARBb (l ++ r) && CMPb (l ++ r))).
      rewrite <- (extract_all (Q (l ++ r)) (pure_cv_flip_cmp d en (l ++ r)) (pure_cv_flip_dist d en (l ++ r)) k la c).
      fold X. unfold xall, LFb, RFb, ARBb, CMPb. btauto.
    - intros Hk. destruct Hsides as [_ [_ [_ [Hn _]]]]. unfold LFb, lfp. rewrite (Hn Hk). split; reflexivity.
    - intros Hk. destruct Hsides as [_ [_ [_ [_ Hn]]]]. unfold RFb, rfp. rewrite (Hn Hk). split; reflexivity.
  Qed.

  Lemma xa_cmp_join l' r' L0 R0 out0 :
    eval_lplan d en l' = Ok L0 -> eval_lplan d en r' = Ok R0 -> arity la L0 ->
    eval_lplan d en (LComparisonJoin k (map (fun cm => match cm with (o, a, b) => (o, a, shift_cols la b) end) (x_cmp X))
                                     la ra l' r') = Ok out0 ->
    out0 = pjoin k L0 R0 la ra CMPb.
  Proof.
    intros Hl Hr Ha0. cbn [eval_lplan]. rewrite Hl, Hr. cbn [bind]. intros H.
    destruct (bind_ok _ _ _ H) as [LK [_ H1]]. destruct (bind_ok _ _ _ H1) as [RK [_ H2]]. clear H H1.
    rewrite (join2_as_join_rows k L0 R0 la ra _ (cvs d en (map cmp_expr (x_cmp X)))) in H2.
    - change (rjoin k L0 R0 la ra (cvs d en (map cmp_expr (x_cmp X))) = Ok out0) in H2.
      apply rjoin_ok in H2. destruct H2 as [Ht ->]. apply pjoin_ext_in. intros l r Hl0 Hr0.
      destruct (Ht l r Hl0 Hr0) as [t Hc]. unfold pure_of at 1. rewrite Hc. cbn [unres].
      rewrite (proj2 (cvs_ok d en _ _ t Hc)). unfold CMPb. apply forallb_map.
    - intros l r Hl0 Hr0. unfold cvs. rewrite !mapM_map. f_equal. apply mapM_ext_in. intros [[o a] b] Hin.
      destruct Hsides as [_ [_ [Hc _]]]. rewrite Forall_forall in Hc. destruct (Hc _ Hin) as [Hsa Hsb].
      unfold arity in Ha0. rewrite Forall_forall in Ha0.
      apply cond_eval_eq; [apply Ha0, Hl0|exact Hsa|exact Hsb].
  Qed.

  Theorem extract_join_agree out out' :
    eval_lplan d en (extract_join k c la ra pl pr) = Ok out ->
    rjoin k L R la ra (cv d en c) = Ok out' ->
    out = out'.
  Proof.
    intros Hp Hs. rewrite (xa_spec out' Hs). clear Hs.
    unfold extract_join in Hp. fold X in Hp.
    set (l' := match x_lf X with [] => pl | p :: l0 => LFilter (and_all (p :: l0)) pl end) in *.
    set (r' := match x_rf X with [] => pr | p :: l0 => LFilter (and_all (map (shift_cols la) (p :: l0))) pr end) in *.
    assert (Hl' : forall L0, eval_lplan d en l' = Ok L0 -> L0 = pfilter lfp L) by (intros L0; apply xa_left_eval).
    assert (Hr' : forall R0, eval_lplan d en r' = Ok R0 -> R0 = pfilter rfp R) by (intros R0; apply xa_right_eval).
    destruct (is_nil (x_cmp X) || negb (is_inner k) && negb (is_nil (x_arb X))) eqn:Eu.
    - (* ArbitraryJoin *)
      cbn [eval_lplan] in Hp.
      destruct (bind_ok _ _ _ Hp) as [L0 [HL0 Hp1]]. destruct (bind_ok _ _ _ Hp1) as [R0 [HR0 Hp2]].
      rewrite (Hl' L0 HL0), (Hr' R0 HR0) in Hp2.
      change (rjoin k (pfilter lfp L) (pfilter rfp R) la ra (cv d en (and_all (x_arb X ++ map cmp_expr (x_cmp X)))) = Ok out) in Hp2.
      apply rjoin_ok in Hp2. destruct Hp2 as [Ht ->]. apply pjoin_ext_in. intros l r Hl0 Hr0.
      destruct (Ht l r Hl0 Hr0) as [t Hc]. unfold pure_of at 1. rewrite Hc. cbn [unres].
      rewrite (proj2 (cv_and_all d en _ _ t Hc)). rewrite forallb_app, forallb_map. reflexivity.
    - (* ComparisonJoin [+ Filter] *)
      apply orb_false_iff in Eu. destruct Eu as [Ecmp Earb].
      assert (Hj : forall out0,
                 eval_lplan d en (LComparisonJoin k (map (fun cm => match cm with (o, a, b) => (o, a, shift_cols la b) end) (x_cmp X))
                                                  la ra l' r') = Ok out0 ->
                 out0 = pjoin k (pfilter lfp L) (pfilter rfp R) la ra CMPb).
      { intros out0 H0. pose proof H0 as H0'. cbn [eval_lplan] in H0'.
        destruct (bind_ok _ _ _ H0') as [L0 [HL0 H1]]. destruct (bind_ok _ _ _ H1) as [R0 [HR0 _]].
        rewrite <- (Hl' L0 HL0), <- (Hr' R0 HR0).
        apply (xa_cmp_join l' r' L0 R0 out0 HL0 HR0); [|exact H0].
        rewrite (Hl' L0 HL0). apply arity_pfilter, Ha. }
      assert (Ecase : x_arb X = [] \/ exists f fs, x_arb X = f :: fs).
      { destruct (x_arb X) as [|f fs]; [left; reflexivity|right; eauto]. }
      destruct Ecase as [Ea|[f [fs Ea]]]; rewrite Ea in Hp.
      + rewrite (Hj out Hp). apply pjoin_ext_in. intros l r _ _. unfold ARBb. rewrite Ea. reflexivity.
      + cbn [eval_lplan] in Hp. destruct (bind_ok _ _ _ Hp) as [out0 [H0 Hf]].
        rewrite (Hj out0 H0) in Hf. apply rfilter_ok in Hf. destruct Hf as [Ht ->].
        assert (Hk : is_inner k = true).
        { apply andb_false_iff in Earb. destruct Earb as [E|E]; [apply negb_false_iff in E; exact E|].
          rewrite Ea in E. cbn in E. discriminate E. }
        rewrite (pfilter_ext_in _ ARBb).
        * destruct k; try discriminate Hk.
          -- change (pjoin JCross) with (pjoin JInner). rewrite pjoin_inner_filter_into_cond.
             apply pjoin_ext_in. intros l r _ _. btauto.
          -- rewrite pjoin_inner_filter_into_cond. apply pjoin_ext_in. intros l r _ _. btauto.
        * intros x Hx. destruct (Ht x Hx) as [t Hc].
          change (cv d en (and_all (f :: fs)) x = Ok t) in Hc.
          change (pure_of (cv d en (and_all (f :: fs))) x = ARBb x). unfold pure_of. rewrite Hc. cbn [unres].
          rewrite (proj2 (cv_and_all d en _ _ t Hc)). unfold ARBb. rewrite Ea. reflexivity.
  Qed.
End ExtractAgree.


(* ---------------------------------------------------------------- widths of the rows of FROM items *)

Lemma mapM_length {A B} (f : A -> res B) : forall l ys, mapM f l = Ok ys -> length ys = length l.
Proof.
  induction l as [|x l IH]; intros ys H.
  - cbn in H. injection H as <-. reflexivity.
  - rewrite mapM_cons in H. destruct (bind_ok _ _ _ H) as [y [_ H1]]. destruct (bind_ok _ _ _ H1) as [ys' [H2 H3]].
    injection H3 as <-. cbn [length]. rewrite (IH _ H2). reflexivity.
Qed.

Lemma mapM_Forall_out {A B} (f : A -> res B) (P : B -> Prop) : forall l ys,
  mapM f l = Ok ys -> (forall x y, In x l -> f x = Ok y -> P y) -> Forall P ys.
Proof.
  induction l as [|x l IH]; intros ys H HP.
  - cbn in H. injection H as <-. constructor.
  - rewrite mapM_cons in H. destruct (bind_ok _ _ _ H) as [y [Hy H1]]. destruct (bind_ok _ _ _ H1) as [ys' [H2 H3]].
    injection H3 as <-. constructor; [apply (HP x y); [left; reflexivity|exact Hy]|].
    apply IH; [exact H2|]. intros x' y' Hin. apply HP. right. exact Hin.
Qed.

Lemma arity_incl n (a b : list (list value)) : incl a b -> arity n b -> arity n a.
Proof. unfold arity. rewrite !Forall_forall. intros Hi Hb x Hx. apply Hb, Hi, Hx. Qed.

Lemma arity_app n (a b : list (list value)) : arity n a -> arity n b -> arity n (a ++ b).
Proof. unfold arity. intros. apply Forall_app. split; assumption. Qed.

Lemma dedup_incl l : incl (dedup_rows l) l.
Proof. intros x Hx. apply dedup_rows_In. exact Hx. Qed.

Lemma nulls_length n : length (nulls n) = n.
Proof. unfold nulls. apply repeat_length. Qed.

Lemma pjoin_arity k la ra a b on :
  arity la a -> arity ra b ->
  arity (match k with JSemi | JAnti => la | _ => la + ra end) (pjoin k a b la ra on).
Proof.
  unfold arity. rewrite !Forall_forall. intros Ha Hb x Hx.
  assert (Hm : forall l, In l a -> forall y, In y (matches on l b) -> length y = la + ra).
  { intros l Hl y Hy. apply matches_In in Hy. destruct Hy as [r [Hr [-> _]]]. rewrite app_length, (Ha l Hl), (Hb r Hr). reflexivity. }
  destruct k; cbn [pjoin] in Hx; apply in_flat_map in Hx; destruct Hx as [z [Hz Hx]].
  - exact (Hm z Hz x Hx).
  - exact (Hm z Hz x Hx).
  - destruct (matches on z b) as [|m ms] eqn:Em.
    + destruct Hx as [<-|[]]. rewrite app_length, nulls_length, (Ha z Hz). reflexivity.
    + rewrite <- Em in Hx. exact (Hm z Hz x Hx).
  - destruct (flat_map (fun l => if on (l ++ z) then [l ++ z] else []) a) as [|m ms] eqn:Em.
    + destruct Hx as [<-|[]]. rewrite app_length, nulls_length, (Hb z Hz). reflexivity.
    + rewrite <- Em in Hx. apply in_flat_map in Hx. destruct Hx as [l [Hl Hx]].
      destruct (on (l ++ z)); [|destruct Hx]. destruct Hx as [<-|[]]. rewrite app_length, (Ha l Hl), (Hb z Hz). reflexivity.
  - destruct (existsb _ b); [|destruct Hx]. destruct Hx as [<-|[]]. apply Ha, Hz.
  - destruct (existsb _ b); [destruct Hx|]. destruct Hx as [<-|[]]. apply Ha, Hz.
Qed.

Lemma join_rows_arity k la ra a b on out :
  arity la a -> arity ra b -> join_rows k a b la ra on = Ok out ->
  arity (match k with JSemi | JAnti => la | _ => la + ra end) out.
Proof.
  intros Ha Hb H. change (rjoin k a b la ra on = Ok out) in H. apply rjoin_ok in H. destruct H as [_ ->].
  apply pjoin_arity; assumption.
Qed.

Lemma db_arity_table sch d t n rows :
  db_arity_ok sch d = true -> nth_error sch t = Some n -> nth_error d t = Some rows -> arity n rows.
Proof.
  unfold db_arity_ok. intros H Hs Hd. apply andb_true_iff in H. destruct H as [_ H].
  rewrite forallb_forall in H.
  assert (Hin : In (n, rows) (combine sch d)).
  { clear H. revert t d Hs Hd. induction sch as [|s sch IH]; intros [|t] d Hs Hd; try discriminate.
    - destruct d as [|r d]; [discriminate|]. cbn in Hs, Hd. injection Hs as <-. injection Hd as <-. left. reflexivity.
    - destruct d as [|r d]; [discriminate|]. cbn in Hs, Hd. right. apply (IH t d Hs Hd). }
  specialize (H _ Hin). cbn [fst snd] in H. rewrite forallb_forall in H.
  unfold arity. apply Forall_forall. intros r Hr. apply Nat.eqb_eq. apply H, Hr.
Qed.

Lemma slice_incl off lim (l : list (list value)) : incl (slice_rows off lim l) l.
Proof. apply (rlimit_incl off lim l). Qed.

Theorem arity_sound sch d : db_arity_ok sch d = true ->
  (forall q n, query_arity sch q = Some n -> forall en rows, eval_query d en q = Ok rows -> arity n rows) /\
  (forall f n, from_arity sch f = Some n -> forall en rows, eval_from d en f = Ok rows -> arity n rows).
Proof.
  intros Hd.
  assert (G := sql_ind3 (fun _ => True)
            (fun q => forall n, query_arity sch q = Some n -> forall en rows, eval_query d en q = Ok rows -> arity n rows)
            (fun f => forall n, from_arity sch f = Some n -> forall en rows, eval_from d en f = Ok rows -> arity n rows)).
  cbv beta in G. destruct G as [_ [GQ GF]]; try (intros; exact I); [..|split; assumption].
  - (* QTable *) intros t n Hn en rows H. cbn [query_arity] in Hn. cbn [eval_query] in H.
    destruct (nth_error d t) as [rs|] eqn:E; [|discriminate]. injection H as <-. exact (db_arity_table sch d t n rs Hd Hn E).
  - (* QValues *) intros rows _ n Hn en out H. cbn [query_arity] in Hn. cbn [eval_query] in H.
    destruct rows as [|r rest]; [discriminate|].
    destruct (forallb (fun x => Nat.eqb (length x) (length r)) rest) eqn:E; [|discriminate]. injection Hn as <-.
    unfold arity. apply (mapM_Forall_out _ _ _ _ H). intros x y Hin Hy. rewrite (mapM_length _ _ _ Hy).
    destruct Hin as [<-|Hin]; [reflexivity|]. rewrite forallb_forall in E. apply Nat.eqb_eq, E, Hin.
  - (* QSelect *) intros f wh grp hav sel dis _ _ _ _ _ n Hn en out H. cbn [query_arity] in Hn. injection Hn as <-.
    rewrite eval_select_staged in H. destruct (bind_ok _ _ _ H) as [rows2 [_ H1]]. destruct (bind_ok _ _ _ H1) as [o [Ho H2]].
    injection H2 as <-.
    assert (Hoa : arity (length sel) o).
    { unfold arity. apply (mapM_Forall_out _ _ _ _ Ho). intros x y _ Hy. apply (mapM_length _ _ _ Hy). }
    destruct dis; [|exact Hoa]. apply (arity_incl _ _ o); [apply dedup_incl|exact Hoa].
  - (* QUnion *) intros all a b IHa IHb n Hn en out H. cbn [query_arity] in Hn. cbn [eval_query] in H.
    destruct (query_arity sch a) as [x|] eqn:Ea; [|discriminate]. destruct (query_arity sch b) as [y|] eqn:Eb; [|discriminate].
    destruct (Nat.eqb x y) eqn:E; [|discriminate]. injection Hn as <-. apply Nat.eqb_eq in E. subst y.
    destruct (bind_ok _ _ _ H) as [xa [Hxa H1]]. destruct (bind_ok _ _ _ H1) as [xb [Hxb H2]]. injection H2 as <-.
    pose proof (arity_app x xa xb (IHa x eq_refl en xa Hxa) (IHb x eq_refl en xb Hxb)) as Hab.
    destruct all; [exact Hab|]. apply (arity_incl _ _ (xa ++ xb)); [apply dedup_incl|exact Hab].
  - (* QOrderLimit *) intros q keys lim off IHq n Hn en out H. cbn [query_arity] in Hn. cbn [eval_query] in H.
    destruct (bind_ok _ _ _ H) as [rows [Hr H1]]. injection H1 as <-.
    apply (arity_incl _ _ (sort_by keys rows)); [apply slice_incl|].
    apply (arity_incl _ _ rows); [|exact (IHq n Hn en rows Hr)].
    intros x Hx. apply (Permutation_in x (RelProofs.sort_by_perm keys rows)). exact Hx.
  - (* FQuery *) intros q IHq n Hn en rows H. exact (IHq n Hn en rows H).
  - (* FJoin *) intros k l r on la ra IHl IHr _ n Hn en out H. cbn [from_arity] in Hn. cbn [eval_from] in H.
    destruct (opt_eqb (from_arity sch l) (Some la) && opt_eqb (from_arity sch r) (Some ra)) eqn:E; [|discriminate].
    injection Hn as <-. apply andb_true_iff in E. destruct E as [El Er].
    unfold opt_eqb in El, Er. destruct (from_arity sch l) as [x|] eqn:Fl; [|discriminate].
    destruct (from_arity sch r) as [y|] eqn:Fr; [|discriminate]. apply Nat.eqb_eq in El, Er. subst x y.
    destruct (bind_ok _ _ _ H) as [L [HL H1]]. destruct (bind_ok _ _ _ H1) as [R [HR H2]].
    exact (join_rows_arity k la ra L R _ out (IHl la eq_refl en L HL) (IHr ra eq_refl en R HR) H2).
  - (* FLateral *) intros k l r on ra IHl IHr _ n Hn en out H. cbn [from_arity] in Hn. cbn [eval_from] in H.
    destruct (from_arity sch l) as [la|] eqn:Fl; [|discriminate]. destruct (query_arity sch r) as [rb|] eqn:Fr; [|discriminate].
    destruct (Nat.eqb rb ra) eqn:E; [|discriminate]. injection Hn as <-. apply Nat.eqb_eq in E. subst rb.
    destruct (bind_ok _ _ _ H) as [L [HL H1]]. destruct (bind_ok _ _ _ H1) as [parts [Hp H2]]. injection H2 as <-.
    pose proof (IHl la eq_refl en L HL) as HLa.
    assert (Hparts : Forall (arity (match k with JSemi | JAnti => la | _ => la + ra end)) parts).
    { apply (mapM_Forall_out _ _ _ _ Hp). intros lr y Hin Hy. destruct (bind_ok _ _ _ Hy) as [R [HR Hj]].
      unfold arity in HLa. rewrite Forall_forall in HLa. rewrite (HLa lr Hin) in Hj.
      eapply (join_rows_arity k la ra [lr] R); [|exact (IHr ra eq_refl (lr :: en) R HR)|exact Hj].
      constructor; [apply HLa, Hin|constructor]. }
    unfold arity. clear - Hparts. induction Hparts as [|p ps Hp _ IH]; [constructor|]. cbn [concat].
    apply Forall_app. split; assumption.
Qed.


(* ---------------------------------------------------------------- instance 2: the engine's planner *)

Definition wf_none : fromc -> fromc -> expr -> nat -> nat -> bool := fun _ _ _ _ _ => false.

Lemma nosub_wf : forall e, nosub e = true -> wf_expr wf_none e = true.
Proof.
  assert (G := sql_ind3 (fun e => nosub e = true -> wf_expr wf_none e = true) (fun _ => True) (fun _ => True)).
  cbv beta in G. destruct G as [GE _]; try (intros; exact I); [..|exact GE].
  - reflexivity.
  - reflexivity.
  - intros op a b Ha Hb H. change (nosub a && nosub b = true) in H. apply andb_true_iff in H.
    change (wf_expr wf_none a && wf_expr wf_none b = true). rewrite Ha, Hb by tauto. reflexivity.
  - intros neg a b Ha Hb H. change (nosub a && nosub b = true) in H. apply andb_true_iff in H.
    change (wf_expr wf_none a && wf_expr wf_none b = true). rewrite Ha, Hb by tauto. reflexivity.
  - intros a b Ha Hb H. change (nosub a && nosub b = true) in H. apply andb_true_iff in H.
    change (wf_expr wf_none a && wf_expr wf_none b = true). rewrite Ha, Hb by tauto. reflexivity.
  - intros a b Ha Hb H. change (nosub a && nosub b = true) in H. apply andb_true_iff in H.
    change (wf_expr wf_none a && wf_expr wf_none b = true). rewrite Ha, Hb by tauto. reflexivity.
  - intros a Ha H. exact (Ha H).
  - intros neg a Ha H. exact (Ha H).
  - intros op w a b Ha Hb H. change (nosub a && nosub b = true) in H. apply andb_true_iff in H.
    change (wf_expr wf_none a && wf_expr wf_none b = true). rewrite Ha, Hb by tauto. reflexivity.
  - intros w a Ha H. exact (Ha H).
  - intros bs els Hbs Hels H.
    change (forallb (fun ct => match ct with (c, t) => nosub c && nosub t end) bs && nosub els = true) in H.
    apply andb_true_iff in H. destruct H as [Hb He].
    change (forallb (fun ct => match ct with (c, t) => wf_expr wf_none c && wf_expr wf_none t end) bs && wf_expr wf_none els = true).
    rewrite (Hels He), andb_true_r. apply forallb_forall. intros [c t] Hin. rewrite Forall_forall in Hbs.
    rewrite forallb_forall in Hb. specialize (Hb _ Hin). cbn beta iota in Hb. apply andb_true_iff in Hb.
    destruct (Hbs _ Hin) as [Hc Ht]. cbn [fst snd] in *. rewrite Hc, Ht by tauto. reflexivity.
  - intros neg a es Ha Hes H. change (nosub a && forallb nosub es = true) in H. apply andb_true_iff in H. destruct H as [H1 H2].
    change (wf_expr wf_none a && forallb (wf_expr wf_none) es = true). rewrite (Ha H1). cbn [andb].
    apply forallb_forall. intros x Hx. rewrite Forall_forall in Hes. rewrite forallb_forall in H2. apply Hes; [exact Hx|apply H2, Hx].
  - intros neg q _ H. discriminate H.
  - intros neg a q _ _ H. discriminate H.
  - intros q _ H. discriminate H.
Qed.

Lemma nosub_plan_exact mk e : nosub e = true ->
  forall d en, eval_pexpr d en (plan_expr mk e) = eval_expr d en e.
Proof.
  intros Hn d en.
  pose proof (plan_gen_correct (fun A x y => x = y) (fun A x => eq_refl) (@eq_bind) mk wf_none (fun _ => True)) as G.
  cbv beta in G.
  assert (Hj : forall d en k e la ra fl fr pl pr, True -> wf_none fl fr e la ra = true ->
     eval_lplan d en pl = eval_from d en fl -> eval_lplan d en pr = eval_from d en fr ->
     (forall x, eval_pexpr d (x :: en) (plan_expr mk e) = eval_expr d (x :: en) e) ->
     eval_lplan d en (mk k (plan_expr mk e) la ra pl pr) = eval_from d en (FJoin k fl fr (Some e) la ra)).
  { intros ? ? ? ? ? ? ? ? ? ? _ H. discriminate H. }
  destruct (G Hj) as [GE _]. apply GE; [apply nosub_wf, Hn|exact I].
Qed.

Lemma extract_join_children_ok d en k c la ra pl pr out :
  eval_lplan d en (extract_join k c la ra pl pr) = Ok out ->
  exists L R, eval_lplan d en pl = Ok L /\ eval_lplan d en pr = Ok R.
Proof.
  unfold extract_join.
  set (l' := match x_lf (extract k la c) with [] => pl | p :: l0 => LFilter (and_all (p :: l0)) pl end).
  set (r' := match x_rf (extract k la c) with [] => pr | p :: l0 => LFilter (and_all (map (shift_cols la) (p :: l0))) pr end).
  assert (Hl : forall L0, eval_lplan d en l' = Ok L0 -> exists L, eval_lplan d en pl = Ok L).
  { subst l'. destruct (x_lf (extract k la c)); intros L0 H; [eauto|].
    cbn [eval_lplan] in H. destruct (bind_ok _ _ _ H) as [L [HL _]]. eauto. }
  assert (Hr : forall R0, eval_lplan d en r' = Ok R0 -> exists R, eval_lplan d en pr = Ok R).
  { subst r'. destruct (x_rf (extract k la c)); intros R0 H; [eauto|].
    cbn [eval_lplan] in H. destruct (bind_ok _ _ _ H) as [R [HR _]]. eauto. }
  assert (Hj : forall j, (j = LArbitraryJoin k (and_all (x_arb (extract k la c) ++ map cmp_expr (x_cmp (extract k la c)))) la ra l' r' \/
                          j = LComparisonJoin k (map (fun cm => match cm with (o, a, b) => (o, a, shift_cols la b) end)
                                                     (x_cmp (extract k la c))) la ra l' r') ->
                forall o, eval_lplan d en j = Ok o -> exists L R, eval_lplan d en pl = Ok L /\ eval_lplan d en pr = Ok R).
  { intros j [->| ->] o H; cbn [eval_lplan] in H;
      destruct (bind_ok _ _ _ H) as [L0 [HL0 H1]]; destruct (bind_ok _ _ _ H1) as [R0 [HR0 _]];
      destruct (Hl _ HL0) as [L HL]; destruct (Hr _ HR0) as [R HR]; eauto. }
  destruct (is_nil (x_cmp (extract k la c)) || negb (is_inner k) && negb (is_nil (x_arb (extract k la c)))).
  - intros H. eapply Hj; [left; reflexivity|exact H].
  - destruct (x_arb (extract k la c)) as [|f fs].
    + intros H. eapply Hj; [right; reflexivity|exact H].
    + intros H. cbn [eval_lplan] in H. destruct (bind_ok _ _ _ H) as [o [Ho _]].
      eapply Hj; [right; reflexivity|exact Ho].
Qed.

Theorem plan_of_agree sch d : db_arity_ok sch d = true ->
  forall q, joins_wf sch q = true ->
  forall en, agree (eval_lplan d en (plan_of q)) (eval_query d en q).
Proof.
  intros Hd q Hq en.
  pose proof (plan_gen_correct (@agree) (@agree_refl) (@agree_bind) extract_join (arity_wfj sch)
                (fun d => db_arity_ok sch d = true)) as G.
  assert (Hj : forall d en k e la ra fl fr pl pr, db_arity_ok sch d = true -> arity_wfj sch fl fr e la ra = true ->
     agree (eval_lplan d en pl) (eval_from d en fl) -> agree (eval_lplan d en pr) (eval_from d en fr) ->
     (forall x, agree (eval_pexpr d (x :: en) (plan_expr extract_join e)) (eval_expr d (x :: en) e)) ->
     agree (eval_lplan d en (extract_join k (plan_expr extract_join e) la ra pl pr))
           (eval_from d en (FJoin k fl fr (Some e) la ra))).
  { clear. intros d en k e la ra fl fr pl pr Hd Hw Hl Hr _ out out' Hp Hs.
    unfold arity_wfj in Hw. apply andb_true_iff in Hw. destruct Hw as [Hla Hns].
    unfold opt_eqb in Hla. destruct (from_arity sch fl) as [n|] eqn:Fa; [|discriminate]. apply Nat.eqb_eq in Hla. subst n.
    cbn [eval_from] in Hs. destruct (bind_ok _ _ _ Hs) as [L [HL Hs1]]. destruct (bind_ok _ _ _ Hs1) as [R [HR Hs2]].
    destruct (extract_join_children_ok _ _ _ _ _ _ _ _ _ Hp) as [L0 [R0 [HL0 HR0]]].
    pose proof (Hl L0 L HL0 HL) as E1. pose proof (Hr R0 R HR0 HR) as E2. subst L0 R0.
    apply (extract_join_agree d en k (plan_expr extract_join e) la ra pl pr L R HL0 HR0); [|exact Hp|].
    - exact (proj2 (arity_sound sch d Hd) fl la Fa en L HL).
    - rewrite <- Hs2. unfold rjoin.
      apply (rel_join_rows (fun A x y => x = y) (fun A x => eq_refl) (@eq_bind)).
      intros x. unfold cv. cbn [opt_pred]. rewrite (nosub_plan_exact extract_join e Hns). reflexivity. }
  destruct (G Hj) as [_ [GQ _]]. apply GQ; [exact Hq|exact Hd].
Qed.

(* the same, spelled out: whenever neither side raises an error the rows (and their order) coincide *)
Corollary plan_of_correct_ok sch d q en rows rows' :
  db_arity_ok sch d = true -> joins_wf sch q = true ->
  eval_query d en q = Ok rows -> eval_lplan d en (plan_of q) = Ok rows' -> rows' = rows.
Proof. intros Hd Hq Hs Hp. exact (plan_of_agree sch d Hd q Hq en rows' rows Hp Hs). Qed.


(* ---------------------------------------------------------------- full strength is refuted; examples *)

(* t0 (1 column) is empty, t1 holds i32::MAX:
     SELECT x1.c0 FROM t0 x1 INNER JOIN t1 x2 ON x1.c0 = x2.c0 AND x2.c0 + 1 > 0
   the reference semantics evaluates ON for no pair and answers no row; the planner moves the right-only
   conjunct into a Filter over t1, which overflows *)
Definition ex_refute_db : db := [[]; [[VInt 2147483647]]].
Definition ex_refute_q : query :=
  QSelect (Some (FJoin JInner (FQuery (QTable 0)) (FQuery (QTable 1))
                   (Some (EAnd (ECmp CEq (ECol 0 0) (ECol 0 1))
                               (ECmp CGt (EArith Add 32 (ECol 0 1) (EConst (VInt 1))) (EConst (VInt 0))))) 1 1))
          None None None [ECol 0 0] false.

Theorem plan_of_exact_refuted :
  exists d q, db_arity_ok [1; 1] d = true /\ joins_wf [1; 1] q = true /\
              eval_query d [] q = Ok [] /\ eval_lplan d [] (plan_of q) = Err EOverflow.
Proof. exists ex_refute_db, ex_refute_q. repeat split; vm_compute; reflexivity. Qed.

(* a join + group + order + limit query and a correlated subquery in WHERE over a small database *)
Definition ex_db : db :=
  [ [[VInt 1; VInt 10]; [VInt 2; VInt 20]; [VInt 2; VInt 5]; [VNull; VInt 7]];
    [[VInt 1; VStr [97%N]]; [VInt 2; VStr [98%N]]; [VInt 3; VStr [99%N]]] ].
Definition ex_sch : list nat := [2; 2].

(* SELECT t0.c0, sum(t0.c1) FROM t0 JOIN t1 ON t0.c0 = t1.c0 AND t1.c0 > 0 WHERE t0.c1 > 1 GROUP BY t0.c0
   ORDER BY 1 DESC LIMIT 5 OFFSET 0 *)
Definition ex_q1 : query :=
  QOrderLimit
    (QSelect (Some (FJoin JInner (FQuery (QTable 0)) (FQuery (QTable 1))
                      (Some (EAnd (ECmp CEq (ECol 0 0) (ECol 0 2)) (ECmp CGt (ECol 0 2) (EConst (VInt 0))))) 2 2))
             (Some (ECmp CGt (ECol 0 1) (EConst (VInt 1))))
             (Some ([ECol 0 0], [(ASum, false, ECol 0 1)]))
             None [ECol 0 0; ECol 0 1] false)
    [(0, true, true)] (Some 5) 0.

(* SELECT t0.c1 FROM t0 WHERE EXISTS (SELECT 1 FROM t1 WHERE t1.c0 = t0.c0) *)
Definition ex_q2 : query :=
  QSelect (Some (FQuery (QTable 0)))
          (Some (EExists false (QSelect (Some (FQuery (QTable 1)))
                                        (Some (ECmp CEq (ECol 0 0) (ECol 1 0))) None None [EConst (VInt 1)] false)))
          None None [ECol 0 1] false.

Example ex_q1_hyps :
  db_arity_ok ex_sch ex_db = true /\ joins_wf ex_sch ex_q1 = true /\
  eval_query ex_db [] ex_q1 = Ok [[VInt 2; VInt 25]; [VInt 1; VInt 10]] /\
  eval_lplan ex_db [] (plan_of ex_q1) = Ok [[VInt 2; VInt 25]; [VInt 1; VInt 10]] /\
  plan_of ex_q1 =
    LLimit (Some 5) 0 (LOrder [(0, true, true)]
      (LProject [PCol 0 0; PCol 0 1]
        (LAggregate [PCol 0 0] [(ASum, false, PCol 0 1)]
          (LFilter (PCmp CGt (PCol 0 1) (PConst (VInt 1)))
            (LComparisonJoin JInner [(JOp CEq, PCol 0 0, PCol 0 0)] 2 2 (LScan 0)
               (LFilter (PCmp CGt (PCol 0 0) (PConst (VInt 0))) (LScan 1))))))).
Proof. repeat split; vm_compute; reflexivity. Qed.

Example ex_q2_hyps :
  db_arity_ok ex_sch ex_db = true /\ joins_wf ex_sch ex_q2 = true /\
  eval_query ex_db [] ex_q2 = Ok [[VInt 10]; [VInt 20]; [VInt 5]] /\
  eval_lplan ex_db [] (plan_of ex_q2) = Ok [[VInt 10]; [VInt 20]; [VInt 5]].
Proof. repeat split; vm_compute; reflexivity. Qed.
