(* C01 (composition): proofs about model/Plan.v.
   Part 1: mutual induction principle for Sql.v's expr/query/fromc; the planner is correct for every
           relation closed under bind (instantiated with equality for the planner that keeps ON whole and
           with "agree unless one side raises an error" for the planner with ON-condition extraction).
   Part 2: the ON-condition extraction (JoinConditionExtractor) at the level of rows.
   Part 3: physical plans refine logical plans; composition with the judge. *)
From Coq Require Import NArith ZArith List Bool Lia Permutation.
From GV Require Import lib.Bytes model.Sql model.Rel model.Plan.
From GV Require Import proofs.RelProofs.
Import ListNotations.
Local Open Scope nat_scope.

(* ================================================================ Part 1 *)

Definition optP {A} (P : A -> Prop) (o : option A) : Prop := match o with None => True | Some x => P x end.
Definition grpP (P : expr -> Prop) (g : option (list expr * list (aggfn * bool * expr))) : Prop :=
  match g with None => True | Some ka => Forall P (fst ka) /\ Forall (fun a => P (snd a)) (snd ka) end.

Section SqlInd.
  Variables (P : expr -> Prop) (Q : query -> Prop) (R : fromc -> Prop).
  Hypotheses
    (HConst : forall v, P (EConst v))
    (HCol : forall dd i, P (ECol dd i))
    (HCmp : forall op a b, P a -> P b -> P (ECmp op a b))
    (HDistinct : forall neg a b, P a -> P b -> P (EDistinct neg a b))
    (HAnd : forall a b, P a -> P b -> P (EAnd a b))
    (HOr : forall a b, P a -> P b -> P (EOr a b))
    (HNot : forall a, P a -> P (ENot a))
    (HIsNull : forall neg a, P a -> P (EIsNull neg a))
    (HArith : forall op w a b, P a -> P b -> P (EArith op w a b))
    (HNeg : forall w a, P a -> P (ENeg w a))
    (HCase : forall bs els, Forall (fun ct => P (fst ct) /\ P (snd ct)) bs -> P els -> P (ECase bs els))
    (HInList : forall neg a es, P a -> Forall P es -> P (EInList neg a es))
    (HExists : forall neg q, Q q -> P (EExists neg q))
    (HInSub : forall neg a q, P a -> Q q -> P (EInSub neg a q))
    (HScalar : forall q, Q q -> P (EScalar q))
    (HTable : forall t, Q (QTable t))
    (HValues : forall rows, Forall (Forall P) rows -> Q (QValues rows))
    (HSelect : forall f wh grp hav sel dis,
        optP R f -> optP P wh -> grpP P grp -> optP P hav ->
        Forall P sel ->
        Q (QSelect f wh grp hav sel dis))
    (HUnion : forall all a b, Q a -> Q b -> Q (QUnion all a b))
    (HOrder : forall q keys lim off, Q q -> Q (QOrderLimit q keys lim off))
    (HFQuery : forall q, Q q -> R (FQuery q))
    (HFJoin : forall k l r on la ra, R l -> R r -> optP P on ->
                                     R (FJoin k l r on la ra))
    (HFLateral : forall k l r on ra, R l -> Q r -> optP P on ->
                                     R (FLateral k l r on ra)).

  Fixpoint expr_ind3 (e : expr) : P e :=
    match e as e0 return P e0 with
    | EConst v => HConst v
    | ECol dd i => HCol dd i
    | ECmp op a b => HCmp op a b (expr_ind3 a) (expr_ind3 b)
    | EDistinct neg a b => HDistinct neg a b (expr_ind3 a) (expr_ind3 b)
    | EAnd a b => HAnd a b (expr_ind3 a) (expr_ind3 b)
    | EOr a b => HOr a b (expr_ind3 a) (expr_ind3 b)
    | ENot a => HNot a (expr_ind3 a)
    | EIsNull neg a => HIsNull neg a (expr_ind3 a)
    | EArith op w a b => HArith op w a b (expr_ind3 a) (expr_ind3 b)
    | ENeg w a => HNeg w a (expr_ind3 a)
    | ECase bs els =>
        HCase bs els
          ((fix go (l : list (expr * expr)) : Forall (fun ct => P (fst ct) /\ P (snd ct)) l :=
              match l with
              | [] => Forall_nil _
              | (c, t) :: l' => Forall_cons (c, t) (conj (expr_ind3 c) (expr_ind3 t)) (go l')
              end) bs)
          (expr_ind3 els)
    | EInList neg a es =>
        HInList neg a es (expr_ind3 a)
          ((fix go (l : list expr) : Forall P l :=
              match l with [] => Forall_nil _ | x :: l' => Forall_cons x (expr_ind3 x) (go l') end) es)
    | EExists neg q => HExists neg q (query_ind3 q)
    | EInSub neg a q => HInSub neg a q (expr_ind3 a) (query_ind3 q)
    | EScalar q => HScalar q (query_ind3 q)
    end
  with query_ind3 (q : query) : Q q :=
    match q as q0 return Q q0 with
    | QTable t => HTable t
    | QValues rows =>
        HValues rows
          ((fix go (l : list (list expr)) : Forall (Forall P) l :=
              match l with
              | [] => Forall_nil _
              | r :: l' =>
                  Forall_cons r
                    ((fix go2 (l2 : list expr) : Forall P l2 :=
                        match l2 with [] => Forall_nil _ | x :: l2' => Forall_cons x (expr_ind3 x) (go2 l2') end) r)
                    (go l')
              end) rows)
    | QSelect f wh grp hav sel dis =>
        HSelect f wh grp hav sel dis
          (match f as f0 return optP R f0 with
           | None => I | Some fc => from_ind3 fc end)
          (match wh as w0 return optP P w0 with
           | None => I | Some e => expr_ind3 e end)
          (match grp as g0 return grpP P g0 with
           | None => I
           | Some (keys, aggs) =>
               conj ((fix go (l : list expr) : Forall P l :=
                        match l with [] => Forall_nil _ | x :: l' => Forall_cons x (expr_ind3 x) (go l') end) keys)
                    ((fix go (l : list (aggfn * bool * expr)) : Forall (fun a => P (snd a)) l :=
                        match l with
                        | [] => Forall_nil _
                        | (fd, arg) :: l' => Forall_cons (fd, arg) (expr_ind3 arg) (go l')
                        end) aggs)
           end)
          (match hav as h0 return optP P h0 with
           | None => I | Some e => expr_ind3 e end)
          ((fix go (l : list expr) : Forall P l :=
              match l with [] => Forall_nil _ | x :: l' => Forall_cons x (expr_ind3 x) (go l') end) sel)
    | QUnion all a b => HUnion all a b (query_ind3 a) (query_ind3 b)
    | QOrderLimit q' keys lim off => HOrder q' keys lim off (query_ind3 q')
    end
  with from_ind3 (f : fromc) : R f :=
    match f as f0 return R f0 with
    | FQuery q => HFQuery q (query_ind3 q)
    | FJoin k l r on la ra =>
        HFJoin k l r on la ra (from_ind3 l) (from_ind3 r)
          (match on as o0 return optP P o0 with
           | None => I | Some e => expr_ind3 e end)
    | FLateral k l r on ra =>
        HFLateral k l r on ra (from_ind3 l) (query_ind3 r)
          (match on as o0 return optP P o0 with
           | None => I | Some e => expr_ind3 e end)
    end.

  Lemma sql_ind3 : (forall e, P e) /\ (forall q, Q q) /\ (forall f, R f).
  Proof. split; [exact expr_ind3|split; [exact query_ind3|exact from_ind3]]. Qed.
End SqlInd.

(* ---------------------------------------------------------------- small facts about res *)

Lemma bind_assoc {A B C} (x : res A) (f : A -> res B) (g : B -> res C) :
  bind (bind x f) g = bind x (fun a => bind (f a) g).
Proof. destruct x; reflexivity. Qed.

Lemma bind_ret {A} (x : res A) : bind x (fun a => Ok a) = x.
Proof. destruct x; reflexivity. Qed.

Lemma bind_ok {A B} (x : res A) (f : A -> res B) b :
  bind x f = Ok b -> exists a, x = Ok a /\ f a = Ok b.
Proof. destruct x as [a|e]; cbn [bind]; intros H; [eauto|discriminate]. Qed.

Lemma mapM_map {A B C} (f : B -> res C) (g : A -> B) l : mapM f (map g l) = mapM (fun x => f (g x)) l.
Proof.
  induction l as [|x l IH]; [reflexivity|]. cbn [map]. rewrite !mapM_cons, IH. reflexivity.
Qed.

Lemma mapM_ext_in {A B} (f g : A -> res B) l : (forall x, In x l -> f x = g x) -> mapM f l = mapM g l.
Proof.
  induction l as [|x l IH]; intros H; [reflexivity|].
  rewrite !mapM_cons, (H x (or_introl eq_refl)), IH; [reflexivity|].
  intros y Hy. apply H. right. exact Hy.
Qed.

Lemma mapM_singletons {A} (l : list A) :
  mapM (fun r => Ok [r]) l = Ok (map (fun r => [r]) l).
Proof. apply mapM_total. reflexivity. Qed.

Lemma concat_singletons {A} (l : list A) : concat (map (fun r => [r]) l) = l.
Proof. induction l as [|x l IH]; [reflexivity|]. cbn. rewrite IH. reflexivity. Qed.

(* ---------------------------------------------------------------- relations closed under bind *)

Definition agree {A} (x y : res A) : Prop := forall a b, x = Ok a -> y = Ok b -> a = b.

Lemma agree_refl {A} (x : res A) : agree x x.
Proof. intros a b Ha Hb. congruence. Qed.

Lemma agree_bind {A B} (x y : res A) (f g : A -> res B) :
  agree x y -> (forall a, x = Ok a -> y = Ok a -> agree (f a) (g a)) -> agree (bind x f) (bind y g).
Proof.
  intros Hxy Hfg u v Hu Hv.
  destruct (bind_ok _ _ _ Hu) as [a [Ha Hfa]]. destruct (bind_ok _ _ _ Hv) as [b [Hb Hgb]].
  pose proof (Hxy a b Ha Hb) as E. subst b. exact (Hfg a Ha Hb u v Hfa Hgb).
Qed.

Lemma eq_bind {A B} (x y : res A) (f g : A -> res B) :
  x = y -> (forall a, x = Ok a -> y = Ok a -> f a = g a) -> bind x f = bind y g.
Proof. intros <- H. destruct x as [a|e]; cbn [bind]; [apply H; reflexivity|reflexivity]. Qed.

Lemma filter_none_id (F : row -> expr -> res value) (X : res (list row)) :
  (do src <- X;
   do kept <- mapM (fun r => do b <- opt_pred (F r) None; Ok (if b then [r] else [])) src;
   Ok (concat kept)) = X.
Proof.
  destruct X as [src|e]; [|reflexivity]. cbn [bind opt_pred].
  rewrite (mapM_total _ (fun r => [r])) by reflexivity. cbn [bind]. rewrite concat_singletons. reflexivity.
Qed.

(* Sql.eval_query of a SELECT block, stage by stage *)
Definition sel_src (d : db) (en : env) (f : option fromc) : res (list row) :=
  match f with None => Ok [[]] | Some fc => eval_from d en fc end.
Definition sel_where (d : db) (en : env) (f : option fromc) (wh : option expr) : res (list row) :=
  do src <- sel_src d en f;
  do kept <- mapM (fun r => do b <- opt_pred (eval_expr d (r :: en)) wh; Ok (if b then [r] else [])) src;
  Ok (concat kept).
Definition sel_aggregate (d : db) (en : env) (keys : list expr) (aggs : list (aggfn * bool * expr)) (rows : list row)
  : res (list row) :=
  do kv <- mapM (fun r => do k <- mapM (eval_expr d (r :: en)) keys; Ok (k, r)) rows;
  let groups := match keys, group_rows kv with [], [] => [([], [])] | _, g => g end in
  mapM (fun g =>
          do avs <- mapM (fun a => match a with (fn, dis0, arg) =>
                            do vs <- mapM (fun r => eval_expr d (r :: en) arg) (snd g);
                            agg_apply fn dis0 (length (snd g)) vs end) aggs;
          Ok (fst g ++ avs)) groups.
Definition sel_group (d : db) (en : env) (grp : option (list expr * list (aggfn * bool * expr))) (hav : option expr)
    (rows : list row) : res (list row) :=
  match grp with
  | None => Ok rows
  | Some (keys, aggs) =>
      do grows <- sel_aggregate d en keys aggs rows;
      do hk <- mapM (fun r => do b <- opt_pred (eval_expr d (r :: en)) hav; Ok (if b then [r] else [])) grows;
      Ok (concat hk)
  end.

Lemma eval_select_staged d en f wh grp hav sel dis :
  eval_query d en (QSelect f wh grp hav sel dis)
  = (do rows2 <- bind (sel_where d en f wh) (sel_group d en grp hav);
     do out <- mapM (fun r => mapM (eval_expr d (r :: en)) sel) rows2;
     Ok (if dis then dedup_rows out else out)).
Proof.
  cbn [eval_query]. unfold sel_where, sel_src. rewrite !bind_assoc.
  assert (X : exists src0, src0 = match f with Some fc => eval_from d en fc | None => Ok [[]] end) by eauto.
  destruct X as [src0 Hx]. destruct f as [fc|]; rewrite <- !Hx; clear Hx; (destruct src0 as [src|er]; [|reflexivity]);
  cbn [bind]; rewrite !bind_assoc;
  (destruct (mapM (fun r => do b <- opt_pred (eval_expr d (r :: en)) wh; Ok (if b then [r] else [])) src) as [kept|er];
    [|reflexivity]);
  cbn [bind]; cbv zeta; unfold sel_group; (destruct grp as [[keys aggs]|]; [|reflexivity]);
  unfold sel_aggregate; rewrite !bind_assoc;
  (destruct (mapM (fun r => do k <- mapM (eval_expr d (r :: en)) keys; Ok (k, r)) (concat kept)) as [kv|er];
    [cbn [bind]; cbv zeta; rewrite ?bind_assoc; reflexivity|reflexivity]).
Qed.

Lemma sel_group_some d en keys aggs hav (X : res (list row)) :
  bind X (sel_group d en (Some (keys, aggs)) hav)
  = (do grows <- bind X (sel_aggregate d en keys aggs);
     do hk <- mapM (fun r => do b <- opt_pred (eval_expr d (r :: en)) hav; Ok (if b then [r] else [])) grows;
     Ok (concat hk)).
Proof. unfold sel_group. rewrite bind_assoc. reflexivity. Qed.

Lemma sel_group_none d en hav (X : res (list row)) : bind X (sel_group d en None hav) = X.
Proof. unfold sel_group. apply bind_ret. Qed.

Section Generic.
  Variable rel : forall A : Type, res A -> res A -> Prop.
  Arguments rel {A}.
  Hypothesis rel_refl : forall A (x : res A), rel x x.
  Hypothesis rel_bind : forall A B (x y : res A) (f g : A -> res B),
    rel x y -> (forall a, x = Ok a -> y = Ok a -> rel (f a) (g a)) -> rel (bind x f) (bind y g).

  Lemma rel_eq {A} (x y : res A) : x = y -> rel x y.
  Proof. intros ->. apply rel_refl. Qed.

  Lemma rel_bind1 {A B} (x y : res A) (f : A -> res B) : rel x y -> rel (bind x f) (bind y f).
  Proof. intros H. apply rel_bind; [exact H|]. intros. apply rel_refl. Qed.

  Lemma rel_mapM {A B} (f g : A -> res B) l :
    (forall x, In x l -> rel (f x) (g x)) -> rel (mapM f l) (mapM g l).
  Proof.
    induction l as [|x l IH]; intros H; [apply rel_refl|].
    rewrite !mapM_cons. apply rel_bind; [apply H; left; reflexivity|]. intros y _ _.
    apply rel_bind1. apply IH. intros z Hz. apply H. right. exact Hz.
  Qed.

  Lemma rel_mapM_map {A A' B} (h : A -> A') (f : A' -> res B) (g : A -> res B) l :
    (forall x, In x l -> rel (f (h x)) (g x)) -> rel (mapM f (map h l)) (mapM g l).
  Proof. intros H. rewrite mapM_map. apply rel_mapM. exact H. Qed.

  Lemma rel_join_rows k L R la ra (on on' : row -> res bool) :
    (forall x, rel (on x) (on' x)) -> rel (join_rows k L R la ra on) (join_rows k L R la ra on').
  Proof.
    intros H. destruct k; unfold join_rows.
    - apply rel_bind1. apply rel_mapM. intros l _. apply rel_bind1. apply rel_mapM. intros r _. apply rel_bind1. apply H.
    - apply rel_bind1. apply rel_mapM. intros l _. apply rel_bind1. apply rel_mapM. intros r _. apply rel_bind1. apply H.
    - apply rel_bind1. apply rel_mapM. intros l _. apply rel_bind1. apply rel_mapM. intros r _. apply rel_bind1. apply H.
    - apply rel_bind1. apply rel_mapM. intros r _. apply rel_bind1. apply rel_mapM. intros l _. apply rel_bind1. apply H.
    - apply rel_bind1. apply rel_mapM. intros l _. apply rel_bind1. apply rel_mapM. intros r _. apply H.
    - apply rel_bind1. apply rel_mapM. intros l _. apply rel_bind1. apply rel_mapM. intros r _. apply H.
  Qed.

  (* ---- the planner, for any way `mkjoin` of building a JOIN ... ON node that is `rel`-correct ---- *)
  Variable mkjoin : jkind -> pexpr -> nat -> nat -> lplan -> lplan -> lplan.
  Variable wfj : fromc -> fromc -> expr -> nat -> nat -> bool.
  Variable Wd : db -> Prop.

  Hypothesis Hjoin : forall d en k e la ra fl fr pl pr,
    Wd d -> wfj fl fr e la ra = true ->
    rel (eval_lplan d en pl) (eval_from d en fl) ->
    rel (eval_lplan d en pr) (eval_from d en fr) ->
    (forall x, rel (eval_pexpr d (x :: en) (plan_expr mkjoin e)) (eval_expr d (x :: en) e)) ->
    rel (eval_lplan d en (mkjoin k (plan_expr mkjoin e) la ra pl pr))
        (eval_from d en (FJoin k fl fr (Some e) la ra)).

  Let PE (e : expr) : Prop := wf_expr wfj e = true ->
    forall d en, Wd d -> rel (eval_pexpr d en (plan_expr mkjoin e)) (eval_expr d en e).
  Let PQ (q : query) : Prop := wf_query wfj q = true ->
    forall d en, Wd d -> rel (eval_lplan d en (plan_query mkjoin q)) (eval_query d en q).
  Let PF (f : fromc) : Prop := wf_from wfj f = true ->
    forall d en, Wd d -> rel (eval_lplan d en (plan_from mkjoin f)) (eval_from d en f).

  Lemma forallb_Forall_imp {A} (P : A -> Prop) (f : A -> bool) l :
    Forall (fun x => f x = true -> P x) l -> forallb f l = true -> Forall P l.
  Proof.
    induction 1 as [|x l Hx Hl IH]; intros Hb; [constructor|].
    cbn [forallb] in Hb. apply andb_true_iff in Hb. destruct Hb as [H1 H2]. constructor; [apply Hx, H1|apply IH, H2].
  Qed.

  Lemma rel_collapse {A} (x y : res value) (f : value -> res A) : rel x y -> rel (bind x f) (bind y f).
  Proof. apply rel_bind1. Qed.

  Lemma pe_case d en bs els :
    Forall (fun ct => rel (eval_pexpr d en (plan_expr mkjoin (fst ct))) (eval_expr d en (fst ct)) /\
                      rel (eval_pexpr d en (plan_expr mkjoin (snd ct))) (eval_expr d en (snd ct))) bs ->
    rel (eval_pexpr d en (plan_expr mkjoin els)) (eval_expr d en els) ->
    rel (eval_pexpr d en (plan_expr mkjoin (ECase bs els))) (eval_expr d en (ECase bs els)).
  Proof.
    intros Hbs Hels. cbn [plan_expr eval_pexpr eval_expr].
    induction Hbs as [|[c t] bs [Hc Ht] Hbs IH]; [exact Hels|].
    cbn [map]. cbn [fst snd] in Hc, Ht.
    apply rel_bind; [exact Hc|]. intros cv _ _. destruct (is_true cv); [exact Ht|exact IH].
  Qed.

  Theorem plan_gen_correct : (forall e, PE e) /\ (forall q, PQ q) /\ (forall f, PF f).
  Proof.
    apply sql_ind3; unfold PE, PQ, PF.
    - (* EConst *) intros v _ d en _. apply rel_refl.
    - (* ECol *) intros dd i _ d en _. apply rel_refl.
    - (* ECmp *) intros op a b IHa IHb Hw d en Hd. cbn [wf_expr] in Hw. apply andb_true_iff in Hw. destruct Hw as [Ha Hb].
      cbn [plan_expr eval_pexpr eval_expr]. apply rel_bind; [apply IHa; assumption|]. intros x _ _.
      apply rel_bind1. apply IHb; assumption.
    - (* EDistinct *) intros neg a b IHa IHb Hw d en Hd. cbn [wf_expr] in Hw. apply andb_true_iff in Hw. destruct Hw as [Ha Hb].
      cbn [plan_expr eval_pexpr eval_expr]. apply rel_bind; [apply IHa; assumption|]. intros x _ _.
      apply rel_bind1. apply IHb; assumption.
    - (* EAnd *) intros a b IHa IHb Hw d en Hd. cbn [wf_expr] in Hw. apply andb_true_iff in Hw. destruct Hw as [Ha Hb].
      cbn [plan_expr eval_pexpr eval_expr]. apply rel_bind; [apply IHa; assumption|]. intros x _ _.
      apply rel_bind1. apply IHb; assumption.
    - (* EOr *) intros a b IHa IHb Hw d en Hd. cbn [wf_expr] in Hw. apply andb_true_iff in Hw. destruct Hw as [Ha Hb].
      cbn [plan_expr eval_pexpr eval_expr]. apply rel_bind; [apply IHa; assumption|]. intros x _ _.
      apply rel_bind1. apply IHb; assumption.
    - (* ENot *) intros a IHa Hw d en Hd. cbn [wf_expr] in Hw.
      cbn [plan_expr eval_pexpr eval_expr]. apply rel_bind1. apply IHa; assumption.
    - (* EIsNull *) intros neg a IHa Hw d en Hd. cbn [wf_expr] in Hw.
      cbn [plan_expr eval_pexpr eval_expr]. apply rel_bind1. apply IHa; assumption.
    - (* EArith *) intros op w a b IHa IHb Hw d en Hd. cbn [wf_expr] in Hw. apply andb_true_iff in Hw. destruct Hw as [Ha Hb].
      cbn [plan_expr eval_pexpr eval_expr]. apply rel_bind; [apply IHa; assumption|]. intros x _ _.
      apply rel_bind1. apply IHb; assumption.
    - (* ENeg *) intros w a IHa Hw d en Hd. cbn [wf_expr] in Hw.
      cbn [plan_expr eval_pexpr eval_expr]. apply rel_bind1. apply IHa; assumption.
    - (* ECase *) intros bs els IHbs IHels Hw d en Hd. cbn [wf_expr] in Hw. apply andb_true_iff in Hw. destruct Hw as [Hb He].
      apply pe_case; [|apply IHels; assumption].
      clear IHels He. induction IHbs as [|[c t] bs [Hc Ht] _ IH]; [constructor|].
      cbn [forallb] in Hb. apply andb_true_iff in Hb. destruct Hb as [Hct Hb]. apply andb_true_iff in Hct. destruct Hct as [Hwc Hwt].
      constructor; [|apply IH, Hb]. cbn [fst snd] in *. split; [apply Hc|apply Ht]; assumption.
    - (* EInList *) intros neg a es IHa IHes Hw d en Hd. cbn [wf_expr] in Hw. apply andb_true_iff in Hw. destruct Hw as [Ha Hes].
      cbn [plan_expr eval_pexpr eval_expr]. apply rel_bind; [apply IHa; assumption|]. intros x _ _.
      apply rel_bind1. apply rel_mapM_map. intros y Hy.
      rewrite Forall_forall in IHes. rewrite forallb_forall in Hes. apply IHes; [exact Hy|apply Hes, Hy|exact Hd].
    - (* EExists *) intros neg q IHq Hw d en Hd. cbn [wf_expr] in Hw.
      cbn [plan_expr eval_pexpr eval_expr]. apply rel_bind1. apply IHq; assumption.
    - (* EInSub *) intros neg a q IHa IHq Hw d en Hd. cbn [wf_expr] in Hw. apply andb_true_iff in Hw. destruct Hw as [Ha Hq].
      cbn [plan_expr eval_pexpr eval_expr]. apply rel_bind; [apply IHa; assumption|]. intros x _ _.
      apply rel_bind1. apply IHq; assumption.
    - (* EScalar *) intros q IHq Hw d en Hd. cbn [wf_expr] in Hw.
      cbn [plan_expr eval_pexpr eval_expr]. apply rel_bind1. apply IHq; assumption.
    - (* QTable *) intros t _ d en _. apply rel_refl.
    - (* QValues *) intros rows IH Hw d en Hd. cbn [wf_query] in Hw.
      cbn [plan_query eval_lplan eval_query]. apply rel_mapM_map. intros r Hr.
      apply rel_mapM_map. intros e He.
      rewrite Forall_forall in IH. specialize (IH r Hr). rewrite Forall_forall in IH.
      rewrite forallb_forall in Hw. specialize (Hw r Hr). rewrite forallb_forall in Hw.
      apply IH; [exact He|apply Hw, He|exact Hd].
    - (* QSelect *)
      intros f wh grp hav sel dis IHf IHwh IHgrp IHhav IHsel Hw d en Hd.
      cbn [wf_query] in Hw. repeat (apply andb_true_iff in Hw; destruct Hw as [Hw ?Hw']).
      rename Hw into Hwf, Hw' into Hwsel, Hw'0 into Hwhav, Hw'1 into Hwgrp, Hw'2 into Hwwh.
      rewrite eval_select_staged. cbn [plan_query].
      (* stage 0: FROM *)
      set (p0 := match f with None => LSingleRow | Some fc => plan_from mkjoin fc end).
      assert (H0 : rel (eval_lplan d en p0) (sel_src d en f)).
      { subst p0. unfold sel_src. destruct f as [fc|]; [apply IHf; assumption|apply rel_refl]. }
      (* stage 1: WHERE *)
      set (p1 := match wh with None => p0 | Some e => LFilter (plan_expr mkjoin e) p0 end).
      assert (H1 : rel (eval_lplan d en p1) (sel_where d en f wh)).
      { subst p1. unfold sel_where. destruct wh as [e|].
        - cbn [eval_lplan]. apply rel_bind; [exact H0|]. intros src _ _. unfold rfilter.
          apply rel_bind1. apply rel_mapM. intros r _. apply rel_bind1.
          cbn [opt_pred]. apply rel_bind1. apply IHwh; assumption.
        - rewrite (filter_none_id (fun r => eval_expr d (r :: en))). exact H0. }
      (* stage 2: GROUP BY + HAVING *)
      set (p2 := match grp with
                 | None => p1
                 | Some (keys, aggs) =>
                     let a := LAggregate (map (plan_expr mkjoin) keys)
                                (map (fun x => match x with (fn, dis0, arg) => (fn, dis0, plan_expr mkjoin arg) end) aggs) p1 in
                     match hav with None => a | Some e => LFilter (plan_expr mkjoin e) a end
                 end).
      assert (H2 : rel (eval_lplan d en p2) (bind (sel_where d en f wh) (sel_group d en grp hav))).
      { subst p2. destruct grp as [[keys aggs]|].
        - cbn [grpP fst snd] in IHgrp. destruct IHgrp as [IHk IHa].
          apply andb_true_iff in Hwgrp. destruct Hwgrp as [Hwk Hwa].
          rewrite Forall_forall in IHk, IHa. rewrite forallb_forall in Hwk, Hwa.
          assert (HA : rel (eval_lplan d en (LAggregate (map (plan_expr mkjoin) keys)
                              (map (fun x => match x with (fn, dis0, arg) => (fn, dis0, plan_expr mkjoin arg) end) aggs) p1))
                           (bind (sel_where d en f wh) (sel_aggregate d en keys aggs))).
          { cbn [eval_lplan]. apply rel_bind; [exact H1|]. intros rows _ _. unfold ragg, sel_aggregate.
            apply rel_bind.
            - apply rel_mapM. intros r _. apply rel_bind1. apply rel_mapM_map. intros e He.
              apply IHk; [exact He|apply Hwk, He|exact Hd].
            - intros kv _ _.
              assert (Eg : match (match map (plan_expr mkjoin) keys with [] => true | _ :: _ => false end), group_rows kv with
                           | true, [] => [([], [])] | _, g => g end
                         = match keys, group_rows kv with [], [] => [([], [])] | _, g => g end).
              { destruct keys; reflexivity. }
              cbv zeta. rewrite Eg. apply rel_mapM. intros g _. unfold agg_row.
              apply rel_bind1. rewrite !mapM_map. apply rel_mapM. intros [[fn dis0] arg] Ha. cbv beta iota.
              apply rel_bind1. apply rel_mapM. intros r _.
              apply (IHa (fn, dis0, arg) Ha); [exact (Hwa _ Ha)|exact Hd]. }
          cbv zeta. rewrite sel_group_some.
          destruct hav as [e|].
          + cbn [eval_lplan]. unfold rfilter. apply rel_bind; [exact HA|]. intros grows _ _.
            apply rel_bind1. apply rel_mapM. intros r _. apply rel_bind1. cbn [opt_pred]. apply rel_bind1.
            apply IHhav; assumption.
          + assert (E : (do grows <- bind (sel_where d en f wh) (sel_aggregate d en keys aggs);
                         do hk <- mapM (fun r => do b <- opt_pred (eval_expr d (r :: en)) None; Ok (if b then [r] else [])) grows;
                         Ok (concat hk))
                        = bind (sel_where d en f wh) (sel_aggregate d en keys aggs)).
            { apply (filter_none_id (fun r => eval_expr d (r :: en))). }
            rewrite E. exact HA.
        - rewrite sel_group_none. exact H1. }
      (* stage 3: projection, DISTINCT *)
      assert (Hproj : forall rows2, rel (rproject (fun r => mapM (eval_pexpr d (r :: en)) (map (plan_expr mkjoin) sel)) rows2)
                                        (mapM (fun r => mapM (eval_expr d (r :: en)) sel) rows2)).
      { intros rows2. unfold rproject.
        apply rel_mapM. intros r _. apply rel_mapM_map. intros e He.
        rewrite Forall_forall in IHsel. rewrite forallb_forall in Hwsel. apply IHsel; [exact He|apply Hwsel, He|exact Hd]. }
      destruct dis.
      + cbn [eval_lplan]. rewrite bind_assoc. apply rel_bind; [exact H2|]. intros rows2 _ _.
        unfold rdistinct. apply rel_bind1. apply Hproj.
      + cbn [eval_lplan]. apply rel_bind; [exact H2|]. intros rows2 _ _. rewrite bind_ret. apply Hproj.
    - (* QUnion *) intros all a b IHa IHb Hw d en Hd. cbn [wf_query] in Hw. apply andb_true_iff in Hw. destruct Hw as [Ha Hb].
      cbn [plan_query eval_lplan eval_query]. apply rel_bind; [apply IHa; assumption|]. intros x _ _.
      apply rel_bind1. apply IHb; assumption.
    - (* QOrderLimit *) intros q keys lim off IHq Hw d en Hd. cbn [wf_query] in Hw.
      cbn [plan_query eval_query].
      assert (Ho : rel (eval_lplan d en (match keys with [] => plan_query mkjoin q | _ :: _ => LOrder keys (plan_query mkjoin q) end))
                       (do rows <- eval_query d en q; Ok (sort_by keys rows))).
      { destruct keys as [|k0 ks].
        - assert (E : (do rows <- eval_query d en q; Ok (sort_by [] rows)) = eval_query d en q).
          { destruct (eval_query d en q) as [rows|er]; [|reflexivity]. cbn [bind]. f_equal.
            unfold sort_by. induction rows as [|r rows IH]; [reflexivity|]. cbn [fold_right]. rewrite IH.
            destruct rows; reflexivity. }
          rewrite E. apply IHq; assumption.
        - cbn [eval_lplan]. unfold rsort. apply rel_bind1. apply IHq; assumption. }
      assert (El : (do rows <- eval_query d en q; Ok (slice_rows off lim (sort_by keys rows)))
                   = (do s <- (do rows <- eval_query d en q; Ok (sort_by keys rows)); Ok (slice_rows off lim s))).
      { rewrite bind_assoc. reflexivity. }
      rewrite El.
      destruct lim as [n|]; [|destruct off as [|off]].
      + cbn [eval_lplan]. unfold rlimit. apply rel_bind1. exact Ho.
      + assert (E0 : (do s <- (do rows <- eval_query d en q; Ok (sort_by keys rows)); Ok (slice_rows 0 None s))
                     = (do rows <- eval_query d en q; Ok (sort_by keys rows))).
        { rewrite bind_assoc. destruct (eval_query d en q); reflexivity. }
        rewrite E0. exact Ho.
      + cbn [eval_lplan]. unfold rlimit. apply rel_bind1. exact Ho.
    - (* FQuery *) intros q IHq Hw d en Hd. cbn [wf_from] in Hw. cbn [plan_from eval_from].
      destruct q; cbn [eval_lplan]; apply IHq; assumption.
    - (* FJoin *) intros k l r on la ra IHl IHr IHon Hw d en Hd. cbn [wf_from] in Hw.
      apply andb_true_iff in Hw. destruct Hw as [Hw Hon]. apply andb_true_iff in Hw. destruct Hw as [Hl Hr].
      destruct on as [e|].
      + apply andb_true_iff in Hon. destruct Hon as [He Hj]. cbn [plan_from].
        apply Hjoin; try assumption; [apply IHl; assumption|apply IHr; assumption|].
        intros x. apply IHon; assumption.
      + cbn [plan_from eval_from]. destruct (is_inner k) eqn:Ek.
        * cbn [eval_lplan]. apply rel_bind; [apply IHl; assumption|]. intros L _ _.
          apply rel_bind; [apply IHr; assumption|]. intros R _ _. apply rel_eq. cbn [opt_pred].
          symmetry. change (join_rows k L R la ra (fun _ => Ok true)) with (rjoin k L R la ra (fun _ => Ok true)).
          rewrite rjoin_total by (intros x y _ _; eauto).
          rewrite (rcross_is_cross_join la ra). destruct k; try discriminate Ek; reflexivity.
        * cbn [eval_lplan]. apply rel_bind; [apply IHl; assumption|]. intros L _ _.
          apply rel_bind; [apply IHr; assumption|]. intros R _ _. apply rel_refl.
    - (* FLateral *) intros k l r on ra IHl IHr IHon Hw d en Hd. cbn [wf_from] in Hw.
      apply andb_true_iff in Hw. destruct Hw as [Hw Hon]. apply andb_true_iff in Hw. destruct Hw as [Hl Hr].
      cbn [plan_from eval_lplan eval_from]. apply rel_bind; [apply IHl; assumption|]. intros L _ _.
      apply rel_bind1. apply rel_mapM. intros lr _. apply rel_bind; [apply IHr; assumption|]. intros R _ _.
      unfold rjoin. apply rel_join_rows. intros x. destruct on as [e|]; cbn [option_map opt_pred].
      * apply rel_bind1. apply IHon; assumption.
      * apply rel_refl.
  Qed.
End Generic.


(* ---------------------------------------------------------------- instance 1: ON kept whole, equality *)

Definition wf_any : fromc -> fromc -> expr -> nat -> nat -> bool := fun _ _ _ _ _ => true.

Lemma wf_trivial :
  (forall e, wf_expr wf_any e = true) /\ (forall q, wf_query wf_any q = true) /\ (forall f, wf_from wf_any f = true).
Proof.
  apply sql_ind3.
  - reflexivity.
  - reflexivity.
  - intros op a b Ha Hb. change (wf_expr wf_any a && wf_expr wf_any b = true). rewrite Ha, Hb. reflexivity.
  - intros neg a b Ha Hb. change (wf_expr wf_any a && wf_expr wf_any b = true). rewrite Ha, Hb. reflexivity.
  - intros a b Ha Hb. change (wf_expr wf_any a && wf_expr wf_any b = true). rewrite Ha, Hb. reflexivity.
  - intros a b Ha Hb. change (wf_expr wf_any a && wf_expr wf_any b = true). rewrite Ha, Hb. reflexivity.
  - intros a Ha. exact Ha.
  - intros neg a Ha. exact Ha.
  - intros op w a b Ha Hb. change (wf_expr wf_any a && wf_expr wf_any b = true). rewrite Ha, Hb. reflexivity.
  - intros w a Ha. exact Ha.
  - intros bs els Hbs Hels.
    change (forallb (fun ct => match ct with (c, t) => wf_expr wf_any c && wf_expr wf_any t end) bs && wf_expr wf_any els = true).
    rewrite Hels, andb_true_r. apply forallb_forall. intros [c t] Hin. rewrite Forall_forall in Hbs.
    destruct (Hbs _ Hin) as [Hc Ht]. cbn [fst snd] in *. rewrite Hc, Ht. reflexivity.
  - intros neg a es Ha Hes. change (wf_expr wf_any a && forallb (wf_expr wf_any) es = true). rewrite Ha. cbn [andb].
    apply forallb_forall. rewrite Forall_forall in Hes. exact Hes.
  - intros neg q Hq. exact Hq.
  - intros neg a q Ha Hq. change (wf_expr wf_any a && wf_query wf_any q = true). rewrite Ha, Hq. reflexivity.
  - intros q Hq. exact Hq.
  - reflexivity.
  - intros rows H. change (forallb (forallb (wf_expr wf_any)) rows = true).
    apply forallb_forall. intros r Hr. apply forallb_forall. rewrite Forall_forall in H.
    specialize (H r Hr). rewrite Forall_forall in H. exact H.
  - intros f wh grp hav sel dis H H0 H1 H2 H3.
    change (match f with Some fc => wf_from wf_any fc | None => true end
            && match wh with Some e => wf_expr wf_any e | None => true end
            && match grp with
               | Some (keys, aggs) => forallb (wf_expr wf_any) keys &&
                      forallb (fun a => match a with (_, _, arg) => wf_expr wf_any arg end) aggs
               | None => true end
            && match hav with Some e => wf_expr wf_any e | None => true end
            && forallb (wf_expr wf_any) sel = true).
    assert (E1 : match f with Some fc => wf_from wf_any fc | None => true end = true)
      by (destruct f; [exact H|reflexivity]).
    assert (E2 : match wh with Some e => wf_expr wf_any e | None => true end = true)
      by (destruct wh; [exact H0|reflexivity]).
    assert (E4 : match hav with Some e => wf_expr wf_any e | None => true end = true)
      by (destruct hav; [exact H2|reflexivity]).
    assert (E3 : match grp with
                 | Some (keys, aggs) => forallb (wf_expr wf_any) keys &&
                      forallb (fun a => match a with (_, _, arg) => wf_expr wf_any arg end) aggs
                 | None => true end = true).
    { destruct grp as [[keys aggs]|]; [|reflexivity]. cbn [grpP fst snd] in H1. destruct H1 as [Hk Ha].
      rewrite Forall_forall in Hk, Ha. apply andb_true_iff. split; apply forallb_forall.
      - exact Hk.
      - intros [[fn dis0] arg] Hin. exact (Ha _ Hin). }
    rewrite E1, E2, E3, E4. cbn [andb]. apply forallb_forall. rewrite Forall_forall in H3. exact H3.
  - intros all a b Ha Hb. change (wf_query wf_any a && wf_query wf_any b = true). rewrite Ha, Hb. reflexivity.
  - intros q keys lim off Hq. exact Hq.
  - intros q Hq. exact Hq.
  - intros k l r on la ra Hl Hr Hon.
    change (wf_from wf_any l && wf_from wf_any r && match on with Some e => wf_expr wf_any e && true | None => true end = true).
    rewrite Hl, Hr. destruct on as [e|]; [|reflexivity]. cbn [optP] in Hon. rewrite Hon. reflexivity.
  - intros k l r on ra Hl Hr Hon.
    change (wf_from wf_any l && wf_query wf_any r && match on with Some e => wf_expr wf_any e | None => true end = true).
    rewrite Hl, Hr. destruct on as [e|]; [|reflexivity]. cbn [optP] in Hon. rewrite Hon. reflexivity.
Qed.

Theorem plan0_correct : forall d en q, eval_lplan d en (plan0_of q) = eval_query d en q.
Proof.
  intros d en q.
  pose proof (plan_gen_correct (fun A x y => x = y) (fun A x => eq_refl) (@eq_bind)
                whole_join wf_any (fun _ => True)) as G.
  cbv beta in G.
  assert (Hj : forall d en k e la ra fl fr pl pr, True -> true = true ->
     eval_lplan d en pl = eval_from d en fl -> eval_lplan d en pr = eval_from d en fr ->
     (forall x, eval_pexpr d (x :: en) (plan_expr whole_join e) = eval_expr d (x :: en) e) ->
     eval_lplan d en (whole_join k (plan_expr whole_join e) la ra pl pr) = eval_from d en (FJoin k fl fr (Some e) la ra)).
  { clear. intros d en k e la ra fl fr pl pr _ _ Hl Hr He. unfold whole_join. cbn [eval_lplan eval_from].
    rewrite Hl, Hr. apply eq_bind; [reflexivity|]. intros L _ _. apply eq_bind; [reflexivity|]. intros R _ _.
    unfold rjoin.
    apply (rel_join_rows (fun A x y => x = y) (fun A x => eq_refl) (@eq_bind)).
    intros x. cbn [opt_pred]. rewrite He. reflexivity. }
  destruct (G Hj) as [_ [GQ _]]. apply GQ; [apply wf_trivial|exact I].
Qed.
