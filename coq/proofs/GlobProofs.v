(* C11 proofs, part 2: the directory walk of GlobHandle is exact for patterns without `**`
   (it returns each matching file once, and nothing else) and is refuted, with closed witnesses,
   for `**` followed by another segment. *)
From Coq Require Import List Bool NArith Lia Arith PeanoNat.
From GV Require Import model.Glob.
Import ListNotations.

Scheme node_mut := Induction for node Sort Prop
with forest_mut := Induction for forest Sort Prop.
Combined Scheme node_forest_ind from node_mut, forest_mut.

Definition nodstar (segs : list seg) : Prop := forall s, In s segs -> dstar s = false.

Lemma nodstar_tail : forall s r, nodstar (s :: r) -> dstar s = false /\ nodstar r.
Proof. intros s r H. split; [apply H; left; reflexivity|]. intros x Hx; apply H; right; exact Hx. Qed.

Lemma filter_app_g : forall {A} (p : A -> bool) l1 l2, filter p (l1 ++ l2) = filter p l1 ++ filter p l2.
Proof. intros A p l1 l2; induction l1 as [|x r IH]; cbn; [reflexivity|]. destruct (p x); cbn; rewrite IH; reflexivity. Qed.

Section Proofs.
  Variable m : N -> name -> bool.

  Lemma walk_dir_eq : forall n ch path segs,
    walk m (Dir n ch) path segs = emits m ch path segs ++ subs m ch path segs.
  Proof. reflexivity. Qed.
  Lemma subs_cons_eq : forall c r path segs,
    subs m (FCons c r) path segs =
    subs m r path segs ++
    match c, segs with
    | Dir n _, s :: rest =>
        if dstar s then
          (match rest with [] => [] | _ :: _ => walk m c (path ++ [n]) rest end) ++ walk m c (path ++ [n]) segs
        else if m (sid s) n then
          (match rest with [] => [] | _ :: _ => walk m c (path ++ [n]) rest end)
        else []
    | _, _ => []
    end.
  Proof. reflexivity. Qed.
  Lemma files_dir_eq : forall n ch, files (Dir n ch) = files_here ch ++ files_sub ch.
  Proof. reflexivity. Qed.
  Lemma files_sub_cons_eq : forall c r,
    files_sub (FCons c r) = files_sub r ++ match c with Dir n _ => map (cons n) (files c) | File _ => [] end.
  Proof. reflexivity. Qed.

  (* ---- the stack loop (model `run`) computes `walk` ---- *)
  Lemma rev_app_frames : forall (a b : list frame), rev (a ++ b) = rev b ++ rev a.
  Proof. intros a b. apply rev_app_distr. Qed.

  Lemma run_walk :
    (forall t n ch, t = Dir n ch -> forall path segs, exists fuel, forall k below acc,
        run m (fuel + k) (mk_fr ch path false segs :: below) acc = run m k below (acc ++ walk m t path segs)) /\
    (forall f path segs, exists fuel, forall k below acc,
        run m (fuel + k) (rev (pushes m f path segs) ++ below) acc = run m k below (acc ++ subs m f path segs)).
  Proof.
    apply node_forest_ind.
    - intros n n' ch' E. discriminate.
    - intros n ch IH n' ch' E path segs. injection E as <- <-.
      destruct (IH path segs) as [fuel H]. exists (S (fuel + 1)). intros k below acc.
      cbn [Nat.add run fr_done fr_ch fr_path fr_segs].
      replace (fuel + 1 + k) with (fuel + S k) by lia.
      rewrite H. cbn [run fr_done]. rewrite walk_dir_eq, <- app_assoc. reflexivity.
    - intros path segs. exists 0. intros k below acc. cbn. rewrite app_nil_r. reflexivity.
    - intros c IHc r IHr path segs.
      destruct (IHr path segs) as [fr Hr].
      (* the frames pushed for the entry c alone *)
      assert (Hc : exists fc, forall k below acc,
                 run m (fc + k)
                   (rev (match c, segs with
                         | Dir n _, s :: rest =>
                             if dstar s then
                               child_frame c path segs ++ (match rest with [] => [] | _ :: _ => child_frame c path rest end)
                             else if m (sid s) n then
                               (match rest with [] => [] | _ :: _ => child_frame c path rest end)
                             else []
                         | _, _ => []
                         end) ++ below) acc
                 = run m k below
                     (acc ++ match c, segs with
                             | Dir n _, s :: rest =>
                                 if dstar s then
                                   (match rest with [] => [] | _ :: _ => walk m c (path ++ [n]) rest end)
                                   ++ walk m c (path ++ [n]) segs
                                 else if m (sid s) n then
                                   (match rest with [] => [] | _ :: _ => walk m c (path ++ [n]) rest end)
                                 else []
                             | _, _ => []
                             end)).
      { assert (Z : exists fc : nat, forall k below acc, run m (fc + k) (rev [] ++ below) acc = run m k below (acc ++ [])).
        { exists 0. intros k below acc. cbn. rewrite app_nil_r. reflexivity. }
        destruct c as [n|n ch]; [exact Z|].
        destruct segs as [|s rest]; [exact Z|].
        assert (One : forall segs', exists f1, forall k below acc,
                   run m (f1 + k) (rev (child_frame (Dir n ch) path segs') ++ below) acc
                   = run m k below (acc ++ walk m (Dir n ch) (path ++ [n]) segs')).
        { intro segs'. destruct (IHc n ch eq_refl (path ++ [n]) segs') as [f1 H1]. exists f1. intros k below acc.
          cbn [child_frame rev app]. apply H1. }
        destruct (dstar s).
        - destruct rest as [|s2 rest'].
          + rewrite app_nil_r. cbn [app]. apply One.
          + destruct (One (s :: s2 :: rest')) as [f1 H1]. destruct (One (s2 :: rest')) as [f2 H2].
            exists (f2 + f1). intros k below acc.
            rewrite rev_app_frames, <- app_assoc, <- Nat.add_assoc, H2, H1, <- app_assoc. reflexivity.
        - destruct (m (sid s) n); [|exact Z].
          destruct rest as [|s2 rest']; [exact Z|]. apply One. }
      destruct Hc as [fc Hc].
      exists (fr + fc). intros k below acc.
      cbn [pushes]. rewrite subs_cons_eq.
      rewrite rev_app_frames, <- app_assoc, <- Nat.add_assoc, Hr, Hc, <- app_assoc. reflexivity.
  Qed.

  Lemma expand_stack_is_expand : forall root segs,
    exists fuel, forall k, expand_stack m (fuel + S k) root segs = Some (expand m root segs).
  Proof.
    intros [n|n ch] segs.
    - exists 0. intro k. reflexivity.
    - destruct (proj1 run_walk (Dir n ch) n ch eq_refl [] segs) as [fuel H].
      exists fuel. intro k. unfold expand_stack, expand. rewrite H. reflexivity.
  Qed.

  (* no segment left: nothing is listed (the code never pushes such a handle) *)
  Lemma walk_nil_all :
    (forall t path, walk m t path [] = []) /\
    (forall f path, emits m f path [] = [] /\ subs m f path [] = []).
  Proof.
    apply node_forest_ind.
    - intros n path. reflexivity.
    - intros n ch IH path. rewrite walk_dir_eq. destruct (IH path) as [-> ->]. reflexivity.
    - intros path. split; reflexivity.
    - intros c IHc r IHr path. destruct (IHr path) as [He Hs]. split.
      + destruct c; cbn [emits]; rewrite He; reflexivity.
      + rewrite subs_cons_eq. rewrite Hs. destruct c; reflexivity.
  Qed.

  Lemma gmatch_nil_cons : forall n q, gmatch m [] (n :: q) = false.
  Proof. reflexivity. Qed.

  Lemma gmatch_nodstar_nil : forall segs, nodstar segs -> segs <> [] -> gmatch m segs [] = false.
  Proof.
    intros [|s r] Hn Hne; [contradiction|].
    destruct (nodstar_tail _ _ Hn) as [Hs _]. cbn [gmatch]. rewrite Hs. reflexivity.
  Qed.

  Lemma gmatch_cons : forall s rest n q, dstar s = false ->
    gmatch m (s :: rest) (n :: q) = m (sid s) n && gmatch m rest q.
  Proof. intros s rest n q Hs. cbn [gmatch]. rewrite Hs. reflexivity. Qed.

  Lemma gmatch_single : forall segs n, nodstar segs ->
    gmatch m segs [n] = match segs with [s] => m (sid s) n | _ => false end.
  Proof.
    intros [|s [|s2 r]] n Hn; [reflexivity| |].
    - destruct (nodstar_tail _ _ Hn) as [Hs _]. rewrite gmatch_cons by exact Hs. cbn [gmatch]. apply andb_true_r.
    - destruct (nodstar_tail _ _ Hn) as [Hs Hr]. rewrite gmatch_cons by exact Hs.
      rewrite (gmatch_nodstar_nil (s2 :: r) Hr) by discriminate. apply andb_false_r.
  Qed.

  Lemma filter_map_cons : forall s rest n (l : list (list name)), dstar s = false ->
    filter (gmatch m (s :: rest)) (map (cons n) l) =
    if m (sid s) n then map (cons n) (filter (gmatch m rest) l) else [].
  Proof.
    intros s rest n l Hs; induction l as [|q r IH]; cbn [map filter].
    - destruct (m (sid s) n); reflexivity.
    - rewrite gmatch_cons by exact Hs. rewrite IH.
      destruct (m (sid s) n); cbn [andb]; [|reflexivity].
      destruct (gmatch m rest q); reflexivity.
  Qed.

  Lemma filter_nil_map_cons : forall n (l : list (list name)), filter (gmatch m []) (map (cons n) l) = [].
  Proof. intros n l; induction l as [|q r IH]; cbn [map filter]; [reflexivity|]. rewrite gmatch_nil_cons. exact IH. Qed.

  Lemma map_app_cons : forall (path : list name) n l,
    map (app path) (map (cons n) l) = map (app (path ++ [n])) l.
  Proof. intros path n l. rewrite map_map. apply map_ext. intro q. rewrite <- app_assoc. reflexivity. Qed.

  (* the walk computes the declarative answer, in walk order *)
  Lemma walk_is_filter :
    (forall t path segs, nodstar segs ->
       walk m t path segs = map (app path) (filter (gmatch m segs) (files t))) /\
    (forall f path segs, nodstar segs ->
       emits m f path segs = map (app path) (filter (gmatch m segs) (files_here f)) /\
       subs m f path segs = map (app path) (filter (gmatch m segs) (files_sub f))).
  Proof.
    apply node_forest_ind.
    - intros n path segs _. reflexivity.
    - intros n ch IH path segs Hn. rewrite walk_dir_eq, files_dir_eq.
      destruct (IH path segs Hn) as [-> ->]. rewrite filter_app_g, map_app. reflexivity.
    - intros path segs _. split; reflexivity.
    - intros c IHc r IHr path segs Hn. destruct (IHr path segs Hn) as [He Hs]. split.
      + destruct c as [n|n ch]; cbn [emits files_here]; [|exact He].
        rewrite He. cbn [filter]. rewrite (gmatch_single segs n Hn).
        destruct segs as [|s [|s2 rest]]; [reflexivity| |reflexivity].
        destruct (nodstar_tail _ _ Hn) as [Hds _]. rewrite Hds.
        destruct (m (sid s) n); reflexivity.
      + rewrite subs_cons_eq, files_sub_cons_eq. rewrite Hs, filter_app_g, map_app. f_equal.
        destruct c as [n|n ch]; [reflexivity|].
        destruct segs as [|s rest].
        * rewrite filter_nil_map_cons. reflexivity.
        * destruct (nodstar_tail _ _ Hn) as [Hds Hrest]. rewrite Hds.
          rewrite filter_map_cons by exact Hds.
          destruct (m (sid s) n); [|reflexivity].
          rewrite map_app_cons. rewrite <- (IHc (path ++ [n]) rest Hrest).
          destruct rest as [|s2 rest']; [|reflexivity].
          symmetry. apply (proj1 walk_nil_all).
  Qed.

  (* ---- the same for patterns whose only `**` is the LAST segment ---- *)
  Fixpoint okp (segs : list seg) : Prop :=
    match segs with
    | [] => True
    | s :: r => match r with [] => True | _ :: _ => dstar s = false /\ okp r end
    end.

  Lemma nodstar_okp : forall segs, nodstar segs -> okp segs.
  Proof.
    induction segs as [|s r IH]; intro Hn; [exact I|].
    destruct (nodstar_tail _ _ Hn) as [Hs Hr]. cbn [okp]. destruct r as [|s2 r']; [exact I|].
    split; [exact Hs|apply IH; exact Hr].
  Qed.

  Lemma gmatch_okp_nil : forall segs, okp segs -> segs <> [] -> gmatch m segs [] = false.
  Proof.
    intros [|s r] Hk Hne; [contradiction|]. cbn [gmatch].
    destruct r as [|s2 r'].
    - destruct (dstar s); reflexivity.
    - destruct Hk as [Hs _]. rewrite Hs. reflexivity.
  Qed.

  Lemma files_nonempty :
    (forall t q, In q (files t) -> q <> []) /\
    (forall f, (forall q, In q (files_here f) -> q <> []) /\ (forall q, In q (files_sub f) -> q <> [])).
  Proof.
    apply node_forest_ind.
    - intros n q [].
    - intros n ch [H1 H2] q Hq. rewrite files_dir_eq in Hq. apply in_app_or in Hq. destruct Hq; auto.
    - split; intros q [].
    - intros c IHc r [R1 R2]. split.
      + intros q Hq. destruct c as [n|n ch]; cbn [files_here] in Hq; [|auto].
        destruct Hq as [<-|Hq]; [discriminate|auto].
      + intros q Hq. rewrite files_sub_cons_eq in Hq. apply in_app_or in Hq. destruct Hq as [Hq|Hq]; [auto|].
        destruct c as [n|n ch]; [destruct Hq|]. apply in_map_iff in Hq. destruct Hq as (q' & <- & _). discriminate.
  Qed.

  Lemma filter_all : forall {A} (p : A -> bool) l, (forall x, In x l -> p x = true) -> filter p l = l.
  Proof.
    intros A p l; induction l as [|x r IH]; intro H; cbn; [reflexivity|].
    rewrite (H x (or_introl eq_refl)). f_equal. apply IH. intros y Hy; apply H; right; exact Hy.
  Qed.

  Lemma gmatch_last_dstar : forall s q, dstar s = true -> q <> [] -> gmatch m [s] q = true.
  Proof. intros s q Hs Hq. cbn [gmatch]. rewrite Hs. destruct q; [contradiction|reflexivity]. Qed.

  Lemma walk_is_filter_okp :
    (forall t path segs, okp segs ->
       walk m t path segs = map (app path) (filter (gmatch m segs) (files t))) /\
    (forall f path segs, okp segs ->
       emits m f path segs = map (app path) (filter (gmatch m segs) (files_here f)) /\
       subs m f path segs = map (app path) (filter (gmatch m segs) (files_sub f))).
  Proof.
    apply node_forest_ind.
    - intros n path segs _. reflexivity.
    - intros n ch IH path segs Hn. rewrite walk_dir_eq, files_dir_eq.
      destruct (IH path segs Hn) as [-> ->]. rewrite filter_app_g, map_app. reflexivity.
    - intros path segs _. split; reflexivity.
    - intros c IHc r IHr path segs Hn. destruct (IHr path segs Hn) as [He Hs]. split.
      + destruct c as [n|n ch]; cbn [emits files_here]; [|exact He].
        rewrite He. cbn [filter].
        destruct segs as [|s [|s2 rest]]; [reflexivity| |].
        * destruct (dstar s) eqn:Hds.
          -- rewrite (gmatch_last_dstar s [n] Hds) by discriminate. reflexivity.
          -- rewrite gmatch_cons by exact Hds. cbn [gmatch]. rewrite andb_true_r.
             destruct (m (sid s) n); reflexivity.
        * destruct Hn as [Hds Hrest]. rewrite gmatch_cons by exact Hds.
          rewrite (gmatch_okp_nil (s2 :: rest) Hrest) by discriminate. rewrite andb_false_r. reflexivity.
      + rewrite subs_cons_eq, files_sub_cons_eq. rewrite Hs, filter_app_g, map_app. f_equal.
        destruct c as [n|n ch]; [reflexivity|].
        destruct segs as [|s rest].
        * rewrite filter_nil_map_cons. reflexivity.
        * destruct rest as [|s2 rest'].
          -- (* last segment *)
             destruct (dstar s) eqn:Hds.
             ++ cbn [app]. rewrite (IHc (path ++ [n]) [s] I).
                assert (A1 : filter (gmatch m [s]) (files (Dir n ch)) = files (Dir n ch)).
                { apply filter_all. intros q Hq. apply gmatch_last_dstar; [exact Hds|].
                  apply (proj1 files_nonempty (Dir n ch) q Hq). }
                assert (A2 : filter (gmatch m [s]) (map (cons n) (files (Dir n ch))) = map (cons n) (files (Dir n ch))).
                { apply filter_all. intros q Hq. apply gmatch_last_dstar; [exact Hds|].
                  apply in_map_iff in Hq. destruct Hq as (q' & <- & _). discriminate. }
                rewrite A1, A2, map_app_cons. reflexivity.
             ++ rewrite filter_map_cons by exact Hds.
                destruct (m (sid s) n); [|reflexivity].
                rewrite map_app_cons. rewrite <- (IHc (path ++ [n]) [] I).
                symmetry. apply (proj1 walk_nil_all).
          -- destruct Hn as [Hds Hrest]. rewrite Hds.
             rewrite filter_map_cons by exact Hds.
             destruct (m (sid s) n); [|reflexivity].
             rewrite map_app_cons. rewrite <- (IHc (path ++ [n]) (s2 :: rest') Hrest). reflexivity.
  Qed.

  (* ---- for EVERY pattern (also `**` anywhere) the walk only returns files that match: the
     deviations of the refuted cases are omissions and repetitions, never a wrong file ---- *)
  Lemma gmatch_dstar_skip : forall s rest n q, dstar s = true ->
    gmatch m (s :: rest) q = true -> gmatch m (s :: rest) (n :: q) = true.
  Proof.
    intros s rest n q Hs H. cbn [gmatch] in *. rewrite Hs in *.
    destruct rest as [|s2 rest']; [reflexivity|].
    rewrite H. apply orb_true_r.
  Qed.

  Lemma gmatch_dstar_zero : forall s s2 rest q, dstar s = true ->
    gmatch m (s2 :: rest) q = true -> gmatch m (s :: s2 :: rest) q = true.
  Proof.
    intros s s2 rest q Hs H. cbn [gmatch]. rewrite Hs.
    destruct q as [|n q']; cbn [gmatch] in H |- *; rewrite H; reflexivity.
  Qed.

  Lemma walk_sound_all :
    (forall t path segs q, In q (walk m t path segs) ->
       exists rel, q = path ++ rel /\ In rel (files t) /\ gmatch m segs rel = true) /\
    (forall f path segs q,
       (In q (emits m f path segs) -> exists rel, q = path ++ rel /\ In rel (files_here f) /\ gmatch m segs rel = true) /\
       (In q (subs m f path segs) -> exists rel, q = path ++ rel /\ In rel (files_sub f) /\ gmatch m segs rel = true)).
  Proof.
    apply node_forest_ind.
    - intros n path segs q [].
    - intros n ch IH path segs q Hq. rewrite walk_dir_eq in Hq. rewrite files_dir_eq.
      apply in_app_or in Hq. destruct Hq as [Hq|Hq].
      + destruct (proj1 (IH path segs q) Hq) as (rel & E & Hin & Hm). exists rel. repeat split; auto. apply in_or_app; left; exact Hin.
      + destruct (proj2 (IH path segs q) Hq) as (rel & E & Hin & Hm). exists rel. repeat split; auto. apply in_or_app; right; exact Hin.
    - intros path segs q. split; intros [].
    - intros c IHc r IHr path segs q. split.
      + intro Hq. destruct c as [n|n ch]; cbn [emits files_here] in *.
        * apply in_app_or in Hq. destruct Hq as [Hq|Hq].
          -- destruct segs as [|s [|s2 rest]]; try (destruct Hq; fail).
             destruct (dstar s) eqn:Hds.
             ++ destruct Hq as [<-|[]]. exists [n]. split; [reflexivity|]. split; [left; reflexivity|].
                apply gmatch_last_dstar; [exact Hds|discriminate].
             ++ destruct (m (sid s) n) eqn:Hmn; [|destruct Hq].
                destruct Hq as [<-|[]]. exists [n]. split; [reflexivity|]. split; [left; reflexivity|].
                rewrite gmatch_cons by exact Hds. rewrite Hmn. reflexivity.
          -- destruct (proj1 (IHr path segs q) Hq) as (rel & E & Hin & Hm). exists rel. repeat split; auto. right; exact Hin.
        * apply (proj1 (IHr path segs q) Hq).
      + intro Hq. rewrite subs_cons_eq in Hq. rewrite files_sub_cons_eq.
        apply in_app_or in Hq. destruct Hq as [Hq|Hq].
        * destruct (proj2 (IHr path segs q) Hq) as (rel & E & Hin & Hm). exists rel. repeat split; auto.
          apply in_or_app; left; exact Hin.
        * destruct c as [n|n ch]; [destruct Hq|].
          destruct segs as [|s rest]; [destruct Hq|].
          assert (Lift : forall segs', In q (walk m (Dir n ch) (path ++ [n]) segs') ->
                    (forall rel', gmatch m segs' rel' = true -> gmatch m (s :: rest) (n :: rel') = true) ->
                    exists rel, q = path ++ rel /\
                      In rel (files_sub r ++ map (cons n) (files (Dir n ch))) /\ gmatch m (s :: rest) rel = true).
          { intros segs' Hw Hg. destruct (IHc (path ++ [n]) segs' q Hw) as (rel' & E & Hin & Hm).
            exists (n :: rel'). split; [rewrite E, <- app_assoc; reflexivity|]. split; [|apply Hg; exact Hm].
            apply in_or_app; right. apply in_map. exact Hin. }
          destruct (dstar s) eqn:Hds.
          -- apply in_app_or in Hq. destruct Hq as [Hq|Hq].
             ++ destruct rest as [|s2 rest']; [destruct Hq|].
                apply (Lift (s2 :: rest') Hq). intros rel' Hm.
                apply gmatch_dstar_skip; [exact Hds|]. apply gmatch_dstar_zero; assumption.
             ++ apply (Lift (s :: rest) Hq). intros rel' Hm. apply gmatch_dstar_skip; assumption.
          -- destruct (m (sid s) n) eqn:Hmn; [|destruct Hq].
             destruct rest as [|s2 rest']; [destruct Hq|].
             apply (Lift (s2 :: rest') Hq). intros rel' Hm. rewrite gmatch_cons by exact Hds. rewrite Hmn, Hm. reflexivity.
  Qed.

  Lemma glob_sound_all : forall root segs p, In p (expand m root segs) -> matches m root segs p.
  Proof.
    intros root segs p Hp. destruct (proj1 walk_sound_all root [] segs p Hp) as (rel & E & Hin & Hm).
    cbn [app] in E. subst rel. split; assumption.
  Qed.

  (* ---- every file of a well-formed tree is listed once by `files` ---- *)
  Lemma nodup_app_intro : forall {A} (l1 l2 : list A),
    NoDup l1 -> NoDup l2 -> (forall x, In x l1 -> ~ In x l2) -> NoDup (l1 ++ l2).
  Proof.
    intros A l1 l2 H1 H2 Hd; induction l1 as [|x r IH]; cbn; [exact H2|].
    inversion H1 as [|? ? Hnx Hr]; subst. constructor.
    - intro Hin. apply in_app_or in Hin. destruct Hin as [Hin|Hin]; [contradiction|].
      apply (Hd x (or_introl eq_refl) Hin).
    - apply IH; [exact Hr|]. intros y Hy; apply Hd; right; exact Hy.
  Qed.

  Lemma nodup_map_cons : forall (n : name) (l : list (list name)), NoDup l -> NoDup (map (cons n) l).
  Proof.
    intros n l H; induction H as [|q r Hnq Hr IH]; cbn; constructor; [|exact IH].
    intro Hin. apply in_map_iff in Hin. destruct Hin as (q' & Heq & Hq'). injection Heq as ->. contradiction.
  Qed.

  Lemma files_nodup :
    (forall t, wf t -> NoDup (files t) /\ (forall q, In q (files t) -> q <> [])) /\
    (forall f, wf_f f -> NoDup (names f) ->
       NoDup (files_here f) /\ NoDup (files_sub f) /\
       (forall q, In q (files_here f) -> exists n, q = [n] /\ In n (names f)) /\
       (forall q, In q (files_sub f) -> exists n q', q = n :: q' /\ q' <> [] /\ In n (names f))).
  Proof.
    apply node_forest_ind.
    - intros n _. split; [constructor|intros q []].
    - intros n ch IH [Hnd Hwf]. destruct (IH Hwf Hnd) as (H1 & H2 & H3 & H4). rewrite files_dir_eq. split.
      + apply nodup_app_intro; [exact H1|exact H2|].
        intros q Hq1 Hq2. destruct (H3 q Hq1) as (a & -> & _).
        destruct (H4 _ Hq2) as (b & q' & Heq & Hne & _). injection Heq as _ <-. apply Hne; reflexivity.
      + intros q Hq. apply in_app_or in Hq. destruct Hq as [Hq|Hq].
        * destruct (H3 q Hq) as (a & -> & _). discriminate.
        * destruct (H4 q Hq) as (a & q' & -> & _ & _). discriminate.
    - intros _ _. repeat split; try constructor; intros q [].
    - intros c IHc r IHr [Hwc Hwr] Hnd.
      assert (Hnames : exists n, names (FCons c r) = n :: names r /\
                                 match c with File a => a = n | Dir a _ => a = n end).
      { destruct c as [a|a ch]; exists a; split; reflexivity. }
      destruct Hnames as (n & Hnm & Hcn). rewrite Hnm in Hnd. rewrite Hnm.
      inversion Hnd as [|? ? Hn_notin Hnd_r]; subst.
      destruct (IHr Hwr Hnd_r) as (R1 & R2 & R3 & R4).
      rewrite files_sub_cons_eq.
      destruct c as [a|a ch]; cbn [files_here]; subst a.
      + (* a file *)
        repeat split.
        * constructor; [|exact R1]. intro Hin. destruct (R3 _ Hin) as (b & Heq & Hb).
          injection Heq as <-. contradiction.
        * rewrite app_nil_r. exact R2.
        * intros q [<-|Hq]; [exists n; split; [reflexivity|left; reflexivity]|].
          destruct (R3 q Hq) as (b & -> & Hb). exists b; split; [reflexivity|right; exact Hb].
        * intros q Hq. rewrite app_nil_r in Hq. destruct (R4 q Hq) as (b & q' & -> & Hne & Hb).
          exists b, q'. repeat split; [exact Hne|right; exact Hb].
      + (* a directory *)
        destruct (IHc Hwc) as [C1 C2].
        repeat split.
        * exact R1.
        * apply nodup_app_intro; [exact R2|apply nodup_map_cons; exact C1|].
          intros q Hq1 Hq2. destruct (R4 q Hq1) as (b & q' & -> & _ & Hb).
          apply in_map_iff in Hq2. destruct Hq2 as (q2 & Heq & _). injection Heq as -> _. contradiction.
        * intros q Hq. destruct (R3 q Hq) as (b & -> & Hb). exists b; split; [reflexivity|right; exact Hb].
        * intros q Hq. apply in_app_or in Hq. destruct Hq as [Hq|Hq].
          -- destruct (R4 q Hq) as (b & q' & -> & Hne & Hb). exists b, q'. repeat split; [exact Hne|right; exact Hb].
          -- apply in_map_iff in Hq. destruct Hq as (q2 & <- & Hq2). exists n, q2.
             repeat split; [apply (C2 q2 Hq2)|left; reflexivity].
  Qed.

  Lemma nodup_filter_ : forall {A} (p : A -> bool) l, NoDup l -> NoDup (filter p l).
  Proof.
    intros A p l H; induction H as [|x r Hnx Hr IH]; cbn; [constructor|].
    destruct (p x); [|exact IH]. constructor; [|exact IH].
    intro Hin. apply filter_In in Hin. destruct Hin as [Hin _]. contradiction.
  Qed.

  Lemma expand_is_spec : forall root segs, nodstar segs -> expand m root segs = spec_expand m root segs.
  Proof.
    intros root segs Hn. unfold expand, spec_expand.
    rewrite (proj1 walk_is_filter root [] segs Hn).
    rewrite (map_ext (app []) (fun x => x)) by reflexivity. apply map_id.
  Qed.

  Lemma expand_is_spec_okp : forall root segs, okp segs -> expand m root segs = spec_expand m root segs.
  Proof.
    intros root segs Hn. unfold expand, spec_expand.
    rewrite (proj1 walk_is_filter_okp root [] segs Hn).
    rewrite (map_ext (app []) (fun x => x)) by reflexivity. apply map_id.
  Qed.

  (* T: glob_exact for patterns whose only `**` (if any) is the last segment *)
  Lemma glob_exact_dstar_last : forall root segs, okp segs -> wf root ->
    NoDup (expand m root segs) /\ (forall p, In p (expand m root segs) <-> matches m root segs p).
  Proof.
    intros root segs Hn Hwf. rewrite (expand_is_spec_okp root segs Hn). unfold spec_expand, matches. split.
    - apply nodup_filter_. apply (proj1 (proj1 files_nodup root Hwf)).
    - intro p. apply filter_In.
  Qed.

  (* T: glob_exact for patterns without `**` *)
  Lemma glob_exact_nodstar : forall root segs, nodstar segs -> wf root ->
    NoDup (expand m root segs) /\ (forall p, In p (expand m root segs) <-> matches m root segs p).
  Proof.
    intros root segs Hn Hwf. rewrite (expand_is_spec root segs Hn). unfold spec_expand, matches. split.
    - apply nodup_filter_. apply (proj1 (proj1 files_nodup root Hwf)).
    - intro p. apply filter_In.
  Qed.
End Proofs.

(* ---- closed witnesses ---- *)
Open Scope N_scope.
(* names: 0 root, 1 a.csv, 2 s1, 3 b.csv, 4 s2, 5 c.csv, 6 s3, 7 d.csv; segment 1 is "*.csv" *)
Definition m_w (s : N) (n : name) : bool :=
  N.eqb s 1 && (N.eqb n 1 || N.eqb n 3 || N.eqb n 5 || N.eqb n 7).
Definition tree_w : node :=
  Dir 0 (FCons (File 1) (FCons (Dir 2 (FCons (File 3) (FCons (Dir 4 (FCons (File 5)
        (FCons (Dir 6 (FCons (File 7) FNil)) FNil))) FNil))) FNil)).
Definition star_csv := mk_seg false 1.
Definition dd := mk_seg true 0.

Lemma tree_w_wf : wf tree_w.
Proof. cbn. repeat split; repeat constructor; cbn; intuition discriminate. Qed.

Example glob_exact_hyps_sat : nodstar [star_csv] /\ wf tree_w /\ expand m_w tree_w [star_csv] = [[1%N]].
Proof.
  split; [|split; [exact tree_w_wf|vm_compute; reflexivity]].
  intros s [<-|[]]. reflexivity.
Qed.

Example glob_dstar_last_hyps_sat : okp [star_csv; dd] /\ okp [dd] /\ wf tree_w /\
  expand m_w tree_w [dd] = [[1]; [2; 3]; [2; 4; 5]; [2; 4; 6; 7]]%N.
Proof. split; [split; [reflexivity|exact I]|]. split; [exact I|]. split; [exact tree_w_wf|vm_compute; reflexivity]. Qed.

(* `d/**/*.csv` never lets `**` stand for zero directories: d/a.csv is not returned *)
Lemma glob_dstar_expand_w :
  expand m_w tree_w [dd; star_csv] = [[2; 3]; [2; 4; 5]; [2; 4; 6; 7]]%N.
Proof. vm_compute. reflexivity. Qed.

Lemma glob_exact_refuted_missing :
  exists m root segs p, wf root /\ matches m root segs p /\ ~ In p (expand m root segs).
Proof.
  exists m_w, tree_w, [dd; star_csv], [1%N]. split; [exact tree_w_wf|]. split.
  - split; vm_compute; [left|]; reflexivity.
  - rewrite glob_dstar_expand_w. cbn. intuition discriminate.
Qed.

(* `**/**/*.csv`: a directory is pushed once per way of splitting the path between the two `**`,
   so d/s1/s2/s3/d.csv is returned twice (and a.csv, b.csv not at all) *)
Lemma glob_exact_refuted_dup :
  exists m root segs p l1 l2 l3, wf root /\ expand m root segs = l1 ++ p :: l2 ++ p :: l3.
Proof.
  exists m_w, tree_w, [dd; dd; star_csv], [2; 4; 6; 7]%N, [[2; 4; 5]]%N, [], [].
  split; [exact tree_w_wf|]. vm_compute. reflexivity.
Qed.

Lemma glob_exact_refuted_nodup :
  exists m root segs, wf root /\ ~ NoDup (expand m root segs).
Proof.
  exists m_w, tree_w, [dd; dd; star_csv]. split; [exact tree_w_wf|].
  intro H. assert (E : expand m_w tree_w [dd; dd; star_csv] = [[2; 4; 5]; [2; 4; 6; 7]; [2; 4; 6; 7]]%N)
    by (vm_compute; reflexivity).
  rewrite E in H. inversion H as [|? ? _ H2]; subst. inversion H2 as [|? ? Hn _]; subst. apply Hn. left; reflexivity.
Qed.
