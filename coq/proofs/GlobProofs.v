(* C11 proofs, part 2: the directory walk of GlobHandle is exact for patterns without `**`
   (it returns each matching file once, and nothing else) and is refuted, with closed witnesses,
   for `**` followed by another segment. *)
From Coq Require Import List Bool NArith Lia.
From GV Require Import model.Glob.
Import ListNotations.

Scheme node_mut := Induction for node Sort Prop
with forest_mut := Induction for forest Sort Prop.
Combined Scheme node_forest_ind from node_mut, forest_mut.

Definition nodstar (segs : list seg) : Prop := forall s, In s segs -> dstar s = false.

Lemma nodstar_tail : forall s r, nodstar (s :: r) -> dstar s = false /\ nodstar r.
Proof. intros s r H. split; [apply H; left; reflexivity|]. intros x Hx; apply H; right; exact Hx. Qed.

Lemma filter_app_g : forall {A} (p : A -> bool) l1 l2, filter p (l1 ++ l2) = filter p l1 ++ filter p l2.
Proof. intros A p l1 l2; induction l1 as [|x r IH]; cbn; [reflexivity|]. destruct (p x); cbn; rewrite IH; reflexivity. Qed.

Section Proofs.
  Variable m : N -> name -> bool.

  Lemma walk_dir_eq : forall n ch path segs,
    walk m (Dir n ch) path segs = emits m ch path segs ++ subs m ch path segs.
  Proof. reflexivity. Qed.
  Lemma subs_cons_eq : forall c r path segs,
    subs m (FCons c r) path segs =
    subs m r path segs ++
    match c, segs with
    | Dir n _, s :: rest =>
        if dstar s then
          (match rest with [] => [] | _ :: _ => walk m c (path ++ [n]) rest end) ++ walk m c (path ++ [n]) segs
        else if m (sid s) n then
          (match rest with [] => [] | _ :: _ => walk m c (path ++ [n]) rest end)
        else []
    | _, _ => []
    end.
  Proof. reflexivity. Qed.
  Lemma files_dir_eq : forall n ch, files (Dir n ch) = files_here ch ++ files_sub ch.
  Proof. reflexivity. Qed.
  Lemma files_sub_cons_eq : forall c r,
    files_sub (FCons c r) = files_sub r ++ match c with Dir n _ => map (cons n) (files c) | File _ => [] end.
  Proof. reflexivity. Qed.

  (* no segment left: nothing is listed (the code never pushes such a handle) *)
  Lemma walk_nil_all :
    (forall t path, walk m t path [] = []) /\
    (forall f path, emits m f path [] = [] /\ subs m f path [] = []).
  Proof.
    apply node_forest_ind.
    - intros n path. reflexivity.
    - intros n ch IH path. rewrite walk_dir_eq. destruct (IH path) as [-> ->]. reflexivity.
    - intros path. split; reflexivity.
    - intros c IHc r IHr path. destruct (IHr path) as [He Hs]. split.
      + destruct c; cbn [emits]; rewrite He; reflexivity.
      + rewrite subs_cons_eq. rewrite Hs. destruct c; reflexivity.
  Qed.

  Lemma gmatch_nil_cons : forall n q, gmatch m [] (n :: q) = false.
  Proof. reflexivity. Qed.

  Lemma gmatch_nodstar_nil : forall segs, nodstar segs -> segs <> [] -> gmatch m segs [] = false.
  Proof.
    intros [|s r] Hn Hne; [contradiction|].
    destruct (nodstar_tail _ _ Hn) as [Hs _]. cbn [gmatch]. rewrite Hs. reflexivity.
  Qed.

  Lemma gmatch_cons : forall s rest n q, dstar s = false ->
    gmatch m (s :: rest) (n :: q) = m (sid s) n && gmatch m rest q.
  Proof. intros s rest n q Hs. cbn [gmatch]. rewrite Hs. reflexivity. Qed.

  Lemma gmatch_single : forall segs n, nodstar segs ->
    gmatch m segs [n] = match segs with [s] => m (sid s) n | _ => false end.
  Proof.
    intros [|s [|s2 r]] n Hn; [reflexivity| |].
    - destruct (nodstar_tail _ _ Hn) as [Hs _]. rewrite gmatch_cons by exact Hs. cbn [gmatch]. apply andb_true_r.
    - destruct (nodstar_tail _ _ Hn) as [Hs Hr]. rewrite gmatch_cons by exact Hs.
      rewrite (gmatch_nodstar_nil (s2 :: r) Hr) by discriminate. apply andb_false_r.
  Qed.

  Lemma filter_map_cons : forall s rest n (l : list (list name)), dstar s = false ->
    filter (gmatch m (s :: rest)) (map (cons n) l) =
    if m (sid s) n then map (cons n) (filter (gmatch m rest) l) else [].
  Proof.
    intros s rest n l Hs; induction l as [|q r IH]; cbn [map filter].
    - destruct (m (sid s) n); reflexivity.
    - rewrite gmatch_cons by exact Hs. rewrite IH.
      destruct (m (sid s) n); cbn [andb]; [|reflexivity].
      destruct (gmatch m rest q); reflexivity.
  Qed.

  Lemma filter_nil_map_cons : forall n (l : list (list name)), filter (gmatch m []) (map (cons n) l) = [].
  Proof. intros n l; induction l as [|q r IH]; cbn [map filter]; [reflexivity|]. rewrite gmatch_nil_cons. exact IH. Qed.

  Lemma map_app_cons : forall (path : list name) n l,
    map (app path) (map (cons n) l) = map (app (path ++ [n])) l.
  Proof. intros path n l. rewrite map_map. apply map_ext. intro q. rewrite <- app_assoc. reflexivity. Qed.

  (* the walk computes the declarative answer, in walk order *)
  Lemma walk_is_filter :
    (forall t path segs, nodstar segs ->
       walk m t path segs = map (app path) (filter (gmatch m segs) (files t))) /\
    (forall f path segs, nodstar segs ->
       emits m f path segs = map (app path) (filter (gmatch m segs) (files_here f)) /\
       subs m f path segs = map (app path) (filter (gmatch m segs) (files_sub f))).
  Proof.
    apply node_forest_ind.
    - intros n path segs _. reflexivity.
    - intros n ch IH path segs Hn. rewrite walk_dir_eq, files_dir_eq.
      destruct (IH path segs Hn) as [-> ->]. rewrite filter_app_g, map_app. reflexivity.
    - intros path segs _. split; reflexivity.
    - intros c IHc r IHr path segs Hn. destruct (IHr path segs Hn) as [He Hs]. split.
      + destruct c as [n|n ch]; cbn [emits files_here]; [|exact He].
        rewrite He. cbn [filter]. rewrite (gmatch_single segs n Hn).
        destruct segs as [|s [|s2 rest]]; [reflexivity| |reflexivity].
        destruct (nodstar_tail _ _ Hn) as [Hds _]. rewrite Hds.
        destruct (m (sid s) n); reflexivity.
      + rewrite subs_cons_eq, files_sub_cons_eq. rewrite Hs, filter_app_g, map_app. f_equal.
        destruct c as [n|n ch]; [reflexivity|].
        destruct segs as [|s rest].
        * rewrite filter_nil_map_cons. reflexivity.
        * destruct (nodstar_tail _ _ Hn) as [Hds Hrest]. rewrite Hds.
          rewrite filter_map_cons by exact Hds.
          destruct (m (sid s) n); [|reflexivity].
          rewrite map_app_cons. rewrite <- (IHc (path ++ [n]) rest Hrest).
          destruct rest as [|s2 rest']; [|reflexivity].
          symmetry. apply (proj1 walk_nil_all).
  Qed.

  (* ---- every file of a well-formed tree is listed once by `files` ---- *)
  Lemma nodup_app_intro : forall {A} (l1 l2 : list A),
    NoDup l1 -> NoDup l2 -> (forall x, In x l1 -> ~ In x l2) -> NoDup (l1 ++ l2).
  Proof.
    intros A l1 l2 H1 H2 Hd; induction l1 as [|x r IH]; cbn; [exact H2|].
    inversion H1 as [|? ? Hnx Hr]; subst. constructor.
    - intro Hin. apply in_app_or in Hin. destruct Hin as [Hin|Hin]; [contradiction|].
      apply (Hd x (or_introl eq_refl) Hin).
    - apply IH; [exact Hr|]. intros y Hy; apply Hd; right; exact Hy.
  Qed.

  Lemma nodup_map_cons : forall (n : name) (l : list (list name)), NoDup l -> NoDup (map (cons n) l).
  Proof.
    intros n l H; induction H as [|q r Hnq Hr IH]; cbn; constructor; [|exact IH].
    intro Hin. apply in_map_iff in Hin. destruct Hin as (q' & Heq & Hq'). injection Heq as ->. contradiction.
  Qed.

  Lemma files_nodup :
    (forall t, wf t -> NoDup (files t) /\ (forall q, In q (files t) -> q <> [])) /\
    (forall f, wf_f f -> NoDup (names f) ->
       NoDup (files_here f) /\ NoDup (files_sub f) /\
       (forall q, In q (files_here f) -> exists n, q = [n] /\ In n (names f)) /\
       (forall q, In q (files_sub f) -> exists n q', q = n :: q' /\ q' <> [] /\ In n (names f))).
  Proof.
    apply node_forest_ind.
    - intros n _. split; [constructor|intros q []].
    - intros n ch IH [Hnd Hwf]. destruct (IH Hwf Hnd) as (H1 & H2 & H3 & H4). rewrite files_dir_eq. split.
      + apply nodup_app_intro; [exact H1|exact H2|].
        intros q Hq1 Hq2. destruct (H3 q Hq1) as (a & -> & _).
        destruct (H4 _ Hq2) as (b & q' & Heq & Hne & _). injection Heq as _ <-. apply Hne; reflexivity.
      + intros q Hq. apply in_app_or in Hq. destruct Hq as [Hq|Hq].
        * destruct (H3 q Hq) as (a & -> & _). discriminate.
        * destruct (H4 q Hq) as (a & q' & -> & _ & _). discriminate.
    - intros _ _. repeat split; try constructor; intros q [].
    - intros c IHc r IHr [Hwc Hwr] Hnd.
      assert (Hnames : exists n, names (FCons c r) = n :: names r /\
                                 match c with File a => a = n | Dir a _ => a = n end).
      { destruct c as [a|a ch]; exists a; split; reflexivity. }
      destruct Hnames as (n & Hnm & Hcn). rewrite Hnm in Hnd. rewrite Hnm.
      inversion Hnd as [|? ? Hn_notin Hnd_r]; subst.
      destruct (IHr Hwr Hnd_r) as (R1 & R2 & R3 & R4).
      rewrite files_sub_cons_eq.
      destruct c as [a|a ch]; cbn [files_here]; subst a.
      + (* a file *)
        repeat split.
        * constructor; [|exact R1]. intro Hin. destruct (R3 _ Hin) as (b & Heq & Hb).
          injection Heq as <-. contradiction.
        * rewrite app_nil_r. exact R2.
        * intros q [<-|Hq]; [exists n; split; [reflexivity|left; reflexivity]|].
          destruct (R3 q Hq) as (b & -> & Hb). exists b; split; [reflexivity|right; exact Hb].
        * intros q Hq. rewrite app_nil_r in Hq. destruct (R4 q Hq) as (b & q' & -> & Hne & Hb).
          exists b, q'. repeat split; [exact Hne|right; exact Hb].
      + (* a directory *)
        destruct (IHc Hwc) as [C1 C2].
        repeat split.
        * exact R1.
        * apply nodup_app_intro; [exact R2|apply nodup_map_cons; exact C1|].
          intros q Hq1 Hq2. destruct (R4 q Hq1) as (b & q' & -> & _ & Hb).
          apply in_map_iff in Hq2. destruct Hq2 as (q2 & Heq & _). injection Heq as -> _. contradiction.
        * intros q Hq. destruct (R3 q Hq) as (b & -> & Hb). exists b; split; [reflexivity|right; exact Hb].
        * intros q Hq. apply in_app_or in Hq. destruct Hq as [Hq|Hq].
          -- destruct (R4 q Hq) as (b & q' & -> & Hne & Hb). exists b, q'. repeat split; [exact Hne|right; exact Hb].
          -- apply in_map_iff in Hq. destruct Hq as (q2 & <- & Hq2). exists n, q2.
             repeat split; [apply (C2 q2 Hq2)|left; reflexivity].
  Qed.

  Lemma nodup_filter_ : forall {A} (p : A -> bool) l, NoDup l -> NoDup (filter p l).
  Proof.
    intros A p l H; induction H as [|x r Hnx Hr IH]; cbn; [constructor|].
    destruct (p x); [|exact IH]. constructor; [|exact IH].
    intro Hin. apply filter_In in Hin. destruct Hin as [Hin _]. contradiction.
  Qed.

  Lemma expand_is_spec : forall root segs, nodstar segs -> expand m root segs = spec_expand m root segs.
  Proof.
    intros root segs Hn. unfold expand, spec_expand.
    rewrite (proj1 walk_is_filter root [] segs Hn).
    rewrite (map_ext (app []) (fun x => x)) by reflexivity. apply map_id.
  Qed.

  (* T: glob_exact for patterns without `**` *)
  Lemma glob_exact_nodstar : forall root segs, nodstar segs -> wf root ->
    NoDup (expand m root segs) /\ (forall p, In p (expand m root segs) <-> matches m root segs p).
  Proof.
    intros root segs Hn Hwf. rewrite (expand_is_spec root segs Hn). unfold spec_expand, matches. split.
    - apply nodup_filter_. apply (proj1 (proj1 files_nodup root Hwf)).
    - intro p. apply filter_In.
  Qed.
End Proofs.

(* ---- closed witnesses ---- *)
Open Scope N_scope.
(* names: 0 root, 1 a.csv, 2 s1, 3 b.csv, 4 s2, 5 c.csv, 6 s3, 7 d.csv; segment 1 is "*.csv" *)
Definition m_w (s : N) (n : name) : bool :=
  N.eqb s 1 && (N.eqb n 1 || N.eqb n 3 || N.eqb n 5 || N.eqb n 7).
Definition tree_w : node :=
  Dir 0 (FCons (File 1) (FCons (Dir 2 (FCons (File 3) (FCons (Dir 4 (FCons (File 5)
        (FCons (Dir 6 (FCons (File 7) FNil)) FNil))) FNil))) FNil)).
Definition star_csv := mk_seg false 1.
Definition dd := mk_seg true 0.

Lemma tree_w_wf : wf tree_w.
Proof. cbn. repeat split; repeat constructor; cbn; intuition discriminate. Qed.

Example glob_exact_hyps_sat : nodstar [star_csv] /\ wf tree_w /\ expand m_w tree_w [star_csv] = [[1%N]].
Proof.
  split; [|split; [exact tree_w_wf|vm_compute; reflexivity]].
  intros s [<-|[]]. reflexivity.
Qed.

(* `d/**/*.csv` never lets `**` stand for zero directories: d/a.csv is not returned *)
Lemma glob_dstar_expand_w :
  expand m_w tree_w [dd; star_csv] = [[2; 3]; [2; 4; 5]; [2; 4; 6; 7]]%N.
Proof. vm_compute. reflexivity. Qed.

Lemma glob_exact_refuted_missing :
  exists m root segs p, wf root /\ matches m root segs p /\ ~ In p (expand m root segs).
Proof.
  exists m_w, tree_w, [dd; star_csv], [1%N]. split; [exact tree_w_wf|]. split.
  - split; vm_compute; [left|]; reflexivity.
  - rewrite glob_dstar_expand_w. cbn. intuition discriminate.
Qed.

(* `**/**/*.csv`: a directory is pushed once per way of splitting the path between the two `**`,
   so d/s1/s2/s3/d.csv is returned twice (and a.csv, b.csv not at all) *)
Lemma glob_exact_refuted_dup :
  exists m root segs p l1 l2 l3, wf root /\ expand m root segs = l1 ++ p :: l2 ++ p :: l3.
Proof.
  exists m_w, tree_w, [dd; dd; star_csv], [2; 4; 6; 7]%N, [[2; 4; 5]]%N, [], [].
  split; [exact tree_w_wf|]. vm_compute. reflexivity.
Qed.

Lemma glob_exact_refuted_nodup :
  exists m root segs, wf root /\ ~ NoDup (expand m root segs).
Proof.
  exists m_w, tree_w, [dd; dd; star_csv]. split; [exact tree_w_wf|].
  intro H. assert (E : expand m_w tree_w [dd; dd; star_csv] = [[2; 4; 5]; [2; 4; 6; 7]; [2; 4; 6; 7]]%N)
    by (vm_compute; reflexivity).
  rewrite E in H. inversion H as [|? ? _ H2]; subst. inversion H2 as [|? ? Hn _]; subst. apply Hn. left; reflexivity.
Qed.
