(* C04 — proofs about the hash-join probe / drain barrier model (model/BarrierHashJoin.v). *)
From Coq Require Import List Arith Lia Bool.
From GV Require Import lib.Lts model.BarrierHashJoin.
Import ListNotations.

Lemma cwp_pscan l : count is_hpscan (map wake_probers l) = 0.
Proof. rewrite count_map, (count_ext _ (fun _ => false)); [apply count_false|]. intros []; reflexivity. Qed.
Lemma cwp_probe l : count is_hprobe (map wake_probers l) = count is_hprobe l + count is_hpscan l.
Proof.
  rewrite count_map, (count_ext _ (fun p => is_hprobe p || is_hpscan p)).
  - apply count_orb. intros []; reflexivity.
  - intros []; reflexivity.
Qed.
Lemma cwp_other f l : (forall p, f (wake_probers p) = f p) -> count f (map wake_probers l) = count f l.
Proof. intros H. rewrite count_map. apply count_ext. exact H. Qed.
Lemma cwd_pdrain l : count is_hpdrain (map wake_drainers l) = 0.
Proof. rewrite count_map, (count_ext _ (fun _ => false)); [apply count_false|]. intros []; reflexivity. Qed.
Lemma cwd_chk l : count is_hchk (map wake_drainers l) = count is_hchk l + count is_hpdrain l.
Proof.
  rewrite count_map, (count_ext _ (fun p => is_hchk p || is_hpdrain p)).
  - apply count_orb. intros []; reflexivity.
  - intros []; reflexivity.
Qed.
Lemma cwd_other f l : (forall p, f (wake_drainers p) = f p) -> count f (map wake_drainers l) = count f l.
Proof. intros H. rewrite count_map. apply count_ext. exact H. Qed.

Lemma hlength_parts l :
  length l = count is_hprobe l + count is_hpscan l + count is_hscan l + count is_hchk l + count is_hpdrain l
             + count is_hdraining l + count is_hdone l + count is_habing l + count is_haband l + count is_hlost l
             + count is_herr l.
Proof.
  induction l as [|a l IH]; [reflexivity|]. rewrite !count_cons. cbn [length].
  destruct a; cbn [b2n is_hprobe is_hpscan is_hscan is_hchk is_hpdrain is_hdraining is_hdone is_habing is_haband is_hlost is_herr]; lia.
Qed.

Ltac hfacts H q :=
  pose proof (count_upd is_hprobe _ _ _ q H); pose proof (count_upd is_hpscan _ _ _ q H);
  pose proof (count_upd is_hscan _ _ _ q H); pose proof (count_upd is_hchk _ _ _ q H);
  pose proof (count_upd is_hpdrain _ _ _ q H); pose proof (count_upd is_hdraining _ _ _ q H);
  pose proof (count_upd is_hdone _ _ _ q H); pose proof (count_upd is_haband _ _ _ q H);
  pose proof (count_upd is_herr _ _ _ q H); pose proof (count_upd is_habing _ _ _ q H);
  pose proof (count_upd is_hlost _ _ _ q H); pose proof (count_nth_ge is_habing _ _ _ H);
  pose proof (count_nth_ge is_hprobe _ _ _ H); pose proof (count_nth_ge is_hpscan _ _ _ H);
  pose proof (count_nth_ge is_hscan _ _ _ H); pose proof (count_nth_ge is_hchk _ _ _ H);
  pose proof (count_nth_ge is_hpdrain _ _ _ H); pose proof (count_nth_ge is_hdraining _ _ _ H);
  pose proof (length_upd _ _ _ q H).

Ltac hwake_rw :=
  rewrite ?cwd_pdrain, ?cwd_chk, ?(cwd_other is_hprobe), ?(cwd_other is_hpscan), ?(cwd_other is_hscan),
    ?(cwd_other is_hdraining), ?(cwd_other is_hdone), ?(cwd_other is_haband), ?(cwd_other is_herr), ?(cwd_other is_habing), ?(cwd_other is_hlost),
    ?cwp_pscan, ?cwp_probe, ?(cwp_other is_hscan), ?(cwp_other is_hchk), ?(cwp_other is_hpdrain),
    ?(cwp_other is_hdraining), ?(cwp_other is_hdone), ?(cwp_other is_haband), ?(cwp_other is_herr),
    ?(cwp_other is_habing), ?(cwp_other is_hlost),
    ?map_length in * by (intros []; reflexivity).

Ltac hred :=
  cbn [b2n is_hprobe is_hpscan is_hscan is_hchk is_hpdrain is_hdraining is_hdone is_habing is_haband is_hlost is_herr
       hps sready dready rem_prob wake_probers wake_drainers andb] in *.

Definition sr_n (s : hst) : nat := if sready s then 1 else 0.
Definition dr_n (s : hst) : nat := if dready s then 1 else 0.

Record HInv (s : hst) : Prop := {
  hR : rem_prob s = count is_hprobe (hps s) + count is_hpscan (hps s) + count is_hscan (hps s)
                    + count is_habing (hps s);
  hS0 : sr_n s = 0 -> count is_hscan (hps s) + count is_hchk (hps s) + count is_hpdrain (hps s)
                      + count is_hdraining (hps s) + count is_hdone (hps s)
                      + count is_habing (hps s) + count is_haband (hps s) = 0;
  hS1 : sr_n s = 1 -> count is_hpscan (hps s) = 0;
  hD0 : dr_n s = 1 -> rem_prob s = 0 /\ count is_hpdrain (hps s) = 0;
  hD1 : dr_n s = 0 -> rem_prob s = 0 ->
        count is_hchk (hps s) + count is_hpdrain (hps s) + count is_hdraining (hps s) + count is_hdone (hps s)
        + count is_haband (hps s) = 0;
  hD2 : 0 < count is_hdraining (hps s) + count is_hdone (hps s) -> dr_n s = 1 /\ sr_n s = 1;
  hE : count is_herr (hps s) = 0;
  hL : count is_hlost (hps s) = 0
}.

Ltac hviews := unfold sr_n, dr_n in *; hred.

Lemma hinv_init n : HInv (hinit n).
Proof.
  unfold hinit. constructor; hviews; rewrite ?count_repeat; hred; intros; lia.
Qed.

Lemma hinv_step ab s s' : HInv s -> hstep ab false s s' -> HInv s'.
Proof.
  intros [R S0 S1 D0 D1 D2 E L] Hs.
  destruct Hs as [s Hsr | i p s H Hp Hsr | i p s H Hp Hsr | i s H Hr | i s H Hr | i s H Hr
                 | i p s H Hp Hd | i p s H Hp Hd | i s H | i s Hab H | i s Hab H
                 | i s H Hr | i s H Hr | i s H Hr | i s Hab H | i s Hl H]; try discriminate.
  - (* build_done *)
    destruct s as [ps sr dr rm]; hviews; subst sr; destruct dr;
      constructor; hviews; hwake_rw; intros; lia.
  - (* scan_ready *)
    destruct p; try discriminate; hfacts H HScan;
      destruct s as [ps sr dr rm]; hviews; subst sr; destruct dr; constructor; hviews; intros; lia.
  - (* scan_park *)
    destruct p; try discriminate; hfacts H HParkedScan;
      destruct s as [ps sr dr rm]; hviews; subst sr; destruct dr; constructor; hviews; intros; lia.
  - (* finalize_last *)
    pose proof (map_nth_error wake_drainers _ _ H) as H'. hred. hfacts H' HDrainChk. hwake_rw. hfacts H HScan.
    destruct s as [ps sr dr rm]; hviews; subst rm; destruct sr, dr; constructor; hviews; hwake_rw; intros; lia.
  - (* finalize *)
    hfacts H HDrainChk. destruct s as [ps sr dr rm]; hviews; destruct sr, dr; constructor; hviews; intros; lia.
  - (* finalize_err *)
    hfacts H HErr. hviews. exfalso. lia.
  - (* drain_ready *)
    destruct p; try discriminate; hfacts H HDraining;
      destruct s as [ps sr dr rm]; hviews; destruct sr, dr; try discriminate; constructor; hviews; intros; lia.
  - (* drain_park *)
    destruct p; try discriminate; hfacts H HParkedDrain;
      destruct s as [ps sr dr rm]; hviews; destruct sr, dr; try discriminate; constructor; hviews; intros; lia.
  - (* drain_done *)
    hfacts H HDone. destruct s as [ps sr dr rm]; hviews; destruct sr, dr; constructor; hviews; intros; lia.
  - (* abandon while probing *)
    hfacts H HAbandoning. destruct s as [ps sr dr rm]; hviews; destruct sr, dr; constructor; hviews; intros; lia.
  - (* abandon while draining *)
    hfacts H HDone. destruct s as [ps sr dr rm]; hviews; destruct sr, dr; constructor; hviews; intros; lia.
  - (* abandon_fin_last *)
    pose proof (map_nth_error wake_drainers _ _ H) as H'. hred. hfacts H' HAbandoned. hwake_rw. hfacts H HAbandoning.
    destruct s as [ps sr dr rm]; hviews; subst rm; destruct sr, dr; constructor; hviews; hwake_rw; intros; lia.
  - (* abandon_fin *)
    hfacts H HAbandoned. destruct s as [ps sr dr rm]; hviews; destruct sr, dr; constructor; hviews; intros; lia.
  - (* abandon_fin_err *)
    hfacts H HErr. hviews. exfalso. lia.
  - (* abandon_again: nested exhaustion re-creates the instruction *)
    hfacts H HAbandoning. destruct s as [ps sr dr rm]; hviews; destruct sr, dr; constructor; hviews; intros; lia.
Qed.

Theorem hinv_reach ab n s : hreach ab false n s -> HInv s.
Proof. induction 1; [apply hinv_init | eapply hinv_step; eassumption]. Qed.

(* ---------- theorems: with or without a LIMIT above the join, as long as no abandon is lost ---------- *)

Theorem hj_inv_parked_implies_flag_unset ab n s :
  hreach ab false n s ->
  (0 < count is_hpscan (hps s) -> sready s = false) /\
  (0 < count is_hpdrain (hps s) -> dready s = false).
Proof.
  intros Hr. destruct (hinv_reach _ _ _ Hr) as [R S0 S1 D0 D1 D2 E L]. unfold sr_n, dr_n in *. split; intros H.
  - destruct (sready s); [|reflexivity]. specialize (S1 eq_refl). lia.
  - destruct (dready s); [|reflexivity]. specialize (D0 eq_refl). lia.
Qed.

Theorem hj_no_error_path ab n s : hreach ab false n s -> count is_herr (hps s) = 0.
Proof. intros Hr. apply (hE _ (hinv_reach _ _ _ Hr)). Qed.

(* no deadlock for arbitrary N, with (ab = true) or without (ab = false) early exhaustion by a
   downstream LIMIT, given the stack delivers the AbandonOperator finalize *)
Theorem hj_no_deadlock_with_limit ab n s :
  hreach ab false n s -> ~ hall_done s -> exists s', hstep ab false s s' /\ s' <> s.
Proof.
  intros Hr ND. destruct (hinv_reach _ _ _ Hr) as [R S0 S1 D0 D1 D2 E L].
  unfold hall_done in ND. pose proof (hlength_parts (hps s)) as LP. unfold sr_n, dr_n in *.
  destruct (sready s) eqn:Hsr.
  2:{ eexists. split; [apply h_build_done; assumption|].
      intros X. apply (f_equal sready) in X. cbn [sready] in X. congruence. }
  specialize (S1 eq_refl).
  destruct (Nat.eq_dec (count is_hprobe (hps s)) 0) as [Z1|N1].
  2:{ destruct (count_pos_nth is_hprobe (hps s)) as (i & p & Hi & Hp); [lia|]. destruct p; try discriminate.
      eexists. split; [eapply h_scan_ready; [eassumption|reflexivity|assumption]|].
      intros X. apply (f_equal hps) in X. cbn [hps] in X. eapply upd_neq in X; [assumption|eassumption|discriminate]. }
  destruct (Nat.eq_dec (count is_hscan (hps s)) 0) as [Z2|N2].
  2:{ destruct (count_pos_nth is_hscan (hps s)) as (i & p & Hi & Hp); [lia|]. destruct p; try discriminate.
      destruct (Nat.eq_dec (rem_prob s) 1) as [R1|R1].
      - eexists. split; [eapply h_finalize_last; eassumption|].
        intros X. apply (f_equal rem_prob) in X. cbn [rem_prob] in X. lia.
      - eexists. split; [eapply h_finalize; [eassumption|lia]|].
        intros X. apply (f_equal rem_prob) in X. cbn [rem_prob] in X. lia. }
  destruct (Nat.eq_dec (count is_habing (hps s)) 0) as [Z2b|N2b].
  2:{ destruct (count_pos_nth is_habing (hps s)) as (i & p & Hi & Hp); [lia|]. destruct p; try discriminate.
      destruct (Nat.eq_dec (rem_prob s) 1) as [R1|R1].
      - eexists. split; [eapply h_abandon_fin_last; eassumption|].
        intros X. apply (f_equal rem_prob) in X. cbn [rem_prob] in X. lia.
      - eexists. split; [eapply h_abandon_fin; [eassumption|lia]|].
        intros X. apply (f_equal rem_prob) in X. cbn [rem_prob] in X. lia. }
  destruct (Nat.eq_dec (count is_hchk (hps s)) 0) as [Z3|N3].
  2:{ destruct (count_pos_nth is_hchk (hps s)) as (i & p & Hi & Hp); [lia|]. destruct p; try discriminate.
      destruct (dready s && sready s) eqn:Hd.
      - eexists. split; [eapply h_drain_ready; [eassumption|reflexivity|assumption]|].
        intros X. apply (f_equal hps) in X. cbn [hps] in X. eapply upd_neq in X; [assumption|eassumption|discriminate].
      - eexists. split; [eapply h_drain_park; [eassumption|reflexivity|assumption]|].
        intros X. apply (f_equal hps) in X. cbn [hps] in X. eapply upd_neq in X; [assumption|eassumption|discriminate]. }
  destruct (Nat.eq_dec (count is_hdraining (hps s)) 0) as [Z4|N4].
  2:{ destruct (count_pos_nth is_hdraining (hps s)) as (i & p & Hi & Hp); [lia|]. destruct p; try discriminate.
      eexists. split; [eapply h_drain_done; eassumption|].
      intros X. apply (f_equal hps) in X. cbn [hps] in X. eapply upd_neq in X; [assumption|eassumption|discriminate]. }
  (* only partitions parked for the drain are left: every prober finalized (normally or by abandon),
     so drain_ready is set *)
  exfalso. destruct (dready s); [specialize (D0 eq_refl); lia|]. specialize (D1 eq_refl). lia.
Qed.

(* nested exhaustion (rule h_abandon_again is part of hstep): same theorem, named for the report *)
Theorem hj_no_deadlock_nested_limit n s :
  hreach true false n s -> ~ hall_done s -> exists s', hstep true false s s' /\ s' <> s.
Proof. apply hj_no_deadlock_with_limit. Qed.

Theorem hj_no_deadlock n s :
  hreach false false n s -> ~ hall_done s -> exists s', hstep false false s s' /\ s' <> s.
Proof. apply hj_no_deadlock_with_limit. Qed.

(* ---------- PREVIOUS stack versions (lose = true): a lost abandon deadlocks the drain barrier.
   Before 131551599: any LIMIT above the join; before c83fc4e4d: two exhausting operators. ---------- *)

Definition hj_deadlock_state : hst :=
  {| hps := [HLost; HParkedDrain]; sready := true; dready := false; rem_prob := 1 |}.

(* Two partitions.  Partition 0's pipeline is exhausted by a downstream LIMIT while it probes and its
   poll_finalize_execute is never called, so remaining_probers stays 1; partition 1 finishes its
   input, finalizes, and waits for drain_ready for ever: no step of any partition changes the
   state, on every schedule. *)
Theorem hj_drain_deadlock_when_abandon_lost_refuted :
  hreach true true 2 hj_deadlock_state /\ ~ hall_done hj_deadlock_state /\
  forall s', hstep true true hj_deadlock_state s' -> s' = hj_deadlock_state.
Proof.
  split; [|split].
  - assert (E : hj_deadlock_state =
      {| hps := upd [HLost; HDrainChk] 1 HParkedDrain; sready := true; dready := false; rem_prob := 1 |}) by reflexivity.
    rewrite E.
    eapply hr_step; [|apply (h_drain_park true true 1 HDrainChk
        {| hps := [HLost; HDrainChk]; sready := true; dready := false; rem_prob := 1 |}); reflexivity].
    eapply hr_step; [|apply (h_finalize true true 1
        {| hps := [HLost; HScan]; sready := true; dready := false; rem_prob := 2 |}); [reflexivity | cbn; lia]].
    eapply hr_step; [|apply (h_abandon_lost true true 0
        {| hps := [HAbandoning; HScan]; sready := true; dready := false; rem_prob := 2 |}); reflexivity].
    eapply hr_step; [|apply (h_abandon true true 0
        {| hps := [HScan; HScan]; sready := true; dready := false; rem_prob := 2 |}); reflexivity].
    eapply hr_step; [|apply (h_scan_ready true true 1 HProbe
        {| hps := [HScan; HProbe]; sready := true; dready := false; rem_prob := 2 |}); reflexivity].
    eapply hr_step; [|apply (h_scan_ready true true 0 HProbe
        {| hps := [HProbe; HProbe]; sready := true; dready := false; rem_prob := 2 |}); reflexivity].
    eapply hr_step; [|apply (h_build_done true true (hinit 2)); reflexivity].
    apply hr_init.
  - unfold hall_done, hj_deadlock_state. cbn. lia.
  - intros s' Hs. unfold hj_deadlock_state in *.
    inversion Hs as [s Hsr | i p s H Hp Hsr | i p s H Hp Hsr | i s H Hr | i s H Hr | i s H Hr
                    | i p s H Hp Hd | i p s H Hp Hd | i s H | i s Hab H | i s Hab H
                    | i s H Hr | i s H Hr | i s H Hr | i s Hab H | i s Hl H]; subst; cbn in *;
      try discriminate;
      try (destruct i as [|[|i]]; cbn in *; try discriminate; inversion H; subst; cbn in *; try discriminate; reflexivity);
      try (destruct i as [|[|[|i]]]; cbn in *; discriminate).
    all: destruct i as [|[|i]]; cbn [nth_error] in H; try (destruct i; discriminate);
      injection H as <-; cbn in Hp; try discriminate; try reflexivity.
Qed.

(* the repaired path: the abandoned partition's finalize releases the partition parked for the drain *)
Example hj_run_example : exists s, hreach true false 2 s /\ hall_done s.
Proof.
  exists {| hps := [HAbandoned; HDone]; sready := true; dready := true; rem_prob := 0 |}. split; [|reflexivity].
  eapply hr_step; [|apply (h_drain_done true false 1 {| hps := [HAbandoned; HDraining]; sready := true; dready := true; rem_prob := 0 |}); reflexivity].
  eapply hr_step; [|apply (h_drain_ready true false 1 HDrainChk {| hps := [HAbandoned; HDrainChk]; sready := true; dready := true; rem_prob := 0 |}); reflexivity].
  eapply hr_step; [|apply (h_abandon_fin_last true false 0 {| hps := [HAbandoning; HParkedDrain]; sready := true; dready := false; rem_prob := 1 |}); reflexivity].
  eapply hr_step; [|apply (h_drain_park true false 1 HDrainChk {| hps := [HAbandoning; HDrainChk]; sready := true; dready := false; rem_prob := 1 |}); reflexivity].
  eapply hr_step; [|apply (h_finalize true false 1 {| hps := [HAbandoning; HScan]; sready := true; dready := false; rem_prob := 2 |}); [reflexivity | cbn; lia]].
  eapply hr_step; [|apply (h_abandon true false 0 {| hps := [HScan; HScan]; sready := true; dready := false; rem_prob := 2 |}); reflexivity].
  eapply hr_step; [|apply (h_scan_ready true false 1 HProbe {| hps := [HScan; HProbe]; sready := true; dready := false; rem_prob := 2 |}); reflexivity].
  eapply hr_step; [|apply (h_scan_ready true false 0 HProbe {| hps := [HProbe; HProbe]; sready := true; dready := false; rem_prob := 2 |}); reflexivity].
  eapply hr_step; [|apply (h_build_done true false (hinit 2)); reflexivity].
  apply hr_init.
Qed.

Print Assumptions hj_no_deadlock_with_limit.
Print Assumptions hj_inv_parked_implies_flag_unset.
Print Assumptions hj_drain_deadlock_when_abandon_lost_refuted.
