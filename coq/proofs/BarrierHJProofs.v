(* C04 — proofs about the hash-join barrier model (model/BarrierHashJoin.v): build side (collect /
   init directory / insert hashes) and probe side (scan / finalize / drain / abandon), arbitrary
   numbers of build and probe partitions, any arrival order. *)
From Coq Require Import List Arith Lia Bool.
From GV Require Import lib.Lts model.BarrierHashJoin.
Import ListNotations.

(* ---- wake functions and counters ---- *)
Lemma cwp_pscan l : count is_hpscan (map wake_probers l) = 0.
Proof. rewrite count_map, (count_ext _ (fun _ => false)); [apply count_false|]. intros []; reflexivity. Qed.
Lemma cwp_probe l : count is_hprobe (map wake_probers l) = count is_hprobe l + count is_hpscan l.
Proof.
  rewrite count_map, (count_ext _ (fun p => is_hprobe p || is_hpscan p)).
  - apply count_orb. intros []; reflexivity.
  - intros []; reflexivity.
Qed.
Lemma cwp_other f l : (forall p, f (wake_probers p) = f p) -> count f (map wake_probers l) = count f l.
Proof. intros H. rewrite count_map. apply count_ext. exact H. Qed.
Lemma cwd_pdrain l : count is_hpdrain (map wake_drainers l) = 0.
Proof. rewrite count_map, (count_ext _ (fun _ => false)); [apply count_false|]. intros []; reflexivity. Qed.
Lemma cwd_chk l : count is_hchk (map wake_drainers l) = count is_hchk l + count is_hpdrain l.
Proof.
  rewrite count_map, (count_ext _ (fun p => is_hchk p || is_hpdrain p)).
  - apply count_orb. intros []; reflexivity.
  - intros []; reflexivity.
Qed.
Lemma cwd_other f l : (forall p, f (wake_drainers p) = f p) -> count f (map wake_drainers l) = count f l.
Proof. intros H. rewrite count_map. apply count_ext. exact H. Qed.
Lemma cwi_parked l : count is_bparked (map wake_ins l) = 0.
Proof. rewrite count_map, (count_ext _ (fun _ => false)); [apply count_false|]. intros [| | | | | |]; reflexivity. Qed.
Lemma cwi_ins l : count is_bins (map wake_ins l) = count is_bins l + count is_bparked l.
Proof.
  rewrite count_map, (count_ext _ (fun p => is_bins p || is_bparked p)).
  - apply count_orb. intros [| | | | | |]; reflexivity.
  - intros [| | | | | |]; reflexivity.
Qed.
Lemma cwi_other f l : (forall p, f (wake_ins p) = f p) -> count f (map wake_ins l) = count f l.
Proof. intros H. rewrite count_map. apply count_ext. exact H. Qed.

Lemma hlength_parts l :
  length l = count is_hprobe l + count is_hpscan l + count is_hscan l + count is_hchk l + count is_hpdrain l
             + count is_hdraining l + count is_hdone l + count is_habing l + count is_haband l + count is_hlost l
             + count is_herr l.
Proof.
  induction l as [|a l IH]; [reflexivity|]. rewrite !count_cons. cbn [length].
  destruct a; cbn [b2n is_hprobe is_hpscan is_hscan is_hchk is_hpdrain is_hdraining is_hdone is_habing is_haband is_hlost is_herr]; lia.
Qed.

Lemma blength_parts l :
  length l = count is_bcoll l + count is_bmid l + count is_bparked l + count is_bins l + count is_bproc l
             + count is_bdone l + count is_berr l.
Proof.
  induction l as [|a l IH]; [reflexivity|]. rewrite !count_cons. cbn [length].
  destruct a; cbn [b2n is_bcoll is_bmid is_bparked is_bins is_bproc is_bdone is_berr]; lia.
Qed.

Lemma midlast_le_mid l : count is_bmidlast l <= count is_bmid l.
Proof.
  induction l as [|a l IH]; [reflexivity|]. rewrite !count_cons.
  destruct a as [|[|]| | | | |]; cbn [b2n is_bmid is_bmidlast]; lia.
Qed.

Ltac hfacts H q :=
  pose proof (count_upd is_hprobe _ _ _ q H); pose proof (count_upd is_hpscan _ _ _ q H);
  pose proof (count_upd is_hscan _ _ _ q H); pose proof (count_upd is_hchk _ _ _ q H);
  pose proof (count_upd is_hpdrain _ _ _ q H); pose proof (count_upd is_hdraining _ _ _ q H);
  pose proof (count_upd is_hdone _ _ _ q H); pose proof (count_upd is_haband _ _ _ q H);
  pose proof (count_upd is_herr _ _ _ q H); pose proof (count_upd is_habing _ _ _ q H);
  pose proof (count_upd is_hlost _ _ _ q H); pose proof (count_nth_ge is_habing _ _ _ H);
  pose proof (count_nth_ge is_hprobe _ _ _ H); pose proof (count_nth_ge is_hpscan _ _ _ H);
  pose proof (count_nth_ge is_hscan _ _ _ H); pose proof (count_nth_ge is_hchk _ _ _ H);
  pose proof (count_nth_ge is_hpdrain _ _ _ H); pose proof (count_nth_ge is_hdraining _ _ _ H);
  pose proof (length_upd _ _ _ q H).

Ltac bfacts H q :=
  pose proof (count_upd is_bcoll _ _ _ q H); pose proof (count_upd is_bmid _ _ _ q H);
  pose proof (count_upd is_bmidlast _ _ _ q H); pose proof (count_upd is_bparked _ _ _ q H);
  pose proof (count_upd is_bins _ _ _ q H); pose proof (count_upd is_bproc _ _ _ q H);
  pose proof (count_upd is_bdone _ _ _ q H); pose proof (count_upd is_berr _ _ _ q H);
  pose proof (count_nth_ge is_bcoll _ _ _ H); pose proof (count_nth_ge is_bmid _ _ _ H);
  pose proof (count_nth_ge is_bmidlast _ _ _ H); pose proof (count_nth_ge is_bparked _ _ _ H);
  pose proof (count_nth_ge is_bins _ _ _ H); pose proof (count_nth_ge is_bproc _ _ _ H);
  pose proof (length_upd _ _ _ q H).

Ltac hwake_rw :=
  rewrite ?cwd_pdrain, ?cwd_chk, ?(cwd_other is_hprobe), ?(cwd_other is_hpscan), ?(cwd_other is_hscan),
    ?(cwd_other is_hdraining), ?(cwd_other is_hdone), ?(cwd_other is_haband), ?(cwd_other is_herr),
    ?(cwd_other is_habing), ?(cwd_other is_hlost),
    ?cwp_pscan, ?cwp_probe, ?(cwp_other is_hscan), ?(cwp_other is_hchk), ?(cwp_other is_hpdrain),
    ?(cwp_other is_hdraining), ?(cwp_other is_hdone), ?(cwp_other is_haband), ?(cwp_other is_herr),
    ?(cwp_other is_habing), ?(cwp_other is_hlost),
    ?cwi_parked, ?cwi_ins, ?(cwi_other is_bcoll), ?(cwi_other is_bmid), ?(cwi_other is_bmidlast),
    ?(cwi_other is_bproc), ?(cwi_other is_bdone), ?(cwi_other is_berr),
    ?map_length in * by (first [intros [] | intros [| | | | | |]]; reflexivity).

Ltac hred :=
  cbn [b2n is_hprobe is_hpscan is_hscan is_hchk is_hpdrain is_hdraining is_hdone is_habing is_haband is_hlost is_herr
       is_bcoll is_bmid is_bmidlast is_bparked is_bins is_bproc is_bdone is_berr
       bps bremaining hready rem_ins hps sready dready rem_prob wake_probers wake_drainers wake_ins andb] in *.

Definition sr_n (s : hst) : nat := if sready s then 1 else 0.
Definition dr_n (s : hst) : nat := if dready s then 1 else 0.
Definition hr_n (s : hst) : nat := if hready s then 1 else 0.

Record HInv (s : hst) : Prop := {
  (* build side *)
  bA : bremaining s = count is_bcoll (bps s);
  bB1 : count is_bmidlast (bps s) <= 1;
  bB2 : count is_bmidlast (bps s) = 1 -> count is_bcoll (bps s) = 0;
  bC : hr_n s = 1 -> count is_bcoll (bps s) + count is_bmidlast (bps s) + count is_bparked (bps s) = 0;
  bD1 : hr_n s = 0 -> count is_bins (bps s) + count is_bproc (bps s) + count is_bdone (bps s) = 0;
  bD2 : hr_n s = 0 -> 0 < count is_bcoll (bps s) + count is_bmid (bps s) + count is_bparked (bps s) ->
        1 <= count is_bcoll (bps s) + count is_bmidlast (bps s);
  bE : rem_ins s = count is_bcoll (bps s) + count is_bmid (bps s) + count is_bparked (bps s)
                   + count is_bins (bps s) + count is_bproc (bps s);
  bF : count is_berr (bps s) = 0;
  sS1 : sr_n s = 1 -> rem_ins s = 0;
  sS0 : sr_n s = 0 -> rem_ins s = 0 -> count is_bdone (bps s) = 0;
  (* probe side *)
  hR : rem_prob s = count is_hprobe (hps s) + count is_hpscan (hps s) + count is_hscan (hps s)
                    + count is_habing (hps s);
  hS0 : sr_n s = 0 -> count is_hscan (hps s) + count is_hdraining (hps s) + count is_hdone (hps s)
                      + count is_habing (hps s) + count is_haband (hps s) = 0;
  hS1 : sr_n s = 1 -> count is_hpscan (hps s) = 0;
  hD0 : dr_n s = 1 -> rem_prob s = 0;
  hD0b : dr_n s = 1 -> sr_n s = 1 -> count is_hpdrain (hps s) = 0;
  hD1 : dr_n s = 0 -> rem_prob s = 0 ->
        count is_hchk (hps s) + count is_hpdrain (hps s) + count is_hdraining (hps s) + count is_hdone (hps s)
        + count is_haband (hps s) = 0;
  hD2 : 0 < count is_hdraining (hps s) + count is_hdone (hps s) -> dr_n s = 1 /\ sr_n s = 1;
  hE : count is_herr (hps s) = 0;
  hL : count is_hlost (hps s) = 0
}.

Ltac hviews := unfold sr_n, dr_n, hr_n in *; hred.
Ltac fin := constructor; hviews; hwake_rw; intros; lia.
Ltac split_flags s := destruct s as [bp br hr ri ps sr dr rm]; hviews.

Lemma hinv_init nb n : HInv (hinit nb n).
Proof.
  unfold hinit. constructor; hviews; rewrite ?count_repeat; hred; intros; lia.
Qed.

Lemma hinv_step ab s s' : HInv s -> hstep ab false true s s' -> HInv s'.
Proof.
  intros [A B1 B2 C D1' D2' E' F' SS1 SS0 R S0 S1 D0 D0b D1 D2 E L] Hs.
  pose proof (midlast_le_mid (bps s)) as MLM.
  destruct Hs as [i s H Hr | i s H Hr | i s H | i s H Hr | i s H Hr | i p s H Hp Hr | i p s H Hp Hr
                 | i s H Hr | i s H Hr | i s H Hr
                 | i p s H Hp Hsr | i p s H Hp Hsr | i p s H Hp Hr | i p s H Hp Hr | i p s H Hp Hr
                 | i p s H Hp Hd | i p s H Hp Hd | i s H | i s Hab H | i s Hab H
                 | i s H Hr | i s H Hr | i s H Hr | i s Hab H | i s Hl H]; try discriminate.
  - (* fetch_sub *)
    destruct (Nat.eqb_spec (bremaining s) 1) as [E1|E1].
    + bfacts H (BMid true). split_flags s. destruct hr, sr, dr; fin.
    + bfacts H (BMid false). split_flags s. destruct hr, sr, dr; fin.
  - (* fetch underflow *)
    bfacts H BErr. hviews. exfalso. lia.
  - (* last_lock *)
    pose proof (map_nth_error wake_ins _ _ H) as H'. hred. bfacts H' BIns. hwake_rw. bfacts H (BMid true).
    split_flags s. destruct hr, sr, dr; fin.
  - (* nonlast_ready *)
    bfacts H BIns. split_flags s. subst hr. destruct sr, dr; fin.
  - (* nonlast_park *)
    bfacts H BParked. split_flags s. subst hr. destruct sr, dr; fin.
  - (* ins_ready *)
    destruct p; try discriminate; bfacts H BProc; split_flags s; subst hr; destruct sr, dr; fin.
  - (* ins_park *)
    destruct p; try discriminate; bfacts H BParked; split_flags s; subst hr; destruct sr, dr; fin.
  - (* proc_done_last *)
    bfacts H BDone. split_flags s. subst ri. destruct hr, sr, dr; fin.
  - (* proc_done *)
    bfacts H BDone. split_flags s. destruct hr, sr, dr; fin.
  - (* proc_err *)
    bfacts H BErr. hviews. exfalso. lia.
  - (* scan_ready *)
    destruct p; try discriminate; hfacts H HScan; split_flags s; subst sr; destruct hr, dr; fin.
  - (* scan_park *)
    destruct p; try discriminate; hfacts H HParkedScan; split_flags s; subst sr; destruct hr, dr; fin.
  - (* finalize_last *)
    pose proof (map_nth_error wake_drainers _ _ H) as H'.
    destruct p; try discriminate; hred; hfacts H' HDrainChk; hwake_rw;
      [hfacts H HProbe | hfacts H HScan]; split_flags s; subst rm; destruct hr, sr, dr; fin.
  - (* finalize *)
    destruct p; try discriminate; hfacts H HDrainChk; split_flags s; destruct hr, sr, dr; fin.
  - (* finalize_err *)
    destruct p; try discriminate; hfacts H HErr; hviews; exfalso; lia.
  - (* drain_ready *)
    destruct p; try discriminate; hfacts H HDraining;
      split_flags s; destruct hr, sr, dr; try discriminate; fin.
  - (* drain_park *)
    destruct p; try discriminate; hfacts H HParkedDrain;
      split_flags s; destruct hr, sr, dr; try discriminate; fin.
  - (* drain_done *)
    hfacts H HDone. split_flags s. destruct hr, sr, dr; fin.
  - (* abandon while probing *)
    hfacts H HAbandoning. split_flags s. destruct hr, sr, dr; fin.
  - (* abandon while draining *)
    hfacts H HDone. split_flags s. destruct hr, sr, dr; fin.
  - (* abandon_fin_last *)
    pose proof (map_nth_error wake_drainers _ _ H) as H'. hred. hfacts H' HAbandoned. hwake_rw. hfacts H HAbandoning.
    split_flags s. subst rm. destruct hr, sr, dr; fin.
  - (* abandon_fin *)
    hfacts H HAbandoned. split_flags s. destruct hr, sr, dr; fin.
  - (* abandon_fin_err *)
    hfacts H HErr. hviews. exfalso. lia.
  - (* abandon_again *)
    hfacts H HAbandoning. split_flags s. destruct hr, sr, dr; fin.
Qed.

Theorem hinv_reach ab nb n s : hreach ab false true nb n s -> HInv s.
Proof. induction 1; [apply hinv_init | eapply hinv_step; eassumption]. Qed.

Lemma blength_reach ab lose wd nb n s : hreach ab lose wd nb n s -> length (bps s) = nb.
Proof.
  induction 1 as [|s s' R IH Hs]; [unfold hinit; cbn [bps]; apply repeat_length|].
  destruct Hs; cbn [bps]; try exact IH; rewrite <- IH;
    try (erewrite length_upd; [reflexivity|eassumption]);
    (erewrite length_upd; [apply map_length | apply map_nth_error; eassumption]).
Qed.
