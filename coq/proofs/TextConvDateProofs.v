(* Date text round trip: whatever Date32Formatter (chrono "%Y-%m-%d") prints, NaiveDate::from_str reads
   back as the same day number.  Model: model/TextConv.v (parse_date, format_date), model/Calendar.v. *)
From Coq Require Import NArith ZArith List Bool Lia ZifyBool ZifyN.
From GV Require Import model.Cast model.Calendar model.TextConv proofs.TextConvProofs proofs.CalendarProofs.
Import ListNotations.
Open Scope Z_scope.
Ltac Zify.zify_post_hook ::= Z.div_mod_to_equations.

(* ---------- ranges ---------- *)
Lemma in_range_I64_small x : 0 <= x <= 10000000 -> in_range I64 x = true.
Proof.
  intros H. apply in_range_intro. unfold imin, imax, I64. cbn [i_signed i_bits].
  change (2 ^ (64 - 1)) with 9223372036854775808. lia.
Qed.

Lemma in_range_I32_small x : -1000000 <= x <= 1000000 -> in_range I32 x = true.
Proof.
  intros H. apply in_range_intro. unfold imin, imax, I32. cbn [i_signed i_bits].
  change (2 ^ (32 - 1)) with 2147483648. lia.
Qed.

(* ---------- zero padding ---------- *)
Lemma lpad_n_digits n l : forallb is_digit (lpad_n n 48%N l) = forallb is_digit l.
Proof. induction n as [|n IH]; [reflexivity|]. cbn [lpad_n forallb]. rewrite IH. reflexivity. Qed.

Lemma lpad_n_dval n l : dval 0 (lpad_n n 48%N l) = dval 0 l.
Proof.
  induction n as [|n IH]; [reflexivity|]. cbn [lpad_n].
  change (dval 0 (48%N :: lpad_n n 48%N l)) with (dval (0 * 10 + digit_val 48%N) (lpad_n n 48%N l)).
  change (0 * 10 + digit_val 48%N) with 0. exact IH.
Qed.

Lemma lpad_n_length n c l : length (lpad_n n c l) = (n + length l)%nat.
Proof. induction n as [|n IH]; [reflexivity|]. cbn [lpad_n length]. rewrite IH. lia. Qed.

Lemma lpad_facts w l : forallb is_digit l = true ->
  forallb is_digit (lpad w 48%N l) = true /\ dval 0 (lpad w 48%N l) = dval 0 l /\
  length (lpad w 48%N l) = (Z.to_nat (w - Z.of_nat (length l)) + length l)%nat.
Proof. intros H. unfold lpad. rewrite lpad_n_digits, lpad_n_dval, lpad_n_length. auto. Qed.

(* ---------- number of digits of the integer Display ---------- *)
Lemma udigits_S f v acc :
  udigits (S f) v acc = if v <? 10 then digit_char v :: acc else udigits f (v / 10) (digit_char (v mod 10) :: acc).
Proof. reflexivity. Qed.

Lemma udigits_len : forall f v acc k, 0 <= v < 10 ^ Z.of_nat (S k) ->
  (length (udigits (S f) v acc) <= S k + length acc)%nat.
Proof.
  induction f as [|f IH]; intros v acc k Hv; rewrite udigits_S; destruct (v <? 10) eqn:E.
  - cbn [length]. lia.
  - cbn [udigits length]. lia.
  - cbn [length]. lia.
  - destruct k as [|k]; [cbn in Hv; lia|].
    rewrite Nat2Z.inj_succ, Z.pow_succ_r in Hv by lia.
    specialize (IH (v / 10) (digit_char (v mod 10) :: acc) k ltac:(lia)). cbn [length] in IH. lia.
Qed.

Lemma format_uint_len v k : 0 <= v < 10 ^ Z.of_nat (S k) -> (length (format_uint v) <= S k)%nat.
Proof.
  intros H. unfold format_uint.
  pose proof (udigits_len (Z.to_nat (Z.log2 v)) v [] k H) as L. cbn [length] in L. lia.
Qed.

(* `{:0>w}` of a number below 10^w: exactly w digits *)
Lemma padded_uint v w k : 0 <= v < 10 ^ Z.of_nat (S k) -> w = Z.of_nat (S k) ->
  exists ds, lpad w 48%N (format_uint v) = ds /\ forallb is_digit ds = true /\ dval 0 ds = v /\ length ds = S k.
Proof.
  intros Hv Hw. pose proof (format_uint_len v k Hv) as Hl.
  destruct (format_uint_spec v ltac:(lia)) as [l [H1 [H2 [H3 H4]]]]. rewrite H1 in *.
  destruct (lpad_facts w l H3) as [A [B C]].
  exists (lpad w 48%N l). repeat split; auto; [congruence|].
  rewrite C. destruct l as [|b l]; [congruence|]. cbn [length] in *. lia.
Qed.

(* any width: digits only, not empty, same value *)
Lemma padded_uint_any v w : 0 <= v ->
  exists ds, lpad w 48%N (format_uint v) = ds /\ ds <> [] /\ forallb is_digit ds = true /\ dval 0 ds = v.
Proof.
  intros Hv. destruct (format_uint_spec v Hv) as [l [H1 [H2 [H3 H4]]]]. rewrite H1.
  destruct (lpad_facts w l H3) as [A [B C]].
  exists (lpad w 48%N l). repeat split; auto; [|congruence].
  intros E. rewrite E in C. destruct l as [|b l]; [congruence|]. cbn [length] in C. lia.
Qed.

(* ---------- chrono scan::number ---------- *)
Lemma scan_S_digit f first acc b r : is_digit b = true -> 0 <= acc -> acc * 10 + digit_val b <= 10000000 ->
  scan_number (S f) first acc (b :: r) = scan_number f false (acc * 10 + digit_val b) r.
Proof.
  intros Hb Ha Hv. pose proof (is_digit_val b Hb) as Hbv.
  change (scan_number (S f) first acc (b :: r))
    with (if is_digit b
          then (if in_range I64 (acc * 10) && in_range I64 (acc * 10 + digit_val b)
                then scan_number f false (acc * 10 + digit_val b) r else None)
          else if first then None else Some (acc, b :: r)).
  rewrite Hb, (in_range_I64_small (acc * 10)), (in_range_I64_small (acc * 10 + digit_val b)) by lia.
  reflexivity.
Qed.

(* exactly `fuel` digits: the scan stops because the maximum width is reached; the rest is arbitrary *)
Lemma scan_exact : forall ds rest acc first, forallb is_digit ds = true -> 0 <= acc -> dval acc ds <= 10000000 ->
  scan_number (length ds) first acc (ds ++ rest) = Some (dval acc ds, rest).
Proof.
  induction ds as [|b r IH]; intros rest acc first Hd Ha Hv; [reflexivity|].
  cbn [forallb] in Hd. apply andb_true_iff in Hd. destruct Hd as [Hb Hr]. pose proof (is_digit_val b Hb) as Hbv.
  change (dval acc (b :: r)) with (dval (acc * 10 + digit_val b) r) in *.
  pose proof (dval_ge r (acc * 10 + digit_val b) ltac:(lia) Hr) as Hge.
  cbn [length app]. rewrite scan_S_digit by (auto; lia). apply IH; auto; lia.
Qed.

Definition stops (rest : list N) : Prop :=
  match rest with [] => True | b :: _ => is_digit b = false end.

(* fewer digits than the maximum width: the scan stops at the end or at the first non-digit *)
Lemma scan_stop : forall ds rest fuel acc first, forallb is_digit ds = true -> stops rest ->
  (length ds < fuel)%nat -> (first = true -> ds <> []) -> 0 <= acc -> dval acc ds <= 10000000 ->
  scan_number fuel first acc (ds ++ rest) = Some (dval acc ds, rest).
Proof.
  induction ds as [|b r IH]; intros rest fuel acc first Hd Hs Hf Hne Ha Hv.
  - destruct fuel as [|f]; [cbn [length] in Hf; lia|].
    destruct first; [exfalso; apply Hne; reflexivity|].
    cbn [app]. destruct rest as [|c rest]; [reflexivity|].
    unfold stops in Hs. cbn [scan_number]. rewrite Hs. reflexivity.
  - destruct fuel as [|f]; [cbn [length] in Hf; lia|].
    cbn [forallb] in Hd. apply andb_true_iff in Hd. destruct Hd as [Hb Hr]. pose proof (is_digit_val b Hb) as Hbv.
    change (dval acc (b :: r)) with (dval (acc * 10 + digit_val b) r) in *.
    pose proof (dval_ge r (acc * 10 + digit_val b) ltac:(lia) Hr) as Hge.
    cbn [app]. rewrite scan_S_digit by (auto; lia).
    apply IH; auto; [cbn [length] in Hf; lia | discriminate | lia].
Qed.

(* ---------- white space ---------- *)
Lemma digit_not_ws b : is_digit b = true -> is_ws b = false.
Proof. unfold is_digit, is_ws. lia. Qed.

Lemma trim_start_keep b r : is_ws b = false -> trim_start (b :: r) = b :: r.
Proof. intros H. cbn [trim_start]. rewrite H. reflexivity. Qed.

Lemma trim_start_digits ds rest : ds <> [] -> forallb is_digit ds = true -> trim_start (ds ++ rest) = ds ++ rest.
Proof.
  intros Hne Hd. destruct ds as [|b r]; [congruence|].
  cbn [forallb] in Hd. apply andb_true_iff in Hd. destruct Hd as [Hb _].
  cbn [app]. apply trim_start_keep, digit_not_ws, Hb.
Qed.

(* ---------- parse_date cut into its stages ---------- *)
Definition year_part (s : list N) : option (Z * list N) :=
  match s with
  | b :: r =>
      if (b =? 45)%N then
        match scan_number (S (length s)) true 0 r with
        | Some (v, rest) => Some (- v, rest)
        | None => None
        end
      else if (b =? 43)%N then scan_number (S (length s)) true 0 r
      else scan_number 4 true 0 s
  | [] => None
  end.

Definition dash (s : list N) (k : list N -> option Z) : option Z :=
  match trim_start s with
  | b :: s => if negb (b =? 45)%N then None else k s
  | [] => None
  end.

Definition day_tail (y m : Z) (s : list N) : option Z :=
  match scan_number 2 true 0 (trim_start s) with
  | None => None
  | Some (d, s) =>
      match trim_start s with
      | _ :: _ => None
      | [] => if in_range I32 y && (min_year <=? y) && (y <=? max_year) && valid_ymd y m d
              then Some (days_from_civil y m d) else None
      end
  end.

Definition month_tail (y : Z) (s : list N) : option Z :=
  match scan_number 2 true 0 (trim_start s) with
  | None => None
  | Some (m, s) => dash s (day_tail y m)
  end.

Definition date_tail (yr : option (Z * list N)) : option Z :=
  match yr with
  | None => None
  | Some (y, s) => dash s (month_tail y)
  end.

Lemma parse_date_eq bs : parse_date bs = date_tail (year_part (trim_start bs)).
Proof. reflexivity. Qed.

Lemma dash_ok s k : dash (45%N :: s) k = k s.
Proof. reflexivity. Qed.

Lemma len2_ne (l : list N) : length l = 2%nat -> l <> [].
Proof. intros H E. rewrite E in H. discriminate. Qed.

Lemma date_tail_ok y m d M D :
  forallb is_digit M = true -> length M = 2%nat -> dval 0 M = m ->
  forallb is_digit D = true -> length D = 2%nat -> dval 0 D = d ->
  0 <= m <= 100 -> 0 <= d <= 100 ->
  in_range I32 y && (min_year <=? y) && (y <=? max_year) && valid_ymd y m d = true ->
  date_tail (Some (y, 45%N :: M ++ 45%N :: D)) = Some (days_from_civil y m d).
Proof.
  intros HM LM VM HD LD VD Hm Hd Hok.
  assert (SM : forall rest, scan_number 2 true 0 (M ++ rest) = Some (m, rest)).
  { intros rest. pose proof (scan_exact M rest 0 true HM ltac:(lia) ltac:(lia)) as E.
    rewrite LM, VM in E. exact E. }
  assert (SD : forall rest, scan_number 2 true 0 (D ++ rest) = Some (d, rest)).
  { intros rest. pose proof (scan_exact D rest 0 true HD ltac:(lia) ltac:(lia)) as E.
    rewrite LD, VD in E. exact E. }
  unfold date_tail. rewrite dash_ok. unfold month_tail.
  rewrite trim_start_digits by (auto using len2_ne). rewrite SM, dash_ok. unfold day_tail.
  rewrite <- (app_nil_r D).
  rewrite trim_start_digits by (auto using len2_ne). rewrite SD. cbn [trim_start].
  rewrite Hok. reflexivity.
Qed.

(* ---------- the year field ---------- *)
Lemma year_part_cons b r :
  year_part (b :: r) =
  if (b =? 45)%N then
    match scan_number (S (length (b :: r))) true 0 r with
    | Some (v, rest) => Some (- v, rest)
    | None => None
    end
  else if (b =? 43)%N then scan_number (S (length (b :: r))) true 0 r
  else scan_number 4 true 0 (b :: r).
Proof. reflexivity. Qed.

Lemma year_part_4 Y rest : forallb is_digit Y = true -> length Y = 4%nat -> dval 0 Y <= 10000000 ->
  year_part (Y ++ rest) = Some (dval 0 Y, rest).
Proof.
  intros HY LY VY. pose proof (scan_exact Y rest 0 true HY ltac:(lia) VY) as E. rewrite LY in E.
  destruct Y as [|a Y']; [discriminate|].
  assert (Ha : is_digit a = true) by (cbn [forallb] in HY; apply andb_true_iff in HY; tauto).
  assert (E45 : (a =? 45)%N = false) by (unfold is_digit in Ha; lia).
  assert (E43 : (a =? 43)%N = false) by (unfold is_digit in Ha; lia).
  cbn [app] in *. rewrite year_part_cons, E45, E43. exact E.
Qed.

Lemma unbounded_fuel (b : N) (Y rest : list N) : (length Y < S (length (b :: Y ++ rest)))%nat.
Proof. cbn [length]. rewrite app_length. lia. Qed.

Lemma year_part_plus Y rest : forallb is_digit Y = true -> Y <> [] -> stops rest -> dval 0 Y <= 10000000 ->
  year_part (43%N :: Y ++ rest) = Some (dval 0 Y, rest).
Proof.
  intros HY NY SR VY. rewrite year_part_cons.
  change (43 =? 45)%N with false. change (43 =? 43)%N with true. cbv iota.
  apply scan_stop; auto; [apply unbounded_fuel | lia].
Qed.

Lemma year_part_minus Y rest : forallb is_digit Y = true -> Y <> [] -> stops rest -> dval 0 Y <= 10000000 ->
  year_part (45%N :: Y ++ rest) = Some (- dval 0 Y, rest).
Proof.
  intros HY NY SR VY. rewrite year_part_cons.
  change (45 =? 45)%N with true. cbv iota.
  rewrite scan_stop; auto; [apply unbounded_fuel | lia].
Qed.

Lemma days_in_month_le y m : days_in_month y m <= 31.
Proof.
  unfold days_in_month. destruct (m =? 2); [destruct (is_leap y); lia|].
  destruct ((m =? 4) || (m =? 6) || (m =? 9) || (m =? 11)); lia.
Qed.

(* ---------- the round trip ---------- *)
Theorem format_parse_date_roundtrip : forall z bs, format_date z = Some bs -> parse_date bs = Some z.
Proof.
  intros z bs H. unfold format_date in H. cbv zeta in H.
  destruct (in_range I32 (z + 719163) && in_range I32 (z + 719163 + 365)) eqn:R; [|discriminate].
  pose proof (calendar_roundtrip_days z) as C.
  destruct (civil_from_days z) as [[y m] d]. destruct C as [Cz Cv].
  destruct ((min_year <=? y) && (y <=? max_year)) eqn:Ry; [|discriminate].
  injection H as <-.
  apply andb_true_iff in Ry. destruct Ry as [Ry1 Ry2].
  assert (Hy : -262143 <= y <= 262142) by (unfold min_year, max_year in *; lia).
  pose proof (days_in_month_le y m) as Hdm.
  assert (Hmd : 1 <= m <= 12 /\ 1 <= d <= 31) by (unfold valid_ymd in Cv; lia).
  assert (Hok : in_range I32 y && (min_year <=? y) && (y <=? max_year) && valid_ymd y m d = true).
  { rewrite in_range_I32_small, Ry1, Ry2, Cv by lia. reflexivity. }
  destruct (padded_uint m 2 1 ltac:(change (10 ^ Z.of_nat 2) with 100; lia) eq_refl) as [M [EM [HM [VM LM]]]].
  destruct (padded_uint d 2 1 ltac:(change (10 ^ Z.of_nat 2) with 100; lia) eq_refl) as [D [ED [HD [VD LD]]]].
  rewrite EM, ED. rewrite <- Cz. rewrite parse_date_eq.
  assert (ST : stops (45%N :: M ++ 45%N :: D)) by reflexivity.
  unfold format_year. destruct ((0 <=? y) && (y <=? 9999)) eqn:E.
  - destruct (padded_uint y 4 3 ltac:(change (10 ^ Z.of_nat 4) with 10000; lia) eq_refl) as [Y [EY [HY [VY LY]]]].
    rewrite EY. cbn [app].
    rewrite trim_start_digits by (auto; intros E0; rewrite E0 in LY; discriminate).
    rewrite year_part_4 by (auto; lia). rewrite VY.
    apply date_tail_ok; auto; lia.
  - destruct (y <? 0) eqn:En.
    + destruct (padded_uint_any (Z.abs y) 4 ltac:(lia)) as [Y [EY [NY [HY VY]]]].
      rewrite EY. cbn [app].
      rewrite trim_start_keep by reflexivity.
      rewrite year_part_minus by (auto; lia). rewrite VY.
      replace (- Z.abs y) with y by lia.
      apply date_tail_ok; auto; lia.
    + destruct (padded_uint_any (Z.abs y) 4 ltac:(lia)) as [Y [EY [NY [HY VY]]]].
      rewrite EY. cbn [app].
      rewrite trim_start_keep by reflexivity.
      rewrite year_part_plus by (auto; lia). rewrite VY.
      replace (Z.abs y) with y by lia.
      apply date_tail_ok; auto; lia.
Qed.

(* the hypothesis is satisfiable: 2020-02-29 (a leap day), a 5-digit year, a negative year *)
Example format_date_leap_day :
  format_date 18321 = Some [50; 48; 50; 48; 45; 48; 50; 45; 50; 57]%N
  /\ parse_date [50; 48; 50; 48; 45; 48; 50; 45; 50; 57]%N = Some 18321.
Proof. vm_compute. split; reflexivity. Qed.

Definition roundtrip_check (z : Z) (sign : N) : bool :=
  match format_date z with
  | Some bs => (hd 0%N bs =? sign)%N && match parse_date bs with Some v => v =? z | None => false end
  | None => false
  end.

Example format_date_wide_years :
  roundtrip_check 3000000 43%N = true /\ roundtrip_check (-1000000) 45%N = true
  /\ roundtrip_check (days_from_civil max_year 12 31) 43%N = true
  /\ roundtrip_check (days_from_civil min_year 1 1) 45%N = true.
Proof. vm_compute. repeat split; reflexivity. Qed.

Print Assumptions format_parse_date_roundtrip.
