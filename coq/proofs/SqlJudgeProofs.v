(* C01 — soundness of the judge `check_answer` of model/Sql.v.

   1. row_same is exactly equality of rows (NULL = NULL), for all values; so the bag comparison
      bag_eqb decides `Permutation`, and sub_bagb implies "is a sub-multiset".
   2. Without a top-level ORDER BY, VOk means: the specification evaluates and the engine's rows are
      a permutation of the specified rows (and conversely).
   3. sort_by is a stable sorting function for the declared order keys_cmp.
   4. With a top-level ORDER BY [LIMIT/OFFSET], VOk means: the engine's rows are EXACTLY the
      requested slice of SOME correctly ordered arrangement of the specified input (rows with equal
      keys may come in any order).  This needs the order to be transitive, which keys_cmp is on rows
      whose key columns hold values of one kind (keys_cmp calls values of different kinds "equal");
      the port of proofs/SortSpecProofs.v `check_order_slice_sound` to Sql.v's row type. *)
From Coq Require Import NArith ZArith List Bool Lia Permutation Sorted.
From GV Require Import lib.Bytes model.Sql.
Import ListNotations.
Local Open Scope nat_scope.

(* ------------------------------------------------------------------ 1. row_same is equality *)

Lemma val_same_eq a b : val_same a b = true -> a = b.
Proof.
  destruct a as [|x|x|x], b as [|y|y|y]; cbn; intros H; try discriminate H; try reflexivity.
  - destruct x, y; try discriminate H; reflexivity.
  - destruct (x ?= y)%Z eqn:E; try discriminate H. apply Z.compare_eq in E. subst y. reflexivity.
  - destruct (lex_cmp x y) eqn:E; try discriminate H. apply lex_cmp_eq_iff in E. subst y. reflexivity.
Qed.

Lemma val_same_refl a : val_same a a = true.
Proof.
  destruct a as [|x|x|x]; cbn; [reflexivity|destruct x; reflexivity| |].
  - rewrite Z.compare_refl. reflexivity.
  - rewrite lex_cmp_refl. reflexivity.
Qed.

Lemma row_same_eq : forall a b, row_same a b = true -> a = b.
Proof.
  induction a as [|x a IH]; intros [|y b] H; cbn [row_same] in H; try discriminate H; [reflexivity|].
  apply andb_prop in H. destruct H as [Hxy H]. apply val_same_eq in Hxy. subst y.
  f_equal. apply IH, H.
Qed.

Lemma row_same_refl a : row_same a a = true.
Proof. induction a as [|x a IH]; [reflexivity|]. cbn [row_same]. rewrite val_same_refl, IH. reflexivity. Qed.

Theorem row_same_iff : forall a b, row_same a b = true <-> a = b.
Proof. intros a b. split; [apply row_same_eq|intros ->; apply row_same_refl]. Qed.

(* ------------------------------------------------------------------ 2. bags *)

Lemma remove_row_perm r l : forall l', remove_row r l = Some l' -> Permutation l (r :: l').
Proof.
  induction l as [|x l IH]; intros l' H; cbn [remove_row] in H; [discriminate H|].
  destruct (row_same r x) eqn:E.
  - apply row_same_eq in E. inversion H; subst. apply Permutation_refl.
  - destruct (remove_row r l) as [t|]; [|discriminate H]. inversion H; subst.
    eapply perm_trans; [apply perm_skip, (IH t eq_refl)|apply perm_swap].
Qed.

Lemma remove_row_in r l : In r l -> exists l', remove_row r l = Some l'.
Proof.
  induction l as [|x l IH]; intros Hin; [destruct Hin|].
  cbn [remove_row]. destruct (row_same r x) eqn:E; [eexists; reflexivity|].
  destruct Hin as [Hx|Hin].
  - subst x. rewrite row_same_refl in E. discriminate E.
  - destruct (IH Hin) as [t Ht]. rewrite Ht. eexists; reflexivity.
Qed.

Theorem bag_eqb_sound : forall a b, bag_eqb a b = true -> Permutation a b.
Proof.
  induction a as [|r a IH]; intros b H; cbn [bag_eqb] in H.
  - destruct b; [apply perm_nil|discriminate H].
  - destruct (remove_row r b) as [b'|] eqn:E; [|discriminate H].
    eapply perm_trans; [apply perm_skip, (IH b' H)|].
    apply Permutation_sym, (remove_row_perm r b b' E).
Qed.

(* the form "equal up to row_same" *)
Theorem bag_eqb_sound_same : forall a b, bag_eqb a b = true ->
  exists b', Permutation b b' /\ Forall2 (fun x y => row_same x y = true) a b'.
Proof.
  intros a b H. exists a. split; [apply Permutation_sym, bag_eqb_sound, H|].
  clear H. induction a as [|x a IH]; constructor; [apply row_same_refl|exact IH].
Qed.

Theorem bag_eqb_complete : forall a b, Permutation a b -> bag_eqb a b = true.
Proof.
  induction a as [|r a IH]; intros b H.
  - apply Permutation_nil in H. subst b. reflexivity.
  - cbn [bag_eqb].
    assert (Hin : In r b) by (apply (Permutation_in _ H); left; reflexivity).
    destruct (remove_row_in r b Hin) as [b' E]. rewrite E. apply IH.
    apply (Permutation_cons_inv (a := r)).
    eapply perm_trans; [exact H|apply (remove_row_perm r b b' E)].
Qed.

Theorem bag_eqb_iff : forall a b, bag_eqb a b = true <-> Permutation a b.
Proof. intros a b. split; [apply bag_eqb_sound|apply bag_eqb_complete]. Qed.

Theorem sub_bagb_sound : forall a b, sub_bagb a b = true -> exists rest, Permutation b (a ++ rest).
Proof.
  induction a as [|x a IH]; intros b H.
  - exists b. apply Permutation_refl.
  - cbn [sub_bagb] in H. destruct (remove_row x b) as [b'|] eqn:E; [|discriminate H].
    destruct (IH b' H) as [rest Hr]. exists rest.
    eapply perm_trans; [apply (remove_row_perm x b b' E)|].
    cbn [app]. apply perm_skip, Hr.
Qed.

Example bag_eqb_example :
  bag_eqb [[VInt 1; VNull]; [VInt 2; VStr [65%N]]; [VInt 1; VNull]]
          [[VInt 2; VStr [65%N]]; [VInt 1; VNull]; [VInt 1; VNull]] = true
  /\ bag_eqb [[VInt 1; VNull]; [VInt 1; VNull]] [[VInt 1; VNull]] = false
  /\ bag_eqb [[VInt 1]] [[VNull]] = false.
Proof. vm_compute. repeat split. Qed.

(* ------------------------------------------------------------------ 3. no top-level ORDER BY *)

Definition is_order_limit (q : query) : bool :=
  match q with QOrderLimit _ _ _ _ => true | _ => false end.

Lemma check_answer_unordered_unfold d q got : is_order_limit q = false ->
  check_answer d q got =
  match eval_query d [] q with
  | Err e => VSpecError e
  | Ok want => if bag_eqb want got then VOk else VMismatch
  end.
Proof. intros Hq. destruct q; try discriminate Hq; reflexivity. Qed.

Theorem check_answer_sound_unordered : forall d q got,
  is_order_limit q = false -> check_answer d q got = VOk ->
  exists want, eval_query d [] q = Ok want /\ Permutation want got
               /\ exists got', Permutation got got' /\ Forall2 (fun x y => row_same x y = true) want got'.
Proof.
  intros d q got Hq H. rewrite (check_answer_unordered_unfold d q got Hq) in H.
  destruct (eval_query d [] q) as [want|e]; [|discriminate H].
  destruct (bag_eqb want got) eqn:E; [|discriminate H].
  exists want. split; [reflexivity|]. split; [apply bag_eqb_sound, E|apply bag_eqb_sound_same, E].
Qed.

Theorem check_answer_complete_unordered : forall d q got want,
  is_order_limit q = false -> eval_query d [] q = Ok want -> Permutation want got ->
  check_answer d q got = VOk.
Proof.
  intros d q got want Hq Hw Hp. rewrite (check_answer_unordered_unfold d q got Hq), Hw.
  rewrite (bag_eqb_complete want got Hp). reflexivity.
Qed.

(* the verdict is VSpecError exactly when the specification itself raises *)
Theorem check_answer_spec_error_unordered : forall d q got e,
  is_order_limit q = false -> (check_answer d q got = VSpecError e <-> eval_query d [] q = Err e).
Proof.
  intros d q got e Hq. rewrite (check_answer_unordered_unfold d q got Hq).
  destruct (eval_query d [] q) as [want|e'].
  - destruct (bag_eqb want got); split; intros H; discriminate H.
  - split; intros H; inversion H; reflexivity.
Qed.

Module UnorderedExample.
  Definition d : db := [[ [VInt 1; VNull]; [VInt 2; VBool true]; [VInt 3; VBool false] ]].
  (* SELECT a FROM t0 WHERE NOT p *)
  Definition q := QSelect (Some (FQuery (QTable 0))) (Some (ENot (ECol 0 1))) None None [ECol 0 0] false.
  Example hyps_satisfiable : is_order_limit q = false /\ check_answer d q [[VInt 3]] = VOk.
  Proof. vm_compute. split; reflexivity. Qed.
  Example null_row_must_not_appear : check_answer d q [[VInt 3]; [VInt 1]] = VMismatch.
  Proof. vm_compute. reflexivity. Qed.
End UnorderedExample.

(* ------------------------------------------------------------------ 4. the declared order *)

(* comparison triples (cmp a b, cmp b c, cmp a c) allowed by a total preorder *)
Definition cmp_eqb (x y : comparison) : bool :=
  match x, y with Eq, Eq | Lt, Lt | Gt, Gt => true | _, _ => false end.
Definition ctrip (ab bc ac : comparison) : bool :=
  match ab, bc with
  | Eq, _ => cmp_eqb ac bc
  | _, Eq => cmp_eqb ac ab
  | Lt, Lt => cmp_eqb ac Lt
  | Gt, Gt => cmp_eqb ac Gt
  | _, _ => true
  end.
Definition lexc (x y : comparison) : comparison :=
  match x with Eq => y | Lt => Lt | Gt => Gt end.

Lemma ctrip_lexc x1 x2 x3 y1 y2 y3 :
  ctrip x1 x2 x3 = true -> ctrip y1 y2 y3 = true ->
  ctrip (lexc x1 y1) (lexc x2 y2) (lexc x3 y3) = true.
Proof. destruct x1, x2, x3, y1, y2, y3; cbn; congruence. Qed.
Lemma ctrip_opp x y z : ctrip x y z = true -> ctrip (CompOpp x) (CompOpp y) (CompOpp z) = true.
Proof. destruct x, y, z; cbn; congruence. Qed.
Lemma N_compare_ctrip (x y z : N) : ctrip (x ?= y)%N (y ?= z)%N (x ?= z)%N = true.
Proof.
  destruct (N.compare_spec x y) as [E1|L1|G1]; destruct (N.compare_spec y z) as [E2|L2|G2];
    destruct (N.compare_spec x z) as [E3|L3|G3]; cbn; try reflexivity; exfalso; lia.
Qed.
Lemma Z_compare_ctrip (x y z : Z) : ctrip (x ?= y)%Z (y ?= z)%Z (x ?= z)%Z = true.
Proof.
  destruct (Z.compare_spec x y) as [E1|L1|G1]; destruct (Z.compare_spec y z) as [E2|L2|G2];
    destruct (Z.compare_spec x z) as [E3|L3|G3]; cbn; try reflexivity; exfalso; lia.
Qed.
Lemma lex_cmp_ctrip a : forall b c, ctrip (lex_cmp a b) (lex_cmp b c) (lex_cmp a c) = true.
Proof.
  induction a as [|x a IH]; intros [|y b] [|z c]; try reflexivity;
    try (destruct (lex_cmp (_ :: _) (_ :: _)); reflexivity).
  change (ctrip (lexc (x ?= y)%N (lex_cmp a b)) (lexc (y ?= z)%N (lex_cmp b c))
                (lexc (x ?= z)%N (lex_cmp a c)) = true).
  apply ctrip_lexc; [apply N_compare_ctrip|apply IH].
Qed.

(* reflexivity and antisymmetry hold for all values *)
Lemma key_cmp_refl desc nf a : key_cmp desc nf a a = Eq.
Proof.
  destruct a as [|x|x|x]; cbn; [reflexivity|destruct x, desc; reflexivity| |].
  - rewrite Z.compare_refl. destruct desc; reflexivity.
  - rewrite lex_cmp_refl. destruct desc; reflexivity.
Qed.

Lemma key_cmp_antisym desc nf a b : key_cmp desc nf b a = CompOpp (key_cmp desc nf a b).
Proof.
  destruct a as [|x|x|x], b as [|y|y|y]; cbn; try (destruct nf; reflexivity).
  - destruct x, y, desc; reflexivity.
  - rewrite (Z.compare_antisym x y). destruct (x ?= y)%Z, desc; reflexivity.
  - rewrite (lex_cmp_antisym x y). destruct (lex_cmp x y), desc; reflexivity.
Qed.

Lemma keys_cmp_refl keys a : keys_cmp keys a a = Eq.
Proof.
  induction keys as [|[[i desc] nf] ks IH]; [reflexivity|].
  cbn [keys_cmp]. rewrite key_cmp_refl. exact IH.
Qed.

Theorem keys_cmp_antisym : forall keys a b, keys_cmp keys b a = CompOpp (keys_cmp keys a b).
Proof.
  intros keys a b. induction keys as [|[[i desc] nf] ks IH]; [reflexivity|].
  cbn [keys_cmp]. rewrite (key_cmp_antisym desc nf (nth i a VNull) (nth i b VNull)).
  destruct (key_cmp desc nf (nth i a VNull) (nth i b VNull)); cbn [CompOpp]; [exact IH|reflexivity|reflexivity].
Qed.

Lemma keys_le_refl keys a : keys_le keys a a = true.
Proof. unfold keys_le. rewrite keys_cmp_refl. reflexivity. Qed.

Theorem keys_le_total : forall keys a b, keys_le keys a b = true \/ keys_le keys b a = true.
Proof.
  intros keys a b. unfold keys_le. rewrite (keys_cmp_antisym keys a b).
  destruct (keys_cmp keys a b); cbn; auto.
Qed.

Lemma keys_le_false_flip keys a b : keys_le keys a b = false -> keys_le keys b a = true.
Proof. intros H. destruct (keys_le_total keys a b) as [H'|H']; [congruence|exact H']. Qed.

(* transitivity needs each key column to hold values of one kind (NULL fits every kind):
   key_cmp makes values of different kinds compare Eq, e.g. 1 ~ 'a' ~ 2 but 1 < 2 *)
Inductive kind := KdBool | KdInt | KdStr.
Definition has_kind (k : kind) (v : value) : Prop :=
  match v with
  | VNull => True
  | VBool _ => k = KdBool
  | VInt _ => k = KdInt
  | VStr _ => k = KdStr
  end.
(* ty i = the kind of output column i *)
Definition row_typed (ty : nat -> kind) (keys : list (nat * bool * bool)) (r : row) : Prop :=
  Forall (fun k => has_kind (ty (fst (fst k))) (nth (fst (fst k)) r VNull)) keys.

Example key_cmp_not_transitive_across_kinds :
  key_cmp false false (VInt 1) (VStr []) = Eq /\ key_cmp false false (VStr []) (VInt 2) = Eq
  /\ key_cmp false false (VInt 1) (VInt 2) = Lt.
Proof. repeat split. Qed.

Lemma key_cmp_ctrip desc nf k a b c : has_kind k a -> has_kind k b -> has_kind k c ->
  ctrip (key_cmp desc nf a b) (key_cmp desc nf b c) (key_cmp desc nf a c) = true.
Proof.
  intros Ha Hb Hc.
  destruct a as [|x|x|x], b as [|y|y|y], c as [|z|z|z]; cbn [has_kind] in Ha, Hb, Hc;
    try congruence; cbn [key_cmp val_compare];
    try (repeat match goal with b0 : bool |- _ => destruct b0 end; reflexivity);
    destruct nf, desc; cbv iota;
    first [ apply Z_compare_ctrip | apply ctrip_opp, Z_compare_ctrip
          | apply lex_cmp_ctrip | apply ctrip_opp, lex_cmp_ctrip
          | repeat match goal with
                   | |- context [(?p ?= ?q)%Z] => destruct (p ?= q)%Z
                   | |- context [lex_cmp ?p ?q] => destruct (lex_cmp p q)
                   end; reflexivity ].
Qed.

Theorem keys_cmp_ctrip : forall ty keys a b c,
  row_typed ty keys a -> row_typed ty keys b -> row_typed ty keys c ->
  ctrip (keys_cmp keys a b) (keys_cmp keys b c) (keys_cmp keys a c) = true.
Proof.
  intros ty keys a b c. unfold row_typed.
  induction keys as [|[[i desc] nf] ks IH]; intros Ha Hb Hc; [reflexivity|].
  pose proof (Forall_inv Ha) as Ha1. pose proof (Forall_inv_tail Ha) as Ha2.
  pose proof (Forall_inv Hb) as Hb1. pose proof (Forall_inv_tail Hb) as Hb2.
  pose proof (Forall_inv Hc) as Hc1. pose proof (Forall_inv_tail Hc) as Hc2.
  cbn [fst] in Ha1, Hb1, Hc1.
  change (ctrip (lexc (key_cmp desc nf (nth i a VNull) (nth i b VNull)) (keys_cmp ks a b))
                (lexc (key_cmp desc nf (nth i b VNull) (nth i c VNull)) (keys_cmp ks b c))
                (lexc (key_cmp desc nf (nth i a VNull) (nth i c VNull)) (keys_cmp ks a c)) = true).
  apply ctrip_lexc; [apply (key_cmp_ctrip desc nf (ty i)); assumption|apply IH; assumption].
Qed.

Definition keys_eq (keys : list (nat * bool * bool)) (a b : row) : Prop := keys_cmp keys a b = Eq.

Theorem keys_le_trans : forall ty keys a b c,
  row_typed ty keys a -> row_typed ty keys b -> row_typed ty keys c ->
  keys_le keys a b = true -> keys_le keys b c = true -> keys_le keys a c = true.
Proof.
  intros ty keys a b c Ha Hb Hc. unfold keys_le.
  generalize (keys_cmp_ctrip ty keys a b c Ha Hb Hc).
  destruct (keys_cmp keys a b), (keys_cmp keys b c), (keys_cmp keys a c); cbn; congruence.
Qed.

Lemma keys_eq_le_l ty keys a b c :
  row_typed ty keys a -> row_typed ty keys b -> row_typed ty keys c ->
  keys_eq keys a b -> keys_le keys a c = keys_le keys b c.
Proof.
  intros Ha Hb Hc. unfold keys_eq, keys_le.
  generalize (keys_cmp_ctrip ty keys a b c Ha Hb Hc).
  destruct (keys_cmp keys a b), (keys_cmp keys b c), (keys_cmp keys a c); cbn; congruence.
Qed.

Lemma keys_eq_le_r ty keys a b c :
  row_typed ty keys a -> row_typed ty keys b -> row_typed ty keys c ->
  keys_eq keys a b -> keys_le keys c a = keys_le keys c b.
Proof.
  intros Ha Hb Hc. unfold keys_eq, keys_le.
  generalize (keys_cmp_ctrip ty keys c a b Hc Ha Hb).
  destruct (keys_cmp keys a b), (keys_cmp keys c a), (keys_cmp keys c b); cbn; congruence.
Qed.

(* ------------------------------------------------------------------ 5. sort_by *)

Lemma insert_by_perm keys x l : Permutation (insert_by keys x l) (x :: l).
Proof.
  induction l as [|y l IH]; cbn [insert_by]; [apply Permutation_refl|].
  destruct (keys_le keys x y); [apply Permutation_refl|].
  eapply perm_trans; [apply perm_skip, IH|apply perm_swap].
Qed.

Lemma sort_by_cons keys x l : sort_by keys (x :: l) = insert_by keys x (sort_by keys l).
Proof. reflexivity. Qed.

Theorem sort_by_perm : forall keys l, Permutation (sort_by keys l) l.
Proof.
  intros keys l. induction l as [|x l IH]; [apply perm_nil|].
  rewrite sort_by_cons. eapply perm_trans; [apply insert_by_perm|apply perm_skip, IH].
Qed.

Lemma sorted_by_cons2 keys x y l :
  sorted_by keys (x :: y :: l) = keys_le keys x y && sorted_by keys (y :: l).
Proof. reflexivity. Qed.

Lemma insert_by_sorted keys x l : sorted_by keys l = true -> sorted_by keys (insert_by keys x l) = true.
Proof.
  induction l as [|y l IH]; intros Hs; [reflexivity|].
  cbn [insert_by]. destruct (keys_le keys x y) eqn:Exy.
  - rewrite sorted_by_cons2, Exy, Hs. reflexivity.
  - pose proof (keys_le_false_flip keys x y Exy) as Eyx.
    destruct l as [|z l].
    + cbn [insert_by]. rewrite sorted_by_cons2, Eyx. reflexivity.
    + rewrite sorted_by_cons2 in Hs. apply andb_prop in Hs. destruct Hs as [Eyz Hs].
      specialize (IH Hs). cbn [insert_by] in IH |- *.
      destruct (keys_le keys x z).
      * rewrite sorted_by_cons2, Eyx, IH. reflexivity.
      * rewrite sorted_by_cons2, Eyz, IH. reflexivity.
Qed.

Theorem sort_by_sorted : forall keys l, sorted_by keys (sort_by keys l) = true.
Proof.
  intros keys l. induction l as [|x l IH]; [reflexivity|].
  rewrite sort_by_cons. apply insert_by_sorted, IH.
Qed.

Theorem sort_by_sorted_perm : forall keys l,
  Permutation (sort_by keys l) l /\ sorted_by keys (sort_by keys l) = true.
Proof. intros keys l. split; [apply sort_by_perm|apply sort_by_sorted]. Qed.

Theorem sorted_by_Sorted : forall keys l,
  sorted_by keys l = true <-> Sorted (fun a b => keys_le keys a b = true) l.
Proof.
  intros keys l. induction l as [|x l IH]; [split; [constructor|reflexivity]|].
  destruct l as [|y l].
  - split; [intros _; repeat constructor|reflexivity].
  - rewrite sorted_by_cons2. split.
    + intros H. apply andb_prop in H. destruct H as [Hxy Hs].
      constructor; [apply IH, Hs|constructor; exact Hxy].
    + intros H. inversion H as [|x' l' Hs Hhd]; subst. inversion Hhd as [|y' l'' Hxy]; subst.
      rewrite Hxy. apply IH in Hs. rewrite Hs. reflexivity.
Qed.

(* stability: the rows whose keys equal those of r keep their relative (arrival) order *)
Definition keys_eqb (keys : list (nat * bool * bool)) (a b : row) : bool :=
  match keys_cmp keys a b with Eq => true | _ => false end.

Lemma insert_by_stable ty keys r x l :
  row_typed ty keys r -> row_typed ty keys x -> Forall (row_typed ty keys) l ->
  filter (keys_eqb keys r) (insert_by keys x l) = filter (keys_eqb keys r) (x :: l).
Proof.
  intros Hr Hx Hl. induction l as [|y l IH]; [reflexivity|].
  pose proof (Forall_inv Hl) as Hy. pose proof (Forall_inv_tail Hl) as Hl'.
  cbn [insert_by]. destruct (keys_le keys x y) eqn:Exy; [reflexivity|].
  cbn [filter]. rewrite (IH Hl'). cbn [filter].
  destruct (keys_eqb keys r x) eqn:Erx; destruct (keys_eqb keys r y) eqn:Ery; try reflexivity.
  exfalso. unfold keys_eqb in Erx, Ery. unfold keys_le in Exy.
  pose proof (keys_cmp_ctrip ty keys x r y Hx Hr Hy) as Ht.
  rewrite (keys_cmp_antisym keys r x) in Ht.
  destruct (keys_cmp keys r x); try discriminate Erx.
  destruct (keys_cmp keys r y); try discriminate Ery.
  destruct (keys_cmp keys x y); cbn in Ht; discriminate.
Qed.

Theorem sort_by_stable : forall ty keys r l,
  row_typed ty keys r -> Forall (row_typed ty keys) l ->
  filter (keys_eqb keys r) (sort_by keys l) = filter (keys_eqb keys r) l.
Proof.
  intros ty keys r l Hr Hl. induction l as [|x l IH]; [reflexivity|].
  pose proof (Forall_inv Hl) as Hx. pose proof (Forall_inv_tail Hl) as Hl'.
  rewrite sort_by_cons, (insert_by_stable ty keys r x (sort_by keys l) Hr Hx).
  - cbn [filter]. rewrite (IH Hl'). reflexivity.
  - apply (Permutation_Forall (Permutation_sym (sort_by_perm keys l)) Hl').
Qed.

(* ------------------------------------------------------------------ 6. the slice *)

Lemma same_keys_Forall2 keys a : forall b, same_keys keys a b = true -> Forall2 (keys_eq keys) a b.
Proof.
  induction a as [|x a IH]; intros [|y b] H; cbn [same_keys] in H; try discriminate H; [constructor|].
  destruct (keys_cmp keys x y) eqn:E; try discriminate H.
  constructor; [exact E|apply IH, H].
Qed.

Lemma Forall2_length_eq {A B} (R : A -> B -> Prop) l l' : Forall2 R l l' -> length l = length l'.
Proof. intros H. induction H as [|x y l l' Hxy H IH]; [reflexivity|]. cbn [length]. rewrite IH. reflexivity. Qed.

Lemma skipn_app_len {A} (l1 l2 : list A) k : length l1 = k -> skipn k (l1 ++ l2) = l2.
Proof. intros <-. induction l1 as [|x l1 IH]; [reflexivity|exact IH]. Qed.

Lemma firstn_app_len {A} (l1 l2 : list A) k : length l1 = k -> firstn k (l1 ++ l2) = l1.
Proof. intros <-. induction l1 as [|x l1 IH]; [reflexivity|]. cbn [length app firstn]. rewrite IH. reflexivity. Qed.

Lemma Forall_firstn_ {A} (P : A -> Prop) k : forall l, Forall P l -> Forall P (firstn k l).
Proof.
  induction k as [|k IH]; intros l H; [constructor|].
  destruct l as [|x l]; [constructor|]. inversion H; subst. cbn [firstn]. constructor; [assumption|apply IH; assumption].
Qed.

Lemma Forall_skipn_ {A} (P : A -> Prop) k : forall l, Forall P l -> Forall P (skipn k l).
Proof.
  induction k as [|k IH]; intros l H; [exact H|].
  destruct l as [|x l]; [constructor|]. inversion H; subst. cbn [skipn]. apply IH; assumption.
Qed.

Definition rcount (f : row -> bool) (l : list row) : nat := length (filter f l).

Lemma rcount_app f l1 l2 : rcount f (l1 ++ l2) = rcount f l1 + rcount f l2.
Proof. unfold rcount. rewrite filter_app, app_length. reflexivity. Qed.

Lemma rcount_perm f l l' : Permutation l l' -> rcount f l = rcount f l'.
Proof.
  unfold rcount. intros H. induction H as [|x l l' H IH|x y l|l l' l'' H1 IH1 H2 IH2].
  - reflexivity.
  - cbn [filter]. destruct (f x); cbn [length]; congruence.
  - cbn [filter]. destruct (f x); destruct (f y); reflexivity.
  - congruence.
Qed.

Lemma rcount_le_length f l : rcount f l <= length l.
Proof.
  unfold rcount. induction l as [|x l IH]; [apply le_n|].
  cbn [filter]. destruct (f x); cbn [length]; lia.
Qed.

Lemma rcount_all f l : Forall (fun y => f y = true) l -> rcount f l = length l.
Proof.
  unfold rcount. intros H. induction H as [|x l Hx H IH]; [reflexivity|].
  cbn [filter]. rewrite Hx. cbn [length]. rewrite IH. reflexivity.
Qed.

Lemma rcount_none f l : Forall (fun y => f y = false) l -> rcount f l = 0.
Proof.
  unfold rcount. intros H. induction H as [|x l Hx H IH]; [reflexivity|].
  cbn [filter]. rewrite Hx. exact IH.
Qed.

Section Slice.
Variable keys : list (nat * bool * bool).
Variable ty : nat -> kind.
Let le (a b : row) : Prop := keys_le keys a b = true.
Let wf := row_typed ty keys.

Lemma Sorted_StronglySorted_typed l : Forall wf l -> Sorted le l -> StronglySorted le l.
Proof.
  induction l as [|x l IH]; intros Hwf Hs; [constructor|].
  inversion Hwf as [|x' l' Hx Hl]; subst. inversion Hs as [|x' l' Hs' Hhd]; subst.
  specialize (IH Hl Hs'). constructor; [exact IH|].
  destruct l as [|y l]; [constructor|].
  inversion Hhd as [|y' l'' Hxy]; subst. inversion IH as [|y' l'' _ Hy]; subst.
  inversion Hl as [|y' l'' Hywf Hl']; subst.
  constructor; [exact Hxy|].
  rewrite Forall_forall in Hy, Hl' |- *. intros z Hz.
  apply (keys_le_trans ty keys x y z Hx Hywf (Hl' z Hz) Hxy (Hy z Hz)).
Qed.

Lemma SSorted_app_inv l1 l2 : StronglySorted le (l1 ++ l2) ->
  StronglySorted le l1 /\ StronglySorted le l2 /\ (forall a b, In a l1 -> In b l2 -> le a b).
Proof.
  induction l1 as [|x l1 IH]; intros H.
  - split; [constructor|]. split; [exact H|]. intros a b [].
  - cbn [app] in H. inversion H as [|x' l' Hs Hall]; subst.
    destruct (IH Hs) as (H1 & H2 & H12). apply Forall_app in Hall. destruct Hall as [Hx1 Hx2].
    split; [constructor; assumption|]. split; [exact H2|].
    intros a b [<-|Ha] Hb.
    + rewrite Forall_forall in Hx2. apply Hx2, Hb.
    + apply H12; assumption.
Qed.

Lemma SSorted_app l1 l2 : StronglySorted le l1 -> StronglySorted le l2 ->
  (forall a b, In a l1 -> In b l2 -> le a b) -> StronglySorted le (l1 ++ l2).
Proof.
  intros H1 H2 H12. induction H1 as [|x l1 H1 IH Hx]; [exact H2|].
  cbn [app]. constructor.
  - apply IH. intros a b Ha Hb. apply H12; [right; exact Ha|exact Hb].
  - apply Forall_app. split; [exact Hx|].
    rewrite Forall_forall. intros b Hb. apply H12; [left; reflexivity|exact Hb].
Qed.

(* a sorted list is a block where f holds followed by a block where it does not,
   for every f that is downward closed *)
Lemma sorted_split (f : row -> bool) l :
  (forall x y, wf x -> wf y -> le x y -> f y = true -> f x = true) ->
  Forall wf l -> StronglySorted le l ->
  exists l1 l2, l = l1 ++ l2 /\ Forall (fun y => f y = true) l1 /\ Forall (fun y => f y = false) l2.
Proof.
  intros Hmono. induction l as [|x l IH]; intros Hwf Hs.
  - exists [], []. repeat split; constructor.
  - inversion Hwf as [|x' l' Hx Hl]; subst. inversion Hs as [|x' l' Hs' Hall]; subst.
    destruct (f x) eqn:Efx.
    + destruct (IH Hl Hs') as (l1 & l2 & -> & F1 & F2).
      exists (x :: l1), l2. repeat split; [constructor; assumption|assumption].
    + exists [], (x :: l). repeat split; [constructor|].
      constructor; [exact Efx|].
      rewrite Forall_forall in Hall, Hl |- *. intros y Hy.
      destruct (f y) eqn:Efy; [|reflexivity].
      rewrite (Hmono x y Hx (Hl y Hy) (Hall y Hy) Efy) in Efx. discriminate.
Qed.

Lemma keys_eq_transfer (f : row -> bool) (v : bool) w o :
  (forall a b, wf a -> wf b -> keys_eq keys a b -> f a = f b) ->
  Forall2 (keys_eq keys) w o -> Forall wf w -> Forall wf o ->
  Forall (fun y => f y = v) o -> Forall (fun y => f y = v) w.
Proof.
  intros Hf H. induction H as [|a b w o Hab H IH]; intros Hw Ho Hv; [constructor|].
  constructor.
  - rewrite (Hf a b (Forall_inv Hw) (Forall_inv Ho) Hab). exact (Forall_inv Hv).
  - apply IH; [exact (Forall_inv_tail Hw)|exact (Forall_inv_tail Ho)|exact (Forall_inv_tail Hv)].
Qed.

Section Core.
Variables (s out rest r pre want tail : list row) (o : row).
Hypothesis Hwf_s : Forall wf s.
Hypothesis Hss : StronglySorted le s.
Hypothesis Hso : StronglySorted le out.
Hypothesis Hsr : StronglySorted le r.
Hypothesis Hperm : Permutation s (out ++ rest).
Hypothesis Hr : Permutation r rest.
Hypothesis Hdec : s = pre ++ want ++ tail.
Hypothesis Hkeys : Forall2 (keys_eq keys) want out.
Hypothesis Ho : In o out.

Lemma core_wf : Forall wf out /\ Forall wf r /\ wf o /\ Forall wf pre /\ Forall wf want /\ Forall wf tail.
Proof.
  pose proof (Permutation_Forall Hperm Hwf_s) as H. apply Forall_app in H. destruct H as [H1 H2].
  pose proof (Permutation_Forall (Permutation_sym Hr) H2) as H3.
  pose proof Hwf_s as H4. rewrite Hdec in H4. apply Forall_app in H4. destruct H4 as [H4 H5].
  apply Forall_app in H5. destruct H5 as [H5 H6].
  repeat split; try assumption. rewrite Forall_forall in H1. apply H1, Ho.
Qed.

Lemma core_before : Forall (fun b => keys_le keys b o = true) (firstn (length pre) r).
Proof.
  destruct core_wf as (Wout & Wr & Wo & Wpre & Wwant & Wtail).
  set (f := fun y : row => keys_le keys y o).
  assert (Hmono : forall x y, wf x -> wf y -> le x y -> f y = true -> f x = true).
  { intros x y Hx Hy Hxy Hyo. apply (keys_le_trans ty keys x y o Hx Hy Wo Hxy Hyo). }
  assert (Hcong : forall a b, wf a -> wf b -> keys_eq keys a b -> f a = f b).
  { intros a b Ha Hb Hab. apply (keys_eq_le_l ty keys a b o Ha Hb Wo Hab). }
  destruct (sorted_split f out Hmono Wout Hso) as (o1 & o2 & Eout & Fo1 & Fo2).
  destruct (sorted_split f r Hmono Wr Hsr) as (r1 & r2 & Er & Fr1 & Fr2).
  (* o is in the first block of out *)
  assert (Ho1 : In o o1).
  { rewrite Eout in Ho. apply in_app_or in Ho. destruct Ho as [H|H]; [exact H|].
    rewrite Forall_forall in Fo2. specialize (Fo2 o H). unfold f in Fo2.
    rewrite keys_le_refl in Fo2. discriminate. }
  rewrite Eout in Hkeys. apply Forall2_app_inv_r in Hkeys.
  destruct Hkeys as (w1 & w2 & K1 & K2 & Ewant).
  rewrite Eout in Wout. apply Forall_app in Wout. destruct Wout as [Wo1 Wo2].
  rewrite Ewant in Wwant. apply Forall_app in Wwant. destruct Wwant as [Ww1 Ww2].
  pose proof (keys_eq_transfer f true w1 o1 Hcong K1 Ww1 Wo1 Fo1) as Fw1.
  (* w1 is non-empty; its head is <= o, and everything in pre is below it *)
  assert (Fpre : Forall (fun y => f y = true) pre).
  { destruct o1 as [|y0 o1']; [destruct Ho1|].
    destruct w1 as [|y w1']; [inversion K1|].
    pose proof (Forall_inv Fw1) as Fy. pose proof (Forall_inv Ww1) as Wy. cbn beta in Fy.
    rewrite Hdec, Ewant in Hss. apply SSorted_app_inv in Hss. destruct Hss as (_ & _ & H12).
    rewrite Forall_forall in Wpre |- *. intros a Ha.
    apply (Hmono a y (Wpre a Ha) Wy); [|exact Fy].
    apply H12; [exact Ha|]. cbn [app]. left. reflexivity. }
  (* count the rows <= o *)
  assert (Cs : length pre + length o1 <= rcount f s).
  { rewrite Hdec, Ewant, !rcount_app, (rcount_all f pre Fpre), (rcount_all f w1 Fw1).
    rewrite (Forall2_length_eq _ _ _ K1). lia. }
  assert (Cs' : rcount f s = length o1 + length r1).
  { rewrite (rcount_perm f _ _ Hperm), rcount_app, <- (rcount_perm f _ _ Hr), Eout, Er, !rcount_app.
    rewrite (rcount_all f o1 Fo1), (rcount_none f o2 Fo2), (rcount_all f r1 Fr1), (rcount_none f r2 Fr2).
    lia. }
  rewrite Er, firstn_app.
  replace (length pre - length r1) with 0 by lia. cbn [firstn]. rewrite app_nil_r.
  apply Forall_firstn_. exact Fr1.
Qed.

Lemma core_after : Forall (fun a => keys_le keys o a = true) (skipn (length pre) r).
Proof.
  destruct core_wf as (Wout & Wr & Wo & Wpre & Wwant & Wtail).
  set (g := fun y : row => negb (keys_le keys o y)).
  assert (Hmono : forall x y, wf x -> wf y -> le x y -> g y = true -> g x = true).
  { intros x y Hx Hy Hxy Hyo. unfold g in *. apply negb_true_iff in Hyo. apply negb_true_iff.
    destruct (keys_le keys o x) eqn:E; [|reflexivity].
    rewrite (keys_le_trans ty keys o x y Wo Hx Hy E Hxy) in Hyo. discriminate. }
  assert (Hcong : forall a b, wf a -> wf b -> keys_eq keys a b -> g a = g b).
  { intros a b Ha Hb Hab. unfold g. rewrite (keys_eq_le_r ty keys a b o Ha Hb Wo Hab). reflexivity. }
  destruct (sorted_split g out Hmono Wout Hso) as (o1 & o2 & Eout & Fo1 & Fo2).
  destruct (sorted_split g r Hmono Wr Hsr) as (r1 & r2 & Er & Fr1 & Fr2).
  assert (Ho2 : In o o2).
  { rewrite Eout in Ho. apply in_app_or in Ho. destruct Ho as [H|H]; [|exact H].
    rewrite Forall_forall in Fo1. specialize (Fo1 o H). unfold g in Fo1.
    rewrite keys_le_refl in Fo1. discriminate. }
  rewrite Eout in Hkeys. apply Forall2_app_inv_r in Hkeys.
  destruct Hkeys as (w1 & w2 & K1 & K2 & Ewant).
  rewrite Eout in Wout. apply Forall_app in Wout. destruct Wout as [Wo1 Wo2].
  rewrite Ewant in Wwant. apply Forall_app in Wwant. destruct Wwant as [Ww1 Ww2].
  pose proof (keys_eq_transfer g false w2 o2 Hcong K2 Ww2 Wo2 Fo2) as Fw2.
  assert (Ftail : Forall (fun y => g y = false) tail).
  { destruct o2 as [|y0 o2']; [destruct Ho2|].
    destruct w2 as [|y w2']; [inversion K2|].
    pose proof (Forall_inv Fw2) as Fy. pose proof (Forall_inv Ww2) as Wy. cbn beta in Fy.
    rewrite Hdec, Ewant in Hss. rewrite <- app_assoc, app_assoc in Hss.
    apply SSorted_app_inv in Hss. destruct Hss as (_ & Hss2 & _).
    apply SSorted_app_inv in Hss2. destruct Hss2 as (_ & _ & H12).
    rewrite Forall_forall in Wtail |- *. intros a Ha.
    destruct (g a) eqn:Ega; [|reflexivity].
    rewrite (Hmono y a Wy (Wtail a Ha)) in Fy; [discriminate| |exact Ega].
    apply H12; [left; reflexivity|exact Ha]. }
  assert (Cs : rcount g s <= length pre + length o1).
  { rewrite Hdec, Ewant, !rcount_app, (rcount_none g w2 Fw2), (rcount_none g tail Ftail).
    pose proof (rcount_le_length g pre). pose proof (rcount_le_length g w1).
    rewrite <- (Forall2_length_eq _ _ _ K1). lia. }
  assert (Cs' : rcount g s = length o1 + length r1).
  { rewrite (rcount_perm g _ _ Hperm), rcount_app, <- (rcount_perm g _ _ Hr), Eout, Er, !rcount_app.
    rewrite (rcount_all g o1 Fo1), (rcount_none g o2 Fo2), (rcount_all g r1 Fr1), (rcount_none g r2 Fr2).
    lia. }
  rewrite Er, skipn_app, (skipn_all2 r1) by lia. cbn [app].
  apply (Forall_skipn_ _ (length pre - length r1)) in Fr2.
  rewrite Forall_forall in Fr2 |- *. intros a Ha. specialize (Fr2 a Ha).
  unfold g in Fr2. apply negb_false_iff in Fr2. exact Fr2.
Qed.
End Core.
End Slice.

(* got sits at offset `off` inside a sorted permutation of inp, as soon as its keys are those of a
   segment of the sorted input starting at `off` *)
Lemma order_slice_core ty keys inp off got want tail :
  Forall (row_typed ty keys) inp ->
  sub_bagb got inp = true -> sorted_by keys got = true ->
  skipn off (sort_by keys inp) = want ++ tail -> Forall2 (keys_eq keys) want got ->
  exists r, Permutation (firstn off r ++ got ++ skipn off r) inp /\
    Sorted (fun a b => keys_le keys a b = true) (firstn off r ++ got ++ skipn off r) /\
    length inp = length got + length r.
Proof.
  intros Hwf Hbag Hsorted Hdec Hkeys.
  destruct (sub_bagb_sound got inp Hbag) as [rest Hrest].
  pose (s := sort_by keys inp). pose (r := sort_by keys rest). exists r.
  assert (Hr : Permutation r rest) by apply sort_by_perm.
  assert (Hs : Permutation s inp) by apply sort_by_perm.
  assert (Hperm : Permutation s (got ++ rest)) by (eapply perm_trans; [exact Hs|exact Hrest]).
  assert (Wfs : Forall (row_typed ty keys) s) by apply (Permutation_Forall (Permutation_sym Hs) Hwf).
  pose proof (Permutation_Forall Hrest Hwf) as W. apply Forall_app in W. destruct W as [Wout Wrest].
  assert (Wr : Forall (row_typed ty keys) r) by apply (Permutation_Forall (Permutation_sym Hr) Wrest).
  assert (SSs : StronglySorted (fun a b => keys_le keys a b = true) s).
  { apply (Sorted_StronglySorted_typed keys ty); [exact Wfs|]. apply sorted_by_Sorted, sort_by_sorted. }
  assert (SSr : StronglySorted (fun a b => keys_le keys a b = true) r).
  { apply (Sorted_StronglySorted_typed keys ty); [exact Wr|]. apply sorted_by_Sorted, sort_by_sorted. }
  assert (SSo : StronglySorted (fun a b => keys_le keys a b = true) got).
  { apply (Sorted_StronglySorted_typed keys ty); [exact Wout|]. apply sorted_by_Sorted, Hsorted. }
  split; [|split].
  - eapply perm_trans; [apply Permutation_app_swap_app|]. rewrite firstn_skipn.
    eapply perm_trans; [apply Permutation_app_head, Hr|apply Permutation_sym, Hrest].
  - destruct (Nat.le_gt_cases (length s) off) as [Hge|Hlt].
    + fold s in Hdec. rewrite (skipn_all2 s Hge) in Hdec. symmetry in Hdec.
      apply app_eq_nil in Hdec. destruct Hdec as [Ew _]. rewrite Ew in Hkeys.
      destruct got as [|o0 got']; [|inversion Hkeys].
      cbn [app]. rewrite firstn_skipn. apply sorted_by_Sorted, sort_by_sorted.
    + assert (Hdec' : s = firstn off s ++ want ++ tail).
      { rewrite <- Hdec. symmetry. apply firstn_skipn. }
      assert (Hlen : length (firstn off s) = off) by (apply firstn_length_le; lia).
      apply StronglySorted_Sorted.
      destruct (SSorted_app_inv keys (firstn off r) (skipn off r)) as (SSb & SSa & Hba).
      { rewrite firstn_skipn. exact SSr. }
      apply SSorted_app; [exact SSb|apply SSorted_app; [exact SSo|exact SSa|]|].
      * intros a b Ha Hb.
        pose proof (core_after keys ty s got rest r (firstn off s) want tail a
                      Wfs SSs SSo SSr Hperm Hr Hdec' Hkeys Ha) as H.
        rewrite Hlen in H. rewrite Forall_forall in H. apply H, Hb.
      * intros a b Ha Hb. apply in_app_or in Hb. destruct Hb as [Hb|Hb]; [|apply Hba; assumption].
        pose proof (core_before keys ty s got rest r (firstn off s) want tail b
                      Wfs SSs SSo SSr Hperm Hr Hdec' Hkeys Hb) as H.
        rewrite Hlen in H. rewrite Forall_forall in H. apply H, Ha.
  - rewrite (Permutation_length Hrest), app_length, (Permutation_length Hr). reflexivity.
Qed.

(* the boolean test of check_answer for a top-level ORDER BY *)
Definition order_check (keys : list (nat * bool * bool)) (lim : option nat) (off : nat)
                       (inp got : list row) : bool :=
  sub_bagb got inp && sorted_by keys got && same_keys keys (slice_rows off lim (sort_by keys inp)) got
  && match lim with None => Nat.eqb (length got) (length inp - off) | Some _ => true end.

Lemma check_answer_ordered_unfold d q' keys lim off got :
  check_answer d (QOrderLimit q' keys lim off) got =
  match eval_query d [] q' with
  | Err e => VSpecError e
  | Ok inp => if order_check keys lim off inp got then VOk else VMismatch
  end.
Proof. reflexivity. Qed.

Theorem order_check_sound : forall ty keys lim off inp got,
  Forall (row_typed ty keys) inp ->
  order_check keys lim off inp got = true ->
  exists p, Permutation p inp /\ sorted_by keys p = true /\ got = slice_rows off lim p.
Proof.
  intros ty keys lim off inp got Hwf H. unfold order_check in H.
  apply andb_prop in H. destruct H as [H _].
  apply andb_prop in H. destruct H as [H Hkeys]. apply andb_prop in H. destruct H as [Hbag Hsorted].
  apply same_keys_Forall2 in Hkeys.
  pose proof (Forall2_length_eq _ _ _ Hkeys) as Hlen.
  pose proof (Permutation_length (sort_by_perm keys inp)) as Hls.
  destruct lim as [n|]; unfold slice_rows in Hkeys, Hlen |- *.
  - destruct (order_slice_core ty keys inp off got (firstn n (skipn off (sort_by keys inp)))
                (skipn n (skipn off (sort_by keys inp))) Hwf Hbag Hsorted) as (r & Hp & Hs & Hl).
    { symmetry. apply firstn_skipn. }
    { exact Hkeys. }
    exists (firstn off r ++ got ++ skipn off r). split; [exact Hp|].
    split; [apply sorted_by_Sorted, Hs|].
    rewrite firstn_length, skipn_length in Hlen.
    destruct (Nat.le_gt_cases off (length r)) as [Hle|Hgt].
    + rewrite (skipn_app_len (firstn off r)) by (apply firstn_length_le; exact Hle).
      destruct (Nat.eq_dec n (length got)) as [En|Nn].
      * rewrite firstn_app_len by (symmetry; exact En). reflexivity.
      * rewrite (skipn_all2 r) by lia. rewrite app_nil_r. rewrite firstn_all2 by lia. reflexivity.
    + destruct got as [|o0 got']; [|cbn [length] in *; lia].
      cbn [app]. rewrite firstn_skipn. rewrite skipn_all2 by lia. rewrite firstn_nil. reflexivity.
  - destruct (order_slice_core ty keys inp off got (skipn off (sort_by keys inp)) [] Hwf Hbag Hsorted)
      as (r & Hp & Hs & Hl).
    { symmetry. apply app_nil_r. }
    { exact Hkeys. }
    exists (firstn off r ++ got ++ skipn off r). split; [exact Hp|].
    split; [apply sorted_by_Sorted, Hs|].
    rewrite skipn_length in Hlen.
    destruct (Nat.le_gt_cases off (length r)) as [Hle|Hgt].
    + rewrite (skipn_app_len (firstn off r)) by (apply firstn_length_le; exact Hle).
      rewrite (skipn_all2 r) by lia. rewrite app_nil_r. reflexivity.
    + destruct got as [|o0 got']; [|cbn [length] in *; lia].
      cbn [app]. rewrite firstn_skipn. rewrite skipn_all2 by lia. reflexivity.
Qed.

(* component-wise reading of VOk, no hypothesis on the rows *)
Theorem check_answer_sound_ordered_components : forall d q' keys lim off got,
  check_answer d (QOrderLimit q' keys lim off) got = VOk ->
  exists inp, eval_query d [] q' = Ok inp /\
    (exists rest, Permutation inp (got ++ rest)) /\
    sorted_by keys got = true /\
    Forall2 (keys_eq keys) (slice_rows off lim (sort_by keys inp)) got.
Proof.
  intros d q' keys lim off got H. rewrite check_answer_ordered_unfold in H.
  destruct (eval_query d [] q') as [inp|e]; [|discriminate H].
  destruct (order_check keys lim off inp got) eqn:E; [|discriminate H].
  exists inp. split; [reflexivity|]. unfold order_check in E.
  apply andb_prop in E. destruct E as [E _].
  apply andb_prop in E. destruct E as [E Hkeys]. apply andb_prop in E. destruct E as [Hbag Hsorted].
  split; [apply sub_bagb_sound, Hbag|]. split; [exact Hsorted|apply same_keys_Forall2, Hkeys].
Qed.

(* The engine's answer is exactly the requested slice of SOME correctly sorted arrangement of the
   specified input. *)
Theorem check_answer_sound_ordered : forall d q' keys lim off got,
  check_answer d (QOrderLimit q' keys lim off) got = VOk ->
  exists inp, eval_query d [] q' = Ok inp /\
    forall ty, Forall (row_typed ty keys) inp ->
    exists p, Permutation p inp /\ sorted_by keys p = true /\ got = slice_rows off lim p.
Proof.
  intros d q' keys lim off got H. rewrite check_answer_ordered_unfold in H.
  destruct (eval_query d [] q') as [inp|e]; [|discriminate H].
  destruct (order_check keys lim off inp got) eqn:E; [|discriminate H].
  exists inp. split; [reflexivity|]. intros ty Hwf.
  apply (order_check_sound ty keys lim off inp got Hwf E).
Qed.

(* the reference answer itself is always accepted *)
Lemma remove_row_head r l : remove_row r (r :: l) = Some l.
Proof. cbn [remove_row]. rewrite row_same_refl. reflexivity. Qed.

Lemma sub_bagb_perm_prefix : forall a b rest, Permutation b (a ++ rest) -> sub_bagb a b = true.
Proof.
  induction a as [|x a IH]; intros b rest H; [reflexivity|].
  cbn [sub_bagb].
  assert (Hin : In x b) by (apply (Permutation_in _ (Permutation_sym H)); left; reflexivity).
  destruct (remove_row_in x b Hin) as [b' E]. rewrite E. apply (IH b' rest).
  apply (Permutation_cons_inv (a := x)).
  eapply perm_trans; [apply Permutation_sym, (remove_row_perm x b b' E)|exact H].
Qed.

Lemma same_keys_refl keys l : same_keys keys l l = true.
Proof. induction l as [|x l IH]; [reflexivity|]. cbn [same_keys]. rewrite keys_cmp_refl. exact IH. Qed.

Lemma sorted_by_skipn keys k : forall l, sorted_by keys l = true -> sorted_by keys (skipn k l) = true.
Proof.
  induction k as [|k IH]; intros l H; [exact H|].
  destruct l as [|x l]; [reflexivity|]. cbn [skipn]. apply IH.
  destruct l as [|y l]; [reflexivity|]. rewrite sorted_by_cons2 in H. apply andb_prop in H. apply H.
Qed.

Lemma sorted_by_firstn keys k : forall l, sorted_by keys l = true -> sorted_by keys (firstn k l) = true.
Proof.
  induction k as [|k IH]; intros l H; [reflexivity|].
  destruct l as [|x l]; [reflexivity|]. cbn [firstn].
  destruct l as [|y l]; [destruct k; reflexivity|].
  rewrite sorted_by_cons2 in H. apply andb_prop in H. destruct H as [Hxy H].
  specialize (IH (y :: l) H). destruct k as [|k]; [reflexivity|].
  cbn [firstn] in IH |- *. rewrite sorted_by_cons2, Hxy, IH. reflexivity.
Qed.

Theorem check_answer_accepts_reference_ordered : forall d q' keys lim off want,
  eval_query d [] (QOrderLimit q' keys lim off) = Ok want ->
  check_answer d (QOrderLimit q' keys lim off) want = VOk.
Proof.
  intros d q' keys lim off want H. rewrite check_answer_ordered_unfold.
  change (eval_query d [] (QOrderLimit q' keys lim off))
    with (do rows <- eval_query d [] q'; Ok (slice_rows off lim (sort_by keys rows))) in H.
  destruct (eval_query d [] q') as [inp|e]; [|discriminate H].
  cbn [bind] in H. inversion H as [Hw]. clear H.
  assert (Hok : order_check keys lim off inp (slice_rows off lim (sort_by keys inp)) = true);
    [|rewrite Hok; reflexivity].
  unfold order_check. rewrite same_keys_refl, andb_true_r.
  pose proof (sort_by_perm keys inp) as Hp. pose proof (sort_by_sorted keys inp) as Hs.
  pose proof (Permutation_length Hp) as Hl.
  set (s := sort_by keys inp) in *.
  apply andb_true_intro. split; [apply andb_true_intro; split|].
  - destruct lim as [n|]; unfold slice_rows.
    + apply (sub_bagb_perm_prefix _ inp (skipn n (skipn off s) ++ firstn off s)).
      rewrite app_assoc, firstn_skipn.
      eapply perm_trans; [apply Permutation_sym, Hp|].
      rewrite <- (firstn_skipn off s) at 1. apply Permutation_app_comm.
    + apply (sub_bagb_perm_prefix _ inp (firstn off s)).
      eapply perm_trans; [apply Permutation_sym, Hp|].
      rewrite <- (firstn_skipn off s) at 1. apply Permutation_app_comm.
  - destruct lim as [n|]; unfold slice_rows;
      [apply sorted_by_firstn, sorted_by_skipn, Hs|apply sorted_by_skipn, Hs].
  - destruct lim as [n|]; [reflexivity|]. unfold slice_rows. rewrite skipn_length, Hl.
    apply Nat.eqb_refl.
Qed.

Module OrderedExample.
  (* t0(k int, id int);  SELECT * FROM t0 ORDER BY k DESC NULLS LAST LIMIT 3 OFFSET 1 *)
  Definition d : db :=
    [[ [VInt 2; VInt 0]; [VInt 1; VInt 1]; [VNull; VInt 2]; [VInt 2; VInt 3]; [VInt 1; VInt 4]; [VInt 3; VInt 5] ]].
  Definition q' := QTable 0.
  Definition keys := [(0, true, false)].
  Definition ty (i : nat) : kind := KdInt.

  (* declared order: 3 | 2(id 0) | 2(id 3) | 1(id 1) | 1(id 4) | NULL *)
  Example reference : eval_query d [] (QOrderLimit q' keys (Some 3) 1)
                      = Ok [[VInt 2; VInt 0]; [VInt 2; VInt 3]; [VInt 1; VInt 1]].
  Proof. vm_compute. reflexivity. Qed.

  (* ties broken differently by the engine: accepted *)
  Definition got := [[VInt 2; VInt 3]; [VInt 2; VInt 0]; [VInt 1; VInt 4]].
  Example accepted : check_answer d (QOrderLimit q' keys (Some 3) 1) got = VOk.
  Proof. vm_compute. reflexivity. Qed.

  Example typed : forall inp, eval_query d [] q' = Ok inp -> Forall (row_typed ty keys) inp.
  Proof.
    intros inp H. vm_compute in H. inversion H; subst.
    repeat constructor.
  Qed.

  Example accepted_is_a_slice_of_a_sorted_permutation :
    exists inp p, eval_query d [] q' = Ok inp /\ Permutation p inp /\ sorted_by keys p = true
                  /\ got = slice_rows 1 (Some 3) p.
  Proof.
    destruct (check_answer_sound_ordered d q' keys (Some 3) 1 got accepted) as [inp [Hi Hex]].
    destruct (Hex ty (typed inp Hi)) as [p [Hp [Hs Hg]]].
    exists inp, p. repeat split; assumption.
  Qed.

  (* wrong direction, wrong window, NULL first, foreign row, too short: rejected *)
  Example reject_ascending :
    check_answer d (QOrderLimit q' keys (Some 3) 1) [[VInt 1; VInt 1]; [VInt 2; VInt 0]; [VInt 2; VInt 3]] = VMismatch.
  Proof. vm_compute. reflexivity. Qed.
  Example reject_window :
    check_answer d (QOrderLimit q' keys (Some 3) 1) [[VInt 3; VInt 5]; [VInt 2; VInt 0]; [VInt 2; VInt 3]] = VMismatch.
  Proof. vm_compute. reflexivity. Qed.
  Example reject_foreign :
    check_answer d (QOrderLimit q' keys (Some 3) 1) [[VInt 2; VInt 3]; [VInt 2; VInt 0]; [VInt 1; VInt 9]] = VMismatch.
  Proof. vm_compute. reflexivity. Qed.
  Example reject_short :
    check_answer d (QOrderLimit q' keys (Some 3) 1) [[VInt 2; VInt 3]; [VInt 2; VInt 0]] = VMismatch.
  Proof. vm_compute. reflexivity. Qed.
  Example reject_null_first :
    check_answer d (QOrderLimit q' keys None 0)
      [[VNull; VInt 2]; [VInt 3; VInt 5]; [VInt 2; VInt 0]; [VInt 2; VInt 3]; [VInt 1; VInt 1]; [VInt 1; VInt 4]] = VMismatch.
  Proof. vm_compute. reflexivity. Qed.

  (* stability of the reference sort: rows with key 2 keep their arrival order (ids 0, 3) *)
  Example stable : filter (keys_eqb keys [VInt 2; VNull]) (sort_by keys (nth 0 d []))
                   = [[VInt 2; VInt 0]; [VInt 2; VInt 3]].
  Proof. vm_compute. reflexivity. Qed.
End OrderedExample.

Print Assumptions row_same_iff.
Print Assumptions bag_eqb_sound.
Print Assumptions bag_eqb_sound_same.
Print Assumptions bag_eqb_complete.
Print Assumptions sub_bagb_sound.
Print Assumptions check_answer_sound_unordered.
Print Assumptions check_answer_complete_unordered.
Print Assumptions sort_by_sorted_perm.
Print Assumptions sort_by_stable.
Print Assumptions keys_le_trans.
Print Assumptions check_answer_sound_ordered_components.
Print Assumptions check_answer_sound_ordered.
Print Assumptions check_answer_accepts_reference_ordered.
