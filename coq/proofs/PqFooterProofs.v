(* Proofs about the footer loader / thrift reader model (model/PqFooter.v) and safety facts about the bit-level
   decoder models of C10 (model/PqBits.v, model/PqDelta.v): topic `fault`, C19. *)
From Coq Require Import NArith ZArith List Bool Lia ZifyBool ZifyNat ZifyN.
From GV Require Import model.PqBits model.PqDelta model.Utf8 model.PqFooter.
From GV Require gen.TablesFault.
Import ListNotations.
Open Scope N_scope.

(* ================================================================== footer loader *)
Definition out_clean {A} (o : tout A) : Prop := (exists a, o = TOk a) \/ o = TErr.

Lemma load_footer_out_clean c file : out_clean (l_out (load_footer c file)).
Proof.
  unfold load_footer.
  repeat match goal with |- context [if ?b then _ else _] => destruct b end; cbn [l_out];
    (right; reflexivity) || (left; eexists; reflexivity).
Qed.

Lemma le_num_4_bound bs : (length bs <= 4)%nat -> Forall (fun b => b < 256) bs -> le_num bs < 2 ^ 32.
Proof.
  intros Hl Hb.
  destruct bs as [|b0 [|b1 [|b2 [|b3 [|b4 r]]]]]; cbn [le_num length] in *;
    repeat match goal with H : Forall _ (_ :: _) |- _ => inversion H; subst; clear H end;
    try (change (2 ^ 32) with 4294967296; lia).
Qed.

(* with the length check the loader allocates at most the file size *)
Theorem footer_alloc_bounded_checked c file :
  c_footer_len c = true -> l_alloc (load_footer c file) <= lenN file + 8.
Proof.
  intros Hc. unfold load_footer. rewrite Hc. cbn [andb].
  unfold FOOTER_SIZE, MIN_FILE_SIZE.
  repeat match goal with |- context [if ?b then _ else _] => destruct b eqn:? end; cbn [l_alloc]; try lia.
Qed.

(* without it the allocation is whatever the trailer says: for every 32-bit n a 12 byte file asks for n bytes *)
Definition lying_footer (n : N) : list N := magic_par1 ++ le_bytes 4 n ++ magic_par1.

Lemma le_num_le_bytes4 n : n < 2 ^ 32 -> le_num (le_bytes 4 n) = n.
Proof.
  intros H. cbn [le_bytes le_num]. change (2 ^ 32) with 4294967296 in H.
  Ltac Zify.zify_post_hook ::= Z.div_mod_to_equations. lia.
Qed.

Lemma list_eqb_refl a : list_eqb a a = true.
Proof. induction a as [|x a IH]; cbn; [reflexivity|]. rewrite N.eqb_refl. exact IH. Qed.

Lemma list_eqb_eq a : forall b, list_eqb a b = true -> a = b.
Proof.
  induction a as [|x a IH]; intros [|y b] H; cbn in H; try discriminate; [reflexivity|].
  apply andb_true_iff in H. destruct H as [H1 H2]. apply N.eqb_eq in H1. subst. f_equal. auto.
Qed.

Theorem footer_alloc_unbounded_unchecked c n :
  c_footer_len c = false -> 8 <= n < 2 ^ 32 -> le_bytes 4 n <> magic_pare ->
  length (lying_footer n) = 12%nat /\ l_alloc (load_footer c (lying_footer n)) = n.
Proof.
  intros Hc Hn Hne. split; [reflexivity|].
  unfold load_footer, lying_footer. rewrite Hc. cbn [andb].
  change (lenN (magic_par1 ++ le_bytes 4 n ++ magic_par1)) with 12.
  change (12 <? MIN_FILE_SIZE) with false. cbv iota.
  change (skipn (length (magic_par1 ++ le_bytes 4 n ++ magic_par1) - 8) (magic_par1 ++ le_bytes 4 n ++ magic_par1))
    with (le_bytes 4 n ++ magic_par1).
  change (firstn 4 (le_bytes 4 n ++ magic_par1)) with (le_bytes 4 n).
  change (skipn 4 (le_bytes 4 n ++ magic_par1)) with magic_par1.
  destruct (list_eqb (le_bytes 4 n) magic_pare) eqn:E.
  - apply list_eqb_eq in E. contradiction.
  - rewrite list_eqb_refl. cbn [negb]. rewrite le_num_le_bytes4 by lia.
    unfold FOOTER_SIZE.
    destruct (12 <? n + 8); cbn [l_alloc]; lia.
Qed.

(* the closed witness that is replayed on the engine: 12 bytes, allocation 4 294 967 292 bytes *)
Definition w_footer_len : list N := [80; 65; 82; 49; 252; 255; 255; 255; 80; 65; 82; 49].
Lemma w_footer_len_alloc :
  length w_footer_len = 12%nat /\ l_alloc (load_footer cfg_source_now w_footer_len) = 4294967292 /\
  l_out (load_footer cfg_source_now w_footer_len) = TErr /\
  l_alloc (load_footer cfg_patched w_footer_len) = 8.
Proof. vm_compute. repeat split; reflexivity. Qed.

(* no constants c, c' bound the allocation by c * |file| + c' below 2^32 *)
Theorem footer_alloc_not_linear c : c_footer_len c = false ->
  forall k k', k * 12 + k' < 2 ^ 32 - 256 ->
  exists file, l_alloc (load_footer c file) > k * lenN file + k'.
Proof.
  intros Hc k k' Hk.
  (* choose n = 256 * q + 255 ... simply n with a first byte different from 'P' *)
  set (n := k * 12 + k' + 8 + (if (k * 12 + k' + 8) mod 256 =? 80 then 1 else 0)).
  assert (Hn8 : 8 <= n < 2 ^ 32).
  { subst n. change (2 ^ 32) with 4294967296 in *. destruct (_ =? 80); lia. }
  assert (Hb : n mod 256 <> 80).
  { subst n. destruct ((k * 12 + k' + 8) mod 256 =? 80) eqn:E.
    - apply N.eqb_eq in E. Ltac Zify.zify_post_hook ::= Z.div_mod_to_equations. lia.
    - apply N.eqb_neq in E. rewrite N.add_0_r. exact E. }
  exists (lying_footer n).
  destruct (footer_alloc_unbounded_unchecked c n Hc Hn8) as [Hl Ha].
  { cbn [le_bytes]. unfold magic_pare. intros E. injection E as E _. contradiction. }
  rewrite Ha. unfold lenN. rewrite Hl. change (N.of_nat 12) with 12. subst n. destruct (_ =? 80); lia.
Qed.

(* ================================================================== thrift primitives *)
Lemma t_read_byte_len buf b r : t_read_byte buf = TOk (b, r) -> length buf = S (length r).
Proof. destruct buf; cbn; intros H; inversion H; reflexivity. Qed.

Lemma t_vlq_len c : forall bs acc sh v r, t_vlq c bs acc sh = TOk (v, r) -> (length r < length bs)%nat.
Proof.
  induction bs as [|b bs IH]; intros acc sh v r H; cbn [t_vlq] in H; [discriminate|].
  destruct (64 <=? sh). { destruct (c_vlq_shift c); discriminate. }
  destruct (N.land b 128 =? 0).
  - inversion H; subst. cbn. lia.
  - apply IH in H. cbn. lia.
Qed.

Lemma t_vlq_no_panic c : c_vlq_shift c = true -> forall bs acc sh x, t_vlq c bs acc sh <> TPanic x.
Proof.
  intros Hc. induction bs as [|b bs IH]; intros acc sh x; cbn [t_vlq]; [discriminate|].
  rewrite Hc. destruct (64 <=? sh); [discriminate|].
  destruct (N.land b 128 =? 0); [discriminate|]. apply IH.
Qed.

Lemma t_vlq_no_fuel c : forall bs acc sh, t_vlq c bs acc sh <> TFuel.
Proof.
  induction bs as [|b bs IH]; intros acc sh; cbn [t_vlq]; [discriminate|].
  destruct (64 <=? sh). { destruct (c_vlq_shift c); discriminate. }
  destruct (N.land b 128 =? 0); [discriminate|]. apply IH.
Qed.

(* the unbounded shift: ten continuation bytes and one more byte *)
Definition w_vlq_shift : list N := [128; 128; 128; 128; 128; 128; 128; 128; 128; 128; 0].
Lemma w_vlq_shift_panics c : c_vlq_shift c = false -> t_read_vlq c w_vlq_shift = TPanic site_vlq_shift.
Proof. intros H. unfold t_read_vlq, w_vlq_shift. cbn. rewrite H. reflexivity. Qed.

Ltac tb H E :=
  match type of H with
  | context [tbind ?e _] => destruct e as [?a| |?x|] eqn:E; cbn [tbind] in H; try discriminate
  end.

Lemma t_read_bytes_len c buf bs r a :
  t_read_bytes c buf = TOk (bs, r, a) -> a + lenN r + 1 <= lenN buf.
Proof.
  unfold t_read_bytes. intros H. tb H E. destruct a0 as [len r0].
  apply t_vlq_len in E. destruct (lenN r0 <? len) eqn:El; [discriminate|].
  inversion H; subst. unfold lenN in *. rewrite skipn_length. lia.
Qed.

Lemma t_read_string_len c buf r a :
  t_read_string c buf = TOk (r, a) -> a + lenN r + 1 <= lenN buf.
Proof.
  unfold t_read_string. intros H. tb H E. destruct a0 as [[bs r0] a0].
  destruct (utf8_validb bs); [|discriminate]. inversion H; subst. eapply t_read_bytes_len; eauto.
Qed.

Lemma t_read_double_len c buf r : t_read_double c buf = TOk r -> lenN r + 8 = lenN buf.
Proof.
  unfold t_read_double. destruct (lenN buf <? 8) eqn:E. { destruct (c_double c); discriminate. }
  intros H. assert (Hr : r = skipn 8 buf) by congruence. rewrite Hr. unfold lenN in *. rewrite skipn_length. lia.
Qed.

Lemma t_read_list_begin_len c buf ety cnt r :
  t_read_list_begin c buf = TOk (ety, cnt, r) -> (length r < length buf)%nat.
Proof.
  unfold t_read_list_begin. intros H. tb H E. destruct a as [h r0]. apply t_read_byte_len in E.
  destruct (collection_u8_to_type (N.land h 15)); [|discriminate].
  destruct (N.shiftr h 4 =? 15).
  - destruct (t_read_vlq c r0) as [[v r1]| |y|] eqn:E2; cbn [tbind] in H; try discriminate.
    apply t_vlq_len in E2.
    destruct (c_list_len c && _); [discriminate|]. inversion H; subst. lia.
  - cbn [tbind] in H. destruct (c_list_len c && _); [discriminate|]. inversion H; subst. lia.
Qed.

Lemma t_read_list_begin_checked c buf ety cnt r :
  c_list_len c = true -> t_read_list_begin c buf = TOk (ety, cnt, r) -> (0 <= cnt <= Z.of_N (lenN r))%Z.
Proof.
  intros Hc. unfold t_read_list_begin. intros H. tb H E. destruct a as [h r0].
  destruct (collection_u8_to_type (N.land h 15)); [|discriminate]. rewrite Hc in H. cbn [andb] in H.
  destruct (N.shiftr h 4 =? 15).
  - destruct (t_read_vlq c r0) as [[v r1]| |y|] eqn:E2; cbn [tbind] in H; try discriminate.
    destruct ((as_i32 v <? 0)%Z || _) eqn:Eb; [discriminate|]. inversion H; subst. lia.
  - cbn [tbind] in H. remember (N.shiftr h 4) as k eqn:Ek. clear Ek.
    destruct ((Z.of_N k <? 0)%Z || _) eqn:Eb; [discriminate|]. inversion H; subst. lia.
Qed.

(* ---------- list allocation in front of a known list field ---------- *)
Theorem list_alloc_bounded_checked c es buf a r :
  c_list_len c = true -> t_list_alloc c es buf = TOk (a, r) -> a <= es * lenN buf.
Proof.
  intros Hc. unfold t_list_alloc. intros H. tb H E. destruct a0 as [[ety cnt] r0].
  pose proof (t_read_list_begin_checked _ _ _ _ _ Hc E) as Hb.
  apply t_read_list_begin_len in E.
  destruct (cnt <? 0)%Z; [discriminate|]. inversion H; subst. unfold lenN in *. nia.
Qed.

Theorem list_alloc_no_panic_checked c es buf x :
  c_list_len c = true -> c_vlq_shift c = true -> t_list_alloc c es buf <> TPanic x.
Proof.
  intros Hc Hv. unfold t_list_alloc. intros H.
  destruct (t_read_list_begin c buf) as [[[ety cnt] r0]| |y|] eqn:E; cbn [tbind] in H; try discriminate.
  - pose proof (t_read_list_begin_checked _ _ _ _ _ Hc E) as Hb.
    destruct (cnt <? 0)%Z eqn:Ec; [lia|discriminate].
  - unfold t_read_list_begin in E.
    destruct (t_read_byte buf) as [[h r1]| |z|] eqn:E1; cbn [tbind] in E; try discriminate.
    + destruct (collection_u8_to_type (N.land h 15)); [|discriminate].
      destruct (N.shiftr h 4 =? 15); cbn [tbind] in E.
      * destruct (t_read_vlq c r1) as [[v r2]| |z|] eqn:E2; cbn [tbind] in E; try discriminate.
        -- destruct (c_list_len c && _); discriminate.
        -- eapply t_vlq_no_panic; eauto.
      * destruct (c_list_len c && _); discriminate.
    + destruct buf; discriminate.
Qed.

(* FileMetaData field 2 (schema, elements of 120 bytes) announcing 2^31 - 1 elements / -1 elements *)
Definition w_list_count : list N := [252; 255; 255; 255; 255; 7].
Definition w_list_negative : list N := [252; 255; 255; 255; 255; 15].
Lemma w_list_count_alloc :
  t_list_alloc cfg_source_now 120 w_list_count = TOk (257698037640, []) /\
  t_list_alloc cfg_patched 120 w_list_count = TErr.
Proof. vm_compute. split; reflexivity. Qed.
Lemma w_list_negative_panics :
  t_list_alloc cfg_source_now 120 w_list_negative = TPanic site_capacity /\
  t_list_alloc cfg_patched 120 w_list_negative = TErr.
Proof. vm_compute. split; reflexivity. Qed.

(* ================================================================== the skip machine *)
Definition phi (s : st) : nat := (3 * length (s_buf s) + length (s_tasks s))%nat.
Definition acct (s : st) : N := s_alloc s + lenN (s_buf s).

Lemma skip_value_ok c ty d pb s s' :
  skip_value c ty d pb s = TOk s' ->
  (phi s' <= phi s + 1)%nat /\ acct s' <= acct s /\
  (pb = false -> ty <> 12 -> (phi s' + 2 <= phi s)%nat).
Proof.
  unfold skip_value, phi, acct. destruct d as [|d']; [discriminate|]. intros H.
  destruct (ty =? 1) eqn:T1.
  { destruct pb.
    - inversion H; subst. repeat split; try lia; try (intros; discriminate).
    - tb H E. destruct a as [b r]. apply t_read_byte_len in E.
      destruct ((b =? 1) || (b =? 2)); [|discriminate]. inversion H; subst. cbn [s_buf s_tasks s_alloc].
      unfold lenN. repeat split; lia. }
  destruct (ty =? 3) eqn:T3.
  { tb H E. destruct a as [b r]. apply t_read_byte_len in E. inversion H; subst. cbn [s_buf s_tasks s_alloc].
    unfold lenN. repeat split; lia. }
  destruct ((ty =? 4) || (ty =? 5) || (ty =? 6)) eqn:T4.
  { tb H E. destruct a as [b r]. apply t_vlq_len in E. inversion H; subst. cbn [s_buf s_tasks s_alloc].
    unfold lenN. repeat split; lia. }
  destruct (ty =? 7) eqn:T7.
  { tb H E. apply t_read_double_len in E. inversion H; subst. cbn [s_buf s_tasks s_alloc].
    unfold lenN in *. repeat split; lia. }
  destruct (ty =? 8) eqn:T8.
  { tb H E. destruct a as [r a]. apply t_read_string_len in E. inversion H; subst. cbn [s_buf s_tasks s_alloc].
    unfold lenN in *. repeat split; lia. }
  destruct (ty =? 12) eqn:T12.
  { inversion H; subst. cbn [s_buf s_tasks s_alloc length]. repeat split; try lia. }
  destruct (ty =? 9) eqn:T9.
  { tb H E. destruct a as [[ety cnt] r]. apply t_read_list_begin_len in E. inversion H; subst.
    cbn [s_buf s_tasks s_alloc length]. unfold lenN. repeat split; lia. }
  destruct ((ty =? 10) || (ty =? 11)). { destruct (c_setmap c); discriminate. }
  discriminate.
Qed.

Lemma fields_step_ok c d last s s' :
  fields_step c d last s = TOk s' -> (phi s' + 1 <= phi s)%nat /\ acct s' <= acct s.
Proof.
  unfold fields_step. intros H. tb H E. destruct a as [h r]. apply t_read_byte_len in E.
  destruct (if (N.land h 15 =? 1) || (N.land h 15 =? 2) then Some ty_bool else u8_to_type (N.land h 15)) as [ty|];
    [|discriminate].
  destruct (ty =? 0).
  { inversion H; subst. unfold phi, acct, lenN. cbn [s_buf s_tasks s_alloc]. split; lia. }
  tb H E2. destruct a as [last' r'].
  assert (Hr : (length r' <= length r)%nat).
  { destruct (negb (N.shiftr h 4 =? 0)).
    - destruct (32767 <? last + Z.of_N (N.shiftr h 4))%Z.
      + destruct (c_fid_add c); discriminate.
      + inversion E2; subst. lia.
    - tb E2 E3. destruct a as [v r1]. apply t_vlq_len in E3. inversion E2; subst. lia. }
  apply skip_value_ok in H. destruct H as [H1 [H2 _]].
  unfold phi, acct, lenN in *. cbn [s_buf s_tasks s_alloc length] in *. split; lia.
Qed.

Lemma step_ok c s s' : s_tasks s <> [] -> step c s = TOk s' -> (phi s' < phi s)%nat /\ acct s' <= acct s.
Proof.
  unfold step. destruct (s_tasks s) as [|[d last|n ety d] rest] eqn:Et; [contradiction|..]; intros _ H.
  - apply fields_step_ok in H. unfold phi, acct in *. rewrite Et. cbn [s_buf s_tasks s_alloc length] in *. lia.
  - destruct (n =? 0).
    { inversion H; subst. unfold phi, acct. rewrite Et. cbn [s_buf s_tasks s_alloc length]. lia. }
    destruct (ety =? 12) eqn:E12.
    + destruct d as [|d']; [discriminate|]. apply fields_step_ok in H.
      unfold phi, acct in *. rewrite Et. cbn [s_buf s_tasks s_alloc length] in *. lia.
    + apply skip_value_ok in H. destruct H as [_ [H2 H3]].
      assert (Hne : ety <> 12) by (apply N.eqb_neq; exact E12).
      specialize (H3 eq_refl Hne).
      unfold phi, acct in *. rewrite Et. cbn [s_buf s_tasks s_alloc length] in *. lia.
Qed.

Definition checked_reader (c : cfg) : Prop :=
  c_setmap c = true /\ c_double c = true /\ c_vlq_shift c = true /\ c_fid_add c = true.

Lemma skip_value_no_panic c ty d pb s x : checked_reader c -> skip_value c ty d pb s <> TPanic x.
Proof.
  intros [Hs [Hd [Hv Hf]]]. unfold skip_value. destruct d as [|d']; [discriminate|].
  destruct (ty =? 1).
  { destruct pb; [discriminate|]. destruct (s_buf s) as [|b r]; cbn; [discriminate|].
    destruct ((b =? 1) || (b =? 2)); discriminate. }
  destruct (ty =? 3). { destruct (s_buf s); cbn; discriminate. }
  destruct ((ty =? 4) || (ty =? 5) || (ty =? 6)).
  { unfold t_read_vlq. destruct (t_vlq c (s_buf s) 0 0) as [[v r]| |y|] eqn:E; cbn; try discriminate.
    exfalso. eapply t_vlq_no_panic; eauto. }
  destruct (ty =? 7).
  { unfold t_read_double. rewrite Hd. destruct (lenN (s_buf s) <? 8); cbn; discriminate. }
  destruct (ty =? 8).
  { unfold t_read_string, t_read_bytes, t_read_vlq.
    destruct (t_vlq c (s_buf s) 0 0) as [[v r]| |y|] eqn:E; cbn; try discriminate.
    - destruct (lenN r <? v); cbn; [discriminate|]. destruct (utf8_validb _); cbn; discriminate.
    - exfalso. eapply t_vlq_no_panic; eauto. }
  destruct (ty =? 12); [discriminate|].
  destruct (ty =? 9).
  { unfold t_read_list_begin. destruct (s_buf s) as [|h r]; cbn [t_read_byte tbind]; [discriminate|].
    destruct (collection_u8_to_type (N.land h 15)); [|discriminate].
    destruct (N.shiftr h 4 =? 15); cbn [tbind].
    - unfold t_read_vlq. destruct (t_vlq c r 0 0) as [[v r1]| |y|] eqn:E; cbn [tbind]; try discriminate.
      + destruct (c_list_len c && _); cbn; discriminate.
      + exfalso. eapply t_vlq_no_panic; eauto.
    - destruct (c_list_len c && _); cbn; discriminate. }
  rewrite Hs. destruct ((ty =? 10) || (ty =? 11)); discriminate.
Qed.

Lemma fields_step_no_panic c d last s x : checked_reader c -> fields_step c d last s <> TPanic x.
Proof.
  intros Hc. pose proof Hc as [Hs [Hd [Hv Hf]]]. unfold fields_step.
  destruct (s_buf s) as [|h r]; cbn [t_read_byte tbind]; [discriminate|].
  destruct (if (N.land h 15 =? 1) || (N.land h 15 =? 2) then Some ty_bool else u8_to_type (N.land h 15)) as [ty|];
    [|discriminate].
  destruct (ty =? 0); [discriminate|].
  destruct (negb (N.shiftr h 4 =? 0)).
  - rewrite Hf. destruct (32767 <? last + Z.of_N (N.shiftr h 4))%Z; cbn [tbind]; [discriminate|].
    apply skip_value_no_panic; assumption.
  - unfold t_read_vlq. destruct (t_vlq c r 0 0) as [[v r1]| |y|] eqn:E; cbn [tbind]; try discriminate.
    + apply skip_value_no_panic; assumption.
    + exfalso. eapply t_vlq_no_panic; eauto.
Qed.

Lemma step_no_panic c s x : checked_reader c -> step c s <> TPanic x.
Proof.
  intros Hc. unfold step. destruct (s_tasks s) as [|[d last|n ety d] rest]; [discriminate|..].
  - apply fields_step_no_panic; assumption.
  - destruct (n =? 0); [discriminate|]. destruct (ety =? 12).
    + destruct d; [discriminate|]. apply fields_step_no_panic; assumption.
    + apply skip_value_no_panic; assumption.
Qed.

Lemma skip_value_no_fuel c ty d pb s : skip_value c ty d pb s <> TFuel.
Proof.
  unfold skip_value. destruct d as [|d']; [discriminate|].
  destruct (ty =? 1).
  { destruct pb; [discriminate|]. destruct (s_buf s) as [|b r]; cbn; [discriminate|].
    destruct ((b =? 1) || (b =? 2)); discriminate. }
  destruct (ty =? 3). { destruct (s_buf s); cbn; discriminate. }
  destruct ((ty =? 4) || (ty =? 5) || (ty =? 6)).
  { unfold t_read_vlq. destruct (t_vlq c (s_buf s) 0 0) as [[v r]| |y|] eqn:E; cbn; try discriminate.
    exfalso. eapply t_vlq_no_fuel; eauto. }
  destruct (ty =? 7).
  { unfold t_read_double. destruct (lenN (s_buf s) <? 8); [destruct (c_double c)|]; cbn; discriminate. }
  destruct (ty =? 8).
  { unfold t_read_string, t_read_bytes, t_read_vlq.
    destruct (t_vlq c (s_buf s) 0 0) as [[v r]| |y|] eqn:E; cbn; try discriminate.
    - destruct (lenN r <? v); cbn; [discriminate|]. destruct (utf8_validb _); cbn; discriminate.
    - exfalso. eapply t_vlq_no_fuel; eauto. }
  destruct (ty =? 12); [discriminate|].
  destruct (ty =? 9).
  { unfold t_read_list_begin. destruct (s_buf s) as [|h r]; cbn [t_read_byte tbind]; [discriminate|].
    destruct (collection_u8_to_type (N.land h 15)); [|discriminate].
    destruct (N.shiftr h 4 =? 15); cbn [tbind].
    - unfold t_read_vlq. destruct (t_vlq c r 0 0) as [[v r1]| |y|] eqn:E; cbn [tbind]; try discriminate.
      + destruct (c_list_len c && _); cbn; discriminate.
      + exfalso. eapply t_vlq_no_fuel; eauto.
    - destruct (c_list_len c && _); cbn; discriminate. }
  destruct ((ty =? 10) || (ty =? 11)); [destruct (c_setmap c)|]; discriminate.
Qed.

Lemma fields_step_no_fuel c d last s : fields_step c d last s <> TFuel.
Proof.
  unfold fields_step.
  destruct (s_buf s) as [|h r]; cbn [t_read_byte tbind]; [discriminate|].
  destruct (if (N.land h 15 =? 1) || (N.land h 15 =? 2) then Some ty_bool else u8_to_type (N.land h 15)) as [ty|];
    [|discriminate].
  destruct (ty =? 0); [discriminate|].
  destruct (negb (N.shiftr h 4 =? 0)).
  - destruct (32767 <? last + Z.of_N (N.shiftr h 4))%Z; [destruct (c_fid_add c)|]; cbn [tbind];
      try discriminate; apply skip_value_no_fuel.
  - unfold t_read_vlq. destruct (t_vlq c r 0 0) as [[v r1]| |y|] eqn:E; cbn [tbind]; try discriminate.
    + apply skip_value_no_fuel.
    + exfalso. eapply t_vlq_no_fuel; eauto.
Qed.

Lemma step_no_fuel c s : step c s <> TFuel.
Proof.
  unfold step. destruct (s_tasks s) as [|[d last|n ety d] rest]; [discriminate|..].
  - apply fields_step_no_fuel.
  - destruct (n =? 0); [discriminate|]. destruct (ety =? 12).
    + destruct d; [discriminate|]. apply fields_step_no_fuel.
    + apply skip_value_no_fuel.
Qed.

(* the budget 3|buf| + |tasks| is enough: the machine never runs out of fuel (no hang) *)
Lemma run_no_fuel c : forall fuel s, (phi s <= fuel)%nat -> run c fuel s <> TFuel.
Proof.
  induction fuel as [|f IH]; intros s Hp.
  - unfold phi in Hp. destruct (s_tasks s) eqn:Et; cbn [run]; rewrite Et; [discriminate|]. cbn [length] in Hp. lia.
  - cbn [run]. destruct (s_tasks s) as [|t ts] eqn:Et; [discriminate|].
    destruct (step c s) as [s'| |x|] eqn:Es; cbn [tbind]; try discriminate.
    + apply IH. assert (Hne : s_tasks s <> []) by (rewrite Et; discriminate).
      destruct (step_ok c s s' Hne Es) as [H1 _]. lia.
    + exfalso. eapply step_no_fuel; eauto.
Qed.

Lemma run_no_panic c : checked_reader c -> forall fuel s x, run c fuel s <> TPanic x.
Proof.
  intros Hc. induction fuel as [|f IH]; intros s x; cbn [run]; destruct (s_tasks s); try discriminate.
  destruct (step c s) as [s'| |y|] eqn:Es; cbn [tbind]; try discriminate.
  - apply IH.
  - exfalso. eapply step_no_panic; eauto.
Qed.

Lemma run_acct c : forall fuel s s', run c fuel s = TOk s' -> acct s' <= acct s.
Proof.
  induction fuel as [|f IH]; intros s s' H; cbn [run] in H; destruct (s_tasks s) as [|t ts] eqn:Et;
    try discriminate; try (inversion H; subst; lia).
  destruct (step c s) as [s1| |y|] eqn:Es; cbn [tbind] in H; try discriminate.
  assert (Hne : s_tasks s <> []) by (rewrite Et; discriminate).
  destruct (step_ok c s s1 Hne Es) as [_ H2]. apply IH in H. lia.
Qed.

(* decode_total_safe for the field-skipping path of the (repaired) reader: Ok or Err, never a panic, never out of
   budget, and the bytes allocated for skipped strings never exceed the input *)
Theorem thrift_skip_total_safe_checked c buf :
  checked_reader c ->
  out_clean (t_skip_top c buf) /\ (forall s', t_skip_top c buf = TOk s' -> s_alloc s' <= lenN buf).
Proof.
  intros Hc. unfold t_skip_top, skip_budget. split.
  - destruct (run c (3 * length buf + 2) (mk_st buf [KFields 64 0] 0)) as [s'| |x|] eqn:E.
    + left. eexists; reflexivity.
    + right; reflexivity.
    + exfalso. eapply run_no_panic; eauto.
    + exfalso. eapply run_no_fuel; [|exact E]. unfold phi. cbn [s_buf s_tasks length]. lia.
  - intros s' H. apply run_acct in H. unfold acct in H. cbn [s_alloc s_buf] in H. lia.
Qed.

(* never out of budget, whatever the flags: the skip path cannot hang *)
Theorem thrift_skip_never_out_of_budget c buf : t_skip_top c buf <> TFuel.
Proof.
  unfold t_skip_top, skip_budget. apply run_no_fuel. unfold phi. cbn [s_buf s_tasks length]. lia.
Qed.

(* closed witnesses against the reader as it is: thrift bytes of a struct whose only field is unknown (id 15) *)
Definition w_set : list N := [250; 0].                                      (* field 15, type Set    *)
Definition w_map : list N := [251; 0].                                      (* field 15, type Map    *)
Definition w_double : list N := [247; 1; 2; 3].                             (* field 15, Double, 3 bytes *)
Definition w_vlq_field : list N := 246 :: w_vlq_shift ++ [0].              (* field 15, I64, 11 byte varint *)
Definition w_fid : list N := repeat 241 2185 ++ [0].                        (* 2185 bool fields, delta 15 each *)

Lemma w_set_panics c : c_setmap c = false -> t_skip_top c w_set = TPanic site_unimplemented.
Proof. intros H. unfold t_skip_top, w_set. cbn. rewrite H. reflexivity. Qed.
Lemma w_map_panics c : c_setmap c = false -> t_skip_top c w_map = TPanic site_unimplemented.
Proof. intros H. unfold t_skip_top, w_map. cbn. rewrite H. reflexivity. Qed.
Lemma w_double_panics c : c_double c = false -> t_skip_top c w_double = TPanic site_double_slice.
Proof. intros H. unfold t_skip_top, w_double. cbn. rewrite H. reflexivity. Qed.
Lemma w_vlq_field_panics c : c_vlq_shift c = false -> t_skip_top c w_vlq_field = TPanic site_vlq_shift.
Proof. intros H. unfold t_skip_top, w_vlq_field, w_vlq_shift. cbn. rewrite H. reflexivity. Qed.
Lemma w_fid_panics : t_skip_top cfg_source_now w_fid = TPanic site_fid_add.
Proof. vm_compute. reflexivity. Qed.
Lemma w_patched_clean :
  t_skip_top cfg_patched w_set = TErr /\ t_skip_top cfg_patched w_map = TErr /\
  t_skip_top cfg_patched w_double = TErr /\ t_skip_top cfg_patched w_vlq_field = TErr /\
  t_skip_top cfg_patched w_fid = TErr.
Proof. vm_compute. repeat split; reflexivity. Qed.

(* the same through the footer loader: the complete file *)
Lemma w_set_file : fst (read_unknown_footer cfg_source_now (wrap_footer w_set)) = TPanic site_unimplemented.
Proof. vm_compute. reflexivity. Qed.

(* verdict on the source as scanned (gen/TablesFault.v): safe iff every reader check is present *)
Definition reader_checked_b (c : cfg) : bool := c_setmap c && c_double c && c_vlq_shift c && c_fid_add c.

Theorem thrift_skip_verdict_current :
  exists c, current_cfg = Some c /\
    (if reader_checked_b c
     then forall buf, out_clean (t_skip_top c buf)
     else exists buf x, t_skip_top c buf = TPanic x).
Proof.
  unfold current_cfg.
  destruct TablesFault.footer_len_checked as [a|] eqn:Ea; [|discriminate Ea || fail].
  destruct TablesFault.setmap_implemented as [b|] eqn:Eb; [|discriminate Eb || fail].
  destruct TablesFault.double_checked as [d|] eqn:Ed; [|discriminate Ed || fail].
  destruct TablesFault.vlq_shift_checked as [e|] eqn:Ee; [|discriminate Ee || fail].
  destruct TablesFault.fid_add_checked as [f|] eqn:Ef; [|discriminate Ef || fail].
  destruct TablesFault.list_len_checked as [g|] eqn:Eg; [|discriminate Eg || fail].
  eexists; split; [reflexivity|].
  unfold reader_checked_b. cbn [c_setmap c_double c_vlq_shift c_fid_add].
  destruct b.
  2: { cbn [andb]. exists w_set, site_unimplemented. apply w_set_panics. reflexivity. }
  destruct d.
  2: { cbn [andb]. exists w_double, site_double_slice. apply w_double_panics. reflexivity. }
  destruct e.
  2: { cbn [andb]. exists w_vlq_field, site_vlq_shift. apply w_vlq_field_panics. reflexivity. }
  destruct f.
  2: { cbn [andb]. exists w_fid, site_fid_add. destruct a, g; vm_compute; reflexivity. }
  cbn [andb]. intros buf. apply thrift_skip_total_safe_checked. repeat split; reflexivity.
Qed.

Theorem footer_verdict_current :
  exists c, current_cfg = Some c /\
    (if c_footer_len c
     then forall file, l_alloc (load_footer c file) <= lenN file + 8
     else exists file, length file = 12%nat /\ l_alloc (load_footer c file) = 4294967292).
Proof.
  unfold current_cfg.
  destruct TablesFault.footer_len_checked as [a|] eqn:Ea; [|discriminate Ea || fail].
  destruct TablesFault.setmap_implemented as [b|] eqn:Eb; [|discriminate Eb || fail].
  destruct TablesFault.double_checked as [d|] eqn:Ed; [|discriminate Ed || fail].
  destruct TablesFault.vlq_shift_checked as [e|] eqn:Ee; [|discriminate Ee || fail].
  destruct TablesFault.fid_add_checked as [f|] eqn:Ef; [|discriminate Ef || fail].
  destruct TablesFault.list_len_checked as [g|] eqn:Eg; [|discriminate Eg || fail].
  eexists; split; [reflexivity|]. cbn [c_footer_len]. destruct a.
  - intros file. apply footer_alloc_bounded_checked. reflexivity.
  - exists w_footer_len. split; [reflexivity|]. vm_compute. reflexivity.
Qed.

Theorem list_alloc_verdict_current :
  exists c, current_cfg = Some c /\
    (if c_list_len c
     then forall es buf a r, t_list_alloc c es buf = TOk (a, r) -> a <= es * lenN buf
     else exists buf, lenN buf = 6 /\
                      (exists r, t_list_alloc c 120 buf = TOk (257698037640, r) \/
                                 exists x, t_list_alloc c 120 buf = TPanic x)).
Proof.
  unfold current_cfg.
  destruct TablesFault.footer_len_checked as [a|] eqn:Ea; [|discriminate Ea || fail].
  destruct TablesFault.setmap_implemented as [b|] eqn:Eb; [|discriminate Eb || fail].
  destruct TablesFault.double_checked as [d|] eqn:Ed; [|discriminate Ed || fail].
  destruct TablesFault.vlq_shift_checked as [e|] eqn:Ee; [|discriminate Ee || fail].
  destruct TablesFault.fid_add_checked as [f|] eqn:Ef; [|discriminate Ef || fail].
  destruct TablesFault.list_len_checked as [g|] eqn:Eg; [|discriminate Eg || fail].
  eexists; split; [reflexivity|]. cbn [c_list_len]. destruct g.
  - intros es buf a0 r. apply list_alloc_bounded_checked. reflexivity.
  - exists w_list_count. split; [reflexivity|]. exists []. left. destruct a, b, d, e, f; vm_compute; reflexivity.
Qed.

(* the source as scanned HAS every check (after the repairs 142552dbd, 58ae48eb3): the safe side, stated outright.
   These stop checking when a check disappears from the source: a returning defect. *)
Theorem source_has_all_reader_checks : current_cfg = Some cfg_patched.
Proof. reflexivity. Qed.

Theorem footer_safe_current :
  exists c, current_cfg = Some c /\
    forall file, out_clean (l_out (load_footer c file)) /\ l_alloc (load_footer c file) <= lenN file + 8.
Proof.
  exists cfg_patched. split; [exact source_has_all_reader_checks|]. intros file. split.
  - apply load_footer_out_clean.
  - apply footer_alloc_bounded_checked. reflexivity.
Qed.

Theorem thrift_skip_safe_current :
  exists c, current_cfg = Some c /\
    forall buf, out_clean (t_skip_top c buf) /\ (forall s', t_skip_top c buf = TOk s' -> s_alloc s' <= lenN buf).
Proof.
  exists cfg_patched. split; [exact source_has_all_reader_checks|]. intros buf.
  apply thrift_skip_total_safe_checked. repeat split; reflexivity.
Qed.

Theorem list_alloc_safe_current :
  exists c, current_cfg = Some c /\
    forall es buf, (forall x, t_list_alloc c es buf <> TPanic x) /\
                   (forall a r, t_list_alloc c es buf = TOk (a, r) -> a <= es * lenN buf).
Proof.
  exists cfg_patched. split; [exact source_has_all_reader_checks|]. intros es buf. split.
  - intros x. apply list_alloc_no_panic_checked; reflexivity.
  - intros a r. apply list_alloc_bounded_checked. reflexivity.
Qed.

(* ================================================================== uncompressed page body (page_reader.rs) *)
Theorem page_load_safe_checked chunk_len off usz csz :
  is_i32 usz -> is_i32 csz -> chunk_len < 2 ^ 64 ->
  out_clean (p_out (load_page_plain true chunk_len off usz csz)) /\
  p_alloc (load_page_plain true chunk_len off usz csz) <= chunk_len.
Proof.
  unfold is_i32, load_page_plain, usize_of_i32. intros Hu Hc Hl. cbn [andb].
  change (2 ^ 31)%Z with 2147483648%Z in *. change (2 ^ 64) with 18446744073709551616 in *.
  change (2 ^ 63) with 9223372036854775808.
  destruct ((usz <? 0)%Z || (csz <? 0)%Z || negb (usz =? csz)%Z || (Z.of_N chunk_len <? Z.of_N off + csz)%Z) eqn:E.
  - cbn [p_out p_alloc]. split; [right; reflexivity|lia].
  - assert (Hz : (0 <= usz /\ 0 <= csz /\ usz = csz /\ Z.of_N off + csz <= Z.of_N chunk_len)%Z) by lia.
    destruct Hz as [H1 [H2 [H3 H4]]]. subst csz.
    rewrite Z.mod_small by (change (2 ^ 64)%Z with 18446744073709551616%Z; lia).
    destruct (9223372036854775808 <=? Z.to_N usz) eqn:E1; [lia|].
    destruct (18446744073709551616 <=? off + Z.to_N usz) eqn:E2; [lia|].
    destruct (chunk_len <? off + Z.to_N usz) eqn:E3; [lia|].
    rewrite N.eqb_refl. cbn [negb p_out p_alloc]. split; [left; eexists; reflexivity|lia].
Qed.

(* the reader as it is: the four outcomes on a chunk of 100 bytes whose page body starts at offset 20 *)
Lemma page_load_witnesses :
  load_page_plain false 100 20 8 10 = mk_paged (TPanic site_copy_len) 8 /\
  load_page_plain false 100 20 10 (-1) = mk_paged (TPanic site_offset_add) 10 /\
  load_page_plain false 100 20 2147483647 10 = mk_paged (TPanic site_copy_len) 2147483647 /\
  load_page_plain false 100 20 (-1) 10 = mk_paged TErr 0 /\
  load_page_plain false 100 20 10 200 = mk_paged TErr 10 /\
  load_page_plain false 100 20 10 10 = mk_paged (TOk 30) 10.
Proof. vm_compute. repeat split; reflexivity. Qed.

Lemma page_load_witnesses_checked :
  load_page_plain true 100 20 8 10 = mk_paged TErr 0 /\
  load_page_plain true 100 20 10 (-1) = mk_paged TErr 0 /\
  load_page_plain true 100 20 2147483647 10 = mk_paged TErr 0 /\
  load_page_plain true 100 20 10 10 = mk_paged (TOk 30) 10.
Proof. vm_compute. repeat split; reflexivity. Qed.

Theorem page_load_verdict_current :
  exists b, TablesFault.page_copy_len_checked = Some b /\
    (if b
     then forall chunk_len off usz csz, is_i32 usz -> is_i32 csz -> chunk_len < 2 ^ 64 ->
            out_clean (p_out (load_page_plain b chunk_len off usz csz)) /\ p_alloc (load_page_plain b chunk_len off usz csz) <= chunk_len
     else exists chunk_len off usz csz x, is_i32 usz /\ is_i32 csz /\
            p_out (load_page_plain b chunk_len off usz csz) = TPanic x /\ p_alloc (load_page_plain b chunk_len off usz csz) > 1000 * chunk_len).
Proof.
  destruct TablesFault.page_copy_len_checked as [b|] eqn:E; [|discriminate E || fail].
  exists b. split; [reflexivity|]. destruct b.
  - intros. apply page_load_safe_checked; assumption.
  - exists 100, 20, 2147483647%Z, 10%Z, site_copy_len. unfold is_i32. vm_compute. repeat split; congruence.
Qed.

(* ================================================================== column chunk fetch (reader.rs) *)
Theorem fetch_chunk_safe_checked file_size start len :
  out_clean (p_out (fetch_chunk true file_size start len)) /\ p_alloc (fetch_chunk true file_size start len) <= file_size.
Proof.
  unfold fetch_chunk. cbn [andb].
  destruct ((2 ^ 64 <=? start + len) || (file_size <? start + len)) eqn:E.
  - cbn [p_out p_alloc]. split; [right; reflexivity|lia].
  - assert (H : start + len <= file_size) by lia.
    destruct (2 ^ 63 <=? len); [cbn [p_out p_alloc]; split; [right; reflexivity|lia]|].
    destruct (file_size <? start + len) eqn:E2; [lia|].
    cbn [p_out p_alloc]. split; [left; eexists; reflexivity|lia].
Qed.

(* before f3bd995b4: a 227 byte file whose footer puts a 27 byte chunk at offset 2^31-1 never finishes,
   a chunk length of 2^62 is allocated *)
Lemma fetch_chunk_witnesses :
  fetch_chunk false 227 2147483647 27 = mk_paged TFuel 27 /\
  fetch_chunk false 227 69 4611686018427387904 = mk_paged TFuel 4611686018427387904 /\
  fetch_chunk true 227 2147483647 27 = mk_paged TErr 0 /\
  fetch_chunk true 227 69 4611686018427387904 = mk_paged TErr 0 /\
  fetch_chunk true 227 69 27 = mk_paged (TOk 27) 27.
Proof. vm_compute. repeat split; reflexivity. Qed.

Theorem fetch_chunk_verdict_current :
  exists b, TablesFault.chunk_range_checked = Some b /\
    (if b
     then forall file_size start len, out_clean (p_out (fetch_chunk b file_size start len)) /\
                                      p_alloc (fetch_chunk b file_size start len) <= file_size
     else exists file_size start len, p_out (fetch_chunk b file_size start len) = TFuel).
Proof.
  destruct TablesFault.chunk_range_checked as [b|] eqn:E; [|discriminate E || fail].
  exists b. split; [reflexivity|]. destruct b.
  - intros. apply fetch_chunk_safe_checked.
  - exists 227, 2147483647, 27. vm_compute. reflexivity.
Qed.

(* the source as scanned has the page-size and chunk-range checks (after f3bd995b4): safe side outright *)
Theorem page_and_chunk_checks_present :
  TablesFault.page_copy_len_checked = Some true /\ TablesFault.chunk_range_checked = Some true.
Proof. split; reflexivity. Qed.

Theorem page_load_safe_current :
  exists b, TablesFault.page_copy_len_checked = Some b /\
    forall chunk_len off usz csz, is_i32 usz -> is_i32 csz -> chunk_len < 2 ^ 64 ->
      out_clean (p_out (load_page_plain b chunk_len off usz csz)) /\ p_alloc (load_page_plain b chunk_len off usz csz) <= chunk_len.
Proof.
  exists true. split; [reflexivity|]. intros. apply page_load_safe_checked; assumption.
Qed.

Theorem fetch_chunk_safe_current :
  exists b, TablesFault.chunk_range_checked = Some b /\
    forall file_size start len, out_clean (p_out (fetch_chunk b file_size start len)) /\
                                p_alloc (fetch_chunk b file_size start len) <= file_size.
Proof.
  exists true. split; [reflexivity|]. intros. apply fetch_chunk_safe_checked.
Qed.

(* ================================================================== compressed data page v2 (page_reader.rs) *)
Theorem page_v2_safe_checked chunk_len off usz csz rep def ok :
  is_i32 usz ->
  out_clean (p_out (load_page_v2_compressed true true chunk_len off usz csz rep def ok)) /\
  p_alloc (load_page_v2_compressed true true chunk_len off usz csz rep def ok) < 2 ^ 31.
Proof.
  unfold is_i32, load_page_v2_compressed. intros Hu. cbn [andb].
  change (2 ^ 31)%Z with 2147483648%Z in *. change (2 ^ 31) with 2147483648.
  destruct ((usz <? 0)%Z || (csz <? 0)%Z) eqn:E0; [cbn [p_out p_alloc]; split; [right; reflexivity|lia]|].
  destruct (chunk_len <? off + Z.to_N csz) eqn:E1; [cbn [p_out p_alloc]; split; [right; reflexivity|lia]|].
  destruct ((rep <? 0)%Z || (def <? 0)%Z) eqn:E2; [cbn [p_out p_alloc]; split; [right; reflexivity|lia]|].
  destruct ((Z.to_N csz <? Z.to_N rep + Z.to_N def) || (Z.to_N usz <? Z.to_N rep + Z.to_N def)) eqn:E3;
    [cbn [p_out p_alloc]; split; [right; reflexivity|lia]|].
  destruct (Z.to_N usz <? Z.to_N rep + Z.to_N def) eqn:E4; [lia|].
  destruct (chunk_len <? off + (Z.to_N rep + Z.to_N def)) eqn:E5; [cbn [p_out p_alloc]; split; [right; reflexivity|lia]|].
  destruct (Z.to_N csz <? Z.to_N rep + Z.to_N def) eqn:E6; [lia|].
  destruct ((0 <? Z.to_N csz - (Z.to_N rep + Z.to_N def)) && negb ok); cbn [p_out p_alloc];
    (split; [(right; reflexivity) || (left; eexists; reflexivity)|lia]).
Qed.

(* one witness for each missing half of the level length test (chunk of 100 bytes, page body at offset 20) *)
Lemma page_v2_witnesses :
  (* rep + def = 13 > uncompressed 12, <= compressed 20: `&mut dest[..13]` on a 12 byte buffer *)
  (forall le_c ok, load_page_v2_compressed le_c false 100 20 12 20 0 13 ok = mk_paged (TPanic site_levels_dest) 12) /\
  (* rep + def = 13 > compressed 10, <= uncompressed 50, inside the chunk: 10 - 13 underflows *)
  (forall le_u ok, load_page_v2_compressed false le_u 100 20 50 10 0 13 ok = mk_paged (TPanic site_levels_sub) 50) /\
  (forall ok, load_page_v2_compressed true true 100 20 12 20 0 13 ok = mk_paged TErr 12) /\
  (forall ok, load_page_v2_compressed true true 100 20 50 10 0 13 ok = mk_paged TErr 50) /\
  load_page_v2_compressed true true 100 20 50 10 2 3 true = mk_paged (TOk 30) 50 /\
  load_page_v2_compressed true true 100 20 50 10 2 3 false = mk_paged TErr 50.
Proof. repeat split; try (intros [] []; vm_compute; reflexivity); try (intros []; vm_compute; reflexivity); vm_compute; reflexivity. Qed.

Theorem page_v2_verdict_current :
  exists a b, TablesFault.v2_levels_le_compressed = Some a /\ TablesFault.v2_levels_le_uncompressed = Some b /\
    (if a && b
     then forall chunk_len off usz csz rep def ok, is_i32 usz ->
            out_clean (p_out (load_page_v2_compressed a b chunk_len off usz csz rep def ok)) /\
            p_alloc (load_page_v2_compressed a b chunk_len off usz csz rep def ok) < 2 ^ 31
     else exists chunk_len off usz csz rep def x, forall ok,
            p_out (load_page_v2_compressed a b chunk_len off usz csz rep def ok) = TPanic x).
Proof.
  destruct TablesFault.v2_levels_le_compressed as [a|] eqn:Ea; [|discriminate Ea || fail].
  destruct TablesFault.v2_levels_le_uncompressed as [b|] eqn:Eb; [|discriminate Eb || fail].
  exists a, b. split; [reflexivity|]. split; [reflexivity|].
  destruct a, b; cbn [andb].
  - intros. apply page_v2_safe_checked; assumption.
  - exists 100, 20, 12%Z, 20%Z, 0%Z, 13%Z, site_levels_dest. intros []; vm_compute; reflexivity.
  - exists 100, 20, 50%Z, 10%Z, 0%Z, 13%Z, site_levels_sub. intros []; vm_compute; reflexivity.
  - exists 100, 20, 12%Z, 20%Z, 0%Z, 13%Z, site_levels_dest. intros []; vm_compute; reflexivity.
Qed.

Theorem page_v2_safe_current :
  TablesFault.v2_levels_le_compressed = Some true /\ TablesFault.v2_levels_le_uncompressed = Some true.
Proof. split; reflexivity. Qed.

(* source constants *)
Theorem footer_constants :
  exists fs mn, TablesFault.footer_size = Some fs /\ TablesFault.min_file_size = Some mn /\
                fs = FOOTER_SIZE /\ mn = MIN_FILE_SIZE.
Proof. eexists; eexists; repeat split; reflexivity. Qed.

(* ================================================================== bit-level decoders of C10 (PqBits / PqDelta) *)
(* read_unsigned_vlq (bitutil.rs) HAS the shift bound: never a panic; it reads past the cursor exactly when the
   input ends inside the varint *)
Definition cont_byte (b : N) : Prop := N.land b 128 <> 0.

Lemma vlq_dec_oob_iff : forall bs acc k, (k <= 9)%nat ->
  (vlq_dec bs acc (7 * N.of_nat k) = OOB <-> (length bs + k <= 9)%nat /\ Forall cont_byte bs).
Proof.
  induction bs as [|b bs IH]; intros acc k Hk; cbn [vlq_dec].
  - split; [intros _; split; [cbn; lia|constructor]|reflexivity].
  - destruct (N.land b 128 =? 0) eqn:Eb.
    + split; [discriminate|]. intros [_ HF]. inversion HF as [|? ? Hc _]; subst.
      apply N.eqb_eq in Eb. unfold cont_byte in Hc. contradiction.
    + apply N.eqb_neq in Eb.
      destruct (64 <=? 7 * N.of_nat k + 7) eqn:Es.
      * split; [discriminate|]. intros [Hl _]. cbn [length] in Hl. lia.
      * replace (7 * N.of_nat k + 7) with (7 * N.of_nat (S k)) by lia.
        rewrite IH by lia. cbn [length]. split.
        -- intros [Hl HF]. split; [lia|]. constructor; assumption.
        -- intros [Hl HF]. inversion HF; subst. split; [lia|assumption].
Qed.

Theorem vlq_decode_oob_iff bs :
  vlq_decode bs = OOB <-> (length bs <= 9)%nat /\ Forall cont_byte bs.
Proof.
  unfold vlq_decode. change 0 with (7 * N.of_nat 0) at 2. rewrite vlq_dec_oob_iff by lia.
  split; intros [H1 H2]; split; try assumption; lia.
Qed.

Lemma vlq_dec_no_panic : forall bs acc sh, vlq_dec bs acc sh <> Panic.
Proof.
  induction bs as [|b bs IH]; intros acc sh; cbn [vlq_dec]; [discriminate|].
  destruct (N.land b 128 =? 0); [discriminate|]. destruct (64 <=? sh + 7); [discriminate|]. apply IH.
Qed.
Theorem vlq_decode_no_panic bs : vlq_decode bs <> Panic.
Proof. apply vlq_dec_no_panic. Qed.

Lemma unpack_val_no_panic : forall fuel buf pos need off value, unpack_val fuel buf pos need off value <> Panic.
Proof.
  induction fuel as [|f IH]; intros buf pos need off value; cbn [unpack_val].
  - destruct (need =? 0); discriminate.
  - destruct (need =? 0); [discriminate|]. destruct buf as [|b rest]; [discriminate|].
    destruct (pos + N.min need (8 - pos) =? 8); apply IH.
Qed.

Lemma unpack_n_no_panic tw w : forall n buf pos, unpack_n tw w n buf pos <> Panic.
Proof.
  induction n as [|n IH]; intros buf pos; cbn [unpack_n]; [discriminate|].
  unfold unpack_one.
  destruct (unpack_val 65 buf pos w 0 0) as [[[v b1] p1]| | |] eqn:E; cbn [bind]; try discriminate.
  - destruct (unpack_n tw w n b1 p1) as [[[vs b2] p2]| | |] eqn:E2; cbn [bind]; try discriminate.
    exfalso. eapply IH; eauto.
  - exfalso. eapply unpack_val_no_panic; eauto.
Qed.

(* bit_unpack: a width above 64 is an error (repair 72f92a6f7; before it indexed the mask table out of bounds) *)
Theorem bit_unpack_no_panic tw w n buf pos : bit_unpack tw w n buf pos <> Panic.
Proof.
  unfold bit_unpack. destruct (64 <? w); [discriminate|].
  destruct (w =? 0); [discriminate|]. apply unpack_n_no_panic.
Qed.

Theorem bit_unpack_wide_err tw w n buf pos : 64 < w -> bit_unpack tw w n buf pos = Err.
Proof. intros H. unfold bit_unpack. destruct (64 <? w) eqn:E; [reflexivity|lia]. Qed.

Lemma take_bytes_no_panic : forall k buf, take_bytes k buf <> Panic.
Proof.
  induction k as [|k IHk]; intros buf; cbn [take_bytes]; [discriminate|].
  destruct buf as [|x r]; [discriminate|].
  destruct (take_bytes k r) as [[bs' r']| | |] eqn:E3; cbn [bind]; try discriminate.
  exfalso. eapply IHk; eauto.
Qed.

Lemma rle_read_next_no_panic s : rle_read_next s <> Panic.
Proof.
  unfold rle_read_next. destruct (negb (r_pos s =? 0)); [discriminate|].
  destruct (vlq_decode (r_buf s)) as [[ind b1]| | |] eqn:E; cbn [bind]; try discriminate.
  - destruct (N.odd ind); [discriminate|].
    destruct (take_bytes (byte_enc_len (r_w s)) b1) as [[bs b2]| | |] eqn:E2; cbn [bind]; try discriminate.
    exfalso. eapply take_bytes_no_panic; eauto.
  - exfalso. eapply vlq_decode_no_panic; eauto.
Qed.

Lemma rle_go_no_panic tw : forall fuel n s, r_w s <= 64 -> rle_go tw fuel n s <> Panic.
Proof.
  induction fuel as [|f IH]; intros n s Hw; destruct n as [|n]; cbn [rle_go]; try discriminate.
  destruct (0 <? r_rle_left s).
  { match goal with |- context [rle_go tw f ?a ?b] => destruct (rle_go tw f a b) as [[vs s2]| | |] eqn:E end;
      cbn [bind]; try discriminate. exfalso. eapply IH; [|exact E]. exact Hw. }
  destruct (0 <? r_bp_left s).
  { match goal with |- context [bit_unpack ?a ?b ?c ?d ?e] => destruct (bit_unpack a b c d e) as [[[lit b1] p1]| | |] eqn:E end;
      cbn [bind]; try discriminate.
    - match goal with |- context [rle_go tw f ?a ?b] => destruct (rle_go tw f a b) as [[vs s2]| | |] eqn:E2 end;
        cbn [bind]; try discriminate. exfalso. eapply IH; [|exact E2]. exact Hw.
    - exfalso. eapply bit_unpack_no_panic; eauto. }
  destruct (rle_read_next s) as [s1| | |] eqn:E; cbn [bind]; try discriminate.
  - apply IH. unfold rle_read_next in E. destruct (negb (r_pos s =? 0)); [discriminate|].
    destruct (vlq_decode (r_buf s)) as [[ind b1]| | |]; cbn [bind] in E; try discriminate.
    destruct (N.odd ind).
    + inversion E; subst. exact Hw.
    + destruct (take_bytes (byte_enc_len (r_w s)) b1) as [[bs b2]| | |]; cbn [bind] in E; try discriminate.
      inversion E; subst. exact Hw.
  - exfalso. eapply rle_read_next_no_panic; eauto.
Qed.

Theorem rle_read_no_panic tw n s : r_w s <= 64 -> rle_read tw n s <> Panic.
Proof. intros H. apply rle_go_no_panic. exact H. Qed.

(* the out-of-bounds reads (DESIGN row 20), closed witnesses replayed through gv_pq *)
Definition w_oob_vlq : list N := [128].                 (* continuation bit, then the cursor ends *)
Definition w_oob_rle : list N := [2].                   (* RLE run of 1 value, width 8, value byte missing *)
Definition w_oob_unpack : list N := [255].              (* 8 bits for two values of width 5 *)
Definition w_oob_dbp : list N := [128; 1; 4; 5; 2].     (* block 128, 4 miniblocks, 5 values, first 1: no block *)
Definition w_panic_dbp : list N := [128; 1; 0; 5; 2].   (* miniblock count 0: block_size / 0 before 20ef7d280, an error now *)

Lemma w_oob_vlq_oob : vlq_decode w_oob_vlq = OOB.
Proof. reflexivity. Qed.
Lemma w_oob_rle_oob : rle_read 8 1 (rle_new w_oob_rle 8) = OOB.
Proof. vm_compute. reflexivity. Qed.
Lemma w_oob_unpack_oob : bit_unpack 8 5 2 w_oob_unpack 0 = OOB.
Proof. vm_compute. reflexivity. Qed.
Lemma w_oob_dbp_oob : dbp_decode_split 32 w_oob_dbp [5%nat] = OOB.
Proof. vm_compute. reflexivity. Qed.
Lemma w_panic_dbp_panics : dbp_decode_split 32 w_panic_dbp [5%nat] = Err.
Proof. vm_compute. reflexivity. Qed.
Lemma w_panic_width : bit_unpack 8 65 1 [1; 2; 3; 4; 5; 6; 7; 8; 9] 0 = Err.
Proof. reflexivity. Qed.

(* full strength statement for the three helpers and its refutation *)
Definition bits_total_safe : Prop :=
  (forall bs, vlq_decode bs <> OOB) /\
  (forall tw w n buf pos, w <= 64 -> bit_unpack tw w n buf pos <> OOB) /\
  (forall tw n s, r_w s <= 64 -> rle_read tw n s <> OOB).
Theorem bits_total_safe_refuted : ~ bits_total_safe.
Proof.
  intros [H _]. apply (H w_oob_vlq). exact w_oob_vlq_oob.
Qed.
