(* C07: proofs about the aggregate partial-state algebra (model/AggState.v) against the
   specification `agg_apply` of model/Sql.v, and about Sql.v's group_rows / dedup_rows. *)
From Coq Require Import NArith ZArith List Bool Arith Lia Permutation.
From Coq Require Import ZifyBool ZifyNat ZifyN.
From GV Require Import lib.Bytes model.Sql model.AggState.
Import ListNotations.

(* ================================================================== values *)

Definition kind (v : value) : nat :=
  match v with VNull => 0 | VBool _ => 1 | VInt _ => 2 | VStr _ => 3 end.

Lemma val_compare_some a b : a <> VNull -> kind a = kind b -> exists c, val_compare a b = Some c.
Proof. destruct a, b; cbn; intros Hn Hk; try discriminate; try congruence; eauto. Qed.

Lemma val_compare_kind a b c : val_compare a b = Some c -> kind a = kind b /\ a <> VNull /\ b <> VNull.
Proof. destruct a, b; cbn; intros H; try discriminate; repeat split; discriminate. Qed.

Lemma val_compare_refl a : a <> VNull -> val_compare a a = Some Eq.
Proof.
  destruct a as [|b|z|s]; cbn; intros H; try congruence.
  - destruct b; reflexivity. - rewrite Z.compare_refl. reflexivity. - rewrite lex_cmp_refl. reflexivity.
Qed.

Lemma val_compare_eq a b : val_compare a b = Some Eq -> a = b.
Proof.
  destruct a as [|x|x|x], b as [|y|y|y]; cbn; intros H; try discriminate.
  - destruct x, y; try discriminate; reflexivity.
  - inversion H as [H1]. apply Z.compare_eq in H1. subst. reflexivity.
  - inversion H as [H1]. apply lex_cmp_eq_iff in H1. subst. reflexivity.
Qed.

Lemma val_compare_antisym a b c : val_compare a b = Some c -> val_compare b a = Some (CompOpp c).
Proof.
  destruct a as [|x|x|x], b as [|y|y|y]; cbn; intros H; try discriminate; inversion H; subst; f_equal.
  - destruct x, y; reflexivity.
  - apply Z.compare_antisym.
  - apply lex_cmp_antisym.
Qed.

Lemma lex_cmp_le_trans a b c : lex_cmp a b <> Gt -> lex_cmp b c <> Gt -> lex_cmp a c <> Gt.
Proof.
  intros H1 H2.
  destruct (lex_cmp a b) eqn:E1; try congruence; destruct (lex_cmp b c) eqn:E2; try congruence.
  - apply lex_cmp_eq_iff in E1. subst. rewrite E2. discriminate.
  - apply lex_cmp_eq_iff in E1. subst. rewrite E2. discriminate.
  - apply lex_cmp_eq_iff in E2. subst. rewrite E1. discriminate.
  - rewrite (lex_cmp_trans_lt _ _ _ E1 E2). discriminate.
Qed.

(* a <= b in the order of one kind *)
Definition vle (a b : value) : Prop := exists c, val_compare a b = Some c /\ c <> Gt.

Lemma vle_refl a : a <> VNull -> vle a a.
Proof. intros H. exists Eq. rewrite val_compare_refl by exact H. split; [reflexivity|discriminate]. Qed.

Lemma vle_trans a b c : vle a b -> vle b c -> vle a c.
Proof.
  intros (c1 & H1 & N1) (c2 & H2 & N2).
  destruct a as [|x|x|x], b as [|y|y|y]; cbn in H1; try discriminate;
    destruct c as [|z|z|z]; cbn in H2; try discriminate; inversion H1; inversion H2; subst; unfold vle; cbn.
  - eexists; split; [reflexivity|]. destruct x, y, z; cbn in *; congruence.
  - eexists; split; [reflexivity|]. intros E. apply N1. destruct (Z.compare_spec x y); try reflexivity;
      destruct (Z.compare_spec y z); try (exfalso; apply N2; reflexivity);
      destruct (Z.compare_spec x z); try discriminate; lia.
  - eexists; split; [reflexivity|]. apply (lex_cmp_le_trans x y z); assumption.
Qed.

Lemma vle_antisym a b : vle a b -> vle b a -> a = b.
Proof.
  intros (c1 & H1 & N1) (c2 & H2 & N2). apply val_compare_antisym in H1 as H1'.
  rewrite H2 in H1'. inversion H1'; subst. destruct c1; cbn in *; try congruence.
  apply val_compare_eq. exact H1.
Qed.

Lemma val_gt_spec m x b : val_gt m x = Ok b -> if b then vle x m else vle m x.
Proof.
  unfold val_gt. destruct (val_compare m x) as [c|] eqn:E; [|discriminate].
  destruct c; intros H; inversion H; subst.
  - exists Eq. split; [exact E|discriminate].
  - exists Lt. split; [exact E|discriminate].
  - exists Lt. split; [apply (val_compare_antisym _ _ _ E)|discriminate].
Qed.

Lemma val_lt_spec m x b : val_lt m x = Ok b -> if b then vle m x else vle x m.
Proof.
  unfold val_lt. destruct (val_compare m x) as [c|] eqn:E; [|discriminate].
  destruct c; intros H; inversion H; subst.
  - exists Eq. split; [apply (val_compare_antisym _ _ _ E)|discriminate].
  - exists Lt. split; [exact E|discriminate].
  - exists Lt. split; [apply (val_compare_antisym _ _ _ E)|discriminate].
Qed.

Lemma val_gt_total m x : m <> VNull -> kind m = kind x -> exists b, val_gt m x = Ok b.
Proof. intros Hn Hk. unfold val_gt. destruct (val_compare_some m x Hn Hk) as (c & ->). destruct c; eauto. Qed.
Lemma val_lt_total m x : m <> VNull -> kind m = kind x -> exists b, val_lt m x = Ok b.
Proof. intros Hn Hk. unfold val_lt. destruct (val_compare_some m x Hn Hk) as (c & ->). destruct c; eauto. Qed.

(* NULL = NULL semantics: val_same / row_same are Leibniz equality on these values *)
Lemma val_same_eq a b : val_same a b = true <-> a = b.
Proof.
  split.
  - destruct a as [|x|x|x], b as [|y|y|y]; cbn; intros H; try discriminate; try reflexivity.
    + destruct x, y; try discriminate; reflexivity.
    + destruct (Z.compare_spec x y); try discriminate. subst. reflexivity.
    + destruct (lex_cmp x y) eqn:E; try discriminate. apply lex_cmp_eq_iff in E. subst. reflexivity.
  - intros ->. destruct b as [|y|y|y]; cbn; try reflexivity.
    + destruct y; reflexivity. + rewrite Z.compare_refl. reflexivity. + rewrite lex_cmp_refl. reflexivity.
Qed.

Lemma row_same_eq a : forall b, row_same a b = true <-> a = b.
Proof.
  induction a as [|x a IH]; intros [|y b]; cbn; split; intros H; try discriminate; try reflexivity.
  - apply andb_true_iff in H as [H1 H2]. apply val_same_eq in H1. apply IH in H2. subst. reflexivity.
  - inversion H; subst. apply andb_true_iff. split; [apply val_same_eq|apply IH]; reflexivity.
Qed.

Lemma row_same_refl a : row_same a a = true.
Proof. apply row_same_eq. reflexivity. Qed.
Lemma row_same_sym a b : row_same a b = row_same b a.
Proof.
  destruct (row_same a b) eqn:E1, (row_same b a) eqn:E2; try reflexivity.
  - apply row_same_eq in E1. subst. rewrite row_same_refl in E2. discriminate.
  - apply row_same_eq in E2. subst. rewrite row_same_refl in E1. discriminate.
Qed.
Lemma row_same_false a b : row_same a b = false <-> a <> b.
Proof.
  split.
  - intros H E. subst. rewrite row_same_refl in H. discriminate.
  - intros H. destruct (row_same a b) eqn:E; [|reflexivity]. apply row_same_eq in E. contradiction.
Qed.

(* ================================================================== the algebra *)

Definition nn (l : list value) : list value :=
  filter (fun v => match v with VNull => false | _ => true end) l.
(* what the state is fed with *)
Definition inputs (f : aggfn) (l : list value) : list value := nn (map (agg_input f) l).

Fixpoint zsum (l : list value) : Z :=
  match l with [] => 0 | VInt x :: l' => x + zsum l' | _ :: l' => zsum l' end.
Fixpoint abs_sum (l : list value) : Z :=
  match l with [] => 0 | VInt x :: l' => Z.abs x + abs_sum l' | _ :: l' => abs_sum l' end.
Definition nonempty {A} (l : list A) : bool := match l with [] => false | _ => true end.
Definition vand (v : value) : bool := match v with VBool b => b | _ => true end.
Definition vor (v : value) : bool := match v with VBool b => b | _ => false end.

Definition is_min (m : value) (l : list value) : Prop := In m l /\ forall x, In x l -> vle m x.
Definition is_max (m : value) (l : list value) : Prop := In m l /\ forall x, In x l -> vle x m.

(* well-typed input value for f (k = the common kind for min/max) *)
Definition wtv (f : aggfn) (k : nat) (v : value) : Prop :=
  v = VNull \/
  match f with
  | ACountStar | ACount => True
  | ASum => match v with VInt x => in_range 64 x = true | _ => False end
  | AMin | AMax => kind v = k
  | ABoolAnd | ABoolOr => match v with VBool _ => True | _ => False end
  end.
Definition wt (f : aggfn) (l : list value) : Prop := exists k, Forall (wtv f k) l.

(* the state `st` is the state of exactly the multiset L of (non-NULL) inputs *)
Definition R (f : aggfn) (st : astate) (L : list value) : Prop :=
  match f, st with
  | (ACountStar | ACount), StCount c => c = Z.of_nat (length L)
  | ASum, StSum s v => s = zsum L /\ v = nonempty L
  | AMin, StExt m v => if v then is_min m L else L = []
  | AMax, StExt m v => if v then is_max m L else L = []
  | ABoolAnd, StBool r v => r = forallb vand L /\ v = nonempty L
  | ABoolOr, StBool r v => r = existsb vor L /\ v = nonempty L
  | _, _ => False
  end.

Lemma R_init f : R f (agg_init f) [].
Proof. destruct f; cbn; auto. Qed.

Lemma zsum_app a b : zsum (a ++ b) = (zsum a + zsum b)%Z.
Proof. induction a as [|[| | |] a IH]; cbn [zsum app]; lia. Qed.
Lemma abs_sum_app a b : abs_sum (a ++ b) = (abs_sum a + abs_sum b)%Z.
Proof. induction a as [|[| | |] a IH]; cbn [abs_sum app]; lia. Qed.
Lemma abs_sum_nonneg a : (0 <= abs_sum a)%Z.
Proof. induction a as [|[| | |] a IH]; cbn [abs_sum]; lia. Qed.
Lemma zsum_abs a : (Z.abs (zsum a) <= abs_sum a)%Z.
Proof. induction a as [|[| | |] a IH]; cbn [abs_sum zsum]; lia. Qed.
Lemma nonempty_app {A} (a b : list A) : nonempty (a ++ b) = nonempty a || nonempty b.
Proof. destruct a; reflexivity. Qed.
Lemma nonempty_snoc {A} (a : list A) x : nonempty (a ++ [x]) = true.
Proof. destruct a; reflexivity. Qed.

Lemma in_range64 z : in_range 64 z = true <-> (- 2 ^ 63 <= z < 2 ^ 63)%Z.
Proof. unfold in_range. change (Z.of_N 64 - 1)%Z with 63%Z. lia. Qed.

(* ---- update *)
Lemma update_R f k st L x st' :
  R f st L -> x <> VNull -> wtv f k x -> agg_update f st x = Ok st' -> R f st' (L ++ [x]).
Proof.
  intros HR Hx Hw Hu. destruct Hw as [->|Hw]; [congruence|].
  destruct f, st; cbn in HR; try contradiction; cbn in Hu.
  - inversion Hu; subst. cbn. rewrite app_length. cbn [length]. lia.
  - inversion Hu; subst. cbn. rewrite app_length. cbn [length]. lia.
  - destruct x as [| |z|]; try contradiction. destruct (in_range 64 (sum + z)); inversion Hu; subst.
    destruct HR as [-> ->]. cbn. rewrite zsum_app, nonempty_snoc. cbn. split; [lia|reflexivity].
  - destruct valid; cbn in Hu.
    + destruct (val_gt m x) as [g|] eqn:Eg; cbn in Hu; inversion Hu; subst. apply val_gt_spec in Eg.
      destruct HR as [Hin Hall]. cbn. destruct g.
      * split; [apply in_or_app; right; left; reflexivity|].
        intros y Hy. apply in_app_or in Hy as [Hy|[<-|[]]].
        -- eapply vle_trans; [exact Eg|]. apply Hall. exact Hy.
        -- apply vle_refl. exact Hx.
      * split; [apply in_or_app; left; exact Hin|].
        intros y Hy. apply in_app_or in Hy as [Hy|[<-|[]]]; [apply Hall; exact Hy|exact Eg].
    + inversion Hu; subst. cbn. split; [left; reflexivity|].
      intros y [<-|[]]. apply vle_refl. exact Hx.
  - destruct valid; cbn in Hu.
    + destruct (val_lt m x) as [g|] eqn:Eg; cbn in Hu; inversion Hu; subst. apply val_lt_spec in Eg.
      destruct HR as [Hin Hall]. cbn. destruct g.
      * split; [apply in_or_app; right; left; reflexivity|].
        intros y Hy. apply in_app_or in Hy as [Hy|[<-|[]]].
        -- eapply vle_trans; [|exact Eg]. apply Hall. exact Hy.
        -- apply vle_refl. exact Hx.
      * split; [apply in_or_app; left; exact Hin|].
        intros y Hy. apply in_app_or in Hy as [Hy|[<-|[]]]; [apply Hall; exact Hy|exact Eg].
    + inversion Hu; subst. cbn. split; [left; reflexivity|].
      intros y [<-|[]]. apply vle_refl. exact Hx.
  - destruct x as [|b| |]; try contradiction. inversion Hu; subst. destruct HR as [-> ->].
    cbn. rewrite forallb_app, nonempty_snoc. cbn. rewrite andb_true_r. auto.
  - destruct x as [|b| |]; try contradiction. inversion Hu; subst. destruct HR as [-> ->].
    cbn. rewrite existsb_app, nonempty_snoc. cbn. rewrite orb_false_r. auto.
Qed.

(* kinds of the members, needed for totality of min/max *)
Definition kinds (f : aggfn) (k : nat) (L : list value) : Prop :=
  Forall (fun v => v <> VNull /\ wtv f k v) L.

Lemma update_total f k st L x :
  f <> ASum -> R f st L -> kinds f k L -> x <> VNull -> wtv f k x -> exists st', agg_update f st x = Ok st'.
Proof.
  intros Hf HR HK Hx Hw. destruct Hw as [->|Hw]; [congruence|].
  destruct f, st; cbn in HR; try contradiction; try congruence; cbn.
  - eauto. - eauto.
  - destruct valid; cbn; [|eauto]. destruct HR as [Hin _].
    unfold kinds in HK. rewrite Forall_forall in HK. destruct (HK _ Hin) as [Hm [->|Hkm]]; [congruence|].
    destruct (val_gt_total m x Hm ltac:(cbn in *; congruence)) as (g & ->). cbn. eauto.
  - destruct valid; cbn; [|eauto]. destruct HR as [Hin _].
    unfold kinds in HK. rewrite Forall_forall in HK. destruct (HK _ Hin) as [Hm [->|Hkm]]; [congruence|].
    destruct (val_lt_total m x Hm ltac:(cbn in *; congruence)) as (g & ->). cbn. eauto.
  - destruct x; try contradiction. eauto.
  - destruct x; try contradiction. eauto.
Qed.

(* ---- merge *)
Lemma merge_R f a b L1 L2 c :
  R f a L1 -> R f b L2 -> agg_merge f a b = Ok c -> R f c (L1 ++ L2).
Proof.
  intros Ha Hb Hm.
  destruct f, a; cbn in Ha; try contradiction; destruct b; cbn in Hb; try contradiction; cbn in Hm.
  - inversion Hm; subst. cbn. rewrite app_length. lia.
  - inversion Hm; subst. cbn. rewrite app_length. lia.
  - destruct (in_range 64 (sum + sum0)); inversion Hm; subst. destruct Ha as [-> ->], Hb as [-> ->].
    cbn. rewrite zsum_app, nonempty_app. auto.
  - destruct valid; cbn in Hm.
    + destruct valid0; cbn in Hm.
      * destruct (val_gt m m0) as [g|] eqn:Eg; cbn in Hm; inversion Hm; subst. apply val_gt_spec in Eg.
        destruct Ha as [Hin1 Hall1], Hb as [Hin2 Hall2]. cbn. destruct g.
        -- split; [apply in_or_app; right; exact Hin2|].
           intros y Hy. apply in_app_or in Hy as [Hy|Hy]; [|apply Hall2; exact Hy].
           eapply vle_trans; [exact Eg|apply Hall1; exact Hy].
        -- split; [apply in_or_app; left; exact Hin1|].
           intros y Hy. apply in_app_or in Hy as [Hy|Hy]; [apply Hall1; exact Hy|].
           eapply vle_trans; [exact Eg|apply Hall2; exact Hy].
      * inversion Hm; subst. rewrite app_nil_r. exact Ha.
    + inversion Hm; subst. exact Hb.
  - destruct valid; cbn in Hm.
    + destruct valid0; cbn in Hm.
      * destruct (val_lt m m0) as [g|] eqn:Eg; cbn in Hm; inversion Hm; subst. apply val_lt_spec in Eg.
        destruct Ha as [Hin1 Hall1], Hb as [Hin2 Hall2]. cbn. destruct g.
        -- split; [apply in_or_app; right; exact Hin2|].
           intros y Hy. apply in_app_or in Hy as [Hy|Hy]; [|apply Hall2; exact Hy].
           eapply vle_trans; [apply Hall1; exact Hy|exact Eg].
        -- split; [apply in_or_app; left; exact Hin1|].
           intros y Hy. apply in_app_or in Hy as [Hy|Hy]; [apply Hall1; exact Hy|].
           eapply vle_trans; [apply Hall2; exact Hy|exact Eg].
      * inversion Hm; subst. rewrite app_nil_r. exact Ha.
    + inversion Hm; subst. exact Hb.
  - inversion Hm; subst. destruct Ha as [-> ->], Hb as [-> ->]. cbn. rewrite forallb_app, nonempty_app. auto.
  - inversion Hm; subst. destruct Ha as [-> ->], Hb as [-> ->]. cbn. rewrite existsb_app, nonempty_app. auto.
Qed.

Lemma merge_total f k a b L1 L2 :
  f <> ASum -> R f a L1 -> R f b L2 -> kinds f k L1 -> kinds f k L2 -> exists c, agg_merge f a b = Ok c.
Proof.
  intros Hf Ha Hb K1 K2.
  destruct f, a; cbn in Ha; try contradiction; destruct b; cbn in Hb; try contradiction; try congruence; cbn; eauto.
  - destruct valid; cbn; [|eauto]. destruct valid0; cbn; [|eauto].
    destruct Ha as [Hin1 _], Hb as [Hin2 _]. unfold kinds in K1, K2. rewrite Forall_forall in K1, K2.
    destruct (K1 _ Hin1) as [Hm [->|Hk1]]; [congruence|]. destruct (K2 _ Hin2) as [Hm0 [->|Hk2]]; [congruence|].
    destruct (val_gt_total m m0 Hm ltac:(cbn in *; congruence)) as (g & ->). cbn. eauto.
  - destruct valid; cbn; [|eauto]. destruct valid0; cbn; [|eauto].
    destruct Ha as [Hin1 _], Hb as [Hin2 _]. unfold kinds in K1, K2. rewrite Forall_forall in K1, K2.
    destruct (K1 _ Hin1) as [Hm [->|Hk1]]; [congruence|]. destruct (K2 _ Hin2) as [Hm0 [->|Hk2]]; [congruence|].
    destruct (val_lt_total m m0 Hm ltac:(cbn in *; congruence)) as (g & ->). cbn. eauto.
Qed.

(* ---- a state determines its finalized value from the multiset alone *)
Lemma zsum_perm a b : Permutation a b -> zsum a = zsum b.
Proof. induction 1 as [|x l l' _ IH|x y l|l l' l'' _ IH1 _ IH2]; cbn [zsum]; try destruct x; try destruct y; lia. Qed.
Lemma abs_sum_perm a b : Permutation a b -> abs_sum a = abs_sum b.
Proof. induction 1 as [|x l l' _ IH|x y l|l l' l'' _ IH1 _ IH2]; cbn [abs_sum]; try destruct x; try destruct y; lia. Qed.
Lemma nonempty_perm {A} (a b : list A) : Permutation a b -> nonempty a = nonempty b.
Proof. intros H. apply Permutation_length in H. destruct a, b; cbn in *; try reflexivity; discriminate. Qed.
Lemma forallb_perm {A} (p : A -> bool) a b : Permutation a b -> forallb p a = forallb p b.
Proof.
  induction 1 as [|x l l' _ IH|x y l|l l' l'' _ IH1 _ IH2]; cbn [forallb]; try congruence.
  destruct (p x), (p y); reflexivity.
Qed.
Lemma existsb_perm {A} (p : A -> bool) a b : Permutation a b -> existsb p a = existsb p b.
Proof.
  induction 1 as [|x l l' _ IH|x y l|l l' l'' _ IH1 _ IH2]; cbn [existsb]; try congruence.
  destruct (p x), (p y); reflexivity.
Qed.

Lemma R_unique f st st' L L' :
  R f st L -> R f st' L' -> Permutation L L' -> agg_finalize st = agg_finalize st'.
Proof.
  intros H1 H2 HP.
  destruct f, st; cbn in H1; try contradiction; destruct st'; cbn in H2; try contradiction; cbn.
  - subst. rewrite (Permutation_length HP). reflexivity.
  - subst. rewrite (Permutation_length HP). reflexivity.
  - destruct H1 as [-> ->], H2 as [-> ->]. rewrite (zsum_perm _ _ HP), (nonempty_perm _ _ HP). reflexivity.
  - destruct valid, valid0; try reflexivity.
    + destruct H1 as [Hi1 Ha1], H2 as [Hi2 Ha2]. apply vle_antisym.
      * apply Ha1. eapply Permutation_in; [symmetry; exact HP|exact Hi2].
      * apply Ha2. eapply Permutation_in; [exact HP|exact Hi1].
    + subst L'. apply Permutation_sym, Permutation_nil in HP. subst. destruct H1 as [[] _].
    + subst L. apply Permutation_nil in HP. subst. destruct H2 as [[] _].
  - destruct valid, valid0; try reflexivity.
    + destruct H1 as [Hi1 Ha1], H2 as [Hi2 Ha2]. apply vle_antisym.
      * apply Ha2. eapply Permutation_in; [exact HP|exact Hi1].
      * apply Ha1. eapply Permutation_in; [symmetry; exact HP|exact Hi2].
    + subst L'. apply Permutation_sym, Permutation_nil in HP. subst. destruct H1 as [[] _].
    + subst L. apply Permutation_nil in HP. subst. destruct H2 as [[] _].
  - destruct H1 as [-> ->], H2 as [-> ->]. rewrite (forallb_perm _ _ _ HP), (nonempty_perm _ _ HP). reflexivity.
  - destruct H1 as [-> ->], H2 as [-> ->]. rewrite (existsb_perm _ _ _ HP), (nonempty_perm _ _ HP). reflexivity.
Qed.

(* ================================================================== folds *)

Lemma fold_bind_err {A B} (h : A -> B -> res A) l e :
  fold_left (fun acc x => do s <- acc; h s x) l (Err e) = Err e.
Proof. induction l as [|x l IH]; cbn [fold_left bind]; [reflexivity|exact IH]. Qed.

Lemma foldM_cons {A B} (h : A -> B -> res A) x l a :
  foldM h (x :: l) a = match h a x with Ok a' => foldM h l a' | Err e => Err e end.
Proof.
  unfold foldM. cbn [fold_left bind]. destruct (h a x) as [a'|e]; [reflexivity|apply fold_bind_err].
Qed.

Lemma foldM_nil {A B} (h : A -> B -> res A) a : foldM h [] a = Ok a.
Proof. reflexivity. Qed.

Lemma foldM_app {A B} (h : A -> B -> res A) l1 l2 a :
  foldM h (l1 ++ l2) a = match foldM h l1 a with Ok a' => foldM h l2 a' | Err e => Err e end.
Proof.
  revert a. induction l1 as [|x l1 IH]; intros a; cbn [app].
  - reflexivity.
  - rewrite !foldM_cons. destruct (h a x) as [a'|e]; [apply IH|reflexivity].
Qed.

Lemma nn_app a b : nn (a ++ b) = nn a ++ nn b.
Proof. unfold nn. apply filter_app. Qed.
Lemma inputs_app f a b : inputs f (a ++ b) = inputs f a ++ inputs f b.
Proof. unfold inputs. rewrite map_app. apply nn_app. Qed.
Lemma inputs_concat f parts : inputs f (concat parts) = concat (map (inputs f) parts).
Proof. induction parts as [|p parts IH]; cbn [concat map]; [reflexivity|]. rewrite inputs_app, IH. reflexivity. Qed.
Lemma inputs_perm f a b : Permutation a b -> Permutation (inputs f a) (inputs f b).
Proof.
  intros H. unfold inputs, nn. apply Permutation_map with (f := agg_input f) in H.
  induction H as [|x l l' _ IH|x y l|l l' l'' _ IH1 _ IH2]; cbn [filter].
  - constructor.
  - destruct x; try (apply perm_skip); exact IH.
  - destruct x, y; try reflexivity; try apply perm_swap.
  - etransitivity; eassumption.
Qed.
Lemma inputs_nn f l : f <> ACountStar -> inputs f l = nn l.
Proof. intros Hf. unfold inputs. replace (map (agg_input f) l) with l; [reflexivity|]. destruct f; try congruence; cbn; symmetry; apply map_id. Qed.

Lemma nn_nonnull l : Forall (fun v => v <> VNull) (nn l).
Proof. unfold nn. apply Forall_forall. intros x Hx. apply filter_In in Hx as [_ Hx]. destruct x; [discriminate|discriminate|discriminate|discriminate]. Qed.

Lemma wtv_input f k v : wtv f k v -> wtv f k (agg_input f v).
Proof. destruct f; cbn; auto. intros _. right. exact I. Qed.

Lemma inputs_kinds f k l : Forall (wtv f k) l -> kinds f k (inputs f l).
Proof.
  intros H. unfold kinds, inputs. apply Forall_forall. intros x Hx.
  unfold nn in Hx. apply filter_In in Hx as [Hx1 Hx2]. apply in_map_iff in Hx1 as (y & <- & Hy).
  split; [destruct (agg_input f y); discriminate|].
  apply wtv_input. rewrite Forall_forall in H. apply H. exact Hy.
Qed.

Lemma kinds_app f k a b : kinds f k a -> kinds f k b -> kinds f k (a ++ b).
Proof. apply Forall_app_intro || (intros; apply Forall_app; split; assumption). Qed.

(* feeding = updating with the non-NULL inputs *)
Lemma feed_inputs f l : forall st, foldM (agg_feed f) l st = foldM (agg_update f) (inputs f l) st.
Proof.
  induction l as [|v l IH]; intros st; [reflexivity|].
  rewrite foldM_cons. unfold inputs in *. cbn [map nn filter]. unfold agg_feed at 1.
  destruct (agg_input f v) eqn:E; try (rewrite foldM_cons; destruct (agg_update f st _); [apply IH|reflexivity]).
  apply IH.
Qed.

Lemma updates_R f k : forall L st L0 st',
  R f st L0 -> Forall (fun v => v <> VNull /\ wtv f k v) L ->
  foldM (agg_update f) L st = Ok st' -> R f st' (L0 ++ L).
Proof.
  induction L as [|x L IH]; intros st L0 st' HR HW HF.
  - cbn in HF. inversion HF; subst. rewrite app_nil_r. exact HR.
  - rewrite foldM_cons in HF. destruct (agg_update f st x) as [st1|] eqn:E; [|discriminate].
    inversion HW as [|? ? [Hx Hw] HW']; subst.
    replace (L0 ++ x :: L) with ((L0 ++ [x]) ++ L) by (rewrite <- app_assoc; reflexivity).
    eapply IH; [|exact HW'|exact HF]. eapply update_R; eassumption.
Qed.

Lemma updates_total f k : f <> ASum -> forall L st L0,
  R f st L0 -> kinds f k L0 -> kinds f k L -> exists st', foldM (agg_update f) L st = Ok st'.
Proof.
  intros Hf. induction L as [|x L IH]; intros st L0 HR HK0 HK.
  - exists st. reflexivity.
  - inversion HK as [|? ? [Hx Hw] HK']; subst. rewrite foldM_cons.
    destruct (update_total f k st L0 x Hf HR HK0 Hx Hw) as (st1 & E). rewrite E.
    apply (IH st1 (L0 ++ [x])); [eapply update_R; eassumption| |exact HK'].
    apply Forall_app. split; [exact HK0|]. constructor; [split; assumption|constructor].
Qed.

Lemma part_state_R f k l st :
  Forall (wtv f k) l -> part_state f l = Ok st -> R f st (inputs f l).
Proof.
  intros HW HP. unfold part_state in HP. rewrite feed_inputs in HP.
  change (inputs f l) with ([] ++ inputs f l).
  eapply updates_R; [apply R_init|apply (inputs_kinds f k l HW)|exact HP].
Qed.

Lemma part_state_total f k l : f <> ASum -> Forall (wtv f k) l -> exists st, part_state f l = Ok st.
Proof.
  intros Hf HW. unfold part_state. rewrite feed_inputs.
  apply (updates_total f k Hf (inputs f l) (agg_init f) []); [apply R_init|constructor|apply inputs_kinds; exact HW].
Qed.

Lemma merges_R f : forall sts Ls m0 L0 m,
  R f m0 L0 -> Forall2 (R f) sts Ls -> foldM (agg_merge f) sts m0 = Ok m -> R f m (L0 ++ concat Ls).
Proof.
  induction sts as [|s sts IH]; intros Ls m0 L0 m H0 H2 HF; inversion H2; subst.
  - cbn in HF. inversion HF; subst. cbn. rewrite app_nil_r. exact H0.
  - rewrite foldM_cons in HF. destruct (agg_merge f m0 s) as [m1|] eqn:E; [|discriminate].
    cbn [concat]. rewrite app_assoc. eapply IH; [|eassumption|exact HF].
    eapply merge_R; eassumption.
Qed.

Lemma merges_total f k : f <> ASum -> forall sts Ls m0 L0,
  R f m0 L0 -> kinds f k L0 -> Forall2 (R f) sts Ls -> Forall (kinds f k) Ls ->
  exists m, foldM (agg_merge f) sts m0 = Ok m.
Proof.
  intros Hf. induction sts as [|s sts IH]; intros Ls m0 L0 H0 K0 H2 HK; inversion H2; subst.
  - exists m0. reflexivity.
  - inversion HK; subst. rewrite foldM_cons.
    destruct (merge_total f k m0 s L0 y Hf H0 ltac:(assumption) K0 ltac:(assumption)) as (m1 & E). rewrite E.
    eapply (IH l' m1 (L0 ++ y)); [eapply merge_R; eassumption| |assumption|assumption].
    apply Forall_app. split; assumption.
Qed.

Lemma mapM_part_states f k : forall parts sts,
  Forall (Forall (wtv f k)) parts -> mapM (part_state f) parts = Ok sts ->
  Forall2 (R f) sts (map (inputs f) parts).
Proof.
  induction parts as [|p parts IH]; intros sts HW HM; cbn [mapM] in HM.
  - inversion HM. constructor.
  - inversion HW; subst. destruct (part_state f p) as [s|] eqn:E; [|discriminate]. cbn [bind] in HM.
    destruct (mapM (part_state f) parts) as [ss|] eqn:E2; [|discriminate]. cbn [bind] in HM.
    inversion HM; subst. cbn [map]. constructor; [eapply part_state_R; eassumption|apply IH; auto].
Qed.

Lemma mapM_part_states_total f k : f <> ASum -> forall parts,
  Forall (Forall (wtv f k)) parts -> exists sts, mapM (part_state f) parts = Ok sts.
Proof.
  intros Hf. induction parts as [|p parts IH]; intros HW; cbn [mapM].
  - eauto.
  - inversion HW; subst. destruct (part_state_total f k p Hf ltac:(assumption)) as (s & ->).
    destruct (IH ltac:(assumption)) as (ss & ->). cbn. eauto.
Qed.

Lemma Forall_concat_inv {A} (P : A -> Prop) (ls : list (list A)) : Forall P (concat ls) -> Forall (Forall P) ls.
Proof.
  induction ls as [|l ls IH]; cbn [concat]; intros H; [constructor|].
  apply Forall_app in H as [H1 H2]. constructor; [exact H1|apply IH; exact H2].
Qed.

(* what the implementation computes, whenever it does not report an error *)
Lemma agg_parts_R f k parts v :
  Forall (wtv f k) (concat parts) -> agg_parts f parts = Ok v ->
  exists m, R f m (inputs f (concat parts)) /\ v = agg_finalize m.
Proof.
  intros HW HA. unfold agg_parts in HA.
  destruct (mapM (part_state f) parts) as [sts|] eqn:E1; [|discriminate]. cbn [bind] in HA.
  destruct (foldM (agg_merge f) sts (agg_init f)) as [m|] eqn:E2; [|discriminate]. cbn [bind] in HA.
  inversion HA; subst. exists m. split; [|reflexivity].
  rewrite inputs_concat. change (concat (map (inputs f) parts)) with ([] ++ concat (map (inputs f) parts)).
  eapply merges_R; [apply R_init| |exact E2].
  eapply mapM_part_states; [apply Forall_concat_inv; exact HW|exact E1].
Qed.

Lemma agg_parts_total f k parts :
  f <> ASum -> Forall (wtv f k) (concat parts) -> exists v, agg_parts f parts = Ok v.
Proof.
  intros Hf HW. unfold agg_parts. apply Forall_concat_inv in HW.
  destruct (mapM_part_states_total f k Hf parts HW) as (sts & E1). rewrite E1. cbn [bind].
  destruct (merges_total f k Hf sts (map (inputs f) parts) (agg_init f) []) as (m & E2).
  - apply R_init. - constructor. - eapply mapM_part_states; eassumption.
  - apply Forall_forall. intros L HL. apply in_map_iff in HL as (p & <- & Hp).
    apply inputs_kinds. rewrite Forall_forall in HW. apply HW. exact Hp.
  - rewrite E2. cbn. eauto.
Qed.

(* ================================================================== the specification is the single-partition run *)

Definition agree {A B} (sim : A -> B -> Prop) (x : res A) (y : res B) : Prop :=
  match x, y with Ok a, Ok b => sim a b | Err e, Err e' => e = e' | _, _ => False end.

Lemma foldM_sim {A B C} (h : A -> C -> res A) (g : B -> C -> res B) (sim : A -> B -> Prop) (P : C -> Prop) :
  (forall a b c, sim a b -> P c -> agree sim (h a c) (g b c)) ->
  forall l a b, sim a b -> Forall P l -> agree sim (foldM h l a) (foldM g l b).
Proof.
  intros Hstep. induction l as [|c l IH]; intros a b Hs HP.
  - exact Hs.
  - inversion HP; subst. rewrite !foldM_cons. specialize (Hstep a b c Hs ltac:(assumption)).
    unfold agree in Hstep. destruct (h a c), (g b c); try contradiction; [apply IH; assumption|exact Hstep].
Qed.

Lemma agree_bind (x : res value) (y : res astate) :
  agree (fun a s => a = agg_finalize s) x y -> x = (do s <- y; Ok (agg_finalize s)).
Proof. unfold agree. destruct x, y; cbn; intros H; try contradiction; congruence. Qed.

Lemma count_star_state l : forall c, foldM (agg_feed ACountStar) l (StCount c) = Ok (StCount (c + Z.of_nat (length l))).
Proof.
  induction l as [|v l IH]; intros c.
  - cbn. f_equal. f_equal. lia.
  - rewrite foldM_cons. cbn [agg_feed agg_input agg_update]. rewrite IH. f_equal. f_equal. cbn [length]. lia.
Qed.
Lemma count_state l : forall c, foldM (agg_feed ACount) l (StCount c) = Ok (StCount (c + Z.of_nat (length (nn l)))).
Proof.
  induction l as [|v l IH]; intros c.
  - cbn. f_equal. f_equal. lia.
  - rewrite foldM_cons. unfold agg_feed. cbn [agg_input].
    destruct v; cbn [agg_update nn filter]; rewrite IH; f_equal; f_equal; cbn [length]; fold (nn l); lia.
Qed.

Lemma wt_nn_sum k xs : Forall (wtv ASum k) xs -> Forall (fun c => exists x, c = VInt x /\ in_range 64 x = true) (nn xs).
Proof.
  intros H. apply Forall_forall. intros c Hc. unfold nn in Hc. apply filter_In in Hc as [Hc1 Hc2].
  rewrite Forall_forall in H. destruct (H c Hc1) as [->|Hw]; [discriminate|].
  cbn in Hw. destruct c; try contradiction. eauto.
Qed.
Lemma wt_nn_bool f k xs : f = ABoolAnd \/ f = ABoolOr -> Forall (wtv f k) xs -> Forall (fun c => exists b, c = VBool b) (nn xs).
Proof.
  intros Hf H. apply Forall_forall. intros c Hc. unfold nn in Hc. apply filter_In in Hc as [Hc1 Hc2].
  rewrite Forall_forall in H. destruct (H c Hc1) as [->|Hw]; [discriminate|].
  destruct Hf as [-> | ->]; cbn in Hw; destruct c; try contradiction; eauto.
Qed.

Lemma val_compare_none a b : val_compare a b = None -> val_compare b a = None.
Proof.
  intros H. destruct (val_compare b a) as [c|] eqn:E; [|reflexivity].
  apply val_compare_antisym in E. congruence.
Qed.

Theorem spec_is_single_partition f xs :
  wt f xs -> agg_apply f false (length xs) xs = (do s <- part_state f xs; Ok (agg_finalize s)).
Proof.
  intros [k HW]. unfold agg_apply, agg_values. fold (nn xs). unfold part_state.
  destruct f; cbn [agg_init].
  - rewrite count_star_state. reflexivity.
  - rewrite count_state. reflexivity.
  - (* sum *)
    rewrite feed_inputs, inputs_nn by discriminate. apply agree_bind.
    change (sum_ints (nn xs)) with
      (foldM (fun a v => match a, v with
                         | VNull, VInt x => Ok (VInt x)
                         | VInt s, VInt x => if in_range 64 (s + x) then Ok (VInt (s + x)) else Err EOverflow
                         | _, _ => Err EType end) (nn xs) VNull).
    pose (sim := fun (a : value) (st : astate) =>
      exists s valid, st = StSum s valid /\ a = (if valid then VInt s else VNull) /\ (valid = false -> s = 0%Z)).
    assert (Hag : agree sim
       (foldM (fun a v => match a, v with
                         | VNull, VInt x => Ok (VInt x)
                         | VInt s, VInt x => if in_range 64 (s + x) then Ok (VInt (s + x)) else Err EOverflow
                         | _, _ => Err EType end) (nn xs) VNull)
       (foldM (agg_update ASum) (nn xs) (StSum 0 false))).
    { apply foldM_sim with (P := fun c => exists x, c = VInt x /\ in_range 64 x = true).
      - intros a b c (s & valid & -> & -> & H0) (x & -> & Hx). unfold agree. cbn [agg_update].
        destruct valid.
        + destruct (in_range 64 (s + x)); [|reflexivity]. exists (s + x)%Z, true. repeat split; discriminate.
        + rewrite (H0 eq_refl). rewrite Z.add_0_l, Hx. exists x, true. repeat split; discriminate.
      - exists 0%Z, false. auto.
      - eapply wt_nn_sum; exact HW. }
    unfold agree in *. destruct (foldM _ (nn xs) VNull), (foldM (agg_update ASum) (nn xs) (StSum 0 false)); try contradiction; try exact Hag.
    destruct Hag as (s & valid & -> & -> & _). reflexivity.
  - (* min *)
    rewrite feed_inputs, inputs_nn by discriminate. apply agree_bind.
    unfold extremum.
    match goal with |- agree _ (fold_left ?F _ _) _ =>
      change (fold_left F (nn xs) (Ok VNull)) with
        (foldM (fun a v => match a with
                           | VNull => Ok v
                           | _ => match val_compare v a with
                                  | Some c => Ok (if match c, Lt with Lt, Lt | Gt, Gt => true | _, _ => false end then v else a)
                                  | None => Err EType end end) (nn xs) VNull) end.
    pose (sim := fun (a : value) (st : astate) =>
      exists m valid, st = StExt m valid /\ a = (if valid then m else VNull) /\ (valid = true -> m <> VNull)).
    match goal with |- agree _ ?X ?Y => assert (Hag : agree sim X Y) end.
    { apply foldM_sim with (P := fun c => c <> VNull).
      - intros a b c (m & valid & -> & -> & Hm) Hc. unfold agree. cbn [agg_update].
        destruct valid; cbn [negb].
        + specialize (Hm eq_refl). unfold val_gt.
          destruct (val_compare c m) as [cmp|] eqn:E.
          * rewrite (val_compare_antisym _ _ _ E).
            destruct m; try congruence; destruct cmp; cbn; eexists _, true; repeat split; try reflexivity; intros _; assumption.
          * rewrite (val_compare_none _ _ E). destruct m; try congruence; reflexivity.
        + exists c, true. repeat split. intros _. exact Hc.
      - exists VNull, false. repeat split. discriminate.
      - apply nn_nonnull. }
    unfold agree in *. match goal with |- match ?X with _ => _ end => destruct X end;
      match goal with |- match ?Y with _ => _ end => destruct Y end; try contradiction; try exact Hag.
    destruct Hag as (m & valid & -> & -> & _). reflexivity.
  - (* max *)
    rewrite feed_inputs, inputs_nn by discriminate. apply agree_bind.
    unfold extremum.
    match goal with |- agree _ (fold_left ?F _ _) _ =>
      change (fold_left F (nn xs) (Ok VNull)) with
        (foldM (fun a v => match a with
                           | VNull => Ok v
                           | _ => match val_compare v a with
                                  | Some c => Ok (if match c, Gt with Lt, Lt | Gt, Gt => true | _, _ => false end then v else a)
                                  | None => Err EType end end) (nn xs) VNull) end.
    pose (sim := fun (a : value) (st : astate) =>
      exists m valid, st = StExt m valid /\ a = (if valid then m else VNull) /\ (valid = true -> m <> VNull)).
    match goal with |- agree _ ?X ?Y => assert (Hag : agree sim X Y) end.
    { apply foldM_sim with (P := fun c => c <> VNull).
      - intros a b c (m & valid & -> & -> & Hm) Hc. unfold agree. cbn [agg_update].
        destruct valid; cbn [negb].
        + specialize (Hm eq_refl). unfold val_lt.
          destruct (val_compare c m) as [cmp|] eqn:E.
          * rewrite (val_compare_antisym _ _ _ E).
            destruct m; try congruence; destruct cmp; cbn; eexists _, true; repeat split; try reflexivity; intros _; assumption.
          * rewrite (val_compare_none _ _ E). destruct m; try congruence; reflexivity.
        + exists c, true. repeat split. intros _. exact Hc.
      - exists VNull, false. repeat split. discriminate.
      - apply nn_nonnull. }
    unfold agree in *. match goal with |- match ?X with _ => _ end => destruct X end;
      match goal with |- match ?Y with _ => _ end => destruct Y end; try contradiction; try exact Hag.
    destruct Hag as (m & valid & -> & -> & _). reflexivity.
  - (* bool_and *)
    rewrite feed_inputs, inputs_nn by discriminate. apply agree_bind.
    unfold bool_fold.
    match goal with |- agree _ (fold_left ?F _ _) _ =>
      change (fold_left F (nn xs) (Ok VNull)) with
        (foldM (fun a v => match a, v with
                           | VNull, VBool b => Ok (VBool b)
                           | VBool x, VBool b => Ok (VBool (if true then andb x b else orb x b))
                           | _, _ => Err EType end) (nn xs) VNull) end.
    pose (sim := fun (a : value) (st : astate) =>
      exists r valid, st = StBool r valid /\ a = (if valid then VBool r else VNull) /\ (valid = false -> r = true)).
    match goal with |- agree _ ?X ?Y => assert (Hag : agree sim X Y) end.
    { apply foldM_sim with (P := fun c => exists b, c = VBool b).
      - intros a b c (r & valid & -> & -> & Hr) (b0 & ->). unfold agree. cbn [agg_update].
        destruct valid.
        + exists (r && b0), true. repeat split. discriminate.
        + rewrite (Hr eq_refl). exists b0, true. repeat split. discriminate.
      - exists true, false. auto.
      - eapply wt_nn_bool; [left; reflexivity|exact HW]. }
    unfold agree in *. match goal with |- match ?X with _ => _ end => destruct X end;
      match goal with |- match ?Y with _ => _ end => destruct Y end; try contradiction; try exact Hag.
    destruct Hag as (m & valid & -> & -> & _). reflexivity.
  - (* bool_or *)
    rewrite feed_inputs, inputs_nn by discriminate. apply agree_bind.
    unfold bool_fold.
    match goal with |- agree _ (fold_left ?F _ _) _ =>
      change (fold_left F (nn xs) (Ok VNull)) with
        (foldM (fun a v => match a, v with
                           | VNull, VBool b => Ok (VBool b)
                           | VBool x, VBool b => Ok (VBool (if false then andb x b else orb x b))
                           | _, _ => Err EType end) (nn xs) VNull) end.
    pose (sim := fun (a : value) (st : astate) =>
      exists r valid, st = StBool r valid /\ a = (if valid then VBool r else VNull) /\ (valid = false -> r = false)).
    match goal with |- agree _ ?X ?Y => assert (Hag : agree sim X Y) end.
    { apply foldM_sim with (P := fun c => exists b, c = VBool b).
      - intros a b c (r & valid & -> & -> & Hr) (b0 & ->). unfold agree. cbn [agg_update].
        destruct valid.
        + exists (r || b0), true. repeat split. discriminate.
        + rewrite (Hr eq_refl). exists b0, true. repeat split. discriminate.
      - exists false, false. auto.
      - eapply wt_nn_bool; [right; reflexivity|exact HW]. }
    unfold agree in *. match goal with |- match ?X with _ => _ end => destruct X end;
      match goal with |- match ?Y with _ => _ end => destruct Y end; try contradiction; try exact Hag.
    destruct Hag as (m & valid & -> & -> & _). reflexivity.
Qed.

(* ================================================================== main theorems about the algebra *)

Lemma wt_perm f a b : Permutation a b -> wt f a -> wt f b.
Proof. intros HP [k H]. exists k. eapply Permutation_Forall; eassumption. Qed.

(* whenever both the implementation (any split, any order) and the specification produce a value,
   it is the same value: a split can never produce a WRONG aggregate *)
Theorem agg_never_wrong : forall f parts xs v w,
  wt f xs -> Permutation (concat parts) xs ->
  agg_parts f parts = Ok v -> agg_apply f false (length xs) xs = Ok w -> v = w.
Proof.
  intros f parts xs v w HW HP HA HS. destruct HW as [k HW].
  assert (HWc : Forall (wtv f k) (concat parts)) by (eapply Permutation_Forall; [symmetry; exact HP|exact HW]).
  destruct (agg_parts_R f k parts v HWc HA) as (m & HR & ->).
  rewrite spec_is_single_partition in HS by (exists k; exact HW).
  destruct (part_state f xs) as [st|] eqn:E; [|discriminate]. cbn in HS. inversion HS; subst.
  eapply R_unique; [exact HR|exact (part_state_R f k xs st HW E)|apply inputs_perm; exact HP].
Qed.

(* (1) split invariance, all aggregates except SUM: exact equality, no hypothesis beyond typing *)
Theorem agg_split_invariant : forall f parts xs,
  f <> ASum -> wt f xs -> Permutation (concat parts) xs ->
  agg_parts f parts = agg_apply f false (length xs) xs.
Proof.
  intros f parts xs Hf HW HP. pose proof HW as [k HWk].
  assert (HWc : Forall (wtv f k) (concat parts)) by (eapply Permutation_Forall; [symmetry; exact HP|exact HWk]).
  destruct (agg_parts_total f k parts Hf HWc) as (v & Hv).
  assert (Hs : exists w, agg_apply f false (length xs) xs = Ok w).
  { rewrite spec_is_single_partition by exact HW.
    destruct (part_state_total f k xs Hf HWk) as (st & ->). cbn. eauto. }
  destruct Hs as (w & Hw). rewrite Hv, Hw. f_equal. eapply agg_never_wrong; eassumption.
Qed.

Example agg_split_invariant_sat :
  AMin <> ASum /\ wt AMin [VInt 3; VNull; VInt 1; VInt 2] /\
  Permutation (concat [[VInt 2; VInt 3]; []; [VInt 1; VNull]]) [VInt 3; VNull; VInt 1; VInt 2] /\
  agg_parts AMin [[VInt 2; VInt 3]; []; [VInt 1; VNull]] = Ok (VInt 1).
Proof.
  split; [discriminate|]. split; [exists 2%nat; repeat (apply Forall_cons; [first [left; reflexivity | right; reflexivity | right; exact I]|]); apply Forall_nil|]. split; [|reflexivity].
  cbn. apply Permutation_sym.
  apply (Permutation_trans (l' := [VInt 3; VInt 2; VNull; VInt 1])).
  - apply perm_skip. apply (Permutation_trans (l' := [VNull; VInt 2; VInt 1])); [|apply perm_swap].
    apply perm_skip. apply perm_swap.
  - apply (Permutation_trans (l' := [VInt 2; VInt 3; VNull; VInt 1])); [apply perm_swap|].
    do 2 apply perm_skip. apply perm_swap.
Qed.

(* ---- SUM *)
Definition sum_value (xs : list value) : value :=
  if nonempty (nn xs) then VInt (zsum (nn xs)) else VNull.

Lemma sum_R_value st L : R ASum st L -> agg_finalize st = if nonempty L then VInt (zsum L) else VNull.
Proof. destruct st; cbn; try contradiction. intros [-> ->]. reflexivity. Qed.

Lemma zsum_nn l : zsum (nn l) = zsum l.
Proof. induction l as [|v l IH]; [reflexivity|]. destruct v; cbn [nn filter zsum]; fold (nn l); lia. Qed.

(* SUM is NEVER wrong: implementation and specification each return either the exact mathematical
   total (NULL over no non-NULL input) or an error *)
Theorem sum_never_wrong : forall parts xs,
  wt ASum xs -> Permutation (concat parts) xs ->
  (forall v, agg_parts ASum parts = Ok v -> v = sum_value xs) /\
  (forall w, agg_apply ASum false (length xs) xs = Ok w -> w = sum_value xs).
Proof.
  intros parts xs HW HP. pose proof HW as [k HWk].
  assert (HWc : Forall (wtv ASum k) (concat parts)) by (eapply Permutation_Forall; [symmetry; exact HP|exact HWk]).
  split.
  - intros v HA. destruct (agg_parts_R ASum k parts v HWc HA) as (m & HR & ->).
    rewrite (sum_R_value _ _ HR). rewrite inputs_nn by discriminate. unfold sum_value.
    assert (HPn : Permutation (nn (concat parts)) (nn xs)).
    { rewrite <- !(inputs_nn ASum) by discriminate. apply inputs_perm. exact HP. }
    rewrite (nonempty_perm _ _ HPn), (zsum_perm _ _ HPn). reflexivity.
  - intros w HS. rewrite spec_is_single_partition in HS by exact HW.
    destruct (part_state ASum xs) as [st|] eqn:E; [|discriminate]. cbn in HS. inversion HS; subst.
    rewrite (sum_R_value _ _ (part_state_R ASum k xs st HWk E)). rewrite inputs_nn by discriminate. reflexivity.
Qed.

(* the only error is the overflow error *)
Lemma sum_updates_err : forall L st e,
  Forall (fun c => exists x, c = VInt x) L -> (exists s v, st = StSum s v) ->
  foldM (agg_update ASum) L st = Err e -> e = EOverflow.
Proof.
  induction L as [|c L IH]; intros st e HL (s & v & ->) HF; [discriminate|].
  inversion HL as [|? ? (x & ->) HL']; subst. rewrite foldM_cons in HF. cbn [agg_update] in HF.
  destruct (in_range 64 (s + x)); [|inversion HF; reflexivity].
  eapply IH; [exact HL'| |exact HF]. eauto.
Qed.

(* totality under the sufficient condition "no partial sum of any sub-multiset can overflow" *)
Lemma sum_updates_total : forall L st L0,
  R ASum st L0 -> Forall (fun c => exists x, c = VInt x) L ->
  (abs_sum (L0 ++ L) < 2 ^ 63)%Z -> exists st', foldM (agg_update ASum) L st = Ok st'.
Proof.
  induction L as [|c L IH]; intros st L0 HR HL Hb; [exists st; reflexivity|].
  inversion HL as [|? ? (x & ->) HL']; subst. rewrite foldM_cons.
  destruct st; cbn in HR; try contradiction. destruct HR as [-> ->]. cbn [agg_update].
  assert (Hin : in_range 64 (zsum L0 + x) = true).
  { apply in_range64. rewrite abs_sum_app in Hb. cbn [abs_sum] in Hb.
    pose proof (zsum_abs L0). pose proof (abs_sum_nonneg L). lia. }
  rewrite Hin. apply (IH _ (L0 ++ [VInt x])).
  - cbn. rewrite zsum_app, nonempty_snoc. cbn. split; [lia|reflexivity].
  - exact HL'.
  - rewrite <- app_assoc. exact Hb.
Qed.

Lemma nn_ints k xs : Forall (wtv ASum k) xs -> Forall (fun c => exists x, c = VInt x) (nn xs).
Proof. intros H. eapply Forall_impl; [|apply (wt_nn_sum k xs H)]. intros a (x & -> & _). eauto. Qed.

Lemma abs_sum_nn l : abs_sum (nn l) = abs_sum l.
Proof. induction l as [|v l IH]; [reflexivity|]. destruct v; cbn [nn filter abs_sum]; fold (nn l); lia. Qed.

Lemma sum_part_total k l : Forall (wtv ASum k) l -> (abs_sum l < 2 ^ 63)%Z -> exists st, part_state ASum l = Ok st.
Proof.
  intros HW Hb. unfold part_state. rewrite feed_inputs, inputs_nn by discriminate.
  apply (sum_updates_total (nn l) (StSum 0 false) []); [cbn; auto|eapply nn_ints; exact HW|].
  cbn [app]. rewrite abs_sum_nn. exact Hb.
Qed.

Lemma sum_merges_total : forall sts Ls m0 L0,
  R ASum m0 L0 -> Forall2 (R ASum) sts Ls -> (abs_sum (L0 ++ concat Ls) < 2 ^ 63)%Z ->
  exists m, foldM (agg_merge ASum) sts m0 = Ok m.
Proof.
  induction sts as [|s sts IH]; intros Ls m0 L0 H0 H2 Hb.
  - exists m0. reflexivity.
  - inversion H2 as [|? y ? l' Hsy Hrest]; subst.
    rewrite foldM_cons. destruct m0; cbn in H0; try contradiction. destruct s; cbn in Hsy; try contradiction.
    destruct H0 as [-> ->], Hsy as [-> ->]. cbn [agg_merge].
    assert (Hin : in_range 64 (zsum L0 + zsum y) = true).
    { apply in_range64. cbn [concat] in Hb. rewrite !abs_sum_app in Hb.
      pose proof (zsum_abs L0). pose proof (zsum_abs y). pose proof (abs_sum_nonneg (concat l')). lia. }
    rewrite Hin. apply (IH l' _ (L0 ++ y)).
    + cbn. rewrite zsum_app, nonempty_app. auto.
    + exact Hrest.
    + cbn [concat] in Hb. rewrite <- app_assoc. exact Hb.
Qed.

Lemma abs_sum_concat_le parts p : In p parts -> (abs_sum p <= abs_sum (concat parts))%Z.
Proof.
  induction parts as [|q parts IH]; intros [].
  - subst. cbn [concat]. rewrite abs_sum_app. pose proof (abs_sum_nonneg (concat parts)). lia.
  - cbn [concat]. rewrite abs_sum_app. pose proof (abs_sum_nonneg q). specialize (IH H). lia.
Qed.

(* (1) for SUM: if no partial sum can overflow (sufficient: the absolute values add up to < 2^63) the
   split result equals the specification, and both are the exact total *)
Theorem sum_split_invariant : forall parts xs,
  wt ASum xs -> Permutation (concat parts) xs -> (abs_sum xs < 2 ^ 63)%Z ->
  agg_parts ASum parts = agg_apply ASum false (length xs) xs /\
  agg_parts ASum parts = Ok (sum_value xs).
Proof.
  intros parts xs HW HP Hb. pose proof HW as [k HWk].
  assert (HWc : Forall (wtv ASum k) (concat parts)) by (eapply Permutation_Forall; [symmetry; exact HP|exact HWk]).
  assert (Hbc : (abs_sum (concat parts) < 2 ^ 63)%Z) by (rewrite (abs_sum_perm _ _ HP); exact Hb).
  assert (Hv : exists v, agg_parts ASum parts = Ok v).
  { unfold agg_parts. pose proof (Forall_concat_inv _ _ HWc) as HWp.
    assert (Hsts : exists sts, mapM (part_state ASum) parts = Ok sts).
    { clear -HWp Hbc. induction parts as [|p parts IH]; cbn [mapM]; [eauto|].
      inversion HWp as [|? ? Hp Hparts]; subst.
      assert (Hbp : (abs_sum p < 2 ^ 63)%Z).
      { pose proof (abs_sum_concat_le (p :: parts) p (or_introl eq_refl)). lia. }
      destruct (sum_part_total k p Hp Hbp) as (s & ->).
      assert (Hbr : (abs_sum (concat parts) < 2 ^ 63)%Z).
      { cbn [concat] in Hbc. rewrite abs_sum_app in Hbc. pose proof (abs_sum_nonneg p). lia. }
      destruct (IH Hbr Hparts) as (ss & ->). cbn. eauto. }
    destruct Hsts as (sts & E1). rewrite E1. cbn [bind].
    destruct (sum_merges_total sts (map (inputs ASum) parts) (StSum 0 false) []) as (m & E2).
    - cbn; auto.
    - eapply mapM_part_states; eassumption.
    - cbn [app]. rewrite <- inputs_concat, inputs_nn by discriminate. rewrite abs_sum_nn. exact Hbc.
    - cbn [agg_init]. rewrite E2. cbn. eauto. }
  assert (Hw : exists w, agg_apply ASum false (length xs) xs = Ok w).
  { rewrite spec_is_single_partition by exact HW.
    destruct (sum_part_total k xs HWk Hb) as (st & ->). cbn. eauto. }
  destruct Hv as (v & Hv), Hw as (w & Hw).
  destruct (sum_never_wrong parts xs HW HP) as [H1 H2].
  rewrite Hv, Hw, (H1 v Hv), (H2 w Hw). auto.
Qed.

Example sum_split_invariant_sat :
  wt ASum [VInt 5; VNull; VInt (-7)] /\ Permutation (concat [[VInt (-7)]; [VInt 5; VNull]]) [VInt 5; VNull; VInt (-7)] /\
  (abs_sum [VInt 5; VNull; VInt (-7)] < 2 ^ 63)%Z /\
  agg_parts ASum [[VInt (-7)]; [VInt 5; VNull]] = Ok (VInt (-2)).
Proof.
  split; [exists 0%nat; repeat (apply Forall_cons; [first [left; reflexivity | right; reflexivity | right; exact I]|]); apply Forall_nil|]. split; [|split; [reflexivity|reflexivity]].
  cbn. apply (Permutation_trans (l' := [VInt 5; VInt (-7); VNull])); [apply perm_swap|apply perm_skip, perm_swap].
Qed.

(* in general: exact total or the overflow error *)
Lemma mapM_err {A B} (g : A -> res B) : forall l e, mapM g l = Err e -> exists x, In x l /\ g x = Err e.
Proof.
  induction l as [|x l IH]; intros e H; cbn [mapM] in H; [discriminate|].
  destruct (g x) as [y|e1] eqn:E.
  - cbn [bind] in H. destruct (mapM g l) as [ys|e2] eqn:E2; [discriminate|].
    cbn in H. inversion H; subst. destruct (IH e eq_refl) as (x' & Hin & Hx'). exists x'. split; [right; exact Hin|exact Hx'].
  - cbn in H. inversion H; subst. exists x. split; [left; reflexivity|exact E].
Qed.

Lemma sum_merges_err : forall sts m0 e,
  Forall (fun s => exists a b, s = StSum a b) sts -> (exists a b, m0 = StSum a b) ->
  foldM (agg_merge ASum) sts m0 = Err e -> e = EOverflow.
Proof.
  induction sts as [|s sts IH]; intros m0 e HS (a & b & ->) HF; [discriminate|].
  inversion HS as [|? ? (a' & b' & ->) HS']; subst. rewrite foldM_cons in HF. cbn [agg_merge] in HF.
  destruct (in_range 64 (a + a')); [|inversion HF; reflexivity].
  eapply IH; [exact HS'| |exact HF]. eauto.
Qed.

Theorem sum_exact_or_overflow : forall parts xs,
  wt ASum xs -> Permutation (concat parts) xs ->
  agg_parts ASum parts = Ok (sum_value xs) \/ agg_parts ASum parts = Err EOverflow.
Proof.
  intros parts xs HW HP. destruct (agg_parts ASum parts) as [v|e] eqn:E.
  - left. f_equal. apply (proj1 (sum_never_wrong parts xs HW HP)). exact E.
  - right. f_equal. pose proof HW as [k HWk].
    assert (HWc : Forall (wtv ASum k) (concat parts)) by (eapply Permutation_Forall; [symmetry; exact HP|exact HWk]).
    apply Forall_concat_inv in HWc. unfold agg_parts in E.
    destruct (mapM (part_state ASum) parts) as [sts|e1] eqn:E1.
    + cbn [bind] in E.
      destruct (foldM (agg_merge ASum) sts (agg_init ASum)) as [m|e2] eqn:E2; [discriminate|].
      cbn in E. inversion E; subst.
      pose proof (mapM_part_states ASum k parts sts HWc E1) as HF2.
      eapply sum_merges_err; [|cbn; eauto|exact E2].
      clear -HF2. induction HF2 as [|s L sts Ls HR _ IH]; constructor; [|exact IH].
      destruct s; cbn in HR; try contradiction. eauto.
    + cbn in E. inversion E; subst. destruct (mapM_err _ _ _ E1) as (p & Hin & Hp).
      unfold part_state in Hp. rewrite feed_inputs, inputs_nn in Hp by discriminate.
      eapply sum_updates_err; [|cbn; eauto|exact Hp].
      eapply nn_ints. rewrite Forall_forall in HWc. apply HWc. exact Hin.
Qed.

Definition i64max : Z := 9223372036854775807.

(* DEVIATION 1 (documented): the total MAX + 1 - 1 = MAX is representable, but a partial sum
   overflows: the engine (and, for this arrival order, Sql.v's left-to-right specification) errors *)
Example sum_partial_overflow_errors :
  agg_parts ASum [[VInt i64max; VInt 1; VInt (-1)]] = Err EOverflow /\
  agg_apply ASum false 3 [VInt i64max; VInt 1; VInt (-1)] = Err EOverflow /\
  sum_value [VInt i64max; VInt 1; VInt (-1)] = VInt i64max.
Proof. vm_compute. auto. Qed.

(* DEVIATION 2: the order of the rows / of the partitions decides between the value and the error *)
Example sum_order_changes_error :
  agg_parts ASum [[VInt i64max]; [VInt 1]; [VInt (-1)]] = Err EOverflow /\
  agg_parts ASum [[VInt i64max]; [VInt (-1)]; [VInt 1]] = Ok (VInt i64max) /\
  agg_parts ASum [[VInt i64max]; [VInt 1; VInt (-1)]] = Ok (VInt i64max) /\
  agg_apply ASum false 3 [VInt i64max; VInt (-1); VInt 1] = Ok (VInt i64max).
Proof. vm_compute. auto. Qed.

(* ---- ingredients: merge is commutative / associative up to the error, init is neutral *)
Definition wf_state (f : aggfn) (s : astate) : Prop :=
  match f, s with
  | (ACountStar | ACount), StCount _ => True
  | ASum, StSum x _ => in_range 64 x = true
  | (AMin | AMax), StExt m v => if v then m <> VNull else m = VNull
  | (ABoolAnd | ABoolOr), StBool _ _ => True
  | _, _ => False
  end.

Lemma merge_comm f a b : wf_state f a -> wf_state f b -> agg_merge f a b = agg_merge f b a.
Proof.
  intros Ha Hb. destruct f, a; cbn in Ha; try contradiction; destruct b; cbn in Hb; try contradiction; cbn [agg_merge].
  - rewrite Z.add_comm. reflexivity.
  - rewrite Z.add_comm. reflexivity.
  - rewrite (Z.add_comm sum0 sum), (orb_comm valid0 valid). reflexivity.
  - destruct valid, valid0; cbn [negb]; subst; try reflexivity. unfold val_gt.
    destruct (val_compare m m0) as [c|] eqn:E.
    + rewrite (val_compare_antisym _ _ _ E). destruct c; cbn; try reflexivity.
      apply val_compare_eq in E. subst. reflexivity.
    + rewrite (val_compare_none _ _ E). reflexivity.
  - destruct valid, valid0; cbn [negb]; subst; try reflexivity. unfold val_lt.
    destruct (val_compare m m0) as [c|] eqn:E.
    + rewrite (val_compare_antisym _ _ _ E). destruct c; cbn; try reflexivity.
      apply val_compare_eq in E. subst. reflexivity.
    + rewrite (val_compare_none _ _ E). reflexivity.
  - rewrite (andb_comm result0 result), (orb_comm valid0 valid). reflexivity.
  - rewrite (orb_comm result0 result), (orb_comm valid0 valid). reflexivity.
Qed.

Lemma init_neutral f s : wf_state f s ->
  agg_merge f (agg_init f) s = Ok s /\ agg_merge f s (agg_init f) = Ok s.
Proof.
  intros Hs. destruct f, s; cbn in Hs; try contradiction; cbn [agg_merge agg_init negb].
  - rewrite Z.add_0_l, Z.add_0_r. auto.
  - rewrite Z.add_0_l, Z.add_0_r. auto.
  - rewrite Z.add_0_l, Z.add_0_r, Hs, orb_false_r. auto.
  - destruct valid; subst; auto.
  - destruct valid; subst; auto.
  - rewrite andb_true_r, orb_false_r. auto.
  - rewrite !orb_false_r. cbn [orb]. auto.
Qed.

(* associativity "up to the error": when both bracketings succeed they agree (exactly for count, sum,
   bool_and/or; observationally — same finalized value — for min/max via R) *)
Lemma merge_assoc_exact f a b c ab bc r1 r2 :
  f <> AMin -> f <> AMax ->
  agg_merge f a b = Ok ab -> agg_merge f ab c = Ok r1 ->
  agg_merge f b c = Ok bc -> agg_merge f a bc = Ok r2 -> r1 = r2.
Proof.
  intros Hmin Hmax H1 H2 H3 H4.
  destruct f; try congruence; destruct a, b; cbn in H1; try discriminate;
    destruct c; cbn in H3; try discriminate.
  - inversion H1; subst; inversion H3; subst; cbn in H2, H4. inversion H2; inversion H4. f_equal. lia.
  - inversion H1; subst; inversion H3; subst; cbn in H2, H4. inversion H2; inversion H4. f_equal. lia.
  - destruct (in_range 64 (sum + sum0)); [|discriminate]. destruct (in_range 64 (sum0 + sum1)); [|discriminate].
    inversion H1; subst; inversion H3; subst; cbn in H2, H4.
    destruct (in_range 64 (sum + sum0 + sum1)); [|discriminate]. destruct (in_range 64 (sum + (sum0 + sum1))); [|discriminate].
    inversion H2; inversion H4. rewrite Z.add_assoc, orb_assoc. reflexivity.
  - inversion H1; subst; inversion H3; subst; cbn in H2, H4. inversion H2; inversion H4.
    rewrite andb_assoc, orb_assoc. reflexivity.
  - inversion H1; subst; inversion H3; subst; cbn in H2, H4. inversion H2; inversion H4.
    rewrite !orb_assoc. reflexivity.
Qed.

Lemma merge_assoc_obs f a b c La Lb Lc ab bc r1 r2 :
  R f a La -> R f b Lb -> R f c Lc ->
  agg_merge f a b = Ok ab -> agg_merge f ab c = Ok r1 ->
  agg_merge f b c = Ok bc -> agg_merge f a bc = Ok r2 -> agg_finalize r1 = agg_finalize r2.
Proof.
  intros Ha Hb Hc H1 H2 H3 H4.
  eapply R_unique.
  - eapply merge_R; [eapply merge_R; [exact Ha|exact Hb|exact H1]|exact Hc|exact H2].
  - eapply merge_R; [exact Ha|eapply merge_R; [exact Hb|exact Hc|exact H3]|exact H4].
  - rewrite app_assoc. reflexivity.
Qed.

(* SUM's merge is NOT associative as far as errors go *)
Example sum_merge_assoc_fails_on_errors :
  (do ab <- agg_merge ASum (StSum i64max true) (StSum 1 true); agg_merge ASum ab (StSum (-1) true)) = Err EOverflow /\
  (do bc <- agg_merge ASum (StSum 1 true) (StSum (-1) true); agg_merge ASum (StSum i64max true) bc) = Ok (StSum i64max true).
Proof. vm_compute. auto. Qed.

Lemma aggfn_eq_sum f : f = ASum \/ f <> ASum.
Proof. destruct f; try (right; discriminate). left; reflexivity. Qed.

(* (2) empty input *)
Definition empty_value (f : aggfn) : value :=
  match f with ACountStar | ACount => VInt 0 | _ => VNull end.

Theorem empty_input_value : forall f parts,
  concat parts = [] ->
  agg_parts f parts = Ok (empty_value f) /\ agg_apply f false 0 [] = Ok (empty_value f) /\
  agg_apply f true 0 [] = Ok (empty_value f).
Proof.
  intros f parts Hc.
  assert (Hs : agg_apply f false 0 [] = Ok (empty_value f)) by (destruct f; reflexivity).
  split; [|split; [exact Hs|destruct f; reflexivity]].
  assert (HP : Permutation (concat parts) []) by (rewrite Hc; constructor).
  assert (HW : forall g, wt g []) by (intros g; exists 0%nat; constructor).
  destruct (aggfn_eq_sum f) as [->|Hf].
  - destruct (sum_split_invariant parts [] (HW ASum) HP ltac:(cbn; lia)) as [_ H]. exact H.
  - rewrite (agg_split_invariant f parts [] Hf (HW f) HP). exact Hs.
Qed.

(* only NULL arguments: same values, except that count( * ) counts the rows *)
Example all_null_input :
  map (fun f => agg_parts f [[VNull]; []; [VNull; VNull]])
      [ACountStar; ACount; ASum; AMin; AMax; ABoolAnd; ABoolOr]
  = [Ok (VInt 3); Ok (VInt 0); Ok VNull; Ok VNull; Ok VNull; Ok VNull; Ok VNull].
Proof. vm_compute. reflexivity. Qed.

Example agg_parts_examples :
  agg_parts AMax [[VStr [98%N]; VNull]; [VStr [97%N; 99%N]]] = Ok (VStr [98%N]) /\
  agg_parts ABoolAnd [[VBool true]; []; [VBool false; VNull]] = Ok (VBool false) /\
  agg_parts ABoolOr [[VBool false]; [VNull]] = Ok (VBool false) /\
  agg_parts ACount [[VInt 1; VNull]; [VInt 1]] = Ok (VInt 2) /\
  agg_parts_distinct ACount [[VInt 1; VNull]; [VInt 1; VInt 2]] = Ok (VInt 2) /\
  agg_parts_distinct ASum [[VInt 5; VInt 5]; [VInt 5; VInt 2; VNull]] = Ok (VInt 7).
Proof. vm_compute. repeat split. Qed.

(* ================================================================== (3) group_rows *)

Definition row_eq_dec (a b : row) : {a = b} + {a <> b}.
Proof.
  destruct (row_same a b) eqn:E; [left; apply row_same_eq; exact E|right; apply row_same_false; exact E].
Defined.

Definition same_key (k : row) (p : row * row) : bool := row_same k (fst p).

Lemma group_insert_spec k r : forall gs,
  (forall g1 rs g2, gs = g1 ++ (k, rs) :: g2 -> ~ In k (map fst g1) ->
     group_insert k r gs = g1 ++ (k, rs ++ [r]) :: g2) /\
  (~ In k (map fst gs) -> group_insert k r gs = gs ++ [(k, [r])]).
Proof.
  induction gs as [|[k' rs'] gs IH]; split.
  - intros [|? ?] rs g2 H; discriminate.
  - reflexivity.
  - intros g1 rs g2 Heq Hni. destruct g1 as [|[k1 r1] g1]; cbn [app] in Heq; inversion Heq; subst.
    + cbn [group_insert app]. rewrite row_same_refl. reflexivity.
    + cbn [group_insert app]. cbn [map fst In] in Hni.
      assert (Hne : row_same k k1 = false) by (apply row_same_false; intros ->; apply Hni; left; reflexivity).
      rewrite Hne. f_equal. apply (proj1 IH); [reflexivity|]. intros Hin. apply Hni. right. exact Hin.
  - intros Hni. cbn [map fst In] in Hni. cbn [group_insert app].
    assert (Hne : row_same k k' = false) by (apply row_same_false; intros ->; apply Hni; left; reflexivity).
    rewrite Hne. f_equal. apply (proj2 IH). intros Hin. apply Hni. right. exact Hin.
Qed.

Lemma in_split_first (k : row) (l : list row) : In k l -> exists l1 l2, l = l1 ++ k :: l2 /\ ~ In k l1.
Proof.
  induction l as [|x l IH]; intros Hin; [destruct Hin|].
  destruct (row_eq_dec x k) as [->|Hne].
  - exists [], l. split; [reflexivity|intros []].
  - destruct Hin as [->|Hin]; [congruence|]. destruct (IH Hin) as (l1 & l2 & -> & Hni).
    exists (x :: l1), l2. split; [reflexivity|]. intros [->|H]; [congruence|contradiction].
Qed.

Lemma map_fst_split {B} (gs : list (row * B)) l1 k l2 :
  map fst gs = l1 ++ k :: l2 -> exists g1 rs g2, gs = g1 ++ (k, rs) :: g2 /\ map fst g1 = l1 /\ map fst g2 = l2.
Proof.
  revert l1. induction gs as [|[k' rs'] gs IH]; intros [|x l1] H; cbn in H; try discriminate; inversion H; subst.
  - exists [], rs', gs. auto.
  - destruct (IH l1 ltac:(assumption)) as (g1 & rs & g2 & -> & <- & <-).
    exists ((x, rs') :: g1), rs, g2. auto.
Qed.

(* invariant of the fold: gs is the grouping of the rows kv seen so far *)
Definition ginv (gs : list (row * list row)) (kv : list (row * row)) : Prop :=
  NoDup (map fst gs) /\
  (forall k rs, In (k, rs) gs -> rs = map snd (filter (same_key k) kv) /\ rs <> []) /\
  (forall p, In p kv -> In (fst p) (map fst gs)).

Lemma same_key_eq k p : same_key k p = true <-> k = fst p.
Proof. unfold same_key. apply row_same_eq. Qed.

Lemma NoDup_snoc {A} (l : list A) x : NoDup l -> ~ In x l -> NoDup (l ++ [x]).
Proof.
  induction l as [|y l IH]; intros Hnd Hni; cbn [app].
  - constructor; [intros []|constructor].
  - inversion Hnd as [|? ? Hy Hnd']; subst. constructor.
    + intros Hin. apply in_app_or in Hin as [Hin|[->|[]]]; [contradiction|]. apply Hni. left. reflexivity.
    + apply IH; [exact Hnd'|]. intros Hin. apply Hni. right. exact Hin.
Qed.

Lemma filter_none {A} (p : A -> bool) l : (forall x, In x l -> p x = false) -> filter p l = [].
Proof.
  induction l as [|y l IH]; intros H; cbn [filter]; [reflexivity|].
  rewrite (H y (or_introl eq_refl)). apply IH. intros x Hx. apply H. right. exact Hx.
Qed.

Lemma ginv_step gs kv k r : ginv gs kv -> ginv (group_insert k r gs) (kv ++ [(k, r)]).
Proof.
  intros (Hnd & Hmem & Hcov).
  destruct (in_dec row_eq_dec k (map fst gs)) as [Hin|Hni].
  - destruct (in_split_first k _ Hin) as (l1 & l2 & Hl & Hni1).
    destruct (map_fst_split gs l1 k l2 Hl) as (g1 & rs & g2 & -> & <- & <-).
    rewrite (proj1 (group_insert_spec k r _) g1 rs g2 eq_refl Hni1).
    split; [|split].
    + rewrite map_app in *. cbn [map fst] in *. exact Hnd.
    + intros k0 rs0 Hin0. rewrite filter_app, map_app. cbn [filter]. unfold same_key at 2. cbn [fst].
      apply in_app_or in Hin0 as [Hin0|[Heq|Hin0]].
      * assert (Hk : k0 <> k).
        { intros ->. apply Hni1. apply in_map_iff. exists (k, rs0). auto. }
        apply row_same_false in Hk. rewrite Hk. cbn. rewrite app_nil_r.
        apply Hmem. apply in_or_app. left. exact Hin0.
      * inversion Heq; subst. rewrite row_same_refl. cbn [map snd].
        assert (Hin' : In (k0, rs) (g1 ++ (k0, rs) :: g2)) by (apply in_or_app; right; left; reflexivity).
        destruct (Hmem _ _ Hin') as [-> _].
        split; [reflexivity|]. intros H. apply app_eq_nil in H as [_ H]. discriminate.
      * assert (Hk : k0 <> k).
        { intros ->. rewrite map_app in Hnd. cbn [map fst] in Hnd. apply NoDup_remove_2 in Hnd.
          apply Hnd. apply in_or_app. right. apply in_map_iff. exists (k, rs0). auto. }
        apply row_same_false in Hk. rewrite Hk. cbn. rewrite app_nil_r.
        apply Hmem. apply in_or_app. right. right. exact Hin0.
    + intros p Hp. rewrite map_app in *. cbn [map fst] in *.
      apply in_app_or in Hp as [Hp|[<-|[]]]; [apply Hcov; exact Hp|].
      apply in_or_app. right. left. reflexivity.
  - rewrite (proj2 (group_insert_spec k r gs) Hni). split; [|split].
    + rewrite map_app. cbn [map fst]. apply NoDup_snoc; assumption.
    + intros k0 rs0 Hin0. rewrite filter_app, map_app. cbn [filter]. unfold same_key at 2. cbn [fst].
      apply in_app_or in Hin0 as [Hin0|[Heq|[]]].
      * assert (Hk : k0 <> k).
        { intros ->. apply Hni. apply in_map_iff. exists (k, rs0). auto. }
        apply row_same_false in Hk. rewrite Hk. cbn. rewrite app_nil_r. apply Hmem. exact Hin0.
      * inversion Heq; subst. rewrite row_same_refl. cbn [map snd].
        assert (Hf : filter (same_key k0) kv = []).
        { apply filter_none. intros p Hp. destruct (same_key k0 p) eqn:E; [|reflexivity].
          apply same_key_eq in E. subst. exfalso. apply Hni. apply Hcov. exact Hp. }
        rewrite Hf. cbn. split; [reflexivity|discriminate].
    + intros p Hp. rewrite map_app. cbn [map fst].
      apply in_app_or in Hp as [Hp|[<-|[]]]; apply in_or_app; [left; apply Hcov; exact Hp|right; left; reflexivity].
Qed.

Lemma ginv_fold kv : forall gs kv0, ginv gs kv0 ->
  ginv (fold_left (fun gs p => group_insert (fst p) (snd p) gs) kv gs) (kv0 ++ kv).
Proof.
  induction kv as [|[k r] kv IH]; intros gs kv0 H; cbn [fold_left].
  - rewrite app_nil_r. exact H.
  - replace (kv0 ++ (k, r) :: kv) with ((kv0 ++ [(k, r)]) ++ kv) by (rewrite <- app_assoc; reflexivity).
    apply IH. cbn [fst snd]. apply ginv_step. exact H.
Qed.

Lemma group_rows_ginv kv : ginv (group_rows kv) kv.
Proof.
  unfold group_rows. change kv with ([] ++ kv) at 2. apply ginv_fold.
  split; [constructor|]. split; [intros ? ? []|intros ? []].
Qed.

(* one row per group: the keys are pairwise not row_same *)
Theorem one_row_per_group : forall kv,
  NoDup (map fst (group_rows kv)) /\
  ForallOrdPairs (fun g1 g2 => row_same (fst g1) (fst g2) = false) (group_rows kv).
Proof.
  intros kv. destruct (group_rows_ginv kv) as (Hnd & _ & _). split; [exact Hnd|].
  induction (group_rows kv) as [|g gs IH]; [constructor|].
  cbn [map] in Hnd. inversion Hnd as [|? ? Hni Hnd']; subst. constructor; [|apply IH; exact Hnd'].
  apply Forall_forall. intros g' Hg'. apply row_same_false. intros Heq. apply Hni. rewrite Heq.
  apply in_map. exact Hg'.
Qed.

(* each input row is a member of exactly one group — the one with the same key —, every group is
   non-empty, holds exactly the rows with its key in arrival order, and nothing is lost or duplicated *)
Theorem group_rows_exact : forall kv,
  (forall k rs, In (k, rs) (group_rows kv) ->
     rs = map snd (filter (fun p => row_same k (fst p)) kv) /\ rs <> []) /\
  (forall p, In p kv -> exists rs, In (fst p, rs) (group_rows kv) /\ In (snd p) rs) /\
  (forall k rs1 rs2, In (k, rs1) (group_rows kv) -> In (k, rs2) (group_rows kv) -> rs1 = rs2).
Proof.
  intros kv. destruct (group_rows_ginv kv) as (Hnd & Hmem & Hcov). split; [exact Hmem|]. split.
  - intros p Hp. specialize (Hcov p Hp). apply in_map_iff in Hcov as ([k rs] & Hk & Hin). cbn in Hk. subst k.
    exists rs. split; [exact Hin|]. destruct (Hmem _ _ Hin) as [-> _].
    apply in_map. apply filter_In. split; [exact Hp|apply row_same_refl].
  - intros k rs1 rs2 H1 H2. destruct (Hmem _ _ H1) as [-> _], (Hmem _ _ H2) as [-> _]. reflexivity.
Qed.

Lemma group_insert_perm k r gs :
  Permutation (concat (map snd (group_insert k r gs))) (r :: concat (map snd gs)).
Proof.
  induction gs as [|[k' rs] gs IH]; cbn [group_insert map snd concat].
  - rewrite app_nil_r. reflexivity.
  - destruct (row_same k k'); cbn [map snd concat].
    + rewrite <- app_assoc. cbn [app]. symmetry. apply Permutation_cons_app.
      reflexivity.
    + etransitivity; [apply Permutation_app_head; exact IH|]. symmetry. apply Permutation_middle.
Qed.

Theorem group_rows_members_bag : forall kv,
  Permutation (concat (map snd (group_rows kv))) (map snd kv).
Proof.
  intros kv. unfold group_rows.
  assert (H : forall gs, Permutation
     (concat (map snd (fold_left (fun gs p => group_insert (fst p) (snd p) gs) kv gs)))
     (concat (map snd gs) ++ map snd kv)).
  { induction kv as [|[k r] kv IH]; intros gs; cbn [fold_left map snd].
    - rewrite app_nil_r. reflexivity.
    - etransitivity; [apply IH|]. cbn [fst snd].
      etransitivity; [apply Permutation_app_tail; apply group_insert_perm|].
      cbn [app]. apply Permutation_middle. }
  apply (H []).
Qed.

(* NULL keys form ONE group *)
Theorem nulls_one_group : forall kv n g1 g2,
  In g1 (group_rows kv) -> In g2 (group_rows kv) ->
  fst g1 = nulls n -> fst g2 = nulls n -> g1 = g2.
Proof.
  intros kv n [k1 rs1] [k2 rs2] H1 H2 E1 E2. cbn in E1, E2. subst.
  f_equal. eapply (proj2 (proj2 (group_rows_exact kv))); eassumption.
Qed.

Example nulls_one_group_ex :
  row_same [VNull; VNull] (nulls 2) = true /\
  group_rows [([VNull], [VInt 1]); ([VInt 7], [VInt 2]); ([VNull], [VInt 3]); ([VInt 7], [VInt 4])]
  = [([VNull], [[VInt 1]; [VInt 3]]); ([VInt 7], [[VInt 2]; [VInt 4]])].
Proof. vm_compute. auto. Qed.

(* permuting the input permutes the groups and the members of each group *)
Theorem group_rows_perm : forall kv kv',
  Permutation kv kv' ->
  Permutation (map fst (group_rows kv)) (map fst (group_rows kv')) /\
  (forall k rs, In (k, rs) (group_rows kv) ->
     exists rs', In (k, rs') (group_rows kv') /\ Permutation rs rs').
Proof.
  intros kv kv' HP.
  destruct (group_rows_ginv kv) as (Hnd & Hmem & Hcov).
  destruct (group_rows_ginv kv') as (Hnd' & Hmem' & Hcov').
  assert (Hkeys : forall gs l, (forall k rs, In (k, rs) gs -> rs = map snd (filter (same_key k) l) /\ rs <> []) ->
                   forall k, In k (map fst gs) -> exists p, In p l /\ fst p = k).
  { intros gs l Hm k Hk. apply in_map_iff in Hk as ([k0 rs] & <- & Hin). cbn [fst].
    destruct (Hm _ _ Hin) as [-> Hne].
    destruct (filter (same_key k0) l) as [|p ps] eqn:E; [cbn in Hne; congruence|].
    assert (Hp : In p (filter (same_key k0) l)) by (rewrite E; left; reflexivity).
    apply filter_In in Hp as [Hp1 Hp2]. apply same_key_eq in Hp2. exists p. auto. }
  split.
  - apply NoDup_Permutation; [exact Hnd|exact Hnd'|]. intros k. split; intros Hk.
    + destruct (Hkeys _ _ Hmem k Hk) as (p & Hp & <-). apply Hcov'. eapply Permutation_in; eassumption.
    + destruct (Hkeys _ _ Hmem' k Hk) as (p & Hp & <-). apply Hcov. eapply Permutation_in; [symmetry; exact HP|exact Hp].
  - intros k rs Hin. destruct (Hmem _ _ Hin) as [-> Hne].
    assert (Hk : In k (map fst (group_rows kv))) by (apply in_map_iff; eexists; split; [|exact Hin]; reflexivity).
    destruct (Hkeys _ _ Hmem k Hk) as (p & Hp & <-).
    assert (Hk' : In (fst p) (map fst (group_rows kv'))) by (apply Hcov'; eapply Permutation_in; eassumption).
    apply in_map_iff in Hk' as ([k0 rs'] & Hk0 & Hin'). cbn in Hk0. subst k0.
    exists rs'. split; [exact Hin'|]. destruct (Hmem' _ _ Hin') as [-> _].
    apply Permutation_map.
    clear -HP. induction HP as [|x l l' _ IH|x y l|l l' l'' _ IH1 _ IH2]; cbn [filter].
    + constructor.
    + destruct (same_key (fst p) x); [apply perm_skip|]; exact IH.
    + destruct (same_key (fst p) x), (same_key (fst p) y); try reflexivity. apply perm_swap.
    + etransitivity; eassumption.
Qed.

(* ================================================================== (4) DISTINCT / UNION *)

Theorem distinct_spec : forall l,
  NoDup (dedup_rows l) /\
  ForallOrdPairs (fun a b => row_same a b = false) (dedup_rows l) /\
  (forall r, In r (dedup_rows l) <-> In r l) /\
  (forall r, In r l -> exists r', In r' (dedup_rows l) /\ row_same r r' = true).
Proof.
  intros l.
  assert (Hin : forall r, In r (dedup_rows l) <-> In r l).
  { induction l as [|x l IH]; intros r; cbn [dedup_rows]; [reflexivity|]. cbn [In]. rewrite filter_In, IH.
    split.
    - intros [->|[H _]]; auto.
    - intros [->|H]; [auto|]. destruct (row_eq_dec x r) as [->|Hne]; [auto|].
      right. split; [exact H|]. apply row_same_false in Hne. rewrite Hne. reflexivity. }
  assert (Hnd : NoDup (dedup_rows l)).
  { clear Hin. induction l as [|x l IH]; cbn [dedup_rows]; constructor.
    - intros H. apply filter_In in H as [_ H]. rewrite row_same_refl in H. discriminate.
    - apply NoDup_filter. exact IH. }
  split; [exact Hnd|]. split; [|split; [exact Hin|]].
  - clear Hin. induction (dedup_rows l) as [|x d IH]; [constructor|].
    inversion Hnd as [|? ? Hni Hnd']; subst. constructor; [|apply IH; exact Hnd'].
    apply Forall_forall. intros y Hy. apply row_same_false. intros ->. contradiction.
  - intros r Hr. exists r. split; [apply Hin; exact Hr|apply row_same_refl].
Qed.

Theorem union_spec : forall d en a b x y,
  eval_query d en a = Ok x -> eval_query d en b = Ok y ->
  eval_query d en (QUnion false a b) = Ok (dedup_rows (x ++ y)) /\
  eval_query d en (QUnion true a b) = Ok (x ++ y) /\
  NoDup (dedup_rows (x ++ y)) /\
  (forall r, In r (dedup_rows (x ++ y)) <-> In r x \/ In r y).
Proof.
  intros d en a b x y Ha Hb.
  split; [cbn [eval_query]; rewrite Ha, Hb; reflexivity|].
  split; [cbn [eval_query]; rewrite Ha, Hb; reflexivity|].
  destruct (distinct_spec (x ++ y)) as (Hnd & _ & Hin & _). split; [exact Hnd|].
  intros r. rewrite Hin. apply in_app_iff.
Qed.

Example union_spec_sat :
  eval_query [] [] (QValues [[EConst (VInt 1)]; [EConst VNull]]) = Ok [[VInt 1]; [VNull]] /\
  eval_query [] [] (QUnion false (QValues [[EConst (VInt 1)]; [EConst VNull]]) (QValues [[EConst VNull]; [EConst (VInt 2)]]))
  = Ok [[VInt 1]; [VNull]; [VInt 2]].
Proof. vm_compute. auto. Qed.

(* ================================================================== (5) DISTINCT aggregates *)

Definition dedupv (l : list value) : list value :=
  map (fun r => hd VNull r) (dedup_rows (map (fun v => [v]) l)).

Lemma dedupv_spec l : NoDup (dedupv l) /\ (forall v, In v (dedupv l) <-> In v l).
Proof.
  unfold dedupv. destruct (distinct_spec (map (fun v => [v]) l)) as (Hnd & _ & Hin & _).
  assert (Hshape : forall r, In r (dedup_rows (map (fun v => [v]) l)) -> exists v, r = [v] /\ In v l).
  { intros r Hr. apply Hin in Hr. apply in_map_iff in Hr as (v & <- & Hv). eauto. }
  split.
  - revert Hnd Hshape. generalize (dedup_rows (map (fun v => [v]) l)). intros d Hnd Hshape.
    induction d as [|r d IH]; cbn [map]; constructor.
    + inversion Hnd as [|? ? Hni _]; subst. intros Hh. apply in_map_iff in Hh as (r' & Heq & Hr').
      destruct (Hshape r (or_introl eq_refl)) as (v & -> & _).
      destruct (Hshape r' (or_intror Hr')) as (v' & -> & _). cbn in Heq. subst. contradiction.
    + inversion Hnd; subst. apply IH; [assumption|]. intros r' Hr'. apply Hshape. right. exact Hr'.
  - intros v. rewrite in_map_iff. split.
    + intros (r & <- & Hr). destruct (Hshape r Hr) as (v' & -> & Hv'). exact Hv'.
    + intros Hv. exists [v]. split; [reflexivity|]. apply Hin. apply in_map_iff. exists v. split; [reflexivity|exact Hv].
Qed.

Lemma nn_id l : Forall (fun v => v <> VNull) l -> nn l = l.
Proof.
  induction 1 as [|v l Hv _ IH]; [reflexivity|]. cbn [nn filter]. fold (nn l). rewrite IH.
  destruct v; [congruence|reflexivity|reflexivity|reflexivity].
Qed.

(* the DISTINCT flag of the specification = the plain aggregate over the de-duplicated non-NULL
   values (count( * ) keeps the row count) *)
Theorem distinct_agg_spec : forall f n xs,
  agg_apply f true n xs = agg_apply f false n (dedupv (nn xs)) /\
  NoDup (dedupv (nn xs)) /\ (forall v, In v (dedupv (nn xs)) <-> In v xs /\ v <> VNull).
Proof.
  intros f n xs. destruct (dedupv_spec (nn xs)) as (Hnd & Hin). split; [|split; [exact Hnd|]].
  - unfold agg_apply, agg_values. fold (nn xs). fold (dedupv (nn xs)). fold (nn (dedupv (nn xs))).
    rewrite (nn_id (dedupv (nn xs))); [reflexivity|].
    apply Forall_forall. intros v Hv. apply Hin in Hv.
    pose proof (nn_nonnull xs) as Hnn. rewrite Forall_forall in Hnn. apply Hnn. exact Hv.
  - intros v. rewrite Hin. unfold nn. rewrite filter_In. split.
    + intros [H1 H2]. split; [exact H1|]. intros ->. discriminate.
    + intros [H1 H2]. split; [exact H1|]. destruct v; [congruence|reflexivity|reflexivity|reflexivity].
Qed.

(* the engine's DISTINCT aggregate (distinct table over all partitions, then the ordinary state)
   agrees with the specification's DISTINCT flag, for every split *)
Theorem distinct_agg_split_invariant : forall f parts xs n,
  f <> ASum -> f <> ACountStar -> wt f xs -> Permutation (concat parts) xs ->
  agg_parts_distinct f parts = agg_apply f true n xs.
Proof.
  intros f parts xs n Hf Hcs HW HP. unfold agg_parts_distinct. fold (dedupv (concat parts)).
  destruct (dedupv_spec (concat parts)) as (Hnd1 & Hin1).
  destruct (distinct_agg_spec f n xs) as (-> & Hnd2 & Hin2).
  set (D := dedupv (concat parts)). set (E := dedupv (nn xs)).
  assert (HPD : Permutation (concat [nn D]) E).
  { cbn [concat]. rewrite app_nil_r. apply NoDup_Permutation; [apply NoDup_filter; exact Hnd1|exact Hnd2|].
    intros v. unfold nn at 1. rewrite filter_In. unfold D, E. rewrite Hin1, Hin2. split.
    - intros [H1 H2]. split; [eapply Permutation_in; eassumption|intros ->; discriminate].
    - intros [H1 H2]. split; [eapply Permutation_in; [symmetry; exact HP|exact H1]|].
      destruct v; [congruence|reflexivity|reflexivity|reflexivity]. }
  assert (HWE : wt f E).
  { destruct HW as [k HWk]. exists k. apply Forall_forall. intros v Hv. apply Hin2 in Hv as [Hv _].
    rewrite Forall_forall in HWk. apply HWk. exact Hv. }
  assert (HWD : wt f D).
  { destruct HW as [k HWk]. exists k. apply Forall_forall. intros v Hv. apply Hin1 in Hv.
    rewrite Forall_forall in HWk. apply HWk. eapply Permutation_in; eassumption. }
  (* feeding D (NULL included, skipped by the executor) = feeding nn D *)
  assert (Hfeed : agg_parts f [D] = agg_parts f [nn D]).
  { unfold agg_parts. cbn [mapM]. unfold part_state. rewrite !feed_inputs. rewrite !inputs_nn by exact Hcs.
    rewrite (nn_id (nn D)) by apply nn_nonnull. reflexivity. }
  rewrite Hfeed. rewrite (agg_split_invariant f [nn D] E Hf HWE HPD).
  unfold agg_apply. destruct f; try congruence; reflexivity.
Qed.

Example distinct_agg_split_invariant_sat :
  wt ACount [VInt 1; VNull; VInt 1; VInt 2] /\
  agg_parts_distinct ACount [[VInt 1; VNull]; [VInt 1; VInt 2]] = Ok (VInt 2) /\
  agg_apply ACount true 4 [VInt 1; VNull; VInt 1; VInt 2] = Ok (VInt 2).
Proof. split; [exists 0%nat; repeat (apply Forall_cons; [right; exact I|]); apply Forall_nil|]. vm_compute. auto. Qed.
