(* DELTA_BINARY_PACKED on the current decoder: every read split of an encoded page returns the
   encoded values (composition of PqDbpRoundtrip.dbp_roundtrip and PqDbpSplit.dbp_read_split), and the
   DELTA_LENGTH_BYTE_ARRAY / DELTA_BYTE_ARRAY round trips with the length-prefix premise discharged. *)
From Coq Require Import NArith ZArith List Bool Lia ZifyBool ZifyNat ZifyN.
From GV Require Import model.PqBits model.PqDelta proofs.PqBitsProofs proofs.PqDbpSplit proofs.PqDbpRoundtrip
  proofs.PqPlainProofs.
Import ListNotations.
Open Scope N_scope.

Definition sum_nat (ns : list nat) : nat := fold_right Nat.add O ns.

(* if the single read of sum ns values succeeds, so does every split of it, with the same values *)
Lemma dbp_reads_total bits : forall ns s vs s',
  0 < d_per s -> N.of_nat (sum_nat ns) <= dbp_avail s ->
  dbp_read bits (sum_nat ns) s = Ok (vs, s') ->
  exists out, dbp_reads bits ns s = Ok out /\ concat out = vs.
Proof.
  induction ns as [|n r IH]; intros s vs s' Hper Hav H.
  - cbn [sum_nat fold_right dbp_read] in H. injection H as Hv _. subst vs.
    exists []. split; reflexivity.
  - cbn [sum_nat fold_right] in H, Hav. fold (sum_nat r) in H, Hav.
    rewrite (dbp_read_split bits n (sum_nat r) s Hper Hav) in H.
    destruct (dbp_read bits n s) as [[v1 s1]| | |] eqn:E1; cbn [bind] in H; try discriminate.
    destruct (dbp_read bits (sum_nat r) s1) as [[v2 s2]| | |] eqn:E2; cbn [bind] in H; try discriminate.
    injection H as Hv _. subst vs.
    assert (Hn : N.of_nat n <= dbp_avail s) by (clear - Hav; lia).
    destruct (dbp_read_ok bits n s v1 s1 Hper Hn E1) as (_ & Hp1 & Ha1).
    assert (Hper1 : 0 < d_per s1) by (rewrite Hp1; exact Hper).
    assert (Hav1 : N.of_nat (sum_nat r) <= dbp_avail s1) by (rewrite Ha1; clear - Hav; lia).
    destruct (IH s1 v2 s2 Hper1 Hav1 E2) as (out & Ho & Hc).
    exists (v1 :: out). cbn [dbp_reads]. rewrite E1. cbn [bind]. rewrite Ho. cbn [bind concat].
    split; [reflexivity|]. rewrite Hc. reflexivity.
Qed.

(* the decoder created from an encoded page has the encoder's miniblock size *)
Lemma dbp_new_per_enc bits block mbc vals rest s :
  block < 2 ^ 64 -> mbc < 2 ^ 64 ->
  dbp_new bits (dbp_encode bits block mbc vals ++ rest) = Ok s -> d_per s = block / mbc.
Proof.
  intros Hb Hm. unfold dbp_encode, dbp_new. rewrite <- !app_assoc.
  rewrite (vlq_roundtrip block _ Hb). cbn [bind].
  rewrite (vlq_roundtrip mbc _ Hm). cbn [bind].
  destruct (vlq_decode _) as [[total b3]| | |]; cbn [bind]; try discriminate.
  destruct (vlq_decode b3) as [[fz b4]| | |]; cbn [bind]; try discriminate.
  destruct (opt_err _) as [first| | |]; cbn [bind]; try discriminate.
  destruct (mbc =? 0); try discriminate.
  destruct (1 <? total).
  - intros H. apply dbp_load_ok in H. destruct H as (_ & Hp & _). rewrite Hp. reflexivity.
  - intros H. injection H as H. subst s. reflexivity.
Qed.

(* EVERY read split of an encoded page returns the encoded values *)
Theorem dbp_decode_every_split : forall bits block mbc vals ns, dbp_params_ok bits block mbc ->
  Forall (fun v => v < 2 ^ bits) vals -> N.of_nat (length vals) < 2 ^ 32 ->
  sum_nat ns = length vals ->
  exists out, dbp_decode_split bits (dbp_encode bits block mbc vals) ns = Ok out /\ concat out = vals.
Proof.
  intros bits block mbc vals ns Hp Hv Hl Hs.
  destruct (dbp_roundtrip bits block mbc vals [] Hp Hv Hl (Forall_nil _))
    as (s & s' & Hnew & Hread & _ & _ & _ & Htot).
  pose proof Hnew as Hnew'. rewrite app_nil_r in Hnew'.
  destruct Hp as (_ & Hm0 & Hm & _ & Hper & _ & Hb).
  assert (Hps : d_per s = block / mbc).
  { apply (dbp_new_per_enc bits block mbc vals [] s); [clear - Hb; lia|clear - Hm; lia|exact Hnew]. }
  assert (Hper' : 0 < d_per s) by (rewrite Hps; exact Hper).
  destruct (dbp_new_avail bits _ s Hnew') as (Hav & _).
  assert (Hav' : N.of_nat (sum_nat ns) <= dbp_avail s) by (rewrite Hav, Htot, Hs; clear; lia).
  rewrite <- Hs in Hread.
  destruct (dbp_reads_total bits ns s vals s' Hper' Hav' Hread) as (out & Ho & Hc).
  exists out. unfold dbp_decode_split. rewrite Hnew'. cbn [bind]. split; assumption.
Qed.

(* the form asked for: whatever a split decode returns, its concatenation is the value list *)
Theorem dbp_decode_any_split : forall bits block mbc vals ns out, dbp_params_ok bits block mbc ->
  Forall (fun v => v < 2 ^ bits) vals -> N.of_nat (length vals) < 2 ^ 32 ->
  sum_nat ns = length vals ->
  dbp_decode_split bits (dbp_encode bits block mbc vals) ns = Ok out -> concat out = vals.
Proof.
  intros bits block mbc vals ns out Hp Hv Hl Hs H.
  destruct (dbp_decode_every_split bits block mbc vals ns Hp Hv Hl Hs) as (out' & Ho & Hc).
  rewrite Ho in H. injection H as H. subst out'. exact Hc.
Qed.

Example dbp_decode_every_split_ex :
  dbp_params_ok 32 128 4 /\ sum_nat [2%nat; 0%nat; 1%nat; 1%nat] = length [1; 2; 3; 4] /\
  dbp_decode_split 32 (dbp_encode 32 128 4 [1; 2; 3; 4]) [2%nat; 0%nat; 1%nat; 1%nat] = Ok [[1; 2]; []; [3]; [4]].
Proof.
  split; [|split; [reflexivity|vm_compute; reflexivity]].
  unfold dbp_params_ok. repeat split; try (vm_compute; reflexivity). left; reflexivity.
Qed.

(* ---------- DELTA_LENGTH_BYTE_ARRAY / DELTA_BYTE_ARRAY ---------- *)
Theorem dlba_roundtrip_ok : forall block mbc vals, dbp_params_ok 32 block mbc ->
  Forall bytes_ok vals -> N.of_nat (length vals) < 2 ^ 32 -> N.of_nat (length (concat vals)) < 2 ^ 32 ->
  dlba_decode (dlba_encode block mbc vals) = Ok vals.
Proof.
  intros block mbc vals Hp. apply dlba_roundtrip.
  intros lens rest. apply dbp_read_lengths_roundtrip. exact Hp.
Qed.

Theorem dba_roundtrip_ok : forall block mbc vals, dbp_params_ok 32 block mbc ->
  Forall bytes_ok vals -> Forall (fun v => N.of_nat (length v) < 2 ^ 32) vals -> N.of_nat (length vals) < 2 ^ 32 ->
  dba_decode (dba_encode block mbc vals) = Ok vals.
Proof.
  intros block mbc vals Hp. apply dba_roundtrip.
  intros lens rest. apply dbp_read_lengths_roundtrip. exact Hp.
Qed.

Print Assumptions dbp_decode_every_split.
Print Assumptions dlba_roundtrip_ok.
