(* C11 proofs, part 1: row-group pruning is sound exactly under `conv_monotone_on`;
   pushdown only skips row groups; projections commute. *)
From Coq Require Import ZArith List Bool Lia Permutation.
From GV Require Import model.Pruner.
Import ListNotations.
Open Scope Z_scope.

(* ------------------------------------------------------------------ should_prune *)
Lemma prune_loop_true : forall lt mn mx cs,
  prune_loop lt mn mx cs = Ok true ->
  exists k v, In (CVal k v) cs /\ (v < mn \/ mx < v).
Proof.
  intros lt mn mx cs; induction cs as [|c r IH]; cbn [prune_loop]; intro H.
  - discriminate.
  - destruct c as [|k v]; [discriminate|].
    destruct (accepts lt k); [|discriminate].
    destruct (Z.gtb_spec mn v) as [Hgt|Hle].
    + exists k, v; split; [left; reflexivity | left; lia].
    + destruct (Z.ltb_spec mx v) as [Hlt|Hge].
      * exists k, v; split; [left; reflexivity | right; lia].
      * destruct (IH H) as (k' & v' & Hin & Hout).
        exists k', v'; split; [right; exact Hin | exact Hout].
Qed.

Lemma should_prune_true : forall lt st cs,
  should_prune lt st cs = Ok true ->
  exists mn mx k v, st_min st = Some mn /\ st_max st = Some mx /\ In (CVal k v) cs /\
                    (v < conv lt mn \/ conv lt mx < v) /\ conv lt mn <= conv lt mx.
Proof.
  intros lt st cs; unfold should_prune.
  destruct (negb (st_max_exact st && st_min_exact st)); [discriminate|].
  destruct (st_min st) as [mn|]; [|discriminate].
  destruct (st_max st) as [mx|]; [|discriminate].
  destruct (Z.gtb_spec (conv lt mn) (conv lt mx)) as [Hgt|Hle]; [discriminate|].
  intro H. destruct (prune_loop_true _ _ _ _ H) as (k & v & Hin & Hout).
  exists mn, mx, k, v; auto.
Qed.

(* T: a pruned row group holds no value that passes the pushed conjunction *)
Lemma prune_sound : forall lt o st cs vs,
  should_prune lt st cs = Ok true ->
  stats_describe o st vs ->
  conv_monotone_on lt o st ->
  forall cell, In cell vs -> ~ passes lt cell cs.
Proof.
  intros lt o st cs vs Hp Hd Hm cell Hin Hpass.
  destruct (should_prune_true _ _ _ Hp) as (mn & mx & k & v & Hmn & Hmx & Hc & Hout & _).
  destruct (Hpass _ Hc) as (w & k' & Hcell & Heq).
  injection Heq as _ Hv. subst cell v.
  destruct (Hd w Hin) as [Hlo Hhi].
  specialize (Hlo _ Hmn). specialize (Hhi _ Hmx).
  assert (H1 : conv lt mn <= conv lt w).
  { apply (Hm mn mx Hmn Hmx mn w); lia. }
  assert (H2 : conv lt w <= conv lt mx).
  { apply (Hm mn mx Hmn Hmx w mx); lia. }
  lia.
Qed.

(* one constant: no row equals it *)
Lemma prune_sound_single : forall lt o st k c vs,
  should_prune lt st [CVal k c] = Ok true ->
  stats_describe o st vs -> conv_monotone_on lt o st ->
  forall v, In (Some v) vs -> conv lt v <> c.
Proof.
  intros lt o st k c vs Hp Hd Hm v Hin Heq.
  apply (prune_sound lt o st [CVal k c] vs Hp Hd Hm (Some v) Hin).
  intros c' [<-|[]]. exists v, k. subst c. auto.
Qed.

(* the hypotheses of prune_sound are satisfiable *)
Definition u32 := mk_lt 32 false.
Definition i32 := mk_lt 32 true.
Definition st_ex : stats := mk_st (Some 20) (Some 30) true true false 0.
Example prune_sound_hyps_sat :
  should_prune i32 st_ex [CVal (KInt i32) 7] = Ok true /\
  stats_describe OSigned st_ex [Some 20; None; Some 25; Some 30].
Proof.
  split; [vm_compute; reflexivity|].
  intros v Hin. cbn in Hin.
  destruct Hin as [H|[H|[H|[H|[]]]]]; try discriminate; injection H as <-;
    (split; intros b Hb; cbn in Hb; injection Hb as <-; cbn; lia).
Qed.

(* ---- when the side condition holds ---- *)
Lemma wrap_s_id : forall bits z, 0 < bits -> - 2 ^ (bits - 1) <= z < 2 ^ (bits - 1) -> wrap_s bits z = z.
Proof.
  intros bits z Hb Hr. unfold wrap_s.
  assert (Hp : 2 ^ bits = 2 * 2 ^ (bits - 1)).
  { replace bits with (Z.succ (bits - 1)) at 1 by lia. apply Z.pow_succ_r. lia. }
  assert (Hpos : 0 < 2 ^ (bits - 1)) by (apply Z.pow_pos_nonneg; lia).
  destruct (Z_lt_le_dec z 0) as [Hneg|Hnn].
  - assert (Hm : z mod 2 ^ bits = z + 2 ^ bits).
    { symmetry. apply Z.mod_unique with (q := -1); lia. }
    rewrite Hm. destruct (Z.ltb_spec (z + 2 ^ bits) (2 ^ (bits - 1))); lia.
  - rewrite Z.mod_small by lia. destruct (Z.ltb_spec z (2 ^ (bits - 1))); lia.
Qed.

(* statistics written in the order of a SIGNED logical type whose range contains the bounds
   (Int8/Int16 stored as INT32, Int32, Int64): monotone *)
Lemma conv_monotone_signed : forall bits st,
  0 < bits ->
  (forall mn, st_min st = Some mn -> - 2 ^ (bits - 1) <= mn) ->
  (forall mx, st_max st = Some mx -> mx < 2 ^ (bits - 1)) ->
  conv_monotone_on (mk_lt bits true) OSigned st.
Proof.
  intros bits st Hb Hlo Hhi mn mx Hmn Hmx a b H1 H2 H3. cbn [okey] in *.
  specialize (Hlo _ Hmn). specialize (Hhi _ Hmx).
  unfold conv; cbn [lt_signed lt_bits].
  rewrite !wrap_s_id by lia. lia.
Qed.

(* statistics written in UNSIGNED order for an unsigned logical type of the physical width
   (UInt32 in INT32, UInt64 in INT64; min_value / max_value with TYPE_ORDER): monotone *)
Lemma conv_monotone_unsigned : forall bits st,
  conv_monotone_on (mk_lt bits false) (OUnsigned bits) st.
Proof.
  intros bits st mn mx _ _ a b _ H _. unfold conv, wrap_u; cbn [lt_signed lt_bits okey] in *. exact H.
Qed.

(* deprecated (signed-order) statistics on an unsigned logical type are harmless only while every
   bound is non-negative *)
Lemma conv_monotone_signed_on_unsigned_nonneg : forall bits st,
  0 < bits ->
  (forall mn, st_min st = Some mn -> 0 <= mn) ->
  (forall mx, st_max st = Some mx -> mx < 2 ^ bits) ->
  conv_monotone_on (mk_lt bits false) OSigned st.
Proof.
  intros bits st Hb Hlo Hhi mn mx Hmn Hmx a b H1 H2 H3. cbn [okey] in *.
  specialize (Hlo _ Hmn). specialize (Hhi _ Hmx).
  unfold conv, wrap_u; cbn [lt_signed lt_bits].
  rewrite !Z.mod_small by lia. lia.
Qed.

(* the reading "no row equals ANY of the constants" is false as soon as there are two constants,
   even with monotone conversion: [20,30] is pruned for `a = 25 AND a = 7` and contains 25 *)
Lemma prune_sound_forall_consts_refuted :
  exists lt o st cs vs v k c,
    should_prune lt st cs = Ok true /\ stats_describe o st vs /\ conv_monotone_on lt o st /\
    In (Some v) vs /\ In (CVal k c) cs /\ conv lt v = c.
Proof.
  exists i32, OSigned, st_ex, [CVal (KInt i32) 25; CVal (KInt i32) 7], [Some 25], 25, (KInt i32), 25.
  split; [vm_compute; reflexivity|]. split; [|split; [|split; [|split]]].
  - intros v [H|[]]. injection H as <-. split; intros b Hb; cbn in Hb; injection Hb as <-; cbn; lia.
  - apply (conv_monotone_signed 32 st_ex); [lia| |]; intros b Hb; cbn in Hb; injection Hb as <-; lia.
  - left; reflexivity.
  - left; reflexivity.
  - vm_compute. reflexivity.
Qed.

(* ---- the same-width conversions (i32 <-> u32 / i32, i64 <-> u64 / i64): with the `min > max`
   guard NO side condition is left.  Bounds of one sign convert monotonically; mixed-sign bounds of
   the "wrong" order come out as min > max and are rejected. ---- *)
Lemma pow2_double : forall pb, 0 < pb -> 2 ^ pb = 2 * 2 ^ (pb - 1) /\ 0 < 2 ^ (pb - 1).
Proof.
  intros pb Hb. split.
  - replace pb with (Z.succ (pb - 1)) at 1 by lia. apply Z.pow_succ_r. lia.
  - apply Z.pow_pos_nonneg; lia.
Qed.

Lemma mod_native : forall pb z, 0 < pb -> native pb z ->
  z mod 2 ^ pb = if z <? 0 then z + 2 ^ pb else z.
Proof.
  intros pb z Hb Hn. unfold native in Hn. destruct (pow2_double pb Hb) as [Hp Hpos].
  destruct (Z.ltb_spec z 0) as [Hneg|Hnn].
  - symmetry. apply Z.mod_unique with (q := -1); lia.
  - apply Z.mod_small. lia.
Qed.

Lemma conv_same_width : forall lt pb z, 0 < pb -> lt_bits lt = pb -> native pb z ->
  conv lt z = if lt_signed lt then z else if z <? 0 then z + 2 ^ pb else z.
Proof.
  intros lt pb z Hb Hw Hn. unfold conv. rewrite Hw. destruct (lt_signed lt).
  - apply wrap_s_id; [exact Hb|exact Hn].
  - unfold wrap_u. apply mod_native; assumption.
Qed.

Definition order_of_width (pb : Z) (o : sorder) : Prop := o = OSigned \/ o = OUnsigned pb.

Lemma okey_native : forall pb o z, 0 < pb -> order_of_width pb o -> native pb z ->
  okey o z = match o with OSigned => z | OUnsigned _ => if z <? 0 then z + 2 ^ pb else z end.
Proof.
  intros pb o z Hb [->| ->] Hn; cbn [okey]; [reflexivity|]. apply mod_native; assumption.
Qed.

Lemma guard_between : forall lt pb o mn mx a,
  0 < pb -> lt_bits lt = pb -> order_of_width pb o ->
  native pb mn -> native pb mx -> native pb a ->
  conv lt mn <= conv lt mx ->
  okey o mn <= okey o a -> okey o a <= okey o mx ->
  conv lt mn <= conv lt a <= conv lt mx.
Proof.
  intros lt pb o mn mx a Hb Hw Ho Nmn Nmx Na Hg H1 H2.
  rewrite (okey_native pb o mn Hb Ho Nmn), (okey_native pb o a Hb Ho Na) in H1.
  rewrite (okey_native pb o a Hb Ho Na), (okey_native pb o mx Hb Ho Nmx) in H2.
  rewrite (conv_same_width lt pb mn Hb Hw Nmn), (conv_same_width lt pb mx Hb Hw Nmx) in Hg.
  rewrite (conv_same_width lt pb mn Hb Hw Nmn), (conv_same_width lt pb mx Hb Hw Nmx),
          (conv_same_width lt pb a Hb Hw Na).
  unfold native in *. destruct (pow2_double pb Hb) as [Hp Hpos].
  destruct (lt_signed lt), o;
    destruct (Z.ltb_spec mn 0), (Z.ltb_spec mx 0), (Z.ltb_spec a 0); lia.
Qed.

(* T (after f11c5d40d): for a logical type of the physical width, statistics in either order of that
   width, bounds and values native: a pruned row group holds no passing value — no side condition *)
Lemma prune_sound_same_width : forall lt pb o st cs vs,
  0 < pb -> lt_bits lt = pb -> order_of_width pb o ->
  stats_native pb st -> (forall w, In (Some w) vs -> native pb w) ->
  should_prune lt st cs = Ok true ->
  stats_describe o st vs ->
  forall cell, In cell vs -> ~ passes lt cell cs.
Proof.
  intros lt pb o st cs vs Hb Hw Ho [Nmn Nmx] Nv Hp Hd cell Hin Hpass.
  destruct (should_prune_true _ _ _ Hp) as (mn & mx & k & v & Hmn & Hmx & Hc & Hout & Hg).
  destruct (Hpass _ Hc) as (w & k' & Hcell & Heq).
  injection Heq as _ Hv. subst cell v.
  destruct (Hd w Hin) as [Hlo Hhi].
  specialize (Hlo _ Hmn). specialize (Hhi _ Hmx).
  pose proof (guard_between lt pb o mn mx w Hb Hw Ho (Nmn _ Hmn) (Nmx _ Hmx) (Nv w Hin) Hg Hlo Hhi).
  lia.
Qed.

(* the narrowing conversions (INT32 -> 8/16 bit logical types): what remains is that the bounds lie
   in the range of the logical type (then the conversion is the identity between them) *)
Lemma prune_sound_bounds_in_lrange : forall lt st cs vs,
  0 < lt_bits lt -> stats_in_lrange lt st ->
  should_prune lt st cs = Ok true ->
  stats_describe OSigned st vs ->
  forall cell, In cell vs -> ~ passes lt cell cs.
Proof.
  intros [bits sg] st cs vs Hb [Rmn Rmx] Hp Hd. cbn [lt_bits] in Hb.
  apply (prune_sound (mk_lt bits sg) OSigned st cs vs Hp Hd).
  unfold in_lrange in Rmn, Rmx; cbn [lt_signed lt_bits] in Rmn, Rmx. destruct sg.
  - apply conv_monotone_signed; [exact Hb| |]; intros b Hbd; [apply (Rmn _ Hbd)|apply (Rmx _ Hbd)].
  - apply conv_monotone_signed_on_unsigned_nonneg; [exact Hb| |]; intros b Hbd; [apply (Rmn _ Hbd)|apply (Rmx _ Hbd)].
Qed.

(* ... and that hypothesis is needed: an INT_8 column stored as INT32 with a (widened, inexact)
   upper bound 300: 300 as i8 = 44, the guard 0 <= 44 passes, `a = 100` prunes the group holding 100 *)
Definition i8 := mk_lt 8 true.
Definition st_narrow : stats := mk_st (Some 0) (Some 300) true true false 0.
Lemma prune_sound_narrowing_needs_range_refuted :
  exists lt pb o st cs vs cell,
    0 < pb /\ order_of_width pb o /\ stats_native pb st /\ (forall w, In (Some w) vs -> native pb w) /\
    should_prune lt st cs = Ok true /\ stats_describe o st vs /\ In cell vs /\ passes lt cell cs.
Proof.
  exists i8, 32, OSigned, st_narrow, [CVal (KInt i8) 100], [Some 100], (Some 100).
  split; [lia|]. split; [left; reflexivity|]. split; [|split; [|split; [|split; [|split]]]].
  - split; intros b Hb; cbn in Hb; injection Hb as <-; unfold native; lia.
  - intros w [H|[]]. injection H as <-. unfold native; lia.
  - vm_compute. reflexivity.
  - intros v [H|[]]. injection H as <-. split; intros b Hb; cbn in Hb; injection Hb as <-; cbn; lia.
  - left; reflexivity.
  - intros c [<-|[]]. exists 100, (KInt i8). split; [reflexivity|]. vm_compute. reflexivity.
Qed.

(* ---- the repaired defect (DESIGN §5-29), as a statement about the OLD definition: deprecated,
   signed-order statistics of a UINT_32 row group {1, 3000000000, 7}: as INT32 the values are
   1, -1294967296, 7, so min / max are -1294967296 / 7; the statistics are correct for the format,
   the old code pruned the group for `a = 1`, and the group contains 1.  The current code does not
   use these bounds at all. ---- *)
Definition st_w29 : stats := mk_st (Some (-1294967296)) (Some 7) true true true 0.
Definition vs_w29 : list (option Z) := [Some 1; Some (-1294967296); Some 7].

Lemma st_w29_from_thrift :
  from_thrift (mk_ts (Some 7) (Some (-1294967296)) (Some 0) None None) = Ok st_w29.
Proof. vm_compute. reflexivity. Qed.

Lemma old_prune_sound_unconditional_refuted :
  exists lt o st cs vs cell,
    Old.should_prune lt st cs = Ok true /\ stats_describe o st vs /\ In cell vs /\ passes lt cell cs.
Proof.
  exists u32, OSigned, st_w29, [CVal (KInt u32) 1], vs_w29, (Some 1).
  split; [vm_compute; reflexivity|]. split; [|split].
  - intros v Hin. cbn in Hin.
    destruct Hin as [H|[H|[H|[]]]]; injection H as <-;
      (split; intros b Hb; cbn in Hb; injection Hb as <-; cbn; lia).
  - left; reflexivity.
  - intros c [<-|[]]. exists 1, (KInt u32). split; [reflexivity|]. vm_compute. reflexivity.
Qed.

Lemma w29_not_pruned_now : forall cs, should_prune u32 st_w29 cs = Ok false.
Proof. intro cs. vm_compute. reflexivity. Qed.

Lemma w29_not_monotone : ~ conv_monotone_on u32 OSigned st_w29.
Proof.
  intro H. specialize (H _ _ eq_refl eq_refl (-1294967296) 1).
  cbn [okey] in H. assert (C : conv u32 (-1294967296) <= conv u32 1) by (apply H; lia).
  vm_compute in C. apply C. reflexivity.
Qed.

(* the guard only removes prunes: whatever the current code prunes, the old code pruned *)
Lemma should_prune_implies_old : forall lt st cs,
  should_prune lt st cs = Ok true -> Old.should_prune lt st cs = Ok true.
Proof.
  intros lt st cs. unfold should_prune, Old.should_prune.
  destruct (negb _); [discriminate|]. destruct (st_min st); [|discriminate]. destruct (st_max st); [|discriminate].
  destruct (_ >? _); [discriminate|]. exact (fun H => H).
Qed.

(* the remaining quirk of the loop: a NULL constant stops the scan of the constants, so the
   answer depends on the order of the conjuncts (never unsound: `col = NULL` is never true) *)
Lemma null_constant_order_dependent :
  should_prune i32 st_ex [CVal (KInt i32) 7; CNull] = Ok true /\
  should_prune i32 st_ex [CNull; CVal (KInt i32) 7] = Ok false.
Proof. split; vm_compute; reflexivity. Qed.

(* the hypotheses of prune_sound_same_width are satisfiable, with mixed-sign-free deprecated bounds on u32 *)
Definition st_ex_u : stats := mk_st (Some (-1294967296)) (Some (-5)) true true true 0.
Example prune_sound_same_width_hyps_sat :
  should_prune u32 st_ex_u [CVal (KInt u32) 7] = Ok true /\ stats_native 32 st_ex_u /\
  stats_describe OSigned st_ex_u [Some (-1294967296); Some (-5)].
Proof.
  split; [vm_compute; reflexivity|]. split.
  - split; intros b Hb; cbn in Hb; injection Hb as <-; unfold native; lia.
  - intros v [H|[H|[]]]; injection H as <-; (split; intros b Hb; cbn in Hb; injection Hb as <-; cbn; lia).
Qed.

(* ------------------------------------------------------------------ scans *)
Lemma filter_app_ : forall {A} (p : A -> bool) l1 l2, filter p (l1 ++ l2) = filter p l1 ++ filter p l2.
Proof. intros A p l1 l2; induction l1 as [|x r IH]; cbn; [reflexivity|]. destruct (p x); cbn; rewrite IH; reflexivity. Qed.

Lemma filter_none : forall {A} (p : A -> bool) l, (forall x, In x l -> p x = false) -> filter p l = [].
Proof.
  intros A p l; induction l as [|x r IH]; intro H; cbn; [reflexivity|].
  rewrite (H x (or_introl eq_refl)). apply IH. intros y Hy; apply H; right; exact Hy.
Qed.

(* generic: dropping row groups none of whose rows pass q leaves `filter q` unchanged *)
Lemma scan_hinted_filter : forall prj pr fs (q : row -> bool) f rows,
  scan_hinted prj pr fs f = Ok rows ->
  (forall g, In g f -> rg_should_prune prj pr (rg_stats g) fs = Ok true ->
             forall r, In r (rg_rows g) -> q r = false) ->
  filter q rows = filter q (scan_all f).
Proof.
  intros prj pr fs q f; induction f as [|g r IH]; intros rows Hs Hd.
  - cbn in Hs. injection Hs as <-. reflexivity.
  - cbn [scan_hinted] in Hs. unfold scan_all; cbn [flat_map]. fold (scan_all r).
    destruct (rg_should_prune prj pr (rg_stats g) fs) as [drop|] eqn:Hg; [|discriminate].
    destruct (scan_hinted prj pr fs r) as [rows'|] eqn:Hr; [|discriminate].
    injection Hs as <-.
    assert (IH' : filter q rows' = filter q (scan_all r)).
    { apply IH; [reflexivity|]. intros g' Hin; apply Hd; right; exact Hin. }
    rewrite filter_app_. destruct drop.
    + rewrite (filter_none q (rg_rows g)); [exact IH'|].
      intros x Hx. apply (Hd g (or_introl eq_refl) Hg x Hx).
    + rewrite filter_app_, IH'. reflexivity.
Qed.

(* which column of a row group said "prune" *)
Lemma rg_should_prune_true : forall prj pr rgst fs,
  rg_should_prune prj pr rgst fs = Ok true ->
  exists c st lt, In c prj /\ rgst c = Some st /\ pr c = PPrim lt /\
                  should_prune lt st (col_consts c fs) = Ok true.
Proof.
  intros prj pr rgst fs; induction prj as [|c r IH]; cbn [rg_should_prune]; intro H; [discriminate|].
  destruct (rgst c) as [st|] eqn:Hst.
  - destruct (col_should_prune (pr c) st (col_consts c fs)) as [[|]|] eqn:Hc; try discriminate.
    + unfold col_should_prune in Hc. destruct (pr c) as [|lt] eqn:Hp; [discriminate|].
      exists c, st, lt. repeat split; auto. left; reflexivity.
    + destruct (IH H) as (c' & st' & lt' & Hin & R). exists c', st', lt'. split; [right; exact Hin|exact R].
  - destruct (IH H) as (c' & st' & lt' & Hin & R). exists c', st', lt'. split; [right; exact Hin|exact R].
Qed.

Lemma col_consts_in : forall c fs k, In k (col_consts c fs) -> In (mk_sf [c] (FConstEq k)) fs.
Proof.
  intros c fs k; induction fs as [|f r IH]; cbn [col_consts flat_map]; [intros []|].
  intro H. apply in_app_or in H. destruct H as [H|H]; [|right; apply IH; exact H].
  left. destruct f as [cols ft]; cbn [f_cols f_type] in H.
  destruct cols as [|c0 [|c1 cr]]; [destruct H| |destruct ft; destruct H].
  destruct ft as [k0|]; [|destruct H].
  destruct (Nat.eqb_spec c0 c) as [->|]; [|destruct H].
  destruct H as [<-|[]]. reflexivity.
Qed.

(* a row satisfies a pushed hint: the cell of the (single) data column equals the constant after
   the reader's cast; filters of unknown shape carry no obligation *)
Definition hint_holds (pr : nat -> pruner) (flt : sfilter) (r : row) : Prop :=
  match f_cols flt, f_type flt with
  | [c], FConstEq k => forall lt, pr c = PPrim lt -> exists v kk, nth c r None = Some v /\ k = CVal kk (conv lt v)
  | _, _ => True
  end.

(* the statistics of a row group are valid for the format, and the conversion is monotone on them *)
Definition rg_valid (pr : nat -> pruner) (ord : nat -> sorder) (g : rowgroup) : Prop :=
  forall c st lt, rg_stats g c = Some st -> pr c = PPrim lt ->
    stats_describe (ord c) st (map (fun r => nth c r None) (rg_rows g)) /\ conv_monotone_on lt (ord c) st.

(* T: pushdown_only_skips.  The Filter node stays above the scan (optimizer/scan_filter.rs clones the
   conjuncts into the scan, it does not remove them), so the query computes
   filter p (project prj (scan_hinted ...)); if p implies every hint this is the same LIST as
   filtering the full scan (a fortiori the same bag). *)
Lemma pushdown_only_skips : forall prj pr ord fs (p : list (option Z) -> bool) f rows,
  scan_hinted prj pr fs f = Ok rows ->
  (forall g, In g f -> rg_valid pr ord g) ->
  (forall r flt, p (project prj r) = true -> In flt fs -> hint_holds pr flt r) ->
  filter p (map (project prj) rows) = filter p (map (project prj) (scan_all f)).
Proof.
  intros prj pr ord fs p f rows Hs Hv Hp.
  assert (E : forall l, filter p (map (project prj) l) = map (project prj) (filter (fun r => p (project prj r)) l)).
  { induction l as [|x r IH]; cbn; [reflexivity|]. destruct (p (project prj x)); cbn; rewrite IH; reflexivity. }
  rewrite !E. f_equal.
  apply (scan_hinted_filter prj pr fs _ f rows Hs).
  intros g Hg Hpr r Hr.
  destruct (p (project prj r)) eqn:Hpass; [exfalso|reflexivity].
  destruct (rg_should_prune_true _ _ _ _ Hpr) as (c & st & lt & _ & Hst & Hprc & Hsp).
  destruct (Hv g Hg c st lt Hst Hprc) as [Hd Hm].
  apply (prune_sound lt (ord c) st (col_consts c fs) _ Hsp Hd Hm (nth c r None)).
  - apply in_map_iff. exists r. split; [reflexivity|exact Hr].
  - intros k Hk. pose proof (Hp r _ Hpass (col_consts_in _ _ _ Hk)) as Hh.
    unfold hint_holds in Hh; cbn [f_cols f_type] in Hh.
    destruct (Hh lt Hprc) as (v & kk & Hcell & Hkeq). exists v, kk. split; assumption.
Qed.

(* without a filter that says "prune", the hinted scan IS the full scan *)
Lemma scan_no_hints : forall prj pr f, scan_hinted prj pr [] f = Ok (scan_all f).
Proof.
  intros prj pr f.
  assert (N : forall rgst, rg_should_prune prj pr rgst [] = Ok false).
  { intro rgst. induction prj as [|c r IH]; cbn [rg_should_prune]; [reflexivity|].
    destruct (rgst c) as [st|]; [|exact IH].
    cbn [col_consts flat_map]. destruct (pr c) as [|lt]; cbn [col_should_prune]; [exact IH|].
    unfold should_prune. destruct (negb _); [exact IH|].
    destruct (st_min st); [|exact IH]. destruct (st_max st); [|exact IH].
    destruct (_ >? _); exact IH. }
  induction f as [|g r IH]; cbn [scan_hinted]; [reflexivity|].
  rewrite N, IH. reflexivity.
Qed.

(* T: projection_commutes — any list of column indices (subset, reordering, repetition): projecting
   after the scan's own projection, or composing the index lists, is the same; and the projected
   scan is the map of the full scan *)
Lemma project_compose : forall prj prj2 r,
  (forall i, In i prj2 -> (i < length prj)%nat) ->
  project prj2 (project prj r) = project (map (fun i => nth i prj 0%nat) prj2) r.
Proof.
  intros prj prj2 r Hb. unfold project. rewrite map_map.
  apply map_ext_in. intros i Hi. specialize (Hb i Hi).
  rewrite (nth_indep _ None (nth 0%nat r None)) by (rewrite map_length; exact Hb).
  change (nth 0%nat r None) with ((fun j => nth j r None) 0%nat).
  rewrite map_nth. reflexivity.
Qed.

Lemma projection_commutes : forall prj pr f,
  (exists rows, scan_hinted prj pr [] f = Ok rows /\
     map (project prj) rows = map (project prj) (scan_all f)) /\
  (forall prj2 r, (forall i, In i prj2 -> (i < length prj)%nat) ->
     project prj2 (project prj r) = project (map (fun i => nth i prj 0%nat) prj2) r).
Proof.
  intros prj pr f. split.
  - exists (scan_all f). split; [apply scan_no_hints|reflexivity].
  - intros prj2 r Hb. apply project_compose. exact Hb.
Qed.

(* no error when every pushed constant has the column's type *)
Lemma should_prune_no_err : forall lt st cs,
  (forall k v, In (CVal k v) cs -> accepts lt k = true) -> should_prune lt st cs <> Err.
Proof.
  intros lt st cs H. unfold should_prune.
  destruct (negb _); [discriminate|]. destruct (st_min st) as [mn|]; [|discriminate].
  destruct (st_max st) as [mx|]; [|discriminate].
  destruct (_ >? _); [discriminate|].
  generalize (conv lt mn) (conv lt mx); intros a b.
  induction cs as [|c r IH]; cbn [prune_loop]; [discriminate|].
  destruct c as [|k v]; [discriminate|].
  rewrite (H k v (or_introl eq_refl)).
  destruct (a >? v); [discriminate|]. destruct (b <? v); [discriminate|].
  apply IH. intros k' v' Hin; apply (H k' v'); right; exact Hin.
Qed.
