(* Proofs about model/Cast.v (numeric casts). *)
From Coq Require Import NArith ZArith List Bool Lia ZifyBool.
From GV Require Import model.Cast.
Import ListNotations.
Open Scope Z_scope.
Ltac Zify.zify_post_hook ::= Z.div_mod_to_equations.

Definition std_width (b : Z) : Prop := b = 8 \/ b = 16 \/ b = 32 \/ b = 64 \/ b = 128.

Ltac eval_pows :=
  repeat match goal with
         | |- context [2 ^ ?k] => let v := eval vm_compute in (2 ^ k) in change (2 ^ k) with v
         | H : context [2 ^ ?k] |- _ => let v := eval vm_compute in (2 ^ k) in change (2 ^ k) with v in H
         end.

(* ---------- integer -> integer: the value or an error, never a wrapped value ---------- *)
Lemma cast_int_exact_or_error : forall s d v,
  std_width (i_bits s) -> std_width (i_bits d) -> in_range s v = true ->
  cast_int s d v = int_spec d v.
Proof.
  intros [ss sb] [ds db] v Hs Hd Hr. cbn [i_bits] in Hs, Hd.
  unfold cast_int, int_spec in *. cbn [i_signed i_bits] in *.
  destruct Hs as [-> | [-> | [-> | [-> | ->]]]];
  destruct Hd as [-> | [-> | [-> | [-> | ->]]]];
  destruct ss, ds; cbn [andb orb] in *;
  (* the bounds `DstT::MIN as SrcT`, `DstT::MAX as SrcT` are closed terms *)
  repeat match goal with
         | |- context [wrap ?t ?c] =>
             lazymatch c with
             | v => fail
             | _ => let r := eval vm_compute in (wrap t c) in change (wrap t c) with r
             end
         end;
  unfold in_range, imin, imax, wrap in *; cbn [i_signed i_bits andb orb] in *; eval_pows;
  repeat match goal with
         | |- context [if ?b then _ else _] => destruct b eqn:?
         end; try reflexivity; try (f_equal; lia); try (exfalso; lia).
Qed.

Example cast_int_hyps_sat : std_width 32 /\ std_width 16 /\ in_range (mk_ity true 32) 70000 = true
  /\ cast_int (mk_ity true 32) (mk_ity true 16) 70000 = Err.
Proof. unfold std_width. repeat split; auto; try lia. Qed.

(* ---------- float -> integer: truncation toward zero, error iff out of range / not finite ---------- *)
Lemma imin_nonpos t : imin t <= 0.
Proof. unfold imin. destruct (i_signed t); [|lia]. pose proof (Z.pow_nonneg 2 (i_bits t - 1)). lia. Qed.

Lemma imax_nonneg t : 1 <= i_bits t -> 0 <= imax t.
Proof.
  intros Hb. unfold imax. destruct (i_signed t).
  - assert (0 < 2 ^ (i_bits t - 1)) by (apply Z.pow_pos_nonneg; lia). lia.
  - assert (0 < 2 ^ i_bits t) by (apply Z.pow_pos_nonneg; lia). lia.
Qed.

Lemma fin_range_trunc : forall d neg m e, 1 <= i_bits d -> 0 <= m ->
  fin_gt neg m e (imin d - 1) && fin_lt neg m e (imax d + 1) = in_range d (signed neg (trunc_me m e)).
Proof.
  intros d neg m e Hb Hm. pose proof (imin_nonpos d) as Hlo. pose proof (imax_nonneg d Hb) as Hhi.
  unfold fin_gt, fin_lt, in_range, trunc_me, signed.
  destruct (0 <=? e) eqn:He.
  - destruct neg; lia.
  - assert (HP : 0 < 2 ^ (- e)) by (apply Z.pow_pos_nonneg; lia).
    remember (2 ^ (- e)) as P eqn:EP. clear EP He.
    remember (imin d) as lo eqn:Elo. remember (imax d) as hi eqn:Ehi. clear Elo Ehi Hb.
    pose proof (Z.div_mod m P ltac:(lia)) as Hdm. pose proof (Z.mod_pos_bound m P HP) as Hr.
    remember (m / P) as q eqn:Eq. remember (m mod P) as r eqn:Er. clear Eq Er.
    assert (Hq : 0 <= q) by nia.
    destruct neg.
    + (* -(m) against the bounds *)
      apply eq_true_iff_eq. rewrite !andb_true_iff, !Z.ltb_lt, !Z.leb_le. split; intros [H1 H2]; split; nia.
    + apply eq_true_iff_eq. rewrite !andb_true_iff, !Z.ltb_lt, !Z.leb_le. split; intros [H1 H2]; split; nia.
Qed.

Lemma decode_mant_nonneg : forall f bits neg m e, 0 <= f_mbits f -> decode f bits = FFin neg m e -> 0 <= m.
Proof.
  intros f bits neg m e Hmb. unfold decode.
  assert (HP : 0 < 2 ^ f_mbits f) by (apply Z.pow_pos_nonneg; lia).
  pose proof (Z.mod_pos_bound bits (2 ^ f_mbits f) HP) as Hm.
  destruct (_ =? 2 ^ f_ebits f - 1).
  - destruct (_ =? 0); discriminate.
  - destruct (_ =? 0); intros H; inversion H; subst; lia.
Qed.

Lemma cast_float_int_trunc : forall f d bits, 0 <= f_mbits f -> 1 <= i_bits d ->
  cast_float_int f d bits = float_int_spec f d bits.
Proof.
  intros f d bits Hmb Hb. unfold cast_float_int, float_int_spec, int_spec.
  destruct (decode f bits) as [| ng | ng m e] eqn:Hd; try reflexivity.
  pose proof (decode_mant_nonneg f bits ng m e Hmb Hd) as Hm.
  rewrite (fin_range_trunc d ng m e Hb Hm). reflexivity.
Qed.

(* ---------- decimals ---------- *)
Lemma unchecked_true_ok : forall t x y, unchecked true t x = Ok y -> y = x /\ in_range t x = true.
Proof. intros t x y. unfold unchecked. destruct (in_range t x); intros H; inversion H; auto. Qed.

Lemma checked_ok : forall t x y, checked t x = Ok y -> y = x /\ in_range t x = true.
Proof. intros t x y. unfold checked. destruct (in_range t x); intros H; inversion H; auto. Qed.

Lemma pow_in_true_ok : forall t b n r, pow_in true t b n = Ok r -> r = b ^ Z.of_nat n.
Proof.
  intros t b n. induction n as [|n IH]; intros r H.
  - cbn in H. inversion H. reflexivity.
  - cbn [pow_in] in H. destruct (pow_in true t b n) as [r0| |] eqn:E; cbn [obind] in H; try discriminate.
    apply unchecked_true_ok in H. destruct H as [-> _]. rewrite (IH r0 eq_refl).
    rewrite Nat2Z.inj_succ, Z.pow_succ_r by lia. lia.
Qed.

(* the digit count is exact *)
Lemma ndigits_fuel_spec : forall f v p, 0 < v -> v < 10 ^ Z.of_nat f ->
  (ndigits_fuel f v <= p <-> v < 10 ^ p).
Proof.
  induction f as [|f IH]; intros v p Hv Hlt.
  - cbn in Hlt. lia.
  - cbn [ndigits_fuel]. destruct (v <? 10) eqn:E.
    + destruct (Z_le_gt_dec 1 p) as [Hp|Hp].
      * split; [intros _|lia]. assert (10 ^ 1 <= 10 ^ p) by (apply Z.pow_le_mono_r; lia). lia.
      * split; [lia|]. intros H. destruct (Z.eq_dec p 0) as [->|]; [cbn in H; lia|].
        rewrite Z.pow_neg_r in H by lia. lia.
    + rewrite Nat2Z.inj_succ, Z.pow_succ_r in Hlt by lia.
      assert (Hq : 0 < v / 10 /\ v / 10 < 10 ^ Z.of_nat f) by lia.
      destruct Hq as [Hq1 Hq2]. specialize (IH (v / 10) (p - 1) Hq1 Hq2).
      destruct (Z_le_gt_dec 1 p) as [Hp|Hp].
      * replace (10 ^ p) with (10 * 10 ^ (p - 1)) by (rewrite <- Z.pow_succ_r by lia; f_equal; lia).
        split; intros H.
        -- assert (v / 10 < 10 ^ (p - 1)) by (apply IH; lia). lia.
        -- assert (ndigits_fuel f (v / 10) <= p - 1) by (apply IH; lia). lia.
      * split; intros H.
        -- exfalso. assert (v / 10 < 10 ^ (p - 1 )) by (apply IH; lia).
           rewrite Z.pow_neg_r in H0 by lia. lia.
        -- exfalso. destruct (Z.eq_dec p 0) as [->|]; [cbn in H; lia|].
           rewrite Z.pow_neg_r in H by lia. lia.
Qed.

Definition std_dty (d : dty) : Prop := d = D64 \/ d = D128.

Lemma validate_precision_sound : forall d value p, std_dty d -> 0 <= p ->
  validate_precision true d value p = Ok tt -> Z.abs value < 10 ^ p.
Proof.
  intros d value p Hd Hp. unfold validate_precision.
  destruct (d_maxp d <? p); [discriminate|].
  destruct (value =? 0) eqn:E0.
  - intros _. assert (0 < 10 ^ p) by (apply Z.pow_pos_nonneg; lia). lia.
  - destruct (unchecked true (d_prim d) (Z.abs value)) as [a| |] eqn:Eu; cbn [obind]; try discriminate.
    apply unchecked_true_ok in Eu. destruct Eu as [-> Hr].
    destruct (Z.abs value <=? 0); [discriminate|].
    destruct (p <? ndigits (Z.abs value)) eqn:En; [discriminate|]. intros _.
    unfold ndigits in En. apply (ndigits_fuel_spec 40); [lia| |lia].
    assert (Z.abs value <= 2 ^ 127) as Hb.
    { destruct Hd as [-> | ->]; unfold in_range, imax, imin, D64, D128, I64, I128 in Hr; cbn in Hr; lia. }
    assert (2 ^ 127 < 10 ^ Z.of_nat 40) by (vm_compute; reflexivity). lia.
Qed.

(* integer -> DECIMAL(p,s): the result fits the precision and is the exactly scaled value *)
Lemma int_to_decimal_fits_or_error : forall s d p sc v r,
  std_width (i_bits s) -> std_dty d -> in_range s v = true -> 0 <= p -> 0 <= sc ->
  int_to_decimal true s d p sc v = Ok r ->
  Z.abs r < 10 ^ p /\ r = v * 10 ^ sc.
Proof.
  intros s d p sc v r Hs Hd Hr Hp Hsc. unfold int_to_decimal.
  destruct (pow_in true I32 10 (Z.abs_nat sc)) as [a32| |] eqn:Ep; cbn [obind]; try discriminate.
  pose proof (pow_in_true_ok _ _ _ _ Ep) as Ha. rewrite Zabs2Nat.id_abs, Z.abs_eq in Ha by lia.
  assert (Hr32 : in_range I32 a32 = true).
  { destruct (Z.abs_nat sc) as [|k] eqn:Ek; cbn [pow_in] in Ep.
    - inversion Ep. reflexivity.
    - destruct (pow_in true I32 10 k); cbn [obind] in Ep; try discriminate.
      apply unchecked_true_ok in Ep. destruct Ep as [-> Hx]. exact Hx. }
  assert (Hdw : std_width (i_bits (d_prim d))) by (destruct Hd as [-> | ->]; cbn; unfold std_width; auto).
  rewrite (cast_int_exact_or_error I32 (d_prim d) a32) by (auto; unfold std_width; cbn; auto).
  unfold int_spec at 1. destruct (in_range (d_prim d) a32); cbn [obind]; try discriminate.
  rewrite (cast_int_exact_or_error s (d_prim d) v Hs Hdw Hr).
  unfold int_spec. destruct (in_range (d_prim d) v); cbn [obind]; try discriminate.
  destruct (0 <? sc) eqn:Esc.
  - destruct (checked (d_prim d) (v * a32)) as [val| |] eqn:Ec; cbn [obind]; try discriminate.
    apply checked_ok in Ec. destruct Ec as [-> _].
    destruct (validate_precision true d (v * a32) p) as [[]| |] eqn:Ev; cbn [obind]; try discriminate.
    intros H; inversion H; subst r. split; [apply (validate_precision_sound d _ p Hd Hp Ev)|rewrite Ha; reflexivity].
  - assert (sc = 0) by lia. subst sc. cbn in Ha. subst a32.
    unfold checked_div. cbn [Z.eqb]. rewrite Z.quot_1_r.
    destruct (checked (d_prim d) v) as [val| |] eqn:Ec; cbn [obind]; try discriminate.
    apply checked_ok in Ec. destruct Ec as [-> _].
    destruct (validate_precision true d v p) as [[]| |] eqn:Ev; cbn [obind]; try discriminate.
    intros H; inversion H; subst r. split; [apply (validate_precision_sound d _ p Hd Hp Ev)|cbn; lia].
Qed.

Example int_to_decimal_sat : int_to_decimal true (mk_ity true 32) D64 5 2 123 = Ok 12300.
Proof. vm_compute. reflexivity. Qed.

(* float -> DECIMAL(p,s): the result fits the precision *)
Lemma float_to_decimal_fits_or_error : forall f d p sc bits r, std_dty d -> 0 <= p ->
  float_to_decimal true f d p sc bits = Ok r -> Z.abs r < 10 ^ p.
Proof.
  intros f d p sc bits r Hd Hp. unfold float_to_decimal.
  destruct (pow_in true I32 10 (Z.abs_nat sc)) as [a32| |]; cbn [obind]; try discriminate.
  destruct (decode f bits) as [|n1|n1 m1 e1]; destruct (round_float f (a32 <? 0) (Z.abs a32) 0) as [|n2|n2 m2 e2];
    try discriminate.
  destruct (round_float f (xorb n1 n2) (m1 * m2) (e1 + e2)) as [|n3|n3 m3 e3]; try discriminate.
  destruct (in_range (d_prim d) _); try discriminate.
  destruct (validate_precision true d _ p) as [[]| |] eqn:Ev; cbn [obind]; try discriminate.
  intros H; inversion H; subst r. apply (validate_precision_sound d _ p Hd Hp Ev).
Qed.

(* decimal -> decimal, downscale: round half away from zero *)
Lemma quot_half_away : forall v h, 0 < h ->
  Z.quot (v + (if 0 <=? v then h else - h)) (2 * h) = rha_div v (2 * h).
Proof.
  intros v h Hh. unfold rha_div. destruct (0 <=? v) eqn:E.
  - rewrite Z.quot_div_nonneg by lia. rewrite Z.abs_eq by lia.
    replace (2 * v + 2 * h) with (2 * (v + h)) by lia. rewrite Z.div_mul_cancel_l by lia.
    destruct (Z.eq_dec v 0) as [->|Hn].
    + cbn [Z.sgn]. rewrite Z.div_small by lia. reflexivity.
    + rewrite Z.sgn_pos by lia. lia.
  - replace (v + - h) with (- (- v + h)) by lia. rewrite Z.quot_opp_l by lia.
    rewrite Z.quot_div_nonneg by lia. rewrite Z.sgn_neg by lia. rewrite Z.abs_neq by lia.
    replace (2 * - v + 2 * h) with (2 * (- v + h)) by lia. rewrite Z.div_mul_cancel_l by lia. lia.
Qed.

Lemma rescale_rounds_half_away : forall d1 d2 s1 p2 s2 v r,
  std_dty d1 -> std_dty d2 -> in_range (d_prim d1) v = true -> s2 < s1 ->
  decimal_to_decimal true d1 d2 s1 p2 s2 v = Ok r ->
  r = rha_div v (10 ^ (s1 - s2)).
Proof.
  intros d1 d2 s1 p2 s2 v r Hd1 Hd2 Hr Hs. unfold decimal_to_decimal.
  destruct (pow_in true (d_prim d2) 10 (Z.abs_nat (s1 - s2))) as [amt| |] eqn:Ep; cbn [obind]; try discriminate.
  pose proof (pow_in_true_ok _ _ _ _ Ep) as Ha. rewrite Zabs2Nat.id_abs, Z.abs_eq in Ha by lia.
  assert (Hw1 : std_width (i_bits (d_prim d1))) by (destruct Hd1 as [-> | ->]; cbn; unfold std_width; auto).
  assert (Hw2 : std_width (i_bits (d_prim d2))) by (destruct Hd2 as [-> | ->]; cbn; unfold std_width; auto).
  rewrite (cast_int_exact_or_error (d_prim d1) (d_prim d2) v Hw1 Hw2 Hr).
  unfold int_spec. destruct (in_range (d_prim d2) v); cbn [obind]; try discriminate.
  replace (s1 - s2 <? 0) with false by lia. replace (0 <? s1 - s2) with true by lia.
  set (k := s1 - s2) in *.
  assert (Hamt : amt = 2 * (5 * 10 ^ (k - 1))).
  { rewrite Ha. replace k with (Z.succ (k - 1)) at 1 by lia. rewrite Z.pow_succ_r by lia. lia. }
  assert (Hh : 0 < 5 * 10 ^ (k - 1)) by (assert (0 < 10 ^ (k - 1)) by (apply Z.pow_pos_nonneg; lia); lia).
  set (h := 5 * 10 ^ (k - 1)) in *.
  assert (Hq : Z.quot amt 2 = h) by (rewrite Hamt, Z.mul_comm, Z.quot_mul by lia; reflexivity).
  rewrite Hq.
  destruct (checked (d_prim d2) (v + (if 0 <=? v then h else - h))) as [w| |] eqn:Ec; cbn [obind]; try discriminate.
  apply checked_ok in Ec. destruct Ec as [-> _].
  unfold checked_div. replace (amt =? 0) with false by lia.
  intros H. apply checked_ok in H. destruct H as [-> _].
  rewrite <- Ha, Hamt. apply quot_half_away. exact Hh.
Qed.

Example rescale_sat : decimal_to_decimal true D64 D64 3 5 2 12345 = Ok 1235 /\ decimal_to_decimal true D64 D64 3 5 2 (-12345) = Ok (-1235).
Proof. vm_compute. split; reflexivity. Qed.

(* full strength "the result respects the target precision" is false for the code as written *)
Lemma rescale_respects_precision_refuted :
  exists d1 d2 s1 p2 s2 v r, decimal_to_decimal true d1 d2 s1 p2 s2 v = Ok r /\ 10 ^ p2 <= Z.abs r
                             /\ rescale_spec s1 p2 s2 v = Err.
Proof. exists D64, D64, 2, 3, 1, 12345, 1235. vm_compute. repeat split; congruence. Qed.

(* defects of the same family, each pinned by a closed witness on the faithful model *)
Lemma int_to_decimal_scale10_panics : int_to_decimal true (mk_ity true 32) D64 18 10 1 = Panic
  /\ int_to_decimal false (mk_ity true 32) D64 18 10 1 = Ok 1410065408.
Proof. vm_compute. split; reflexivity. Qed.

Lemma int_to_decimal_min_panics : int_to_decimal true I64 D64 18 0 (- 2 ^ 63) = Panic.
Proof. vm_compute. reflexivity. Qed.

Lemma rescale_narrows_before_downscale :
  decimal_to_decimal true D128 D64 5 18 0 9999999999999999999 = Err /\ rescale_spec 5 18 0 9999999999999999999 = Ok 100000000000000.
Proof. vm_compute. split; reflexivity. Qed.

(* float -> decimal: the product is rounded to the float format first (1.115 -> 1.12, exact rule 1.11) *)
Lemma float_to_decimal_double_rounding :
  float_to_decimal true F64 D64 5 2 4607700332757165015 = Ok 112.
Proof. vm_compute. reflexivity. Qed.
